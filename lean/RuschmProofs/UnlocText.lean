/-
Location erasure commutes with the reader, the macro expander and the transformer
(continuation of `UnlocLemmas.lean`).
-/
import RuschmProofs.UnlocLemmas
import RuschmProofs.ReadLemmas
set_option linter.unusedSimpArgs false
set_option linter.unusedVariables false
namespace Ruschm
open Read Ruschm.Text

/-- only the error's location erased -/
def eraseErr {β} : Except SErr β → Except SErr β
  | .error e => .error e.unloc
  | .ok x => .ok x

@[simp] theorem eraseErr_ok {β} (x : β) : eraseErr (.ok x : Except SErr β) = .ok x := rfl
@[simp] theorem eraseErr_error {β} (e : SErr) : eraseErr (.error e : Except SErr β) = .error e.unloc := rfl

/-- a reader result without locations -/
def PRes.unloc {α} (f : α → α) : Except SErr (α × PState) → Except SErr (α × PState)
  | .ok (a, s) => .ok (f a, s.unloc)
  | .error e => .error e.unloc

@[simp] theorem PRes.unloc_ok {α} (f : α → α) (a : α) (s : PState) : PRes.unloc f (.ok (a, s)) = .ok (f a, s.unloc) := rfl
@[simp] theorem PRes.unloc_error {α} (f : α → α) (e : SErr) : PRes.unloc f (.error e) = .error e.unloc := rfl

@[simp] theorem PState.unloc_cur (s : PState) : s.unloc.cur = s.cur.map LToken.unloc := rfl
@[simp] theorem PState.unloc_loc (s : PState) : s.unloc.loc = none := rfl
@[simp] theorem PState.unloc_toks (s : PState) : s.unloc.toks = s.toks.map LToken.unloc := rfl
@[simp] theorem PState.unloc_lexErr (s : PState) : s.unloc.lexErr = s.lexErr.map (fun _ => (0, 0)) := rfl
@[simp] theorem LToken.unloc_tok (t : LToken) : t.unloc.tok = t.tok := rfl
@[simp] theorem LToken.unloc_loc (t : LToken) : t.unloc.loc = none := rfl

theorem advance_unloc (s : PState) :
    eraseErr (advance s.unloc) = match advance s with | .ok s' => .ok s'.unloc | .error e => .error e.unloc := by
  unfold advance
  cases h : s.toks with
  | cons t rest => simp [h, PState.unloc]
  | nil =>
    cases h2 : s.lexErr with
    | some e => simp [h, h2]
    | none => simp [h, h2, PState.unloc]

theorem advanceUnwrap_unloc (s : PState) :
    eraseErr (advanceUnwrap s.unloc) = PRes.unloc LToken.unloc (advanceUnwrap s) := by
  have h := advance_unloc s
  unfold advanceUnwrap
  cases ha : advance s with
  | error e =>
    rw [ha] at h
    cases hb : advance s.unloc with
    | ok s1 => rw [hb] at h; cases h
    | error e' => rw [hb] at h; simp [bind, Except.bind] at h ⊢; exact h
  | ok s' =>
    rw [ha] at h
    cases hb : advance s.unloc with
    | error e' => rw [hb] at h; cases h
    | ok s1 =>
      rw [hb] at h
      simp only [eraseErr_ok, Except.ok.injEq] at h
      subst h
      simp only [bind, Except.bind, PState.unloc_cur, PState.unloc_loc]
      cases s'.cur <;> simp [pure, Except.pure]

theorem peek_unloc (s : PState) :
    eraseErr (peek s.unloc) = match peek s with | .ok o => .ok (o.map LToken.unloc) | .error e => .error e.unloc := by
  unfold peek
  cases h : s.toks with
  | cons t rest => simp [h]
  | nil =>
    cases h2 : s.lexErr with
    | some e => simp [h, h2]
    | none => simp [h, h2]


theorem bind_unloc {α β} {f : α → α} {h : β → β} {x' x : Except SErr (α × PState)}
    {g' g : α × PState → Except SErr (β × PState)}
    (hx : eraseErr x' = PRes.unloc f x)
    (hg : ∀ a s, eraseErr (g' (f a, s.unloc)) = PRes.unloc h (g (a, s))) :
    eraseErr (x' >>= g') = PRes.unloc h (x >>= g) := by
  cases x with
  | error e =>
    cases x' with
    | ok r => cases hx
    | error e' => simpa [bind, Except.bind] using hx
  | ok r =>
    obtain ⟨a, s⟩ := r
    cases x' with
    | error e' => cases hx
    | ok r' =>
      simp only [eraseErr_ok, PRes.unloc_ok, Except.ok.injEq] at hx
      subst hx
      exact hg a s

theorem bind_unloc_adv {β} {h : β → β} {s : PState}
    {g' g : PState → Except SErr (β × PState)}
    (hg : ∀ s1, eraseErr (g' s1.unloc) = PRes.unloc h (g s1)) :
    eraseErr (advance s.unloc >>= g') = PRes.unloc h (advance s >>= g) := by
  have hx := advance_unloc s
  cases x : advance s with
  | error e =>
    rw [x] at hx
    cases x' : advance s.unloc with
    | ok r => rw [x'] at hx; cases hx
    | error e' => rw [x'] at hx; simpa [bind, Except.bind] using hx
  | ok s1 =>
    rw [x] at hx
    cases x' : advance s.unloc with
    | error e' => rw [x'] at hx; cases hx
    | ok r' =>
      rw [x'] at hx
      simp only [eraseErr_ok, Except.ok.injEq] at hx
      subst hx
      exact hg s1

theorem bind_unloc_peek {β} {h : β → β} {s : PState}
    {g' g : Option LToken → Except SErr (β × PState)}
    (hg : ∀ o, eraseErr (g' (o.map LToken.unloc)) = PRes.unloc h (g o)) :
    eraseErr (peek s.unloc >>= g') = PRes.unloc h (peek s >>= g) := by
  have hx := peek_unloc s
  cases x : peek s with
  | error e =>
    rw [x] at hx
    cases x' : peek s.unloc with
    | ok r => rw [x'] at hx; cases hx
    | error e' => rw [x'] at hx; simpa [bind, Except.bind] using hx
  | ok s1 =>
    rw [x] at hx
    cases x' : peek s.unloc with
    | error e' => rw [x'] at hx; cases hx
    | ok r' =>
      rw [x'] at hx
      simp only [eraseErr_ok, Except.ok.injEq] at hx
      subst hx
      exact hg s1

theorem strip_withLoc_none (d : Datum) : d.strip.withLoc none = d.strip := by
  cases d <;> simp [Datum.withLoc, Datum.strip]

@[simp] theorem strip_mkQuote (l : Loc) (d : Datum) : (mkQuote l d).strip = mkQuote none d.strip := by
  simp [mkQuote, Datum.strip]

theorem stripList_eq_map' (ds : List Datum) : Datum.stripList ds = ds.map Datum.strip := by
  induction ds with
  | nil => rfl
  | cons d ds ih => simp [Datum.stripList, ih]

structure ReadUnlocAt (fuel : Nat) : Prop where
  cur : ∀ s, eraseErr (currentDatum fuel s.unloc) = PRes.unloc (Option.map Datum.strip) (currentDatum fuel s)
  loop : ∀ s loc acc dot, eraseErr (listLoop fuel s.unloc none acc.strip dot) =
    PRes.unloc Datum.strip (listLoop fuel s loc acc dot)
  rep : ∀ s acc, eraseErr (repeatDatum fuel s.unloc (acc.map Datum.strip)) =
    PRes.unloc (List.map Datum.strip) (repeatDatum fuel s acc)
  dat : ∀ s, eraseErr (datum fuel s.unloc) = PRes.unloc Datum.strip (datum fuel s)
  quo : ∀ s, eraseErr (parseQuoted fuel s.unloc) = PRes.unloc Datum.strip (parseQuoted fuel s)

theorem readUnlocAt_zero : ReadUnlocAt 0 := by
  constructor <;> intros <;> simp only [currentDatum, listLoop, repeatDatum, datum, parseQuoted] <;> rfl


section succ
variable {fuel : Nat} (ih : ReadUnlocAt fuel)
include ih

theorem r_listOrPair (s : PState) :
    eraseErr (listOrPair fuel s.unloc) = PRes.unloc Datum.strip (listOrPair fuel s) := by
  unfold listOrPair
  exact ih.loop s s.loc (.nil none) false

theorem r_cur (s : PState) : eraseErr (currentDatum (fuel + 1) s.unloc) =
    PRes.unloc (Option.map Datum.strip) (currentDatum (fuel + 1) s) := by
  rw [currentDatum, currentDatum]
  cases hc : s.cur with
  | none => simp [hc]
  | some t =>
    simp only [PState.unloc_cur, hc, Option.map_some, LToken.unloc_tok, LToken.unloc_loc]
    have e : ({ s.unloc with cur := none } : PState) = ({ s with cur := none } : PState).unloc := rfl
    rw [e]
    cases t.tok with
    | prim p => simp [Datum.strip]
    | ident a => simp [Datum.strip]
    | lparen =>
      simp only
      exact bind_unloc (r_listOrPair ih _) (fun a s1 => rfl)
    | rparen => rfl
    | vecIntro =>
      simp only
      refine bind_unloc (f := List.map Datum.strip) (ih.rep _ []) (fun a s1 => ?_)
      simp [pure, Except.pure, Datum.strip, stripList_eq_map']
    | quote =>
      simp only
      refine bind_unloc_adv (fun s1 => ?_)
      exact bind_unloc (ih.quo s1) (fun a s2 => rfl)
    | _ => rfl

theorem r_loop (s : PState) (loc : Loc) (acc : Datum) (dot : Bool) :
    eraseErr (listLoop (fuel + 1) s.unloc none acc.strip dot) =
      PRes.unloc Datum.strip (listLoop (fuel + 1) s loc acc dot) := by
  rw [listLoop, listLoop]
  refine bind_unloc (advanceUnwrap_unloc s) (fun t s1 => ?_)
  simp only [LToken.unloc_tok, LToken.unloc_loc]
  cases ht : t.tok with
  | period =>
    simp only
    cases dot with
    | true => rfl
    | false => exact ih.loop s1 loc acc true
  | rparen => simp [pure, Except.pure, strip_withLoc, strip_withLoc_none]
  | _ =>
    simp only
    refine bind_unloc (ih.cur s1) (fun od s2 => ?_)
    cases od with
    | none => rfl
    | some element =>
      simp only [Option.map_some]
      cases acc with
      | pair a d l =>
        simp only [Datum.strip]
        cases dot with
        | true =>
          simp only [if_true]
          refine bind_unloc (advanceUnwrap_unloc s2) (fun t2 s3 => ?_)
          simp only [LToken.unloc_tok]
          have := strip_setTail (.pair a d l) element
          simp only [Datum.strip] at this
          by_cases h2 : t2.tok = Token.rparen
          · simp [h2, pure, Except.pure, strip_withLoc, ← this, strip_withLoc_none]
          · simp [h2]
        | false =>
          simp only [Bool.false_eq_true, if_false]
          have := strip_snoc (.pair a d l) element
          simp only [Datum.strip] at this
          rw [← this]
          exact ih.loop s2 loc _ false
      | _ =>
        simp only [Datum.strip]
        exact ih.loop s2 loc (.pair element (.nil none) none) dot

theorem r_rep (s : PState) (acc : List Datum) :
    eraseErr (repeatDatum (fuel + 1) s.unloc (acc.map Datum.strip)) =
      PRes.unloc (List.map Datum.strip) (repeatDatum (fuel + 1) s acc) := by
  rw [repeatDatum, repeatDatum]
  refine bind_unloc_peek (fun o => ?_)
  cases o with
  | none => rfl
  | some t =>
    simp only [Option.map_some, LToken.unloc_tok, PState.unloc_loc]
    by_cases h2 : t.tok = Token.rparen
    · simp only [h2, if_true]
      refine bind_unloc_adv (fun s1 => ?_)
      simp [pure, Except.pure]
    · simp only [h2, if_false]
      refine bind_unloc_adv (fun s1 => ?_)
      refine bind_unloc (ih.dat s1) (fun d s2 => ?_)
      exact ih.rep s2 (d :: acc)

theorem r_dat (s : PState) : eraseErr (datum (fuel + 1) s.unloc) = PRes.unloc Datum.strip (datum (fuel + 1) s) := by
  rw [datum, datum]
  simp only [PState.unloc_loc, PState.unloc_cur]
  cases hc : s.cur with
  | none => rfl
  | some t =>
    simp only [Option.map_some, LToken.unloc_tok]
    cases t.tok with
    | lparen => exact r_listOrPair ih s
    | vecIntro =>
      simp only
      refine bind_unloc (f := List.map Datum.strip) (ih.rep s []) (fun a s1 => ?_)
      simp [pure, Except.pure, Datum.strip, stripList_eq_map']
    | ident a => simp [Datum.strip]
    | prim p => simp [Datum.strip]
    | quote =>
      simp only
      refine bind_unloc_adv (fun s1 => ?_)
      exact ih.quo s1
    | _ => rfl

theorem r_quo (s : PState) : eraseErr (parseQuoted (fuel + 1) s.unloc) =
    PRes.unloc Datum.strip (parseQuoted (fuel + 1) s) := by
  rw [parseQuoted, parseQuoted]
  refine bind_unloc (ih.dat s) (fun d s2 => ?_)
  simp [pure, Except.pure]

end succ

theorem readUnlocAt : ∀ fuel, ReadUnlocAt fuel
  | 0 => readUnlocAt_zero
  | n + 1 =>
    have ih := readUnlocAt n
    ⟨r_cur ih, r_loop ih, r_rep ih, r_dat ih, r_quo ih⟩

@[simp] theorem fuelFor_unloc (s : PState) : fuelFor s.unloc = fuelFor s := by simp [fuelFor]

theorem nextDatum_unloc (s : PState) :
    eraseErr (nextDatum s.unloc) = PRes.unloc (Option.map Datum.strip) (nextDatum s) := by
  unfold nextDatum
  refine bind_unloc_adv (fun s1 => ?_)
  rw [fuelFor_unloc]
  exact (readUnlocAt _).cur s1

end Ruschm

/-! # the macro expander -/

namespace Ruschm
open Macro

/-- a result whose error has lost its location -/
def mapE {α β} (f : α → β) : Except SErr α → Except SErr β
  | .ok a => .ok (f a)
  | .error e => .error e.unloc

@[simp] theorem mapE_ok {α β} (f : α → β) (a : α) : mapE f (.ok a) = .ok (f a) := rfl
@[simp] theorem mapE_error {α β} (f : α → β) (e : SErr) : mapE f (.error e : Except SErr α) = .error e.unloc := rfl

theorem mapE_bind {α β γ δ} (f : α → β) (h : γ → δ) (x : Except SErr α) (g : α → Except SErr γ) (g' : β → Except SErr δ)
    (hg : ∀ a, g' (f a) = mapE h (g a)) : (mapE f x >>= g') = mapE h (x >>= g) := by
  cases x with
  | error e => rfl
  | ok a => exact hg a

/-! ## data -/

@[simp] theorem Datum.strip_loc (d : Datum) : d.strip.loc = none := by
  cases d <;> simp [Datum.strip, Datum.loc]

@[simp] theorem Datum.strip_strip : ∀ (d : Datum), d.strip.strip = d.strip
  | .prim _ _ | .sym _ _ | .nil _ => by simp [Datum.strip]
  | .pair a d _ => by simp [Datum.strip, Datum.strip_strip a, Datum.strip_strip d]
  | .vec xs _ => by
    simp only [Datum.strip, stripList_eq_map', List.map_map]
    congr 1
    apply List.map_congr_left
    intro x hx
    exact Datum.strip_strip x
decreasing_by
  all_goals simp_wf
  all_goals first
    | omega
    | (have := List.sizeOf_lt_of_mem hx; omega)

theorem Datum.strip_spine : ∀ (d : Datum),
    d.strip.spine = (d.spine.1.map Datum.strip, d.spine.2.map Datum.strip)
  | .pair a d _ => by simp [Datum.strip, Datum.spine, Datum.strip_spine d]
  | .nil _ => by simp [Datum.strip, Datum.spine]
  | .prim _ _ | .sym _ _ | .vec _ _ => by simp [Datum.strip, Datum.spine]

@[simp] theorem Datum.strip_elems (d : Datum) : d.strip.elems = d.elems.map Datum.strip := by
  unfold Datum.elems
  rw [Datum.strip_spine]
  rcases d.spine with ⟨xs, _ | t⟩ <;> simp

mutual
theorem Datum.strip_size : ∀ (d : Datum), d.strip.size = d.size
  | .prim _ _ | .sym _ _ | .nil _ => by simp [Datum.strip, Datum.size]
  | .pair a d _ => by simp [Datum.strip, Datum.size, Datum.strip_size a, Datum.strip_size d]
  | .vec xs _ => by simp [Datum.strip, Datum.size, Datum.stripList_size xs]
theorem Datum.stripList_size : ∀ (xs : List Datum), Datum.sizeList (Datum.stripList xs) = Datum.sizeList xs
  | [] => rfl
  | x :: xs => by simp [Datum.stripList, Datum.sizeList, Datum.strip_size x, Datum.stripList_size xs]
end

theorem Datum.strip_ofList (l : Loc) : ∀ (xs : List Datum),
    (Datum.ofList l xs).strip = Datum.ofList none (xs.map Datum.strip)
  | [] => by simp [Datum.ofList, Datum.strip]
  | x :: xs => by simp [Datum.ofList, Datum.strip, Datum.strip_ofList none xs]


/-! ## patterns and templates -/

mutual
theorem toPat_strip : ∀ (d : Datum), toPat d.strip = toPat d
  | .sym _ _ | .prim _ _ | .nil _ => by simp [Datum.strip, toPat]
  | .pair a d _ => by simp [Datum.strip, toPat, toPat_strip a, toPat_strip d]
  | .vec xs _ => by simp [Datum.strip, toPat, toPats_strip xs]
theorem toPats_strip : ∀ (xs : List Datum), toPats (Datum.stripList xs) = toPats xs
  | [] => rfl
  | x :: xs => by simp [Datum.stripList, toPats, toPat_strip x, toPats_strip xs]
end

theorem isEllipsis_cases (a : Datum) :
    (∃ l, a = .sym "..." l) ∨ ((∀ l, a = .sym "..." l → False) ∧ (∀ l, a.strip = .sym "..." l → False)) := by
  cases a with
  | sym s l =>
    by_cases h : s = "..."
    · exact .inl ⟨l, by rw [h]⟩
    · exact .inr ⟨fun l' h' => h (by cases h'; rfl), fun l' h' => h (by simp [Datum.strip] at h'; exact h'.1)⟩
  | prim _ _ | nil _ | pair _ _ _ | vec _ _ =>
    exact .inr ⟨fun l' h' => (by cases h'), fun l' h' => (by simp [Datum.strip] at h')⟩

theorem mapE_id_bind {α γ} (x : Except SErr α) (g g' : α → Except SErr γ)
    (hg : ∀ a, g' a = mapE id (g a)) : (mapE id x >>= g') = mapE id (x >>= g) :=
  mapE_bind id id x g g' hg

theorem mapE_id_map {α γ} (f : α → γ) (x : Except SErr α) : (f <$> mapE id x) = mapE id (f <$> x) := by
  cases x <;> rfl

mutual
theorem toTmpl_strip : ∀ (d : Datum), toTmpl d.strip = mapE id (toTmpl d)
  | .sym _ _ | .prim _ _ | .nil _ => by simp [Datum.strip, toTmpl]
  | .pair a d l => by
    rw [Datum.strip]
    rcases isEllipsis_cases a with ⟨l', rfl⟩ | ⟨h1, h2⟩
    · rw [Datum.strip, toTmpl.eq_4, toTmpl.eq_4]; rfl
    · rw [toTmpl.eq_5 _ _ _ h1, toTmpl.eq_5 _ _ _ h2, toTmpl_strip a]
      refine mapE_id_bind _ _ _ (fun t => ?_)
      rw [collectSpine_strip d (some t)]
      exact mapE_id_bind _ _ _ (fun es => rfl)
  | .vec xs _ => by
    simp only [Datum.strip, toTmpl]
    rw [collectElems_strip xs none]
    cases collectElems xs none <;> rfl
theorem collectSpine_strip : ∀ (d : Datum) (last : Option Tmpl), collectSpine d.strip last = mapE id (collectSpine d last)
  | .nil _, last => by cases last <;> simp [Datum.strip, collectSpine]
  | .sym s l, last => by
    cases last <;> simp only [Datum.strip, collectSpine] <;> split <;> rfl
  | .prim q _, last => by cases last <;> simp [Datum.strip, collectSpine]
  | .vec xs _, last => by
    simp only [Datum.strip, collectSpine]
    rw [collectElems_strip xs none]
    cases collectElems xs none <;> rfl
  | .pair a d _, last => by
    rw [Datum.strip]
    rcases isEllipsis_cases a with ⟨l', rfl⟩ | ⟨h1, h2⟩
    · cases last with
      | none => rw [Datum.strip, collectSpine.eq_2, collectSpine.eq_2]; rfl
      | some t =>
        rw [Datum.strip, collectSpine.eq_1, collectSpine.eq_1, collectSpine_strip d none]
        exact mapE_id_bind _ _ _ (fun es => rfl)
    · rw [collectSpine.eq_3 _ _ _ _ h1, collectSpine.eq_3 _ _ _ _ h2, toTmpl_strip a]
      refine mapE_id_bind _ _ _ (fun t => ?_)
      rw [collectSpine_strip d (some t)]
      exact mapE_id_bind _ _ _ (fun es => rfl)
theorem collectElems_strip : ∀ (xs : List Datum) (last : Option Tmpl),
    collectElems (Datum.stripList xs) last = mapE id (collectElems xs last)
  | [], last => by cases last <;> simp [Datum.stripList, collectElems]
  | x :: xs, last => by
    rw [Datum.stripList]
    rcases isEllipsis_cases x with ⟨l', rfl⟩ | ⟨h1, h2⟩
    · cases last with
      | none => rw [Datum.strip, collectElems.eq_4, collectElems.eq_4]; rfl
      | some t =>
        rw [Datum.strip, collectElems.eq_3, collectElems.eq_3, collectElems_strip xs none]
        exact mapE_id_bind _ _ _ (fun es => rfl)
    · rw [collectElems.eq_5 _ _ _ h1, collectElems.eq_5 _ _ _ h2, toTmpl_strip x]
      refine mapE_id_bind _ _ _ (fun t => ?_)
      rw [collectElems_strip xs (some t)]
      exact mapE_id_bind _ _ _ (fun es => rfl)
end


@[simp] theorem expectList_strip (d : Datum) : expectList d.strip = mapE Datum.strip (expectList d) := by
  cases d <;> simp [Datum.strip, expectList]

@[simp] theorem identOf_strip (d : Datum) : identOf d.strip = mapE id (identOf d) := by
  cases d <;> simp [Datum.strip, identOf, Datum.loc]

@[simp] theorem popProper_strip (d : Datum) :
    popProper d.strip = mapE (Option.map (fun p => (p.1.strip, p.2.strip))) (popProper d) := by
  cases d with
  | pair a d l => cases d <;> simp [Datum.strip, popProper]
  | _ => simp [Datum.strip, popProper]

theorem mapM_mapE {α β γ} (g : α → β) (f : α → Except SErr γ) (f' : β → Except SErr γ)
    (h : ∀ x, f' (g x) = mapE id (f x)) : ∀ (xs : List α), (xs.map g).mapM f' = mapE id (xs.mapM f)
  | [] => rfl
  | x :: xs => by
    simp only [List.map_cons, List.mapM_cons, h x]
    refine mapE_id_bind _ _ _ (fun a => ?_)
    rw [mapM_mapE g f f' h xs]
    exact mapE_id_bind _ _ _ (fun as => rfl)

theorem toRule_strip (k : String) (d : Datum) : toRule k d.strip = mapE id (toRule k d) := by
  unfold toRule
  rw [expectList_strip]
  refine mapE_bind Datum.strip id _ _ _ (fun d1 => ?_)
  rw [Datum.strip_elems]
  cases d1.elems with
  | nil => rfl
  | cons pd rest =>
    simp only [List.map_cons, expectList_strip]
    refine mapE_bind Datum.strip id _ _ _ (fun pd1 => ?_)
    rw [popProper_strip]
    refine mapE_bind _ id _ _ _ (fun o => ?_)
    cases o with
    | none => rfl
    | some p =>
      obtain ⟨first, patRest⟩ := p
      simp only [Option.map_some]
      cases first with
      | sym kk l =>
        simp only [Datum.strip]
        split
        · rfl
        · cases rest with
          | nil => rfl
          | cons td more =>
            simp only [List.map_cons, toTmpl_strip, toPat_strip]
            exact mapE_id_bind _ _ _ (fun t => rfl)
      | _ => rfl

theorem toRules_tail (k : String) (lits ruleData : List Datum) :
    (do let lits ← (lits.map Datum.strip).mapM identOf
        let rules ← (ruleData.map Datum.strip).mapM (toRule k)
        pure ({ literals := lits, rules := rules } : Rules)) =
    mapE id (do let lits ← lits.mapM identOf
                let rules ← ruleData.mapM (toRule k)
                pure ({ literals := lits, rules := rules } : Rules)) := by
  rw [mapM_mapE Datum.strip identOf identOf (fun x => identOf_strip x)]
  refine mapE_id_bind _ _ _ (fun lits' => ?_)
  rw [mapM_mapE Datum.strip (toRule k) (toRule k) (fun x => toRule_strip k x)]
  exact mapE_id_bind _ _ _ (fun rules => rfl)

theorem toRules_strip (k : String) (d : Datum) : toRules k d.strip = mapE id (toRules k d) := by
  unfold toRules
  rw [expectList_strip]
  refine mapE_bind Datum.strip id _ _ _ (fun d1 => ?_)
  rw [Datum.strip_elems, ← List.map_drop]
  cases d1.elems.drop 1 with
  | nil => rfl
  | cons first rest =>
    simp only [List.map_cons]
    cases first with
    | sym s l =>
      simp only [Datum.strip]
      cases rest with
      | nil => rfl
      | cons ld rest' =>
        simp only [List.map_cons, expectList_strip, bind_assoc]
        refine mapE_bind Datum.strip id _ _ _ (fun x => ?_)
        simp only [pure_bind, Datum.strip_elems]
        exact toRules_tail k _ _
    | pair a b l =>
      have := toRules_tail k (Datum.pair a b l).elems rest
      have e : (Datum.pair a.strip b.strip none).elems = (Datum.pair a b l).elems.map Datum.strip := by
        rw [← Datum.strip_elems]; simp [Datum.strip]
      simp only [Datum.strip, e]
      exact this
    | nil l =>
      have := toRules_tail k (Datum.nil l).elems rest
      have e : (Datum.nil none).elems = (Datum.nil l).elems.map Datum.strip := by
        simp [Datum.elems, Datum.spine]
      simp only [Datum.strip, e]
      exact this
    | prim p l => rfl
    | vec xs l => rfl


/-! ## matching -/

def Subst.strip (σ : Subst) : Subst := σ.map (fun p => (p.1, p.2.1.strip, p.2.2.map Datum.strip))

@[simp] theorem Subst.strip_nil : Subst.strip [] = [] := rfl

@[simp] theorem Subst.strip_cons (k : String) (f : Datum) (more : List Datum) (σ : Subst) :
    Subst.strip ((k, f, more) :: σ) = (k, f.strip, more.map Datum.strip) :: Subst.strip σ := rfl

theorem Subst.strip_get? (σ : Subst) (v : String) :
    (Subst.strip σ).get? v = (σ.get? v).map (fun x => (x.1.strip, x.2.map Datum.strip)) := by
  induction σ with
  | nil => rfl
  | cons p σ ih =>
    obtain ⟨k, f, more⟩ := p
    simp only [Subst.strip_cons, Subst.get?]
    split
    · rfl
    · exact ih

theorem Subst.strip_insert (σ : Subst) (v : String) (x : Datum × List Datum) :
    Subst.strip (σ.insert v x) = (Subst.strip σ).insert v (x.1.strip, x.2.map Datum.strip) := by
  induction σ with
  | nil => rfl
  | cons p σ ih =>
    obtain ⟨k, f, more⟩ := p
    simp only [Subst.strip_cons, Subst.insert]
    split
    · rfl
    · simp [ih]

theorem Subst.strip_push? (σ : Subst) (v : String) (d : Datum) :
    (Subst.strip σ).push? v d.strip = (σ.push? v d).map Subst.strip := by
  induction σ with
  | nil => rfl
  | cons p σ ih =>
    obtain ⟨k, f, more⟩ := p
    simp only [Subst.strip_cons, Subst.push?]
    split
    · simp
    · rw [ih]; cases Subst.push? σ v d <;> simp

theorem pushAll_strip (τ : Subst) : ∀ (acc : Option Subst),
    (Subst.strip τ).foldl (fun acc (x : String × Datum × List Datum) =>
        acc.bind (fun s => Subst.push? s x.1 x.2.1)) (acc.map Subst.strip) =
      (τ.foldl (fun acc (x : String × Datum × List Datum) =>
        acc.bind (fun s => Subst.push? s x.1 x.2.1)) acc).map Subst.strip := by
  induction τ with
  | nil => intro acc; rfl
  | cons p τ ih =>
    intro acc
    obtain ⟨v, m, more⟩ := p
    simp only [Subst.strip_cons, List.foldl_cons]
    rw [← ih]
    congr 1
    cases acc with
    | none => rfl
    | some s => simp [Subst.strip_push?]


theorem Pat.spine_ok (p : Pat) : True := trivial

/-- result of a match without locations -/
abbrev mres : Except SErr (Bool × Subst) → Except SErr (Bool × Subst) := mapE (fun r => (r.1, Subst.strip r.2))

structure MatchUnlocAt (n : Nat) : Prop where
  datum : ∀ lits p d σ, matchDatum n lits p d.strip (Subst.strip σ) = mres (matchDatum n lits p d σ)
  stream : ∀ lits ps ds mm σ, matchStream n lits ps (ds.map Datum.strip) mm (Subst.strip σ) =
    mres (matchStream n lits ps ds mm σ)

theorem matchUnlocAt_zero : MatchUnlocAt 0 := by
  constructor <;> intros <;> simp only [matchDatum, matchStream] <;> rfl

theorem mres_bind {γ δ} (h : γ → δ) (x : Except SErr (Bool × Subst)) (g : Bool × Subst → Except SErr γ)
    (g' : Bool × Subst → Except SErr δ) (hg : ∀ b σ, g' (b, Subst.strip σ) = mapE h (g (b, σ))) :
    (mres x >>= g') = mapE h (x >>= g) :=
  mapE_bind _ h x g g' (fun a => hg a.1 a.2)

section succ
variable {n : Nat} (ih : MatchUnlocAt n)
include ih

theorem m_listcase (lits : List String) (p : Pat) (d : Datum) (σ : Subst) :
    (do
      let (ps, pt) := Pat.spine p
      let (ds, dt) := Datum.spine d.strip
      let (ok, σ) ← matchStream n lits ps ds none (Subst.strip σ)
      if ok then
        match pt, dt with
        | some lp, some ld => matchDatum n lits lp ld σ
        | none, none => pure (true, σ)
        | _, _ => pure (false, σ)
      else pure (false, σ)) =
    mres (do
      let (ps, pt) := Pat.spine p
      let (ds, dt) := Datum.spine d
      let (ok, σ) ← matchStream n lits ps ds none σ
      if ok then
        match pt, dt with
        | some lp, some ld => matchDatum n lits lp ld σ
        | none, none => pure (true, σ)
        | _, _ => pure (false, σ)
      else pure (false, σ)) := by
  rw [Datum.strip_spine]
  simp only [ih.stream]
  refine mres_bind _ _ _ _ (fun ok σ1 => ?_)
  cases ok with
  | false => rfl
  | true =>
    simp only [if_true]
    cases (Pat.spine p).2 with
    | none => cases d.spine.2 <;> rfl
    | some lp =>
      cases d.spine.2 with
      | none => rfl
      | some ld => exact ih.datum _ _ _ _

theorem m_datum (lits p d σ) :
    matchDatum (n + 1) lits p d.strip (Subst.strip σ) = mres (matchDatum (n + 1) lits p d σ) := by
  cases p with
  | underscore => simp only [matchDatum]; rfl
  | ellipsis => simp only [matchDatum]; rfl
  | pair pa pd =>
    cases d with
    | pair a b l => simp only [Datum.strip, matchDatum]; exact m_listcase ih lits (.pair pa pd) (.pair a b l) σ
    | nil l => simp only [Datum.strip, matchDatum]; exact m_listcase ih lits (.pair pa pd) (.nil l) σ
    | _ => simp only [Datum.strip, matchDatum]; rfl
  | nil =>
    cases d with
    | pair a b l => simp only [Datum.strip, matchDatum]; exact m_listcase ih lits .nil (.pair a b l) σ
    | nil l => simp only [Datum.strip, matchDatum]; exact m_listcase ih lits .nil (.nil l) σ
    | _ => simp only [Datum.strip, matchDatum]; rfl
  | vec ps =>
    cases d with
    | vec ds l => simp only [Datum.strip, matchDatum, stripList_eq_map']; exact ih.stream _ _ _ _ _
    | _ => simp only [Datum.strip, matchDatum]; rfl
  | ident v =>
    simp only [matchDatum]
    split
    · simp [mres, Subst.strip_insert]
    · cases d <;> simp [mres, Datum.strip]
  | prim a =>
    cases d <;> simp [Datum.strip, matchDatum, mres]


theorem m_stream (lits ps ds mm σ) :
    matchStream (n + 1) lits ps (ds.map Datum.strip) mm (Subst.strip σ) =
      mres (matchStream (n + 1) lits ps ds mm σ) := by
  cases ps with
  | nil =>
    cases ds with
    | nil => simp only [List.map_nil, matchStream]; rfl
    | cons d ds' => simp only [List.map_cons, matchStream]; rfl
  | cons p ps' =>
    cases ds with
    | nil =>
      simp only [List.map_nil, matchStream]
      cases p <;> cases mm <;> first | rfl | exact ih.stream lits ps' [] _ σ
    | cons d ds' =>
      simp only [List.map_cons, matchStream, ih.datum]
      refine mres_bind _ _ _ _ (fun ok σ1 => ?_)
      cases ok with
      | false => rfl
      | true =>
        simp only [Bool.not_true, Bool.false_eq_true, if_false]
        cases p with
        | ellipsis =>
          simp only
          cases mm with
          | none => rfl
          | some mp =>
            simp only
            have h0 := ih.datum lits mp d []
            rw [Subst.strip_nil] at h0
            rw [h0]
            refine mres_bind _ _ _ _ (fun ok2 τ => ?_)
            cases ok2 with
            | false => rfl
            | true =>
              simp only [Bool.not_true, Bool.false_eq_true, if_false]
              have hp := pushAll_strip τ (some σ1)
              simp only [Option.map_some] at hp
              have e : ∀ (τ : Subst) (init : Option Subst),
                  τ.foldl (fun acc (x : String × Datum × List Datum) =>
                    match x with | (v, (m, _)) => acc.bind (fun s => Subst.push? s v m)) init =
                  τ.foldl (fun acc (x : String × Datum × List Datum) =>
                    acc.bind (fun s => Subst.push? s x.1 x.2.1)) init := by
                intro τ init
                congr 1
              rw [e, e, hp]
              cases List.foldl (fun acc (x : String × Datum × List Datum) =>
                    acc.bind (fun s => Subst.push? s x.1 x.2.1)) (some σ1) τ with
              | none => rfl
              | some σ2 =>
                simp only [Option.map_some]
                have h1 := ih.stream lits (.ellipsis :: ps') ds' (some mp) σ2
                rw [h1]
                refine mres_bind _ _ _ _ (fun r σ3 => ?_)
                cases r with
                | true => rfl
                | false => simp only [Bool.false_eq_true, if_false]; exact ih.stream _ _ _ _ _
        | ident v =>
          simp only
          split
          · exact ih.stream _ _ _ _ _
          · exact ih.stream _ _ _ _ _
        | _ => exact ih.stream _ _ _ _ _

end succ

theorem matchUnlocAt : ∀ n, MatchUnlocAt n
  | 0 => matchUnlocAt_zero
  | n + 1 => ⟨m_datum (matchUnlocAt n), m_stream (matchUnlocAt n)⟩


/-! ## instantiating templates -/

mutual
theorem substItem_strip : ∀ (t : Tmpl) (σ : Subst) (i : Nat) (loc : Loc),
    substItem t (Subst.strip σ) i none = (substItem t σ i loc).map Datum.strip
  | .list es, σ, i, loc => by
    simp only [substItem, substItems_strip es σ i loc, Option.map_map]
    congr 1; funext xs; simp [Datum.strip_ofList]
  | .vec es, σ, i, loc => by
    simp only [substItem, substItems_strip es σ i loc, Option.map_map]
    congr 1; funext xs; simp [Datum.strip, stripList_eq_map']
  | .ident v, σ, i, loc => by
    simp only [substItem, Subst.strip_get?]
    cases σ.get? v with
    | none => simp [Datum.strip]
    | some x =>
      obtain ⟨f, more⟩ := x
      simp only [Option.map_some, List.isEmpty_map]
      split
      · rfl
      · simp
  | .prim p, σ, i, loc => by simp [substItem, Datum.strip]
theorem substItems_strip : ∀ (es : List (Tmpl × Bool)) (σ : Subst) (i : Nat) (loc : Loc),
    substItems es (Subst.strip σ) i none = (substItems es σ i loc).map (List.map Datum.strip)
  | [], σ, i, loc => by simp [substItems]
  | (t, b) :: rest, σ, i, loc => by
    simp only [substItems, substItem_strip t σ i loc]
    cases substItem t σ i loc with
    | none => rfl
    | some d =>
      simp only [Option.map_some, substItems_strip rest σ i loc]
      cases substItems rest σ i loc <;> simp
end

theorem substItemLoop_strip : ∀ (n : Nat) (t : Tmpl) (σ : Subst) (i : Nat) (loc : Loc),
    substItemLoop n t (Subst.strip σ) i none = (substItemLoop n t σ i loc).map (List.map Datum.strip)
  | 0, _, _, _, _ => rfl
  | n + 1, t, σ, i, loc => by
    simp only [substItemLoop, substItem_strip t σ i loc]
    cases substItem t σ i loc with
    | none => rfl
    | some d =>
      simp only [Option.map_some, substItemLoop_strip n t σ (i + 1) loc]
      cases substItemLoop n t σ (i + 1) loc <;> simp

mutual
theorem subst_strip (n : Nat) : ∀ (t : Tmpl) (σ : Subst) (loc : Loc),
    subst n t (Subst.strip σ) none = (subst n t σ loc).map Datum.strip
  | .list es, σ, loc => by
    simp only [subst, substElems_strip n es σ loc, Option.map_map]
    congr 1; funext xs; simp [Datum.strip_ofList]
  | .vec es, σ, loc => by
    simp only [subst, substElems_strip n es σ loc, Option.map_map]
    congr 1; funext xs; simp [Datum.strip, stripList_eq_map']
  | .ident v, σ, loc => by
    simp only [subst, Subst.strip_get?]
    cases σ.get? v with
    | none => simp [Datum.strip]
    | some x => simp
  | .prim p, σ, loc => by simp [subst, Datum.strip]
theorem substElems_strip (n : Nat) : ∀ (es : List (Tmpl × Bool)) (σ : Subst) (loc : Loc),
    substElems n es (Subst.strip σ) none = (substElems n es σ loc).map (List.map Datum.strip)
  | [], σ, loc => by simp [substElems]
  | (t, true) :: rest, σ, loc => by
    simp only [substElems, subst_strip n t σ loc, substItemLoop_strip n t σ 0 loc, substElems_strip n rest σ loc]
    cases subst n t σ loc <;> cases substItemLoop n t σ 0 loc <;> cases substElems n rest σ loc <;> simp
  | (t, false) :: rest, σ, loc => by
    simp only [substElems, subst_strip n t σ loc, substElems_strip n rest σ loc]
    cases subst n t σ loc <;> cases substElems n rest σ loc <;> simp
end

mutual
theorem mentionsVar_strip (σ : Subst) : ∀ (t : Tmpl), mentionsVar (Subst.strip σ) t = mentionsVar σ t
  | .list es => by simp [mentionsVar, mentionsVarElems_strip σ es]
  | .vec es => by simp [mentionsVar, mentionsVarElems_strip σ es]
  | .ident v => by simp [mentionsVar, Subst.strip_get?]
  | .prim _ => by simp [mentionsVar]
theorem mentionsVarElems_strip (σ : Subst) : ∀ (es : List (Tmpl × Bool)),
    mentionsVarElems (Subst.strip σ) es = mentionsVarElems σ es
  | [] => by simp [mentionsVarElems]
  | (t, b) :: rest => by simp [mentionsVarElems, mentionsVar_strip σ t, mentionsVarElems_strip σ rest]
end

mutual
theorem ellipsisOk_strip (σ : Subst) : ∀ (t : Tmpl), ellipsisOk (Subst.strip σ) t = ellipsisOk σ t
  | .list es => by simp [ellipsisOk, ellipsisOkElems_strip σ es]
  | .vec es => by simp [ellipsisOk, ellipsisOkElems_strip σ es]
  | .ident v => by simp [ellipsisOk]
  | .prim _ => by simp [ellipsisOk]
theorem ellipsisOkElems_strip (σ : Subst) : ∀ (es : List (Tmpl × Bool)),
    ellipsisOkElems (Subst.strip σ) es = ellipsisOkElems σ es
  | [] => by simp [ellipsisOkElems]
  | (t, b) :: rest => by
    simp [ellipsisOkElems, mentionsVar_strip σ t, ellipsisOk_strip σ t, ellipsisOkElems_strip σ rest]
end

theorem transformRules_strip (n : Nat) (lits : List String) : ∀ (rules : List (Pat × Tmpl)) (use : Datum),
    transformRules n lits rules use.strip = mapE Datum.strip (transformRules n lits rules use)
  | [], use => rfl
  | (p, t) :: rest, use => by
    simp only [transformRules]
    have h0 := (matchUnlocAt n).datum lits p use []
    rw [Subst.strip_nil] at h0
    rw [h0]
    refine mres_bind _ _ _ _ (fun ok σ => ?_)
    cases ok with
    | false => exact transformRules_strip n lits rest use
    | true =>
      simp only [if_true, ellipsisOk_strip, Datum.strip_loc, subst_strip n t σ use.loc]
      split
      · rfl
      · cases subst n t σ use.loc <;> rfl

theorem transform_strip (n : Nat) (r : Rules) (use : Datum) :
    Macro.transform n r use.strip = mapE Datum.strip (Macro.transform n r use) :=
  transformRules_strip n r.literals r.rules use

end Ruschm

/-
Property C07 — no panic, and the interpreter stays usable.

"For every character sequence given to the evaluator as source text, and every file given to it
as a program or library, reading, expanding and evaluating end in a value or in a reported error;
the process never panics, aborts or corrupts the interpreter, and after the error the same
interpreter still evaluates further input."

The claim is about the executable model (`RuschmModel/*.lean`), in which every place where the
Rust code could panic returns the outcome `.error (.panic site, _)` under exactly the condition
under which the Rust would panic. Running out of fuel (`.error (.fuel, _)`) is a different
outcome: it is not an outcome of the real code at all.

Only property theorems live here (each is audited with `#print axioms`); helper lemmas are in
`RuschmProofs/SafeFront.lean` (lexer, reader, macro builders, `toStatement`),
`RuschmProofs/SafeExpand.lean` (macro expansion keeps data `n/0`-free, `toStatement` produces `ok`
code), `RuschmProofs/SafeLemmas.lean` (native procedures), `RuschmProofs/SafeEval.lean` (the evaluator), `RuschmProofs/SafeUsable.lean` (the probe).
Vocabulary (`NoPanic`, `ratOk`, `ok`, `Value.Safe`, `Store.Safe`, `Interp.Safe`) is defined in
`RuschmSpec/Safe.lean`.
-/
import RuschmProofs.SafeFront
import RuschmProofs.SafeExpand
import RuschmProofs.SafeLemmas
import RuschmProofs.SafeUsable
import RuschmProofs.SafeEval

namespace Ruschm.C07
open Ruschm

/-! ## 1. The front end never panics: all inputs, no hypotheses -/

/-- The lexer has no panic outcome: whatever the characters, the reader sees tokens or a located
syntax error. -/
theorem lex_no_panic (cs : List Char) : NoPanic (lexOutcome cs) := by
  intro s l h
  unfold lexOutcome at h
  split at h <;> cases h

/-- `1/0` is a located syntax error -/
example : lexOutcome ['1', '/', '0'] = .error (.syntax, some (1, 4)) := by
  simp [lexOutcome, Lex.all, Lex.allAux, Lex.next, Lex.skipAtmosphere, Lex.token, Lex.adv, Lex.isWs,
    Lex.isDigit, Lex.number, Lex.takeRun, Lex.endOfToken, Lex.parseI32?, Lex.parseU32?, Lex.digitsVal,
    fitsI32, Except.map, bind, Except.bind]

/-- ... and it never delivers a rational literal with denominator 0 (`n/0` is a syntax error). -/
theorem lex_rat_ok (cs : List Char) : ∀ t ∈ (Lex.all cs).1, t.tok.ratOk = true :=
  Lex.all_ratOk cs

/-- The reader never panics: for every parser state (any tokens, any pending lexer error). -/
theorem read_no_panic (s : Read.PState) : NoPanic (Read.nextDatum s) :=
  noPanic_iff.2 fun _ h => Read.nextDatum_np h

/-- The same for a whole text: the data read, or a non-panic error. -/
theorem read_all_no_panic (cs : List Char) : NoPanic (readOutcome cs) := by
  refine noPanic_iff.2 fun e h => ?_
  unfold readOutcome at h
  split at h
  · cases h
  · rename_i ds e' he
    cases h
    unfold Read.all at he
    exact Read.allAux_np _ _ _ _ (by rw [he])

example : Read.nextDatum ⟨[⟨.lparen, some (1, 2)⟩, ⟨.period, some (1, 3)⟩, ⟨.period, some (1, 4)⟩], none, none, none⟩ =
    .error (.syntax, some (1, 4)) := by
  simp [Read.nextDatum, Read.advance, Read.fuelFor, Read.currentDatum, Read.listOrPair, Read.listLoop,
    Read.advanceUnwrap, bind, Except.bind, pure, Except.pure]

/-- Every datum the reader produces is free of `n/0`. -/
theorem read_rat_ok (cs : List Char) : ∀ d ∈ (Read.all cs).1, d.ratOk = true :=
  Read.all_ratOk cs

theorem read_next_rat_ok (cs : List Char) {d : Datum} {s : Read.PState}
    (h : Read.nextDatum (Read.ofText cs) = .ok (some d, s)) : d.ratOk = true :=
  (Read.nextDatum_ratOk h (Read.ofText_ratOK cs)).2 d rfl

/-- `toStatement` (datum → AST, with macro expansion) never panics: every datum, every syntax
environment, every fuel. (The only panic site of this stage is the `get_mut(..).unwrap()` of the
matcher, unreachable by `C04.match_no_panic`.) -/
theorem xform_no_panic (fuel : Nat) (d : Datum) (env : Xform.SynEnv) :
    NoPanic (Xform.toStatement fuel d env).1 :=
  noPanic_iff.2 fun _ h => Xform.toStatement_np fuel d env h

example : (Xform.toStatement 10 (.nil none) []).1 = .error (.syntax, none) := rfl

/-! ## 2. What the front end hands to the evaluator is `ok` code -/

/-- Transformers built from `n/0`-free data have `n/0`-free templates. -/
theorem rules_rat_ok {k : String} {d : Datum} {r : Macro.Rules} (h : Macro.toRules k d = .ok r)
    (hd : d.ratOk = true) : r.RatOK :=
  Macro.toRules_ratOk h hd

/-- Macro expansion keeps data free of `n/0`: the table only ever holds sub-data of the use, and
the template is `n/0`-free. -/
theorem expansion_rat_ok {fuel : Nat} {r : Macro.Rules} {use d : Datum} (hr : r.RatOK)
    (hu : use.ratOk = true) (h : Macro.transform fuel r use = .ok d) : d.ratOk = true :=
  Macro.transform_ratOk hr hu h

/-- Every statement `toStatement` produces from `n/0`-free data in an `n/0`-free syntax
environment is `ok`: every lambda in it (recursively) has a non-empty body (`toBody` rejects an
empty one) and every literal is free of `n/0`; the syntax environment stays `n/0`-free. -/
theorem xform_bodies_ok {fuel : Nat} {d : Datum} {env : Xform.SynEnv} (hd : d.ratOk = true)
    (he : Xform.SynEnv.RatOK env) :
    Xform.SynEnv.RatOK (Xform.toStatement fuel d env).2 ∧
      ∀ st, (Xform.toStatement fuel d env).1 = .ok st → st.ok = true :=
  Xform.toStatement_ok hd he

/-- an empty body is rejected -/
example : (Xform.toStatement 10 (.pair (.sym "lambda" none) (.pair (.nil none) (.nil none) none) none) []).1 =
    .error (.syntax, none) := rfl
/-- the hypothesis is needed: a datum with `1/0` in it (the reader never produces one) transforms
into code that is not `ok` -/
example : (Xform.toStatement 10 (.prim (.rat 1 0) none) []).1 = .ok (.expr (.prim (.rat 1 0) none)) ∧
    (Statement.expr (.prim (.rat 1 0) none)).ok = false := ⟨rfl, rfl⟩

/-! ## 3. The native procedures -/

/-- `Builtin.arity` is what `apply_procedure` checks before it calls a native procedure. Once
that check has passed, the only panic sites the procedure can still reach are `Prim.pureSites`
(`apply` itself, a dangling vector reference, a zero denominator): NONE of the
`iter.next().unwrap()` sites of `base.rs`. -/
theorem builtin_panic_sites (σ : Store) (b : Builtin) (args : List Value)
    (har : Eval.arityOk b.arity.1 b.arity.2 args.length = true) :
    ∀ s l, (Prim.applyPure σ b args).1 = .error (.panic s, l) → s ∈ Prim.pureSites :=
  Prim.applyPure_sites har

/-- In particular the result is never `Prim.missing b _`, the rendering of a native procedure
reading an argument that is not there. -/
theorem builtin_args_sufficient (σ σ' : Store) (b : Builtin) (args : List Value)
    (har : Eval.arityOk b.arity.1 b.arity.2 args.length = true) :
    Prim.applyPure σ b args ≠ Prim.missing b σ' := by
  intro h
  have := Prim.applyPure_sites har ("base.rs unwrap: " ++ b.name) none (by rw [h]; rfl)
  revert this
  cases b <;> decide

example : Prim.applyPure {} .car [] = Prim.missing .car {} := rfl
example : Eval.arityOk Builtin.car.arity.1 Builtin.car.arity.2 0 = false := rfl

/-- On safe arguments (numbers with positive denominators) whose ids are allocated, a native
procedure other than `apply` (which the trampoline unpacks and never passes on) whose arity check
has passed does not panic at all, and returns a safe value. -/
theorem applyPure_no_panic {σ : Store} {b : Builtin} {args : List Value} (hb : b ≠ .apply)
    (har : Eval.arityOk b.arity.1 b.arity.2 args.length = true) (ha : ∀ a ∈ args, a.Safe)
    (hal : ∀ a ∈ args, σ.AllocIn a) (hv : σ.ValsSafe) :
    NoPanic (Prim.applyPure σ b args).1 ∧ (∀ v, (Prim.applyPure σ b args).1 = .ok v → v.Safe) ∧
      (Prim.applyPure σ b args).2.ValsSafe :=
  ⟨(Prim.applyPure_rok hb har ha hal hv).np, (Prim.applyPure_rok hb har ha hal hv).val,
    Prim.applyPure_valsSafe hv b ha⟩

/-- the hypotheses are needed: a denominator 0 does reach the `exact_ratio` panic -/
example : (Prim.applyPure {} .floor [.num (.rat 1 0)]).1 =
    .error (.panic "floor: zero denominator", none) := rfl

/-! ## 4. The evaluator -/

/-- MAIN evaluator theorem: the safety invariant `Eval.SafeAt` (RuschmSpec/Safe.lean) holds for
every amount of fuel — for all eight functions of the evaluator's mutual block, from a safe store
(`Store.Safe` = well-formed and every stored value safe), on `ok` code, with good arguments and a
procedure in operator position, the outcome is never a panic, the store stays safe, and the
result is safe and allocated. By induction on fuel. -/
theorem eval_no_panic (fuel : Nat) : Eval.SafeAt fuel := Eval.safeAt fuel

/-- `evalExpr`, spelled out. -/
theorem evalExpr_no_panic {fuel : Nat} {σ : Store} {ρ : Nat} {e : Expr} (hσ : σ.Safe)
    (hρ : ρ < σ.frames.size) (he : e.ok = true) :
    NoPanic (Eval.evalExpr fuel σ ρ e).1 ∧ (Eval.evalExpr fuel σ ρ e).2.Safe ∧
      ∀ v, (Eval.evalExpr fuel σ ρ e).1 = .ok v → v.Safe ∧ (Eval.evalExpr fuel σ ρ e).2.AllocIn v :=
  have h := Eval.evalExpr_post (fuel := fuel) hσ hρ he
  ⟨noPanic_iff.2 h.np, h.store, h.val⟩

/-- `applyProcedure` (the trampoline), spelled out: `p` must be a procedure, as every caller
checks. -/
theorem applyProcedure_no_panic {fuel : Nat} {σ : Store} {p : Value} {args : List Value} {env : Nat}
    (hσ : σ.Safe) (hp : p.Safe ∧ σ.AllocIn p) (ha : ∀ a ∈ args, a.Safe ∧ σ.AllocIn a)
    (hq : (Eval.procArity p).isSome = true) :
    NoPanic (Eval.applyProcedure fuel σ p args env).1 ∧ (Eval.applyProcedure fuel σ p args env).2.Safe ∧
      ∀ v, (Eval.applyProcedure fuel σ p args env).1 = .ok v → v.Safe :=
  have h := (Eval.safeAt fuel).proc σ p args env _ _ rfl hσ hp ha hq
  ⟨noPanic_iff.2 h.np, h.store, fun v hv => (h.val v hv).1⟩

/-- the initial store is safe, and code exists that is `ok` -/
example : Store.root.Safe ∧ (0 : Nat) < Store.root.frames.size ∧
    (Expr.call (.lambda (.mk ⟨["x"], none⟩ [] [.sym "x" none]) none) [.prim (.rat 1 2) none] none).ok = true :=
  ⟨⟨Store.wf_root, ⟨fun i f h kv hkv => by
      simp only [Store.root] at h
      cases i with
      | zero => simp at h; subst h; simp at hkv
      | succ i => simp at h,
    fun i c h => by simp [Store.root] at h⟩⟩, by decide, rfl⟩

/-- the hypotheses are needed: an empty body does reach the `unreachable!`, a non-procedure the
`not a procedure` site, too few arguments the `unwrap` of `apply_scheme_procedure`, and a literal
`1/0` the division in `exact_ratio` -/
example : (Eval.evalBody 1 {} 0 []).1 = .error (.panic "apply_scheme_procedure: empty body", none) := by
  simp [Eval.evalBody]
example : (Eval.applyLoop 1 {} (.num (.int 1)) [] 0).1 =
    .error (.panic "apply_procedure: not a procedure", none) := by
  simp [Eval.applyLoop, Eval.procArity]
example : (Eval.applyScheme 1 {} (.mk ⟨["x"], none⟩ [] [.sym "x" none]) 0 []).1 =
    .error (.panic "apply_scheme_procedure: arg_iter.next().unwrap()", none) := by
  simp [Eval.applyScheme, Eval.bindFixed, Lambda.formals, Store.newFrame]
example : (Eval.evalExpr 1 {} 0 (.prim (.rat 1 0) none)).1 =
    .error (.panic "exact_ratio: zero denominator", none) := by
  simp [Eval.evalExpr, Eval.evalPrim, Num.exactRatio, Except.map]

/-! ## 7. After ANY outcome the interpreter still evaluates -/

/-- From EVERY interpreter state — whatever an earlier error left behind in the store, the syntax
environment, the library tables — the probe `((lambda (x) x) 42)` evaluates to 42, given fuel 7
or more. (`lambda` is recognised before the syntax environment is consulted, so no macro can
shadow it; the form refers to no global.) -/
theorem usable_after_error (st : Interp.State) (fuel : Nat) (hf : 7 ≤ fuel) :
    (Interp.evalText fuel st "((lambda (x) x) 42)".toList).1 = .ok (some (.num (.int 42))) := by
  obtain ⟨n, rfl⟩ : ∃ n, fuel = n + 7 := ⟨fuel - 7, by omega⟩
  exact Usable.evalText_probe n st

/-- with no fuel the model reports the fuel outcome (not an outcome of the real code) -/
example : (Interp.evalText 0 {} "((lambda (x) x) 42)".toList).1 = .error (.fuel, some (1, 2)) := by
  rw [Usable.txt_eq]
  unfold Interp.evalText
  simp only [Usable.ofText_txt]
  rw [show Usable.s0.toks.length + 1 = 11 from by decide, Interp.evalText.go, Usable.next0]
  simp only [Usable.fuel_d0, Usable.xform0]
  simp [Interp.evalAst, Interp.evalExprOrDef, Usable.stmt0, Eval.evalExpr, Usable.e0, Statement.loc, Expr.loc]

end Ruschm.C07

/-
Model of the second half of `src/parser/parser.rs`: `transform_to_statement` and the
`transform_*` functions that turn a datum into a `Statement`, expanding macro uses on the way.
The syntax environment is threaded explicitly and survives errors, as the `Rc<LexicalScope>`
mutated by `transform_syntax_definition` does.
-/
import RuschmModel.Ast
namespace Ruschm.Xform

/-- chain of syntax scopes, innermost first (`LexicalScope<Transformer>` with its parents) -/
abbrev SynEnv := List (List (String × Macro.Rules))

def SynEnv.get? : SynEnv → String → Option Macro.Rules
  | [], _ => none
  | scope :: rest, k =>
    match scope.lookup k with
    | some r => some r
    | none => SynEnv.get? rest k

def scopeInsert (scope : List (String × Macro.Rules)) (k : String) (r : Macro.Rules) :
    List (String × Macro.Rules) :=
  match scope with
  | [] => [(k, r)]
  | (k', r') :: rest => if k' = k then (k, r) :: rest else (k', r') :: scopeInsert rest k r

/-- `LexicalScope::define`: into the innermost scope -/
def SynEnv.define : SynEnv → String → Macro.Rules → SynEnv
  | [], k, r => [[(k, r)]]
  | scope :: rest, k, r => scopeInsert scope k r :: rest

/-- computations that read and update the syntax environment; the update survives an error -/
def XM (α : Type) := SynEnv → Except SErr α × SynEnv

instance : Monad XM where
  pure a := fun s => (.ok a, s)
  bind m f := fun s =>
    match m s with
    | (.ok a, s') => f a s'
    | (.error e, s') => (.error e, s')

def fail {α} (e : SErr) : XM α := fun s => (.error e, s)
def lift {α} (x : Except SErr α) : XM α := fun s => (x, s)
def getEnv : XM SynEnv := fun s => (.ok s, s)
def defineSyntax (k : String) (r : Macro.Rules) : XM Unit := fun s => (.ok (), s.define k r)
/-- run `m` in a fresh child scope, which is dropped afterwards whatever happens -/
def inChild {α} (m : XM α) : XM α := fun s =>
  match m ([] :: s) with
  | (r, _ :: s') => (r, s')
  | (r, []) => (r, [])

/-- `unwrap_non_end`: a missing element is `UnexpectedEnd`, unlocated -/
def need {α} : Option α → XM α
  | some a => pure a
  | none => fail (.syntax, none)

def identOf (d : Datum) : XM String := lift (Macro.identOf d)

/-- `transform_formals` (after the nested-list check): a list of names with an optional rest
name, or a single name -/
def toFormals (d : Datum) : XM Formals :=
  match d with
  | .pair .. | .nil _ =>
    let (cars, tail) := d.spine
    let bad := (cars ++ tail.toList).find? (fun x => match x with | .sym _ _ => false | _ => true)
    match bad with
    | some b => fail (.syntax, b.loc)
    | none =>
      let name := fun (x : Datum) => match x with | .sym s _ => s | _ => ""
      pure { fixed := cars.map name, rest := tail.map name }
  | .sym s _ => pure { fixed := [], rest := some s }
  | other => fail (.syntax, other.loc)

/-- `transform_library_name` -/
def toLibName (ds : List Datum) : XM LibName :=
  ds.mapM (fun d => match d with
    | .sym s _ => pure (LibElem.ident s)
    | .prim (.int i) l => if i ≥ 0 then pure (LibElem.int i.toNat) else fail (.syntax, l)
    | other => fail (.syntax, other.loc))

def expectList (d : Datum) : XM Datum := lift (Macro.expectList d)

/-- `transform_import_set` -/
def toImportSet : Nat → Datum → XM ImportSet
  | 0, _ => fail (.fuel, none)
  | fuel + 1, d => do
    let d ← expectList d
    let es := d.elems
    let first ← need es.head?
    let loc := first.loc
    let spec ← identOf first
    let sub := fun (k : ImportSet → List Datum → XM ImportSet) => do
      let s ← need (es.drop 1).head?
      let s ← toImportSet fuel s
      k s (es.drop 2)
    if spec = "only" then sub (fun s rest => do let ids ← rest.mapM identOf; pure (.only s ids))
    else if spec = "except" then sub (fun s rest => do let ids ← rest.mapM identOf; pure (.except s ids))
    else if spec = "prefix" then sub (fun s rest => do let p ← need rest.head?; let p ← identOf p; pure (.prefix s p))
    else if spec = "rename" then sub (fun s rest => do
      let ps ← rest.mapM (fun pd => do
        let pd ← expectList pd
        let a ← need pd.elems.head?
        let a ← identOf a
        let b ← need (pd.elems.drop 1).head?
        let b ← identOf b
        pure (a, b))
      pure (.rename s ps))
    else do
      let name ← toLibName es
      pure (.direct name loc)

/-- `transform_export_spec` -/
def toExportSpec (d : Datum) : XM ExportSpec :=
  match d with
  | .sym s l => pure (.direct s l)
  | .pair .. | .nil _ => do
    let es := d.elems
    let h ← need es.head?
    match h with
    | .sym "rename" _ => do
      let a ← need (es.drop 1).head?
      let a ← identOf a
      let b ← need (es.drop 2).head?
      let b ← identOf b
      pure (.rename a b d.loc)
    | _ => fail (.syntax, none)
  | _ => fail (.syntax, none)

mutual
/-- `transform_to_statement` -/
def toStatement : Nat → Datum → XM Statement
  | 0, _ => fail (.fuel, none)
  | fuel + 1, d =>
    let location := d.loc
    match d with
    | .prim p _ => pure (.expr (.prim p location))
    | .sym s _ => pure (.expr (.sym s location))
    | .vec _ _ => pure (.expr (.datum d location))
    | .nil _ => fail (.syntax, none)                       -- `EmptyCall`
    | .pair _ _ _ => do
      match ← lift (Macro.popProper d) with
      | none => fail (.syntax, none)
      | some (first, rest) =>
        let args := rest.elems
        match first with
        | .sym kw _ =>
          if kw = "define" then do
            let (n, e) ← toDefinition fuel args
            pure (.definition (.mk n e location))
          else if kw = "define-library" then toLibrary fuel args location
          else if kw = "lambda" then do
            let l ← toLambda fuel args
            pure (.expr (.lambda l location))
          else if kw = "if" then do
            let t ← need args.head?
            let t ← toExpr fuel t
            let c ← need (args.drop 1).head?
            let c ← toExpr fuel c
            let a ← match (args.drop 2).head? with
              | some ad => do let a ← toExpr fuel ad; pure (some a)
              | none => pure none
            pure (.expr (.cond t c a location))
          else if kw = "import" then do
            let sets ← args.mapM (toImportSet fuel)
            pure (.importDecl sets location)
          else if kw = "quote" then do
            let q ← need args.head?
            pure (.expr (.quote q location))
          else if kw = "set!" then do
            let target ← need args.head?
            match target with
            | .sym name targetLoc => do
              let v ← need (args.drop 1).head?
              let v ← toExpr fuel v
              -- located at the variable being assigned (else at the form)
              pure (.expr (.assign name v (targetLoc.orElse (fun _ => location))))
            | _ => fail (.syntax, none)
          else if kw = "define-syntax" then do
            let k ← need args.head?
            let k ← identOf k
            let spec ← need (args.drop 1).head?
            let rules ← lift (Macro.toRules k spec)
            defineSyntax k rules
            pure (.syntaxDef k rules location)
          else do
            let env ← getEnv
            match env.get? kw with
            | some rules => do
              let remained := rest.withLoc location
              let expanded ← lift (Macro.transform (Macro.matchFuel d + fuel) rules remained)
              toStatement fuel expanded
            | none => do
              let c ← toCall fuel first args location
              pure (.expr c)
        | _ => do
          let c ← toCall fuel first args location
          pure (.expr c)

/-- `transform_to_expression` -/
def toExpr : Nat → Datum → XM Expr
  | 0, _ => fail (.fuel, none)
  | fuel + 1, d => do
    match ← toStatement fuel d with
    | .expr e => pure e
    | _ => fail (.syntax, none)

/-- `transform_procedure_call` -/
def toCall : Nat → Datum → List Datum → Loc → XM Expr
  | 0, _, _, _ => fail (.fuel, none)
  | fuel + 1, first, args, location => do
    let f ← toExpr fuel first
    let as ← toExprs fuel args
    pure (.call f as location)

def toExprs : Nat → List Datum → XM (List Expr)
  | 0, _ => fail (.fuel, none)
  | _ + 1, [] => pure []
  | fuel + 1, d :: ds => do
    let e ← toExpr fuel d
    let es ← toExprs fuel ds
    pure (e :: es)

/-- `transform_definition`: `(define name expr)` or `(define (name . formals) body…)` -/
def toDefinition : Nat → List Datum → XM (String × Expr)
  | 0, _ => fail (.fuel, none)
  | fuel + 1, args => do
    let first ← need args.head?
    match first with
    | .sym s _ => do
      let b ← need (args.drop 1).head?
      let b ← toExpr fuel b
      pure (s, b)
    | .pair nameD formalsD _ => do
      let location := nameD.loc
      let name ← identOf nameD
      let formals ← toFormals formalsD
      -- the body is transformed in the *enclosing* syntax scope (no child scope here)
      let (defs, body) ← toBody fuel (args.drop 1) [] []
      pure (name, .lambda (.mk formals defs body) location)
    | .nil _ => fail (.syntax, first.loc)
    | other => fail (.syntax, other.loc)

/-- `transform_lambda` -/
def toLambda : Nat → List Datum → XM Lambda
  | 0, _ => fail (.fuel, none)
  | fuel + 1, args => do
    let f ← need args.head?
    let formals ← toFormals f
    let (defs, body) ← inChild (toBody fuel (args.drop 1) [] [])
    pure (.mk formals defs body)

/-- `transform_procedure_body`: definitions only before the first expression, at least one
expression -/
def toBody : Nat → List Datum → List Def → List Expr → XM (List Def × List Expr)
  | 0, _, _, _ => fail (.fuel, none)
  | _ + 1, [], defs, exprs =>
    if exprs.isEmpty then fail (.syntax, none) else pure (defs.reverse, exprs.reverse)
  | fuel + 1, d :: ds, defs, exprs => do
    let location := d.loc
    match ← toStatement fuel d with
    | .definition df =>
      if exprs.isEmpty then toBody fuel ds (df :: defs) exprs
      else match df with | .mk _ _ l => fail (.syntax, l)
    | .expr e => toBody fuel ds defs (e :: exprs)
    | _ => fail (.syntax, location)

/-- `transform_library` -/
def toLibrary : Nat → List Datum → Loc → XM Statement
  | 0, _, _ => fail (.fuel, none)
  | fuel + 1, args, location => do
    let nd ← need args.head?
    let nd ← expectList nd
    let name ← toLibName nd.elems
    let decls ← toLibDecls fuel (args.drop 1)
    pure (.libraryDef name decls location)

def toLibDecls : Nat → List Datum → XM (List LibDecl)
  | 0, _ => fail (.fuel, none)
  | _ + 1, [] => pure []
  | fuel + 1, d :: ds => do
    let x ← toLibDecl fuel d
    let xs ← toLibDecls fuel ds
    pure (x :: xs)

/-- `transform_library_declaration` -/
def toLibDecl : Nat → Datum → XM LibDecl
  | 0, _ => fail (.fuel, none)
  | fuel + 1, d => do
    let d ← expectList d
    let es := d.elems
    let first ← need es.head?
    match first with
    | .sym "export" _ => do
      let specs ← (es.drop 1).mapM toExportSpec
      pure (.export specs)
    | .sym "begin" _ => do
      let body ← toStatements fuel (es.drop 1)
      pure (.begin_ body)
    | _ => do
      let sets ← (es.drop 1).mapM (toImportSet fuel)
      pure (.importDecl sets)

def toStatements : Nat → List Datum → XM (List Statement)
  | 0, _ => fail (.fuel, none)
  | _ + 1, [] => pure []
  | fuel + 1, d :: ds => do
    let s ← toStatement fuel d
    let ss ← toStatements fuel ds
    pure (s :: ss)
end

/-- fuel for transforming one top-level datum: its size, plus an allowance for macro
expansions (each expansion step costs one unit at every level it passes through) -/
def xformFuel (d : Datum) : Nat := 8 * d.size + 4000

end Ruschm.Xform

//! `progx`: like `prog`, with the native library `(verif host)` registered (procedure `tick`
//! records its argument, the address of one of its locals = real stack depth, and the live heap
//! bytes), and with what the program writes to standard output captured. Results per form, then
//! `T` tick values, `S` stack offsets relative to the first tick, `H` live-heap bytes relative to
//! the first tick, `O` captured output.
use crate::{canon_value, esc, eval_form, on_fresh_thread};
use ruschm::interpreter::{Interpreter, LibraryFactory};
use ruschm::parser::LibraryName;
use ruschm::values::{Procedure, Value};
use std::alloc::{GlobalAlloc, Layout, System};
use std::cell::RefCell;
use std::io::{Read, Seek, SeekFrom, Write};
use std::os::unix::io::AsRawFd;
use std::sync::atomic::{AtomicIsize, Ordering};

pub struct Counting;
pub static LIVE: AtomicIsize = AtomicIsize::new(0);
unsafe impl GlobalAlloc for Counting {
    unsafe fn alloc(&self, l: Layout) -> *mut u8 {
        LIVE.fetch_add(l.size() as isize, Ordering::Relaxed);
        System.alloc(l)
    }
    unsafe fn dealloc(&self, p: *mut u8, l: Layout) {
        LIVE.fetch_sub(l.size() as isize, Ordering::Relaxed);
        System.dealloc(p, l)
    }
}

thread_local! {
    static TICKS: RefCell<Vec<(String, isize, isize)>> = RefCell::new(Vec::new());
    // summary mode (long loops): the log must not itself grow the heap it measures
    static SUMMARY: RefCell<bool> = RefCell::new(false);
    static COMPACT: RefCell<Vec<(isize, isize)>> = RefCell::new(Vec::new());
    static FIRST_LAST: RefCell<(String, String)> = RefCell::new((String::new(), String::new()));
}

extern "C" {
    fn dup(fd: i32) -> i32;
    fn dup2(a: i32, b: i32) -> i32;
    fn close(fd: i32) -> i32;
}

pub fn host_factory<'a>() -> LibraryFactory<'a, f32> {
    LibraryFactory::Native(
        LibraryName(vec!["verif".into(), "host".into()]),
        Box::new(|| {
            vec![(
                "tick".to_string(),
                Value::Procedure(Procedure::new_builtin_impure(
                    "tick".to_string(),
                    ruschm::param_fixed!["value"],
                    |args, _env| {
                        let v = args.into_iter().next().unwrap();
                        let marker = 0u8;
                        let addr = &marker as *const u8 as isize;
                        let live = LIVE.load(Ordering::Relaxed);
                        if SUMMARY.with(|s| *s.borrow()) {
                            let first = COMPACT.with(|c| {
                                let mut c = c.borrow_mut();
                                c.push((addr, live));
                                c.len() == 1
                            });
                            FIRST_LAST.with(|fl| {
                                let mut fl = fl.borrow_mut();
                                if first {
                                    fl.0 = canon_value(&v);
                                }
                                fl.1 = canon_value(&v);
                            });
                        } else {
                            TICKS.with(|t| t.borrow_mut().push((canon_value(&v), addr, live)));
                        }
                        Ok(v)
                    },
                )),
            )]
        }),
    )
}

pub fn new_interpreter(mode: &str) -> Interpreter<'static, f32> {
    let mut it = if mode.starts_with("std") {
        Interpreter::<f32>::new_with_stdlib()
    } else {
        Interpreter::<f32>::default()
    };
    if mode.contains("+host") {
        it.register_library_factory(host_factory());
    }
    it
}

pub fn run(fields: Vec<String>) -> Vec<String> {
    on_fresh_thread(move || {
        TICKS.with(|t| t.borrow_mut().clear());
        let summarize = fields[0].contains("+sum");
        SUMMARY.with(|s| *s.borrow_mut() = summarize);
        COMPACT.with(|c| {
            let mut c = c.borrow_mut();
            c.clear();
            if summarize {
                c.reserve(1 << 22);
            }
        });
        crate::FIRST_ERR_MSG.with(|m| *m.borrow_mut() = None);
        let mut it = new_interpreter(&fields[0]);
        // capture fd 1 while the forms run
        std::io::stdout().flush().ok();
        let mut tmp = tempfile();
        let saved = unsafe { dup(1) };
        unsafe { dup2(tmp.as_raw_fd(), 1) };
        let mut out: Vec<String> = fields[1..].iter().map(|f| eval_form(&mut it, f)).collect();
        std::io::stdout().flush().ok();
        unsafe {
            dup2(saved, 1);
            close(saved);
        }
        let mut captured = String::new();
        tmp.seek(SeekFrom::Start(0)).ok();
        let mut bytes = Vec::new();
        tmp.read_to_end(&mut bytes).ok();
        captured.push_str(&String::from_utf8_lossy(&bytes));
        let ticks = TICKS.with(|t| t.borrow().clone());
        let base_addr = ticks.first().map(|t| t.1).unwrap_or(0);
        let base_live = ticks.first().map(|t| t.2).unwrap_or(0);
        if summarize {
            // long loops: tick count, first/last tick value, and only statistics of stack and heap
            let compact = COMPACT.with(|c| c.borrow().clone());
            let n = compact.len();
            let (first, last) = FIRST_LAST.with(|fl| fl.borrow().clone());
            out.push(format!("T n={} first={} last={}", n, first, last));
            let a0 = compact.first().map(|t| t.0).unwrap_or(0);
            let l0 = compact.first().map(|t| t.1).unwrap_or(0);
            let s: Vec<isize> = compact.iter().map(|t| a0 - t.0).collect();
            let from = if n > 2 { 2 } else { 0 };
            let smax = s.iter().skip(from).max().cloned().unwrap_or(0);
            let smin = s.iter().skip(from).min().cloned().unwrap_or(0);
            out.push(format!("S min={} max={}", smin, smax));
            let at = |i: usize| compact.get(i).map(|t| t.1 - l0).unwrap_or(0);
            out.push(format!("H q1={} mid={} last={}", at(n / 4), at(n / 2), at(n.saturating_sub(1))));
        } else {
            out.push(format!("T {}", ticks.iter().map(|t| t.0.clone()).collect::<Vec<_>>().join(" ")));
            out.push(format!("S {}", ticks.iter().map(|t| (base_addr - t.1).to_string()).collect::<Vec<_>>().join(" ")));
            out.push(format!("H {}", ticks.iter().map(|t| (t.2 - base_live).to_string()).collect::<Vec<_>>().join(" ")));
        }
        out.push(format!("O {}", esc(&captured)));
        if let Some(msg) = crate::FIRST_ERR_MSG.with(|m| m.borrow_mut().take()) {
            out.push(format!("M {}", esc(&msg)));
        }
        out
    })
}

fn tempfile() -> std::fs::File {
    let dir = std::env::var("HX_TMP").unwrap_or_else(|_| "/verif/build/tmp".to_string());
    std::fs::create_dir_all(&dir).ok();
    let path = format!("{}/cap-{}-{:?}", dir, std::process::id(), std::thread::current().id());
    let f = std::fs::OpenOptions::new().read(true).write(true).create(true).truncate(true).open(&path).unwrap();
    std::fs::remove_file(&path).ok();
    f
}

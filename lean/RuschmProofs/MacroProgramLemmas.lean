/-
Helper definitions and lemmas for `RuschmProofs/C04Program.lean` (property C04, the path a PROGRAM
takes): the one-step equations of `Xform.toStatement` on a `define-syntax` form and on a macro use,
facts about `SynEnv.define`, iterated expansion steps, and `eval_ast` on a syntax definition.
-/
import RuschmProofs.C04More
import RuschmProofs.MeaningLemmas
import RuschmProofs.ProgramTextLemmas
import RuschmProofs.C19

set_option linter.unusedSimpArgs false
set_option linter.unusedVariables false

namespace Ruschm.MacroProgram
open Ruschm Ruschm.Xform Ruschm.Xform.Keep Ruschm.Macro
open Ruschm.Meaning (coreKeywords)

/-! ## the syntax environment -/

theorem lookup_scopeInsert_self (scope : List (String × Rules)) (k : String) (r : Rules) :
    (scopeInsert scope k r).lookup k = some r := by
  induction scope with
  | nil => simp [scopeInsert, List.lookup]
  | cons x xs ih =>
    obtain ⟨k', r'⟩ := x
    unfold scopeInsert
    by_cases h : k' = k
    · simp [h, List.lookup]
    · have : (k == k') = false := by simp [beq_eq_false_iff_ne, Ne.symm h]
      simp [h, List.lookup, this, ih]

theorem lookup_scopeInsert_other (scope : List (String × Rules)) {k k' : String} (r : Rules)
    (h : k' ≠ k) : (scopeInsert scope k r).lookup k' = scope.lookup k' := by
  induction scope with
  | nil =>
    have : (k' == k) = false := by simp [beq_eq_false_iff_ne, h]
    simp [scopeInsert, List.lookup, this]
  | cons x xs ih =>
    obtain ⟨k₀, r₀⟩ := x
    unfold scopeInsert
    by_cases h0 : k₀ = k
    · subst h0
      have : (k' == k₀) = false := by simp [beq_eq_false_iff_ne, h]
      simp [List.lookup, this]
    · simp only [h0, if_false, List.lookup]
      cases k' == k₀ <;> simp [ih]

/-- after `define`, the keyword resolves to the new rules -/
theorem get_define_self (env : SynEnv) (k : String) (r : Rules) :
    (env.define k r).get? k = some r := by
  cases env with
  | nil => simp [SynEnv.define, SynEnv.get?, List.lookup]
  | cons scope rest => simp [SynEnv.define, SynEnv.get?, lookup_scopeInsert_self]

/-- … and every other keyword resolves as before -/
theorem get_define_other (env : SynEnv) {k k' : String} (r : Rules) (h : k' ≠ k) :
    (env.define k r).get? k' = env.get? k' := by
  cases env with
  | nil =>
    have : (k' == k) = false := by simp [beq_eq_false_iff_ne, h]
    simp [SynEnv.define, SynEnv.get?, List.lookup, this]
  | cons scope rest => simp [SynEnv.define, SynEnv.get?, lookup_scopeInsert_other scope r h]

/-! ## one step of `toStatement` on a list form -/

theorem popProper_listy {first rest : Datum} {l : Loc} (h : rest.isListy = true) :
    Macro.popProper (.pair first rest l) = .ok (some (first, rest)) := by
  cases rest <;> first | rfl | simp [Datum.isListy] at h

theorem popProper_dotted {first rest : Datum} {l : Loc} (h : rest.isListy = false) :
    Macro.popProper (.pair first rest l) = .error (.syntax, none) := by
  cases rest <;> first | rfl | simp [Datum.isListy] at h

theorem isListy_of_isList {d : Datum} {es : List Datum} (h : IsList d es) : d.isListy = true := by
  cases d <;> first | rfl | simp [IsList, Datum.spine] at h

/-- A MACRO USE, ONE STEP: a list form whose head is a keyword bound in the syntax environment (and
is not one of the eight core keywords, which are tested first) is handed — without its keyword,
located at the use — to `Macro.transform` with the rules the environment gives; the RESULT is
transformed again with one unit of fuel less; an error of the expander is the error of the form,
the environment unchanged. -/
theorem toStatement_macro_step {kw : String} {l₁ l : Loc} {rest : Datum} {env : SynEnv} {rules : Rules}
    (n : Nat) (hkw : kw ∉ coreKeywords) (hrest : rest.isListy = true)
    (henv : env.get? kw = some rules) :
    toStatement (n + 1) (.pair (.sym kw l₁) rest l) env =
      match Macro.transform (Macro.matchFuel (.pair (.sym kw l₁) rest l) + n) rules (rest.withLoc l) with
      | .ok d' => toStatement n d' env
      | .error e => (.error e, env) := by
  simp only [coreKeywords, List.mem_cons, List.mem_nil_iff, or_false, not_or] at hkw
  obtain ⟨h1, h2, h3, h4, h5, h6, h7, h8⟩ := hkw
  rw [toStatement]
  simp only [bind_run, lift, popProper_listy hrest, h1, h2, h3, h4, h5, h6, h7, h8, if_false, getEnv, henv,
    Datum.loc]
  generalize Macro.transform _ rules _ = t
  cases t <;> rfl

/-- a dotted form `(a . b)` is a syntax error -/
theorem toStatement_dotted {first rest : Datum} {l : Loc} {env : SynEnv} (n : Nat)
    (hrest : rest.isListy = false) :
    toStatement (n + 1) (.pair first rest l) env = (.error (.syntax, none), env) := by
  rw [toStatement]
  simp only [bind_run, lift, popProper_dotted hrest]

/-- `(define-syntax name spec more…)`, the general equation: `toRules` decides -/
theorem toStatement_define_syntax {l₁ lm l : Loc} {rest spec : Datum} {more : List Datum} {m : String}
    {env : SynEnv} (n : Nat) (hrest : IsList rest (.sym m lm :: spec :: more)) :
    toStatement (n + 1) (.pair (.sym "define-syntax" l₁) rest l) env =
      match Macro.toRules m spec with
      | .ok r => (.ok (.syntaxDef m r l), env.define m r)
      | .error e => (.error e, env) := by
  rw [toStatement]
  simp (config := {decide := true}) only [bind_run, lift, popProper_listy (isListy_of_isList hrest),
    if_true, if_false, Datum.loc, elems_of_isList hrest, List.head?_cons, List.drop_succ_cons,
    List.drop_zero, need, XM.pure_run, Xform.identOf, Macro.identOf, defineSyntax]
  cases Macro.toRules m spec <;> rfl

/-- the name is not an identifier: a syntax error located at it -/
theorem toStatement_define_syntax_bad_name {l₁ l : Loc} {rest k : Datum} {more : List Datum}
    {env : SynEnv} (n : Nat) (hrest : IsList rest (k :: more)) (hk : ∀ s l', k ≠ .sym s l') :
    toStatement (n + 1) (.pair (.sym "define-syntax" l₁) rest l) env = (.error (.syntax, k.loc), env) := by
  rw [toStatement]
  cases k with
  | sym s l' => exact absurd rfl (hk s l')
  | _ =>
    simp (config := {decide := true}) only [bind_run, lift, popProper_listy (isListy_of_isList hrest),
      if_true, if_false, Datum.loc, elems_of_isList hrest, List.head?_cons, need, XM.pure_run,
      Xform.identOf, Macro.identOf]

/-- the name or the transformer spec is missing: `UnexpectedEnd` -/
theorem toStatement_define_syntax_short {l₁ l : Loc} {rest : Datum} {args : List Datum}
    {env : SynEnv} (n : Nat) (hrest : IsList rest args)
    (hshort : args = [] ∨ ∃ m lm, args = [.sym m lm]) :
    toStatement (n + 1) (.pair (.sym "define-syntax" l₁) rest l) env = (.error (.syntax, none), env) := by
  rw [toStatement]
  rcases hshort with rfl | ⟨m, lm, rfl⟩
  · simp (config := {decide := true}) only [bind_run, lift, popProper_listy (isListy_of_isList hrest),
      if_true, if_false, Datum.loc, elems_of_isList hrest, List.head?_nil, need]
    rfl
  · simp (config := {decide := true}) only [bind_run, lift, popProper_listy (isListy_of_isList hrest),
      if_true, if_false, Datum.loc, elems_of_isList hrest, List.head?_cons, List.drop_succ_cons,
      List.drop_zero, List.head?_nil, need, XM.pure_run, Xform.identOf, Macro.identOf, defineSyntax]
    rfl

/-! ## expansion steps -/

/-- ONE EXPANSION STEP in the syntax environment `env`: `d` is a list form `(kw . rest)` whose head
is bound in `env` to rules `rules` (and is not a core keyword), and the expander — run with the
fuel `toStatement` gives it, or more — turns the form without its keyword, located at the use, into
`d'`. -/
def Step (env : SynEnv) (d d' : Datum) : Prop :=
  ∃ kw l₁ rest l rules, d = .pair (.sym kw l₁) rest l ∧ kw ∉ coreKeywords ∧ rest.isListy = true ∧
    env.get? kw = some rules ∧
    ∀ fuel, Macro.matchFuel d ≤ fuel → Macro.transform fuel rules (rest.withLoc l) = .ok d'

/-- `k` expansion steps, each applied to the result of the one before -/
inductive Steps (env : SynEnv) : Nat → Datum → Datum → Prop
  | refl (d : Datum) : Steps env 0 d d
  | step {k : Nat} {d d' d'' : Datum} : Step env d d' → Steps env k d' d'' → Steps env (k + 1) d d''

theorem toStatement_step {env : SynEnv} {d d' : Datum} (h : Step env d d') (n : Nat) :
    toStatement (n + 1) d env = toStatement n d' env := by
  obtain ⟨kw, l₁, rest, l, rules, rfl, hkw, hrest, henv, ht⟩ := h
  rw [toStatement_macro_step n hkw hrest henv, ht _ (Nat.le_add_right _ _)]

theorem toStatement_steps {env : SynEnv} {k : Nat} {d d' : Datum} (h : Steps env k d d') (n : Nat) :
    toStatement (n + k) d env = toStatement n d' env := by
  induction h with
  | refl d => rfl
  | step hs _ ih => rw [← Nat.add_assoc, toStatement_step hs, ih]

theorem Steps.one {env : SynEnv} {d d' : Datum} (h : Step env d d') : Steps env 1 d d' :=
  .step h (.refl _)

theorem Steps.trans {env : SynEnv} {j k : Nat} {a b c : Datum} (h₁ : Steps env j a b)
    (h₂ : Steps env k b c) : Steps env (j + k) a c := by
  induction h₁ with
  | refl d => simpa using h₂
  | @step j' d d' d'' hs _ ih =>
    have := Steps.step hs (ih h₂)
    rwa [show j' + 1 + k = j' + k + 1 by omega]

theorem loc_withLoc (d : Datum) (l : Loc) : (d.withLoc l).loc = l := by
  cases d <;> rfl

theorem matchFuel_use_le {kw : String} {l₁ l : Loc} {rest : Datum} :
    Macro.matchFuel (rest.withLoc l) ≤ Macro.matchFuel (.pair (.sym kw l₁) rest l) := by
  simp only [Macro.matchFuel, size_withLoc, Datum.size]; omega

/-- for a SUPPORTED rule set, a step is what the declarative expander says -/
theorem step_of_spec {env : SynEnv} {kw : String} {l₁ l : Loc} {rest d' : Datum} {rules : Rules}
    (hkw : kw ∉ coreKeywords) (hrest : rest.isListy = true) (henv : env.get? kw = some rules)
    (hs : SupportedRules rules = true)
    (h : specTransform rules.literals rules.rules (rest.withLoc l) = .ok d') :
    Step env (.pair (.sym kw l₁) rest l) d' :=
  ⟨kw, l₁, rest, l, rules, rfl, hkw, hrest, henv, fun fuel hf => by
    rw [C04.transform_eq_spec_matchFuel hs (Nat.le_trans matchFuel_use_le hf), h]⟩

/-! ## `eval_ast` on a syntax definition, and forms -/

open Ruschm.Interp Ruschm.FrontSpec Ruschm.ProgramText

/-- `eval_ast` on a syntax definition: no value, the import phase is over, and the keyword is bound
in the root frame to the transformer as a value (`Value::Transformer`); the syntax scopes, the
libraries and everything else are untouched. Nothing is evaluated: the outcome does not depend on
the fuel. -/
theorem evalAst_syntaxDef (fuel : Nat) (st : State) (m : String) (r : Rules) (l : Loc) :
    evalAst fuel st (.syntaxDef m r l) =
      (.ok none, { st with importEnd := true, store := st.store.define st.env m (.transformer r) }) := by
  unfold evalAst
  cases hi : st.importEnd with
  | true =>
    simp only [Bool.not_true, Bool.false_eq_true, if_false, evalExprOrDef]
    congr 1
    cases st
    simp_all
  | false => simp only [Bool.not_false, if_true, evalExprOrDef]

theorem xformFuel_succ (d : Datum) : ∃ n, xformFuel d = n + 1 := ⟨8 * d.size + 3999, by unfold xformFuel; omega⟩

/-- a form whose transformation fails is not evaluated: the state is left exactly as it was when
the transformer leaves the syntax environment as it was -/
theorem evalForm_error {fuel : Nat} {st : State} {d : Datum} {e : SErr}
    (h : toStatement (xformFuel d) d st.syn = (.error e, st.syn)) : evalForm fuel st d = (.error e, st) := by
  unfold evalForm
  rw [h]

theorem evalForm_ok {fuel : Nat} {st : State} {d : Datum} {s : Statement} {syn' : SynEnv}
    (h : toStatement (xformFuel d) d st.syn = (.ok s, syn')) :
    evalForm fuel st d = evalAst fuel { st with syn := syn' } s := by
  unfold evalForm
  rw [h]

/-- `UsesAs env ds sts`: each form of `ds` reaches, by `k` expansion steps in `env` (`k = 0`: the
form itself), a datum `d'` which the transformer — with the fuel that is left — turns into the
corresponding statement of `sts`, leaving `env` as it was. -/
def UsesAs (env : SynEnv) : List Datum → List Statement → Prop
  | [], [] => True
  | d :: ds, s :: ss =>
    (∃ k d', Steps env k d d' ∧ k ≤ xformFuel d ∧ toStatement (xformFuel d - k) d' env = (.ok s, env)) ∧
      UsesAs env ds ss
  | _, _ => False

theorem toStatement_of_usesAs {env : SynEnv} {d d' : Datum} {s : Statement} {k : Nat}
    (hs : Steps env k d d') (hk : k ≤ xformFuel d)
    (h : toStatement (xformFuel d - k) d' env = (.ok s, env)) :
    toStatement (xformFuel d) d env = (.ok s, env) := by
  have := toStatement_steps hs (xformFuel d - k)
  rw [Nat.sub_add_cancel hk] at this
  rw [this, h]

/-- forms that expand to statements are run as these statements -/
theorem runForms_usesAs (fuel : Nat) : ∀ (ds : List Datum) (sts : List Statement) (st : State)
    (last : Option Value), UsesAs st.syn ds sts → runForms fuel st ds last = runStmts fuel st sts last
  | [], [], st, last, _ => rfl
  | d :: ds, s :: ss, st, last, h => by
    obtain ⟨⟨k, d', hs, hk, hx⟩, hrest⟩ := h
    have hf : evalForm fuel st d = evalAst fuel st s := evalForm_of_reads (toStatement_of_usesAs hs hk hx)
    cases hy : evalAst fuel st s with
    | mk r st' =>
      cases r with
      | error e => simp only [runForms, runStmts, hf, hy]
      | ok v =>
        have hsyn : st'.syn = st.syn := (evalAst_out hy).2.1
        simp only [runForms, runStmts, hf, hy]
        exact runForms_usesAs fuel ds ss st' v (hsyn ▸ hrest)
  | [], _ :: _, _, _, h => h.elim
  | _ :: _, [], _, _, h => h.elim

end Ruschm.MacroProgram

/-
Helper lemmas for `C05Meaning.lean` (property C05, the MEANING of the bundled derived forms).

1. `Means σ ρ e v τ`: the model evaluates `e` (store `σ`, frame `ρ`) to the value `v`, leaving — up to
   the activation-depth instrumentation, `Store.erase` — the store `τ`. By `C01.model_iff_ref_value`
   this is the value judgement of the reference semantics `Ref.eval`; the evaluation rules below
   (`Means.cond_*`, `Means.call`, `Means.lambda_call`, …) are proved through it.
2. `XE env d e`: the parser's transformer turns the datum `d`, in the syntax environment `env`, into
   the expression `e`; inversion lemmas for the core shapes the templates build (`if`, lambda
   application, ordinary call, symbols, literals, `quote`) and for one expansion step.
-/
import RuschmProofs.C01
import RuschmProofs.TailLemmas

namespace Ruschm.Meaning
open Ruschm Ruschm.Eval Ruschm.Prim

/-! ## the value judgement -/

/-- the model evaluates `e` to the value `v`; `τ` is the final store with the depth counters erased -/
def Means (σ : Store) (ρ : Nat) (e : Expr) (v : Value) (τ : Store) : Prop :=
  ∃ n σ', evalExpr n σ ρ e = (.ok v, σ') ∧ σ'.erase = τ

/-- the model applies the procedure value `p` to `args` and gets the value `v` -/
def MeansApply (σ : Store) (p : Value) (args : List Value) (v : Value) (τ : Store) : Prop :=
  ∃ n σ' env, applyProcedure n σ p args env = (.ok v, σ') ∧ σ'.erase = τ

theorem means_iff_ref {σ ρ e v τ} : Means σ ρ e v τ ↔ ∃ m, Ref.eval m σ.erase ρ e = (.ok v, τ) :=
  C01.model_iff_ref_value

theorem meansApply_iff_ref {σ p args v τ} :
    MeansApply σ p args v τ ↔ ∃ m, Ref.apply m σ.erase p args = (.ok v, τ) := by
  constructor
  · rintro ⟨n, σ', env, h, rfl⟩
    obtain ⟨m, r', hm, ha⟩ := C01.applyProcedure_refines_ref h (by simp)
    cases r' with
    | ok v' => cases ha; exact ⟨m, hm⟩
    | error e => exact ha.elim
  · rintro ⟨m, h⟩
    obtain ⟨n, σ', hn, he⟩ := C01.ref_apply_refines_model h 0
    exact ⟨n, σ', 0, hn, he⟩

theorem Means.erased {σ ρ e v τ} (h : Means σ ρ e v τ) : τ.erase = τ := by
  obtain ⟨_, _, _, rfl⟩ := h; rfl

/-- only the erased start store matters -/
theorem means_erase {σ ρ e v τ} : Means σ.erase ρ e v τ ↔ Means σ ρ e v τ := by
  rw [means_iff_ref, means_iff_ref, Store.erase_erase]

theorem meansApply_erase {σ p args v τ} : MeansApply σ.erase p args v τ ↔ MeansApply σ p args v τ := by
  rw [meansApply_iff_ref, meansApply_iff_ref, Store.erase_erase]

theorem Means.of_evals {σ ρ e v σ'} (h : Evals σ ρ e (.ok v) σ') : Means σ ρ e v σ'.erase := by
  obtain ⟨_, n, hn⟩ := evals_iff.mp h
  exact ⟨n, σ', hn, rfl⟩

/-- the judgement is functional -/
theorem Means.unique {σ ρ e v₁ τ₁ v₂ τ₂} (h₁ : Means σ ρ e v₁ τ₁) (h₂ : Means σ ρ e v₂ τ₂) : v₁ = v₂ ∧ τ₁ = τ₂ := by
  obtain ⟨n₁, σ₁, h₁, rfl⟩ := h₁
  obtain ⟨n₂, σ₂, h₂, rfl⟩ := h₂
  have := (Evals.intro h₁ (by simp)).unique (Evals.intro h₂ (by simp))
  cases this.1; cases this.2; exact ⟨rfl, rfl⟩

/-! ## sequences -/

/-- operands: left to right, each exactly once -/
inductive MeansList (ρ : Nat) : Store → List Expr → List Value → Store → Prop
  | nil {σ} : MeansList ρ σ [] [] σ.erase
  | cons {σ e v σ₁ es vs τ} (h : Means σ ρ e v σ₁) (ht : MeansList ρ σ₁ es vs τ) : MeansList ρ σ (e :: es) (v :: vs) τ

/-- a body: every expression in order, the value of the last one -/
inductive MeansSeq (ρ : Nat) : Store → List Expr → Value → Store → Prop
  | one {σ e v τ} (h : Means σ ρ e v τ) : MeansSeq ρ σ [e] v τ
  | cons {σ e v₁ σ₁ e' es v τ} (h : Means σ ρ e v₁ σ₁) (ht : MeansSeq ρ σ₁ (e' :: es) v τ) :
      MeansSeq ρ σ (e :: e' :: es) v τ


theorem MeansList.erased {ρ σ es vs τ} (h : MeansList ρ σ es vs τ) : τ.erase = τ := by
  induction h with
  | nil => rfl
  | cons _ _ ih => exact ih

theorem MeansSeq.erased {ρ σ es v τ} (h : MeansSeq ρ σ es v τ) : τ.erase = τ := by
  induction h with
  | one h => exact h.erased
  | cons _ _ ih => exact ih

theorem MeansList.length {ρ σ es vs τ} (h : MeansList ρ σ es vs τ) : vs.length = es.length := by
  induction h with
  | nil => rfl
  | cons _ _ ih => simp [ih]

/-! ## through the reference semantics -/

theorem MeansList.ref {ρ σ es vs τ} (h : MeansList ρ σ es vs τ) : ∃ m, Ref.evalList m σ.erase ρ es = (.ok vs, τ) := by
  induction h with
  | nil => exact ⟨1, by rw [Ref.evalList]⟩
  | @cons σ e v σ₁ es vs τ h _ ih =>
    obtain ⟨m₁, h₁⟩ := means_iff_ref.mp h
    obtain ⟨m₂, h₂⟩ := ih
    rw [h.erased] at h₂
    refine ⟨max m₁ m₂ + 1, ?_⟩
    rw [Ref.evalList, Ref.eval_mono_le h₁ (by simp) (Nat.le_max_left _ _)]
    simp only
    rw [Ref.evalList_mono_le h₂ (by simp) (Nat.le_max_right _ _)]

theorem MeansSeq.ref {ρ σ es v τ} (h : MeansSeq ρ σ es v τ) : ∃ m, Ref.evalSeq m σ.erase ρ es = (.ok v, τ) := by
  induction h with
  | one h =>
    obtain ⟨m, hm⟩ := means_iff_ref.mp h
    exact ⟨m + 1, by rw [Ref.evalSeq]; exact hm⟩
  | @cons σ e v₁ σ₁ e' es v τ h _ ih =>
    obtain ⟨m₁, h₁⟩ := means_iff_ref.mp h
    obtain ⟨m₂, h₂⟩ := ih
    rw [h.erased] at h₂
    refine ⟨max m₁ m₂ + 1, ?_⟩
    rw [Ref.evalSeq]
    · rw [Ref.eval_mono_le h₁ (by simp) (Nat.le_max_left _ _)]
      simp only
      exact Ref.evalSeq_mono_le h₂ (by simp) (Nat.le_max_right _ _)
    · simp

theorem erase_pushFrame (σ : Store) (p : Nat) (D : List (String × Value)) :
    (σ.pushFrame p D).erase = σ.erase.pushFrame p D := rfl

/-! ## evaluation rules -/

theorem Means.prim {σ ρ p l v} (h : evalPrim p = .ok v) : Means σ ρ (.prim p l) v σ.erase :=
  .of_evals (Evals.prim h)
theorem Means.sym {σ ρ s l v} (h : σ.lookup ρ s = some v) : Means σ ρ (.sym s l) v σ.erase :=
  .of_evals (Evals.sym h)
theorem Means.lambda {σ ρ lam l} : Means σ ρ (.lambda lam l) (.closure lam ρ) σ.erase :=
  .of_evals Evals.lambda

theorem Means.cond_true {σ ρ t c a l tv σ₁ v τ} (ht : Means σ ρ t tv σ₁) (htv : tv.truthy = true)
    (hc : Means σ₁ ρ c v τ) : Means σ ρ (.cond t c a l) v τ := by
  obtain ⟨m₁, h₁⟩ := means_iff_ref.mp ht
  obtain ⟨m₂, h₂⟩ := means_iff_ref.mp hc
  rw [ht.erased] at h₂
  refine means_iff_ref.mpr ⟨max m₁ m₂ + 1, ?_⟩
  rw [Ref.eval, Ref.eval_mono_le h₁ (by simp) (Nat.le_max_left _ _)]
  simp only [htv, if_true]
  exact Ref.eval_mono_le h₂ (by simp) (Nat.le_max_right _ _)

theorem Means.cond_false {σ ρ t c alt l tv σ₁ v τ} (ht : Means σ ρ t tv σ₁) (htv : tv.truthy = false)
    (hc : Means σ₁ ρ alt v τ) : Means σ ρ (.cond t c (some alt) l) v τ := by
  obtain ⟨m₁, h₁⟩ := means_iff_ref.mp ht
  obtain ⟨m₂, h₂⟩ := means_iff_ref.mp hc
  rw [ht.erased] at h₂
  refine means_iff_ref.mpr ⟨max m₁ m₂ + 1, ?_⟩
  rw [Ref.eval, Ref.eval_mono_le h₁ (by simp) (Nat.le_max_left _ _)]
  simp only [htv]
  exact Ref.eval_mono_le h₂ (by simp) (Nat.le_max_right _ _)

/-- an `if` without alternative whose test is false: the model's value is `Void` -/
theorem Means.cond_void {σ ρ t c l tv σ₁} (ht : Means σ ρ t tv σ₁) (htv : tv.truthy = false) :
    Means σ ρ (.cond t c none l) .void σ₁ := by
  obtain ⟨m₁, h₁⟩ := means_iff_ref.mp ht
  refine means_iff_ref.mpr ⟨m₁ + 1, ?_⟩
  rw [Ref.eval, h₁]
  simp [htv]

/-- a procedure call: operator, operands left to right, application -/
theorem Means.call {σ ρ f args l fv σ₁ vs σ₂ v τ} (hf : Means σ ρ f fv σ₁) (hargs : MeansList ρ σ₁ args vs σ₂)
    (happ : MeansApply σ₂ fv vs v τ) : Means σ ρ (.call f args l) v τ := by
  obtain ⟨m₁, h₁⟩ := means_iff_ref.mp hf
  obtain ⟨m₂, h₂⟩ := hargs.ref
  obtain ⟨m₃, h₃⟩ := meansApply_iff_ref.mp happ
  rw [hf.erased] at h₂
  rw [hargs.erased] at h₃
  refine means_iff_ref.mpr ⟨max m₁ (max m₂ m₃) + 1, ?_⟩
  have hp : (procArity fv).isSome := by
    cases m₃ with
    | zero => rw [Ref.apply] at h₃; cases h₃
    | succ k =>
      unfold Ref.apply at h₃
      cases hpa : procArity fv with
      | none => simp only [hpa] at h₃; cases h₃
      | some a => rfl
  obtain ⟨a, ha⟩ := Option.isSome_iff_exists.mp hp
  rw [Ref.eval, Ref.eval_mono_le h₁ (by simp) (by omega)]
  simp only
  rw [Ref.evalList_mono_le h₂ (by simp) (by omega)]
  simp only [ha]
  exact Ref.apply_mono_le h₃ (by simp) (by omega)

/-- applying a user procedure without internal definitions and without rest parameter: a fresh frame,
child of the closure's frame, binds the parameters; the body runs there -/
theorem MeansApply.closure {σ names bes cenv vs v τ} (hlen : names.length = vs.length)
    (hbody : MeansSeq σ.frames.size (σ.pushFrame cenv (bindList [] names vs)) bes v τ) :
    MeansApply σ (.closure (.mk ⟨names, none⟩ [] bes) cenv) vs v τ := by
  obtain ⟨m, hm⟩ := hbody.ref
  refine meansApply_iff_ref.mpr ⟨m + 1, ?_⟩
  rw [Ref.apply]
  have hok : arityOk names.length false vs.length = true := by simp [arityOk, hlen]
  simp only [procArity, Lambda.formals, Option.isSome_none, hok, Bool.not_true, Bool.false_eq_true, if_false]
  have hb := bindFixed_pushFrame σ.erase cenv names vs [] (by omega)
  simp only [Store.newFrame_eq, Lambda.formals, Lambda.defs, Lambda.body]
  rw [show σ.erase.frames.size = σ.frames.size from rfl] at *
  rw [hb]
  simp only [Ref.bindRest]
  cases m with
  | zero => rw [Ref.evalSeq] at hm; cases hm
  | succ k =>
    rw [Ref.evalDefs]
    simp only
    rw [erase_pushFrame] at hm
    exact hm

/-- the application of a `lambda` expression in operator position — what `begin`, `let` expand to -/
theorem Means.lambda_call {σ ρ names bes vals l l' vs σ₁ v τ} (hvals : MeansList ρ σ vals vs σ₁)
    (hbody : MeansSeq σ₁.frames.size (σ₁.pushFrame ρ (bindList [] names vs)) bes v τ)
    (hlen : names.length = vals.length) :
    Means σ ρ (.call (.lambda (.mk ⟨names, none⟩ [] bes) l) vals l') v τ := by
  refine Means.call Means.lambda ?_ (MeansApply.closure (by rw [hlen, hvals.length]) hbody)
  exact (by
    have : ∀ {σ es vs τ}, MeansList ρ σ es vs τ → MeansList ρ σ.erase es vs τ := by
      intro σ es vs τ h
      cases h with
      | nil => exact .nil
      | cons h ht => exact .cons (means_erase.mpr h) ht
    exact this hvals)

end Ruschm.Meaning

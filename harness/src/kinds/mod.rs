//! further case kinds, one module per family
mod expand;
pub mod progx;
pub fn run_case(kind: &str, fields: Vec<String>) -> Vec<String> {
    match kind {
        // the REPL's private completeness test, through the ruschm_verif hook
        "bracket" => vec![if ruschm::repl::verif_check_bracket_closed(&fields[0]) {
            "closed".to_string()
        } else {
            "open".to_string()
        }],
        "progx" => progx::run(fields),
        "display" => crate::on_fresh_thread(move || display(&fields)),
        "session" => session(fields),
        "world" => crate::on_fresh_thread(move || world(&fields)),
        "libs" => crate::on_fresh_thread(move || libs(&fields)),
        "imports" => crate::on_fresh_thread(move || imports(&fields)),
        "evalfile" => crate::on_fresh_thread(move || evalfile(&fields)),
        "expand" => crate::on_fresh_thread(move || expand::run(&fields)),
        // the table of native procedures as registered: library, name, fixed parameter count, variadic flag
        "builtins" => crate::in_place(builtins),
        _ => vec![format!("X unknown-kind {}", kind)],
    }
}

/// `evalfile`: fields = mode, file content as hex bytes (or `DIR` / `MISSING`); the result of
/// `Interpreter::eval_file` on such a file
fn evalfile(fields: &[String]) -> Vec<String> {
    let dir = std::env::var("HX_TMP").unwrap_or_else(|_| "/verif/build/tmp".to_string());
    let base = format!("{}/evalfile-{}-{:?}", dir, std::process::id(), std::thread::current().id());
    std::fs::create_dir_all(&base).ok();
    let path = match fields[1].as_str() {
        "DIR" => std::path::PathBuf::from(&base),
        "MISSING" => std::path::PathBuf::from(format!("{}/missing.scm", base)),
        hex => {
            let bytes: Vec<u8> = (0..hex.len() / 2).map(|i| u8::from_str_radix(&hex[2 * i..2 * i + 2], 16).unwrap()).collect();
            let p = std::path::PathBuf::from(format!("{}/prog.scm", base));
            std::fs::write(&p, bytes).unwrap();
            p
        }
    };
    let mut it = progx::new_interpreter(&fields[0]);
    let r = match std::panic::catch_unwind(std::panic::AssertUnwindSafe(|| it.eval_file(path))) {
        Ok(Ok(Some(v))) => format!("V {}", crate::canon_value(&v)),
        Ok(Ok(None)) => "N".to_string(),
        Ok(Err(e)) => crate::canon_err(&e),
        Err(p) => crate::panic_message(p),
    };
    std::fs::remove_dir_all(&base).ok();
    vec![r]
}

/// `imports`: field = text of one import declaration, evaluated on a fresh `Interpreter::default()`
/// in which a native library `(m)` exporting a b c d = 1 2 3 4 is registered; the bindings of the
/// root environment afterwards, sorted by name.
fn imports(fields: &[String]) -> Vec<String> {
    use ruschm::interpreter::{Interpreter, LibraryFactory};
    use ruschm::parser::LibraryName;
    use ruschm::values::{Number, Value};
    let mut it = Interpreter::<f32>::default();
    it.register_library_factory(LibraryFactory::Native(
        LibraryName(vec!["m".into()]),
        Box::new(|| {
            vec![("a", 1), ("b", 2), ("c", 3), ("d", 4)]
                .into_iter()
                .map(|(n, v)| (n.to_string(), Value::Number(Number::Integer(v))))
                .collect()
        }),
    ));
    match it.eval(fields[0].chars()) {
        Err(e) => vec![crate::canon_err(&e)],
        Ok(_) => {
            let mut defs: Vec<String> = Vec::new();
            {
                let mut definitions = it.env.iter_local_definitions();
                while let Some((k, v)) = definitions.next() {
                    defs.push(format!("{}={}", crate::esc(k), crate::canon_value(v)));
                }
            }
            defs.sort();
            defs
        }
    }
}

/// `libs`: fields = mode, then `F<relative path>=<content>` entries (library files under a fresh
/// program directory; content `\u{0}UNREADABLE` writes bytes that are not UTF-8, `\u{0}DIR` makes
/// a directory), then `R<lib name elements separated by /> = <text>` entries (sources registered
/// with register_library_factory), then `>`-prefixed submissions evaluated in order. The process
/// runs from another working directory than the program directory.
fn libs(fields: &[String]) -> Vec<String> {
    use ruschm::interpreter::LibraryFactory;
    use ruschm::parser::{LibraryName, LibraryNameElement};
    let dir = std::env::var("HX_TMP").unwrap_or_else(|_| "/verif/build/tmp".to_string());
    let base = format!("{}/libs-{}-{:?}", dir, std::process::id(), std::thread::current().id());
    std::fs::remove_dir_all(&base).ok();
    std::fs::create_dir_all(&base).ok();
    let mut it = progx::new_interpreter(&fields[0]);
    // a field `D` records the program directory only THEN (submissions before it run on an interpreter that has none yet);
    // without such a field it is recorded before anything else
    let late = fields[1..].iter().any(|f| f == "D");
    if !late {
        it.program_directory = Some(std::path::PathBuf::from(&base));
    }
    // the process's WORKING directory is another, private directory: `W<path>=<content>` puts a file there (a decoy: library
    // files are looked up relative to the program, never relative to the working directory)
    let cwd = format!("{}/cwd-{}", dir, std::process::id());
    std::fs::remove_dir_all(&cwd).ok();
    std::fs::create_dir_all(&cwd).ok();
    std::env::set_current_dir(&cwd).ok();
    let mut out = vec![];
    for f in &fields[1..] {
        if let Some(rest) = f.strip_prefix('W') {
            let (path, content) = rest.split_once('=').unwrap();
            let full = std::path::PathBuf::from(&cwd).join(path);
            if let Some(parent) = full.parent() {
                std::fs::create_dir_all(parent).ok();
            }
            std::fs::write(&full, content).unwrap();
        } else if let Some(rest) = f.strip_prefix('F') {
            let (path, content) = rest.split_once('=').unwrap();
            let full = std::path::PathBuf::from(&base).join(path);
            if let Some(parent) = full.parent() {
                std::fs::create_dir_all(parent).ok();
            }
            if content == "\u{0}UNREADABLE" {
                std::fs::write(&full, b"(define-library \xff\xfe)").unwrap();
            } else if content == "\u{0}DIR" {
                std::fs::create_dir_all(&full).ok();
            } else {
                std::fs::write(&full, content).unwrap();
            }
        } else if let Some(rest) = f.strip_prefix('R') {
            let (name, text) = rest.split_once('=').unwrap();
            let lib = LibraryName(name.split('/').map(|e| LibraryNameElement::Identifier(e.to_string())).collect());
            match std::panic::catch_unwind(std::panic::AssertUnwindSafe(|| LibraryFactory::from_char_stream(&lib, text.chars()))) {
                Ok(Ok(factory)) => it.register_library_factory(factory),
                Ok(Err(e)) => out.push(format!("R{}", crate::canon_err(&e))),
                Err(p) => out.push(crate::panic_message(p)),
            }
        } else if let Some(form) = f.strip_prefix('>') {
            out.push(crate::eval_form(&mut it, form));
        } else if f == "D" {
            it.program_directory = Some(std::path::PathBuf::from(&base));
        } else if let Some(rel) = f.strip_prefix('E') {
            // run a program FILE (written by an earlier F field) through eval_file on the same interpreter
            let full = std::path::PathBuf::from(&base).join(rel);
            out.push(match std::panic::catch_unwind(std::panic::AssertUnwindSafe(|| it.eval_file(full))) {
                Ok(Ok(Some(v))) => format!("V {}", crate::canon_value(&v)),
                Ok(Ok(None)) => "N".to_string(),
                Ok(Err(e)) => crate::canon_err(&e),
                Err(p) => crate::panic_message(p),
            });
        }
    }
    std::fs::remove_dir_all(&base).ok();
    std::env::set_current_dir(&dir).ok();
    std::fs::remove_dir_all(&cwd).ok();
    out
}

/// `world`: several interpreter instances ON ONE THREAD. Two exist initially; fields are steps
/// `<index>:<text>` (evaluate the text on that instance) or `new` (create another instance with
/// `new_with_stdlib`, which must succeed whatever the others have evaluated).
fn world(fields: &[String]) -> Vec<String> {
    use ruschm::interpreter::{Interpreter, LibraryFactory};
    use ruschm::parser::{LibraryName, LibraryNameElement};
    let mut insts: Vec<Interpreter<f32>> = vec![Interpreter::new_with_stdlib(), Interpreter::new_with_stdlib()];
    let mut out = vec![];
    for f in fields {
        if f == "new" {
            match std::panic::catch_unwind(Interpreter::<f32>::new_with_stdlib) {
                Ok(it) => {
                    insts.push(it);
                    out.push("new-ok".to_string());
                }
                Err(p) => out.push(crate::panic_message(p)),
            }
            continue;
        }
        let (idx, text) = f.split_once(':').unwrap();
        // `E<index>:<program text>`: write the text as prog.scm into a fresh directory that also holds a library file util.sld,
        // and run it on that instance through `eval_file` (as `ruschm FILE` does)
        if let Some(eidx) = idx.strip_prefix('E') {
            let eidx: usize = eidx.parse().unwrap();
            let dir = std::env::var("HX_TMP").unwrap_or_else(|_| "/verif/build/tmp".to_string());
            let wdir = format!("{}/wfile-{}-{}", dir, std::process::id(), out.len());
            std::fs::create_dir_all(&wdir).ok();
            std::fs::write(format!("{}/util.sld", wdir), "(define-library (util) (import (scheme base)) (export f) (begin (define (f) 1)))").ok();
            let path = std::path::PathBuf::from(format!("{}/prog.scm", wdir));
            std::fs::write(&path, text).ok();
            match insts.get_mut(eidx) {
                Some(it) => match std::panic::catch_unwind(std::panic::AssertUnwindSafe(|| it.eval_file(path))) {
                    Ok(Ok(Some(v))) => out.push(format!("V {}", crate::canon_value(&v))),
                    Ok(Ok(None)) => out.push("N".to_string()),
                    Ok(Err(e)) => out.push(crate::canon_err(&e)),
                    Err(p) => out.push(crate::panic_message(p)),
                },
                None => out.push("X no-instance".to_string()),
            }
            continue;
        }
        // `S<index>:<program text>`: like E, but every S step of the case uses ONE shared directory whose util.sld keeps a counter
        // (written once): two instances running program files next to the same library file
        if let Some(sidx) = idx.strip_prefix('S') {
            let sidx: usize = sidx.parse().unwrap();
            let dir = std::env::var("HX_TMP").unwrap_or_else(|_| "/verif/build/tmp".to_string());
            let wdir = format!("{}/wshared-{}-{:?}", dir, std::process::id(), std::thread::current().id());
            std::fs::create_dir_all(&wdir).ok();
            let lib = format!("{}/util.sld", wdir);
            if !std::path::Path::new(&lib).exists() {
                std::fs::write(&lib, "(define-library (util) (import (scheme base)) (export f) (begin (define n 0) (define (f) (set! n (+ n 1)) n)))").ok();
            }
            let path = std::path::PathBuf::from(format!("{}/prog{}.scm", wdir, out.len()));
            std::fs::write(&path, text).ok();
            match insts.get_mut(sidx) {
                Some(it) => match std::panic::catch_unwind(std::panic::AssertUnwindSafe(|| it.eval_file(path))) {
                    Ok(Ok(Some(v))) => out.push(format!("V {}", crate::canon_value(&v))),
                    Ok(Ok(None)) => out.push("N".to_string()),
                    Ok(Err(e)) => out.push(crate::canon_err(&e)),
                    Err(p) => out.push(crate::panic_message(p)),
                },
                None => out.push("X no-instance".to_string()),
            }
            continue;
        }
        // `R<index>:<name>=<source>`: register a library source on that instance (result `reg-ok` or the error)
        if let Some(ridx) = idx.strip_prefix('R') {
            let ridx: usize = ridx.parse().unwrap();
            let (name, src) = text.split_once('=').unwrap();
            let lib = LibraryName(name.split('/').map(|e| LibraryNameElement::Identifier(e.to_string())).collect());
            match std::panic::catch_unwind(std::panic::AssertUnwindSafe(|| LibraryFactory::from_char_stream(&lib, src.chars()))) {
                Ok(Ok(factory)) => match insts.get_mut(ridx) {
                    Some(it) => {
                        it.register_library_factory(factory);
                        out.push("reg-ok".to_string())
                    }
                    None => out.push("X no-instance".to_string()),
                },
                Ok(Err(e)) => out.push(format!("R{}", crate::canon_err(&e))),
                Err(p) => out.push(crate::panic_message(p)),
            }
            continue;
        }
        let idx: usize = idx.parse().unwrap();
        match insts.get_mut(idx) {
            Some(it) => out.push(crate::eval_form(it, text)),
            None => out.push("X no-instance".to_string()),
        }
    }
    out
}

/// `session`: fields = mode, then submissions. What a REPL session with these submissions must
/// write to standard output if it "equals evaluating the same forms one after another on one
/// interpreter": per submission the program's own output, then the Display of the value of its
/// last form and a newline (nothing for definitions and Void), errors as `E kind` separately.
fn session(fields: Vec<String>) -> Vec<String> {
    use ruschm::values::Value;
    use std::io::{Read, Seek, SeekFrom, Write};
    use std::os::unix::io::AsRawFd;
    extern "C" {
        fn dup(fd: i32) -> i32;
        fn dup2(a: i32, b: i32) -> i32;
        fn close(fd: i32) -> i32;
    }
    crate::on_fresh_thread(move || {
        let mut it = progx::new_interpreter(&fields[0]);
        let dir = std::env::var("HX_TMP").unwrap_or_else(|_| "/verif/build/tmp".to_string());
        let path = format!("{}/session-{}-{:?}", dir, std::process::id(), std::thread::current().id());
        let mut tmp = std::fs::OpenOptions::new().read(true).write(true).create(true).truncate(true).open(&path).unwrap();
        std::fs::remove_file(&path).ok();
        std::io::stdout().flush().ok();
        let saved = unsafe { dup(1) };
        unsafe { dup2(tmp.as_raw_fd(), 1) };
        let mut errs = vec![];
        // mode "...+perform": per field three items instead of the transcript - what the field itself wrote, the
        // Display of its value (empty for none / Void), its error kind (empty for none)
        let per_form = fields[0].contains("+perform");
        let mut items = vec![];
        let mut read_from = 0u64;
        for f in &fields[1..] {
            let r = std::panic::catch_unwind(std::panic::AssertUnwindSafe(|| it.eval(f.chars())));
            if per_form {
                std::io::stdout().flush().ok();
                let mut own = Vec::new();
                tmp.seek(SeekFrom::Start(read_from)).ok();
                tmp.read_to_end(&mut own).ok();
                read_from += own.len() as u64;
                items.push(format!("o {}", crate::esc(&String::from_utf8_lossy(&own))));
                match r {
                    Ok(Ok(Some(Value::Void))) | Ok(Ok(None)) => { items.push("v ".to_string()); items.push("e ".to_string()); }
                    Ok(Ok(Some(v))) => { items.push(format!("v {}", crate::esc(&format!("{}", v)))); items.push("e ".to_string()); }
                    Ok(Err(e)) => { items.push("v ".to_string()); items.push(format!("e {} {}", crate::err_kind(&e), crate::esc(&format!("{}", e)))); }
                    Err(p) => { items.push("v ".to_string()); items.push(format!("e {}", crate::panic_message(p))); }
                }
                continue;
            }
            match r {
                Ok(Ok(Some(Value::Void))) | Ok(Ok(None)) => (),
                Ok(Ok(Some(v))) => println!("{}", v),
                Ok(Err(e)) => errs.push(format!("E {} {}", crate::err_kind(&e), crate::esc(&format!("{}", e)))),
                Err(p) => errs.push(crate::panic_message(p)),
            }
        }
        std::io::stdout().flush().ok();
        unsafe {
            dup2(saved, 1);
            close(saved);
        }
        let mut bytes = Vec::new();
        tmp.seek(SeekFrom::Start(0)).ok();
        tmp.read_to_end(&mut bytes).ok();
        if per_form {
            return items;
        }
        let mut out = vec![format!("O {}", crate::esc(&String::from_utf8_lossy(&bytes)))];
        out.extend(errs);
        out
    })
}

/// `display`: fields = mode, an expression. `T <text>` = Display of its value (what `display`
/// prints), `V <canonical value>`, then the result of evaluating `(quote <text>)` on the same
/// interpreter: the printed text quoted and read back.
fn display(fields: &[String]) -> Vec<String> {
    let mut it = progx::new_interpreter(&fields[0]);
    match it.eval(fields[1].chars()) {
        Ok(Some(v)) => {
            let text = format!("{}", v);
            let back = crate::eval_form(&mut it, &format!("(quote {})", text));
            vec![format!("T {}", crate::esc(&text)), format!("V {}", crate::canon_value(&v)), back]
        }
        Ok(None) => vec!["N".to_string()],
        Err(e) => vec![crate::canon_err(&e)],
    }
}

/// every definition of `(ruschm base)` and `(ruschm write)`: `lib name fixed variadic`, sorted
/// (registration order is not observable: the library keeps them in a `HashMap`)
fn builtins() -> Vec<String> {
    use ruschm::interpreter::library::native::{base, write};
    let mut out = vec![];
    for (lib, map) in vec![("base", base::library_map::<f32>()), ("write", write::library_map::<f32>())] {
        for (name, v) in map {
            match v {
                ruschm::values::Value::Procedure(p) => {
                    let (fixed, variadic) = p.get_parameters().len();
                    out.push(format!("{} {} {} {}", lib, crate::esc(&name), fixed, variadic));
                }
                _ => out.push(format!("{} {} not-a-procedure", lib, crate::esc(&name))),
            }
        }
    }
    out.sort();
    out
}

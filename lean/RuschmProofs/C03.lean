/-
Property C03 — bindings, closures and vectors as objects with identity.

"set! changes the one binding that lexical scoping designates, and the change is seen by every
closure that shares that binding and by no other; each procedure call creates fresh bindings, so
closures from different calls never interfere. Vectors are objects with identity: all aliases of
a vector (variables, arguments, elements of lists or other vectors, captured references) observe
every vector-set!, distinct vectors never do, and literal vectors reject mutation."

Only property theorems live here (each is audited with `#print axioms`); helper lemmas are in
`RuschmProofs/StoreLemmas.lean`, vocabulary in `RuschmSpec/Store.lean`:
`Store.chain σ ρ` (the lexical scope of frame `ρ`), `Store.binding σ r x` / `Store.definesAt`
(the bindings as a finite map), `Store.SameExceptBinding`, `Store.SameExceptCell`
("differs exactly at"), `Store.Grows` ("only ever appends"), `Store.WF`, `Store.AllocIn`.

How the model represents the things the property talks about.
* A *binding* is a pair (frame id, name); a closure is `.closure lam ρ` and sees exactly the
  bindings of `Store.chain σ ρ`. Two closures *share* the binding of `x` iff `resolve` sends
  them to the same frame.
* A *vector object* is a cell id; every alias of a vector — wherever it is stored: a variable,
  an argument, a list element, an element of another vector, a closure's frame — is the value
  `.vec id` with the same `id`. `Value` offers no way to copy a cell: copying a value (pairs are
  copied structurally, as the Rust deep-copies boxes) copies the *reference*.
* Pairs have no identity (`eqv?` of two non-empty pairs is always `#f`): see `eqv_vector_identity`.

Index. 1 `set_locality`; 2 `set_visibility`, `define_visibility`; 3 `applyScheme_alloc`,
`frames_monotone_data`, `frames_monotone`, `fresh_frame_per_call`, `scoping_forms`;
4 `vector_set_outcome`, `vector_set_one_cell`, `vector_ref_reads_cell`, `vec_alias`,
`alias_transport`, `alloc_fresh`, `literal_vector_immutable`, `immutable_cells_never_change`,
`cells_only_from_allocators`; 5 `store_wf_data`, `store_wf_invariant`; 6 `eqv_vector_identity`.
All are proved at full strength (none needed weakening); `set_visibility`/`define_visibility`
need no well-formedness hypothesis because `lookupAux`/`resolveAux` guard `p < ρ` themselves.
-/
import RuschmProofs.StoreLemmas

namespace Ruschm.C03
open Ruschm Ruschm.Eval


/-! ## 1. `set!` changes the one binding that lexical scoping designates -/

/-- `set!` succeeds iff some frame on the chain of `ρ` defines `x`; it then writes to the
*first* such frame `r` and the new store differs from the old one exactly in the value that
frame `r` holds for `x` (every other frame, every other name of `r`, `r`'s parent, all vectors,
output, ticks and depth are unchanged). Otherwise it reports `false` and the store is unchanged. -/
theorem set_locality (σ : Store) (ρ : Nat) (x : String) (v : Value) :
    (∀ r, σ.resolve ρ x = some r →
        r ∈ σ.chain ρ ∧ (σ.chain ρ).find? (fun r => σ.definesAt r x) = some r ∧
        σ.definesAt r x = true ∧
        σ.set ρ x v = (true, σ.define r x v) ∧
        Store.SameExceptBinding σ (σ.define r x v) r x ∧
        (σ.define r x v).binding r x = some v) ∧
    (σ.resolve ρ x = none →
        (∀ r ∈ σ.chain ρ, σ.definesAt r x = false) ∧ σ.set ρ x v = (false, σ)) ∧
    ((σ.set ρ x v).1 = true ↔ ∃ r ∈ σ.chain ρ, σ.definesAt r x = true) := by
  refine ⟨fun r hr => ?_, fun hn => ?_, ?_⟩
  · have hf := hr
    rw [Store.resolve_eq_find] at hf
    have hs := Store.resolve_some hr
    refine ⟨List.mem_of_find?_eq_some hf, hf, hs.1, by rw [Store.set_eq, hr],
      Store.sameExceptBinding_define σ r x v, ?_⟩
    rw [Store.binding_define]; simp [hs.2.2]
  · have hf := hn
    rw [Store.resolve_eq_find, List.find?_eq_none] at hf
    exact ⟨fun r hr => by simpa using hf r hr, by rw [Store.set_eq, hn]⟩
  · rw [Store.set_eq]
    cases hr : σ.resolve ρ x with
    | some r =>
      have hf := hr
      rw [Store.resolve_eq_find] at hf
      simp only [true_iff]
      exact ⟨r, List.mem_of_find?_eq_some hf, (Store.resolve_some hr).1⟩
    | none =>
      rw [Store.resolve_eq_find, List.find?_eq_none] at hr
      simp only [Bool.false_eq_true, false_iff, not_exists, not_and]
      intro r hm; simpa using hr r hm

/-- non-vacuity: from frame 3 (scope 3 → 1 → 0), `set! x` writes to frame 1 (which shadows the
root's `x`), not to frame 0; from frame 2 it writes to frame 0; `set! nope` fails. -/
example : Store.demo.chain 3 = [3, 1, 0] ∧ Store.demo.resolve 3 "x" = some 1 ∧ Store.demo.resolve 2 "x" = some 0 ∧
    (Store.demo.set 3 "x" .nil).1 = true ∧ (Store.demo.set 3 "nope" .nil).1 = false ∧
    (Store.demo.set 3 "x" .nil).2.binding 1 "x" = some .nil ∧
    (Store.demo.set 3 "x" .nil).2.binding 0 "x" = some (.num (.int 1)) := by
  refine ⟨by decide, by decide, by decide, by decide, by decide, rfl, rfl⟩

/-! ## 2. the change is seen by every closure that shares the binding and by no other -/

/-- After a successful `set!` of `x` from frame `ρ`: scoping itself is unchanged (every name
resolves from every frame to the same frame as before); a lookup of `y` from ANY frame `ρ'`
(the environment of any closure) yields the new value if `y` is `x` and `ρ'` resolves it to the
same frame as `ρ` did — the closure shares the binding — and yields exactly what it yielded
before in every other case. (No well-formedness hypothesis is needed: `lookup`/`resolve` guard
the parent links themselves.) -/
theorem set_visibility {σ σ' : Store} {ρ : Nat} {x : String} {v : Value}
    (h : σ.set ρ x v = (true, σ')) (ρ' : Nat) (y : String) :
    σ'.resolve ρ' y = σ.resolve ρ' y ∧
    (y = x ∧ σ.resolve ρ' y = σ.resolve ρ x → σ'.lookup ρ' y = some v) ∧
    (¬ (y = x ∧ σ.resolve ρ' y = σ.resolve ρ x) → σ'.lookup ρ' y = σ.lookup ρ' y) :=
  Store.lookup_after_set h ρ' y

/-- non-vacuity: `set! x` from frame 3 of `demo` writes frame 1's `x`. Frames 3 and 1 share that
binding and see the new value; frames 0 and 2 (whose `x` is the root's) still see `1`; other
names are unaffected. -/
example : ∃ σ', Store.demo.set 3 "x" (.sym "new") = (true, σ') ∧
    σ'.lookup 3 "x" = some (.sym "new") ∧ σ'.lookup 1 "x" = some (.sym "new") ∧
    σ'.lookup 0 "x" = some (.num (.int 1)) ∧ σ'.lookup 2 "x" = some (.num (.int 1)) ∧
    σ'.lookup 3 "v" = some (.vec 0) :=
  ⟨_, rfl, rfl, rfl, rfl, rfl, rfl⟩

/-- `define` in an allocated frame `ρ`: afterwards a name `y` resolves from `ρ'` to the first
frame of the (unchanged) chain of `ρ'` that either is `ρ` (for `y = x`) or defined `y` before;
a lookup of `y` from any frame `ρ'` yields the new value if `y` is `x` and now resolves to `ρ`
(the definition is visible from `ρ'` and not shadowed), and is unchanged in every other case. -/
theorem define_visibility (σ : Store) {ρ : Nat} (x : String) (v : Value) (hρ : ρ < σ.frames.size)
    (ρ' : Nat) (y : String) :
    (σ.define ρ x v).chain ρ' = σ.chain ρ' ∧
    (σ.define ρ x v).resolve ρ' y =
      (σ.chain ρ').find? (fun j => decide (j = ρ ∧ y = x) || σ.definesAt j y) ∧
    (y = x ∧ (σ.define ρ x v).resolve ρ' x = some ρ → (σ.define ρ x v).lookup ρ' y = some v) ∧
    (¬ (y = x ∧ (σ.define ρ x v).resolve ρ' x = some ρ) →
      (σ.define ρ x v).lookup ρ' y = σ.lookup ρ' y) := by
  refine ⟨Store.chain_define σ ρ x v ρ', ?_, Store.lookup_after_define σ x v hρ ρ' y⟩
  rw [Store.resolve_define]; simp [hρ]

/-- non-vacuity: a new definition `v` in frame 1 of `demo` shadows the root's `v` for frames 1
and 3, not for frames 0 and 2. -/
example : ((Store.demo.define 1 "v" .nil).lookup 3 "v" = some .nil) ∧
    ((Store.demo.define 1 "v" .nil).lookup 1 "v" = some .nil) ∧
    ((Store.demo.define 1 "v" .nil).lookup 0 "v" = some (.vec 0)) ∧
    ((Store.demo.define 1 "v" .nil).lookup 2 "v" = some (.vec 0)) :=
  ⟨rfl, rfl, rfl, rfl⟩

/-! ## 4. vectors are objects with identity -/

/-- `vector-set!` through a reference `.vec id`: on an immutable cell it is rejected with
`RequiresMutable`, out of range with `VectorIndexOutOfBounds`, and in both cases nothing changes;
otherwise the new store differs from the old one exactly in the items of cell `id`, item `n`
of which is now `obj`. -/
theorem vector_set_outcome {σ : Store} {id : Nat} {cell : VecCell} (hc : σ.vecs[id]? = some cell)
    (n : Int) (obj : Value) :
    (cell.mutable = false →
      Prim.applyPure σ .vectorSet [.vec id, .num (.int n), obj] = (.error (.immutable, none), σ)) ∧
    (cell.mutable = true → (n < 0 ∨ cell.items.length ≤ n.toNat) →
      Prim.applyPure σ .vectorSet [.vec id, .num (.int n), obj] = (.error (.vectorIndex, none), σ)) ∧
    (cell.mutable = true → 0 ≤ n → n.toNat < cell.items.length →
      ∃ σ', Prim.applyPure σ .vectorSet [.vec id, .num (.int n), obj] = (.ok .void, σ') ∧
        Store.SameExceptCell σ σ' id ∧
        σ'.vecs[id]? = some { cell with items := cell.items.set n.toNat obj }) := by
  rw [Prim.vectorSet_outcome hc]
  refine ⟨fun hm => by simp [hm], fun hm hn => by simp [hm, hn], fun hm h0 hn => ?_⟩
  refine ⟨Prim.vsetStore σ id cell n.toNat obj, ?_, Prim.sameExceptCell_vsetStore hc _ _, ?_⟩
  · have : ¬ (n < 0 ∨ cell.items.length ≤ n.toNat) := by omega
    simp [hm, this]
  · rw [Prim.vsetStore_vecs_getElem?]; simp [Store.getElem?_some_lt hc]

/-- Whatever the arguments: `vector-set!` through `.vec id` changes at most the items of cell
`id` (all other cells, all frames, the mutability flags, output, … are unchanged), and an error
outcome changes nothing at all. -/
theorem vector_set_one_cell {σ : Store} {id : Nat} {k obj : Value} {r : Except SErr Value} {σ' : Store}
    (h : Prim.applyPure σ .vectorSet [.vec id, k, obj] = (r, σ')) :
    Store.SameExceptCell σ σ' id ∧ (∀ e, r = .error e → σ' = σ) := by
  rcases Prim.applyPure_vectorSet_shape h with
    ⟨rfl, e, rfl⟩ | ⟨id', n, obj', rest, cell, hargs, hc, _, _, _, rfl, rfl⟩
  · exact ⟨⟨rfl, rfl, rfl, rfl, rfl, rfl, fun _ _ => rfl, rfl⟩, fun _ _ => rfl⟩
  · simp only [List.cons.injEq, Value.vec.injEq] at hargs
    obtain ⟨rfl, -, -, -⟩ := hargs
    exact ⟨Prim.sameExceptCell_vsetStore hc _ _, fun e he => by cases he⟩

/-- `vector-ref` through a reference `.vec id` reads cell `id`. -/
theorem vector_ref_reads_cell {σ : Store} {id : Nat} {cell : VecCell} (hc : σ.vecs[id]? = some cell)
    (n : Int) :
    Prim.applyPure σ .vectorRef [.vec id, .num (.int n)] =
      if n < 0 then (.error (.vectorIndex, none), σ)
      else match cell.items[n.toNat]? with
        | some x => (.ok x, σ)
        | none => (.error (.vectorIndex, none), σ) :=
  Prim.vectorRef_outcome hc n []

/-- Aliasing. After a successful `(vector-set! a n obj)` where `a` is any alias of cell `id`
(aliases are equal references `.vec id`, wherever they are stored), a `vector-ref` through any
alias of the same cell sees `obj` at index `n` and the old items elsewhere, and a `vector-ref`
through a reference to a *different* cell `id' ≠ id` gives exactly what it gave before, for
every index argument. -/
theorem vec_alias {σ σ' : Store} {id : Nat} {n : Int} {obj : Value}
    (h : Prim.applyPure σ .vectorSet [.vec id, .num (.int n), obj] = (.ok .void, σ')) :
    Prim.applyPure σ' .vectorRef [.vec id, .num (.int n)] = (.ok obj, σ') ∧
    (∀ m : Int, m ≠ n → (Prim.applyPure σ' .vectorRef [.vec id, .num (.int m)]).1 =
        (Prim.applyPure σ .vectorRef [.vec id, .num (.int m)]).1) ∧
    (∀ id' k, id' ≠ id → (Prim.applyPure σ' .vectorRef [.vec id', k]).1 =
        (Prim.applyPure σ .vectorRef [.vec id', k]).1) ∧
    (∀ id' k, (Prim.applyPure σ' .vectorRef [.vec id', k]).2 = σ') := by
  rcases Prim.applyPure_vectorSet_shape h with
    ⟨_, e, he⟩ | ⟨id', n', obj', rest, cell, hargs, hc, _, h0, hn, _, rfl⟩
  · cases he
  simp only [List.cons.injEq, Value.vec.injEq, Value.num.injEq, Num.int.injEq] at hargs
  obtain ⟨rfl, rfl, rfl, -⟩ := hargs
  have hnew : (Prim.vsetStore σ id cell n.toNat obj).vecs[id]? =
      some { cell with items := cell.items.set n.toNat obj } := by
    rw [Prim.vsetStore_vecs_getElem?]; simp [Store.getElem?_some_lt hc]
  refine ⟨?_, fun m hm => ?_, fun id'' k hne => ?_, fun id'' k => ?_⟩
  · rw [Prim.vectorRef_outcome hnew]
    have : ¬ n < 0 := by omega
    simp [this, hn]
  · rw [Prim.vectorRef_outcome hnew, Prim.vectorRef_outcome hc]
    by_cases hm0 : m < 0
    · simp [hm0]
    · have : n.toNat ≠ m.toNat := by omega
      simp only [hm0, if_false, List.getElem?_set, this]
      split <;> rfl
  · exact (Prim.vectorRef_congr (by
      rw [Prim.vsetStore_vecs_getElem?]; simp [Ne.symm hne]) k []).1
  · exact (Prim.vectorRef_congr (σ := Prim.vsetStore σ id cell n.toNat obj) rfl k []).2

/-- non-vacuity: in `demo`, `v` (frame 0) and the car of `l` (frame 2) and item 0 of cell #1 are
aliases of cell #0; a `vector-set!` through one is seen through the others; cell #1 is a
different object and is immutable. -/
example : ∃ σ', Prim.applyPure Store.demo .vectorSet [.vec 0, .num (.int 1), .sym "new"] = (.ok .void, σ') ∧
    Store.demo.lookup 3 "v" = some (.vec 0) ∧ Store.demo.lookup 2 "l" = some (.pair (.vec 0) (.vec 1)) ∧
    Prim.applyPure σ' .vectorRef [.vec 0, .num (.int 1)] = (.ok (.sym "new"), σ') ∧
    Prim.applyPure σ' .vectorRef [.vec 1, .num (.int 0)] = (.ok (.vec 0), σ') ∧
    Prim.applyPure Store.demo .vectorSet [.vec 1, .num (.int 0), .nil] = (.error (.immutable, none), Store.demo) ∧
    Prim.applyPure Store.demo .vectorSet [.vec 0, .num (.int 2), .nil] = (.error (.vectorIndex, none), Store.demo) :=
  ⟨_, rfl, rfl, rfl, rfl, rfl, rfl, rfl⟩

/-- Values travel unchanged: storing a value and reading it back — through a variable
(`define` then `lookup`), a pair (`cons` then `car`/`cdr`), a procedure argument (`bindFixed` is
`define`), or another vector (`vector` then `vector-ref`) — yields the very same value. For a
reference `.vec id` this is the same `id`: every such path produces an alias, never a copy of
the cell (cf. `cells_only_from_allocators`). -/
theorem alias_transport (σ : Store) (v w : Value) :
    (∀ ρ x, ρ < σ.frames.size → (σ.define ρ x v).lookup ρ x = some v) ∧
    Prim.applyPure σ .cons [v, w] = (.ok (.pair v w), σ) ∧
    Prim.applyPure σ .car [.pair v w] = (.ok v, σ) ∧
    Prim.applyPure σ .cdr [.pair v w] = (.ok w, σ) ∧
    (∀ (items : List Value) (n : Nat), items[n]? = some v →
      Prim.applyPure (σ.allocVec true items).2 .vectorRef [(σ.allocVec true items).1, .num (.int n)] =
        (.ok v, (σ.allocVec true items).2)) := by
  refine ⟨fun ρ x hρ => ?_, rfl, rfl, rfl, fun items n hn => ?_⟩
  · have h := (Store.lookup_after_define σ x v hρ ρ x).1
    apply h
    refine ⟨rfl, ?_⟩
    rw [Store.resolve_define, Store.chain, Store.chainAux]
    simp [hρ]
  · have hc : (σ.allocVec true items).2.vecs[σ.vecs.size]? = some { mutable := true, items := items } := by
      simp
    rw [Store.allocVec_fst, Prim.vectorRef_outcome hc]
    simp [hn]

example : Prim.applyPure Store.demo .car [.pair (.vec 0) .nil] = (.ok (.vec 0), Store.demo) ∧
    (Store.demo.define 3 "w" (.vec 0)).lookup 3 "w" = some (.vec 0) := ⟨rfl, rfl⟩

/-- Fresh identity: `allocVec`, `(vector …)` and `(make-vector k fill)` return a reference to a
cell id that was not allocated before; all existing cells are unchanged. -/
theorem alloc_fresh (σ : Store) :
    σ.vecs[σ.vecs.size]? = none ∧
    (∀ m items, (σ.allocVec m items).1 = .vec σ.vecs.size ∧
      (σ.allocVec m items).2.vecs[σ.vecs.size]? = some { mutable := m, items := items } ∧
      (∀ j, j ≠ σ.vecs.size → (σ.allocVec m items).2.vecs[j]? = σ.vecs[j]?) ∧
      (σ.allocVec m items).2.frames = σ.frames) ∧
    (∀ args, Prim.applyPure σ .vector args = (.ok (.vec σ.vecs.size), (σ.allocVec true args).2)) ∧
    (∀ (n : Int) fill, 0 ≤ n → Prim.applyPure σ .makeVector [.num (.int n), fill] =
      (.ok (.vec σ.vecs.size), (σ.allocVec true (List.replicate n.toNat fill)).2)) := by
  refine ⟨by simp, fun m items => ⟨rfl, by simp, fun j hj => ?_, rfl⟩, fun _ => rfl, fun n fill hn => ?_⟩
  · simp [Array.getElem?_push, hj]
  · have : ¬ n < 0 := by omega
    simp [Prim.applyPure, this, Prim.ok, Store.allocVec]

example : Prim.applyPure Store.demo .vector [.nil] = (.ok (.vec 2), (Store.demo.allocVec true [.nil]).2) ∧
    Store.demo.vecs[2]? = none := ⟨rfl, rfl⟩

/-- Literal vectors reject mutation: evaluating a vector literal (self-evaluating or quoted)
yields a reference to a cell that did not exist before, and every `vector-set!` through that
reference is rejected with `RequiresMutable`, leaving the store unchanged. -/
theorem literal_vector_immutable {fuel : Nat} {σ : Store} {ρ : Nat} {xs : List Datum} {l l' : Loc}
    {v : Value} {σ' : Store}
    (h : evalExpr (fuel + 1) σ ρ (.datum (.vec xs l) l') = (.ok v, σ') ∨
         evalExpr (fuel + 1) σ ρ (.quote (.vec xs l) l') = (.ok v, σ')) :
    ∃ id, v = .vec id ∧ σ.vecs.size ≤ id ∧ id < σ'.vecs.size ∧ σ'.frames = σ.frames ∧
      (∀ j, j < σ.vecs.size → σ'.vecs[j]? = σ.vecs[j]?) ∧
      ∀ (n : Int) obj,
        Prim.applyPure σ' .vectorSet [v, .num (.int n), obj] = (.error (.immutable, none), σ') := by
  have h' : readLiteral σ (.vec xs l) = (.ok v, σ') := by
    rcases h with h | h <;> simpa [evalExpr] using h
  obtain ⟨id, vs, rfl, hle, hsz, hcell⟩ := readLiteral_vec h'
  have hstep := readLiteral_litStep σ (.vec xs l)
  rw [h'] at hstep
  refine ⟨id, rfl, hle, by omega, hstep.frames, fun j hj => hstep.old_cells hj, fun n obj => ?_⟩
  rw [Prim.vectorSet_outcome hcell]; simp

example : ∃ σ', evalExpr 1 Store.demo 0 (.datum (.vec [.prim (.int 7) none] none) none) = (.ok (.vec 2), σ') ∧
    Prim.applyPure σ' .vectorSet [.vec 2, .num (.int 0), .nil] = (.error (.immutable, none), σ') :=
  ⟨(Store.demo.allocVec false [.num (.int 7)]).2,
    by simp [evalExpr, readLiteral, readLiterals, evalPrim, Store.allocVec, Store.demo], rfl⟩

/-- No operation other than the allocators creates a cell: `define`, `set`, `newFrame`,
parameter binding and every native procedure other than `vector` / `make-vector` leave the
number of cells unchanged (all but `vector-set!` leave the cells themselves unchanged). Values
are copied by mentioning the same id; there is no way to duplicate a cell. -/
theorem cells_only_from_allocators (σ : Store) :
    (∀ ρ x v, (σ.define ρ x v).vecs = σ.vecs) ∧
    (∀ ρ x v, (σ.set ρ x v).2.vecs = σ.vecs) ∧
    (∀ p, (σ.newFrame p).2.vecs = σ.vecs) ∧
    (∀ ρ names args, (bindFixed σ ρ names args).2.vecs = σ.vecs) ∧
    (∀ b args, b ≠ .vector → b ≠ .makeVector → (Prim.applyPure σ b args).2.vecs.size = σ.vecs.size) ∧
    (∀ b args, b ≠ .vector → b ≠ .makeVector → b ≠ .vectorSet → (Prim.applyPure σ b args).2.vecs = σ.vecs) := by
  refine ⟨fun _ _ _ => by simp, fun ρ x v => ?_, fun _ => rfl,
    fun ρ names args => (bindFixed_other names args σ ρ).1, fun b args h1 h2 => ?_,
    fun b args h1 h2 h3 => Prim.applyPure_vecs σ b args h1 h2 h3⟩
  · rw [Store.set_eq]; split <;> simp
  · by_cases h3 : b = .vectorSet
    · subst h3
      exact (vector_set_one_cell (σ := σ) (id := 0) (k := .nil) (obj := .nil) rfl).1.vecs_size |> fun _ => by
        rcases Prim.applyPure_vectorSet_shape (σ := σ) (args := args)
          (r := (Prim.applyPure σ .vectorSet args).1) (σ' := (Prim.applyPure σ .vectorSet args).2) rfl with
          ⟨h, _⟩ | ⟨id, n, obj, rest, cell, _, hc, _, _, _, _, h⟩
        · rw [h]
        · rw [h]; exact (Prim.sameExceptCell_vsetStore hc _ _).vecs_size
    · rw [Prim.applyPure_vecs σ b args h1 h2 h3]

/-! ## 3. each procedure call creates fresh bindings (data level) -/

/-- One step of `applyScheme`: it allocates frame `σ.frames.size` — an id that is not allocated
in `σ` — with the closure's frame `cenv` as parent and no definitions; every frame of `σ` and
every vector is untouched. The parameters are then bound in THAT frame only: after `bindFixed`
(and the rest parameter) all frames of `σ` are still untouched, the fresh frame still has parent
`cenv`, and its bindings are exactly the parameters (`names[i] ↦ args[i]`, last occurrence of a
repeated name first; the rest name ↦ the list of the remaining arguments). The internal
definitions and the body then run in the fresh frame. -/
theorem applyScheme_alloc (fuel : Nat) (σ : Store) (lam : Lambda) (cenv : Nat) (args : List Value) :
    let ρ := σ.frames.size
    let σ₀ := (σ.newFrame (some cenv)).2
    (σ.newFrame (some cenv)).1 = ρ ∧ σ.frames[ρ]? = none ∧
    σ₀.frames[ρ]? = some { parent := some cenv, defs := [] } ∧
    (∀ i, i ≠ ρ → σ₀.frames[i]? = σ.frames[i]?) ∧ σ₀.vecs = σ.vecs ∧
    (∀ er σ₁, bindFixed σ₀ ρ lam.formals.fixed args = (.error er, σ₁) →
      applyScheme (fuel + 1) σ lam cenv args = (.error (er, none), σ₁)) ∧
    (∀ rest σ₁, bindFixed σ₀ ρ lam.formals.fixed args = (.ok rest, σ₁) →
      let σ₂ := match lam.formals.rest with
        | some r => σ₁.define ρ r (Value.ofList rest)
        | none => σ₁
      (∀ i, i ≠ ρ → σ₂.frames[i]? = σ.frames[i]?) ∧ σ₂.vecs = σ.vecs ∧
      σ₂.frames.size = ρ + 1 ∧ σ₂.parentOf ρ = some cenv ∧
      rest = args.drop lam.formals.fixed.length ∧
      (∀ y, σ₂.binding ρ y =
        if lam.formals.rest = some y then some (Value.ofList rest)
        else ((lam.formals.fixed.zip args).reverse).lookup y) ∧
      applyScheme (fuel + 1) σ lam cenv args =
        match evalDefs fuel σ₂ ρ lam.defs with
        | (.error er, σ) => (.error er, σ)
        | (.ok (), σ) => evalBody fuel σ ρ lam.body) := by
  intro ρ σ₀
  have h0 : ∀ i, i ≠ ρ → σ₀.frames[i]? = σ.frames[i]? := fun i hi => by
    simp [σ₀, Array.getElem?_push, hi, ρ]
  have hρ : ρ < σ₀.frames.size := by simp [σ₀, ρ]
  have hb0 : ∀ y, σ₀.binding ρ y = none := fun y => by
    simp [Store.binding, σ₀, ρ]
  have hp0 : σ₀.parentOf ρ = some cenv := by simp [Store.parentOf, σ₀, ρ]
  refine ⟨rfl, by simp [ρ], by simp [σ₀, ρ], h0, rfl, fun er σ₁ hb => ?_, fun rest σ₁ hb => ?_⟩
  · simp only [applyScheme, Store.newFrame]
    simp only [σ₀, ρ, Store.newFrame] at hb
    rw [hb]
  · have hoth := bindFixed_other lam.formals.fixed args σ₀ ρ
    simp only [hb] at hoth
    obtain ⟨hv, -, -, -, -, hsz, hfr, hpar⟩ := hoth
    have hm : ∀ o : Option Value, (match o with | some a => some a | none => none) = o := by
      intro o; cases o <;> rfl
    obtain ⟨-, hrest, hbind⟩ := bindFixed_bindings _ _ _ _ _ _ hρ hb
    have hρ₁ : ρ < σ₁.frames.size := by rw [hsz]; exact hρ
    refine ⟨fun i hi => ?_, ?_, ?_, ?_, hrest, fun y => ?_, ?_⟩
    · cases lam.formals.rest with
      | none => exact (hfr i hi).trans (h0 i hi)
      | some r =>
        simp only [Store.define_frames_getElem?, hi, if_false]
        exact (hfr i hi).trans (h0 i hi)
    · cases lam.formals.rest <;> simp [hv, σ₀]
    · cases lam.formals.rest <;> simp [hsz, σ₀, ρ]
    · cases lam.formals.rest with
      | none => exact hpar.trans hp0
      | some r => simp only [Store.parentOf_define]; exact hpar.trans hp0
    · cases lam.formals.rest with
      | none =>
        simp only [hbind y, hb0, reduceCtorEq, if_false]
        exact hm _
      | some r =>
        simp only [Store.binding_define, hbind y, hb0, hρ₁, and_true, true_and, Option.some.injEq]
        by_cases hy : y = r
        · simp [hy]
        · simp only [hy, if_false, Ne.symm hy]
          exact hm _
    · simp only [applyScheme, Store.newFrame]
      simp only [σ₀, ρ, Store.newFrame] at hb
      rw [hb]
      rfl

/-- non-vacuity: calling a closure of `demo` (over frame 0) allocates frame 4 — unallocated in
`demo` — under frame 0 and binds `a` there; a second call gets frame 5. -/
example : ∃ σ₁ σ₂, bindFixed (Store.demo.newFrame (some 0)).2 4 ["a"] [.nil] = (.ok [], σ₁) ∧
    Store.demo.frames[4]? = none ∧ σ₁.binding 4 "a" = some .nil ∧ σ₁.parentOf 4 = some 0 ∧
    (σ₁.newFrame (some 0)).1 = 5 ∧
    bindFixed (σ₁.newFrame (some 0)).2 5 ["a"] [.void] = (.ok [], σ₂) ∧
    σ₂.binding 4 "a" = some .nil ∧ σ₂.binding 5 "a" = some .void :=
  ⟨_, _, rfl, rfl, rfl, rfl, rfl, rfl, rfl, rfl⟩

/-- The data-level operations only ever append frames and cells (`Store.Grows`: sizes never
decrease, existing frames keep their parent and their defined names, existing cells keep their
mutability flag and length, immutable cells their contents). `Grows` is a preorder, so the
statement extends to any sequence of these operations. -/
theorem frames_monotone_data (σ : Store) :
    Store.Grows σ σ ∧
    (∀ σ₂ σ₃, Store.Grows σ σ₂ → Store.Grows σ₂ σ₃ → Store.Grows σ σ₃) ∧
    (∀ ρ x v, Store.Grows σ (σ.define ρ x v)) ∧
    (∀ ρ x v, Store.Grows σ (σ.set ρ x v).2) ∧
    (∀ p, Store.Grows σ (σ.newFrame p).2) ∧
    (∀ m items, Store.Grows σ (σ.allocVec m items).2) ∧
    (∀ b args, Store.Grows σ (Prim.applyPure σ b args).2) ∧
    (∀ d, Store.Grows σ (readLiteral σ d).2) ∧
    (∀ ρ names args, Store.Grows σ (bindFixed σ ρ names args).2) :=
  ⟨Store.Grows.refl σ, fun _ _ => Store.Grows.trans, Store.grows_define σ, Store.grows_set σ,
   Store.grows_newFrame σ, Store.grows_allocVec σ, Prim.applyPure_grows σ, readLiteral_grows σ,
   fun ρ names args => bindFixed_grows names args σ ρ⟩

example : Store.Grows Store.demo (Store.demo.set 3 "x" .nil).2 ∧ (Store.demo.set 3 "x" .nil).1 = true :=
  ⟨Store.grows_set Store.demo 3 "x" .nil, by decide⟩

/-! ## 5. the store invariant (data level) -/

/-- `Store.WF` holds of the initial store (one root frame) and is preserved by every data-level
operation on allocated arguments; the values these operations return mention allocated ids only. -/
theorem store_wf_data :
    Store.root.WF ∧
    ∀ σ : Store, σ.WF →
      (∀ ρ x v, σ.AllocIn v → (σ.define ρ x v).WF) ∧
      (∀ ρ x v, σ.AllocIn v → (σ.set ρ x v).2.WF) ∧
      (∀ p, (∀ q, p = some q → q < σ.frames.size) → (σ.newFrame p).2.WF) ∧
      (∀ m items, (∀ v ∈ items, σ.AllocIn v) →
        (σ.allocVec m items).2.WF ∧ (σ.allocVec m items).2.AllocIn (σ.allocVec m items).1) ∧
      (∀ b args, (∀ a ∈ args, σ.AllocIn a) →
        (Prim.applyPure σ b args).2.WF ∧
        ∀ v, (Prim.applyPure σ b args).1 = .ok v → (Prim.applyPure σ b args).2.AllocIn v) ∧
      (∀ d, (readLiteral σ d).2.WF ∧
        ∀ v, (readLiteral σ d).1 = .ok v → (readLiteral σ d).2.AllocIn v) ∧
      (∀ ρ names args, (∀ a ∈ args, σ.AllocIn a) →
        (bindFixed σ ρ names args).2.WF ∧
        ∀ rest, (bindFixed σ ρ names args).1 = .ok rest →
          ∀ a ∈ rest, (bindFixed σ ρ names args).2.AllocIn a) ∧
      (∀ σ' v, Store.Grows σ σ' → σ.AllocIn v → σ'.AllocIn v) :=
  ⟨Store.wf_root, fun σ wf =>
    ⟨fun ρ x _ hv => Store.wf_define wf ρ x hv, fun ρ x _ hv => Store.wf_set wf ρ x hv,
     fun p hp => Store.wf_newFrame wf p hp,
     fun m items hi => ⟨Store.wf_allocVec wf m hi, Store.allocIn_allocVec σ m items⟩,
     fun b _ ha => Prim.applyPure_wf wf b ha, fun d => readLiteral_wf wf d,
     fun ρ names args ha => bindFixed_wf names args σ ρ wf ha,
     fun _ _ g h => h.grows g⟩⟩

/-- the invariant is satisfiable by a store with closures, nested references and a parent chain
(`Store.demo_wf`), and a dangling reference breaks it -/
example : Store.demo.WF := Store.demo_wf

example : ¬ (Store.demo.define 0 "bad" (.vec 9)).WF := fun h => by
  have := h.frame_vals 0 _ rfl ("bad", .vec 9) (List.Mem.tail _ (List.Mem.tail _ (List.Mem.head _)))
  simp [Store.AllocIn, Store.demo] at this

/-! ## how the expression forms use the store operations -/

/-- The link between the Scheme forms and the store operations the theorems above are about:
a variable reference is `Store.lookup` from the current frame; a `lambda` captures the current
frame id; `(set! x e)` evaluates `e` and then is exactly `Store.set` from the current frame
(`Void` on success, `UnboundedSymbol` at the form's location and an unchanged store otherwise); an internal definition
evaluates its expression and then is `Store.define` in the call's own frame. -/
theorem scoping_forms (fuel : Nat) (σ : Store) (ρ : Nat) :
    (∀ s l, evalExpr (fuel + 1) σ ρ (.sym s l) =
      match σ.lookup ρ s with
      | some v => (.ok v, σ)
      | none => (.error (.unbound, l), σ)) ∧
    (∀ lam l, evalExpr (fuel + 1) σ ρ (.lambda lam l) = (.ok (.closure lam ρ), σ)) ∧
    (∀ x e l, evalExpr (fuel + 1) σ ρ (.assign x e l) =
      match evalExpr fuel σ ρ e with
      | (.error er, σ₁) => (.error er, σ₁)
      | (.ok v, σ₁) =>
        match σ₁.set ρ x v with
        | (true, σ₂) => (.ok .void, σ₂)
        | (false, σ₂) => (.error (.unbound, l), σ₂)) ∧
    (∀ name e l ds, evalDefs (fuel + 1) σ ρ (.mk name e l :: ds) =
      match evalExpr fuel σ ρ e with
      | (.error er, σ₁) => (.error er, σ₁)
      | (.ok v, σ₁) => evalDefs fuel (σ₁.define ρ name v) ρ ds) := by
  refine ⟨fun s l => ?_, fun lam l => ?_, fun x e l => ?_, fun name e l ds => ?_⟩
  · simp only [evalExpr]; rfl
  · simp only [evalExpr]
  · simp only [evalExpr]; rfl
  · simp only [evalDefs]; rfl

/-- non-vacuity: `(set! x 'new)` evaluated in frame 3 of `demo` writes frame 1's `x`, and the
variable `x` evaluated afterwards in frame 1 (sharing) gives `new`, in frame 2 (not sharing) `1`. -/
example : ∃ σ', evalExpr 2 Store.demo 3 (.assign "x" (.quote (.sym "new" none) none) none) = (.ok .void, σ') ∧
    evalExpr 1 σ' 1 (.sym "x" none) = (.ok (.sym "new"), σ') ∧
    evalExpr 1 σ' 2 (.sym "x" none) = (.ok (.num (.int 1)), σ') := by
  refine ⟨(Store.demo.set 3 "x" (.sym "new")).2, ?_, ?_, ?_⟩
  · simp only [evalExpr, readLiteral]; rfl
  · rw [(scoping_forms 0 _ 1).1]; rfl
  · rw [(scoping_forms 0 _ 2).1]; rfl

/-! ## 3 and 5 at the level of the whole evaluator (mutual induction on fuel) -/

/-- Every evaluator function only ever appends frames and cells, whatever the fuel and whatever
the outcome (value, error, out of fuel): `Store.Grows σ σ'` — sizes never decrease; every frame
of `σ` keeps its parent link and its defined names; every cell of `σ` keeps its mutability flag
and its length; an immutable cell keeps its contents. No hypothesis on the store is needed. -/
theorem frames_monotone (fuel : Nat) :
    (∀ σ ρ e, Store.Grows σ (evalExpr fuel σ ρ e).2) ∧
    (∀ σ ρ es, Store.Grows σ (evalArgs fuel σ ρ es).2) ∧
    (∀ σ p args env, Store.Grows σ (applyProcedure fuel σ p args env).2) ∧
    (∀ σ p args env, Store.Grows σ (applyLoop fuel σ p args env).2) ∧
    (∀ σ lam cenv args, Store.Grows σ (applyScheme fuel σ lam cenv args).2) ∧
    (∀ σ ρ ds, Store.Grows σ (evalDefs fuel σ ρ ds).2) ∧
    (∀ σ ρ es, Store.Grows σ (evalBody fuel σ ρ es).2) ∧
    (∀ σ ρ e, Store.Grows σ (evalTail fuel σ ρ e).2) :=
  have h := growsAt fuel
  ⟨h.expr, h.args, h.proc, h.loop, h.scheme, h.defs, h.body, h.tail⟩

/-- the program `((lambda (a) (set! x a) (vector a)) 5)` -/
def prog : Expr :=
  .call (.lambda (.mk ⟨["a"], none⟩ []
      [.assign "x" (.sym "a" none) none, .call (.sym "vector" none) [.sym "a" none] none]) none)
    [.prim (.int 5) none] none

/-- non-vacuity (the statement has no hypothesis; this shows an instance that is not the trivial
reflexive one): running `prog` in frame 3 of `demo` with `vector` bound in the root returns `#2`,
a fresh one-element vector, in a store with 5 frames (frame 4, child of 3, binds `a ↦ 5`) and 3
cells, where `x` seen from frame 3 is now `5` and the root's `x` is still `1`. -/
example : ∃ σ', evalExpr 12 (Store.demo.define 0 "vector" (.builtin .vector)) 3 prog = (.ok (.vec 2), σ') ∧
    Store.Grows (Store.demo.define 0 "vector" (.builtin .vector)) σ' ∧
    σ'.frames.size = 5 ∧ σ'.vecs.size = 3 ∧ σ'.lookup 3 "x" = some (.num (.int 5)) ∧
    σ'.lookup 0 "x" = some (.num (.int 1)) ∧ σ'.parentOf 4 = some 3 ∧
    σ'.binding 4 "a" = some (.num (.int 5)) := by
  let σ₁ := enter (Store.demo.define 0 "vector" (.builtin .vector))
  let σ₃ := (((σ₁.newFrame (some 3)).2.define 4 "a" (.num (.int 5))).set 4 "x" (.num (.int 5))).2
  have h1 : applyScheme 9 σ₁ (.mk ⟨["a"], none⟩ []
      [.assign "x" (.sym "a" none) none, .call (.sym "vector" none) [.sym "a" none] none]) 3
      [.num (.int 5)] = (.ok (.tailCall (.sym "vector" none) [.sym "a" none] 4), σ₃) := by
    simp only [applyScheme, evalDefs, evalBody, evalTail, evalExpr, Lambda.formals, Lambda.defs,
      Lambda.body, bindFixed]
    rfl
  have h2 : evalExpr 9 σ₃ 4 (.sym "vector" none) = (.ok (.builtin .vector), σ₃) := by
    simp only [evalExpr]; rfl
  have h3 : evalArgs 9 σ₃ 4 [.sym "a" none] = (.ok [.num (.int 5)], σ₃) := by
    simp only [evalArgs, evalExpr]; rfl
  have h4 : applyLoop 9 σ₃ (.builtin .vector) [.num (.int 5)] 3 =
      (.ok (.vec 2), (σ₃.allocVec true [.num (.int 5)]).2) := by
    simp only [applyLoop, procArity]; rfl
  have h : evalExpr 12 (Store.demo.define 0 "vector" (.builtin .vector)) 3 prog =
      (.ok (.vec 2), leave (σ₃.allocVec true [.num (.int 5)]).2) := by
    simp only [prog, evalExpr, evalArgs, evalPrim, procArity, applyProcedure]
    have h5 : applyLoop 10 σ₁ (.closure (.mk ⟨["a"], none⟩ []
        [.assign "x" (.sym "a" none) none, .call (.sym "vector" none) [.sym "a" none] none]) 3)
        [.num (.int 5)] 3 = (.ok (.vec 2), (σ₃.allocVec true [.num (.int 5)]).2) := by
      simp only [applyLoop, procArity, h1, h2, h3, h4]; rfl
    rw [h5]
  refine ⟨_, h, ?_, rfl, rfl, rfl, rfl, rfl, rfl⟩
  have := (frames_monotone 12).1 (Store.demo.define 0 "vector" (.builtin .vector)) 3 prog
  rwa [h] at this

/-- Literal vectors never change: a cell that is immutable in `σ` has exactly the same contents
after any evaluation from `σ` (every `vector-set!` on it was rejected). Stated for `evalExpr`;
it holds for all eight functions by `frames_monotone`. -/
theorem immutable_cells_never_change (fuel : Nat) (σ : Store) (ρ : Nat) (e : Expr) {i : Nat} {c : VecCell}
    (hc : σ.vecs[i]? = some c) (hm : c.mutable = false) : (evalExpr fuel σ ρ e).2.vecs[i]? = some c := by
  obtain ⟨c', hc', _, _, heq⟩ := (evalExpr_grows fuel σ ρ e).cell i c hc
  rw [hc', heq hm]

/-- Each procedure call creates fresh bindings. A call (`applyScheme`, one fuel step) of a
closure over frame `cenv` runs in frame `ρ₁ = σ.frames.size`, which is not allocated in `σ` — so,
`σ` being well formed, no value stored anywhere in `σ` (no closure, no list element, no vector
item) refers to it. After the call, whatever its outcome, that frame exists and its parent is
still `cenv`; all frames of `σ` still have their parents and their names (`Store.Grows`). Any
later call — from any store `σ₂` reached from the call's result store — runs in a frame
`ρ₂ = σ₂.frames.size > ρ₁`: two calls never share their frame, and in `σ₂` frame `ρ₁` is still
the first call's frame (same parent), so closures created by different calls have different
environments. (Which bindings the body's own `set!`/`define` change is `set_locality` /
`set_visibility` / `define_visibility`; the parameters go to the fresh frame only:
`applyScheme_alloc`.) -/
theorem fresh_frame_per_call {fuel : Nat} {σ σ₁ : Store} {lam : Lambda} {cenv : Nat} {args : List Value}
    {r : Except SErr TailRes} (h : applyScheme (fuel + 1) σ lam cenv args = (r, σ₁))
    {σ₂ : Store} (hg : Store.Grows σ₁ σ₂) :
    let ρ₁ := σ.frames.size
    σ.frames[ρ₁]? = none ∧
    (σ.WF → (∀ (i : Nat) (f : Frame), σ.frames[i]? = some f → ∀ kv ∈ f.defs, ρ₁ ∉ kv.2.frameIds) ∧
            (∀ (i : Nat) (c : VecCell), σ.vecs[i]? = some c → ∀ v ∈ c.items, ρ₁ ∉ v.frameIds)) ∧
    Store.Grows σ σ₁ ∧ ρ₁ < σ₁.frames.size ∧ σ₁.parentOf ρ₁ = some cenv ∧
    σ₂.parentOf ρ₁ = some cenv ∧ ρ₁ < σ₂.frames.size ∧ σ₂.frames[σ₂.frames.size]? = none ∧
    (σ₂.newFrame (some cenv)).1 ≠ ρ₁ := by
  intro ρ₁
  have g0 : Store.Grows (σ.newFrame (some cenv)).2 σ₁ := by
    have := applyScheme_succ_grows fuel σ lam cenv args; rwa [h] at this
  have hf0 : (σ.newFrame (some cenv)).2.frames[ρ₁]? = some { parent := some cenv, defs := [] } := by
    simp [ρ₁]
  obtain ⟨f₁, hf₁, hp₁, -⟩ := g0.frame ρ₁ _ hf0
  obtain ⟨f₂, hf₂, hp₂, -⟩ := hg.frame ρ₁ _ hf₁
  have hlt₁ : ρ₁ < σ₁.frames.size := Store.getElem?_some_lt hf₁
  have hlt₂ : ρ₁ < σ₂.frames.size := Store.getElem?_some_lt hf₂
  refine ⟨by simp [ρ₁], fun wf => ⟨fun i f hf kv hkv hmem => ?_, fun i c hc v hv hmem => ?_⟩,
    ?_, hlt₁, ?_, ?_, hlt₂, by simp, ?_⟩
  · exact Nat.lt_irrefl _ ((wf.frame_vals i f hf kv hkv).1 _ hmem)
  · exact Nat.lt_irrefl _ ((wf.vec_vals i c hc v hv).1 _ hmem)
  · have := applyScheme_grows (fuel + 1) σ lam cenv args; rwa [h] at this
  · simp [Store.parentOf, hf₁, hp₁]
  · simp [Store.parentOf, hf₂, hp₂, hp₁]
  · simp only [Store.newFrame_fst]; omega

/-- non-vacuity: the hypotheses are satisfiable — a call of the closure `f` of `demo` (over frame
0) from the well-formed store `demo`, and a second call from the store the first one left. The
first runs in frame 4, which `demo` does not have; the second in a frame `≠ 4`. -/
example : Store.demo.WF ∧ Store.demo.frames[4]? = none ∧
    ((applyScheme 5 Store.demo (.mk ⟨["a"], none⟩ [] [.sym "x" none]) 0 [.nil]).2.newFrame (some 0)).1 ≠ 4 :=
  ⟨Store.demo_wf, rfl,
   (fresh_frame_per_call (σ := Store.demo) (fuel := 4) (lam := .mk ⟨["a"], none⟩ [] [.sym "x" none])
      (cenv := 0) (args := [.nil]) rfl (Store.Grows.refl _)).2.2.2.2.2.2.2.2⟩

/-- The store invariant is an invariant of the whole evaluator. From a well-formed store, with
the current environment / the procedure and its arguments / the closure's frame allocated,
every evaluator function returns a well-formed store — whatever the fuel and the outcome — and
a result that mentions allocated ids only (a value; a list of values; for the tail-position
functions a value or a pending tail call whose environment is allocated). Together with
`store_wf_data` (`Store.root.WF`) this makes `WF` hold of every store the interpreter reaches. -/
theorem store_wf_invariant (fuel : Nat) :
    (∀ σ ρ e r σ', evalExpr fuel σ ρ e = (r, σ') → σ.WF → ρ < σ.frames.size →
      σ'.WF ∧ ∀ v, r = .ok v → σ'.AllocIn v) ∧
    (∀ σ ρ es r σ', evalArgs fuel σ ρ es = (r, σ') → σ.WF → ρ < σ.frames.size →
      σ'.WF ∧ ∀ vs, r = .ok vs → ∀ v ∈ vs, σ'.AllocIn v) ∧
    (∀ σ p args env r σ', applyProcedure fuel σ p args env = (r, σ') → σ.WF → σ.AllocIn p →
      (∀ a ∈ args, σ.AllocIn a) → σ'.WF ∧ ∀ v, r = .ok v → σ'.AllocIn v) ∧
    (∀ σ p args env r σ', applyLoop fuel σ p args env = (r, σ') → σ.WF → σ.AllocIn p →
      (∀ a ∈ args, σ.AllocIn a) → σ'.WF ∧ ∀ v, r = .ok v → σ'.AllocIn v) ∧
    (∀ σ lam cenv args r σ', applyScheme fuel σ lam cenv args = (r, σ') → σ.WF →
      cenv < σ.frames.size → (∀ a ∈ args, σ.AllocIn a) →
      σ'.WF ∧ ∀ t, r = .ok t → TailRes.AllocIn σ' t) ∧
    (∀ σ ρ ds r σ', evalDefs fuel σ ρ ds = (r, σ') → σ.WF → ρ < σ.frames.size → σ'.WF) ∧
    (∀ σ ρ es r σ', evalBody fuel σ ρ es = (r, σ') → σ.WF → ρ < σ.frames.size →
      σ'.WF ∧ ∀ t, r = .ok t → TailRes.AllocIn σ' t) ∧
    (∀ σ ρ e r σ', evalTail fuel σ ρ e = (r, σ') → σ.WF → ρ < σ.frames.size →
      σ'.WF ∧ ∀ t, r = .ok t → TailRes.AllocIn σ' t) :=
  have h := wfAt fuel
  ⟨h.expr, h.args, h.proc, h.loop, h.scheme, h.defs, h.body, h.tail⟩

/-- non-vacuity: the hypotheses hold of the demo store (extended with `vector`), frame 3 and
`prog`, so the store after running `prog` is well formed. -/
example : (evalExpr 10 (Store.demo.define 0 "vector" (.builtin .vector)) 3 prog).2.WF :=
  ((store_wf_invariant 10).1 _ 3 prog _ _ rfl
    (Store.wf_define Store.demo_wf 0 "vector" (by simp [Store.AllocIn]))
    (by simp [Store.demo])).1

/-! ## 6. `eqv?` on vectors is identity of cells; pairs have no identity -/

/-- `eqv?` (and `eq?`, the same procedure) on two vector references compares the cell ids: two
references are `eqv?` iff they are aliases. Pairs are boxed values without identity in the Rust
(`Pair(Box<…>)`, compared by address of two distinct boxes): `eqv?` on two non-empty pairs is
always `#f`, even for "the same" pair, and on two empty lists `#t`. -/
theorem eqv_vector_identity :
    (∀ a b, Prim.eqv (.vec a) (.vec b) = (a == b)) ∧
    (∀ a d a' d', Prim.eqv (.pair a d) (.pair a' d') = false) ∧
    Prim.eqv .nil .nil = true ∧
    (∀ a d, Prim.eqv (.pair a d) .nil = false ∧ Prim.eqv .nil (.pair a d) = false) ∧
    (∀ (σ : Store) a b, Prim.applyPure σ .eqv [.vec a, .vec b] = (.ok (.bool (a == b)), σ) ∧
      Prim.applyPure σ .eq [.vec a, .vec b] = (.ok (.bool (a == b)), σ)) := by
  refine ⟨fun _ _ => rfl, fun _ _ _ _ => rfl, rfl, fun _ _ => ⟨rfl, rfl⟩, fun _ _ _ => ⟨rfl, rfl⟩⟩

example : Prim.eqv (.vec 0) (.vec 0) = true ∧ Prim.eqv (.vec 0) (.vec 1) = false ∧
    Prim.eqv (.pair (.vec 0) .nil) (.pair (.vec 0) .nil) = false := ⟨rfl, rfl, rfl⟩

end Ruschm.C03

/-
Property C02 — tail calls run in bounded space.
-/
import RuschmProofs.TailLemmas
namespace Ruschm.C02
open Ruschm Ruschm.Eval Ruschm.Prim

end Ruschm.C02

//! further case kinds, one module per family
pub fn run_case(kind: &str, _fields: Vec<String>) -> Vec<String> {
    vec![format!("X unknown-kind {}", kind)]
}

/-
Property C05 — derived forms behave as R7RS specifies: the MEANING of each bundled derived form.

`C05Shapes.lean` says what each bundled rule of `grammar.sld` expands to (about the generated constant
`Gen.grammarData`). Here the expansion is followed through the parser's transformer (`Xform`) and the
evaluator: each theorem takes a derived form `(kw . rest)` = `.pair (.sym kw l₁) rest l` that the
transformer turned into the expression `e` (`XE env form e`) in a syntax environment with the bundled
forms (`StdSyn env`), names the expressions its sub-forms were turned into, and gives the evaluation
rules of `e` in terms of the evaluation of those: which are evaluated, in which order, in which frame,
and what the value is.

Vocabulary (`MeaningLemmas.lean`):
* `XE env d e` — the transformer turns datum `d` into expression `e` (leaving `env` unchanged).
  Body forms of the lambdas the templates build are transformed in a child scope, `[] :: env`.
* `Means σ ρ e v τ` — the MODEL (`evalExpr`, some fuel) evaluates `e` in store `σ`, frame `ρ`, to the
  value `v`; `τ` is the final store with the activation counters erased (`Store.erase`: `depth` and
  `maxDepth` are instrumentation). It is functional (`Means.unique`) and, by `C01.model_iff_ref_value`,
  the value judgement of the reference semantics. A rule "premises → `Means σ ρ e v τ`" therefore
  fixes the value and the final store whenever the premises hold; sub-expressions that do not occur in
  the premises are NOT evaluated (an evaluation of them could fail or change the store).
* `MeansSeq ρ σ es v τ` — the expressions `es` in order, the value of the last;
  `MeansList ρ σ es vs τ` — operands left to right; `MeansApply σ p args v τ` — procedure application.
* `σ.pushFrame ρ D` — `σ` with one more frame (number `σ.frames.size`), child of frame `ρ`, with the
  bindings `D`.
* `NoDefs env body` — no form of `body` is a definition (the templates put the body forms into a
  `lambda` body, where a leading definition would be an internal definition).
The templates are not hygienic: `temp`, `x`, `atom-key` are bound in a child frame in which the
user's remaining sub-forms are evaluated; the rules say so explicitly.
-/
import RuschmProofs.MeaningLemmas

namespace Ruschm.C05Meaning
open Ruschm Ruschm.Eval Ruschm.Xform Ruschm.Macro Ruschm.Meaning Ruschm.C05

/-! ## begin -/

/-- `(begin form₁ … formₙ)`: the forms are evaluated in order, in a fresh empty frame that is a child of
the current one, and the value is the value of the last. -/
theorem begin_meaning {env l₁ rest l body e} (hstd : StdSyn env) (hu : IsList rest body) (hne : body ≠ [])
    (hnd : NoDefs ([] :: env) body) (hx : XE env (.pair (.sym "begin" l₁) rest l) e) :
    ∃ bes, All2 (XE ([] :: env)) body bes ∧
      ∀ σ ρ v τ, MeansSeq σ.frames.size (σ.pushFrame ρ []) bes v τ → Means σ ρ e v τ := by
  have h₁ := hx.expand_inv hstd.std (by decide) (fun fuel hf => at_loc (begin_shape (isList_withLoc l hu) hne hf))
  obtain ⟨F, bes, aes, la, lb, hF, hbes, haes, rfl⟩ :=
    h₁.lambda_call_inv (isList_ofList _ _) (isList_ofList _ _) rfl hnd
  cases haes
  have := toFormals_list hF (isList_ofList l [])
  subst this
  exact ⟨bes, hbes, fun σ ρ v τ hb => Means.lambda_call (names := []) .nil hb.to_erase rfl⟩

end Ruschm.C05Meaning

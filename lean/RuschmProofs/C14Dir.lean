/-
Property C14 (and C19), the lookup DIRECTORY — "library files are located relative to the program's
directory, not the process's working directory", for histories in which that directory changes.

In the Rust code the directory is part of the interpreter's state (`program_directory:
Option<PathBuf>`): `eval_file` records the directory of the program file it runs, and while none is
recorded `file_library_factory` looks relative to the process's working directory. The model has
`State.dir` (the directory library files are looked up in NOW; "" = the base directory the keys
of `State.files` are relative to) and `State.files`, a map from directory-qualified paths
(`fileKey dir path`); `Interp.evalFile` is `eval_file`.

Only property theorems live here; helper lemmas (the non-interference induction over the
interpreter's mutual block) are in `RuschmProofs/DirLemmas.lean`.
-/
import RuschmProofs.DirLemmas
import RuschmProofs.C14Model

namespace Ruschm.C14Dir
open Ruschm Ruschm.Interp

/-! ## a concrete file system for the examples -/

def libOne : LibName := [.ident "one"]

/-- two program directories `p1` and `p2`; the library file `one.sld` exists only under `p1`
(and, as a decoy, in the working directory `cwd`) -/
def demoFiles : List (String × FileEntry) :=
  [("p1/one.sld", .text "(define-library (one))"), ("p1/prog.scm", .text ""),
   ("p2/prog.scm", .text ""), ("cwd/one.sld", .text "(define-library (one))")]

def demo : State := { store := Store.root, files := demoFiles }

example : libPath libOne = "one.sld" ∧ dirOf "p1/prog.scm" = "p1" ∧ dirOf "sub/p3/prog.scm" = "sub/p3" ∧
    dirOf "prog.scm" = "" ∧ fileKey "p1" "one.sld" = "p1/one.sld" ∧ fileKey "" "one.sld" = "one.sld" := by decide

/-! ## (a) one lookup, at the current directory -/

/-- `get_library` consults the file map ONLY at `fileKey st.dir (libPath name)`: the library path
of the name, in the directory the interpreter looks libraries up in at that moment (`fileKey "" p =
p`, `fileKey d p = d/p`). (1) `getLibrary` is the cached instance, else `instantiate` of what
`findFactory` finds. (2) Without a registered factory, what `findFactory` does is decided by the
entry at that one key: no entry — `libNotFound` at the import's location, state unchanged; an
unreadable entry — an io error, state unchanged; a text — the factory `factoryOfText` makes of it
(registered under `name`), or its error. (3) `findFactory` is blind to every other key: with any
other file map `fs` that has the same entry at that key, it gives the same outcome and the same
state (but for the file map). (4) The same for the WHOLE of `getLibrary`, the libraries imported
transitively included, and the library paths of the current directory: if `fs` agrees with the
state's file map at `fileKey st.dir (libPath n)` for every name `n`, `getLibrary` on the state with
`fs` has the same outcome and reaches the same state (but for the file map): no key outside the
current directory is ever read. -/
theorem lookup_uses_current_directory (name : LibName) (loc : Loc) (st : State) :
    (∀ p d, fileKey "" p = p ∧ (d ≠ "" → fileKey d p = d ++ "/" ++ p)) ∧
    (∀ fuel, getLibrary (fuel + 1) st name loc =
      match libLookup st.instances name with
      | some defs => (.ok defs, st)
      | none =>
        match findFactory st name loc with
        | (.error e, st) => (.error e, st)
        | (.ok f, st) => instantiate fuel st f name) ∧
    (libLookup st.factories name = none →
      (st.files.lookup (fileKey st.dir (libPath name)) = none →
        findFactory st name loc = (.error (.libNotFound, loc), st)) ∧
      (st.files.lookup (fileKey st.dir (libPath name)) = some .unreadable →
        findFactory st name loc = (.error (.io, none), st)) ∧
      (∀ t, st.files.lookup (fileKey st.dir (libPath name)) = some (.text t) →
        findFactory st name loc = match factoryOfText name t with
          | .ok f => (.ok f, { st with factories := libInsert st.factories name f })
          | .error e => (.error e, st))) ∧
    (∀ fs : List (String × FileEntry),
      fs.lookup (fileKey st.dir (libPath name)) = st.files.lookup (fileKey st.dir (libPath name)) →
      findFactory { st with files := fs } name loc =
        ((findFactory st name loc).1, { (findFactory st name loc).2 with files := fs })) ∧
    (∀ (fs : List (String × FileEntry)) (fuel : Nat),
      (∀ n : LibName, fs.lookup (fileKey st.dir (libPath n)) = st.files.lookup (fileKey st.dir (libPath n))) →
      getLibrary fuel { st with files := fs } name loc =
        ((getLibrary fuel st name loc).1, { (getLibrary fuel st name loc).2 with files := fs })) := by
  refine ⟨fun p d => ⟨fileKey_empty p, fun h => fileKey_ne h p⟩,
    fun fuel => getLibrary_succ_eq fuel st name loc, fun hf => ⟨?_, ?_, ?_⟩, fun fs hk => ?_, fun fs fuel hv => ?_⟩
  · intro h; simp [findFactory, hf, h]
  · intro h; simp [findFactory, hf, h]
  · intro t h; simp only [findFactory, hf, h]; cases factoryOfText name t <;> rfl
  · unfold findFactory
    show (match libLookup st.factories name with
      | some f => (Except.ok f, ({ st with files := fs } : State))
      | none =>
        match fs.lookup (fileKey st.dir (libPath name)) with
        | none => (Except.error (Err.libNotFound, loc), { st with files := fs })
        | some .unreadable => (Except.error (Err.io, none), { st with files := fs })
        | some (.text t) =>
          match factoryOfText name t with
          | .ok f => (.ok f, { st with files := fs, factories := libInsert st.factories name f })
          | .error e => (.error e, { st with files := fs })) = _
    rw [hk]
    cases libLookup st.factories name with
    | some f => rfl
    | none =>
      simp only
      cases st.files.lookup (fileKey st.dir (libPath name)) with
      | none => rfl
      | some fe =>
        cases fe with
        | unreadable => rfl
        | text t => simp only; cases factoryOfText name t <;> rfl
  · exact (irrAt fs fuel).getLibrary (r := _) (st' := _) rfl hv

/-- with the working directory as the lookup directory (no program directory recorded) the
library `(one)` is found in `cwd`; with the base directory it is not (there is no `one.sld`
there), whatever else the file map holds -/
example : ({ demo with dir := "cwd" } : State).files.lookup (fileKey "cwd" (libPath libOne)) =
      some (.text "(define-library (one))") ∧
    findFactory demo libOne (some (1, 9)) = (.error (.libNotFound, some (1, 9)), demo) := by
  constructor
  · rw [show fileKey "cwd" (libPath libOne) = "cwd/one.sld" by decide]
    simp [demo, demoFiles, List.lookup]
  · refine ((lookup_uses_current_directory libOne (some (1, 9)) demo).2.2.1 rfl).1 ?_
    rw [show fileKey demo.dir (libPath libOne) = "one.sld" by decide]
    simp [demo, demoFiles, List.lookup]

/-! ## (b) `eval_file` -/

/-- `eval_file path`: (1) afterwards the lookup directory is the directory part of `path`,
whatever the program did and whether or not the file could be read, and the file map is as
before. (2) The program text is evaluated in the state whose lookup directory is already that
directory; a file that is missing or not text is an io error (without location). (3) The
directory recorded before plays no role. (4) Every library lookup made while the program ran used
that directory: the run reads the file map only at `path` itself and at the library paths
`fileKey (dirOf path) (libPath n)`; with any other file map `fs` that agrees at those keys the
outcome is the same and so is the state reached (but for the file map). -/
theorem evalFile_sets_directory (fuel : Nat) (st : State) (path : String) :
    (evalFile fuel st path).2.dir = dirOf path ∧ (evalFile fuel st path).2.files = st.files ∧
    (evalFile fuel st path =
      match st.files.lookup path with
      | some (.text t) => evalText fuel { st with dir := dirOf path } t.toList
      | _ => (.error (.io, none), { st with dir := dirOf path })) ∧
    (∀ d, evalFile fuel { st with dir := d } path = evalFile fuel st path) ∧
    (∀ fs : List (String × FileEntry), fs.lookup path = st.files.lookup path →
      (∀ n : LibName, fs.lookup (fileKey (dirOf path) (libPath n)) =
        st.files.lookup (fileKey (dirOf path) (libPath n))) →
      evalFile fuel { st with files := fs } path =
        ((evalFile fuel st path).1, { (evalFile fuel st path).2 with files := fs })) := by
  refine ⟨?_, ?_, rfl, fun d => rfl, fun fs hp hv => ?_⟩
  · unfold evalFile
    simp only
    split
    · exact (evalText_dir _ _ _).1
    · rfl
  · unfold evalFile
    simp only
    split
    · exact (evalText_dir _ _ _).2.1
    · rfl
  · unfold evalFile
    simp only [hp]
    cases st.files.lookup path with
    | none => rfl
    | some fe =>
      cases fe with
      | unreadable => rfl
      | text t => exact evalText_irr (fs := fs) (st := { st with dir := dirOf path }) (r := _) (st' := _) rfl hv

/-- running `p1/prog.scm` (an empty program) from the working directory sets the lookup
directory to `p1`; a missing program file is an io error and the directory is set all the same -/
example : (evalFile 5 { demo with dir := "cwd" } "p1/prog.scm").2.dir = "p1" ∧
    evalFile 5 demo "p3/none.scm" = (.error (.io, none), { demo with dir := "p3" }) := by
  refine ⟨(evalFile_sets_directory 5 _ _).1.trans (by decide), ?_⟩
  rw [(evalFile_sets_directory 5 demo "p3/none.scm").2.2.1]
  have : dirOf "p3/none.scm" = "p3" := by decide
  simp [demo, demoFiles, List.lookup, this]

/-- a file map that differs from `demoFiles` only under `p2` agrees with it at the program file
`p1/prog.scm` and at every library path under `p1` -/
example : let fs := ("p2/one.sld", FileEntry.unreadable) :: demoFiles
    fs.lookup "p1/prog.scm" = demo.files.lookup "p1/prog.scm" ∧
    ∀ n : LibName, fs.lookup (fileKey (dirOf "p1/prog.scm") (libPath n)) =
      demo.files.lookup (fileKey (dirOf "p1/prog.scm") (libPath n)) := by
  intro fs
  have hd : dirOf "p1/prog.scm" = "p1" := by decide
  refine ⟨by simp [fs, demo, List.lookup], fun n => ?_⟩
  rw [hd]
  have hne : (fileKey "p1" (libPath n) == "p2/one.sld") = false := by
    rw [beq_eq_false_iff_ne]
    intro h
    have := congrArg String.toList h
    simp [fileKey] at this
  simp only [fs, demo, List.lookup, hne]

/-! ## (c) a failed lookup leaves no trace -/

/-- An import of a library that is not found — no instance, no registered factory, no file at its
path in the CURRENT lookup directory — fails with `libNotFound` at the import's location and
leaves the interpreter state EXACTLY as it was: through `get_library`, through the import set,
through an import declaration into any frame, and as a top-level form (`eval_ast`, where an error
without location gets the statement's). Hence whatever is done later — recording another
directory, `eval_file` of any program — behaves as on the state before the failed import: the
outcome of a later import depends only on the files and the directory at THAT moment. -/
theorem earlier_lookups_do_not_matter (fuel : Nat) (st : State) (name : LibName) (loc l : Loc)
    (hi : libLookup st.instances name = none) (hf : libLookup st.factories name = none)
    (hfile : st.files.lookup (fileKey st.dir (libPath name)) = none) :
    getLibrary (fuel + 1) st name loc = (.error (.libNotFound, loc), st) ∧
    (name ∉ st.inProgress →
      evalImportSet (fuel + 2) st (.direct name loc) = (.error (.libNotFound, loc), st) ∧
      (∀ ρ, evalImport (fuel + 4) st [.direct name loc] ρ = (.error (.libNotFound, loc), st)) ∧
      (st.importEnd = false →
        evalAst (fuel + 4) st (.importDecl [.direct name loc] l) =
          (.error (.libNotFound, loc.orElse (fun _ => l)), st) ∧
        ∀ fuel' d path,
          evalFile fuel' (evalAst (fuel + 4) st (.importDecl [.direct name loc] l)).2 path =
            evalFile fuel' st path ∧
          ({ (evalAst (fuel + 4) st (.importDecl [.direct name loc] l)).2 with dir := d } : State) =
            { st with dir := d })) := by
  have h1 : ∀ k, getLibrary (k + 1) st name loc = (.error (.libNotFound, loc), st) :=
    fun k => (getLibrary_no_factory hi hf).1 hfile
  refine ⟨h1 fuel, fun hip => ?_⟩
  have h2 : ∀ k, evalImportSet (k + 2) st (.direct name loc) = (.error (.libNotFound, loc), st) := by
    intro k
    rw [evalImportSet_direct_eq hip,
      (getLibrary_no_factory (st := { st with inProgress := name :: st.inProgress }) hi hf).1 hfile]
  have h3 : ∀ ρ, evalImport (fuel + 4) st [.direct name loc] ρ = (.error (.libNotFound, loc), st) := by
    intro ρ
    rw [evalImport, evalImportSets, h2]
  refine ⟨h2 fuel, h3, fun hie => ?_⟩
  have h4 : evalAst (fuel + 4) st (.importDecl [.direct name loc] l) =
      (.error (.libNotFound, loc.orElse (fun _ => l)), st) := by
    unfold evalAst
    simp only [hie, Bool.not_false, if_true, h3, Statement.loc]
  refine ⟨h4, fun fuel' d path => ?_⟩
  rw [h4]
  exact ⟨rfl, rfl⟩

/-- no program directory recorded yet and `(one)` not in the working directory … -/
example : let st : State := { demo with dir := "p2" }
    libLookup st.instances libOne = none ∧ libLookup st.factories libOne = none ∧
    st.files.lookup (fileKey st.dir (libPath libOne)) = none ∧ libOne ∉ st.inProgress ∧
    st.importEnd = false := by
  intro st
  rw [show fileKey st.dir (libPath libOne) = "p2/one.sld" by decide]
  simp [st, demo, demoFiles, libLookup, List.lookup]

/-! ## (d) two programs, two directories -/

/-- Running the program file `path₁` and then `path₂` on ONE interpreter: after the first run the
lookup directory is `dirOf path₁`; the second program's text is evaluated with the lookup
directory `dirOf path₂`, and there a library `name` that has not been instantiated or registered
by then and has no file under `dirOf path₂` is NOT FOUND — `libNotFound` at the import's
location, state unchanged — whether or not a file for it exists under `dirOf path₁` (or anywhere
else): through `get_library`, an import set, and a top-level import declaration. -/
theorem two_programs_two_directories (fuel₁ fuel₂ k : Nat) (st : State) (path₁ path₂ : String) (t₂ : String)
    (name : LibName) (loc l : Loc)
    (hprog : st.files.lookup path₂ = some (.text t₂))
    (hi : libLookup (evalFile fuel₁ st path₁).2.instances name = none)
    (hf : libLookup (evalFile fuel₁ st path₁).2.factories name = none)
    (hfile : st.files.lookup (fileKey (dirOf path₂) (libPath name)) = none)
    (hip : name ∉ st.inProgress) :
    let st₁ := (evalFile fuel₁ st path₁).2
    let st₂ : State := { st₁ with dir := dirOf path₂ }
    st₁.dir = dirOf path₁ ∧
    evalFile fuel₂ st₁ path₂ = evalText fuel₂ st₂ t₂.toList ∧
    getLibrary (k + 1) st₂ name loc = (.error (.libNotFound, loc), st₂) ∧
    evalImportSet (k + 2) st₂ (.direct name loc) = (.error (.libNotFound, loc), st₂) ∧
    (st₁.importEnd = false →
      evalAst (k + 4) st₂ (.importDecl [.direct name loc] l) =
        (.error (.libNotFound, loc.orElse (fun _ => l)), st₂)) := by
  intro st₁ st₂
  have hfl : st₁.files = st.files := (evalFile_sets_directory fuel₁ st path₁).2.1
  have hip₁ : st₁.inProgress = st.inProgress := by
    show (evalFile fuel₁ st path₁).2.inProgress = st.inProgress
    unfold evalFile
    simp only
    split
    · exact (evalText_dir _ _ _).2.2
    · rfl
  have hfile₂ : st₂.files.lookup (fileKey st₂.dir (libPath name)) = none := by
    show st₁.files.lookup (fileKey (dirOf path₂) (libPath name)) = none
    rw [hfl]; exact hfile
  have hip₂ : name ∉ st₂.inProgress := by
    show name ∉ st₁.inProgress
    rw [hip₁]; exact hip
  have h := earlier_lookups_do_not_matter k st₂ name loc l hi hf hfile₂
  refine ⟨(evalFile_sets_directory fuel₁ st path₁).1, ?_, h.1, (h.2 hip₂).1, fun hie => ((h.2 hip₂).2.2 hie).1⟩
  have hp₁ : st₁.files.lookup path₂ = some (.text t₂) := by rw [hfl]; exact hprog
  rw [(evalFile_sets_directory fuel₂ st₁ path₂).2.2.1, hp₁]

/-- `p1/prog.scm` then `p2/prog.scm`: `one.sld` exists under `p1` only, the first program did not
import it: the hypotheses hold, so `(one)` is not found while the second program runs -/
example : demo.files.lookup "p2/prog.scm" = some (.text "") ∧
    libLookup (evalFile 5 demo "p1/prog.scm").2.instances libOne = none ∧
    libLookup (evalFile 5 demo "p1/prog.scm").2.factories libOne = none ∧
    demo.files.lookup (fileKey (dirOf "p2/prog.scm") (libPath libOne)) = none ∧
    demo.files.lookup (fileKey (dirOf "p1/prog.scm") (libPath libOne)) = some (.text "(define-library (one))") ∧
    libOne ∉ demo.inProgress := by
  have h1 : dirOf "p1/prog.scm" = "p1" := by decide
  have h2 : dirOf "p2/prog.scm" = "p2" := by decide
  have hrun : evalFile 5 demo "p1/prog.scm" = (.ok none, { demo with dir := "p1" }) := by
    rw [(evalFile_sets_directory 5 demo "p1/prog.scm").2.2.1, h1]
    simp [demo, demoFiles, List.lookup, evalText_empty]
  rw [hrun, h1, h2, show fileKey "p1" (libPath libOne) = "p1/one.sld" by decide,
    show fileKey "p2" (libPath libOne) = "p2/one.sld" by decide]
  simp [demo, demoFiles, libLookup, List.lookup]

end Ruschm.C14Dir

/-
The front ends: `src/main.rs` (`ruschm FILE`), `src/repl.rs` (`run_with_interpreter`), and a world
of several interpreter instances on one thread (what `Interpreter::new…` shares with its siblings).
-/
import RuschmModel.Interp
import RuschmModel.Bracket
namespace Ruschm.Front

/-- what `ruschm FILE` does, as far as a program can observe it -/
structure CliResult where
  stdout : String            -- what the program displayed
  diag : Option Loc          -- `some loc`: one diagnostic `FILE[:L:C]  MESSAGE` on standard error
  errKind : Option Err
  exitCode : Nat             -- 0, or 255 (`exit(-1)`)
  deriving Inhabited

def outText (σ : Store) : String := String.join σ.out.reverse

/-- `main` with a file argument: `Interpreter::default()` (no standard library imported), then
`eval_file`; `content = none` is a file that cannot be read as UTF-8 text (missing, a directory,
invalid bytes): an io error, reported like any other. -/
def cli (fuel : Nat) (content : Option String) : CliResult :=
  match content with
  | none => { stdout := "", diag := some none, errKind := some .io, exitCode := 255 }
  | some text =>
    let st := Interp.default_ false
    match Interp.evalText fuel st text.toList with
    | (.ok _, st) => { stdout := outText st.store, diag := none, errKind := none, exitCode := 0 }
    | (.error (e, loc), st) => { stdout := outText st.store, diag := some loc, errKind := some e, exitCode := 255 }

/-- the REPL's loop state: the interpreter and the pending source text -/
structure ReplState where
  st : Interp.State
  pending : String := ""
  deriving Inhabited

/-- what one input line makes the REPL write: to standard output (program output, then the value
of the submission unless it is `Void`/none), and an error message kind to standard error -/
structure ReplOut where
  stdout : String := ""
  err : Option Err := none
  submitted : Bool := false

/-- one iteration of `run_with_interpreter` on a line that `readline` returned -/
def replStep (fuel : Nat) (rs : ReplState) (line : String) : ReplState × ReplOut :=
  if line.isEmpty then (rs, {}) else
  let source := rs.pending ++ line
  if Bracket.closed source.toList then
    let st0 := { rs.st with store := { rs.st.store with out := [] } }
    match Interp.evalText fuel st0 source.toList with
    | (.ok v, st) =>
      let echo := match v with
        | some .void => ""
        | some val => Prim.display st.store 100000 val ++ "\n"
        | none => ""
      ({ st := st, pending := "" }, { stdout := outText st.store ++ echo, submitted := true })
    | (.error (e, _), st) =>
      ({ st := st, pending := "" }, { stdout := outText st.store, err := some e, submitted := true })
  else ({ rs with pending := source ++ "\n" }, {})

/-- a whole session: the lines in order, from `Interpreter::new_with_stdlib()` -/
def replRun (fuel : Nat) (lines : List String) : ReplState × List ReplOut :=
  lines.foldl (fun (acc : ReplState × List ReplOut) l =>
    let (rs, o) := replStep fuel acc.1 l
    (rs, acc.2 ++ [o])) ({ st := Interp.withStdlib fuel false }, [])

/-- several interpreter instances on one thread. After the repair of the shared macro table the
only thing they have in common is the immutable table of bundled forms, which is a constant of
the model (`Interp.grammarScope`); a step names the instance it runs on. -/
abbrev World := List Interp.State

def worldStep (fuel : Nat) (w : World) (i : Nat) (text : List Char) :
    Option (Except SErr (Option Value)) × World :=
  match w[i]? with
  | none => (none, w)
  | some st =>
    let (r, st') := Interp.evalText fuel st text
    (some r, w.set i st')

/-- `register_library_factory` on instance `i`: the factory replaces an earlier one of that name, and an instance
of that library made from the earlier factory is forgotten. Only instance `i` has a factory table. -/
def worldRegister (w : World) (i : Nat) (lib : LibName) (fac : Interp.Factory) : World :=
  match w[i]? with
  | none => w
  | some st => w.set i { st with factories := Interp.libInsert st.factories lib fac,
                                 instances := st.instances.filter (fun p => p.1 ≠ lib) }

/-- `Interpreter::new_with_stdlib()` from any world: always succeeds, leaves the others alone -/
def worldNew (fuel : Nat) (w : World) : World := w ++ [Interp.withStdlib fuel false]

end Ruschm.Front

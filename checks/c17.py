"""C17 — running a program file: output, diagnostics and exit status (partial: exit status and the
stdout/stderr split are OBSERVED on the real binary, not proved).
Theorems: lean/RuschmProofs/C17.lean about RuschmModel/Front.lean (`cli`): the forms evaluated are
those of the text; stdout is what the forms before the first failing one displayed; exit 0 iff every
form succeeded; exactly one diagnostic otherwise; an unreadable file is a diagnostic too.
Tie: random displaying programs with an optional injected fault, with/without final newline, LF or
CRLF line ends, run through the BUILT BINARY from another working directory; compared with the
model and with in-process evaluation of the same text (library interface)."""
import os, random, shutil
from . import common as C, proggen as P, frontend as F

PROP = "C17"
MODULES = ["RuschmProofs.C17", "RuschmProofs.C17More"]


# (text, must be last): forms that fail before evaluation starts
SYNTAX_FAULTS = [("(if)", False), ("(lambda)", False), ("(define)", False), (")", False), ("(let ((x)) x)", False),
                 ("(quote)", False), ("#\\nosuchchar", False), ("(define-syntax)", False), ("(let ((x 1) . 2) x)", False),
                 ("(display 1", True), ('(display "abc', True), ("(list 1 (list 2)", True), ("#(1 2", True)]


def unesc(s):
    """inverse of the harness's escaping of captured text"""
    import re
    s = re.sub(r"\\u\{([0-9a-fA-F]+)\}", lambda m: chr(int(m.group(1), 16)), s)
    return s


def gen_program(rng):
    g = P.Gen(rng, ticks=False, max_depth=3)
    forms = ["(import (scheme base) (scheme write))"]
    body = g.toplevel(rng.randrange(2, 7))
    shown = []
    for f in body:
        shown.append(f)
        if not f.startswith("(define") and rng.random() < 0.7:
            shown[-1] = "(display %s)" % f
            if rng.random() < 0.5:
                shown.append("(newline)")
        elif rng.random() < 0.3:
            shown.append('(display "%s")' % rng.choice(["ok", "a b", "(", "x;y", "\u00e9t\u00e9", "\u03bb x", "\u4e2d\u6587", "a\U0001f600b", "na\u00efve (caf\u00e9)"]))
        if rng.random() < 0.25:
            # a string literal that spans several lines (raw line breaks inside the quotes): what follows is still on ITS line
            shown.append(rng.choice(['(display "two\nlines")', '(define ml-zz "a\n\nb\nc")', '(display (if (string? "x\ny") 1 2))']))
        if rng.random() < 0.1:
            # characters outside ASCII in the program text: a file is its characters, not its bytes
            shown.append(rng.choice(["(display #\\\u03bb)", "(display (list #\\\u00e9 #\\\u4e2d))", '(display (string? "\u00fc"))', '(display (list "\u00e9" #\\x e9 "\U0001f600"))'.replace("x e9", "xe9")]))
    fault = None
    if rng.random() < 0.5:
        shown, pos, kind, ctx = P.inject_fault(rng, g, shown)
        fault = (pos + 1, kind)
    if fault is None and rng.random() < 0.4:
        # a form rejected by the lexer / reader / expander (not at run time): what the earlier forms displayed must still be there
        bad, at_end = rng.choice(SYNTAX_FAULTS)
        pos = len(shown) if at_end else rng.randrange(0, len(shown) + 1)
        shown = shown[:pos] + [bad] + shown[pos:]
        fault = (pos + 1, "syntax")
    forms += shown
    sep = rng.choice(["\n", "\n", "\r\n", "\n\n", " "])
    # the file may BEGIN with blank lines, indentation or a comment line: positions are positions in the file as it is
    lead = rng.choice(["", "", "", "\n", "\n\n\n", "    ", "\r\n\r\n", " \n\t", "; a first line\n", "\n  ; indented comment\n\n"])
    text = lead + sep.join(forms) + rng.choice(["", "\n", "\r\n"])
    if fault is not None:
        # the lines the failing form occupies in the file, counted in the text itself
        off = len(lead) + sum(len(f) + len(sep) for f in forms[:fault[0]])
        first = 1 + text[:off].count("\n")
        fault = (fault[0], fault[1], first, first + forms[fault[0]].count("\n"))
    return forms, text, fault


def run(rep, tier, rng):
    n = 150 if tier == "quick" else 3000
    binp = F.binary()
    work = os.path.join(C.BUILD, "tmp", "c17")
    shutil.rmtree(work, ignore_errors=True)
    os.makedirs(os.path.join(work, "progs"), exist_ok=True)
    os.makedirs(os.path.join(work, "cwd"), exist_ok=True)
    progs = []
    for i in range(n):
        forms, text, fault = gen_program(rng)
        progs.append((forms, text, fault))
    special = [("missing", None), ("directory", "DIR"), ("not-utf8", b"(display 1)\xff\xfe"), ("empty", b""),
               ("crlf-in-string", b'(import (scheme base) (scheme write))\r\n(display "a\r\nb")\r\n')]
    cases = [("p%d" % i, "cli", [t]) for i, (_, t, _) in enumerate(progs)]
    inproc = [("p%d" % i, "progx", ["nostd", t]) for i, (_, t, _) in enumerate(progs)]
    model = C.run_driver(cases)
    # reference for standard output that does not go through one `eval` of the whole text: the forms one by one (what each
    # wrote, whether it failed)
    perform = [("f%d" % i, "session", ["nostd+perform"] + fs) for i, (fs, _, _) in enumerate(progs)]
    lib = C.run_hx(inproc + perform)
    for i, (forms, text, fault) in enumerate(progs):
        path = os.path.join(work, "progs", "p%d.scm" % i)
        open(path, "wb").write(text.encode())
        rc, out, err = F.run_cli(binp, os.path.join(work, "cwd"), path)
        rep.count()
        rep.nontrivial(text)
        m = model.get("p%d" % i, [])
        li = lib.get("p%d" % i, [])
        if len(rep.cov["samples"]) < 3:
            rep.sample({"program": text[:300], "exit": rc, "stdout": out[:100], "stderr": err[:160]})
        # --- oracle on the implementation alone
        lib_res = li[0] if li else "?"
        lib_out = next((x[2:] for x in li if x.startswith("O ")), "")
        problems = []
        if lib_res.startswith("E "):
            if rc == 0: problems.append("exit status 0 although a form failed")
            lines = [l for l in err.split("\n") if l.strip()]
            if len(lines) != 1: problems.append("expected exactly one diagnostic line, got %d" % len(lines))
            elif not lines[0].strip().startswith(path): problems.append("diagnostic does not start with the file name")
            else:
                rest = lines[0].strip()[len(path):]
                kind, loc = lib_res.split(" ")[1], lib_res.split(" ")[2]
                if loc != "-" and not rest.startswith(":" + loc + " "): problems.append("diagnostic location is not FILE:%s" % loc)
                if fault is not None and len(fault) == 4 and fault[1] != "syntax" and rest.startswith(":") and rest[1:].split(":")[0].isdigit():
                    line = int(rest[1:].split(":")[0])
                    # an unbound variable / non-procedure may be reported at the identifier inside an EARLIER form's procedure; everything
                    # else lies in the failing form; nothing lies after it
                    if line > fault[3] or (line < fault[2] and kind not in ("unbound", "nonProcedure")):
                        problems.append("the diagnostic's line %d is not a line of the failing form (lines %d-%d of the file)" % (line, fault[2], fault[3]))
                # MESSAGE = the Display of the error the library interface returns for the same text (compared with what this
                # very build prints in process, so rewording a message is not an alarm)
                lib_msg = next((x[2:] for x in li if x.startswith("M ")), None)
                said = rest.split(" ", 1)[1] if loc != "-" and " " in rest else rest
                if lib_msg is not None and C.esc_out(" ".join(said.split())) != C.esc_out(" ".join(unesc(lib_msg).split())):
                    problems.append("the diagnostic's message is not the message of the error the library interface reports: " + unesc(lib_msg))
        else:
            if rc != 0: problems.append("non-zero exit status although every form succeeded")
            if err.strip(): problems.append("something on standard error although every form succeeded")
        if C.esc_out(out) != lib_out:
            problems.append("standard output differs from what the same text displays through the library interface")
        per = lib.get("f%d" % i, [])
        if len(per) == 3 * len(forms):
            want = ""
            for j in range(len(forms)):
                want += per[3 * j][2:]
                if per[3 * j + 2][2:]:
                    break
            if C.esc_out(out) != want:
                problems.append("standard output is not what the forms up to the first failing one write, one after another: expected %r" % want)
        if fault is not None and not lib_res.startswith("E " + fault[1]):
            problems.append("the injected fault (%s) is not what stopped the program: %s" % (fault[1], lib_res))
        if problems:
            rep.violation({"what": "ruschm FILE does not behave as specified", "problems": problems, "program": text,
                           "exit": rc, "stdout": out, "stderr": err, "library_interface": li})
            continue
        # --- correspondence with the model
        want_exit = "exit 0" if rc == 0 else "exit 255"
        mo = next((x[2:] for x in m if x.startswith("O ")), None)
        if (rc not in (0, 255)) or m[:1] != [want_exit] or mo != C.esc_out(out):
            rep.violation({"broken": "correspondence Front.cli <-> main.rs", "program": text, "exit": rc, "stdout": out,
                           "stderr": err, "model": m}, no_input=True)
    # the same program named in different ways: absolute path from another directory (above), a bare file name from its own
    # directory, ./name, a relative path through .. - same output, same status, diagnostic starting with the name as given
    for i, (forms, text, fault) in enumerate(progs[:40 if tier == "quick" else 400]):
        path = os.path.join(work, "progs", "p%d.scm" % i)
        open(path, "wb").write(text.encode())
        ref = F.run_cli(binp, os.path.join(work, "cwd"), path)
        for cwd, arg in ((os.path.join(work, "progs"), "p%d.scm" % i), (os.path.join(work, "progs"), "./p%d.scm" % i),
                         (os.path.join(work, "cwd"), "../progs/p%d.scm" % i)):
            rc, out, err = F.run_cli(binp, cwd, arg)
            rep.count()
            rep.nontrivial((arg, text))
            want_err = ref[2].replace(path, arg, 1)
            if (rc, out, " ".join(err.split())) != (ref[0], ref[1], " ".join(want_err.split())):
                rep.violation({"what": "the outcome of running a program file depends on how the file is named or on the working directory",
                               "program": text, "working_directory_relative_to_program": os.path.relpath(cwd, os.path.dirname(path)),
                               "argument": arg, "got": [rc, out, err], "with_absolute_path": list(ref)})
                break
    # LONG output whose text is known without running anything: displays of literal strings of up to several thousand
    # characters with line breaks anywhere (none, early, late, at the end), several per program, optionally followed by a failing form:
    # standard output is exactly the characters of the strings, in order, whatever their length and wherever the line breaks are
    for i in range(30 if tier == "quick" else 600):
        parts, forms = [], ["(import (scheme base) (scheme write))"]
        for _ in range(rng.randrange(1, 4)):
            n = rng.choice([10, 500, 1023, 1024, 1025, 1500, 4096, 5000, 9000])
            chars = [rng.choice("abcdefghij klmnop0123456789") for _ in range(n)]
            for _b in range(rng.choice([0, 1, 1, 2, 5])):
                chars[rng.choice([0, 1, n // 2, n - 2, n - 1, rng.randrange(n)])] = "\n"
            txt = "".join(chars)
            if rng.random() < 0.5:
                forms.append('(display "%s")' % txt.replace("\n", "\\n"))          # written as the escape \n
            else:
                forms.append('(display "%s")' % txt)                                  # a raw line break inside the literal
            parts.append(txt)
            if rng.random() < 0.3:
                forms.append("(newline)"); parts.append("\n")
        failing = rng.random() < 0.4
        if failing:
            forms.append(rng.choice(["(car 5)", "(undefined-fn-zz 1)", "(vector-ref (vector 1) 3)"]))
            forms.append('(display "never")')
        text = "\n".join(forms) + "\n"
        path = os.path.join(work, "progs", "long%d.scm" % i)
        open(path, "wb").write(text.encode())
        rc, out, err = F.run_cli(binp, os.path.join(work, "cwd"), path)
        rep.count()
        rep.nontrivial(("long", text))
        want = "".join(parts)
        if out != want or (rc == 0) == failing:
            k = next((j for j in range(min(len(out), len(want))) if out[j] != want[j]), min(len(out), len(want)))
            rep.violation({"what": "standard output is not exactly what the program displayed before the first failing form (long output)",
                           "program": text if len(text) < 4000 else text[:2000] + " ... " + text[-1500:], "expected_length": len(want),
                           "stdout_length": len(out), "first_difference_at": k, "exit": rc, "failing_form_present": failing})
    # LONG PROGRAM FILES with characters outside ASCII at every byte offset around the multiples of 4096 and 8192: a file is its
    # characters however its bytes fall (expected output known without running anything)
    big = []
    for boundary in (4096, 8192, 16384, 32768) if tier != "quick" else (8192, 16384):
        for delta in range(-4, 3):
            for ch in ("\u00e9", "\u4e2d", "\U0001f600"):
                big.append((boundary + delta, ch))
    if tier == "quick":
        rng.shuffle(big); big = big[:24]
    for i, (off, ch) in enumerate(big):
        head = '(import (scheme base) (scheme write))\n(display "'
        pad = "x" * (off - len(head.encode()))
        text = head + pad + ch + 'tail")\n(display 7)\n'
        assert len((head + pad).encode()) == off
        path = os.path.join(work, "progs", "big%d.scm" % i)
        open(path, "wb").write(text.encode())
        rc, out, err = F.run_cli(binp, os.path.join(work, "cwd"), path)
        rep.count()
        rep.nontrivial(("big", off, ch))
        want = pad + ch + "tail7"
        if out != want or rc != 0:
            rep.violation({"what": "a long program file with a character outside ASCII is not run as its text says",
                           "file": "(import (scheme base) (scheme write)) (display \"x...x%stail\") (display 7) with the character starting at byte %d" % (ch, off),
                           "character": ch, "byte_offset": off, "exit": rc, "stdout_length": len(out), "expected_length": len(want), "stderr": err[:300]})
    # special files
    for name, content in special:
        path = os.path.join(work, "progs", "special-" + name)
        if content == "DIR":
            os.makedirs(path, exist_ok=True)
        elif content is not None:
            open(path, "wb").write(content)
        rc, out, err = F.run_cli(binp, os.path.join(work, "cwd"), path)
        rep.count()
        rep.nontrivial(name)
        if name in ("missing", "directory", "not-utf8"):
            lines = [l for l in err.split("\n") if l.strip()]
            if rc == 0 or len(lines) != 1 or not lines[0].strip().startswith(path) or "panicked" in err:
                rep.violation({"what": "a missing or unreadable program file is not reported by one diagnostic and a non-zero status",
                               "file": name, "exit": rc, "stderr": err})
        elif name == "empty":
            if rc != 0 or out or err.strip():
                rep.violation({"what": "an empty program does not succeed silently", "exit": rc, "stdout": out, "stderr": err})
        elif name == "crlf-in-string":
            if rc != 0 or out != "a\r\nb":
                rep.violation({"what": "the program text is not evaluated as written (CR LF inside a string literal)",
                               "exit": rc, "stdout": out, "stderr": err})
    shutil.rmtree(work, ignore_errors=True)


def main(tier, seed):
    rep = C.Report(PROP, tier, seed)
    rng = random.Random(seed)
    rep.cov["rule"] = ("random programs that import the standard libraries, define, compute and display (strings with parentheses and "
                       "semicolons included), half of them with one injected run-time fault (8 kinds x 6 contexts) at a random position, a fifth "
                       "with a form rejected before evaluation (malformed special form, stray parenthesis, bad literal, unclosed form at end of file), "
                       "joined by LF / CRLF / blank lines / blanks, with or without final newline, the file beginning with blank lines, indentation or a comment in half of the cases; plus displays of literal strings of up to 9000 characters with line breaks anywhere (expected output known without running anything), program files of 8-33 KiB with a character outside ASCII at every byte offset around the multiples of 4096 / 8192, a missing file, a directory, "
                       "a non-UTF-8 file, an empty file, CR LF inside a string literal; each run through the built binary from "
                       "another working directory, and (a sample) also by bare name from its own directory, as ./name and through ..; "
                       "distinct = distinct program texts")
    rep.assumptions = ["exit status, the stdout/stderr split and the diagnostic text are observed on the real binary, not proved"]
    ok = C.standard_proof_phase(rep, MODULES, directed_search=lambda r: run(r, tier, rng))
    if ok:
        run(rep, tier, rng)
    return rep.finish("cd lean && lake build RuschmProofs.C17 && lake env lean <#print axioms of every theorem in RuschmProofs/C17.lean>")

/-
Property C17 — "ruschm FILE evaluates the file's forms in order exactly as the same text evaluated
through the library interface, writes to standard output exactly what the program displayed, and
exits with status 0 when every form succeeded. On the first failing form it stops, has written
only the output produced before it, prints one diagnostic FILE:LINE:COL MESSAGE on standard error
and exits with a non-zero status; a missing or unreadable file is a diagnostic and non-zero
status too."

`Front.cli fuel content` is the model of `main` with a file argument (`content = none`: the file
cannot be read as UTF-8 text). The library interface is `Interp.evalText` on
`Interp.default_ false` (`Interpreter::default()`: no standard library imported — a program
starts with its own `(import …)`). Only property theorems live here; helpers are in
`RuschmProofs/FrontLemmas.lean`, spec-side definitions in `RuschmSpec/Front.lean`.
-/
import RuschmProofs.FrontLemmas
import RuschmProofs.UnlocFront
import RuschmProofs.C06

namespace Ruschm.C17
open Ruschm Ruschm.Interp Ruschm.Front Ruschm.FrontSpec

/-- `ruschm FILE` is the library interface applied to the file's text: standard output is the
concatenation, in order, of what the final store's `out` records as displayed; the run exits with
0 and no diagnostic exactly when `evalText` returned a value, and with 255 and ONE diagnostic
carrying the error's location and kind exactly when it returned an error. -/
theorem cli_equals_library_interface (fuel : Nat) (text : String) :
    let r := evalText fuel (default_ false) text.toList
    (cli fuel (some text)).stdout = String.join r.2.store.out.reverse ∧
    (∀ v, r.1 = .ok v →
      (cli fuel (some text)).exitCode = 0 ∧ (cli fuel (some text)).diag = none ∧
      (cli fuel (some text)).errKind = none) ∧
    (∀ e loc, r.1 = .error (e, loc) →
      (cli fuel (some text)).exitCode = 255 ∧ (cli fuel (some text)).diag = some loc ∧
      (cli fuel (some text)).errKind = some e) := by
  intro r
  rw [cli_some]
  have hr : evalText fuel (default_ false) text.toList = r := rfl
  rw [hr]
  obtain ⟨o, st⟩ := r
  cases o with
  | ok v => exact ⟨rfl, ⟨fun _ _ => ⟨rfl, rfl, rfl⟩, fun _ _ h => by cases h⟩⟩
  | error e =>
    obtain ⟨e, l⟩ := e
    exact ⟨rfl, ⟨fun _ h => (by cases h), fun _ _ h => (by cases h; exact ⟨rfl, rfl, rfl⟩)⟩⟩

/-- exit status 0 exactly when the whole text evaluated without error -/
theorem exit_zero_iff_ok (fuel : Nat) (text : String) :
    (cli fuel (some text)).exitCode = 0 ↔
      ∃ v, (evalText fuel (default_ false) text.toList).1 = .ok v := by
  rw [cli_some]
  generalize evalText fuel (default_ false) text.toList = r
  obtain ⟨o, st⟩ := r
  cases o with
  | ok v => exact ⟨fun _ => ⟨v, rfl⟩, fun _ => rfl⟩
  | error e =>
    obtain ⟨e, l⟩ := e
    exact ⟨fun h => (by cases h), fun ⟨_, h⟩ => (by cases h)⟩

/-- There is a diagnostic exactly when the exit status is not 0, for a readable and for an
unreadable file alike; it comes with exactly one error kind; and `diag` being an `Option`, there
is at most one. The only non-zero status is 255 (`exit(-1)`). -/
theorem one_diagnostic_on_failure (fuel : Nat) (content : Option String) :
    ((cli fuel content).diag.isSome ↔ (cli fuel content).exitCode ≠ 0) ∧
    ((cli fuel content).errKind.isSome ↔ (cli fuel content).exitCode ≠ 0) ∧
    ((cli fuel content).exitCode = 0 ∨ (cli fuel content).exitCode = 255) := by
  cases content with
  | none => simp [cli]
  | some text =>
    rw [cli_some]
    generalize evalText fuel (default_ false) text.toList = r
    obtain ⟨o, st⟩ := r
    cases o with
    | ok v => simp
    | error e => obtain ⟨e, l⟩ := e; simp

/-- a missing or unreadable file: an io diagnostic without a location, status 255, nothing on
standard output -/
theorem unreadable_file_is_diagnostic (fuel : Nat) :
    (cli fuel none).stdout = "" ∧ (cli fuel none).diag = some none ∧
    (cli fuel none).errKind = some .io ∧ (cli fuel none).exitCode = 255 :=
  ⟨rfl, rfl, rfl, rfl⟩

/-! ## forms in order; nothing after the first failing form -/

/-- THE LIBRARY INTERFACE EVALUATES THE FORMS IN ORDER. `evalText` is the fold `runText`: the
top-level data the reader finds (`formsOf`), each turned into a statement in the current syntax
scope and evaluated by `eval_ast` from the state its predecessor left, stopping at the first
error; the reader's own error, if any, comes after the forms read before it. (The model's
reading fuel is never exhausted: every datum consumes a token.) -/
theorem evalText_eq_fold (fuel : Nat) (st : State) (text : List Char) :
    evalText fuel st text = runText fuel st text :=
  evalText_eq_runText fuel st text

/-- exit status 0 exactly when EVERY form succeeded (and the reader reached the end of the text) -/
theorem exit_zero_iff_all_ok (fuel : Nat) (text : String) :
    (cli fuel (some text)).exitCode = 0 ↔
      (∃ v, (runForms fuel (default_ false) (formsOf text.toList).1 none).1 = .ok v) ∧
        (formsOf text.toList).2 = none := by
  rw [exit_zero_iff_ok, evalText_eq_fold]
  unfold runText
  generalize runForms fuel (default_ false) (formsOf text.toList).1 none = y
  obtain ⟨r, st'⟩ := y
  cases r with
  | error e => exact ⟨fun ⟨_, h⟩ => (by cases h), fun ⟨⟨_, h⟩, _⟩ => (by cases h)⟩
  | ok v =>
    cases (formsOf text.toList).2 with
    | none => exact ⟨fun _ => ⟨⟨v, rfl⟩, rfl⟩, fun _ => ⟨v, rfl⟩⟩
    | some e => exact ⟨fun ⟨_, h⟩ => (by cases h), fun ⟨_, h⟩ => (by cases h)⟩

/-- NOTHING IS EVALUATED AFTER THE FIRST ERROR: when the forms `pre` succeed and the next form `d`
fails, the outcome and the final state are those of `d`'s failure — whatever follows (`post`). -/
theorem stops_at_first_error (fuel : Nat) (st st₁ st₂ : State) (pre post : List Datum) (d : Datum)
    (last v : Option Value) (e : SErr)
    (hpre : runForms fuel st pre last = (.ok v, st₁)) (hfail : evalForm fuel st₁ d = (.error e, st₂)) :
    runForms fuel st (pre ++ d :: post) last = (.error e, st₂) := by
  rw [runForms_append, hpre]
  simp only [runForms, hfail]

/-- OUTPUT ONLY GROWS: a form — whether it succeeds or fails, whatever it evaluates, imports or
defines — only adds to what has been written (`Store.out` is extended at the front, most recent
first); likewise a run of forms and a whole text. -/
theorem out_monotone (fuel : Nat) (st : State) :
    (∀ d, OutExt st.store (evalForm fuel st d).2.store) ∧
    (∀ ds last, OutExt st.store (runForms fuel st ds last).2.store) ∧
    (∀ text, OutExt st.store (evalText fuel st text).2.store) := by
  refine ⟨fun d => (evalForm_out fuel st d).1, fun ds last => runForms_out fuel ds st last, fun text => ?_⟩
  rw [evalText_eq_fold]
  unfold runText
  have h := runForms_out fuel (formsOf text).1 st none
  generalize runForms fuel st (formsOf text).1 none = y at h
  obtain ⟨r, st'⟩ := y
  cases r with
  | error e => exact h
  | ok v => cases (formsOf text).2 <;> exact h

/-- STANDARD OUTPUT AT A FAILURE. When the forms before the failing one (`pre`) succeed, leaving
state `st₁`, and the next form fails, leaving `st₂`: `ruschm FILE` has written exactly what the
forms before it wrote, followed by what the failing form itself wrote before it failed (`part`,
its completed effects) — nothing of the later forms; the diagnostic is that form's error. -/
theorem stdout_is_output_before_failure (fuel : Nat) (text : String) (pre post : List Datum) (d : Datum)
    (v : Option Value) (st₁ st₂ : State) (e : Err) (loc : Loc)
    (hforms : (formsOf text.toList).1 = pre ++ d :: post)
    (hpre : runForms fuel (default_ false) pre none = (.ok v, st₁))
    (hfail : evalForm fuel st₁ d = (.error (e, loc), st₂)) :
    ∃ part : List String, st₂.store.out = part ++ st₁.store.out ∧
      (cli fuel (some text)).stdout = String.join st₁.store.out.reverse ++ String.join part.reverse ∧
      (cli fuel (some text)).diag = some loc ∧ (cli fuel (some text)).errKind = some e ∧
      (cli fuel (some text)).exitCode = 255 := by
  have hout := (evalForm_out fuel st₁ d).1
  rw [hfail] at hout
  obtain ⟨part, hp⟩ := hout
  refine ⟨part, hp, ?_⟩
  have hrun : evalText fuel (default_ false) text.toList = (.error (e, loc), st₂) := by
    rw [evalText_eq_fold]
    unfold runText
    rw [hforms, stops_at_first_error fuel _ st₁ st₂ pre post d none v (e, loc) hpre hfail]
  rw [cli_some, hrun]
  exact ⟨outText_ext hp, rfl, rfl, rfl⟩

/-- the reader's error (an unbalanced parenthesis, a bad token, …) comes after every form read
before it has been evaluated: standard output is what those forms wrote -/
theorem stdout_at_reader_error (fuel : Nat) (text : String) (v : Option Value) (st₁ : State) (e : Err) (loc : Loc)
    (hrun : runForms fuel (default_ false) (formsOf text.toList).1 none = (.ok v, st₁))
    (herr : (formsOf text.toList).2 = some (e, loc)) :
    (cli fuel (some text)).stdout = String.join st₁.store.out.reverse ∧
      (cli fuel (some text)).diag = some loc ∧ (cli fuel (some text)).errKind = some e ∧
      (cli fuel (some text)).exitCode = 255 := by
  have h : evalText fuel (default_ false) text.toList = (.error (e, loc), st₁) := by
    rw [evalText_eq_fold]
    unfold runText
    rw [hrun, herr]
  rw [cli_some, h]
  exact ⟨rfl, rfl, rfl, rfl⟩

/-! ## the layout of the file -/

/-- A TEXT IS ITS (LOCATED) TOKENS: the library interface, hence `ruschm FILE`, depends on the
text only through what the lexer makes of it — two texts with the same tokens at the same
locations (and the same lexer error, if any) are evaluated alike, to the same outcome, state,
output and diagnostic. -/
theorem text_is_its_tokens (fuel : Nat) (s₁ s₂ : String) (h : Lex.all s₁.toList = Lex.all s₂.toList) :
    (∀ st, evalText fuel st s₁.toList = evalText fuel st s₂.toList) ∧
    cli fuel (some s₁) = cli fuel (some s₂) := by
  have h1 : ∀ st, evalText fuel st s₁.toList = evalText fuel st s₂.toList :=
    fun st => evalText_lex_congr fuel st _ _ h
  exact ⟨h1, by rw [cli_some, cli_some, h1]⟩

/-- LAYOUT OF A FILE. A program is a sequence of (supported) tokens written with a layout: blanks,
line ends and comments before, between and after the tokens (`Text.interleave`, `ValidLayout`).
Two layouts that move the cursor alike up to the last token (`SameCursor`: separator by
separator the same line and column are reached — what follows the LAST token is unconstrained)
give the same located tokens, hence exactly the same run: same outcome, error location
included, same state, same output, same exit status. -/
theorem file_text_layout (fuel : Nat) (ts : List Token) (l₁ l₂ : List (List Char))
    (hs : ∀ t ∈ ts, Text.SupportedTok t) (h₁ : Text.ValidLayout ts l₁) (h₂ : Text.ValidLayout ts l₂)
    (hc : SameCursor l₁ l₂) :
    Lex.all (Text.interleave ts l₁) = Lex.all (Text.interleave ts l₂) ∧
    (∀ st, evalText fuel st (Text.interleave ts l₁) = evalText fuel st (Text.interleave ts l₂)) ∧
    cli fuel (some (String.ofList (Text.interleave ts l₁))) =
      cli fuel (some (String.ofList (Text.interleave ts l₂))) := by
  have hl : Lex.all (Text.interleave ts l₁) = Lex.all (Text.interleave ts l₂) := by
    rw [all_render_located ts l₁ hs h₁, all_render_located ts l₂ hs h₂,
      locate_sameCursor ts l₁ l₂ (1, 1) h₁ h₂ hc]
  refine ⟨hl, fun st => evalText_lex_congr fuel st _ _ hl, ?_⟩
  exact (text_is_its_tokens fuel _ _ (by simpa using hl)).2

/-- A FINAL NEWLINE (or any other blanks, line ends and comments after the last token) changes
nothing: whatever follows the last token, the run is the same. -/
theorem final_newline_irrelevant (fuel : Nat) (ts : List Token) (l : List (List Char)) (a b : List Char)
    (hs : ∀ t ∈ ts, Text.SupportedTok t)
    (h₁ : Text.ValidLayout ts (l ++ [a])) (h₂ : Text.ValidLayout ts (l ++ [b])) (hlen : l.length = ts.length) :
    cli fuel (some (String.ofList (Text.interleave ts (l ++ [a])))) =
      cli fuel (some (String.ofList (Text.interleave ts (l ++ [b])))) :=
  (file_text_layout fuel ts _ _ hs h₁ h₂ (sameCursor_last ts l a b hlen)).2.2

/-- LF OR CRLF. Writing every line end between the tokens — in blanks and at the end of
comments, i.e. outside string literals and other tokens — as CR LF instead of LF gives a valid
layout again, with every token at the same line and column, and exactly the same run. -/
theorem crlf_irrelevant (fuel : Nat) (ts : List Token) (l : List (List Char))
    (hs : ∀ t ∈ ts, Text.SupportedTok t) (h : Text.ValidLayout ts l) :
    Text.ValidLayout ts (l.map crlf) ∧
    cli fuel (some (String.ofList (Text.interleave ts (l.map crlf)))) =
      cli fuel (some (String.ofList (Text.interleave ts l))) := by
  have hv := validLayout_crlf ts hs l h
  exact ⟨hv, (file_text_layout fuel ts _ _ hs h hv (sameCursor_crlf ts l h)).2.2.symm⟩

/-- THE RUN DEPENDS ON THE TOKENS ONLY, except for the LINE:COL of the diagnostic. Two texts with the
same token sequence (`toksOf`: the tokens the lexer produces, and whether it ends in an error),
evaluated through the library interface on the same interpreter state, give the same outcome up
to source locations — the same value (identical but for the positions recorded inside the code of
procedures) or the same error KIND — and leave the interpreter in the same state up to such
positions, with the same output. This is location-parametricity of the whole pipeline (reader,
macro expander, transformer, evaluator, library loader: `RuschmProofs/Unloc*.lean`). -/
theorem outcome_depends_on_tokens_only (fuel : Nat) (st : State) (t₁ t₂ : List Char)
    (ht : toksOf t₁ = toksOf t₂) :
    outcomeUnloc (evalText fuel st t₁).1 = outcomeUnloc (evalText fuel st t₂).1 ∧
    (evalText fuel st t₁).2.unloc = (evalText fuel st t₂).2.unloc ∧
    (evalText fuel st t₁).2.store.out = (evalText fuel st t₂).2.store.out := by
  obtain ⟨h1, h2⟩ := IU_eq (evalText_sameTokens fuel st st t₁ t₂ ht rfl)
  exact ⟨outcomeUnloc_eq h1, h2, unloc_out_eq h2⟩

/-- … hence for `ruschm FILE`: same tokens, same standard output, same exit status, same error
kind; a diagnostic in one run iff in the other (its LINE:COL is where the offending token stands
in each text). -/
theorem same_tokens_same_run (fuel : Nat) (s₁ s₂ : String) (ht : toksOf s₁.toList = toksOf s₂.toList) :
    (cli fuel (some s₁)).stdout = (cli fuel (some s₂)).stdout ∧
    (cli fuel (some s₁)).exitCode = (cli fuel (some s₂)).exitCode ∧
    (cli fuel (some s₁)).errKind = (cli fuel (some s₂)).errKind ∧
    (cli fuel (some s₁)).diag.isSome = (cli fuel (some s₂)).diag.isSome :=
  cli_sameTokens fuel s₁ s₂ ht

/-- ANY LAYOUT. A program written as a sequence of (supported) tokens under ANY two valid layouts
— different line breaks, indentation, comments, LF or CRLF, final newline or none — runs alike:
same output, same exit status, same error kind (corollary of `C06.lex_render`: both texts lex to
the tokens written). With `file_text_layout`: if moreover the layouts put the tokens at the same
positions, the diagnostic's LINE:COL is the same too. -/
theorem layout_irrelevant (fuel : Nat) (ts : List Token) (l₁ l₂ : List (List Char))
    (hs : ∀ t ∈ ts, Text.SupportedTok t) (h₁ : Text.ValidLayout ts l₁) (h₂ : Text.ValidLayout ts l₂) :
    (cli fuel (some (String.ofList (Text.interleave ts l₁)))).stdout =
      (cli fuel (some (String.ofList (Text.interleave ts l₂)))).stdout ∧
    (cli fuel (some (String.ofList (Text.interleave ts l₁)))).exitCode =
      (cli fuel (some (String.ofList (Text.interleave ts l₂)))).exitCode ∧
    (cli fuel (some (String.ofList (Text.interleave ts l₁)))).errKind =
      (cli fuel (some (String.ofList (Text.interleave ts l₂)))).errKind := by
  have ht : toksOf (String.ofList (Text.interleave ts l₁)).toList = toksOf (String.ofList (Text.interleave ts l₂)).toList := by
    simp only [String.toList_ofList]
    rw [toksOf_interleave ts l₁ hs h₁, toksOf_interleave ts l₂ hs h₂]
  obtain ⟨a, b, c, _⟩ := same_tokens_same_run fuel _ _ ht
  exact ⟨a, b, c⟩

/-- THE FORMS DO NOT DEPEND ON THE LAYOUT AT ALL (up to source locations). A sequence of written
data (`Text.Syn`, supported tokens) under ANY two valid layouts — different line breaks,
indentation, comments, LF or CRLF, a final newline or none — is read as the same forms, up to the
locations stored in them, and without a reader error: the data they denote
(`C06.read_render_many`). -/
theorem forms_layout_invariant (xs : List Text.Syn) (hxs : Text.Syn.SupportedL xs) (l₁ l₂ : List (List Char))
    (h₁ : Text.ValidLayout (Text.Syn.toksL xs) l₁) (h₂ : Text.ValidLayout (Text.Syn.toksL xs) l₂) :
    (formsOf (Text.interleave (Text.Syn.toksL xs) l₁)).1.map Datum.strip
      = (formsOf (Text.interleave (Text.Syn.toksL xs) l₂)).1.map Datum.strip ∧
    (formsOf (Text.interleave (Text.Syn.toksL xs) l₁)).2 = none ∧
    (formsOf (Text.interleave (Text.Syn.toksL xs) l₂)).2 = none := by
  obtain ⟨a1, a2⟩ := C06.read_render_many xs hxs l₁ h₁
  obtain ⟨b1, b2⟩ := C06.read_render_many xs hxs l₂ h₂
  exact ⟨a1.trans b1.symm, a2, b2⟩

section Example
/-- the tokens `1` `)` written `1 ;c⏎)` and `1 ;c␍⏎)⏎`: same located tokens, same run -/
example : Text.interleave [.prim (.int 1), .rparen] [[], " ;c\n".toList, []] = "1 ;c\n)".toList := by decide
example : Text.interleave [.prim (.int 1), .rparen] ([[], " ;c\n".toList, ['\n']].map crlf)
    = "1 ;c\r\n)\r\n".toList := by decide
example (fuel : Nat) : cli fuel (some "1 ;c\r\n)\r\n") = cli fuel (some "1 ;c\n)") := by
  have hs : ∀ t ∈ [Token.prim (.int 1), .rparen], Text.SupportedTok t := by
    intro t ht
    simp only [List.mem_cons, List.not_mem_nil, or_false] at ht
    rcases ht with rfl | rfl
    · exact (by decide : fitsI32 1 = true)
    · trivial
  have h1 := (crlf_irrelevant fuel [.prim (.int 1), .rparen] [[], " ;c\n".toList, ['\n']] hs (by decide)).2
  have h2 := final_newline_irrelevant fuel [.prim (.int 1), .rparen] [[], " ;c\n".toList] ['\n'] [] hs
    (by decide) (by decide) rfl
  have e1 : String.ofList (Text.interleave [.prim (.int 1), .rparen] ([[], " ;c\n".toList, ['\n']].map crlf))
      = "1 ;c\r\n)\r\n" := by decide
  have e2 : String.ofList (Text.interleave [.prim (.int 1), .rparen] ([[], " ;c\n".toList] ++ [[]]))
      = "1 ;c\n)" := by decide
  rw [e1] at h1
  rw [e2] at h2
  rw [h1, ← h2]
  rfl

/-- `1 )` on one line or on three, with a comment: same output, status and error kind -/
example (fuel : Nat) : (cli fuel (some "1 )")).exitCode = (cli fuel (some "1\n;c\n  )\n")).exitCode := by
  have hs : ∀ t ∈ [Token.prim (.int 1), .rparen], Text.SupportedTok t := by
    intro t ht
    simp only [List.mem_cons, List.not_mem_nil, or_false] at ht
    rcases ht with rfl | rfl
    · exact (by decide : fitsI32 1 = true)
    · trivial
  have h := (layout_irrelevant fuel [.prim (.int 1), .rparen] [[], [' '], []] [[], "\n;c\n  ".toList, ['\n']] hs
    (by decide) (by decide)).2.1
  have e1 : String.ofList (Text.interleave [.prim (.int 1), .rparen] [[], [' '], []]) = "1 )" := by decide
  have e2 : String.ofList (Text.interleave [.prim (.int 1), .rparen] [[], "\n;c\n  ".toList, ['\n']])
      = "1\n;c\n  )\n" := by decide
  rw [e1, e2] at h
  exact h

/-- the file `)`: the reader fails at line 1, column 2 — one syntax diagnostic there, status 255,
nothing written -/
example (fuel : Nat) : (cli fuel (some ")")).exitCode = 255 ∧ (cli fuel (some ")")).diag = some (some (1, 2)) ∧
    (cli fuel (some ")")).errKind = some .syntax ∧ (cli fuel (some ")")).stdout = "" := by
  have h : ")".toList = [')'] := by decide
  rw [cli_some, h, evalText_rparen]
  exact ⟨rfl, rfl, rfl, rfl⟩

example (fuel : Nat) : (cli fuel none).exitCode = 255 := (unreadable_file_is_diagnostic fuel).2.2.2
end Example

end Ruschm.C17

/-
Specification-side definitions for the front ends (properties C17, C18, C19): what `ruschm FILE`,
the REPL and a world of several interpreter instances are *supposed* to do, written without
reference to the way `RuschmModel/Front.lean` computes it. The theorems relating the two are in
`RuschmProofs/C17.lean`, `C18.lean`, `C19.lean` (helpers in `RuschmProofs/FrontLemmas.lean`).
-/
import RuschmModel.Front
import RuschmSpec.Text
namespace Ruschm.FrontSpec
open Ruschm Ruschm.Interp Ruschm.Front

/-! ## C17: a text is its forms, evaluated in order -/

/-- The forms of a text: the top-level data the model reader finds, and the error that stopped it
(a lexer error, an unbalanced parenthesis, …) if there was one. -/
def formsOf (text : List Char) : List Datum × Option SErr := Read.all text

/-- One form: the datum is turned into a statement in the interpreter's current syntax scope
(`define-syntax` binds there, macro uses are expanded), and the statement is evaluated by
`eval_ast`. -/
def evalForm (fuel : Nat) (st : State) (d : Datum) : Except SErr (Option Value) × State :=
  match Xform.toStatement (Xform.xformFuel d) d st.syn with
  | (.error e, syn) => (.error e, { st with syn := syn })
  | (.ok stmt, syn) => evalAst fuel { st with syn := syn } stmt

/-- The forms one after another, each from the state the previous one left; the FIRST error ends
the run (nothing after it is evaluated) and is returned with the state reached; otherwise the
value of the last form (`last` if there is none). -/
def runForms (fuel : Nat) : State → List Datum → Option Value → Except SErr (Option Value) × State
  | st, [], last => (.ok last, st)
  | st, d :: ds, _ =>
    match evalForm fuel st d with
    | (.error e, st') => (.error e, st')
    | (.ok v, st') => runForms fuel st' ds v

/-- A text through the library interface, by forms: run the forms that were read; when all of
them succeeded, the reader's error (if any) is the outcome. -/
def runText (fuel : Nat) (st : State) (text : List Char) : Except SErr (Option Value) × State :=
  match runForms fuel st (formsOf text).1 none with
  | (.error e, st') => (.error e, st')
  | (.ok v, st') =>
    match (formsOf text).2 with
    | some e => (.error e, st')
    | none => (.ok v, st')

/-- `σ'` has everything `σ` had written, and possibly more after it (`out` is most recent first) -/
def OutExt (σ σ' : Store) : Prop := ∃ more : List String, σ'.out = more ++ σ.out

/-- an outcome without its error location: the error kind, or the value -/
def eraseLoc : Except SErr (Option Value) → Except Err (Option Value)
  | .ok v => .ok v
  | .error (e, _) => .error e

/-- the part of a located token list the reader's *result* may depend on if locations are ignored -/
def toksOf (text : List Char) : List Token × Bool :=
  ((Lex.all text).1.map (·.tok), (Lex.all text).2.isSome)

/-- two layouts move the lexer's cursor alike: separator by separator (the last one, after the
final token, excepted) they end on the same line and column whatever the starting point. -/
def SameCursor : List (List Char) → List (List Char) → Prop
  | [_], [_] => True
  | a :: l, b :: m => (∀ p, Text.advs a p = Text.advs b p) ∧ SameCursor l m
  | _, _ => False

/-- every line feed written as carriage return + line feed (a file saved with CRLF line ends);
applied to the separators of a layout only, i.e. outside the tokens -/
def crlf : List Char → List Char
  | [] => []
  | c :: cs => if c = '\n' then '\r' :: '\n' :: crlf cs else c :: crlf cs

/-- the located tokens of a token sequence written with a layout (`Text.interleave`), the cursor
starting at `p`: a token's location is the cursor after its last character -/
def locate : List Token → List (List Char) → Lex.Pos → List LToken
  | [], _, _ => []
  | t :: ts, l, p =>
    ⟨t, some (Text.advs (Text.renderTok t) (Text.advs (l.headD []) p))⟩ ::
      locate ts l.tail (Text.advs (Text.renderTok t) (Text.advs (l.headD []) p))

/-! ## C18: the REPL -/

/-- what the REPL writes after a successful submission: the value of the last form in `display`
notation and a newline; nothing when there is no value (a definition, an import, an empty text)
or the value is the unspecified value -/
def echoOf (σ : Store) : Option Value → String
  | some .void => ""
  | some v => Prim.display σ 100000 v ++ "\n"
  | none => ""

/-- the interpreter state with an empty output buffer: the model's device for attributing output
to a submission (everything in `out` afterwards was written by this submission) -/
def clearOut (st : State) : State := { st with store := { st.store with out := [] } }

/-- Submitting a complete text: evaluate it through the library interface; print what the
program displayed, then the echo of the value — or, on an error, what was displayed before it
and the error message (kind) on standard error. The interpreter continues in the state
`evalText` returned, error or not. -/
def submit (fuel : Nat) (st : State) (source : String) : State × ReplOut :=
  match evalText fuel (clearOut st) source.toList with
  | (.ok v, st') => (st', { stdout := outText st'.store ++ echoOf st'.store v, submitted := true })
  | (.error (e, _), st') => (st', { stdout := outText st'.store, err := some e, submitted := true })

/-- The maximal line groups of a session: empty lines are dropped; non-empty lines are joined by
a newline until the text so far is closed (`check_bracket_closed`), which ends the group.
Returns the groups and the unfinished text left at the end (with its trailing newline). -/
def groupsAux : String → List String → List String × String
  | pending, [] => ([], pending)
  | pending, l :: ls =>
    if l.isEmpty then groupsAux pending ls
    else if Bracket.closed (pending ++ l).toList then
      ((pending ++ l) :: (groupsAux "" ls).1, (groupsAux "" ls).2)
    else groupsAux (pending ++ l ++ "\n") ls

def groups (lines : List String) : List String := (groupsAux "" lines).1
def unfinished (lines : List String) : String := (groupsAux "" lines).2

/-- texts submitted one after another to ONE interpreter -/
def session (fuel : Nat) : State → List String → State × List ReplOut
  | st, [] => (st, [])
  | st, g :: gs => ((session fuel (submit fuel st g).1 gs).1, (submit fuel st g).2 :: (session fuel (submit fuel st g).1 gs).2)

/-- the `i`-th texts of two sessions have the same tokens at the same locations -/
def SameLocTokens : List String → List String → Prop
  | [], [] => True
  | g :: gs, h :: hs => Lex.all g.toList = Lex.all h.toList ∧ SameLocTokens gs hs
  | _, _ => False

/-- the `i`-th texts of two sessions have the same tokens (wherever they stand) -/
def SameTokens : List String → List String → Prop
  | [], [] => True
  | g :: gs, h :: hs => toksOf g.toList = toksOf h.toList ∧ SameTokens gs hs
  | _, _ => False

/-- everything a session wrote to standard output -/
def transcript (outs : List ReplOut) : String := String.join (outs.map (·.stdout))

/-- the error messages (kinds) a session wrote to standard error, in order -/
def errors (outs : List ReplOut) : List Err := outs.filterMap (·.err)

/-! ## C19: several instances -/

/-- a history of steps: which instance, which text -/
abbrev Steps := List (Nat × List Char)

/-- run a history on a world; the result of every step in order (`none`: no such instance) -/
def runSteps (fuel : Nat) : World → Steps → List (Nat × Option (Except SErr (Option Value))) × World
  | w, [] => ([], w)
  | w, (i, text) :: rest =>
    ((i, (worldStep fuel w i text).1) :: (runSteps fuel (worldStep fuel w i text).2 rest).1,
      (runSteps fuel (worldStep fuel w i text).2 rest).2)

/-- the texts a history submits to instance `j`, in order -/
def textsFor (j : Nat) (steps : Steps) : List (List Char) :=
  (steps.filter (fun s => s.1 = j)).map (·.2)

/-- texts one after another on one instance, alone -/
def runAlone (fuel : Nat) : State → List (List Char) → List (Except SErr (Option Value)) × State
  | st, [] => ([], st)
  | st, t :: ts =>
    ((evalText fuel st t).1 :: (runAlone fuel (evalText fuel st t).2 ts).1,
      (runAlone fuel (evalText fuel st t).2 ts).2)

end Ruschm.FrontSpec

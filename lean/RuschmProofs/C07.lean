/-
Property C07 — no panic, and the interpreter stays usable.

"For every character sequence given to the evaluator as source text, and every file given to it
as a program or library, reading, expanding and evaluating end in a value or in a reported error;
the process never panics, aborts or corrupts the interpreter, and after the error the same
interpreter still evaluates further input."

The claim is about the executable model (`RuschmModel/*.lean`), in which every place where the
Rust code could panic returns the outcome `.error (.panic site, _)` under exactly the condition
under which the Rust would panic. Running out of fuel (`.error (.fuel, _)`) is a different
outcome: it is not an outcome of the real code at all.

Only property theorems live here (each is audited with `#print axioms`); helper lemmas are in
`RuschmProofs/SafeFront.lean` (lexer, reader, macro builders, `toStatement`),
`RuschmProofs/SafeExpand.lean` (macro expansion keeps data `n/0`-free, `toStatement` produces `ok`
code), `RuschmProofs/SafeLemmas.lean` (native procedures), `RuschmProofs/SafeEval.lean` (the evaluator), `RuschmProofs/SafeInterp.lean` (imports, libraries,
`evalText`, the initial states), `RuschmProofs/SafeUsable.lean` (the probe).
Vocabulary (`NoPanic`, `ratOk`, `ok`, `Value.Safe`, `Store.Safe`, `Interp.Safe`) is defined in
`RuschmSpec/Safe.lean`.
-/
import RuschmProofs.SafeFront
import RuschmProofs.SafeExpand
import RuschmProofs.SafeLemmas
import RuschmProofs.SafeUsable
import RuschmProofs.SafeEval
import RuschmProofs.SafeInterp
import RuschmProofs.C14

namespace Ruschm.C07
open Ruschm

/-! ## 1. The front end never panics: all inputs, no hypotheses -/

/-- The lexer has no panic outcome: whatever the characters, the reader sees tokens or a located
syntax error. -/
theorem lex_no_panic (cs : List Char) : NoPanic (lexOutcome cs) := by
  intro s l h
  unfold lexOutcome at h
  split at h <;> cases h

/-- `1/0` is a located syntax error -/
example : lexOutcome ['1', '/', '0'] = .error (.syntax, some (1, 4)) := by
  simp [lexOutcome, Lex.all, Lex.allAux, Lex.next, Lex.skipAtmosphere, Lex.token, Lex.adv, Lex.isWs,
    Lex.isDigit, Lex.number, Lex.takeRun, Lex.endOfToken, Lex.parseI32?, Lex.parseU32?, Lex.digitsVal,
    fitsI32, Except.map, bind, Except.bind]

/-- ... and it never delivers a rational literal with denominator 0 (`n/0` is a syntax error). -/
theorem lex_rat_ok (cs : List Char) : ∀ t ∈ (Lex.all cs).1, t.tok.ratOk = true :=
  Lex.all_ratOk cs

/-- The reader never panics: for every parser state (any tokens, any pending lexer error). -/
theorem read_no_panic (s : Read.PState) : NoPanic (Read.nextDatum s) :=
  noPanic_iff.2 fun _ h => Read.nextDatum_np h

/-- The same for a whole text: the data read, or a non-panic error. -/
theorem read_all_no_panic (cs : List Char) : NoPanic (readOutcome cs) := by
  refine noPanic_iff.2 fun e h => ?_
  unfold readOutcome at h
  split at h
  · cases h
  · rename_i ds e' he
    cases h
    unfold Read.all at he
    exact Read.allAux_np _ _ _ _ (by rw [he])

example : Read.nextDatum ⟨[⟨.lparen, some (1, 2)⟩, ⟨.period, some (1, 3)⟩, ⟨.period, some (1, 4)⟩], none, none, none⟩ =
    .error (.syntax, some (1, 4)) := by
  simp [Read.nextDatum, Read.advance, Read.fuelFor, Read.currentDatum, Read.listOrPair, Read.listLoop,
    Read.advanceUnwrap, bind, Except.bind, pure, Except.pure]

/-- Every datum the reader produces is free of `n/0`. -/
theorem read_rat_ok (cs : List Char) : ∀ d ∈ (Read.all cs).1, d.ratOk = true :=
  Read.all_ratOk cs

theorem read_next_rat_ok (cs : List Char) {d : Datum} {s : Read.PState}
    (h : Read.nextDatum (Read.ofText cs) = .ok (some d, s)) : d.ratOk = true :=
  (Read.nextDatum_ratOk h (Read.ofText_ratOK cs)).2 d rfl

/-- the hypothesis of `read_next_rat_ok` is satisfiable: the probe text reads as one datum -/
example : Read.nextDatum (Read.ofText Usable.txt) = .ok (some Usable.d0, Usable.s1) := by
  rw [Usable.ofText_txt]; exact Usable.next0

/-- `toStatement` (datum → AST, with macro expansion) never panics: every datum, every syntax
environment, every fuel. (The only panic site of this stage is the `get_mut(..).unwrap()` of the
matcher, unreachable by `C04.match_no_panic`.) -/
theorem xform_no_panic (fuel : Nat) (d : Datum) (env : Xform.SynEnv) :
    NoPanic (Xform.toStatement fuel d env).1 :=
  noPanic_iff.2 fun _ h => Xform.toStatement_np fuel d env h

example : (Xform.toStatement 10 (.nil none) []).1 = .error (.syntax, none) := rfl

/-! ## 2. What the front end hands to the evaluator is `ok` code -/

/-- Transformers built from `n/0`-free data have `n/0`-free templates. -/
theorem rules_rat_ok {k : String} {d : Datum} {r : Macro.Rules} (h : Macro.toRules k d = .ok r)
    (hd : d.ratOk = true) : r.RatOK :=
  Macro.toRules_ratOk h hd

/-- `(syntax-rules () ((m) 1/2))` -/
example : (Macro.toRules "m" (.pair (.sym "syntax-rules" none) (.pair (.nil none)
    (.pair (.pair (.pair (.sym "m" none) (.nil none) none) (.pair (.prim (.rat 1 2) none) (.nil none) none) none)
      (.nil none) none) none) none)) =
    .ok ⟨[], [(.nil, .prim (.rat 1 2))]⟩ := rfl

/-- Macro expansion keeps data free of `n/0`: the table only ever holds sub-data of the use, and
the template is `n/0`-free. -/
theorem expansion_rat_ok {fuel : Nat} {r : Macro.Rules} {use d : Datum} (hr : r.RatOK)
    (hu : use.ratOk = true) (h : Macro.transform fuel r use = .ok d) : d.ratOk = true :=
  Macro.transform_ratOk hr hu h

example : Macro.transform 10 ⟨[], [(.nil, .prim (.rat 1 2))]⟩ (.nil none) = .ok (.prim (.rat 1 2) none) := rfl

/-- Every statement `toStatement` produces from `n/0`-free data in an `n/0`-free syntax
environment is `ok`: every lambda in it (recursively) has a non-empty body (`toBody` rejects an
empty one) and every literal is free of `n/0`; the syntax environment stays `n/0`-free. -/
theorem xform_bodies_ok {fuel : Nat} {d : Datum} {env : Xform.SynEnv} (hd : d.ratOk = true)
    (he : Xform.SynEnv.RatOK env) :
    Xform.SynEnv.RatOK (Xform.toStatement fuel d env).2 ∧
      ∀ st, (Xform.toStatement fuel d env).1 = .ok st → st.ok = true :=
  Xform.toStatement_ok hd he

/-- an empty body is rejected -/
example : (Xform.toStatement 10 (.pair (.sym "lambda" none) (.pair (.nil none) (.nil none) none) none) []).1 =
    .error (.syntax, none) := rfl
/-- the hypothesis is needed: a datum with `1/0` in it (the reader never produces one) transforms
into code that is not `ok` -/
example : (Xform.toStatement 10 (.prim (.rat 1 0) none) []).1 = .ok (.expr (.prim (.rat 1 0) none)) ∧
    (Statement.expr (.prim (.rat 1 0) none)).ok = false := ⟨rfl, rfl⟩

/-! ## 3. The native procedures -/

/-- `Builtin.arity` is what `apply_procedure` checks before it calls a native procedure. Once
that check has passed, the only panic sites the procedure can still reach are `Prim.pureSites`
(`apply` itself, a dangling vector reference, a zero denominator): NONE of the
`iter.next().unwrap()` sites of `base.rs`. -/
theorem builtin_panic_sites (σ : Store) (b : Builtin) (args : List Value)
    (har : Eval.arityOk b.arity.1 b.arity.2 args.length = true) :
    ∀ s l, (Prim.applyPure σ b args).1 = .error (.panic s, l) → s ∈ Prim.pureSites :=
  Prim.applyPure_sites har

example : Eval.arityOk Builtin.vectorRef.arity.1 Builtin.vectorRef.arity.2 2 = true := rfl

/-- In particular the result is never `Prim.missing b _`, the rendering of a native procedure
reading an argument that is not there. -/
theorem builtin_args_sufficient (σ σ' : Store) (b : Builtin) (args : List Value)
    (har : Eval.arityOk b.arity.1 b.arity.2 args.length = true) :
    Prim.applyPure σ b args ≠ Prim.missing b σ' := by
  intro h
  have := Prim.applyPure_sites har ("base.rs unwrap: " ++ b.name) none (by rw [h]; rfl)
  revert this
  cases b <;> decide

example : Prim.applyPure {} .car [] = Prim.missing .car {} := rfl
example : Eval.arityOk Builtin.car.arity.1 Builtin.car.arity.2 0 = false := rfl

/-- On safe arguments (numbers with positive denominators) whose ids are allocated, a native
procedure other than `apply` (which the trampoline unpacks and never passes on) whose arity check
has passed does not panic at all, and returns a safe value. -/
theorem applyPure_no_panic {σ : Store} {b : Builtin} {args : List Value} (hb : b ≠ .apply)
    (har : Eval.arityOk b.arity.1 b.arity.2 args.length = true) (ha : ∀ a ∈ args, a.Safe)
    (hal : ∀ a ∈ args, σ.AllocIn a) (hv : σ.ValsSafe) :
    NoPanic (Prim.applyPure σ b args).1 ∧ (∀ v, (Prim.applyPure σ b args).1 = .ok v → v.Safe) ∧
      (Prim.applyPure σ b args).2.ValsSafe :=
  ⟨(Prim.applyPure_rok hb har ha hal hv).np, (Prim.applyPure_rok hb har ha hal hv).val,
    Prim.applyPure_valsSafe hv b ha⟩

/-- the hypotheses are needed: a denominator 0 does reach the `exact_ratio` panic -/
example : (Prim.applyPure {} .floor [.num (.rat 1 0)]).1 =
    .error (.panic "floor: zero denominator", none) := rfl

/-! ## 4. The evaluator -/

/-- MAIN evaluator theorem: the safety invariant `Eval.SafeAt` (RuschmSpec/Safe.lean) holds for
every amount of fuel — for all eight functions of the evaluator's mutual block, from a safe store
(`Store.Safe` = well-formed and every stored value safe), on `ok` code, with good arguments and a
procedure in operator position, the outcome is never a panic, the store stays safe, and the
result is safe and allocated. By induction on fuel. -/
theorem eval_no_panic (fuel : Nat) : Eval.SafeAt fuel := Eval.safeAt fuel

/-- `evalExpr`, spelled out. -/
theorem evalExpr_no_panic {fuel : Nat} {σ : Store} {ρ : Nat} {e : Expr} (hσ : σ.Safe)
    (hρ : ρ < σ.frames.size) (he : e.ok = true) :
    NoPanic (Eval.evalExpr fuel σ ρ e).1 ∧ (Eval.evalExpr fuel σ ρ e).2.Safe ∧
      ∀ v, (Eval.evalExpr fuel σ ρ e).1 = .ok v → v.Safe ∧ (Eval.evalExpr fuel σ ρ e).2.AllocIn v :=
  have h := Eval.evalExpr_post (fuel := fuel) hσ hρ he
  ⟨noPanic_iff.2 h.np, h.store, h.val⟩

/-- `applyProcedure` (the trampoline), spelled out: `p` must be a procedure, as every caller
checks. -/
theorem applyProcedure_no_panic {fuel : Nat} {σ : Store} {p : Value} {args : List Value} {env : Nat}
    (hσ : σ.Safe) (hp : p.Safe ∧ σ.AllocIn p) (ha : ∀ a ∈ args, a.Safe ∧ σ.AllocIn a)
    (hq : (Eval.procArity p).isSome = true) :
    NoPanic (Eval.applyProcedure fuel σ p args env).1 ∧ (Eval.applyProcedure fuel σ p args env).2.Safe ∧
      ∀ v, (Eval.applyProcedure fuel σ p args env).1 = .ok v → v.Safe :=
  have h := (Eval.safeAt fuel).proc σ p args env _ _ rfl hσ hp ha hq
  ⟨noPanic_iff.2 h.np, h.store, fun v hv => (h.val v hv).1⟩

/-- the initial store is safe, and code exists that is `ok` -/
example : Store.root.Safe ∧ (0 : Nat) < Store.root.frames.size ∧
    (Expr.call (.lambda (.mk ⟨["x"], none⟩ [] [.sym "x" none]) none) [.prim (.rat 1 2) none] none).ok = true :=
  ⟨⟨Store.wf_root, ⟨fun i f h kv hkv => by
      simp only [Store.root] at h
      cases i with
      | zero => simp at h; subst h; simp at hkv
      | succ i => simp at h,
    fun i c h => by simp [Store.root] at h⟩⟩, by decide, rfl⟩

/-- the hypotheses are needed: an empty body does reach the `unreachable!`, a non-procedure the
`not a procedure` site, too few arguments the `unwrap` of `apply_scheme_procedure`, and a literal
`1/0` the division in `exact_ratio` -/
example : (Eval.evalBody 1 {} 0 []).1 = .error (.panic "apply_scheme_procedure: empty body", none) := by
  simp [Eval.evalBody]
example : (Eval.applyLoop 1 {} (.num (.int 1)) [] 0).1 =
    .error (.panic "apply_procedure: not a procedure", none) := by
  simp [Eval.applyLoop, Eval.procArity]
example : (Eval.applyScheme 1 {} (.mk ⟨["x"], none⟩ [] [.sym "x" none]) 0 []).1 =
    .error (.panic "apply_scheme_procedure: arg_iter.next().unwrap()", none) := by
  simp [Eval.applyScheme, Eval.bindFixed, Lambda.formals, Store.newFrame]
example : (Eval.evalExpr 1 {} 0 (.prim (.rat 1 0) none)).1 =
    .error (.panic "exact_ratio: zero denominator", none) := by
  simp [Eval.evalExpr, Eval.evalPrim, Num.exactRatio, Except.map]

/-! ## 5. The interpreter -/

/-- From a safe interpreter state, evaluating ANY text with ANY fuel does not panic, and the
state it leaves is safe again — whatever the outcome (value, reported error, fuel). Covers
reading, macro expansion, evaluation, imports, and libraries loaded from registered factories or
from library FILES (`State.files`: any text; `factoryOfText` of any text yields `ok` code or a
reported error). -/
theorem interp_no_panic (fuel : Nat) (st : Interp.State) (text : List Char) (h : Interp.Safe st) :
    NoPanic (Interp.evalText fuel st text).1 ∧ Interp.Safe (Interp.evalText fuel st text).2 :=
  have i := Interp.evalText_post fuel st text h
  ⟨noPanic_iff.2 i.np, i.safe⟩

/-- Library files: whatever the text of the file, making a factory from it does not panic, and a
factory it yields holds `ok` declarations. -/
theorem library_file_no_panic (name : LibName) (text : String) :
    NoPanic (Interp.factoryOfText name text) ∧
      ∀ f, Interp.factoryOfText name text = .ok f → ∃ decls, f = .ast decls ∧ LibDecl.okList decls = true :=
  ⟨noPanic_iff.2 (Interp.factoryOfText_post name text).1, (Interp.factoryOfText_post name text).2⟩

/-- Imports (any import sets, any target frame of the store) keep the state safe and do not panic. -/
theorem import_no_panic (fuel : Nat) (st : Interp.State) (sets : List ImportSet) (ρ : Nat)
    (h : Interp.Safe st) :
    NoPanic (Interp.evalImport fuel st sets ρ).1 ∧ Interp.Safe (Interp.evalImport fuel st sets ρ).2 :=
  have i := (Interp.iAt fuel).import_ (r := _) (st' := _) rfl h
  ⟨noPanic_iff.2 i.np, i.safe⟩

/-- The initial states are safe: `Interpreter::default()` (with or without the harness's host
library), `Interpreter::new_with_stdlib()` whatever fuel the import of the standard library is
given, and either of them with any set of files next to the program. -/
theorem initial_safe (b : Bool) (fuel₀ : Nat) (files : List (String × Interp.FileEntry)) :
    Interp.Safe (Interp.default_ b) ∧ Interp.Safe (Interp.withStdlib fuel₀ b) ∧
    Interp.Safe { Interp.default_ b with files := files } ∧
    Interp.Safe { Interp.withStdlib fuel₀ b with files := files } :=
  have h1 := Interp.default_safe b
  have h2 := Interp.withStdlib_safe fuel₀ b
  ⟨h1, h2, ⟨h1.store, h1.env, h1.instances, h1.factories, h1.syn⟩,
    ⟨h2.store, h2.env, h2.instances, h2.factories, h2.syn⟩⟩

/-! ## 6. THE property -/

/-- a session from a safe state: no outcome is a panic and the final state is safe -/
theorem run_no_panic (inputs : List (Nat × List Char)) :
    ∀ (st : Interp.State), Interp.Safe st →
      (∀ r ∈ (Interp.run st inputs).1, NoPanic r) ∧ Interp.Safe (Interp.run st inputs).2 := by
  induction inputs with
  | nil => intro st h; exact ⟨by simp [Interp.run], h⟩
  | cons p rest ih =>
    intro st h
    obtain ⟨fuel, text⟩ := p
    have h1 := interp_no_panic fuel st text h
    have h2 := ih _ h1.2
    simp only [Interp.run]
    refine ⟨fun r hr => ?_, h2.2⟩
    rcases List.mem_cons.1 hr with rfl | hr
    · exact h1.1
    · exact h2.1 r hr

/-- **C07.** For every sequence of character sequences given one after another, each with any
fuel, to an interpreter created by `new_with_stdlib()` (with any fuel for the import of the
standard library) or by `default()`, with any files next to the program: no outcome is a panic.
Every outcome is a value, a reported error, or the model's fuel outcome. -/
theorem no_panic (b : Bool) (fuel₀ : Nat) (files : List (String × Interp.FileEntry))
    (inputs : List (Nat × List Char)) :
    (∀ r ∈ (Interp.run { Interp.withStdlib fuel₀ b with files := files } inputs).1, NoPanic r) ∧
    (∀ r ∈ (Interp.run { Interp.default_ b with files := files } inputs).1, NoPanic r) :=
  ⟨(run_no_panic inputs _ (initial_safe b fuel₀ files).2.2.2).1,
   (run_no_panic inputs _ (initial_safe b fuel₀ files).2.2.1).1⟩

/-- the session function does evaluate: one probe, one outcome -/
example : (Interp.run {} [(7, "((lambda (x) x) 42)".toList)]).1 = [.ok (some (.num (.int 42)))] := by
  have := Usable.evalText_probe 0 {}
  simp only [Interp.run, List.cons.injEq, and_true]
  exact this

/-! ## 7. After ANY outcome the interpreter still evaluates -/

/-- From EVERY interpreter state — whatever an earlier error left behind in the store, the syntax
environment, the library tables — the probe `((lambda (x) x) 42)` evaluates to 42, given fuel 7
or more. (`lambda` is recognised before the syntax environment is consulted, so no macro can
shadow it; the form refers to no global.) -/
theorem usable_after_error (st : Interp.State) (fuel : Nat) (hf : 7 ≤ fuel) :
    (Interp.evalText fuel st "((lambda (x) x) 42)".toList).1 = .ok (some (.num (.int 42))) := by
  obtain ⟨n, rfl⟩ : ∃ n, fuel = n + 7 := ⟨fuel - 7, by omega⟩
  exact Usable.evalText_probe n st

/-- After ANY outcome of evaluating a text — an error included — the returned state differs from
the input state at most in the store, the syntax environment, the library tables and the
`import_end` flag: the in-progress set is as before (it is restored after every import, failed
or not: `C14.model_in_progress_restored`), and so are the files and the root frame. From a safe
state the returned state is safe, so everything above applies to it again; and by
`usable_after_error` it evaluates the probe whether it is safe or not. -/
theorem state_usable_after_any_outcome (fuel : Nat) (st : Interp.State) (text : List Char) :
    (Interp.evalText fuel st text).2.inProgress = st.inProgress ∧
    (Interp.evalText fuel st text).2.files = st.files ∧
    (Interp.evalText fuel st text).2.env = st.env ∧
    (Interp.Safe st → Interp.Safe (Interp.evalText fuel st text).2) ∧
    (∀ fuel', 7 ≤ fuel' →
      (Interp.evalText fuel' (Interp.evalText fuel st text).2 "((lambda (x) x) 42)".toList).1 =
        .ok (some (.num (.int 42)))) :=
  have f := Interp.evalText_frame fuel st text
  ⟨f.1, f.2.1, f.2.2, fun h => (interp_no_panic fuel st text h).2,
    fun fuel' hf => usable_after_error _ fuel' hf⟩

/-- the in-progress mark of a failed import is removed (the cited theorem) -/
example (fuel : Nat) (st : Interp.State) (s : ImportSet) :
    (Interp.evalImportSet fuel st s).2.inProgress = st.inProgress :=
  (C14.model_in_progress_restored fuel st).1 s

/-- with no fuel the model reports the fuel outcome (not an outcome of the real code) -/
example : (Interp.evalText 0 {} "((lambda (x) x) 42)".toList).1 = .error (.fuel, some (1, 2)) := by
  rw [Usable.txt_eq]
  unfold Interp.evalText
  simp only [Usable.ofText_txt]
  rw [show Usable.s0.toks.length + 1 = 11 from by decide, Interp.evalText.go, Usable.next0]
  simp only [Usable.fuel_d0, Usable.xform0]
  simp [Interp.evalAst, Interp.evalExprOrDef, Usable.stmt0, Eval.evalExpr, Usable.e0, Statement.loc, Expr.loc]

/-! ## 8. Inventory of the panic sites -/

/-- Every panic site of the model is unreachable from a safe interpreter state — in particular
from the initial states (`initial_safe`) and from every state a session reaches (`run_no_panic`).
`panicSites` (RuschmSpec/Safe.lean) lists the `Err.panic` labels that occur in
`RuschmModel/*.lean`; the per-site theorems below give, for each, the local reason. -/
theorem panic_sites_inventory : ∀ site ∈ panicSites, UnreachableFromSafe site :=
  fun _ _ st fuel text s l h _ => (interp_no_panic fuel st text h).1 s l

example : Interp.Safe (Interp.default_ false) := (initial_safe false 0 []).1

/-- `exact_ratio: zero denominator` (and `floor:`/`ceiling: zero denominator`): `exactRatio n d`
panics only for `d = 0` (`C09.exactRatio_panic_iff`); a literal `n/d` has `d ≠ 0` (the lexer
rejects `n/0`: `lex_rat_ok`, `read_rat_ok`; expansion keeps it: `expansion_rat_ok`), and on
operands with positive denominators no numeric operation panics and the results have positive
denominators again. -/
theorem exactRatio_site_unreachable :
    (∀ n d : Int, d ≠ 0 → NoPanicE (Num.exactRatio n d)) ∧
    (∀ p : Prim, p.ratOk = true → NoPanicE (Eval.evalPrim p)) ∧
    (∀ a b : Num, a.PosDen → b.PosDen →
      NoPanicE (Num.add a b) ∧ NoPanicE (Num.sub a b) ∧ NoPanicE (Num.mul a b) ∧ NoPanicE (Num.div a b) ∧
      NoPanicE (Num.abs a) ∧ NoPanicE (Num.floor a) ∧ NoPanicE (Num.ceiling a) ∧
      NoPanicE (Num.floorQuotient a b) ∧ NoPanicE (Num.floorRemainder a b)) := by
  refine ⟨fun n d hd s h => ?_, fun p hp s h => ?_, fun a b pa pb => ?_⟩
  · exact hd (C09.exactRatio_panic_iff.1 ⟨s, h⟩)
  · exact (Eval.evalPrim_good hp).1 _ h s rfl
  · exact ⟨(Num.safe_add a b pa pb).1, (Num.safe_sub a b pa pb).1, (Num.safe_mul a b pa pb).1,
      (Num.safe_div a b pa pb).1, (Num.safe_abs a pa).1, (Num.safe_floor a pa).1, (Num.safe_ceiling a pa).1,
      (Num.safe_floorQuotient a b pa pb).1, (Num.safe_floorRemainder a b pa pb).1⟩

example : Num.exactRatio 1 0 = .error (.panic "exact_ratio: zero denominator") := rfl

/-- `base.rs unwrap: …` (a native procedure reading an argument that is not there): unreachable
once the arity check of `apply_procedure` has passed — for every native procedure, `sub`/`div`
and `max`/`min` included. -/
theorem missing_site_unreachable (σ : Store) (b : Builtin) (args : List Value)
    (har : Eval.arityOk b.arity.1 b.arity.2 args.length = true) (s : String) (l : Loc)
    (h : (Prim.applyPure σ b args).1 = .error (.panic s, l)) :
    s ≠ "base.rs unwrap: sub/div" ∧ s ≠ "base.rs unwrap: max/min" ∧
      ∀ b' : Builtin, s ≠ "base.rs unwrap: " ++ b'.name := by
  have hs := Prim.applyPure_sites har s l h
  refine ⟨?_, ?_, fun b' => ?_⟩
  · rintro rfl; revert hs; decide
  · rintro rfl; revert hs; decide
  · rintro rfl; revert hs; cases b' <;> decide

example : (Prim.applyPure {} .sub []).1 = .error (.panic "base.rs unwrap: sub/div", none) := rfl

/-- `apply_scheme_procedure: arg_iter.next().unwrap()`: binding the fixed parameters cannot fail
when there are at least as many arguments as fixed parameters — which `arityOk`, checked by
`applyLoop` before every `applyScheme`, guarantees. -/
theorem bindFixed_site_unreachable (σ : Store) (ρ : Nat) :
    ∀ (names : List String) (args : List Value), names.length ≤ args.length →
      ∃ rest, (Eval.bindFixed σ ρ names args).1 = .ok rest := by
  intro names
  induction names generalizing σ with
  | nil => intro args _; exact ⟨args, by rw [Eval.bindFixed]⟩
  | cons f fs ih =>
    intro args hl
    cases args with
    | nil => simp at hl
    | cons a as => rw [Eval.bindFixed]; exact ih _ as (by simpa using hl)

example : Eval.arityOk 2 false 1 = false ∧ (2 ≤ 1 → False) := ⟨rfl, by decide⟩

/-- `apply_scheme_procedure: empty body` (`unreachable!`): the body of every procedure the
evaluator runs is non-empty, because `toBody` rejects an empty body (`xform_bodies_ok`) and
`Lambda.ok` is part of `Value.Safe` for closures. -/
theorem emptyBody_site_unreachable {fuel : Nat} {σ : Store} {ρ : Nat} {es : List Expr} (hσ : σ.Safe)
    (hρ : ρ < σ.frames.size) (hes : Expr.okList es = true) (hne : es ≠ []) :
    NoPanic (Eval.evalBody fuel σ ρ es).1 :=
  noPanic_iff.2 ((Eval.safeAt fuel).body σ ρ es _ _ rfl hσ hρ hes (by cases es <;> simp_all)).np

/-- `apply_procedure: not a procedure`: `applyLoop` is only entered with a procedure — `evalExpr`,
the trampoline and `spreadApply` test `procArity` first. -/
theorem notProcedure_site_unreachable {fuel : Nat} {σ : Store} {p : Value} {args : List Value} {env : Nat}
    (hσ : σ.Safe) (hp : p.Safe ∧ σ.AllocIn p) (ha : ∀ a ∈ args, a.Safe ∧ σ.AllocIn a)
    (hq : (Eval.procArity p).isSome = true) : NoPanic (Eval.applyLoop fuel σ p args env).1 :=
  noPanic_iff.2 ((Eval.safeAt fuel).loop σ p args env _ _ rfl hσ hp ha hq).np

/-- `dangling vector` (the site occurs in `vector-length`, `vector-ref`, `vector-set!`): a vector
reference whose cell is allocated (`Store.AllocIn`, kept by `Store.WF`: `C03.store_wf_invariant`)
is never dangling. -/
theorem danglingVector_site_unreachable {σ : Store} {b : Builtin} {args : List Value}
    (hb : b = .vectorLength ∨ b = .vectorRef ∨ b = .vectorSet)
    (hal : ∀ a ∈ args, σ.AllocIn a) (l : Loc) :
    (Prim.applyPure σ b args).1 ≠ .error (.panic "dangling vector", l) := by
  intro h
  rcases hb with rfl | rfl | rfl <;> simp only [Prim.applyPure] at h <;> (repeat' split at h)
  all_goals first
    | (cases h; done)
    | (rename_i hn; exact Prim.vec_alloc_some (hal _ (by simp)) hn)
    | (simp only [Prim.missing_fst, Builtin.name] at h
       simp only [Except.error.injEq, Prod.mk.injEq, Err.panic.injEq] at h
       exact absurd h.1 (by decide))

example : (Prim.applyPure {} .vectorLength [.vec 3]).1 = .error (.panic "dangling vector", none) := rfl

/-- `spread_apply_arguments: unwrap`: `apply` has arity (1, variadic), so the argument list that
reaches `spreadApply` is non-empty. -/
theorem spreadApply_site_unreachable (args : List Value) (hne : args ≠ []) :
    NoPanicE (Eval.spreadApply args) := by
  intro s h
  unfold Eval.spreadApply at h
  cases args with
  | nil => exact hne rfl
  | cons f rest =>
    simp only at h
    repeat' split at h
    all_goals cases h

example : Builtin.apply.arity = (1, true) := rfl

/-- `macros.rs get_mut unwrap`: the matcher never panics, for all inputs (`C04.match_no_panic`). -/
theorem macroUnwrap_site_unreachable (fuel : Nat) (lits : List String) (p : Macro.Pat) (d : Datum)
    (σ : Macro.Subst) : NoPanic (Macro.matchDatum fuel lits p d σ) :=
  fun _ _ => C04.match_no_panic

end Ruschm.C07

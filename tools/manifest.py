#!/usr/bin/env python3
"""Regenerates MANIFEST.json from the table below (kept valid against /root/.vp/MANIFEST.schema.json)."""
import json, os
ROOT = os.path.dirname(os.path.dirname(os.path.abspath(__file__)))
props = [json.loads(l) for l in open(os.path.join(ROOT, "properties.jsonl"))]

NOTE = ("Trusted: Lean 4.33 kernel with axioms propext/Classical.choice/Quot.sound only (audited by #print axioms on every "
        "run; no sorry/native_decide/bv_decide); the hand-written Lean model of the Rust code, tied to /repo on every run by "
        "the differential correspondence (harness/hx runs the real code rebuilt from the working tree, lean driver runs the "
        "model, checks/*.py diffs); regenerated RuschmGen constants; rustc/cargo/std; Float32 = host binary32.")

CLAIMED = {
 "C09": dict(design="5/C09", technique="Lean 4 theorems (soundness in Q, WF invariant, completeness below 2^15, floor/remainder spec, contagion by dispatch) about RuschmModel/Num.lean + exhaustive operand-grid correspondence model<->implementation + exact-rational oracle",
   text="Proof: 38 kernel-checked theorems about the executable model of values.rs/base.rs numerics (exact results equal the value in Q for ALL operands, never a wrong exact number, representation invariant preserved by every operation sequence, division by exact zero is an error, floor/ceiling/floor-quotient/floor-remainder specs, inexact contagion). The model is tied to the code by running every operation of a 76-expression operand grid (all pairs, triples of a sub-grid) on the real interpreter and on the model and comparing bit-for-bit, and by an independent exact-rational oracle on the implementation."),
 "C10": dict(design="5/C10", technique="Lean 4 theorems (order iff order in Q, chain = conjunction of adjacent pairs, max/min extreme + contagion, eqv? iff same exactness and value) about RuschmModel/Num.lean + exhaustive pair/triple correspondence + exact-rational oracle",
   text="Proof: 19 kernel-checked theorems (lt/gt/le/ge/eq iff the order of the values in Q for all exact operands with positive denominators; mixed comparisons are the binary32 comparison of the converted operands; n-ary chains are the conjunction of adjacent pairs; max/min return an argument that is extreme and are inexact iff some argument is; eqv? on well-formed numbers iff same exactness and equal value). Tie: all ordered pairs of the operand grid and triples of a sub-grid under = < > <= >= max min eqv?, real interpreter vs model vs exact rationals."),
 "C06": dict(design="5/C06", technique="Lean 4 theorems (per-class lexing round trips, atmosphere skipping, layout invariance lex_render, boundaries_at_delimiters, totality) about RuschmModel/Lex.lean,Read.lean + exhaustive short-string and random tree/layout correspondence + boundary oracle",
   text="Proof: kernel-checked theorems about the executable model of lexer.rs and the reader half of parser.rs: every supported token class lexes back to itself before a delimiter (incl. parseI32 (show i) = i for all i32), any atmosphere is skipped, LAYOUT INVARIANCE lex_render for every token list and every valid layout, tokens end only at delimiters (with the documented '#'-after-boolean/character residue, a known finding pinned by the repository's tests), the lexer is total. Tie: every string of length <= 4 over 17 structural characters (lexer and reader, tokens with locations) and random datum trees under random layouts, real code vs model vs the tree rendered."),
 "C03": dict(design="5/C03", technique="Lean 4 theorems (set! locality/visibility, fresh frame per call, vector cells aliased by id, literal vectors immutable, store well-formedness invariant by induction over every evaluator step) about RuschmModel/Value.lean,Eval.lean,Prim.lean + random aliasing histories vs a Python reference store",
   text="Proof: 20 kernel-checked theorems about the executable store-passing model of environment.rs/values.rs/interpreter.rs: set! writes exactly the binding lexical scoping designates and is seen by exactly the frames that resolve to it; every call allocates a frame no existing value mentions; vector-set! changes one cell, aliases are the same cell id wherever they are stored, literal cells are immutable and never change; store well-formedness and monotone growth are invariants of all eight evaluator functions (induction on fuel). Tie: random operation histories (counters, closure pairs sharing a binding, vectors aliased through variables/arguments/list and vector elements/captured references) on the real interpreter, the model and an independent Python reference."),
 "C04": dict(design="5/C04", technique="Lean 4 theorems (first-match decision logic for all rule sets; matcher = declarative R7RS matcher and substitution = declarative instantiation on the supported class; no panic; termination) about RuschmModel/Macro.lean + random rule-set correspondence + independent Python R7RS matcher oracle",
   text="Proof: kernel-checked theorems about the executable model of macros.rs and the pattern/template builders: the result is the first matching rule's template or exactly a syntax error (all rule sets); for the supported class (proper list/vector patterns, final ellipsis, depth 1, distinct variables) the matcher equals the declarative one-or-more R7RS matcher and instantiation repeats ellipsis sub-templates once per matched item in order; the get_mut().unwrap() can never fail; matching and (after the repair) expansion terminate. Out-of-class limits (non-final ellipsis, zero-item ellipsis) are stated and refuted by closed witnesses. Tie: random rule sets and uses, real expander vs model vs an independent Python matcher."),
 "C05": dict(design="5/C05", technique="Lean 4 shape theorems about constants regenerated from grammar.sld on every run (one per bundled rule, all sub-forms and lengths) + C04 refinement + tick-trace correspondence + independent Python desugarer oracle",
   text="Proof: 28 shape theorems, one per rule of the bundled grammar, stated about RuschmGen/Grammar.lean (regenerated from /repo/src/parser/grammar.sld on every run, self-checked against the model's reader and the real parser): for all sub-forms and lengths the expansion is exactly the expected core datum, with the side conditions rule order forces; any edit of grammar.sld re-opens them. Meaning is tied by running programs with ticking sub-forms in every position of begin/let/let*/cond/case/and/or/when/unless on the real interpreter, the model, and against the same program desugared by an independent R7RS desugarer (values and evaluation traces equal). Hygiene limits (capture of x/temp/atom-key) are documented known limits excluded from the generator."),
 "C12": dict(design="5/C12", technique="Lean 4 theorems (evalImportSet = declarative denotation for every term, simultaneous rename, union, independence of export-list order for admissible declarations) about RuschmModel/Interp.lean + exhaustive depth<=2 term correspondence in 3 processes + Python algebra oracle",
   text="Proof: kernel-checked theorems about the executable model of eval_import/eval_import_set: every import-set term (any nesting) denotes S.transform applied to the library's exports, rename is simultaneous, only-after-rename uses the new names, several sets contribute the union, and for admissible declarations the resulting bindings do not depend on the export-list (HashMap) order; without admissibility the order matters (closed witness). Tie: every operator at depth 1, sampled/all pairs at depth 2 over a 4-export native library, each in 3 processes with different hash seeds, real interpreter vs model vs an independent Python implementation of the algebra."),
 "C01": dict(design="5/C01", technique="Lean 4 refinement theorem (trampolined evaluator refines a direct-style reference evaluator, both directions for values, by mutual induction on fuel with the pending-tail-call invariant) + lookup/operands/truthiness/body/spelling theorems about RuschmModel/Eval.lean,Xform.lean + random program correspondence with tick traces + spelling-equivalence oracle",
   text="Proof: kernel-checked theorems about the executable model of interpreter.rs: lookup returns the innermost binding on the frame chain; operands are evaluated once, left to right, before the call; only #f is false; internal definitions are evaluated in order in the call frame; rest binding, apply spreading and define-sugar vs lambda are equivalent spellings; MAIN: whatever the trampolined evaluator returns (value or error, and the store) a direct-style reference evaluator with one apply rule returns too, and conversely for values (model_refines_ref / ref_refines_model), for every expression, store and fuel. Tie: type-directed random programs with ticking sub-expressions on the real interpreter and the model (values, error kinds and locations, evaluation traces), each program also rendered in four equivalent spellings that must agree on the real interpreter."),
 "C13": dict(design="5/C13", technique="Lean 4 theorems (exports_exact, library frame is a fresh root, importer redefinition harmless via chain disjointness, single_instance through the instance cache, instances only grow) about RuschmModel/Interp.lean + random library-file scenarios vs a Python single-instance simulation",
   text="Proof: kernel-checked theorems about the executable model of eval_library_definition/get_library: a library yields exactly the external names of its export specs bound to the internal values; its frame is a fresh root on no other frame's chain (so it sees only its own imports and definitions and the importer never sees unexported names); define/set! in the importer leave every lookup from library frames unchanged; a successfully loaded library is cached and every later import returns the same values (closures over the same frame) without evaluating anything. Tie: random scenarios of stateful and wrapper library FILES plus an importing program, real interpreter vs model vs a Python simulation with one shared counter per library."),
 "C14": dict(design="5/C14", technique="Lean 4 theorems about an abstract loader with the control structure of the code (termination on every graph, in-progress set restored after any outcome, cache soundness, ok iff reachable-healthy-acyclic, cyclic iff DFS meets an in-progress node first, diamond, history independence) + bridge theorems about RuschmModel/Interp.lean + exhaustive small library graphs x histories as files and registered sources vs a Python DFS",
   text="Proof: kernel-checked theorems: the loader terminates on every dependency graph (fuel |g|+1 never runs out), restores the in-progress set after ANY outcome, caches only successful loads, succeeds iff every reachable node is healthy and no cycle is reachable, reports a cycle iff the depth-first traversal meets an in-progress node before any other fault (otherwise the first fault in DFS order), treats diamonds as non-cycles, and the outcome of an import is independent of any history of earlier attempts; the model's evalImportSet restores inProgress for every term/state/fuel and getLibrary consults files only at the program-relative path. Tie: all 1-2 node configurations x all histories of 3 attempts and sampled/all 3-node configurations x histories of 2, as files under a program directory that is not the cwd and as registered sources, real interpreter vs model vs a Python reference DFS."),
}

NOT_YET = "check not built yet (work in progress; DESIGN.md section 10 gives the order of work)"

def main():
    checks = []
    for p in props:
        pid = p["id"]
        if pid in CLAIMED:
            c = CLAIMED[pid]
            checks.append({
                "property_id": pid,
                "quick_cmd": "./check %s --tier quick" % pid,
                "thorough_cmd": "./check %s --tier thorough" % pid,
                "evidence_file": "evidence/%s.json" % pid,
                "replay_cmd_template": "./check %s --replay {path}" % pid,
                "engine": "lean4-proof+correspondence",
                "level_claimed": {"category": "proof", "text": c["text"], "design_ref": "DESIGN.md section " + c["design"]},
                "level_note": NOTE,
                "technique": c["technique"],
            })
    m = {"version": 1,
         "setup_cmd": "./setup.sh",
         "hooks": {"guard": "ruschm_verif",
                   "enable": "RUSTFLAGS='--cfg ruschm_verif' (set by ./check when it builds harness/ against /repo)",
                   "baseline_off_cmd": "cd /repo && cargo test --workspace --no-fail-fast --offline",
                   "source_commits": [x.strip() for x in open(os.path.join(ROOT, "hook_commits.txt"))] if os.path.exists(os.path.join(ROOT, "hook_commits.txt")) else [],
                   "add_only": True},
         "engines": [{"name": "lean4-proof+correspondence", "path": "check",
                      "serves_properties": sorted(CLAIMED),
                      "kind_free_text": "Lean 4 theorems about an executable model (lean/), differential correspondence against the real code (harness/, checks/)"}],
         "checks": checks,
         "notes": "See DESIGN.md. ./check Cnn rebuilds harness and Lean modules from /repo's working tree, audits axioms, runs the correspondence, writes evidence/Cnn.json.",
         "not_applicable": [{"property_id": p["id"], "reason": NOT_YET} for p in props if p["id"] not in CLAIMED]}
    json.dump(m, open(os.path.join(ROOT, "MANIFEST.json"), "w"), indent=1)

if __name__ == "__main__":
    main()

/-
Property C12 — import sets bind exactly the names the algebra yields.

"After an import declaration the importing environment gains exactly the bindings obtained by
applying only, except, prefix and rename - nested in any order and depth - to the export set of the
named library, each bound to the value the library exports under the original name; several import
sets in one declaration contribute the union. The outcome is the same on every run."

Only property theorems live here (each is audited with `#print axioms`); helper lemmas are in
`RuschmProofs/LibLemmas.lean`, vocabulary (`S.denote`, `S.asMap`, `S.Admissible`,
`Interp.exportsOf`) in `RuschmSpec/Lib.lean`.
-/
import RuschmProofs.LibLemmas

namespace Ruschm.C12
open Ruschm Ruschm.Interp

/-- a two-export native library used by the non-vacuity examples -/
def demoLib : LibName := [.ident "m"]
def demoState : State :=
  { factories := [(demoLib, .native [("a", .num (.int 1)), ("b", .num (.int 2))])] }

/-! ## 1. the evaluator computes the denotation -/

/-- For every import-set term, of any nesting, whose library is instantiated already or has a
native factory (so that no library body has to be evaluated): with `fuelNeeded s` fuel or more,
`evalImportSet` returns exactly the bindings `S.denote` assigns to the term over the export lists
`exportsOf st`, and changes nothing in the state but, possibly, the instance cache (not even that
when the library was cached). The export lists themselves are the same afterwards. -/
theorem importSet_eq_spec (s : ImportSet) (fuel : Nat) (st : State) (bs : S.Bindings)
    (hfuel : S.fuelNeeded s ≤ fuel) (hip : S.leaf s ∉ st.inProgress)
    (hd : S.denote s (exportsOf st) = some bs) :
    ∃ st', evalImportSet fuel st s = (.ok bs, st') ∧ SameButInstances st st' ∧
      (∀ n, exportsOf st' n = exportsOf st n) ∧
      (∀ n d, libLookup st.instances n = some d → libLookup st'.instances n = some d) ∧
      ((libLookup st.instances (S.leaf s)).isSome → st' = st) := by
  obtain ⟨st', h⟩ := importSet_spec s fuel st bs hfuel hip hd
  exact ⟨st', h.eval, h.same, h.exports, h.grow, h.cached⟩

example : ∃ st', evalImportSet 4 demoState (.prefix (.only (.direct demoLib none) ["b"]) "p:") =
    (.ok [("p:b", .num (.int 2))], st') := by
  obtain ⟨st', h, -⟩ := importSet_eq_spec (.prefix (.only (.direct demoLib none) ["b"]) "p:") 4 demoState
    [("p:b", .num (.int 2))] (by simp [S.fuelNeeded]) (by simp [demoState])
    (by simp [S.denote, exportsOf, demoState, demoLib, libLookup])
  exact ⟨st', h⟩

/-- The same for EVERY library and every state (the library may have to be read from a file and
its body evaluated, or fail to load): the evaluator's result for an import-set term is the result
of importing its library directly, with the term's operators `S.transform s` applied to the export
list — values untouched, so each name is bound to the value the library exports under the original
name — and errors and the final state passed through unchanged. `S.denote` is `S.transform`
applied to the library's export list. -/
theorem importSet_factors (s : ImportSet) (k : Nat) (st : State) (ex : LibName → Option S.Bindings) :
    (evalImportSet (k + S.depth s) st s =
      match evalImportSet k st (.direct (S.leaf s) (S.leafLoc s)) with
      | (.ok defs, st') => (.ok (S.transform s defs), st')
      | (.error e, st') => (.error e, st')) ∧
    S.denote s ex = (ex (S.leaf s)).map (S.transform s) :=
  ⟨Interp.importSet_factors s k st, denote_eq_transform s ex⟩

example : S.transform (.prefix (.except (.direct demoLib none) ["a"]) "x-")
    [("a", .num (.int 1)), ("b", .num (.int 2))] = [("x-b", .num (.int 2))] := by
  simp [S.transform]

/-! ## 2. rename is simultaneous; only sees the new names -/

/-- `(rename S (a b) (b a))` SWAPS the two names: every binding of `S` keeps its value, the one
named `a` is now named `b` and the one named `b` is now named `a` (a sequential reading would
send both to the same name). Stated for the spec and for the evaluator. -/
theorem rename_simultaneous (s : ImportSet) (a b : String) (fuel : Nat) (st : State) (bs : S.Bindings)
    (hfuel : S.fuelNeeded s + 1 ≤ fuel) (hip : S.leaf s ∉ st.inProgress)
    (hd : S.denote s (exportsOf st) = some bs) :
    S.denote (.rename s [(a, b), (b, a)]) (exportsOf st) =
        some (bs.map fun p => (S.swapName a b p.1, p.2)) ∧
    ∃ st', evalImportSet fuel st (.rename s [(a, b), (b, a)]) =
        (.ok (bs.map fun p => (S.swapName a b p.1, p.2)), st') := by
  have hd' : S.denote (.rename s [(a, b), (b, a)]) (exportsOf st) =
      some (bs.map fun p => (S.swapName a b p.1, p.2)) := by
    rw [S.denote_rename _ hd]; simp only [S.renameTarget_swap]
  refine ⟨hd', ?_⟩
  obtain ⟨st', h, -⟩ := importSet_eq_spec (.rename s [(a, b), (b, a)]) fuel st _
    (by simpa [S.fuelNeeded] using hfuel) hip hd'
  exact ⟨st', h⟩

example : ∃ st', evalImportSet 3 demoState (.rename (.direct demoLib none) [("a", "b"), ("b", "a")]) =
    (.ok [("b", .num (.int 1)), ("a", .num (.int 2))], st') := by
  obtain ⟨-, st', h⟩ := rename_simultaneous (.direct demoLib none) "a" "b" 3 demoState
    [("a", .num (.int 1)), ("b", .num (.int 2))] (by simp [S.fuelNeeded]) (by simp [demoState, S.leaf])
    (by simp [S.denote, exportsOf, demoState, demoLib, libLookup])
  exact ⟨st', by simpa [S.swapName] using h⟩

/-- `(only (rename S pairs) ids)` selects by the NEW names: a binding is in the result exactly
when it is a binding `(n₀, v)` of `S` whose renamed name `renameTarget pairs n₀` is listed in
`ids` — and it is bound under that new name. In particular the old name of a renamed binding
does not select it. -/
theorem only_after_rename_uses_new_names (s : ImportSet) (pairs : List (String × String))
    (ids : List String) (ex : LibName → Option S.Bindings) (bs : S.Bindings)
    (hd : S.denote s ex = some bs) :
    ∃ res, S.denote (.only (.rename s pairs) ids) ex = some res ∧
      (∀ n v, (n, v) ∈ res ↔ ∃ n₀, (n₀, v) ∈ bs ∧ S.renameTarget pairs n₀ = n ∧ n ∈ ids) ∧
      (∀ a b, pairs = [(a, b)] → a ≠ b →
        (∀ v, (a, v) ∉ res) ∧ (∀ v, (a, v) ∈ bs → b ∈ ids → (b, v) ∈ res)) := by
  refine ⟨_, S.denote_only ids (S.denote_rename pairs hd), ?_, ?_⟩
  · intro n v
    simp only [List.mem_filter, List.mem_map, List.contains_iff_mem, Prod.mk.injEq, Prod.exists]
    constructor
    · rintro ⟨⟨n₀, v₀, hm, rfl, rfl⟩, hn⟩; exact ⟨n₀, hm, rfl, hn⟩
    · rintro ⟨n₀, hm, rfl, hn⟩; exact ⟨⟨n₀, v, hm, rfl, rfl⟩, hn⟩
  · rintro a b rfl hab
    simp only [List.mem_filter, List.mem_map, List.contains_iff_mem, Prod.mk.injEq, Prod.exists,
      S.renameTarget_single]
    constructor
    · rintro v ⟨⟨n₀, v₀, hm, he, rfl⟩, -⟩
      by_cases h : n₀ = a
      · simp only [h, if_true] at he; exact hab he.symm
      · simp only [h, if_false] at he
    · intro v hav hb
      exact ⟨⟨a, v, hav, by simp, rfl⟩, hb⟩

example : S.denote (.only (.rename (.direct demoLib none) [("a", "c")]) ["a", "c"]) (exportsOf demoState) =
    some [("c", .num (.int 1))] := by
  simp [S.denote, exportsOf, demoState, demoLib, libLookup, S.renameTarget]

/-! ## 3. several sets: the union; independence of the order of the export lists -/

/-- Admissible unions never clash, and neither do unions in which any two bindings of one name
are equal (`importEq`): the hypothesis `¬ S.Clash` of `import_union` in its two usual forms. -/
theorem no_clash_of_compatible (eq : Value → Value → Bool) (bs : S.Bindings) :
    (S.Admissible bs → S.Compatible eq bs) ∧ (S.Compatible eq bs → ¬ S.Clash eq bs) :=
  ⟨Lib.compatible_of_admissible, Lib.not_clash_of_compatible⟩

example : S.Compatible (fun _ _ => false) [("a", .num (.int 1)), ("b", .num (.int 1))] :=
  (no_clash_of_compatible _ _).1 (by simp [S.Admissible])

/-- An import declaration with several sets (each over an instantiated or native library) whose
concatenated denotations do not clash — no binding differs (`importEq`: the derived `PartialEq` of
values) from the binding of the same name before it; in particular when the union is `Admissible`,
or when bindings of one name are equal — defines, in the target frame `ρ`, exactly the bindings of
the union map of the sets' denotations (for a name bound several times, the last binding) and
leaves every other name of that frame, every other frame, all parent links, the vectors and the
output untouched; of the rest of the state only the instance cache may grow. -/
theorem import_union (sets : List ImportSet) (fuel : Nat) (st : State) (ρ : Nat) (bs : S.Bindings)
    (hfuel : fuelNeededAll sets + 1 ≤ fuel) (hip : ∀ s ∈ sets, S.leaf s ∉ st.inProgress)
    (hd : S.denoteAll sets (exportsOf st) = some bs) (hok : ¬ S.Clash (importEq st) bs)
    (hρ : ρ < st.store.frames.size) :
    ∃ st', evalImport fuel st sets ρ = (.ok (), st') ∧
      (∀ x, st'.store.binding ρ x = S.override (S.asMap bs) (st.store.binding ρ) x) ∧
      (∀ i, i ≠ ρ → st'.store.frames[i]? = st.store.frames[i]?) ∧
      (∀ i : Nat, st'.store.frames[i]?.map Frame.parent = st.store.frames[i]?.map Frame.parent) ∧
      st'.store.frames.size = st.store.frames.size ∧ st'.store.vecs = st.store.vecs ∧
      st'.store.out = st.store.out ∧
      st' = { st with store := st'.store, instances := st'.instances } ∧
      (∀ n, exportsOf st' n = exportsOf st n) := by
  obtain ⟨fuel, rfl⟩ : ∃ k, fuel = k + 1 := ⟨fuel - 1, by omega⟩
  obtain ⟨st1, sp, hres⟩ := importSets_spec sets fuel st [] bs (by omega) hip hd
  have hnc : Lib.clashB (importEq st) (fun y => ([] : List (String × Value)).lookup y) bs = false := by
    have := mt (Lib.clash_iff (importEq st) bs).2 hok
    simpa using this
  have h1 : evalImportSets fuel st sets [] =
      (.ok (bs.foldl (fun a p => assocInsert a p.1 p.2) []), st1) := by
    rcases hres with ⟨hc, _⟩ | ⟨_, h⟩
    · rw [hnc] at hc; cases hc
    · exact h
  have hsame : st1 = { st with instances := st1.instances } := sp.same
  have hstore : st1.store = st.store := by rw [hsame]
  have hdef := Lib.foldl_define_spec ρ (bs.foldl (fun a p => assocInsert a p.1 p.2) []) st1.store
  refine ⟨_, by rw [evalImport, h1], ?_, ?_, ?_, ?_, ?_, ?_, ?_, ?_⟩
  · intro x
    simp only []
    rw [hdef.bindings (by rw [hstore]; exact hρ) x, hstore]
    simp only [S.override]
    rw [Lib.asMap_eq_lookup (Lib.foldl_assocInsert_nodup bs [] (by simp)), Lib.foldl_assocInsert_lookup]
    cases S.asMap bs x <;> rfl
  · intro i hi; simp only []; rw [hdef.other_frames i hi, hstore]
  · intro i; simp only []; rw [hdef.parent i, hstore]
  · simp only []; rw [hdef.size, hstore]
  · simp only []; rw [hdef.vecs, hstore]
  · simp only []; rw [hdef.out, hstore]
  · simp only []; rw [hsame]
  · exact sp.exports

/-- `a` is imported twice with the same value (no clash), `d` is `a` renamed -/
example : ∃ st', evalImport 7 { demoState with store := Store.root }
    [.direct demoLib none, .rename (.only (.direct demoLib none) ["a"]) [("a", "d")],
     .only (.direct demoLib none) ["a"]] 0 = (.ok (), st') ∧
    st'.store.binding 0 "d" = some (.num (.int 1)) := by
  obtain ⟨st', h, hb, -⟩ := import_union
    [.direct demoLib none, .rename (.only (.direct demoLib none) ["a"]) [("a", "d")],
     .only (.direct demoLib none) ["a"]] 7
    { demoState with store := Store.root } 0
    [("a", .num (.int 1)), ("b", .num (.int 2)), ("d", .num (.int 1)), ("a", .num (.int 1))]
    (by simp [fuelNeededAll, S.fuelNeeded]) (by simp [demoState])
    (by simp [S.denoteAll, S.denote, exportsOf, demoState, demoLib, libLookup, S.renameTarget])
    (by
      rw [Lib.clash_iff]
      simp [Lib.clashB, Lib.upd, importEq, Prim.derivedEq, Num.eq, Num.upcast])
    (by simp [Store.root])
  refine ⟨st', h, ?_⟩
  rw [hb]
  simp [S.override, S.asMap, List.lookup]

/-- One name imported with two different bindings is an error: if, in the concatenated denotations
of the sets, some binding differs (`importEq`) from the binding of the same name before it, then
`evalImport` fails with `.other` (`LogicError::Extension`), defines nothing, and changes nothing
but possibly the instance cache. -/
theorem import_conflict_is_error (sets : List ImportSet) (fuel : Nat) (st : State) (ρ : Nat)
    (bs : S.Bindings) (hfuel : fuelNeededAll sets + 1 ≤ fuel)
    (hip : ∀ s ∈ sets, S.leaf s ∉ st.inProgress)
    (hd : S.denoteAll sets (exportsOf st) = some bs) (hclash : S.Clash (importEq st) bs) :
    ∃ st', evalImport fuel st sets ρ = (.error (.other, none), st') ∧
      st' = { st with instances := st'.instances } ∧ (∀ n, exportsOf st' n = exportsOf st n) := by
  obtain ⟨fuel, rfl⟩ : ∃ k, fuel = k + 1 := ⟨fuel - 1, by omega⟩
  obtain ⟨st1, sp, hres⟩ := importSets_spec sets fuel st [] bs (by omega) hip hd
  have hc : Lib.clashB (importEq st) (fun y => ([] : List (String × Value)).lookup y) bs = true := by
    have := (Lib.clash_iff (importEq st) bs).1 hclash
    simpa using this
  have h1 : evalImportSets fuel st sets [] = (.error (.other, none), st1) := by
    rcases hres with ⟨_, h⟩ | ⟨hn, _⟩
    · exact h
    · rw [hc] at hn; cases hn
  exact ⟨st1, by rw [evalImport, h1], sp.same, sp.exports⟩

/-- `b` is 2 in the library and 1 as the renamed `a` -/
example : ∃ st', evalImport 7 { demoState with store := Store.root }
    [.direct demoLib none, .rename (.only (.direct demoLib none) ["a"]) [("a", "b")]] 0 =
      (.error (.other, none), st') := by
  obtain ⟨st', h, -⟩ := import_conflict_is_error
    [.direct demoLib none, .rename (.only (.direct demoLib none) ["a"]) [("a", "b")]] 7
    { demoState with store := Store.root } 0
    [("a", .num (.int 1)), ("b", .num (.int 2)), ("b", .num (.int 1))]
    (by simp [fuelNeededAll, S.fuelNeeded]) (by simp [demoState])
    (by simp [S.denoteAll, S.denote, exportsOf, demoState, demoLib, libLookup, S.renameTarget])
    (by
      rw [Lib.clash_iff]
      simp [Lib.clashB, Lib.upd, importEq, Prim.derivedEq, Num.eq, Num.upcast])
  exact ⟨st', h⟩

/-- "The same on every run": the iteration order of the `HashMap`s that hold a library's exports
enters only as the ORDER of its export list. Let two states have the same store and give every
library the same exports up to a permutation. If every set of the declaration is admissible (no
single set binds a name twice), the import has the SAME OUTCOME in both — success in both, or the
conflicting-bindings error `.other` in both — and afterwards every frame binds the same names to
the same values and every lookup from every frame agrees. -/
theorem import_deterministic (sets : List ImportSet) (fuel : Nat) (st₁ st₂ : State) (ρ : Nat)
    (bs : S.Bindings) (hfuel : fuelNeededAll sets + 1 ≤ fuel)
    (hip₁ : ∀ s ∈ sets, S.leaf s ∉ st₁.inProgress) (hip₂ : ∀ s ∈ sets, S.leaf s ∉ st₂.inProgress)
    (hstore : st₂.store = st₁.store) (hperm : S.PermExports (exportsOf st₁) (exportsOf st₂))
    (hd : S.denoteAll sets (exportsOf st₁) = some bs)
    (hadm : S.AdmissibleAll sets (exportsOf st₁)) (hρ : ρ < st₁.store.frames.size) :
    ∃ r st₁' st₂', evalImport fuel st₁ sets ρ = (r, st₁') ∧ evalImport fuel st₂ sets ρ = (r, st₂') ∧
      (r = .ok () ∨ r = .error (.other, none)) ∧
      (∀ i x, st₂'.store.binding i x = st₁'.store.binding i x) ∧
      (∀ ρ' x, st₂'.store.lookup ρ' x = st₁'.store.lookup ρ' x) := by
  have hp := denoteAll_perm_clash hperm (importEq st₁) sets hadm
  rw [hd] at hp
  have heq : importEq st₂ = importEq st₁ := by funext v w; simp only [importEq, hstore]
  cases hd₂ : S.denoteAll sets (exportsOf st₂) with
  | none => simp [hd₂] at hp
  | some bs₂ =>
    simp only [hd₂] at hp
    obtain ⟨hov, hcl⟩ := hp
    cases hc : Lib.clashB (importEq st₁) (fun _ => none) bs with
    | true =>
      have c₁ : S.Clash (importEq st₁) bs := (Lib.clash_iff _ _).2 hc
      have c₂ : S.Clash (importEq st₂) bs₂ := by
        rw [heq]; exact (Lib.clash_iff _ _).2 (by rw [← hcl]; exact hc)
      obtain ⟨st₁', e₁, s₁, -⟩ := import_conflict_is_error sets fuel st₁ ρ bs hfuel hip₁ hd c₁
      obtain ⟨st₂', e₂, s₂, -⟩ := import_conflict_is_error sets fuel st₂ ρ bs₂ hfuel hip₂ hd₂ c₂
      have hs : st₂'.store = st₁'.store := by rw [s₁, s₂]; exact hstore
      exact ⟨_, st₁', st₂', e₁, e₂, .inr rfl, fun i x => by rw [hs], fun ρ' x => by rw [hs]⟩
    | false =>
      have c₁ : ¬ S.Clash (importEq st₁) bs := fun h => by
        rw [(Lib.clash_iff _ _).1 h] at hc; cases hc
      have c₂ : ¬ S.Clash (importEq st₂) bs₂ := fun h => by
        rw [heq] at h
        have := (Lib.clash_iff _ _).1 h
        rw [← hcl, hc] at this; cases this
      obtain ⟨st₁', e₁, b₁, o₁, p₁, -⟩ := import_union sets fuel st₁ ρ bs hfuel hip₁ hd c₁ hρ
      obtain ⟨st₂', e₂, b₂, o₂, p₂, -⟩ := import_union sets fuel st₂ ρ bs₂ hfuel hip₂ hd₂ c₂
        (by rw [hstore]; exact hρ)
      have hbind : ∀ i x, st₂'.store.binding i x = st₁'.store.binding i x := by
        intro i x
        by_cases hi : i = ρ
        · subst hi
          rw [b₁ x, b₂ x, hstore, hov]
        · simp only [Store.binding, o₁ i hi, o₂ i hi, hstore]
      refine ⟨_, st₁', st₂', e₁, e₂, .inl rfl, hbind, fun ρ' x => ?_⟩
      apply Lib.lookup_congr_chain
      · apply Store.chain_congr
        intro i
        rw [p₂ i, p₁ i, hstore]
      · intro i _; exact hbind i x

/-- the same library with its exports listed in the other order -/
def demoState' : State :=
  { factories := [(demoLib, .native [("b", .num (.int 2)), ("a", .num (.int 1))])] }

example : ∃ r st₁' st₂',
    evalImport 5 { demoState with store := Store.root } [.prefix (.direct demoLib none) "m."] 0 = (r, st₁') ∧
    evalImport 5 { demoState' with store := Store.root } [.prefix (.direct demoLib none) "m."] 0 = (r, st₂') ∧
    ∀ ρ' x, st₂'.store.lookup ρ' x = st₁'.store.lookup ρ' x := by
  have demo_perm : S.PermExports (exportsOf { demoState with store := Store.root })
      (exportsOf { demoState' with store := Store.root }) := by
    intro n
    by_cases h : demoLib = n
    · subst h
      simp only [exportsOf, demoState, demoState', libLookup, if_true, S.PermOpt]
      exact List.Perm.swap _ _ _
    · simp [exportsOf, demoState, demoState', libLookup, h, S.PermOpt]
  obtain ⟨r, a, b, h1, h2, -, -, h3⟩ := import_deterministic [.prefix (.direct demoLib none) "m."] 5
    { demoState with store := Store.root } { demoState' with store := Store.root } 0
    [("m.a", .num (.int 1)), ("m.b", .num (.int 2))]
    (by simp [fuelNeededAll, S.fuelNeeded]) (by simp [demoState]) (by simp [demoState']) rfl demo_perm
    (by simp [S.denoteAll, S.denote, exportsOf, demoState, demoLib, libLookup])
    (by
      intro s hs bs hbs
      simp only [List.mem_singleton] at hs
      subst hs
      simp [S.denote, exportsOf, demoState, demoLib, libLookup] at hbs
      subst hbs
      simp [S.Admissible])
    (by simp [Store.root])
  exact ⟨r, a, b, h1, h2, h3⟩

/-- Without admissibility of the single sets, the order of the export lists still cannot turn an
error into a success or the other way round, PROVIDED the comparison `importEq` is symmetric and
transitive on the values that are imported (it is not in general: see
`order_still_matters_for_equal_values`): then both runs fail with `.other`, or both succeed and
bind every name of frame `ρ` to the same value or to two values that `importEq` identifies. -/
theorem import_order_independent (sets : List ImportSet) (fuel : Nat) (st₁ st₂ : State) (ρ : Nat)
    (bs : S.Bindings) (hfuel : fuelNeededAll sets + 1 ≤ fuel)
    (hip₁ : ∀ s ∈ sets, S.leaf s ∉ st₁.inProgress) (hip₂ : ∀ s ∈ sets, S.leaf s ∉ st₂.inProgress)
    (hstore : st₂.store = st₁.store) (hperm : S.PermExports (exportsOf st₁) (exportsOf st₂))
    (hd : S.denoteAll sets (exportsOf st₁) = some bs) (hρ : ρ < st₁.store.frames.size)
    (hsymm : ∀ p ∈ bs, ∀ q ∈ bs, importEq st₁ p.2 q.2 = true → importEq st₁ q.2 p.2 = true)
    (htrans : ∀ p ∈ bs, ∀ q ∈ bs, ∀ r ∈ bs, importEq st₁ p.2 q.2 = true → importEq st₁ q.2 r.2 = true →
      importEq st₁ p.2 r.2 = true) :
    ∃ st₁' st₂',
      (evalImport fuel st₁ sets ρ = (.error (.other, none), st₁') ∧
        evalImport fuel st₂ sets ρ = (.error (.other, none), st₂')) ∨
      (evalImport fuel st₁ sets ρ = (.ok (), st₁') ∧ evalImport fuel st₂ sets ρ = (.ok (), st₂') ∧
        ∀ x, st₁'.store.binding ρ x = st₂'.store.binding ρ x ∨
          ∃ v w, st₁'.store.binding ρ x = some v ∧ st₂'.store.binding ρ x = some w ∧
            importEq st₁ v w = true) := by
  have heq : importEq st₂ = importEq st₁ := by funext v w; simp only [importEq, hstore]
  have hflat := denoteAll_permFlat hperm sets
  rw [hd] at hflat
  cases hd₂ : S.denoteAll sets (exportsOf st₂) with
  | none => simp [hd₂, S.PermOpt] at hflat
  | some bs₂ =>
    simp only [hd₂, S.PermOpt] at hflat
    -- transitivity, for both lists, in the form the lemma wants
    let P : Value → Prop := fun v => ∃ p ∈ bs, p.2 = v
    have hT : ∀ u v w, P u → P v → P w → importEq st₁ u v = true → importEq st₁ v w = true →
        importEq st₁ u w = true := by
      rintro u v w ⟨p, hp, rfl⟩ ⟨q, hq, rfl⟩ ⟨r, hr, rfl⟩
      exact htrans p hp q hq r hr
    have hcompat : ∀ l : S.Bindings, l.Perm bs → ¬ S.Clash (importEq st₁) l → S.Compatible (importEq st₁) l := by
      intro l hl hnc
      have hc : Lib.clashB (importEq st₁) (fun _ => none) l = false := by
        cases h : Lib.clashB (importEq st₁) (fun _ => none) l with
        | false => rfl
        | true => exact absurd ((Lib.clash_iff _ _).2 h) hnc
      exact (Lib.compatible_of_not_clashB hT l (fun _ => none)
        (fun p hp => ⟨p, hl.mem_iff.1 hp, rfl⟩) (fun _ _ h => by cases h) hc).2
    have hsymm₂ : ∀ p ∈ bs₂, ∀ q ∈ bs₂, importEq st₁ p.2 q.2 = true → importEq st₁ q.2 p.2 = true :=
      fun p hp q hq => hsymm p (hflat.mem_iff.2 hp) q (hflat.mem_iff.2 hq)
    by_cases c₁ : S.Clash (importEq st₁) bs
    · have c₂ : S.Clash (importEq st₂) bs₂ := by
        rw [heq]
        refine Classical.byContradiction fun hn => ?_
        have := Lib.compatible_perm hflat.symm hsymm₂ (hcompat bs₂ hflat.symm hn)
        exact Lib.not_clash_of_compatible this c₁
      obtain ⟨st₁', e₁, -⟩ := import_conflict_is_error sets fuel st₁ ρ bs hfuel hip₁ hd c₁
      obtain ⟨st₂', e₂, -⟩ := import_conflict_is_error sets fuel st₂ ρ bs₂ hfuel hip₂ hd₂ c₂
      exact ⟨st₁', st₂', .inl ⟨e₁, e₂⟩⟩
    · have hc₁ := hcompat bs (List.Perm.refl _) c₁
      have hc₂ := Lib.compatible_perm hflat hsymm hc₁
      have c₂ : ¬ S.Clash (importEq st₂) bs₂ := by rw [heq]; exact Lib.not_clash_of_compatible hc₂
      obtain ⟨st₁', e₁, b₁, -⟩ := import_union sets fuel st₁ ρ bs hfuel hip₁ hd c₁ hρ
      obtain ⟨st₂', e₂, b₂, -⟩ := import_union sets fuel st₂ ρ bs₂ hfuel hip₂ hd₂ c₂
        (by rw [hstore]; exact hρ)
      refine ⟨st₁', st₂', .inr ⟨e₁, e₂, fun x => ?_⟩⟩
      rw [b₁ x, b₂ x, hstore]
      simp only [S.override]
      rcases Lib.asMap_perm_compatible hflat hsymm hc₁ x with h | ⟨v, w, hv, hw, he⟩
      · left; rw [h]
      · right; exact ⟨v, w, by rw [hv], by rw [hw], he⟩

/-- The witness of the former finding is now rejected whatever the order of the export list:
`(rename (m) (a c) (b c))` over a library exporting `a = 1`, `b = 2` is the error `.other` for the
export order `a, b` and for the order `b, a`. -/
theorem conflict_rejected_whatever_the_order :
    (∃ st', evalImport 5 { demoState with store := Store.root }
      [.rename (.direct demoLib none) [("a", "c"), ("b", "c")]] 0 = (.error (.other, none), st')) ∧
    (∃ st', evalImport 5 { demoState' with store := Store.root }
      [.rename (.direct demoLib none) [("a", "c"), ("b", "c")]] 0 = (.error (.other, none), st')) := by
  constructor
  · obtain ⟨st', h, -⟩ := import_conflict_is_error
      [.rename (.direct demoLib none) [("a", "c"), ("b", "c")]] 5
      { demoState with store := Store.root } 0 [("c", .num (.int 1)), ("c", .num (.int 2))]
      (by simp [fuelNeededAll, S.fuelNeeded]) (by simp [demoState])
      (by simp [S.denoteAll, S.denote, exportsOf, demoState, demoLib, libLookup, S.renameTarget, List.lookup])
      (by rw [Lib.clash_iff]; simp [Lib.clashB, Lib.upd, importEq, Prim.derivedEq, Num.eq, Num.upcast])
    exact ⟨st', h⟩
  · obtain ⟨st', h, -⟩ := import_conflict_is_error
      [.rename (.direct demoLib none) [("a", "c"), ("b", "c")]] 5
      { demoState' with store := Store.root } 0 [("c", .num (.int 2)), ("c", .num (.int 1))]
      (by simp [fuelNeededAll, S.fuelNeeded]) (by simp [demoState'])
      (by simp [S.denoteAll, S.denote, exportsOf, demoState', demoLib, libLookup, S.renameTarget, List.lookup])
      (by rw [Lib.clash_iff]; simp [Lib.clashB, Lib.upd, importEq, Prim.derivedEq, Num.eq, Num.upcast])
    exact ⟨st', h⟩

/-- a procedure `(lambda () 1)` -/
def demoLam : Lambda := .mk ⟨[], none⟩ [] [.prim (.int 1) none]

/-- RESIDUAL FINDING. The comparison is the derived `PartialEq` of values, which is not identity:
it ignores the environment of a procedure (and the exactness of a number). Two closures with the
same text over DIFFERENT frames are therefore "the same binding": `(rename (m) (a c) (b c))` over
a library exporting two such closures is accepted, and which of the two `c` is bound to still
depends on the order of the export list (in the Rust code, on `HashMap` iteration order). -/
theorem order_still_matters_for_equal_values (st : State) :
    ∃ (s : ImportSet) (ex ex' : LibName → Option S.Bindings) (a b : S.Bindings),
      S.PermExports ex ex' ∧ S.denote s ex = some a ∧ S.denote s ex' = some b ∧
      ¬ S.Clash (importEq st) a ∧ ¬ S.Clash (importEq st) b ∧ S.asMap a "c" ≠ S.asMap b "c" := by
  refine ⟨.rename (.direct demoLib none) [("a", "c"), ("b", "c")],
    fun _ => some [("a", .closure demoLam 1), ("b", .closure demoLam 2)],
    fun _ => some [("b", .closure demoLam 2), ("a", .closure demoLam 1)],
    [("c", .closure demoLam 1), ("c", .closure demoLam 2)],
    [("c", .closure demoLam 2), ("c", .closure demoLam 1)],
    fun _ => List.Perm.swap _ _ _, ?_, ?_, ?_, ?_, ?_⟩
  · simp [S.denote, S.renameTarget, List.lookup]
  · simp [S.denote, S.renameTarget, List.lookup]
  · rw [Lib.clash_iff]
    simp [Lib.clashB, Lib.upd, importEq, Prim.derivedEq, Prim.valueEq, demoLam, Lambda.beq,
      Expr.beqList, Expr.beq, Def.beqList]
  · rw [Lib.clash_iff]
    simp [Lib.clashB, Lib.upd, importEq, Prim.derivedEq, Prim.valueEq, demoLam, Lambda.beq,
      Expr.beqList, Expr.beq, Def.beqList]
  · simp [S.asMap]

end Ruschm.C12

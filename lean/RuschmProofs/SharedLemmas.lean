/-
Lemmas about the model that more than one otherwise independent chain of helper files needs (the
`EvalLemmas.lean` chain and the `Safe*.lean` chain).  Kept here, below both, so that files of both chains
can be imported together.
-/
import RuschmModel.Xform

namespace Ruschm.Xform

/-- reading a formals list does not touch the syntax environment -/
theorem toFormals_env (d : Datum) (s : SynEnv) : (toFormals d s).2 = s := by
  unfold toFormals
  split
  · simp only
    generalize List.find? _ _ = x
    cases x <;> rfl
  · simp only
    generalize List.find? _ _ = x
    cases x <;> rfl
  · rfl
  · rfl

end Ruschm.Xform

"""Helpers for the checks that drive the real `ruschm` binary (C17, C18)."""
import os, re, subprocess
from . import common as C

ANSI = re.compile(r"\x1b\[[0-9;]*m")
BANNER = re.compile(r"^Ruschm Version [^\n]*\n")
FAREWELL = "exited. have a nice day.\n"

# classification of the error MESSAGE text the front ends print (ErrorData / LogicError Display)
MSG_KINDS = [
    (r"^syntax error:", "syntax"), (r"^unbound symbol", "unbound"), (r"is not Procedure$", "nonProcedure"),
    (r" is not [A-Z][A-Za-z]*$", "type"), (r"^division by exact zero", "divZero"),
    (r"cannot be converted to an exact number", "inexactConversion"), (r"^expect a proper list", "improperList"),
    (r"^expect a non-negative length", "negativeLength"), (r"^vector index out of bound", "vectorIndex"),
    (r"^expect parameters", "arity"), (r"^requires .* to be mutable", "immutable"), (r"^library .* not found", "libNotFound"),
    (r"^detect import cyclic", "cyclic"), (r"^io error:", "io"), (r"^unexpect statement", "unexpectedExpr"),
]


def msg_kind(msg):
    msg = msg.strip()
    for pat, k in MSG_KINDS:
        if re.search(pat, msg, re.S):
            return k
    return "other:" + msg[:40]


def binary():
    return C.build_repo_binary()


def run_cli(binp, workdir, path):
    p = subprocess.run([binp, path], cwd=workdir, stdout=subprocess.PIPE, stderr=subprocess.PIPE, stdin=subprocess.DEVNULL, timeout=60)
    return p.returncode, p.stdout.decode("utf-8", "replace"), ANSI.sub("", p.stderr.decode("utf-8", "replace"))


def run_repl(binp, workdir, text):
    p = subprocess.run([binp], cwd=workdir, input=text.encode(), stdout=subprocess.PIPE, stderr=subprocess.PIPE, timeout=60)
    out = p.stdout.decode("utf-8", "replace")
    out = BANNER.sub("", out, 1)
    if out.endswith(FAREWELL):
        out = out[:-len(FAREWELL)]
    return p.returncode, out, p.stderr.decode("utf-8", "replace")

/-
Property C18 (bracket part) — "Text entered at the REPL is evaluated as soon as the lines entered
so far close every list they opened, and not before".

The theorem relating `Bracket.closed` (the REPL's counter) to the token stream of the model lexer
is added in the next commit; helper lemmas live in `RuschmProofs/BracketLemmas.lean`.
-/
import RuschmProofs.LexLemmas

namespace Ruschm.C18
end Ruschm.C18

/-
Helper lemmas for `C04More.lean`: the wider template class `SupportedRule'`, the R7RS
instantiation, and the reading of `syntax-rules` forms (`toRules`, `toRule`, `toPat`, `toTmpl`).
-/
import RuschmSpec.MacroMore
import RuschmProofs.MacroFuel

namespace Ruschm.Macro
open Ruschm

/-! ## The wider class -/

theorem Tmpl.ellOk_ellOk' {pv groups u} (h : Tmpl.ellOk pv groups u = true) :
    Tmpl.ellOk' pv groups u = true := by
  simp only [Tmpl.ellOk, Tmpl.ellOk', Bool.and_eq_true, List.any_eq_true, List.all_eq_true] at h ⊢
  obtain ⟨h12, g, hg, hall⟩ := h
  exact ⟨h12, fun v hv => ⟨g, hg, hall v hv⟩⟩

theorem Tmpl.ok_ok' (pv : List String) (groups : List (List String)) :
    (∀ t, Tmpl.ok pv groups t = true → Tmpl.ok' pv groups t = true) ∧
    (∀ es, Tmpl.okElems pv groups es = true → Tmpl.okElems' pv groups es = true) := by
  apply Tmpl.ind
  · intro es ih h; simp only [Tmpl.ok] at h; simpa [Tmpl.ok'] using ih h
  · intro es ih h; simp only [Tmpl.ok] at h; simpa [Tmpl.ok'] using ih h
  · intro s h; simpa [Tmpl.ok, Tmpl.ok'] using h
  · intro p _; rfl
  · intro _; rfl
  · intro t b rest iht ihr h
    cases b with
    | false =>
      simp only [Tmpl.okElems, Bool.and_eq_true] at h
      simp [Tmpl.okElems', iht h.1, ihr h.2]
    | true =>
      simp only [Tmpl.okElems, Bool.and_eq_true] at h
      simp [Tmpl.okElems', Tmpl.ellOk_ellOk' h.1, ihr h.2]

theorem Tmpl.ok'_wf (pv : List String) (groups : List (List String)) :
    (∀ t, Tmpl.ok' pv groups t = true → t.wf pv = true) ∧
    (∀ es, Tmpl.okElems' pv groups es = true → Tmpl.wfElems pv es = true) := by
  apply Tmpl.ind
  · intro es ih h; simp only [Tmpl.ok'] at h; simpa [Tmpl.wf] using ih h
  · intro es ih h; simp only [Tmpl.ok'] at h; simpa [Tmpl.wf] using ih h
  · intro s _; rfl
  · intro p _; rfl
  · intro _; rfl
  · intro t b rest iht ihr h
    cases b with
    | false =>
      simp only [Tmpl.okElems', Bool.and_eq_true] at h
      simp [Tmpl.wfElems, iht h.1, ihr h.2]
    | true =>
      simp only [Tmpl.okElems', Tmpl.ellOk', Bool.and_eq_true] at h
      obtain ⟨⟨⟨h1, h2⟩, -⟩, h4⟩ := h
      simp only [Tmpl.wfElems, h1, ihr h4, Bool.and_true, Bool.true_and]
      simp only [Tmpl.boundVars, Bool.not_eq_true', List.isEmpty_eq_false_iff_exists_mem] at h2
      obtain ⟨v, hv⟩ := h2
      simp only [List.mem_filter] at hv
      simp only [List.any_eq_true]
      exact ⟨v, hv.1, hv.2⟩

/-! ## Match, then fill — for any template that is well-formed for the pattern's variables -/

theorem subst_of_match_wf {lits p t d β fuel loc} (hwf : t.wf (p.vars lits) = true)
    (hm : specMatch lits p d = some β) (hfu : d.size ≤ fuel) :
    subst fuel t β.toSubst loc = some (specInst t β loc) := by
  have hk : Subst.keys β.toSubst = p.vars lits := by
    rw [Bindings.keys_toSubst, specMatch_keys hm]
  have hne := specMatch_nonEmpty hm
  have hlen := specMatch_len hm
  have := (subst_spec β.toSubst loc fuel (by
    intro e he
    simp only [Bindings.toSubst, List.mem_map] at he
    obtain ⟨e0, he0, rfl⟩ := he
    have h1 := hlen e0 he0
    have h2 := hne e0 he0
    simp only [List.length_tail]
    have : 0 < e0.2.length := List.length_pos_iff.2 h2
    omega)).1 t (hk ▸ hwf)
  rw [this, Bindings.toBindings_toSubst hne, specInst]

theorem fill_of_match_wf {lits p t d β fuel loc} (hwf : t.wf (p.vars lits) = true)
    (hm : specMatch lits p d = some β) (hfu : d.size ≤ fuel) :
    fill fuel t β.toSubst loc = .ok (specInst t β loc) := by
  have hk : Subst.keys β.toSubst = p.vars lits := by
    rw [Bindings.keys_toSubst, specMatch_keys hm]
  have := (ellipsisOk_of_wf β.toSubst).1 t (hk ▸ hwf)
  simp [fill, this, subst_of_match_wf hwf hm hfu]

theorem transformRules_eq_spec_wf {lits fuel use} (hf : matchFuel use ≤ fuel) :
    ∀ rules : List (Pat × Tmpl),
      (∀ r ∈ rules, Supported lits r.1 = true ∧ r.2.wf (r.1.vars lits) = true) →
      transformRules fuel lits rules use = specTransform lits rules use := by
  intro rules
  induction rules with
  | nil => intro _; rfl
  | cons r rules ih =>
    intro hs
    obtain ⟨p, t⟩ := r
    obtain ⟨hsp, hwf⟩ := hs (p, t) (by simp)
    have hok : Pat.ok lits p = true := by
      simp only [Supported, Bool.and_eq_true] at hsp; exact hsp.1
    unfold matchFuel at hf
    have := matchDatum_eq_spec_of_no_fuel (n := fuel) (d := use) hsp
      (matchDatum_fuel_supported hok (by omega))
    rw [transformRules_cons]
    simp only [specTransform]
    cases hm : specMatch lits p use with
    | some β =>
      simp only [hm] at this
      rw [this]
      simp only [fill_of_match_wf hwf hm (show use.size ≤ fuel by omega)]
    | none =>
      simp only [hm] at this
      obtain ⟨σ', h'⟩ := this
      rw [h']
      exact ih (fun r hr => hs r (by simp [hr]))

/-! ## Shortest run; equal runs -/

theorem minLen_mem {ls : List Nat} (hne : ls ≠ []) : minLen ls ∈ ls := by
  induction ls with
  | nil => exact absurd rfl hne
  | cons x xs ih =>
    cases xs with
    | nil => simp [minLen]
    | cons y ys =>
      have := ih (by simp)
      simp only [minLen] at this ⊢
      by_cases h : x ≤ minLen (y :: ys)
      · simp [Nat.min_eq_left h]
      · rw [Nat.min_eq_right (by omega)]; exact List.mem_cons_of_mem _ this

theorem minLen_eq_head {ls : List Nat} (h : ls.all (fun l => l == ls.headD 0) = true) :
    minLen ls = ls.headD 0 := by
  cases ls with
  | nil => rfl
  | cons x xs =>
    apply minLen_const (by simp)
    intro l hl
    simp only [List.all_eq_true, beq_iff_eq] at h
    simpa using h l hl

theorem specInst_eq_r7_aux (β : Bindings) (loc : Loc) :
    (∀ t, EqualRuns β t = true → ∀ i, specInstAt β loc i t = specInstR7At β loc i t) ∧
    (∀ es, EqualRunsElems β es = true → ∀ i, specElemsAt β loc i es = specElemsR7At β loc i es) := by
  apply Tmpl.ind
  · intro es ih h i; simp only [EqualRuns] at h; simp [specInstAt, specInstR7At, ih h i]
  · intro es ih h i; simp only [EqualRuns] at h; simp [specInstAt, specInstR7At, ih h i]
  · intro v _ i; rfl
  · intro p _ i; rfl
  · intro _ i; rfl
  · intro t b rest iht ihr h i
    cases b with
    | false =>
      simp only [EqualRunsElems, Bool.and_eq_true] at h
      simp [specElemsAt, specElemsR7At, iht h.1 i, ihr h.2 i]
    | true =>
      simp only [EqualRunsElems, Bool.and_eq_true] at h
      obtain ⟨⟨h1, h2⟩, h3⟩ := h
      have hc : copies β t = copiesR7 β t := minLen_eq_head h1
      simp only [specElemsAt, specElemsR7At, hc, ihr h3 i]
      congr 1
      apply List.map_congr_left
      intro j _
      exact iht h2 j

theorem specInst_eq_r7 {β t loc} (h : EqualRuns β t = true) :
    specInst t β loc = specInstR7 t β loc :=
  (specInst_eq_r7_aux β loc).1 t h 0

/-! ## `toPat` -/

theorem toPat_sym (s : String) (l : Loc) :
    toPat (.sym s l) = if s = "_" then .underscore else if s = "..." then .ellipsis else .ident s := by
  rw [toPat]

theorem toPats_eq_map (xs : List Datum) : toPats xs = xs.map toPat := by
  induction xs with
  | nil => rfl
  | cons x xs ih => simp [toPats, ih]

theorem toPat_isList {d : Datum} {es : List Datum} (h : IsList d es) :
    toPat d = Pat.ofList (es.map toPat) := by
  induction es generalizing d with
  | nil =>
    cases d with
    | nil l => rfl
    | pair a d' l => cases hd : d'.spine; simp [IsList, Datum.spine, hd] at h
    | prim _ _ => simp [IsList, Datum.spine] at h
    | sym _ _ => simp [IsList, Datum.spine] at h
    | vec _ _ => simp [IsList, Datum.spine] at h
  | cons e es ih =>
    cases d with
    | pair a d' l =>
      cases hd : d'.spine with
      | mk xs t =>
        simp only [IsList, Datum.spine, hd, Prod.mk.injEq, List.cons.injEq] at h
        obtain ⟨⟨rfl, rfl⟩, rfl⟩ := h
        simp [toPat, Pat.ofList, ih (d := d') hd]
    | nil _ => simp [IsList, Datum.spine] at h
    | prim _ _ => simp [IsList, Datum.spine] at h
    | sym _ _ => simp [IsList, Datum.spine] at h
    | vec _ _ => simp [IsList, Datum.spine] at h

/-! ## `toTmpl` -/

theorem elems_pair (a d : Datum) (l : Loc) : (Datum.pair a d l).elems = a :: d.elems := by
  simp only [Datum.elems, Datum.spine]
  cases hd : d.spine with
  | mk xs t => cases t <;> simp

theorem elems_atom {d : Datum} (h : d.isListy = false) : d.elems = [d] := by
  cases d <;> simp_all [Datum.isListy, Datum.elems, Datum.spine]

theorem isEllSym_iff {x : Datum} : isEllSym x = true ↔ ∃ l, x = .sym "..." l := by
  cases x <;> simp [isEllSym]

theorem not_ell_of {x : Datum} (hx : isEllSym x = false) : ∀ l, x ≠ .sym "..." l := by
  intro l h; subst h; simp [isEllSym] at hx

/-- one step of `collect_template_elements` on an element that is not `...` -/
theorem collectElems_cons_ne {x : Datum} {rest last} (hx : isEllSym x = false) :
    collectElems (x :: rest) last =
      (toTmpl x).bind fun t => (collectElems rest (some t)).bind fun r =>
        .ok (match last with | some p => (p, false) :: r | none => r) := by
  rw [collectElems]
  · rfl
  · intro l h; exact not_ell_of hx l h

theorem collectSpine_pair_ne {a d : Datum} {l last} (ha : isEllSym a = false) :
    collectSpine (.pair a d l) last =
      (toTmpl a).bind fun t => (collectSpine d (some t)).bind fun r =>
        .ok (match last with | some p => (p, false) :: r | none => r) := by
  rw [collectSpine]
  · rfl
  · intro l h; exact not_ell_of ha l h

theorem toTmpl_pair_ne {a d : Datum} {l} (ha : isEllSym a = false) :
    toTmpl (.pair a d l) =
      (toTmpl a).bind fun t => (collectSpine d (some t)).bind fun es => .ok (.list es) := by
  rw [toTmpl]
  · rfl
  · intro l h; exact not_ell_of ha l h


/-- `collect_template_elements` without its accumulator: `tmplElems` -/
theorem collectElems_spec :
    ∀ xs, collectElems xs none = tmplElems xs ∧
      ∀ p, collectElems xs (some p) =
        match xs with
        | e :: rest' =>
          if isEllSym e then (tmplElems rest').map ((p, true) :: ·)
          else (tmplElems xs).map ((p, false) :: ·)
        | [] => .ok [(p, false)] := by
  intro xs
  induction xs with
  | nil => exact ⟨rfl, fun p => rfl⟩
  | cons x rest ih =>
    obtain ⟨ih1, ih2⟩ := ih
    cases hx : isEllSym x
    · have tm : tmplElems (x :: rest) = (toTmpl x).bind fun t => collectElems rest (some t) := by
        rw [tmplElems]
        simp only [hx, Bool.false_eq_true, if_false]
        cases toTmpl x with
        | error e => rfl
        | ok t =>
          simp only [Except.bind, ih2 t]
          cases rest <;> rfl
      constructor
      · rw [collectElems_cons_ne hx, tm]
        cases toTmpl x with
        | error e => rfl
        | ok t => simp only [Except.bind]; cases collectElems rest (some t) <;> rfl
      · intro p
        simp only [hx, Bool.false_eq_true, if_false]
        rw [collectElems_cons_ne hx, tm]
        cases toTmpl x with
        | error e => rfl
        | ok t => simp only [Except.bind]; cases collectElems rest (some t) <;> rfl
    · obtain ⟨l, rfl⟩ := isEllSym_iff.1 hx
      constructor
      · rw [tmplElems]; simp [collectElems, isEllSym, Datum.loc]
      · intro p
        simp only [collectElems, ih1, bind, Except.bind, pure, Except.pure]
        cases tmplElems rest <;> rfl

theorem toTmpl_vec (xs : List Datum) (l : Loc) :
    toTmpl (.vec xs l) = (tmplElems xs).map Tmpl.vec := by
  rw [toTmpl, (collectElems_spec xs).1]
  cases tmplElems xs <;> rfl

/-- along the spine of a list (a dotted tail counts as a last element) `collect_template_elements`
sees exactly the elements -/
theorem collectSpine_eq (d : Datum) : ∀ last, collectSpine d last = collectElems d.elems last := by
  fun_induction Datum.spine d with
  | case1 a d l xs t hs ih =>
    intro last
    rw [elems_pair]
    cases ha : isEllSym a
    · rw [collectSpine_pair_ne ha, collectElems_cons_ne ha]
      simp only [ih]
    · obtain ⟨l', rfl⟩ := isEllSym_iff.1 ha
      cases last <;> simp [collectSpine, collectElems, ih]
  | case2 l => intro last; cases last <;> rfl
  | case3 d h1 h2 =>
    intro last
    have hl : d.isListy = false := by cases d <;> simp_all [Datum.isListy]
    rw [elems_atom hl]
    cases hd : isEllSym d
    · rw [collectElems_cons_ne hd]
      cases d with
      | sym s l =>
        have hs : s ≠ "..." := fun h => by subst h; simp [isEllSym] at hd
        cases last <;> simp [collectSpine, hs, toTmpl, collectElems, Except.bind]
      | prim q l => cases last <;> simp [collectSpine, toTmpl, collectElems, Except.bind]
      | vec xs l =>
        simp only [collectSpine, toTmpl, collectElems, bind, Except.bind, pure, Except.pure]
        cases collectElems xs none <;> cases last <;> rfl
      | pair _ _ _ => exact absurd rfl (h1 _ _ _)
      | nil _ => exact absurd rfl (h2 _)
    · obtain ⟨l', rfl⟩ := isEllSym_iff.1 hd
      cases last <;> simp [collectSpine, collectElems] <;> rfl

/-- a list template: its elements (a dotted tail flattened in), read left to right -/
theorem toTmpl_pair (a d : Datum) (l : Loc) :
    toTmpl (.pair a d l) = (tmplElems (Datum.pair a d l).elems).map Tmpl.list := by
  rw [← (collectElems_spec _).1, elems_pair]
  cases ha : isEllSym a
  · rw [toTmpl_pair_ne ha, collectElems_cons_ne ha]
    simp only [collectSpine_eq]
    cases toTmpl a with
    | error e => rfl
    | ok t => simp only [Except.bind]; cases collectElems d.elems (some t) <;> rfl
  · obtain ⟨l', rfl⟩ := isEllSym_iff.1 ha
    simp [toTmpl, collectElems, Except.map]

/-! ## `toRule`, `toRules` -/

/-- `transform_syntax_rule` on a form whose pattern has the right shape -/
theorem toRule_pair {kw : String} {k : String} {lk : Loc} {patRest d' : Datum} {la l : Loc}
    (hp : patRest.isListy = true) :
    toRule kw (.pair (.pair (.sym k lk) patRest la) d' l) =
      if k ≠ kw then .error (.syntax, lk) else
      match d'.elems with
      | td :: _ => (toTmpl td).map fun t => (toPat patRest, t)
      | [] => .error (.syntax, none) := by
  have hpop : popProper (.pair (.sym k lk) patRest la) = .ok (some (.sym k lk, patRest)) := by
    cases patRest <;> simp_all [Datum.isListy, popProper]
  simp only [toRule, expectList, elems_pair, bind, Except.bind, hpop]
  by_cases hk : k = kw
  · simp only [hk, ne_eq, not_true_eq_false, if_false]
    cases d'.elems with
    | nil => rfl
    | cons td more => simp only []; cases toTmpl td <;> rfl
  · simp [hk]

theorem ruleOf_pair_listy {kw k lk patRest la d' l} (hp : patRest.isListy = true) :
    ruleOf kw (.pair (.pair (.sym k lk) patRest la) d' l) =
      if k = kw then (match d'.elems with | td :: _ => some (patRest, td) | [] => none) else none := by
  simp only [ruleOf, elems_pair]
  cases patRest with
  | pair _ _ _ | nil _ => cases d'.elems <;> simp
  | prim _ _ | sym _ _ | vec _ _ => simp [Datum.isListy] at hp

theorem ruleOf_pair_dotted {kw f patRest la d' l} (hp : patRest.isListy = false) :
    ruleOf kw (.pair (.pair f patRest la) d' l) = none := by
  simp only [ruleOf, elems_pair]
  cases patRest with
  | pair _ _ _ | nil _ => simp [Datum.isListy] at hp
  | prim _ _ | sym _ _ | vec _ _ => cases f <;> cases d'.elems <;> simp

theorem ruleOf_pair_nonsym {kw f patRest la d' l} (hf : ∀ k lk, f ≠ .sym k lk) :
    ruleOf kw (.pair (.pair f patRest la) d' l) = none := by
  simp only [ruleOf, elems_pair]
  cases f with
  | sym k lk => exact absurd rfl (hf k lk)
  | _ => cases d'.elems <;> simp

theorem popProper_dotted {f patRest la} (hp : patRest.isListy = false) :
    popProper (.pair f patRest la) = .error (.syntax, none) := by
  cases patRest <;> simp_all [Datum.isListy, popProper]

theorem popProper_listy {f patRest la} (hp : patRest.isListy = true) :
    popProper (.pair f patRest la) = .ok (some (f, patRest)) := by
  cases patRest <;> simp_all [Datum.isListy, popProper]

/-- a rule is accepted exactly when it is written `((kw . pattern) template …)` with the pattern's
head the symbol `kw` itself, the rest of the pattern a list, and a well-formed template; the result
is the `toPat` / `toTmpl` image of what is written -/
theorem toRule_ok_iff {kw : String} {d : Datum} {pt : Pat × Tmpl} :
    toRule kw d = .ok pt ↔
      ∃ patRest td t, ruleOf kw d = some (patRest, td) ∧ toTmpl td = .ok t ∧
        pt = (toPat patRest, t) := by
  cases d with
  | prim _ _ | sym _ _ | vec _ _ => simp [toRule, expectList, ruleOf, bind, Except.bind]
  | nil _ => simp [toRule, expectList, ruleOf, bind, Except.bind, Datum.elems, Datum.spine]
  | pair a d' l =>
    cases a with
    | prim _ _ | sym _ _ | vec _ _ =>
      simp [toRule, expectList, ruleOf, bind, Except.bind, elems_pair]
    | nil _ => simp [toRule, expectList, ruleOf, bind, Except.bind, elems_pair, popProper]
    | pair f patRest la =>
      cases hp : patRest.isListy
      · simp [toRule, expectList, bind, Except.bind, elems_pair, popProper_dotted hp,
          ruleOf_pair_dotted hp]
      · cases f with
        | sym k lk =>
          rw [toRule_pair hp, ruleOf_pair_listy hp]
          by_cases hk : k = kw
          · simp only [hk, ne_eq, not_true_eq_false, if_false, if_true]
            cases hd : d'.elems with
            | nil => simp
            | cons td more =>
              simp only [Option.some.injEq, Prod.mk.injEq]
              cases htt : toTmpl td with
              | error e =>
                simp only [Except.map, reduceCtorEq, false_iff, not_exists, not_and]
                rintro _ _ t ⟨rfl, rfl⟩ h; rw [htt] at h; cases h
              | ok t =>
                simp only [Except.map, Except.ok.injEq]
                constructor
                · intro h; exact ⟨patRest, td, t, ⟨rfl, rfl⟩, htt, h.symm⟩
                · rintro ⟨_, _, t', ⟨rfl, rfl⟩, h, rfl⟩; rw [htt] at h; cases h; rfl
          · simp [hk]
        | prim _ _ | pair _ _ _ | nil _ | vec _ _ =>
          rw [ruleOf_pair_nonsym (by intro k lk h; cases h)]
          simp [toRule, expectList, bind, Except.bind, elems_pair, popProper_listy hp]

theorem mapM_ok_iff {α β ε : Type} (f : α → Except ε β) (xs : List α) (ys : List β) :
    xs.mapM f = .ok ys ↔ MapOk f xs ys := by
  induction xs generalizing ys with
  | nil =>
    simp only [List.mapM_nil, pure, Except.pure, Except.ok.injEq]
    constructor
    · rintro rfl; exact .nil
    · intro h; cases h; rfl
  | cons x xs ih =>
    simp only [List.mapM_cons, bind, Except.bind, pure, Except.pure]
    cases hx : f x with
    | error e => simp only [reduceCtorEq, false_iff]; intro h; cases h with | cons h1 _ => rw [hx] at h1; cases h1
    | ok y =>
      cases hxs : xs.mapM f with
      | error e =>
        simp only [reduceCtorEq, false_iff]
        intro h; cases h with | cons _ h2 => rw [← ih, hxs] at h2; cases h2
      | ok ys' =>
        simp only [Except.ok.injEq]
        constructor
        · rintro rfl; exact .cons hx ((ih ys').1 hxs)
        · intro h
          cases h with
          | cons h1 h2 =>
            rw [hx] at h1; cases h1
            rw [← ih, hxs] at h2; cases h2; rfl

/-- the first element on which `f` fails decides the error of `mapM` -/
theorem mapM_first_error {α β ε : Type} (f : α → Except ε β) {pre : List α} {ys x post e}
    (hpre : MapOk f pre ys) (hx : f x = .error e) : (pre ++ x :: post).mapM f = .error e := by
  induction hpre with
  | nil => simp [List.mapM_cons, bind, Except.bind, hx]
  | cons h1 _ ih => simp [List.mapM_cons, bind, Except.bind, h1, ih]

theorem MapOk.length {α β ε : Type} {f : α → Except ε β} {xs ys} (h : MapOk f xs ys) :
    ys.length = xs.length := by
  induction h with
  | nil => rfl
  | cons _ _ ih => simp [ih]

theorem MapOk.get {α β ε : Type} {f : α → Except ε β} {xs ys} (h : MapOk f xs ys) :
    ∀ (i : Nat) (h1 : i < xs.length) (h2 : i < ys.length), f xs[i] = .ok ys[i] := by
  induction h with
  | nil => intro i h1; cases h1
  | cons hx _ ih =>
    intro i h1 h2
    cases i with
    | zero => exact hx
    | succ j => exact ih j (by simpa using h1) (by simpa using h2)

/-- the model's reading of the parts of a `syntax-rules` form -/
def partsE (d : Datum) : Except SErr (List Datum × List Datum) :=
  match d with
  | .pair _ _ _ | .nil _ =>
    match d.elems.drop 1 with
    | [] => .error (.syntax, none)
    | first :: rest =>
      match first with
      | .sym _ _ =>
        match rest with
        | ld :: rest' =>
          match ld with
          | .pair _ _ _ | .nil _ => .ok (ld.elems, rest')
          | _ => .error (.syntax, none)
        | [] => .error (.syntax, none)
      | .pair _ _ _ | .nil _ => .ok (first.elems, rest)
      | _ => .error (.syntax, first.loc)
  | _ => .error (.syntax, none)

theorem toRules_eq (kw : String) (d : Datum) :
    toRules kw d =
      (partsE d).bind fun x => (x.1.mapM identOf).bind fun lits =>
        (x.2.mapM (toRule kw)).bind fun rules => .ok { literals := lits, rules := rules } := by
  cases d with
  | prim _ _ | sym _ _ | vec _ _ => rfl
  | pair _ _ _ | nil _ =>
    simp only [toRules, expectList, partsE, bind, Except.bind, pure, Except.pure]
    generalize List.drop 1 (Datum.elems _) = es
    cases es with
    | nil => rfl
    | cons first rest =>
      cases first with
      | sym _ _ =>
        cases rest with
        | nil => rfl
        | cons ld rest' => cases ld <;> rfl
      | _ => rfl

theorem partsE_ok_iff (d : Datum) (x : List Datum × List Datum) :
    partsE d = .ok x ↔ synRulesParts d = some x := by
  have hnil : ∀ l, (Datum.nil l).elems = [] := fun l => rfl
  cases d with
  | prim _ _ | sym _ _ | vec _ _ => simp [partsE, synRulesParts, listElems?]
  | nil _ => simp [partsE, synRulesParts, listElems?, hnil]
  | pair _ _ _ =>
    simp only [partsE, synRulesParts, listElems?, Option.bind_some]
    generalize List.drop 1 (Datum.elems _) = es
    cases es with
    | nil => simp
    | cons first rest =>
      cases first with
      | sym _ _ =>
        cases rest with
        | nil => simp
        | cons ld rest' => cases ld <;> simp [listElems?, hnil, eq_comm]
      | _ => simp [listElems?, hnil, eq_comm]

/-- **`transform_transformer`**: a `syntax-rules` form is accepted exactly when it has the shape
`(syntax-rules (literal…) rule…)` (or with a custom ellipsis identifier before the literals), the
literals are identifiers and every rule is accepted; the resulting literals and rules are the
images of the written ones, position by position -/
theorem toRules_ok_iff (kw : String) (d : Datum) (r : Rules) :
    toRules kw d = .ok r ↔
      ∃ litDs ruleDs, synRulesParts d = some (litDs, ruleDs) ∧
        MapOk identOf litDs r.literals ∧ MapOk (toRule kw) ruleDs r.rules := by
  rw [toRules_eq]
  cases hp : partsE d with
  | error e =>
    simp only [Except.bind, reduceCtorEq, false_iff, not_exists, not_and]
    intro litDs ruleDs h
    rw [← partsE_ok_iff, hp] at h; cases h
  | ok x =>
    obtain ⟨litDs, ruleDs⟩ := x
    have hs := (partsE_ok_iff d (litDs, ruleDs)).1 hp
    simp only [Except.bind, hs, Option.some.injEq, Prod.mk.injEq]
    cases hl : litDs.mapM identOf with
    | error e =>
      simp only [reduceCtorEq, false_iff, not_exists, not_and]
      rintro _ _ ⟨rfl, rfl⟩ h
      rw [← mapM_ok_iff, hl] at h; cases h
    | ok lits =>
      cases hr : ruleDs.mapM (toRule kw) with
      | error e =>
        simp only [reduceCtorEq, false_iff, not_exists, not_and]
        rintro _ _ ⟨rfl, rfl⟩ _ h
        rw [← mapM_ok_iff, hr] at h; cases h
      | ok rules =>
        simp only [Except.ok.injEq]
        constructor
        · rintro rfl
          exact ⟨litDs, ruleDs, ⟨rfl, rfl⟩, (mapM_ok_iff _ _ _).1 hl, (mapM_ok_iff _ _ _).1 hr⟩
        · rintro ⟨_, _, ⟨rfl, rfl⟩, h1, h2⟩
          rw [← mapM_ok_iff, hl] at h1
          rw [← mapM_ok_iff, hr] at h2
          cases h1; cases h2; rfl

/-! ## Every failure of the front is a syntax error -/

theorem map_error {α β ε : Type} {x : Except ε α} {f : α → β} {e : ε}
    (h : x.map f = .error e) : x = .error e := by
  cases x with
  | error e' => simpa [Except.map] using h
  | ok a => simp [Except.map] at h

theorem tmplElems_error_syntax (xs : List Datum)
    (hx : ∀ x ∈ xs, ∀ e, toTmpl x = .error e → e.1 = .syntax) :
    ∀ e, tmplElems xs = .error e → e.1 = .syntax := by
  induction hn : xs.length using Nat.strongRecOn generalizing xs with
  | _ n ih =>
    intro e h
    cases xs with
    | nil => simp [tmplElems] at h
    | cons x rest =>
      rw [tmplElems] at h
      split at h
      · cases h; rfl
      · split at h
        · rename_i e' he'; cases h; exact hx x (by simp) _ he'
        · split at h
          · rename_i e2 rest'
            split at h
            · exact ih rest'.length (by subst hn; simp; omega) rest'
                (fun y hy => hx y (by simp [hy])) rfl e (map_error h)
            · exact ih (e2 :: rest').length (by subst hn; simp) (e2 :: rest')
                (fun y hy => hx y (by simp at hy ⊢; exact .inr hy)) rfl e (map_error h)
          · cases h

theorem mem_sizeList {x : Datum} {xs : List Datum} (h : x ∈ xs) : x.size ≤ Datum.sizeList xs := by
  induction xs with
  | nil => cases h
  | cons y ys ih =>
    simp only [Datum.sizeList]
    rcases List.mem_cons.1 h with rfl | h
    · omega
    · have := ih h; omega

theorem mem_elems_size {x d : Datum} (h : x ∈ d.elems) : x.size ≤ d.size := by
  have hs := d.spine_size
  simp only [Datum.elems] at h
  cases hsp : d.spine with
  | mk xs t =>
    rw [hsp] at h hs
    cases t with
    | none => have := mem_sizeList (xs := xs) h; simp only at hs; omega
    | some tl =>
      simp only [List.mem_append, List.mem_singleton] at h
      simp only [Datum.tsize] at hs
      rcases h with h | rfl
      · have := mem_sizeList h; omega
      · omega

theorem toTmpl_error_syntax : ∀ n (d : Datum), d.size ≤ n → ∀ e, toTmpl d = .error e → e.1 = .syntax := by
  intro n
  induction n with
  | zero => intro d hd; have := d.size_pos; omega
  | succ n ih =>
    intro d hd e h
    cases d with
    | sym s l => rw [toTmpl] at h; cases h
    | prim q l => rw [toTmpl] at h; cases h
    | nil l => rw [toTmpl] at h; cases h
    | vec xs l =>
      rw [toTmpl_vec] at h
      refine tmplElems_error_syntax xs (fun x hx => ih x ?_) e (map_error h)
      have := mem_sizeList hx
      simp only [Datum.size] at hd; omega
    | pair a d' l =>
      rw [toTmpl_pair, elems_pair] at h
      refine tmplElems_error_syntax _ (fun x hx => ih x ?_) e (map_error h)
      simp only [Datum.size] at hd
      rcases List.mem_cons.1 hx with rfl | hx
      · omega
      · have := mem_elems_size hx; omega

theorem toRule_error_syntax {kw d e} (h : toRule kw d = .error e) : e.1 = .syntax := by
  cases d with
  | prim _ _ | sym _ _ | vec _ _ => simp [toRule, expectList, bind, Except.bind] at h; rw [← h]
  | nil _ => simp [toRule, expectList, bind, Except.bind, Datum.elems, Datum.spine] at h; rw [← h]
  | pair a d' l =>
    cases a with
    | prim _ _ | sym _ _ | vec _ _ =>
      simp [toRule, expectList, bind, Except.bind, elems_pair] at h; rw [← h]
    | nil _ => simp [toRule, expectList, bind, Except.bind, elems_pair, popProper] at h; rw [← h]
    | pair f patRest la =>
      cases hp : patRest.isListy
      · simp [toRule, expectList, bind, Except.bind, elems_pair, popProper_dotted hp] at h; rw [← h]
      · cases f with
        | sym k lk =>
          rw [toRule_pair hp] at h
          split at h
          · cases h; rfl
          · split at h
            · exact toTmpl_error_syntax _ _ (Nat.le_refl _) e (map_error h)
            · cases h; rfl
        | prim _ _ | pair _ _ _ | nil _ | vec _ _ =>
          simp [toRule, expectList, bind, Except.bind, elems_pair, popProper_listy hp] at h; rw [← h]

theorem mapM_error_elem {α β ε : Type} {f : α → Except ε β} {xs : List α} {e : ε}
    (h : xs.mapM f = .error e) : ∃ x ∈ xs, f x = .error e := by
  induction xs with
  | nil => simp [pure, Except.pure] at h
  | cons x xs ih =>
    simp only [List.mapM_cons, bind, Except.bind, pure, Except.pure] at h
    cases hx : f x with
    | error e' => rw [hx] at h; cases h; exact ⟨x, by simp, hx⟩
    | ok y =>
      rw [hx] at h
      cases hxs : xs.mapM f with
      | error e' =>
        rw [hxs] at h; cases h
        obtain ⟨x', hx', h'⟩ := ih hxs
        exact ⟨x', by simp [hx'], h'⟩
      | ok ys => rw [hxs] at h; cases h

theorem toRules_error_syntax {kw d e} (h : toRules kw d = .error e) : e.1 = .syntax := by
  rw [toRules_eq] at h
  cases hp : partsE d with
  | error e' =>
    rw [hp] at h; cases h
    cases d with
    | prim _ _ | sym _ _ | vec _ _ => simp [partsE] at hp; rw [← hp]
    | pair _ _ _ | nil _ =>
      simp only [partsE] at hp
      split at hp
      · cases hp; rfl
      · split at hp
        · split at hp
          · split at hp <;> cases hp <;> rfl
          · cases hp; rfl
        · cases hp
        · cases hp
        · cases hp; rfl
  | ok x =>
    rw [hp] at h
    simp only [Except.bind] at h
    cases hl : x.1.mapM identOf with
    | error e' =>
      rw [hl] at h; cases h
      obtain ⟨y, -, hy⟩ := mapM_error_elem hl
      cases y <;> simp [identOf] at hy <;> rw [← hy]
    | ok lits =>
      rw [hl] at h
      simp only at h
      cases hr : x.2.mapM (toRule kw) with
      | error e' =>
        rw [hr] at h; cases h
        obtain ⟨y, -, hy⟩ := mapM_error_elem hr
        exact toRule_error_syntax hy
      | ok rules => rw [hr] at h; cases h

end Ruschm.Macro

/-
Property C13 — libraries are encapsulated and instantiated once per interpreter.

"A library exposes exactly the bindings it exports, under their external names, and evaluates its
body in an environment made only of its own imports and definitions: the importer cannot see
unexported definitions, the library cannot see the importer's definitions, and redefining an
imported name in the importer does not change what the library's own procedures do. All imports of
a library within one program refer to one instance, so state kept inside the library is shared by
everything that imports it."

Only property theorems live here (each is audited with `#print axioms`); helper lemmas are in
`RuschmProofs/LibLemmas.lean`, vocabulary in `RuschmSpec/Lib.lean`.
-/
import RuschmProofs.LibLemmas

namespace Ruschm.C13
open Ruschm Ruschm.Interp

/-! ## one instance per interpreter -/

/-- Once `getLibrary` has returned the export list `defs` for `name`, the instance cache maps
`name` to `defs`; and on ANY state whose cache does so, `getLibrary` — hence an import
`(.direct name)` — returns those same `defs` (the same values: closures over the SAME frames)
without evaluating anything: the state is returned unchanged. -/
theorem single_instance {fuel : Nat} {st st' : State} {name : LibName} {loc : Loc} {defs : S.Bindings}
    (h : getLibrary fuel st name loc = (.ok defs, st')) :
    libLookup st'.instances name = some defs ∧
    (∀ (fuel' : Nat) (st'' : State) (loc' : Loc), libLookup st''.instances name = some defs →
      getLibrary (fuel' + 1) st'' name loc' = (.ok defs, st'') ∧
      (name ∉ st''.inProgress → evalImportSet (fuel' + 2) st'' (.direct name loc') = (.ok defs, st''))) := by
  refine ⟨getLibrary_ok_cached h, fun fuel' st'' loc' hc => ⟨?_, fun hip => direct_cached hip hc⟩⟩
  rw [getLibrary_succ_eq, hc]

/-- a native library `(m)` -/
def demoLib : LibName := [.ident "m"]
def demoState : State := { factories := [(demoLib, .native [("a", .num (.int 1))])] }

/-- the hypothesis is satisfiable: the first `getLibrary` instantiates the library -/
example : getLibrary 1 demoState demoLib none = (.ok [("a", .num (.int 1))],
    { demoState with instances := [(demoLib, [("a", .num (.int 1))])] }) := by
  rw [getLibrary_succ_eq]
  simp [demoState, demoLib, libLookup, findFactory, instantiate, cacheInstance, newLibrary, libInsert]

/-- Evaluator and import steps never remove or change an entry of the instance cache. -/
theorem instances_only_grow (fuel : Nat) (st : State) (n : LibName) (d : S.Bindings)
    (h : libLookup st.instances n = some d) :
    (∀ s, libLookup (evalImportSet fuel st s).2.instances n = some d) ∧
    (∀ name loc, libLookup (getLibrary fuel st name loc).2.instances n = some d) ∧
    (∀ sets ρ, libLookup (evalImport fuel st sets ρ).2.instances n = some d) ∧
    (∀ decls, libLookup (evalLibraryDef fuel st decls).2.instances n = some d) ∧
    (∀ ρ ss, libLookup (evalStatements fuel st ρ ss).2.instances n = some d) ∧
    (∀ s, libLookup (evalAst fuel st s).2.instances n = some d) := by
  have I := invAt storeRel_true fuel
  refine ⟨fun s => ?_, fun name loc => ?_, fun sets ρ => ?_, fun decls => ?_, fun ρ ss => ?_, fun s => ?_⟩
  · exact (I.importSet (r := _) (st' := _) rfl).instances n d h
  · exact (I.getLibrary (r := _) (st' := _) rfl).instances n d h
  · exact (I.import_ (r := _) (st' := _) rfl).instances n d h
  · exact (I.libraryDef (r := _) (st' := _) rfl).instances n d h
  · exact (I.statements (r := _) (st' := _) rfl).instances n d h
  · obtain ⟨st1, h1, i⟩ := evalAst_inv storeRel_true (fuel := fuel) (st := st) (s := s) (r := _) (st' := _) rfl
    apply i.instances n d
    rcases h1 with rfl | rfl <;> exact h

example : libLookup (evalImport 3 { demoState with instances := [([.ident "k"], [])] }
    [.direct demoLib none] 0).2.instances [.ident "k"] = some [] :=
  (instances_only_grow 3 _ [.ident "k"] [] (by simp [libLookup])).2.2.1 _ _

end Ruschm.C13

/-
Helper lemmas for property C16 (`display` output reads back): the printer's layout, the text of a
datum, `Prim.display` on readable values, `Eval.readLiteral` on their data, structural equality.
-/
import RuschmSpec.Print
import RuschmProofs.ReadLemmas
import RuschmModel.Interp

namespace Ruschm.Print
open Ruschm Ruschm.Text Ruschm.Lex

/-! ## the printer's layout -/

theorem interleave_lay (o : Bool) (ts : List Token) : interleave ts (lay o ts) = layText o ts := by
  induction ts generalizing o with
  | nil => rfl
  | cons t ts ih => simp [interleave, lay, layText, ih]

theorem layText_append (o : Bool) (xs ys : List Token) (t : Token) :
    layText o (xs ++ t :: ys)
      = layText o xs ++ layText ((xs.getLast?.map opens).getD o) (t :: ys) := by
  induction xs generalizing o with
  | nil => simp [layText]
  | cons x xs ih =>
    simp only [List.cons_append, layText, ih, List.append_assoc]
    cases xs <;> simp [List.getLast?]

/-- tokens of the cdr chain of a list, up to and including the closing parenthesis -/
def tailToks (d : Datum) : List Token :=
  Syn.toksL (Syn.ofTail d).1 ++ Text.tailToks (Syn.ofTail d).2

theorem toks_ofDatum_pair (a d : Datum) (l : Loc) :
    (Syn.ofDatum (.pair a d l)).toks = .lparen :: ((Syn.ofDatum a).toks ++ tailToks d) := by
  simp only [Syn.ofDatum, tailToks]
  split <;> rename_i h <;> simp [Syn.toks, Syn.toksL, h, Text.tailToks]

theorem tailToks_pair (a d : Datum) (l : Loc) :
    tailToks (.pair a d l) = (Syn.ofDatum a).toks ++ tailToks d := by
  simp [tailToks, Syn.ofTail, Syn.toksL]

theorem tailToks_nil (l : Loc) : tailToks (.nil l) = [.rparen] := by
  simp [tailToks, Syn.ofTail, Syn.toksL, Text.tailToks]

theorem tailToks_prim (p : Prim) (l : Loc) :
    tailToks (.prim p l) = [.period, .prim p, .rparen] := by
  simp [tailToks, Syn.ofTail, Syn.toksL, Text.tailToks, Syn.toks]

theorem tailToks_sym (s : String) (l : Loc) :
    tailToks (.sym s l) = [.period, .ident s, .rparen] := by
  simp [tailToks, Syn.ofTail, Syn.toksL, Text.tailToks, Syn.toks]

theorem tailToks_vec (xs : List Datum) (l : Loc) :
    tailToks (.vec xs l)
      = .period :: .vecIntro :: (Syn.toksL (Syn.ofDatums xs) ++ [.rparen, .rparen]) := by
  simp [tailToks, Syn.ofTail, Syn.toksL, Text.tailToks, Syn.toks]

/-- the separator the printer puts before a datum -/
def pre (o : Bool) : List Char := if o then [] else [' ']

mutual
theorem layText_datum : (d : Datum) → (o : Bool) → (more : List Token) →
    layText o ((Syn.ofDatum d).toks ++ more) = pre o ++ (showDatum d ++ layText false more)
  | .prim p _, o, more => by
    cases o <;> simp [Syn.ofDatum, Syn.toks, layText, sep, pre, showDatum, opens]
  | .sym s _, o, more => by
    cases o <;> simp [Syn.ofDatum, Syn.toks, layText, sep, pre, showDatum, opens]
  | .nil _, o, more => by
    cases o <;> simp [Syn.ofDatum, Syn.toks, Syn.toksL, layText, sep, pre, showDatum, opens,
      renderTok]
  | .vec xs _, o, more => by
    have h := layText_items xs more
    simp only [Syn.ofDatum, Syn.toks, List.cons_append, List.append_assoc, List.nil_append,
      layText, opens, h, showDatum]
    cases o <;> simp [sep, pre, renderTok]
  | .pair a d l, o, more => by
    rw [toks_ofDatum_pair]
    have h1 := layText_datum a true (tailToks d ++ more)
    have h2 := layText_tail d more
    simp only [List.cons_append, List.append_assoc, layText, opens, h1, h2, showDatum]
    cases o <;> simp [sep, pre, renderTok]
theorem layText_tail : (d : Datum) → (more : List Token) →
    layText false (tailToks d ++ more) = showTail d ++ (')' :: layText false more)
  | .nil _, more => by simp [tailToks_nil, layText, sep, showTail, renderTok, opens]
  | .pair a d l, more => by
    rw [tailToks_pair]
    have h1 := layText_datum a false (tailToks d ++ more)
    have h2 := layText_tail d more
    simp [List.append_assoc, h1, h2, showTail, pre]
  | .prim p _, more => by
    simp [tailToks_prim, layText, sep, showTail, renderTok, opens]
  | .sym s _, more => by
    simp [tailToks_sym, layText, sep, showTail, renderTok, opens]
  | .vec xs _, more => by
    have h := layText_items xs (.rparen :: more)
    simp only [tailToks_vec, List.cons_append, List.append_assoc, List.nil_append, layText, opens,
      h, showTail]
    simp [sep, renderTok]
/-- vector items and the closing parenthesis, after `#(` -/
theorem layText_items : (xs : List Datum) → (more : List Token) →
    layText true (Syn.toksL (Syn.ofDatums xs) ++ .rparen :: more)
      = showItems xs ++ (')' :: layText false more)
  | [], more => by simp [Syn.ofDatums, Syn.toksL, layText, sep, showItems, renderTok, opens]
  | x :: xs, more => by
    have h1 := layText_datum x true (Syn.toksL (Syn.ofDatums xs) ++ .rparen :: more)
    have h2 := layText_rest xs more
    simp [Syn.ofDatums, Syn.toksL, List.append_assoc, h1, h2, showItems, pre]
theorem layText_rest : (xs : List Datum) → (more : List Token) →
    layText false (Syn.toksL (Syn.ofDatums xs) ++ .rparen :: more)
      = showRest xs ++ (')' :: layText false more)
  | [], more => by simp [Syn.ofDatums, Syn.toksL, layText, sep, showRest, renderTok, opens]
  | x :: xs, more => by
    have h1 := layText_datum x false (Syn.toksL (Syn.ofDatums xs) ++ .rparen :: more)
    have h2 := layText_rest xs more
    simp [Syn.ofDatums, Syn.toksL, List.append_assoc, h1, h2, showRest, pre]
end

/-- the text of a datum under the printer's layout is `showDatum` -/
theorem renderDatum_printerLayout (d : Datum) : renderDatum d (printerLayout d) = showDatum d := by
  have h := layText_datum d true []
  simp only [List.append_nil, pre, layText] at h
  simp [renderDatum, Syn.render, printerLayout, interleave_lay, h]

theorem followOK_rparen (t : Token) (h : t ≠ .unquote) (rest : List Char) :
    followOK t (')' :: rest) = true := by
  cases t <;> simp_all [followOK, startsDelim, isDelimiter]

theorem followOK_opens (t : Token) (h : opens t = true) (rest : List Char) :
    followOK t rest = true := by
  cases t <;> simp_all [followOK, opens, selfDelimiting]

theorem validGaps_lay (ts : List Token) (o : Bool) (h : ∀ t ∈ ts, t ≠ .unquote) :
    ValidGaps ts (lay o ts) := by
  induction ts generalizing o with
  | nil => simp [lay, ValidGaps, isTrail]
  | cons t ts ih =>
    simp only [lay, ValidGaps]
    refine ⟨?_, ?_, ih _ (fun x hx => h x (by simp [hx]))⟩
    · unfold sep; split <;> simp [isAtmos, isWs]
    · cases ts with
      | nil => simpa [lay, gapOK] using h t (by simp)
      | cons t2 ts' =>
        simp only [lay, List.headD_cons, gapOK, List.head?_cons]
        by_cases ho : opens t = true
        · simp [followOK_opens t ho]
        · by_cases hr : t2 = .rparen
          · subst hr; simp [renderTok, followOK_rparen t (h t (by simp))]
          · simp [sep, ho, hr]

/-! ## the defining equations of `display` -/

theorem display_zero (σ : Store) (v : Value) : Prim.display σ 0 v = "…" := rfl
theorem display_int (σ : Store) (f : Nat) (i : Int) :
    Prim.display σ (f + 1) (.num (.int i)) = toString i := rfl
theorem display_rat (σ : Store) (f : Nat) (n d : Int) :
    Prim.display σ (f + 1) (.num (.rat n d)) = toString n ++ "/" ++ toString d := rfl
theorem display_bool (σ : Store) (f : Nat) (b : Bool) :
    Prim.display σ (f + 1) (.bool b) = if b then "#t" else "#f" := by cases b <;> rfl
theorem display_char (σ : Store) (f : Nat) (c : Char) :
    Prim.display σ (f + 1) (.char c) = "#\\" ++ c.toString := rfl
theorem display_sym (σ : Store) (f : Nat) (s : String) : Prim.display σ (f + 1) (.sym s) = s := rfl
theorem display_nil (σ : Store) (f : Nat) : Prim.display σ (f + 1) .nil = "()" := rfl
theorem display_pair (σ : Store) (f : Nat) (a d : Value) :
    Prim.display σ (f + 1) (.pair a d)
      = "(" ++ Prim.display σ f a ++ Prim.displayTail σ f d ++ ")" := rfl
theorem display_vec (σ : Store) (f : Nat) (id : Nat) :
    Prim.display σ (f + 1) (.vec id) = match σ.vecs[id]? with
      | some cell => "#(" ++ " ".intercalate (cell.items.map (Prim.display σ f)) ++ ")"
      | none => "#(?)" := rfl
theorem displayTail_nil (σ : Store) (f : Nat) : Prim.displayTail σ (f + 1) .nil = "" := rfl
theorem displayTail_pair (σ : Store) (f : Nat) (a d : Value) :
    Prim.displayTail σ (f + 1) (.pair a d)
      = " " ++ Prim.display σ f a ++ Prim.displayTail σ f d := rfl
theorem displayTail_atomic (σ : Store) (f : Nat) (v : Value) (h : isAtomic v = true) :
    Prim.displayTail σ (f + 1) v = " . " ++ Prim.display σ f v := by
  cases v <;> first | rfl | simp [isAtomic] at h

/-! ## decimal text -/

theorem toString_nat (n : Nat) : (toString n).toList = showNat n := by
  simp [toString, showNat, Nat.repr]

theorem toString_int (i : Int) : (toString i).toList = showInt i := by
  cases i with
  | ofNat m => simp [toString, Int.repr, showInt, showNat, Nat.repr]
  | negSucc m => simp [toString, Int.repr, showInt, showNat, Nat.repr, Int.negSucc_lt_zero]

theorem toString_posInt (d : Int) (h : 0 < d) : (toString d).toList = showNat d.toNat := by
  rw [toString_int, showInt, if_neg (by omega)]
  congr 1; omega

/-! ## sizes -/

theorem Datum.size_pos (d : Datum) : 0 < d.size := by
  cases d <;> simp [Datum.size]

theorem Datum.size_le_sizeList {x : Datum} {xs : List Datum} (h : x ∈ xs) :
    x.size ≤ Datum.sizeList xs := by
  induction xs with
  | nil => cases h
  | cons y ys ih =>
    simp only [Datum.sizeList]
    rcases List.mem_cons.1 h with rfl | h
    · omega
    · have := ih h; omega

/-! ## `display` on readable values -/

theorem intercalate_items (f : Value → List Char) (g : Value → Datum) (items : List Value)
    (h : ∀ x ∈ items, f x = showDatum (g x)) :
    [' '].intercalate (items.map f) = showItems (items.map g) := by
  cases items with
  | nil => rfl
  | cons x xs =>
    have hx := h x (by simp)
    have : ∀ (ys : List Value) (pre : List Char), (∀ y ∈ ys, f y = showDatum (g y)) →
        (List.intersperse [' '] (pre :: ys.map f)).flatten = pre ++ showRest (ys.map g) := by
      intro ys
      induction ys with
      | nil => intro pre _; simp [showRest]
      | cons y ys ih =>
        intro pre hy
        rw [List.map_cons, List.intersperse_cons_cons, List.flatten_cons, List.flatten_cons,
          ih (f y) (fun z hz => hy z (by simp [hz])), hy y (by simp)]
        simp [showRest]
    rw [List.intercalate, List.map_cons, this xs (f x) (fun z hz => h z (by simp [hz])), hx]
    simp [showItems]

/-- data that are neither pairs nor `()` -/
def datumAtomic : Datum → Bool
  | .pair _ _ _ | .nil _ => false
  | _ => true

theorem showTail_atomic {D : Datum} (h : datumAtomic D = true) :
    showTail D = ' ' :: '.' :: ' ' :: showDatum D := by
  cases D <;> simp_all [datumAtomic, showTail, showDatum]

theorem conj_of_atomic {σ : Store} {v : Value} {D : Datum} (hv : isAtomic v = true)
    (hD : datumAtomic D = true)
    (h : ∀ f, D.size ≤ f → (Prim.display σ f v).toList = showDatum D) (f : Nat) :
    (D.size ≤ f → (Prim.display σ f v).toList = showDatum D) ∧
      (D.size + 1 ≤ f → (Prim.displayTail σ f v).toList = showTail D) := by
  refine ⟨h f, fun hf => ?_⟩
  obtain ⟨g, rfl⟩ : ∃ g, f = g + 1 := ⟨f - 1, by omega⟩
  rw [displayTail_atomic _ _ _ hv, showTail_atomic hD, String.toList_append, h g (by omega)]
  rfl

/-- one level: if the items of vector cells print as their data do, so do the values above them -/
theorem display_step (σ : Store) (recR : Value → Bool) (recD : Value → Datum)
    (H : ∀ x f, recR x = true → (recD x).size ≤ f →
      (Prim.display σ f x).toList = showDatum (recD x)) :
    ∀ v f, readableStep σ recR v = true →
      ((datumStep σ recD v).size ≤ f →
        (Prim.display σ f v).toList = showDatum (datumStep σ recD v)) ∧
      ((datumStep σ recD v).size + 1 ≤ f →
        (Prim.displayTail σ f v).toList = showTail (datumStep σ recD v)) := by
  intro v
  induction v with
  | num x =>
    intro f hr
    cases x with
    | int i =>
      refine conj_of_atomic rfl rfl (fun f hf => ?_) f
      obtain ⟨f, rfl⟩ : ∃ g, f = g + 1 := ⟨f - 1, by
        simp only [datumStep, Datum.size] at hf; omega⟩
      rw [display_int, toString_int]; rfl
    | rat n d =>
      have hw : Num.WF (.rat n d) := of_decide_eq_true hr
      have hd : 0 < d := hw.2.2.1
      refine conj_of_atomic rfl rfl (fun f hf => ?_) f
      obtain ⟨f, rfl⟩ : ∃ g, f = g + 1 := ⟨f - 1, by
        simp only [datumStep, Datum.size] at hf; omega⟩
      rw [display_rat, String.toList_append, String.toList_append, toString_int,
        toString_posInt d hd]
      simp [datumStep, showDatum, renderTok]
    | real r => simp [readableStep] at hr
  | bool b =>
    intro f hr
    refine conj_of_atomic rfl rfl (fun f hf => ?_) f
    obtain ⟨f, rfl⟩ : ∃ g, f = g + 1 := ⟨f - 1, by
      simp only [datumStep, Datum.size] at hf; omega⟩
    rw [display_bool]
    cases b <;> simp [datumStep, showDatum, renderTok]
  | char c =>
    intro f hr
    refine conj_of_atomic rfl rfl (fun f hf => ?_) f
    obtain ⟨f, rfl⟩ : ∃ g, f = g + 1 := ⟨f - 1, by
      simp only [datumStep, Datum.size] at hf; omega⟩
    rw [display_char]
    simp [datumStep, showDatum, renderTok]
  | sym s =>
    intro f hr
    have hp : isPlainIdent s.toList = true := hr
    refine conj_of_atomic rfl rfl (fun f hf => ?_) f
    obtain ⟨f, rfl⟩ : ∃ g, f = g + 1 := ⟨f - 1, by
      simp only [datumStep, Datum.size] at hf; omega⟩
    rw [display_sym]
    simp [datumStep, showDatum, renderTok, hp]
  | nil =>
    intro f hr
    constructor <;> intro hf <;> obtain ⟨f, rfl⟩ : ∃ g, f = g + 1 := ⟨f - 1, by
      simp only [datumStep, Datum.size] at hf; omega⟩
    · rw [display_nil]; simp [datumStep, showDatum]
    · rw [displayTail_nil]; simp [datumStep, showTail]
  | pair a d iha ihd =>
    intro f hr
    simp only [readableStep, Bool.and_eq_true] at hr
    have sa := Datum.size_pos (datumStep σ recD a)
    have sd := Datum.size_pos (datumStep σ recD d)
    constructor <;> intro hf <;> obtain ⟨f, rfl⟩ : ∃ g, f = g + 1 := ⟨f - 1, by
      simp only [datumStep, Datum.size] at hf; omega⟩
    · simp only [datumStep, Datum.size] at hf
      have h1 := (iha f hr.1).1 (by omega)
      have h2 := (ihd f hr.2).2 (by omega)
      rw [display_pair]
      simp [datumStep, showDatum, h1, h2]
    · simp only [datumStep, Datum.size] at hf
      have h1 := (iha f hr.1).1 (by omega)
      have h2 := (ihd f hr.2).2 (by omega)
      rw [displayTail_pair]
      simp [datumStep, showTail, h1, h2]
  | vec id =>
    intro f hr
    simp only [readableStep] at hr
    split at hr
    next cell hc =>
      have hD : datumStep σ recD (.vec id) = .vec (cell.items.map recD) none := by
        simp [datumStep, hc]
      rw [hD]
      refine conj_of_atomic rfl rfl (fun f hf => ?_) f
      obtain ⟨f, rfl⟩ : ∃ g, f = g + 1 := ⟨f - 1, by
        simp only [Datum.size] at hf; omega⟩
      simp only [Datum.size] at hf
      have key : [' '].intercalate (cell.items.map (fun x => (Prim.display σ f x).toList))
            = showItems (cell.items.map recD) := by
        apply intercalate_items
        intro x hx
        apply H x f (List.all_eq_true.1 hr x hx)
        exact Nat.le_trans (Datum.size_le_sizeList (List.mem_map_of_mem hx)) (by omega)
      rw [display_vec]
      simp [hc, showDatum, String.toList_intercalate, List.map_map, Function.comp_def, key]
    next => simp at hr
  | str s => intro f hr; simp [readableStep] at hr
  | closure l e => intro f hr; simp [readableStep] at hr
  | builtin b => intro f hr; simp [readableStep] at hr
  | transformer r => intro f hr; simp [readableStep] at hr
  | void => intro f hr; simp [readableStep] at hr

/-- `display` prints a readable value as `showDatum` writes its datum -/
theorem display_datumN (σ : Store) (n : Nat) : ∀ v f, readableN σ n v = true →
    (datumN σ n v).size ≤ f → (Prim.display σ f v).toList = showDatum (datumN σ n v) := by
  induction n with
  | zero =>
    intro v f hr hf
    exact ((display_step σ _ _ (fun x f h => by simp at h)) v f hr).1 hf
  | succ n ih =>
    intro v f hr hf
    exact ((display_step σ _ _ ih) v f hr).1 hf

/-! ## the printer's layout is valid, the data of readable values are supported -/

mutual
theorem toks_noUnquote : (d : Datum) → ∀ t ∈ (Syn.ofDatum d).toks, t ≠ .unquote
  | .prim p _ => by simp [Syn.ofDatum, Syn.toks]
  | .sym s _ => by simp [Syn.ofDatum, Syn.toks]
  | .nil _ => by simp [Syn.ofDatum, Syn.toks, Syn.toksL]
  | .vec xs _ => by
    have h := toksL_noUnquote xs
    intro t ht
    simp only [Syn.ofDatum, Syn.toks, List.mem_cons, List.mem_append, List.not_mem_nil,
      or_false] at ht
    rcases ht with rfl | ht | rfl
    · simp
    · exact h t ht
    · simp
  | .pair a d l => by
    have h1 := toks_noUnquote a
    have h2 := tailToks_noUnquote d
    intro t ht
    rw [toks_ofDatum_pair] at ht
    simp only [List.mem_cons, List.mem_append] at ht
    rcases ht with rfl | ht | ht
    · simp
    · exact h1 t ht
    · exact h2 t ht
theorem tailToks_noUnquote : (d : Datum) → ∀ t ∈ tailToks d, t ≠ .unquote
  | .nil _ => by simp [tailToks_nil]
  | .prim p _ => by simp [tailToks_prim]
  | .sym s _ => by simp [tailToks_sym]
  | .vec xs _ => by
    have h := toksL_noUnquote xs
    intro t ht
    simp only [tailToks_vec, List.mem_cons, List.mem_append, List.not_mem_nil, or_false] at ht
    rcases ht with rfl | rfl | ht | rfl | rfl
    · simp
    · simp
    · exact h t ht
    · simp
    · simp
  | .pair a d l => by
    have h1 := toks_noUnquote a
    have h2 := tailToks_noUnquote d
    intro t ht
    rw [tailToks_pair] at ht
    simp only [List.mem_append] at ht
    rcases ht with ht | ht
    · exact h1 t ht
    · exact h2 t ht
theorem toksL_noUnquote : (xs : List Datum) → ∀ t ∈ Syn.toksL (Syn.ofDatums xs), t ≠ .unquote
  | [] => by simp [Syn.ofDatums, Syn.toksL]
  | x :: xs => by
    have h1 := toks_noUnquote x
    have h2 := toksL_noUnquote xs
    intro t ht
    simp only [Syn.ofDatums, Syn.toksL, List.mem_append] at ht
    rcases ht with ht | ht
    · exact h1 t ht
    · exact h2 t ht
end

/-- the printer's layout is a valid layout of every datum with supported atoms -/
theorem validLayout_printerLayout (d : Datum) (hd : SupportedD d) :
    ValidLayout (Syn.ofDatum d).toks (printerLayout d) :=
  validLayout_of_gaps _ _ (toks_supported _ (ofDatum_supported d hd))
    (validGaps_lay _ true (toks_noUnquote d))

theorem supportedDs_map (g : Value → Datum) (items : List Value)
    (h : ∀ x ∈ items, SupportedD (g x)) : SupportedDs (items.map g) := by
  induction items with
  | nil => trivial
  | cons x xs ih =>
    exact ⟨h x (by simp), ih (fun y hy => h y (by simp [hy]))⟩

theorem supportedD_step (σ : Store) (recR : Value → Bool) (recD : Value → Datum)
    (H : ∀ x, recR x = true → SupportedD (recD x)) :
    ∀ v, readableStep σ recR v = true → SupportedD (datumStep σ recD v) := by
  intro v
  induction v with
  | num x =>
    intro hr
    cases x with
    | int i => exact hr
    | rat n d =>
      have hw : Num.WF (.rat n d) := of_decide_eq_true hr
      obtain ⟨h1, h2, h3, -, -⟩ := hw
      refine ⟨h1, by omega, ?_⟩
      simp only [fitsI32, Bool.and_eq_true, decide_eq_true_eq] at h2
      omega
    | real r => simp [readableStep] at hr
  | bool b => intro _; trivial
  | char c => intro _; trivial
  | sym s => intro hr; exact Or.inl hr
  | nil => intro _; trivial
  | pair a d iha ihd =>
    intro hr
    simp only [readableStep, Bool.and_eq_true] at hr
    exact ⟨iha hr.1, ihd hr.2⟩
  | vec id =>
    intro hr
    simp only [readableStep] at hr
    split at hr
    next cell hc =>
      simp only [datumStep, hc, SupportedD]
      exact supportedDs_map _ _ (fun x hx => H x (List.all_eq_true.1 hr x hx))
    next => simp at hr
  | str s => intro hr; simp [readableStep] at hr
  | closure l e => intro hr; simp [readableStep] at hr
  | builtin b => intro hr; simp [readableStep] at hr
  | transformer r => intro hr; simp [readableStep] at hr
  | void => intro hr; simp [readableStep] at hr

theorem supportedD_datumN (σ : Store) (n : Nat) :
    ∀ v, readableN σ n v = true → SupportedD (datumN σ n v) := by
  induction n with
  | zero => exact supportedD_step σ _ _ (fun x h => by simp at h)
  | succ n ih => exact supportedD_step σ _ _ ih

/-! ## the shape of printed lists, for arbitrary values -/

/-- every string preceded by one space -/
def spaced : List String → String
  | [] => ""
  | x :: xs => " " ++ x ++ spaced xs

theorem intercalate_cons_spaced (a : String) (l : List String) :
    " ".intercalate (a :: l) = a ++ spaced l := by
  induction l generalizing a with
  | nil => simp [spaced]
  | cons b l ih => rw [String.intercalate_cons_cons, ih]; simp [spaced, String.append_assoc]

/-- what `displayTail` prints after the last element: nothing for `()`, ` . t` otherwise -/
def endText (σ : Store) (f : Nat) (t : Value) : String :=
  match t with
  | .nil => ""
  | t => " . " ++ Prim.display σ f t

theorem displayTail_consTail (σ : Store) (f : Nat) (xs : List Value) (t : Value)
    (hx : ∀ x ∈ xs, Enough σ f x) (ht : t = .nil ∨ (isAtomic t = true ∧ Enough σ f t)) :
    ∀ F, f + xs.length < F →
      Prim.displayTail σ F (consTail xs t)
        = spaced (xs.map (Prim.display σ f)) ++ endText σ f t := by
  induction xs with
  | nil =>
    intro F hF
    obtain ⟨g, rfl⟩ : ∃ g, F = g + 1 := ⟨F - 1, by omega⟩
    rcases ht with rfl | ⟨ha, he⟩
    · simp [consTail, displayTail_nil, endText, spaced]
    · have : endText σ f t = " . " ++ Prim.display σ f t := by
        cases t <;> first | rfl | simp [isAtomic] at ha
      simp only [List.length_nil, Nat.add_zero] at hF
      simp [consTail, displayTail_atomic _ _ _ ha, this, spaced, he g (by omega)]
  | cons x xs ih =>
    intro F hF
    obtain ⟨g, rfl⟩ : ∃ g, F = g + 1 := ⟨F - 1, by omega⟩
    simp only [List.length_cons] at hF
    have h1 := hx x (by simp) g (by omega)
    have h2 := ih (fun y hy => hx y (by simp [hy])) g (by omega)
    simp only [consTail, List.foldr_cons] at h2 ⊢
    rw [displayTail_pair, h1, h2]
    simp [spaced, String.append_assoc]

theorem display_consTail (σ : Store) (f : Nat) (x : Value) (xs : List Value) (t : Value)
    (hx : ∀ y ∈ x :: xs, Enough σ f y) (ht : t = .nil ∨ (isAtomic t = true ∧ Enough σ f t))
    (F : Nat) (hF : f + (x :: xs).length < F) :
    Prim.display σ F (consTail (x :: xs) t)
      = "(" ++ " ".intercalate ((x :: xs).map (Prim.display σ f)) ++ endText σ f t ++ ")" := by
  obtain ⟨g, rfl⟩ : ∃ g, F = g + 1 := ⟨F - 1, by omega⟩
  simp only [List.length_cons] at hF
  have h1 := hx x (by simp) g (by omega)
  have h2 := displayTail_consTail σ f xs t (fun y hy => hx y (by simp [hy])) ht g (by omega)
  simp only [consTail, List.foldr_cons] at h2 ⊢
  rw [display_pair, h1, h2, List.map_cons, intercalate_cons_spaced]
  simp [String.append_assoc]

/-! ## fuel -/

theorem enough_of_readableN (σ : Store) (n : Nat) (v : Value) (h : readableN σ n v = true) :
    Enough σ (datumN σ n v).size v := by
  intro f' hf
  apply String.toList_injective
  rw [display_datumN σ n v f' h hf, display_datumN σ n v _ h (Nat.le_refl _)]

theorem Enough.mono {σ : Store} {f g : Nat} {v : Value} (h : Enough σ f v) (hfg : f ≤ g) :
    Enough σ g v :=
  fun f' hf' => (h f' (Nat.le_trans hfg hf')).trans (h g hfg).symm

/-! ## a sample: `(1 -1/2 #\a (x . y) #(#t ()))` with its vector in cell 1 of the store -/
namespace Samples

def store : Store :=
  { vecs := #[{ mutable := true, items := [.sym "unrelated"] },
              { mutable := true, items := [.bool true, .nil] }] }

def value : Value :=
  Value.ofList [.num (.int 1), .num (.rat (-1) 2), .char 'a', .pair (.sym "x") (.sym "y"), .vec 1]

def datum : Datum :=
  Datum.ofList none [.prim (.int 1) none, .prim (.rat (-1) 2) none, .prim (.chr 'a') none,
    .pair (.sym "x" none) (.sym "y" none) none,
    .vec [.prim (.bool true) none, .nil none] none]

def text : String := "(1 -1/2 #\\a (x . y) #(#t ()))"

/-- the store after the sample has been read back into it: a fresh immutable cell 2 -/
def store2 : Store :=
  { store with vecs := store.vecs.push { mutable := false, items := [.bool true, .nil] } }

/-- the copy of the sample that reading it back produces -/
def value2 : Value :=
  Value.ofList [.num (.int 1), .num (.rat (-1) 2), .char 'a', .pair (.sym "x") (.sym "y"), .vec 2]

theorem value_equal_value2 : EqualV store store2 value value2 :=
  .pair (.num _) (.pair (.num _) (.pair (.char _) (.pair (.pair (.sym _) (.sym _))
    (.pair (.vec (c₁ := { mutable := true, items := [.bool true, .nil] })
      (c₂ := { mutable := false, items := [.bool true, .nil] }) rfl rfl
      (.cons (.bool _) (.cons .nil .nil))) .nil))))

end Samples

/-! ## the data of values carry no locations -/

theorem stripList_map (g : Value → Datum) (items : List Value)
    (h : ∀ x ∈ items, (g x).strip = g x) : Datum.stripList (items.map g) = items.map g := by
  induction items with
  | nil => rfl
  | cons x xs ih =>
    simp only [List.map_cons, Datum.stripList, h x (by simp),
      ih (fun y hy => h y (by simp [hy]))]

theorem strip_step (σ : Store) (recD : Value → Datum) (H : ∀ x, (recD x).strip = recD x) :
    ∀ v, (datumStep σ recD v).strip = datumStep σ recD v := by
  intro v
  induction v with
  | num x => cases x <;> rfl
  | pair a d iha ihd => simp only [datumStep, Datum.strip, iha, ihd]
  | vec id =>
    simp only [datumStep]
    split
    · simp only [Datum.strip, stripList_map _ _ (fun x _ => H x)]
    · rfl
  | _ => rfl

theorem strip_datumN (σ : Store) (n : Nat) : ∀ v, (datumN σ n v).strip = datumN σ n v := by
  induction n with
  | zero => exact strip_step σ _ (fun _ => rfl)
  | succ n ih => exact strip_step σ _ ih

/-! ## `readLiteral` ignores locations and only ever adds cells -/

mutual
theorem readLiteral_strip : (d : Datum) → (τ : Store) →
    Eval.readLiteral τ d.strip = Eval.readLiteral τ d
  | .prim p _, τ => rfl
  | .sym s _, τ => rfl
  | .nil _, τ => rfl
  | .pair a d _, τ => by
    simp only [Datum.strip, Eval.readLiteral, readLiteral_strip a τ]
    rcases Eval.readLiteral τ a with ⟨r | va, τ1⟩
    · rfl
    · simp only [readLiteral_strip d τ1]
  | .vec xs _, τ => by
    simp only [Datum.strip, Eval.readLiteral, readLiterals_strip xs τ]
theorem readLiterals_strip : (xs : List Datum) → (τ : Store) →
    Eval.readLiterals τ (Datum.stripList xs) = Eval.readLiterals τ xs
  | [], τ => rfl
  | x :: xs, τ => by
    simp only [Datum.stripList, Eval.readLiterals, readLiteral_strip x τ]
    rcases Eval.readLiteral τ x with ⟨r | v, τ1⟩
    · rfl
    · simp only [readLiterals_strip xs τ1]
end

/-- reading an atom does not touch the store -/
theorem readLiteral_prim_store (τ : Store) (d : Datum) (p : Prim)
    (h : d.strip = .prim p none) : (Eval.readLiteral τ d).2 = τ := by
  cases d with
  | prim q l =>
    simp only [Eval.readLiteral]
    cases Eval.evalPrim q <;> rfl
  | _ => simp [Datum.strip] at h

theorem Extends.refl (σ : Store) : Extends σ σ := fun _ _ h => h

theorem Extends.trans {a b c : Store} (h1 : Extends a b) (h2 : Extends b c) : Extends a c :=
  fun i x h => h2 i x (h1 i x h)

theorem extends_allocVec (τ : Store) (m : Bool) (items : List Value) :
    Extends τ (τ.allocVec m items).2 := by
  intro i c h
  have hi : i < τ.vecs.size := by
    rcases Nat.lt_or_ge i τ.vecs.size with h' | h'
    · exact h'
    · rw [Array.getElem?_eq_none h'] at h; cases h
  simp only [Store.allocVec]
  rw [Array.getElem?_push_lt hi]
  rw [Array.getElem?_eq_getElem hi] at h
  exact h

theorem allocVec_get (τ : Store) (m : Bool) (items : List Value) :
    (τ.allocVec m items).1 = .vec τ.vecs.size ∧
      (τ.allocVec m items).2.vecs[τ.vecs.size]? = some { mutable := m, items := items } := by
  simp [Store.allocVec]

/-! ## structural equality is stable under store extension -/

mutual
theorem EqualV.mono_right {σ₁ σ₂ σ₂' : Store} (h : Extends σ₂ σ₂') :
    ∀ {v w : Value}, EqualV σ₁ σ₂ v w → EqualV σ₁ σ₂' v w
  | _, _, .num x => .num x
  | _, _, .bool b => .bool b
  | _, _, .char c => .char c
  | _, _, .str s => .str s
  | _, _, .sym s => .sym s
  | _, _, .nil => .nil
  | _, _, .pair ha hd => .pair (EqualV.mono_right h ha) (EqualV.mono_right h hd)
  | _, _, .vec h1 h2 hs => .vec h1 (h _ _ h2) (EqualVs.mono_right h hs)
theorem EqualVs.mono_right {σ₁ σ₂ σ₂' : Store} (h : Extends σ₂ σ₂') :
    ∀ {vs ws : List Value}, EqualVs σ₁ σ₂ vs ws → EqualVs σ₁ σ₂' vs ws
  | _, _, .nil => .nil
  | _, _, .cons hx hxs => .cons (EqualV.mono_right h hx) (EqualVs.mono_right h hxs)
end

mutual
theorem EqualV.mono_left {σ₁ σ₁' σ₂ : Store} (h : Extends σ₁ σ₁') :
    ∀ {v w : Value}, EqualV σ₁ σ₂ v w → EqualV σ₁' σ₂ v w
  | _, _, .num x => .num x
  | _, _, .bool b => .bool b
  | _, _, .char c => .char c
  | _, _, .str s => .str s
  | _, _, .sym s => .sym s
  | _, _, .nil => .nil
  | _, _, .pair ha hd => .pair (EqualV.mono_left h ha) (EqualV.mono_left h hd)
  | _, _, .vec h1 h2 hs => .vec (h _ _ h1) h2 (EqualVs.mono_left h hs)
theorem EqualVs.mono_left {σ₁ σ₁' σ₂ : Store} (h : Extends σ₁ σ₁') :
    ∀ {vs ws : List Value}, EqualVs σ₁ σ₂ vs ws → EqualVs σ₁' σ₂ vs ws
  | _, _, .nil => .nil
  | _, _, .cons hx hxs => .cons (EqualV.mono_left h hx) (EqualVs.mono_left h hxs)
end

/-! ## reading the datum of a readable value back -/

theorem exactRatio_wf (n d : Int) (h : Num.WF (.rat n d)) :
    Num.exactRatio n d = .ok (.rat n d) := by
  obtain ⟨h1, h2, h3, h4, h5⟩ := h
  have hs : d.sign = 1 := Int.sign_eq_one_of_pos h3
  simp [Num.exactRatio, h5, hs, h1, h2, h4]

/-- what reading a datum back must deliver: an equal value in a store that has only grown -/
def ReadsBack (σ : Store) (v : Value) (d : Datum) : Prop :=
  ∀ τ : Store, ∃ w τ', Eval.readLiteral τ d = (.ok w, τ') ∧ Extends τ τ' ∧ EqualV σ τ' v w

theorem readLiterals_map (σ : Store) (recD : Value → Datum) (items : List Value)
    (h : ∀ x ∈ items, ReadsBack σ x (recD x)) (τ : Store) :
    ∃ ws τ', Eval.readLiterals τ (items.map recD) = (.ok ws, τ') ∧ Extends τ τ' ∧
      EqualVs σ τ' items ws := by
  induction items generalizing τ with
  | nil => exact ⟨[], τ, rfl, Extends.refl τ, .nil⟩
  | cons x xs ih =>
    obtain ⟨w, τ1, e1, x1, q1⟩ := h x (by simp) τ
    obtain ⟨ws, τ2, e2, x2, q2⟩ := ih (fun y hy => h y (by simp [hy])) τ1
    refine ⟨w :: ws, τ2, ?_, x1.trans x2, .cons (q1.mono_right x2) q2⟩
    simp only [List.map_cons, Eval.readLiterals, e1, e2]

theorem readsBack_step (σ : Store) (recR : Value → Bool) (recD : Value → Datum)
    (H : ∀ x, recR x = true → ReadsBack σ x (recD x)) :
    ∀ v, readableStep σ recR v = true → ReadsBack σ v (datumStep σ recD v) := by
  intro v
  induction v with
  | num x =>
    intro hr τ
    cases x with
    | int i => exact ⟨_, τ, rfl, Extends.refl τ, .num _⟩
    | rat n d =>
      have hw : Num.WF (.rat n d) := of_decide_eq_true hr
      have hd : ((d.toNat : Nat) : Int) = d := Int.toNat_of_nonneg (by have := hw.2.2.1; omega)
      refine ⟨.num (.rat n d), τ, ?_, Extends.refl τ, .num _⟩
      simp only [datumStep, Eval.readLiteral, Eval.evalPrim, hd, exactRatio_wf n d hw]
      rfl
    | real r => simp [readableStep] at hr
  | bool b => intro _ τ; exact ⟨_, τ, rfl, Extends.refl τ, .bool b⟩
  | char c => intro _ τ; exact ⟨_, τ, rfl, Extends.refl τ, .char c⟩
  | sym s => intro _ τ; exact ⟨_, τ, rfl, Extends.refl τ, .sym s⟩
  | nil => intro _ τ; exact ⟨_, τ, rfl, Extends.refl τ, .nil⟩
  | pair a d iha ihd =>
    intro hr τ
    simp only [readableStep, Bool.and_eq_true] at hr
    obtain ⟨wa, τ1, e1, x1, q1⟩ := iha hr.1 τ
    obtain ⟨wd, τ2, e2, x2, q2⟩ := ihd hr.2 τ1
    refine ⟨.pair wa wd, τ2, ?_, x1.trans x2, .pair (q1.mono_right x2) q2⟩
    simp only [datumStep, Eval.readLiteral, e1, e2]
  | vec id =>
    intro hr τ
    simp only [readableStep] at hr
    split at hr
    next cell hc =>
      obtain ⟨ws, τ1, e1, x1, q1⟩ := readLiterals_map σ recD cell.items
        (fun x hx => H x (List.all_eq_true.1 hr x hx)) τ
      have ha := allocVec_get τ1 false ws
      have hx := extends_allocVec τ1 false ws
      refine ⟨(τ1.allocVec false ws).1, (τ1.allocVec false ws).2, ?_, x1.trans hx, ?_⟩
      · simp only [datumStep, hc, Eval.readLiteral, e1]
      · rw [ha.1]
        exact .vec hc ha.2 (q1.mono_right hx)
    next => simp at hr
  | str s => intro hr; simp [readableStep] at hr
  | closure l e => intro hr; simp [readableStep] at hr
  | builtin b => intro hr; simp [readableStep] at hr
  | transformer r => intro hr; simp [readableStep] at hr
  | void => intro hr; simp [readableStep] at hr

theorem readsBack_datumN (σ : Store) (n : Nat) :
    ∀ v, readableN σ n v = true → ReadsBack σ v (datumN σ n v) := by
  induction n with
  | zero => exact readsBack_step σ _ _ (fun x h => by simp at h)
  | succ n ih => exact readsBack_step σ _ _ ih

/-! ## values with the same datum are structurally equal -/

theorem equalVs_of_map (σ₁ σ₂ : Store) (R₁ R₂ : Value → Bool) (D₁ D₂ : Value → Datum)
    (H : ∀ x y, R₁ x = true → R₂ y = true → D₁ x = D₂ y → EqualV σ₁ σ₂ x y) :
    ∀ xs ys : List Value, xs.all R₁ = true → ys.all R₂ = true → xs.map D₁ = ys.map D₂ →
      EqualVs σ₁ σ₂ xs ys := by
  intro xs
  induction xs with
  | nil =>
    intro ys _ _ he
    cases ys with
    | nil => exact .nil
    | cons y ys => simp at he
  | cons x xs ih =>
    intro ys h1 h2 he
    cases ys with
    | nil => simp at he
    | cons y ys =>
      simp only [List.all_cons, Bool.and_eq_true] at h1 h2
      simp only [List.map_cons, List.cons.injEq] at he
      exact .cons (H x y h1.1 h2.1 he.1) (ih ys h1.2 h2.2 he.2)

theorem datumStep_vec_shape (σ : Store) (D : Value → Datum) (id : Nat) :
    ∃ xs, datumStep σ D (.vec id) = .vec xs none := by
  simp only [datumStep]; split <;> exact ⟨_, rfl⟩

theorem equalV_step (σ₁ σ₂ : Store) (R₁ R₂ : Value → Bool) (D₁ D₂ : Value → Datum)
    (H : ∀ x y, R₁ x = true → R₂ y = true → D₁ x = D₂ y → EqualV σ₁ σ₂ x y) :
    ∀ v w, readableStep σ₁ R₁ v = true → readableStep σ₂ R₂ w = true →
      datumStep σ₁ D₁ v = datumStep σ₂ D₂ w → EqualV σ₁ σ₂ v w := by
  intro v
  induction v with
  | num x =>
    intro w hv hw he
    cases x with
    | int i =>
      cases w with
      | num y =>
        cases y with
        | int j => simp only [datumStep, Datum.prim.injEq, Prim.int.injEq, and_true] at he; subst he; exact .num _
        | rat n d => simp [datumStep] at he
        | real r => simp [readableStep] at hw
      | vec id => obtain ⟨xs, h⟩ := datumStep_vec_shape σ₂ D₂ id; rw [h] at he; simp [datumStep] at he
      | _ => first | (simp [datumStep] at he; done) | (simp [readableStep] at hw; done)
    | rat n d =>
      have hw1 : Num.WF (.rat n d) := of_decide_eq_true hv
      cases w with
      | num y =>
        cases y with
        | int j => simp [datumStep] at he
        | rat n' d' =>
          have hw2 : Num.WF (.rat n' d') := of_decide_eq_true hw
          simp only [datumStep, Datum.prim.injEq, Prim.rat.injEq, and_true] at he
          have h1 := hw1.2.2.1; have h2 := hw2.2.2.1
          obtain ⟨rfl, h3⟩ := he
          have : d = d' := by omega
          subst this; exact .num _
        | real r => simp [readableStep] at hw
      | vec id => obtain ⟨xs, h⟩ := datumStep_vec_shape σ₂ D₂ id; rw [h] at he; simp [datumStep] at he
      | _ => first | (simp [datumStep] at he; done) | (simp [readableStep] at hw; done)
    | real r => simp [readableStep] at hv
  | bool b =>
    intro w hv hw he
    cases w with
    | num y => cases y <;> first | (simp [datumStep] at he; done) | (simp [readableStep] at hw; done)
    | bool c => simp only [datumStep, Datum.prim.injEq, Prim.bool.injEq, and_true] at he; subst he; exact .bool _
    | vec id => obtain ⟨xs, h⟩ := datumStep_vec_shape σ₂ D₂ id; rw [h] at he; simp [datumStep] at he
    | _ => first | (simp [datumStep] at he; done) | (simp [readableStep] at hw; done)
  | char b =>
    intro w hv hw he
    cases w with
    | num y => cases y <;> first | (simp [datumStep] at he; done) | (simp [readableStep] at hw; done)
    | char c => simp only [datumStep, Datum.prim.injEq, Prim.chr.injEq, and_true] at he; subst he; exact .char _
    | vec id => obtain ⟨xs, h⟩ := datumStep_vec_shape σ₂ D₂ id; rw [h] at he; simp [datumStep] at he
    | _ => first | (simp [datumStep] at he; done) | (simp [readableStep] at hw; done)
  | sym s =>
    intro w hv hw he
    cases w with
    | num y => cases y <;> first | (simp [datumStep] at he; done) | (simp [readableStep] at hw; done)
    | sym c => simp only [datumStep, Datum.sym.injEq, and_true] at he; subst he; exact .sym _
    | vec id => obtain ⟨xs, h⟩ := datumStep_vec_shape σ₂ D₂ id; rw [h] at he; simp [datumStep] at he
    | _ => first | (simp [datumStep] at he; done) | (simp [readableStep] at hw; done)
  | nil =>
    intro w hv hw he
    cases w with
    | num y => cases y <;> first | (simp [datumStep] at he; done) | (simp [readableStep] at hw; done)
    | nil => exact .nil
    | vec id => obtain ⟨xs, h⟩ := datumStep_vec_shape σ₂ D₂ id; rw [h] at he; simp [datumStep] at he
    | _ => first | (simp [datumStep] at he; done) | (simp [readableStep] at hw; done)
  | pair a d iha ihd =>
    intro w hv hw he
    cases w with
    | num y => cases y <;> first | (simp [datumStep] at he; done) | (simp [readableStep] at hw; done)
    | pair a' d' =>
      simp only [readableStep, Bool.and_eq_true] at hv hw
      simp only [datumStep, Datum.pair.injEq, and_true] at he
      exact .pair (iha a' hv.1 hw.1 he.1) (ihd d' hv.2 hw.2 he.2)
    | vec id => obtain ⟨xs, h⟩ := datumStep_vec_shape σ₂ D₂ id; rw [h] at he; simp [datumStep] at he
    | _ => first | (simp [datumStep] at he; done) | (simp [readableStep] at hw; done)
  | vec id =>
    intro w hv hw he
    simp only [readableStep] at hv
    split at hv
    next c₁ hc₁ =>
      cases w with
      | num y => cases y <;> first | (simp [datumStep, hc₁] at he; done) | (simp [readableStep] at hw; done)
      | vec j =>
        simp only [readableStep] at hw
        split at hw
        next c₂ hc₂ =>
          simp only [datumStep, hc₁, hc₂, Datum.vec.injEq, and_true] at he
          exact .vec hc₁ hc₂ (equalVs_of_map σ₁ σ₂ R₁ R₂ D₁ D₂ H _ _ hv hw he)
        next => simp at hw
      | _ => first | (simp [datumStep, hc₁] at he; done) | (simp [readableStep] at hw; done)
    next => simp at hv
  | str s => intro w hv; simp [readableStep] at hv
  | closure l e => intro w hv; simp [readableStep] at hv
  | builtin b => intro w hv; simp [readableStep] at hv
  | transformer r => intro w hv; simp [readableStep] at hv
  | void => intro w hv; simp [readableStep] at hv

theorem equalV_of_datumN (σ₁ σ₂ : Store) : ∀ (n m : Nat) (v w : Value),
    readableN σ₁ n v = true → readableN σ₂ m w = true → datumN σ₁ n v = datumN σ₂ m w →
    EqualV σ₁ σ₂ v w := by
  intro n
  induction n with
  | zero =>
    intro m
    cases m with
    | zero => exact equalV_step σ₁ σ₂ _ _ _ _ (fun x y h => by simp at h)
    | succ m => exact equalV_step σ₁ σ₂ _ _ _ _ (fun x y h => by simp at h)
  | succ n ih =>
    intro m
    cases m with
    | zero => exact equalV_step σ₁ σ₂ _ _ _ _ (fun x y _ h => by simp at h)
    | succ m => exact equalV_step σ₁ σ₂ _ _ _ _ (ih m)

/-! ## more vector levels change nothing -/

theorem readableStep_mono (σ : Store) (R R' : Value → Bool) (H : ∀ x, R x = true → R' x = true) :
    ∀ v, readableStep σ R v = true → readableStep σ R' v = true := by
  intro v
  induction v with
  | pair a d iha ihd =>
    intro h
    simp only [readableStep, Bool.and_eq_true] at h ⊢
    exact ⟨iha h.1, ihd h.2⟩
  | vec id =>
    intro h
    simp only [readableStep] at h ⊢
    split at h
    next cell hc =>
      exact List.all_eq_true.2 (fun x hx => H x (List.all_eq_true.1 h x hx))
    next => simp at h
  | num x => cases x <;> exact id
  | _ => exact id

theorem datumStep_congr (σ : Store) (R : Value → Bool) (D D' : Value → Datum)
    (H : ∀ x, R x = true → D x = D' x) :
    ∀ v, readableStep σ R v = true → datumStep σ D v = datumStep σ D' v := by
  intro v
  induction v with
  | pair a d iha ihd =>
    intro h
    simp only [readableStep, Bool.and_eq_true] at h
    simp only [datumStep, iha h.1, ihd h.2]
  | vec id =>
    intro h
    simp only [readableStep] at h
    split at h
    next cell hc =>
      simp only [datumStep, hc, Datum.vec.injEq, and_true]
      exact List.map_congr_left (fun x hx => H x (List.all_eq_true.1 h x hx))
    next => simp at h
  | num x => intro _; cases x <;> rfl
  | _ => intro _; rfl

theorem readableN_succ (σ : Store) (n : Nat) :
    ∀ v, readableN σ n v = true → readableN σ (n + 1) v = true := by
  induction n with
  | zero => exact readableStep_mono σ _ _ (fun x h => by simp at h)
  | succ n ih => exact readableStep_mono σ _ _ ih

theorem datumN_succ (σ : Store) (n : Nat) :
    ∀ v, readableN σ n v = true → datumN σ (n + 1) v = datumN σ n v := by
  induction n with
  | zero => exact fun v h => (datumStep_congr σ _ _ _ (fun x h => by simp at h) v h).symm
  | succ n ih =>
    exact fun v h => (datumStep_congr σ _ _ _ (fun x hx => (ih x hx).symm) v h).symm

theorem readableN_le (σ : Store) {n m : Nat} (h : n ≤ m) (v : Value)
    (hv : readableN σ n v = true) : readableN σ m v = true := by
  induction h with
  | refl => exact hv
  | step _ ih => exact readableN_succ σ _ v ih

theorem datumN_le (σ : Store) {n m : Nat} (h : n ≤ m) (v : Value)
    (hv : readableN σ n v = true) : datumN σ m v = datumN σ n v := by
  induction h with
  | refl => rfl
  | step hm ih => rw [datumN_succ σ _ v (readableN_le σ hm v hv), ih]

theorem datumN_pair (σ : Store) (n : Nat) (a d : Value) :
    datumN σ n (.pair a d) = .pair (datumN σ n a) (datumN σ n d) none := by
  cases n <;> rfl

theorem readableN_pair (σ : Store) (n : Nat) (a d : Value) :
    readableN σ n (.pair a d) = (readableN σ n a && readableN σ n d) := by
  cases n <;> rfl

/-- a readable vector: its cell exists, its items are readable one level below -/
theorem readableN_vec (σ : Store) (n : Nat) (id : Nat) (h : readableN σ n (.vec id) = true) :
    ∃ cell, σ.vecs[id]? = some cell ∧ (∀ x ∈ cell.items, readableN σ n x = true) ∧
      datumN σ n (.vec id) = .vec (cell.items.map (datumN σ n)) none := by
  cases n with
  | zero =>
    simp only [readableN, readableStep] at h
    split at h
    next cell hc =>
      have : cell.items = [] := by
        cases hi : cell.items with
        | nil => rfl
        | cons x xs => rw [hi] at h; simp at h
      exact ⟨cell, hc, by simp [this], by simp [datumN, datumStep, hc, this]⟩
    next => simp at h
  | succ n =>
    simp only [readableN, readableStep] at h
    split at h
    next cell hc =>
      have hx := List.all_eq_true.1 h
      refine ⟨cell, hc, fun x hx' => readableN_succ σ n x (hx x hx'), ?_⟩
      simp only [datumN, datumStep, hc, Datum.vec.injEq, and_true]
      exact List.map_congr_left (fun x hx' => (datumN_succ σ n x (hx x hx')).symm)
    next => simp at h

/-! ## evaluating `'<text>` -/

theorem toStatement_quote (f : Nat) (d : Datum) (l₁ l₂ l₃ l₄ : Loc) (env : Xform.SynEnv) :
    Xform.toStatement (f + 1) (.pair (.sym "quote" l₁) (.pair d (.nil l₂) l₃) l₄) env
      = (.ok (.expr (.quote d l₄)), env) := by
  unfold Xform.toStatement
  simp [Macro.popProper, Xform.lift, bind, Datum.elems, Datum.spine, Xform.need, pure, Datum.loc]

/-- a datum that is `(quote D)` up to locations -/
theorem quote_shape (q D : Datum)
    (h : q.strip = .pair (.sym "quote" none) (.pair D (.nil none) none) none) :
    ∃ d l₁ l₂ l₃ l₄, q = .pair (.sym "quote" l₁) (.pair d (.nil l₂) l₃) l₄ ∧ d.strip = D := by
  cases q with
  | pair a r l₄ =>
    simp only [Datum.strip, Datum.pair.injEq, and_true] at h
    obtain ⟨ha, hr⟩ := h
    cases a with
    | sym s l₁ =>
      simp only [Datum.strip, Datum.sym.injEq, and_true] at ha
      subst ha
      cases r with
      | pair d n l₃ =>
        simp only [Datum.strip, Datum.pair.injEq, and_true] at hr
        obtain ⟨hd, hn⟩ := hr
        cases n with
        | nil l₂ => exact ⟨d, l₁, l₂, l₃, l₄, rfl, hd⟩
        | _ => simp [Datum.strip] at hn
      | _ => simp [Datum.strip] at hr
    | _ => simp [Datum.strip] at ha
  | _ => simp [Datum.strip] at h

theorem evalAst_quote (k : Nat) (st : Interp.State) (d : Datum) (l : Loc) (w : Value) (σ' : Store)
    (h : Eval.readLiteral st.store d = (.ok w, σ')) :
    ∃ st', Interp.evalAst (k + 1) st (.expr (.quote d l)) = (.ok (some w), st') ∧
      st'.store = σ' ∧ st'.env = st.env := by
  unfold Interp.evalAst
  by_cases hi : st.importEnd = true
  · simp [hi, Interp.evalExprOrDef, Eval.evalExpr, h]
  · simp [hi, Interp.evalExprOrDef, Eval.evalExpr, h]

theorem evalText_quote (k : Nat) (st : Interp.State) (D : Datum) (hD : SupportedD D)
    (hs : D.strip = D) (w : Value) (σ' : Store)
    (h : Eval.readLiteral st.store D = (.ok w, σ')) :
    ∃ st', Interp.evalText (k + 1) st ('\'' :: renderDatum D (printerLayout D))
        = (.ok (some w), st') ∧ st'.store = σ' ∧ st'.env = st.env := by
  have hx : (Syn.quote (Syn.ofDatum D)).Supported := ofDatum_supported D hD
  have hl : ValidLayout (Syn.quote (Syn.ofDatum D)).toks ([] :: printerLayout D) := by
    refine ⟨rfl, rfl, validLayout_printerLayout D hD⟩
  have ht : '\'' :: renderDatum D (printerLayout D)
      = interleave (Syn.quote (Syn.ofDatum D)).toks ([] :: printerLayout D) := by
    simp [Syn.toks, interleave, renderTok, renderDatum, Syn.render]
  obtain ⟨l1, l2⟩ := all_render _ _ (toks_supported _ hx) hl
  rw [← ht] at l1 l2
  generalize htext : '\'' :: renderDatum D (printerLayout D) = text at l1 l2
  obtain ⟨q, s', n1, n2, n3, n4⟩ := nextDatum_spec _ hx (Read.ofText text) (Lex.all text).1 []
    l1 (by simp [Read.ofText])
  have n4' : s'.lexErr = none := by rw [n4]; simpa [Read.ofText] using l2
  obtain ⟨s'', n5⟩ := nextDatum_end s' n3 n4'
  have hq : q.strip = .pair (.sym "quote" none) (.pair D (.nil none) none) none := by
    rw [n2]; simp [Syn.denote, ofDatum_denote, hs]
  obtain ⟨d, l₁, l₂, l₃, l₄, rfl, hd⟩ := quote_shape q D hq
  have hr : Eval.readLiteral st.store d = (.ok w, σ') := by
    rw [← readLiteral_strip d, hd]; exact h
  obtain ⟨st', a1, a2, a3⟩ := evalAst_quote k { st with syn := st.syn } d l₄ w σ' hr
  have hlen : ∃ m, (Read.ofText text).toks.length = m + 1 := by
    have : ((Lex.all text).1.map (·.tok)).length = (Syn.quote (Syn.ofDatum D)).toks.length := by
      rw [l1]
    simp only [List.length_map, Syn.toks, List.length_cons] at this
    exact ⟨_, by simpa [Read.ofText] using this⟩
  obtain ⟨m, hm⟩ := hlen
  refine ⟨st', ?_, a2, a3⟩
  unfold Interp.evalText
  simp only [hm]
  unfold Interp.evalText.go
  simp only [n1]
  have hf : Xform.xformFuel (.pair (.sym "quote" l₁) (.pair d (.nil l₂) l₃) l₄)
      = (8 * (Datum.pair (.sym "quote" l₁) (.pair d (.nil l₂) l₃) l₄).size + 3999) + 1 := rfl
  rw [hf, toStatement_quote]
  simp only [a1]
  unfold Interp.evalText.go
  simp only [n5]

/-! ## `Readable` is the inductive predicate `ReadableI`: nesting deeper than the number of
cells means a cycle -/

theorem readableI_step (σ : Store) (R : Value → Bool) (H : ∀ x, R x = true → ReadableI σ x) :
    ∀ v, readableStep σ R v = true → ReadableI σ v := by
  intro v
  induction v with
  | num x =>
    intro h
    cases x with
    | int i => exact .int i h
    | rat n d => exact .rat n d (of_decide_eq_true h)
    | real r => simp [readableStep] at h
  | bool b => intro _; exact .bool b
  | char c => intro _; exact .char c
  | sym s => intro h; exact .sym s h
  | nil => intro _; exact .nil
  | pair a d iha ihd =>
    intro h
    simp only [readableStep, Bool.and_eq_true] at h
    exact .pair (iha h.1) (ihd h.2)
  | vec id =>
    intro h
    simp only [readableStep] at h
    split at h
    next cell hc =>
      refine .vec hc ?_
      have hall := List.all_eq_true.1 h
      generalize cell.items = items at hall
      induction items with
      | nil => exact .nil
      | cons x xs ih =>
        exact .cons (H x (hall x (by simp))) (ih (fun y hy => hall y (by simp [hy])))
    next => simp at h
  | str s => intro h; simp [readableStep] at h
  | closure l e => intro h; simp [readableStep] at h
  | builtin b => intro h; simp [readableStep] at h
  | transformer r => intro h; simp [readableStep] at h
  | void => intro h; simp [readableStep] at h

theorem readableI_of_readableN (σ : Store) (n : Nat) :
    ∀ v, readableN σ n v = true → ReadableI σ v := by
  induction n with
  | zero => exact readableI_step σ _ (fun x h => by simp at h)
  | succ n ih => exact readableI_step σ _ ih

mutual
theorem readableN_of_readableI (σ : Store) : ∀ {v : Value}, ReadableI σ v →
    ∃ n, readableN σ n v = true
  | _, .int i h => ⟨0, h⟩
  | _, .rat n d h => ⟨0, decide_eq_true h⟩
  | _, .bool b => ⟨0, rfl⟩
  | _, .char c => ⟨0, rfl⟩
  | _, .sym s h => ⟨0, h⟩
  | _, .nil => ⟨0, rfl⟩
  | _, .pair ha hd => by
    obtain ⟨n, hn⟩ := readableN_of_readableI σ ha
    obtain ⟨m, hm⟩ := readableN_of_readableI σ hd
    refine ⟨max n m, ?_⟩
    rw [readableN_pair, Bool.and_eq_true]
    exact ⟨readableN_le σ (Nat.le_max_left n m) _ hn, readableN_le σ (Nat.le_max_right n m) _ hm⟩
  | _, .vec (cell := cell) hc hs => by
    obtain ⟨n, hn⟩ := readableNs_of_readableIs σ hs
    refine ⟨n + 1, ?_⟩
    simp only [readableN, readableStep, hc]
    exact List.all_eq_true.2 hn
theorem readableNs_of_readableIs (σ : Store) : ∀ {vs : List Value}, ReadableIs σ vs →
    ∃ n, ∀ x ∈ vs, readableN σ n x = true
  | _, .nil => ⟨0, by simp⟩
  | _, .cons hx hxs => by
    obtain ⟨n, hn⟩ := readableN_of_readableI σ hx
    obtain ⟨m, hm⟩ := readableNs_of_readableIs σ hxs
    refine ⟨max n m, ?_⟩
    intro y hy
    rcases List.mem_cons.1 hy with rfl | hy
    · exact readableN_le σ (Nat.le_max_left n m) _ hn
    · exact readableN_le σ (Nat.le_max_right n m) _ (hm y hy)
end

/-- if two consecutive levels agree on all vectors, they agree on all values -/
theorem stab_step (σ : Store) (k : Nat)
    (H : ∀ id, readableN σ (k + 1) (.vec id) = readableN σ k (.vec id)) :
    ∀ x, readableN σ (k + 1) x = readableN σ k x := by
  intro x
  induction x with
  | pair a d iha ihd => rw [readableN_pair, readableN_pair, iha, ihd]
  | vec id => exact H id
  | num y => cases k <;> cases y <;> rfl
  | _ => cases k <;> rfl

theorem stab_next (σ : Store) (k : Nat)
    (H : ∀ id, readableN σ (k + 1) (.vec id) = readableN σ k (.vec id)) :
    ∀ id, readableN σ (k + 2) (.vec id) = readableN σ (k + 1) (.vec id) := by
  intro id
  have h := stab_step σ k H
  show readableStep σ (readableN σ (k + 1)) (.vec id) = readableStep σ (readableN σ k) (.vec id)
  simp only [readableStep]
  split
  · have : readableN σ (k + 1) = readableN σ k := funext h
    rw [this]
  · rfl

theorem stab_all (σ : Store) (k : Nat)
    (H : ∀ id, readableN σ (k + 1) (.vec id) = readableN σ k (.vec id)) :
    ∀ j, k ≤ j → ∀ x, readableN σ j x = readableN σ k x := by
  intro j hj
  induction hj with
  | refl => intro x; rfl
  | @step m hm ih =>
    intro x
    have Hm : ∀ id, readableN σ (m + 1) (.vec id) = readableN σ m (.vec id) := by
      clear ih
      induction hm with
      | refl => exact H
      | step _ ih' => exact stab_next σ _ ih'
    rw [stab_step σ m Hm x, ih x]

theorem countP_eq_imp {α} (p q : α → Bool) (l : List α) (hpq : ∀ x ∈ l, p x = true → q x = true)
    (hc : l.countP p = l.countP q) : ∀ x ∈ l, q x = true → p x = true := by
  induction l with
  | nil => intro x hx; cases hx
  | cons a l ih =>
    have hle : l.countP p ≤ l.countP q :=
      List.countP_mono_left (fun x hx => hpq x (by simp [hx]))
    simp only [List.countP_cons] at hc
    by_cases hp : p a = true
    · have hq := hpq a (by simp) hp
      simp only [hp, hq, if_true] at hc
      intro x hx hqx
      rcases List.mem_cons.1 hx with rfl | hx
      · exact hp
      · exact ih (fun y hy => hpq y (by simp [hy])) (by omega) x hx hqx
    · by_cases hq : q a = true
      · simp only [hp, hq, if_true] at hc
        simp at hc
        omega
      · simp only [hp, hq] at hc
        intro x hx hqx
        rcases List.mem_cons.1 hx with rfl | hx
        · exact absurd hqx hq
        · exact ih (fun y hy => hpq y (by simp [hy])) (by simpa using hc) x hx hqx

/-- number of cells whose vector is readable at level `k` -/
def lvlCount (σ : Store) (k : Nat) : Nat :=
  (List.range σ.vecs.size).countP (fun id => readableN σ k (.vec id))

theorem lvlCount_le (σ : Store) (k : Nat) : lvlCount σ k ≤ σ.vecs.size := by
  have := List.countP_le_length (p := fun id => readableN σ k (.vec id)) (l := List.range σ.vecs.size)
  simpa [lvlCount] using this

theorem lvlCount_mono (σ : Store) (k : Nat) : lvlCount σ k ≤ lvlCount σ (k + 1) :=
  List.countP_mono_left (fun _ _ h => readableN_succ σ k _ h)

theorem readableN_vec_oob (σ : Store) (k id : Nat) (h : σ.vecs.size ≤ id) :
    readableN σ k (.vec id) = false := by
  have : σ.vecs[id]? = none := Array.getElem?_eq_none h
  cases k <;> simp [readableN, readableStep, this]

theorem lvl_stable_of_count (σ : Store) (k : Nat) (h : lvlCount σ k = lvlCount σ (k + 1)) :
    ∀ id, readableN σ (k + 1) (.vec id) = readableN σ k (.vec id) := by
  intro id
  rcases Nat.lt_or_ge id σ.vecs.size with hid | hid
  · have := countP_eq_imp (fun id => readableN σ k (.vec id))
      (fun id => readableN σ (k + 1) (.vec id)) (List.range σ.vecs.size)
      (fun i _ h => readableN_succ σ k _ h) h id (List.mem_range.2 hid)
    cases h1 : readableN σ (k + 1) (.vec id) with
    | true => exact (this h1).symm
    | false =>
      cases h2 : readableN σ k (.vec id) with
      | false => rfl
      | true => rw [readableN_succ σ k _ h2] at h1; cases h1
  · rw [readableN_vec_oob σ _ id hid, readableN_vec_oob σ _ id hid]

theorem exists_stable (σ : Store) : ∃ k, k ≤ σ.vecs.size ∧ lvlCount σ k = lvlCount σ (k + 1) := by
  apply Classical.byContradiction
  intro hne
  have hne' : ∀ k, k ≤ σ.vecs.size → lvlCount σ k ≠ lvlCount σ (k + 1) :=
    fun k hk he => hne ⟨k, hk, he⟩
  have grow : ∀ m, m ≤ σ.vecs.size + 1 → m ≤ lvlCount σ m := by
    intro m
    induction m with
    | zero => intro _; exact Nat.zero_le _
    | succ m ih =>
      intro hm
      have h1 := ih (by omega)
      have h2 := lvlCount_mono σ m
      have h3 := hne' m (by omega)
      omega
  have := grow (σ.vecs.size + 1) (Nat.le_refl _)
  have := lvlCount_le σ (σ.vecs.size + 1)
  omega

/-- PIGEONHOLE: whatever is readable at some level is readable at level `σ.vecs.size` -/
theorem readableN_size (σ : Store) (n : Nat) (v : Value) (h : readableN σ n v = true) :
    readableN σ σ.vecs.size v = true := by
  rcases Nat.le_total n σ.vecs.size with hn | hn
  · exact readableN_le σ hn v h
  · obtain ⟨k, hk, hc⟩ := exists_stable σ
    have hs := stab_all σ k (lvl_stable_of_count σ k hc)
    rw [hs n (by omega) v] at h
    exact readableN_le σ hk v h

theorem readable_iff_readableI (σ : Store) (v : Value) : Readable σ v ↔ ReadableI σ v :=
  ⟨readableI_of_readableN σ _ v, fun h => by
    obtain ⟨n, hn⟩ := readableN_of_readableI σ h
    exact readableN_size σ n v hn⟩

/-! ## the datum does not depend on the level; equal values have the same datum -/

theorem datumOf_eq_datumN (σ : Store) (n : Nat) (v : Value) (h : readableN σ n v = true) :
    datumN σ n v = datumOf σ v := by
  unfold datumOf
  rcases Nat.le_total n σ.vecs.size with hn | hn
  · exact (datumN_le σ hn v h).symm
  · exact datumN_le σ hn v (readableN_size σ n v h)

theorem equalVs_same (σ₁ σ₂ : Store) (R₁ R₂ : Value → Bool) (D₁ D₂ : Value → Datum)
    (H : ∀ x y, EqualV σ₁ σ₂ x y → R₁ x = true → R₂ y = true ∧ D₂ y = D₁ x) :
    ∀ {xs ys : List Value}, EqualVs σ₁ σ₂ xs ys → xs.all R₁ = true →
      ys.all R₂ = true ∧ ys.map D₂ = xs.map D₁
  | _, _, .nil, _ => ⟨rfl, rfl⟩
  | _, _, .cons hx hxs, h => by
    simp only [List.all_cons, Bool.and_eq_true] at h
    obtain ⟨a1, a2⟩ := H _ _ hx h.1
    obtain ⟨b1, b2⟩ := equalVs_same σ₁ σ₂ R₁ R₂ D₁ D₂ H hxs h.2
    simp [a1, a2, b1, b2]

theorem equal_step (σ₁ σ₂ : Store) (R₁ R₂ : Value → Bool) (D₁ D₂ : Value → Datum)
    (H : ∀ x y, EqualV σ₁ σ₂ x y → R₁ x = true → R₂ y = true ∧ D₂ y = D₁ x) :
    ∀ {v w : Value}, EqualV σ₁ σ₂ v w → readableStep σ₁ R₁ v = true →
      readableStep σ₂ R₂ w = true ∧ datumStep σ₂ D₂ w = datumStep σ₁ D₁ v
  | _, _, .num x, h => by cases x <;> exact ⟨h, rfl⟩
  | _, _, .bool b, h => ⟨h, rfl⟩
  | _, _, .char c, h => ⟨h, rfl⟩
  | _, _, .str s, h => ⟨h, rfl⟩
  | _, _, .sym s, h => ⟨h, rfl⟩
  | _, _, .nil, h => ⟨h, rfl⟩
  | _, _, .pair ha hd, h => by
    simp only [readableStep, Bool.and_eq_true] at h
    obtain ⟨a1, a2⟩ := equal_step σ₁ σ₂ R₁ R₂ D₁ D₂ H ha h.1
    obtain ⟨b1, b2⟩ := equal_step σ₁ σ₂ R₁ R₂ D₁ D₂ H hd h.2
    simp [readableStep, datumStep, a1, a2, b1, b2]
  | _, _, .vec h1 h2 hs, h => by
    simp only [readableStep, h1] at h
    obtain ⟨a1, a2⟩ := equalVs_same σ₁ σ₂ R₁ R₂ D₁ D₂ H hs h
    simp [readableStep, datumStep, h1, h2, a1, a2]

theorem equal_datumN (σ₁ σ₂ : Store) (n : Nat) : ∀ v w, EqualV σ₁ σ₂ v w →
    readableN σ₁ n v = true → readableN σ₂ n w = true ∧ datumN σ₂ n w = datumN σ₁ n v := by
  induction n with
  | zero => exact fun v w he h => equal_step σ₁ σ₂ _ _ _ _ (fun x y _ hx => by simp at hx) he h
  | succ n ih => exact fun v w he h => equal_step σ₁ σ₂ _ _ _ _ ih he h

/-- structurally equal values: if one is readable so is the other, with the same datum -/
theorem equal_datumOf (σ₁ σ₂ : Store) (v w : Value) (he : EqualV σ₁ σ₂ v w)
    (hv : Readable σ₁ v) : Readable σ₂ w ∧ datumOf σ₂ w = datumOf σ₁ v := by
  obtain ⟨h1, h2⟩ := equal_datumN σ₁ σ₂ _ v w he hv
  exact ⟨readableN_size σ₂ _ w h1, by rw [← datumOf_eq_datumN σ₂ _ w h1, h2]; rfl⟩

end Ruschm.Print

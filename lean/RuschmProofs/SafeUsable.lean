/-
Helper lemmas for C07 (3): the probe `((lambda (x) x) 42)` evaluates to 42 in EVERY interpreter
state, whatever the store, the syntax environment, the libraries — the closed computation of the
reader and of `toStatement` on the text, and the evaluator on the resulting expression.
-/
import RuschmProofs.StoreLemmas
import RuschmModel.Interp

namespace Ruschm.Usable
open Ruschm

def txt : List Char :=
  ['(', '(', 'l', 'a', 'm', 'b', 'd', 'a', ' ', '(', 'x', ')', ' ', 'x', ')', ' ', '4', '2', ')']

theorem txt_eq : "((lambda (x) x) 42)".toList = txt := by decide
def toks : List LToken := [⟨.lparen, some (1, 2)⟩, ⟨.lparen, some (1, 3)⟩, ⟨.ident "lambda", some (1, 9)⟩,
  ⟨.lparen, some (1, 11)⟩, ⟨.ident "x", some (1, 12)⟩, ⟨.rparen, some (1, 13)⟩, ⟨.ident "x", some (1, 15)⟩,
  ⟨.rparen, some (1, 16)⟩, ⟨.prim (.int 42), some (1, 19)⟩, ⟨.rparen, some (1, 20)⟩]

set_option maxRecDepth 10000 in
theorem lex_txt : Lex.all txt = (toks, none) := by
  simp [txt, toks, Lex.all, Lex.allAux, Lex.next, Lex.skipAtmosphere, Lex.token, Lex.adv, Lex.isWs,
    Lex.normalIdentifier, Lex.takeRun, Lex.isSubsequent, Lex.isInitial, Lex.isLetter, Lex.isDigit,
    Lex.number, Lex.integerToken, Lex.parseI32?, Lex.digitsVal, fitsI32, Lex.testDelimiter, Lex.isDelimiter,
    Except.map, bind, Except.bind, pure, Except.pure]

def d0 : Datum :=
  .pair (.pair (.sym "lambda" (some (1, 9)))
      (.pair (.pair (.sym "x" (some (1, 12))) (.nil none) (some (1, 11)))
        (.pair (.sym "x" (some (1, 15))) (.nil none) none) none) (some (1, 3)))
    (.pair (.prim (.int 42) (some (1, 19))) (.nil none) none) (some (1, 2))

def s0 : Read.PState := { toks := toks, lexErr := none }
def s1 : Read.PState := { toks := [], lexErr := none, cur := some ⟨.rparen, some (1, 20)⟩, loc := some (1, 20) }

theorem ofText_txt : Read.ofText txt = s0 := by
  simp [Read.ofText, lex_txt, s0]

set_option maxRecDepth 10000 in
theorem next0 : Read.nextDatum s0 = .ok (some d0, s1) := by
  simp [Read.nextDatum, s0, s1, d0, toks, Read.advance, Read.fuelFor, Read.currentDatum, Read.listOrPair, Read.listLoop,
    Read.advanceUnwrap, Read.snoc, Datum.withLoc, bind, Except.bind, pure, Except.pure]

theorem next1 : Read.nextDatum s1 = .ok (none, { s1 with cur := none, loc := none }) := by
  simp [Read.nextDatum, s1, Read.advance, Read.fuelFor, Read.currentDatum, bind, Except.bind]


def lam0 : Lambda := .mk ⟨["x"], none⟩ [] [.sym "x" (some (1, 15))]
def e0 : Expr := .call (.lambda lam0 (some (1, 3))) [.prim (.int 42) (some (1, 19))] (some (1, 2))
def stmt0 : Statement := .expr e0

theorem xform0 (env : Xform.SynEnv) : Xform.toStatement 4104 d0 env = (.ok stmt0, env) := by
  rfl

theorem lookup_define_self (σ : Store) {ρ : Nat} (x : String) (v : Value) (hρ : ρ < σ.frames.size) :
    (σ.define ρ x v).lookup ρ x = some v := by
  unfold Store.lookup
  rw [Store.lookupAux]
  rw [Store.define_frames_getElem?]
  have : σ.frames[ρ]? = some σ.frames[ρ] := by simp [hρ]
  simp [this, Store.lookup_defsInsert]


theorem eval_e0 (n : Nat) (σ : Store) (ρ : Nat) :
    (Eval.evalExpr (n + 7) σ ρ e0).1 = .ok (.num (.int 42)) := by
  have hl := lookup_define_self (Eval.enter σ |>.newFrame (some ρ)).2 "x" (.num (.int 42))
    (ρ := σ.frames.size) (by simp [Store.newFrame, Eval.enter])
  simp only [e0, lam0, Eval.evalExpr, Eval.evalArgs, Eval.evalPrim, Eval.procArity, Lambda.formals,
    Eval.applyProcedure, Eval.applyLoop, Eval.arityOk, Eval.applyScheme, Eval.bindFixed, Eval.evalDefs,
    Eval.evalBody, Eval.evalTail, Lambda.defs, Lambda.body]
  simp [Store.newFrame, Eval.enter] at hl ⊢
  rw [hl]


theorem fuel_d0 : Xform.xformFuel d0 = 4104 := by decide

open Interp in
theorem evalAst_stmt0 (n : Nat) (st : State) :
    (evalAst (n + 7) st stmt0).1 = .ok (some (.num (.int 42))) := by
  unfold evalAst stmt0 evalExprOrDef
  have h1 := eval_e0 n st.store st.env
  cases st.importEnd <;> simp only [Bool.not_false, Bool.not_true, if_true, Bool.false_eq_true, if_false]
  · generalize Eval.evalExpr (n + 7) st.store st.env e0 = x at h1
    obtain ⟨r, σ⟩ := x
    simp only at h1; subst h1; rfl
  · generalize Eval.evalExpr (n + 7) st.store st.env e0 = x at h1
    obtain ⟨r, σ⟩ := x
    simp only at h1; subst h1; rfl

open Interp in
/-- the probe evaluates to 42 from every state, with any fuel from 7 up -/
theorem evalText_probe (n : Nat) (st : State) :
    (evalText (n + 7) st "((lambda (x) x) 42)".toList).1 = .ok (some (.num (.int 42))) := by
  rw [txt_eq]
  unfold evalText
  simp only [ofText_txt]
  have hlen : s0.toks.length + 1 = 11 := by decide
  rw [hlen, evalText.go, next0]
  simp only [fuel_d0, xform0]
  have h := evalAst_stmt0 n { st with syn := st.syn }
  generalize evalAst (n + 7) { st with syn := st.syn } stmt0 = x at h
  obtain ⟨r, st'⟩ := x
  simp only at h; subst h
  simp only
  rw [evalText.go, next1]

end Ruschm.Usable

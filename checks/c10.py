"""C10 — numeric comparison is the mathematical order.
Theorems: lean/RuschmProofs/C10.lean. Tie: all ordered pairs of the operand grid (and triples of a
sub-grid) under = < > <= >= max min eqv?, real interpreter vs model vs exact rationals."""
import random
from . import common as C
from . import numgrid as G
from . import c09

PROP = "C10"
MODULES = ["RuschmProofs.C10", "RuschmProofs.C10More", "RuschmProofs.C10Eqv"]
CMP = ["=", "<", ">", "<=", ">="]


def forms(tier, rng):
    return c09.build_forms(tier, rng, unary=CMP + ["max", "min"], binary=CMP + ["max", "min", "eqv?"],
                           ternary=CMP + ["max", "min"])


def run(rep, tier, rng):
    c09.run(rep, tier, rng, forms=forms(tier, rng), oracle="cmp")


def main(tier, seed):
    rep = C.Report(PROP, tier, seed)
    rng = random.Random(seed)
    rep.cov["rule"] = ("all ordered pairs of the %d-expression operand grid under = < > <= >= max min eqv?, ordered triples "
                       "of a sub-grid under the n-ary predicates and max/min, plus random exact operands near the i32 "
                       "boundaries; a case is an (operation, operand values) tuple, counted once") % len(G.OPERANDS)
    rep.cov["exhaustive"] = True
    rep.assumptions = ["operand values are obtained from the real interpreter and fed to the model"]
    ok = C.standard_proof_phase(rep, MODULES, directed_search=lambda r: run(r, tier, rng))
    if ok:
        run(rep, tier, rng)
    return rep.finish("cd lean && lake build RuschmProofs.C10 && lake env lean <#print axioms of every theorem in RuschmProofs/C10.lean>")

/-
Property C16 — what `display` prints can be read back.

"The text display produces for a value built from booleans, exact integers and ratios, finite
reals, characters, plain symbols, proper and improper lists and vectors is valid source text that,
quoted and read back, yields an equal value of the same exactness. Lists print with single spaces
and a dotted tail only when improper, nested structure is preserved, and distinct values print
differently."

Only property theorems live here (each is audited with `#print axioms`); helper lemmas are in
`RuschmProofs/PrintLemmas.lean`. The vocabulary (`Readable`, `datumOf`, `showDatum`,
`printerLayout`, `EqualV`, `Enough`, `consTail`, …) is defined in `RuschmSpec/Print.lean`; the
model of the Rust code is `Prim.display` (`Display for Value`, `RuschmModel/Prim.lean`), `Read.all`
(`RuschmModel/Read.lean`) and `Eval.readLiteral` (`RuschmModel/Eval.lean`).

REALS ARE NOT COVERED: the model prints a placeholder for them (`{:?}` of `f32` is not modelled),
so `Readable` excludes them; the correspondence check validates reals against the real code by
round trip.
-/
import RuschmProofs.PrintLemmas
import RuschmProofs.C06

namespace Ruschm.C16
open Ruschm Ruschm.Text Ruschm.Print Ruschm.Print.Samples

/-! ## 1. The shape of printed lists (all values, readable or not) -/

/-- A proper list prints as `(` its elements separated by single spaces `)`: no dot, no other
blanks. For *all* values `xs`; `f` is any fuel that is enough for each element. -/
theorem list_format_proper (σ : Store) (f : Nat) (x : Value) (xs : List Value)
    (hx : ∀ y ∈ x :: xs, Enough σ f y) (F : Nat) (hF : f + (x :: xs).length < F) :
    Prim.display σ F (Value.ofList (x :: xs))
      = "(" ++ " ".intercalate ((x :: xs).map (Prim.display σ f)) ++ ")" := by
  have h := display_consTail σ f x xs .nil hx (Or.inl rfl) F hF
  have e : ∀ ys : List Value, consTail ys .nil = Value.ofList ys := by
    intro ys; induction ys with
    | nil => rfl
    | cons y ys ih => simp only [consTail, List.foldr_cons, Value.ofList] at ih ⊢; rw [ih]
  rw [e] at h
  simpa [endText] using h

/-- An improper list `(x₁ … xₙ . t)` (`t` neither a pair nor `()`) prints as `(` its elements
separated by single spaces, then ` . `, then the tail, then `)`. -/
theorem list_format_dotted (σ : Store) (f : Nat) (x : Value) (xs : List Value) (t : Value)
    (hx : ∀ y ∈ x :: xs, Enough σ f y) (ht : isAtomic t = true) (ht' : Enough σ f t)
    (F : Nat) (hF : f + (x :: xs).length < F) :
    Prim.display σ F (consTail (x :: xs) t)
      = "(" ++ " ".intercalate ((x :: xs).map (Prim.display σ f)) ++ " . "
          ++ Prim.display σ f t ++ ")" := by
  have h := display_consTail σ f x xs t hx (Or.inr ⟨ht, ht'⟩) F hF
  have : endText σ f t = " . " ++ Prim.display σ f t := by
    cases t <;> first | rfl | simp [isAtomic] at ht
  rw [this] at h
  simpa [String.append_assoc] using h

/-- The defining equations behind the two theorems above, with the exact fuel of every call:
the empty list, a last element, a middle element, a dotted tail. -/
theorem list_format (σ : Store) (f : Nat) (a d : Value) :
    Prim.display σ (f + 1) .nil = "()" ∧
      Prim.display σ (f + 1) (.pair a d)
        = "(" ++ Prim.display σ f a ++ Prim.displayTail σ f d ++ ")" ∧
      Prim.displayTail σ (f + 1) .nil = "" ∧
      Prim.displayTail σ (f + 1) (.pair a d)
        = " " ++ Prim.display σ f a ++ Prim.displayTail σ f d ∧
      (isAtomic d = true → Prim.displayTail σ (f + 1) d = " . " ++ Prim.display σ f d) :=
  ⟨rfl, rfl, rfl, rfl, displayTail_atomic σ f d⟩

/-- `(a b . c)` prints as `(` a ` ` b ` . ` c `)` -/
example (σ : Store) (f : Nat) (a b c : Value) (hc : isAtomic c = true) :
    Prim.display σ (f + 3) (.pair a (.pair b c))
      = "(" ++ Prim.display σ (f + 2) a ++ (" " ++ Prim.display σ (f + 1) b
          ++ (" . " ++ Prim.display σ f c)) ++ ")" := by
  rw [(list_format σ (f + 2) a (.pair b c)).2.1, (list_format σ (f + 1) b c).2.2.2.1,
    (list_format σ f b c).2.2.2.2 hc]

/-! ## 2. `display` writes the datum of the value, under the printer's layout -/

/-- DISPLAY_IS_RENDER. For a readable value and enough fuel (at least the number of nodes of its
datum), the text `display` prints is the canonical written form of the datum `datumOf σ v` under
the printer's layout — no blank after `(` / `#(` and before `)`, one space between any other two
tokens (so ` . ` before an improper tail) —, that layout is valid and all atoms of the datum are
supported tokens: the output of `display` is one of the texts the theorems of C06 cover. -/
theorem display_is_render (σ : Store) (v : Value) (fuel : Nat) (hv : Readable σ v)
    (hf : (datumOf σ v).size ≤ fuel) :
    (Prim.display σ fuel v).toList = renderDatum (datumOf σ v) (printerLayout (datumOf σ v)) ∧
      ValidLayout (Syn.ofDatum (datumOf σ v)).toks (printerLayout (datumOf σ v)) ∧
      SupportedD (datumOf σ v) := by
  have hs := supportedD_datumN σ _ v hv
  exact ⟨by rw [renderDatum_printerLayout]; exact display_datumN σ _ v fuel hv hf,
    validLayout_printerLayout _ hs, hs⟩

/-- The same without the vocabulary of C06: `display` prints what the specification's printer
`showDatum` writes for the datum. -/
theorem display_is_show (σ : Store) (v : Value) (fuel : Nat) (hv : Readable σ v)
    (hf : (datumOf σ v).size ≤ fuel) :
    Prim.display σ fuel v = String.ofList (showDatum (datumOf σ v)) := by
  apply String.toList_injective
  rw [String.toList_ofList]
  exact display_datumN σ _ v fuel hv hf

/-- More fuel than the size of the datum prints the same text: the fuel `100000` the `display`
procedure and the REPL use is enough for every value with fewer nodes. -/
theorem display_fuel_enough (σ : Store) (v : Value) (hv : Readable σ v) :
    Enough σ (datumOf σ v).size v :=
  enough_of_readableN σ _ v hv

section Example
/- `Samples.value` = `(1 -1/2 #\a (x . y) #(#t ()))`, the vector in cell 1 of `Samples.store` -/
example : Readable store value := by decide
example : datumOf store value = datum := rfl
example : (datumOf store value).size = 15 := by decide
example : printerLayout datum
    = [[], [], [' '], [' '], [' '], [], [' '], [' '], [], [' '], [], [' '], [], [], [], []] := by
  decide

example : Prim.display store 100000 value = text := by
  have h := display_is_show store value 100000 (by decide) (by decide)
  rw [h]; decide
end Example

/-! ## 3. The printed text is valid source text: it reads back as one datum -/

/-- DISPLAY_READ_ROUNDTRIP. The text `display` prints for a readable value is read by the reader
without error as exactly one datum, and that datum is — up to source locations — `datumOf σ v`.
(By `C06.read_render_datum` applied to `display_is_render`.) -/
theorem display_read_roundtrip (σ : Store) (v : Value) (fuel : Nat) (hv : Readable σ v)
    (hf : (datumOf σ v).size ≤ fuel) :
    ∃ d, Read.all (Prim.display σ fuel v).toList = ([d], none) ∧
      d.strip = (datumOf σ v).strip := by
  obtain ⟨ht, hl, hs⟩ := display_is_render σ v fuel hv hf
  have h := C06.read_render_datum (datumOf σ v) hs _ hl
  rw [← ht] at h
  rcases hr : Read.all (Prim.display σ fuel v).toList with ⟨ds, e⟩
  rw [hr] at h
  obtain ⟨h1, h2⟩ := h
  simp only at h1 h2
  subst h2
  cases ds with
  | nil => simp at h1
  | cons d ds =>
    cases ds with
    | nil =>
      simp only [List.map_cons, List.map_nil, List.cons.injEq, and_true] at h1
      exact ⟨d, rfl, h1⟩
    | cons d' ds => simp at h1

/-- The datum of a value carries no source locations, so "up to locations" can be dropped on
that side. -/
theorem datumOf_strip (σ : Store) (v : Value) : (datumOf σ v).strip = datumOf σ v :=
  strip_datumN σ _ v

/-- the sample text reads back as one datum, the sample datum -/
example : ∃ d, Read.all text.toList = ([d], none) ∧ d.strip = datum := by
  have h := display_read_roundtrip store value 100000 (by decide) (by decide)
  have e : Prim.display store 100000 value = text := by
    rw [display_is_show store value 100000 (by decide) (by decide)]; decide
  rw [e, datumOf_strip] at h
  exact h

end Ruschm.C16

/-
Declarative specification of the READER (the datum half of `src/parser/parser.rs`,
modelled in `RuschmModel/Read.lean`): which token sequences are written data, and which datum
each of them denotes.

`Parses ts d rest` — "the tokens `ts`, standing in front of the tokens `rest`, are one written
datum, and that datum is `d`" — is an inductive grammar over *tokens* (no locations, no fuel, no
parser state). Its first six constructors are the productions of R7RS 7.1.2

    <datum>          → <simple datum> | <compound datum>
    <simple datum>   → <boolean> | <number> | <character> | <string> | <symbol>
    <compound datum> → <list> | <vector> | <abbreviation>
    <list>           → ( <datum>* ) | ( <datum>+ . <datum> )
    <vector>         → #( <datum>* )
    <abbreviation>   → ' <datum>

restricted to what Ruschm reads at all (see "Missing productions" below). The remaining three
constructors, all named `quirk…`, are token sequences that R7RS does NOT derive but the reader
accepts; each of them is a deviation of Ruschm from R7RS 7.1.2 (Rust: `current_list_or_pair`
looks at its `encounter_period` flag only when an element arrives and the list is non-empty):

* `quirkDotClose`        `(a b . )` reads as `(a b)`, `( . )` as `()`;
* `quirkLeadingDot`      `( . a)` reads as `(a)` — it is NOT an error;
* `quirkLeadingDotPair`  `( . a b)` reads as `(a . b)`.

Everything else — `)` or `.` where a datum should start, two dots, anything but `)` after a dotted
tail, the end of the input inside a list or after `'` — has no derivation, i.e. is an error.

The theorems relating `Parses` to the model reader are in `RuschmProofs/C06Read.lean`:
soundness (the reader only returns what `Parses` allows), completeness (every `Parses` derivation
is read, with fuel `2 * ts.length`), determinism, and the error cases.

Data carry no source locations here (`none` everywhere); the reader's result is compared after
`Datum.strip`.

### Missing productions (R7RS forms the reader rejects)

* `` ` `` `,` `,@` (the other three `<abbreviation>`s) are tokens of the lexer but the reader
  rejects them wherever a datum is expected;
* `#u8(` (`<bytevector>`) is a token of the lexer but the reader rejects it;
* labels `#n=` / `#n#` are not even tokens.
These are *absent* constructors; `C06Read.reject_unsupported_head` proves the rejection.
-/
import RuschmSpec.Text

namespace Ruschm.ReadSpec
open Ruschm

/-- `(x₁ x₂ … xₙ . tl)`: the chain of pairs over `xs` ending in `tl` (no locations) -/
def improper : List Datum → Datum → Datum
  | [], tl => tl
  | x :: xs, tl => .pair x (improper xs tl) none

/-- the proper list `(x₁ … xₙ)` -/
def proper (xs : List Datum) : Datum := improper xs (.nil none)

/-- `(quote d)`, what the abbreviation `'d` denotes -/
def quoteForm (d : Datum) : Datum :=
  .pair (.sym "quote" none) (.pair d (.nil none) none) none

mutual
/-- `Parses ts d rest`: in front of `rest`, the tokens `ts` are exactly one written datum, `d`.

`rest` is threaded through the derivation so that every sub-derivation states the true context
of its part (`C06Read.parses_frame_independent`: the context never matters — the reader has no lookahead
beyond the datum). -/
inductive Parses : List Token → Datum → List Token → Prop
  /-- `<simple datum>` other than symbols: a boolean, number, character or string token denotes
  itself -/
  | prim (p : Prim) (rest : List Token) : Parses [.prim p] (.prim p none) rest
  /-- `<symbol>`: an identifier token denotes the symbol of that name -/
  | ident (a : String) (rest : List Token) : Parses [.ident a] (.sym a none) rest
  /-- `( <datum>* )` denotes the proper list of the data -/
  | list {ts : List Token} {ds : List Datum} {rest : List Token} :
      ParsesSeq ts ds (.rparen :: rest) →
      Parses (.lparen :: (ts ++ [.rparen])) (proper ds) rest
  /-- `( <datum>+ . <datum> )` denotes the chain of pairs ending in the last datum. (When that
  last datum is itself a list, this *is* the longer list: `(a . (b c))` = `(a b c)` — as in R7RS;
  see `C06Read.dotted_list_tail`.) -/
  | dotted {ts tt : List Token} {ds : List Datum} {tl : Datum} {rest : List Token} :
      ParsesSeq ts ds (.period :: (tt ++ .rparen :: rest)) → ds ≠ [] →
      Parses tt tl (.rparen :: rest) →
      Parses (.lparen :: (ts ++ .period :: (tt ++ [.rparen]))) (improper ds tl) rest
  /-- `#( <datum>* )` denotes the vector of the data -/
  | vec {ts : List Token} {ds : List Datum} {rest : List Token} :
      ParsesSeq ts ds (.rparen :: rest) →
      Parses (.vecIntro :: (ts ++ [.rparen])) (.vec ds none) rest
  /-- `' <datum>` denotes `(quote <datum>)` -/
  | quote {ts : List Token} {d : Datum} {rest : List Token} :
      Parses ts d rest → Parses (.quote :: ts) (quoteForm d) rest
  /-- QUIRK (not R7RS): a dot directly before the closing parenthesis is ignored —
  `(a b . )` reads as `(a b)`, and `( . )` reads as `()`. -/
  | quirkDotClose {ts : List Token} {ds : List Datum} {rest : List Token} :
      ParsesSeq ts ds (.period :: .rparen :: rest) →
      Parses (.lparen :: (ts ++ [.period, .rparen])) (proper ds) rest
  /-- QUIRK (not R7RS): a dot directly after the opening parenthesis, followed by one datum, is
  ignored — `( . a)` reads as `(a)`. -/
  | quirkLeadingDot {t1 : List Token} {d1 : Datum} {rest : List Token} :
      Parses t1 d1 (.rparen :: rest) →
      Parses (.lparen :: .period :: (t1 ++ [.rparen])) (proper [d1]) rest
  /-- QUIRK (not R7RS): a dot directly after the opening parenthesis, followed by two data, is
  read as if it stood between them — `( . a b)` reads as `(a . b)`. (Three or more data after a
  leading dot are an error.) -/
  | quirkLeadingDotPair {t1 t2 : List Token} {d1 d2 : Datum} {rest : List Token} :
      Parses t1 d1 (t2 ++ .rparen :: rest) → Parses t2 d2 (.rparen :: rest) →
      Parses (.lparen :: .period :: (t1 ++ (t2 ++ [.rparen]))) (improper [d1] d2) rest

/-- `ParsesSeq ts ds rest`: in front of `rest`, the tokens `ts` are the written data `ds`, one
after the other (`<datum>*`) -/
inductive ParsesSeq : List Token → List Datum → List Token → Prop
  | nil (rest : List Token) : ParsesSeq [] [] rest
  | cons {t ts : List Token} {d : Datum} {ds : List Datum} {rest : List Token} :
      Parses t d (ts ++ rest) → ParsesSeq ts ds rest → ParsesSeq (t ++ ts) (d :: ds) rest
end

mutual
/-- Well-formed syntax trees: the `Syn` trees (`RuschmSpec/Text.lean`) that are derivations of the
R7RS productions — atoms are primitive or identifier tokens, a dotted list has at least one
element before the dot. (`Text.Syn.Supported` is this plus side conditions on the *spelling* of
atoms, which play no role for the reader.) -/
def WellFormed : Text.Syn → Prop
  | .atom t => Text.Syn.isAtomTok t = true
  | .list xs => WellFormedL xs
  | .dotted xs t => xs ≠ [] ∧ WellFormedL xs ∧ WellFormed t
  | .vec xs => WellFormedL xs
  | .quote x => WellFormed x
def WellFormedL : List Text.Syn → Prop
  | [] => True
  | x :: xs => WellFormed x ∧ WellFormedL xs
end

end Ruschm.ReadSpec

import RuschmModel.Proto
namespace Ruschm.Driver
open Proto

/-- `numop`: fields = operator name, then operands as canonical numbers. Runs the model's
binary/unary operation or n-ary builtin on them. -/
def numop (fields : List String) : List String :=
  match fields with
  | op :: args =>
    match args.mapM parseNum? with
    | none => ["X bad-operand"]
    | some xs =>
      let r : String := match op, xs with
        | "+", xs => resNum (Num.addAll xs)
        | "*", xs => resNum (Num.mulAll xs)
        | "-", xs => resNum (Num.subAll xs)
        | "/", xs => resNum (Num.divAll xs)
        | "abs", [x] => resNum x.abs
        | "floor", [x] => resNum x.floor
        | "ceiling", [x] => resNum x.ceiling
        | "exact", [x] => resNum x.exact
        | "floor-quotient", [x, y] => resNum (Num.floorQuotient x y)
        | "floor-remainder", [x, y] => resNum (Num.floorRemainder x y)
        | "=", xs => resBool (Num.cmpChain Num.eq xs)
        | "<", xs => resBool (Num.cmpChain Num.lt xs)
        | ">", xs => resBool (Num.cmpChain Num.gt xs)
        | "<=", xs => resBool (Num.cmpChain Num.le xs)
        | ">=", xs => resBool (Num.cmpChain Num.ge xs)
        | "max", xs => resNum (Num.maxAll xs)
        | "min", xs => resNum (Num.minAll xs)
        | "eqv?", [x, y] => resBool (Num.exactEqv x y)
        | _, _ => "X bad-op"
      [r]
  | [] => ["X empty"]

end Ruschm.Driver

/-
Model of `syntax-rules`: `src/parser/macros.rs` (`match_datum`, `match_datum_stream`,
`substitude`, `substitude_ellipsis_item`, `substitute_template_element`,
`UserDefinedTransformer::transform`) and the pattern/template builders of
`src/parser/parser.rs` (`transform_pattern`, `transform_template`,
`collect_template_elements`, `transform_transformer`, `transform_syntax_rule`).
-/
import RuschmModel.Read
namespace Ruschm.Macro

/-- `SyntaxPatternBody` (locations are only used in syntax-error reports and are not modelled) -/
inductive Pat where
  | underscore
  | ellipsis
  | pair (car cdr : Pat)
  | nil
  | vec (xs : List Pat)
  | ident (s : String)
  | prim (p : Prim)
  deriving Repr, Inhabited

/-- `SyntaxTemplateBody`: a list template is always a *proper* list of elements, each with its
"followed by an ellipsis" flag (`collect_template_elements` flattens a dotted tail into the list) -/
inductive Tmpl where
  | list (elems : List (Tmpl × Bool))
  | vec (elems : List (Tmpl × Bool))
  | ident (s : String)
  | prim (p : Prim)
  deriving Repr, Inhabited

/-- `UserDefinedTransformer` (the custom ellipsis is stored and ignored by the Rust; omitted) -/
structure Rules where
  literals : List String
  rules : List (Pat × Tmpl)
  deriving Repr, Inhabited

/-- the substitution table `HashMap<String, (Datum, Vec<Datum>)>` as an association list -/
abbrev Subst := List (String × Datum × List Datum)

def Subst.get? (σ : Subst) (v : String) : Option (Datum × List Datum) :=
  match σ with
  | [] => none
  | (k, x) :: rest => if k = v then some x else Subst.get? rest v

/-- `HashMap::insert`: replace or append -/
def Subst.insert (σ : Subst) (v : String) (x : Datum × List Datum) : Subst :=
  match σ with
  | [] => [(v, x)]
  | (k, y) :: rest => if k = v then (k, x) :: rest else (k, y) :: Subst.insert rest v x

/-- `substitutions.get_mut(&var).unwrap().1.push(d)`: `none` is the `unwrap` panic -/
def Subst.push? (σ : Subst) (v : String) (d : Datum) : Option Subst :=
  match σ with
  | [] => none
  | (k, (f, more)) :: rest =>
    if k = v then some ((k, (f, more ++ [d])) :: rest)
    else (Subst.push? rest v d).map ((k, (f, more)) :: ·)

/-- cars of a pattern list and its improper tail (`iter()` / `last_cdr()`) -/
def Pat.spine : Pat → List Pat × Option Pat
  | .pair a d => let (xs, t) := Pat.spine d; (a :: xs, t)
  | .nil => ([], none)
  | other => ([], some other)

/-! ### building patterns and templates from data -/

mutual
/-- `transform_pattern` (and `map_ok` over the pair structure) -/
def toPat : Datum → Pat
  | .sym s _ => if s = "_" then .underscore else if s = "..." then .ellipsis else .ident s
  | .prim p _ => .prim p
  | .pair a d _ => .pair (toPat a) (toPat d)
  | .nil _ => .nil
  | .vec xs _ => .vec (toPats xs)
def toPats : List Datum → List Pat
  | [] => []
  | x :: xs => toPat x :: toPats xs
end

mutual
/-- `transform_template` -/
def toTmpl : Datum → Except SErr Tmpl
  | .sym s _ => .ok (.ident s)
  | .prim p _ => .ok (.prim p)
  | .nil _ => .ok (.list [])
  | .pair a d _ => do
    -- `list.into_iter()`: cars, then an improper tail as one more element
    -- (first step of `collectSpine` with no pending element)
    match a with
    | .sym "..." l => .error (.syntax, l)
    | _ => do
      let t ← toTmpl a
      let es ← collectSpine d (some t)
      pure (.list es)
  | .vec xs _ => do
    let es ← collectElems xs none
    pure (.vec es)
/-- `collect_template_elements` along the spine of a pair; `last` is `last_template` -/
def collectSpine : Datum → Option Tmpl → Except SErr (List (Tmpl × Bool))
  | .pair a d _, last => do
    match a with
    | .sym "..." l =>
      match last with
      | some t => do let rest ← collectSpine d none; pure ((t, true) :: rest)
      | none => .error (.syntax, l)
    | _ => do
      let t ← toTmpl a
      let rest ← collectSpine d (some t)
      pure (match last with | some p => (p, false) :: rest | none => rest)
  | .nil _, last => .ok (match last with | some p => [(p, false)] | none => [])
  -- improper tail, delivered by the iterator as a last element
  | .sym s l, last =>
    if s = "..." then
      match last with
      | some t => .ok [(t, true)]
      | none => .error (.syntax, l)
    else .ok (match last with | some p => [(p, false), (.ident s, false)] | none => [(.ident s, false)])
  | .prim q _, last =>
    .ok (match last with | some p => [(p, false), (.prim q, false)] | none => [(.prim q, false)])
  | .vec xs _, last => do
    let es ← collectElems xs none
    pure (match last with | some p => [(p, false), (.vec es, false)] | none => [(.vec es, false)])
def collectElems : List Datum → Option Tmpl → Except SErr (List (Tmpl × Bool))
  | [], last => .ok (match last with | some p => [(p, false)] | none => [])
  | x :: xs, last => do
    match x with
    | .sym "..." l =>
      match last with
      | some t => do let rest ← collectElems xs none; pure ((t, true) :: rest)
      | none => .error (.syntax, l)
    | _ => do
      let t ← toTmpl x
      let rest ← collectElems xs (some t)
      pure (match last with | some p => (p, false) :: rest | none => rest)
end

def expectList (d : Datum) : Except SErr Datum :=
  match d with
  | .pair .. | .nil _ => .ok d
  | _ => .error (.syntax, none)

/-- `transform_identifier` -/
def identOf (d : Datum) : Except SErr String :=
  match d with
  | .sym s _ => .ok s
  | other => .error (.syntax, other.loc)

/-- `pop_proper`: first element of a list whose cdr is again a list -/
def popProper (d : Datum) : Except SErr (Option (Datum × Datum)) :=
  match d with
  | .pair a (.pair x y l) _ => .ok (some (a, .pair x y l))
  | .pair a (.nil l) _ => .ok (some (a, .nil l))
  | .pair _ _ _ => .error (.syntax, none)   -- dotted: `ExpectSomething("proper list", …)`
  | _ => .ok none

/-- `transform_syntax_rule` + `transform_pattern_root`: a rule is `(pattern template)`, the
pattern's head must be the keyword -/
def toRule (keyword : String) (d : Datum) : Except SErr (Pat × Tmpl) := do
  let d ← expectList d
  match d.elems with
  | pd :: rest =>
    let pd ← expectList pd
    match ← popProper pd with
    | none => .error (.syntax, none)
    | some (first, patRest) =>
      match first with
      | .sym k l =>
        if k ≠ keyword then .error (.syntax, l) else
        match rest with
        | td :: _ => do let t ← toTmpl td; pure (toPat patRest, t)
        | [] => .error (.syntax, none)
      | _ => .error (.syntax, none)
  | [] => .error (.syntax, none)

/-- `transform_transformer`: `(syntax-rules (literal…) rule…)` or
`(syntax-rules ellipsis (literal…) rule…)` -/
def toRules (keyword : String) (d : Datum) : Except SErr Rules := do
  let d ← expectList d
  match d.elems.drop 1 with
  | [] => .error (.syntax, none)
  | first :: rest =>
    let litsAndRules : Except SErr (List Datum × List Datum) :=
      match first with
      | .sym _ _ =>
        match rest with
        | ld :: rest' => do let ld ← expectList ld; pure (ld.elems, rest')
        | [] => .error (.syntax, none)
      | .pair .. | .nil _ => .ok (first.elems, rest)
      | _ => .error (.syntax, first.loc)
    do
      let (lits, ruleData) ← litsAndRules
      let lits ← lits.mapM identOf
      let rules ← ruleData.mapM (toRule keyword)
      pure { literals := lits, rules := rules }

/-! ### matching -/

mutual
/-- `match_datum`; the table is threaded through and keeps what a failed attempt inserted -/
def matchDatum : Nat → List String → Pat → Datum → Subst → Except SErr (Bool × Subst)
  | 0, _, _, _, _ => .error (.fuel, none)
  | fuel + 1, lits, p, d, σ =>
    match p, d with
    | .underscore, _ => .ok (true, σ)
    | .ellipsis, _ => .ok (true, σ)
    | .pair _ _, .pair _ _ _ | .pair _ _, .nil _ | .nil, .pair _ _ _ | .nil, .nil _ => do
      let (ps, pt) := Pat.spine p
      let (ds, dt) := Datum.spine d
      let (ok, σ) ← matchStream fuel lits ps ds none σ
      if ok then
        match pt, dt with
        | some lp, some ld => matchDatum fuel lits lp ld σ
        | none, none => pure (true, σ)
        | _, _ => pure (false, σ)
      else pure (false, σ)
    | .vec ps, .vec ds _ => matchStream fuel lits ps ds none σ
    | .ident v, _ =>
      if !lits.contains v then .ok (true, σ.insert v (d, []))
      else .ok (match d with | .sym s _ => s == v | _ => false, σ)
    | .prim a, .prim b _ => .ok (a == b, σ)
    | _, _ => .ok (false, σ)

/-- `match_datum_stream` on the remaining patterns and data; `mm` is `multi_matches` -/
def matchStream : Nat → List String → List Pat → List Datum → Option Pat → Subst →
    Except SErr (Bool × Subst)
  | 0, _, _, _, _, _ => .error (.fuel, none)
  | fuel + 1, lits, ps, ds, mm, σ =>
    match ps, ds with
    | [], [] => .ok (true, σ)
    | p :: ps', [] =>
      match p, mm with
      | .ellipsis, some _ => matchStream fuel lits ps' [] mm σ
      | _, _ => .ok (false, σ)
    | [], _ :: _ => .ok (false, σ)
    | p :: ps', d :: ds' => do
      let (ok, σ) ← matchDatum fuel lits p d σ
      if !ok then pure (false, σ) else
      match p with
      | .ellipsis =>
        match mm with
        | none => .error (.syntax, none)     -- `UnexpectedPattern`
        | some mp => do
          let (ok2, τ) ← matchDatum fuel lits mp d []
          if !ok2 then pure (false, σ) else
          -- push the new matches; a variable missing from the outer table is the `unwrap` panic
          let pushed := τ.foldl (fun acc (v, (m, _)) => acc.bind (fun s => Subst.push? s v m)) (some σ)
          match pushed with
          | none => .error (.panic "macros.rs get_mut unwrap", none)
          | some σ => do
            let (r, σ) ← matchStream fuel lits (p :: ps') ds' (some mp) σ
            if r then pure (true, σ) else matchStream fuel lits ps' ds' (some mp) σ
      | .ident v =>
        if lits.contains v then matchStream fuel lits ps' ds' none σ
        else matchStream fuel lits ps' ds' (some p) σ
      | _ => matchStream fuel lits ps' ds' (some p) σ
end

/-! ### instantiating a template. `loc` is the location of the macro use: every datum built
from the template is located there. -/

mutual
/-- `substitude_ellipsis_item`: the `i`-th further copy of a sub-template, `none` when some
variable in it has no `i`-th further match -/
def substItem : Tmpl → Subst → Nat → Loc → Option Datum
  | .list es, σ, i, loc => (substItems es σ i loc).map (Datum.ofList loc)
  | .vec es, σ, i, loc => (substItems es σ i loc).map (Datum.vec · loc)
  | .ident v, σ, i, loc =>
    match σ.get? v with
    | some (_, more) => if more.isEmpty then none else more[i]?
    | none => some (.sym v loc)
  | .prim p, _, _, loc => some (.prim p loc)
def substItems : List (Tmpl × Bool) → Subst → Nat → Loc → Option (List Datum)
  | [], _, _, _ => some []
  | (t, _) :: rest, σ, i, loc =>
    match substItem t σ i loc with
    | none => none
    | some d => (substItems rest σ i loc).map (d :: ·)
end

/-- the `while let Some(item) = substitude_ellipsis_item(.., index)` loop. It does not end when
the sub-template contains no pattern variable; the model gives up after `fuel` copies. -/
def substItemLoop : Nat → Tmpl → Subst → Nat → Loc → Option (List Datum)
  | 0, _, _, _, _ => none
  | fuel + 1, t, σ, i, loc =>
    match substItem t σ i loc with
    | none => some []
    | some d => (substItemLoop fuel t σ (i + 1) loc).map (d :: ·)

mutual
/-- `substitude`: the datum a template yields (the Rust returns a vector that always has
exactly one element). `none`: the copy loop did not end within `fuel` copies. -/
def subst (fuel : Nat) : Tmpl → Subst → Loc → Option Datum
  | .list es, σ, loc => (substElems fuel es σ loc).map (Datum.ofList loc)
  | .vec es, σ, loc => (substElems fuel es σ loc).map (Datum.vec · loc)
  | .ident v, σ, loc =>
    match σ.get? v with
    | some (d, _) => some d
    | none => some (.sym v loc)
  | .prim p, _, loc => some (.prim p loc)
/-- `substitute_template_element` over the elements of a list or vector template -/
def substElems (fuel : Nat) : List (Tmpl × Bool) → Subst → Loc → Option (List Datum)
  | [], _, _ => some []
  | (t, true) :: rest, σ, loc =>
    match subst fuel t σ loc, substItemLoop fuel t σ 0 loc, substElems fuel rest σ loc with
    | some first, some more, some r => some (first :: more ++ r)
    | _, _, _ => none
  | (t, false) :: rest, σ, loc =>
    match subst fuel t σ loc, substElems fuel rest σ loc with
    | some d, some r => some (d :: r)
    | _, _ => none
end

mutual
/-- does the template mention a pattern variable (a key of the table)? -/
def mentionsVar (σ : Subst) : Tmpl → Bool
  | .list es => mentionsVarElems σ es
  | .vec es => mentionsVarElems σ es
  | .ident v => (σ.get? v).isSome
  | .prim _ => false
def mentionsVarElems (σ : Subst) : List (Tmpl × Bool) → Bool
  | [] => false
  | (t, _) :: rest => mentionsVar σ t || mentionsVarElems σ rest
end

mutual
/-- every sub-template followed by an ellipsis mentions a pattern variable (otherwise
`substitute_template_element` reports `UnexpectedTemplate`: nothing would end the repetition).
The Rust tests this when it reaches the element; instantiation visits every element, so testing
the whole template first gives the same outcome. -/
def ellipsisOk (σ : Subst) : Tmpl → Bool
  | .list es => ellipsisOkElems σ es
  | .vec es => ellipsisOkElems σ es
  | .ident _ => true
  | .prim _ => true
def ellipsisOkElems (σ : Subst) : List (Tmpl × Bool) → Bool
  | [] => true
  | (t, flagged) :: rest =>
    (!flagged || mentionsVar σ t) && ellipsisOk σ t && ellipsisOkElems σ rest
end

/-- fuel that suffices for matching `p` against `d` (for the patterns of the supported class; a
pattern with very many trailing ellipses can need more) -/
def matchFuel (d : Datum) : Nat := 4 * d.size + 64

/-- `UserDefinedTransformer::transform`: the first rule whose pattern matches the use
(`use` is the form without its keyword, located at the macro use) fills its template -/
def transformRules (fuel : Nat) (lits : List String) : List (Pat × Tmpl) → Datum → Except SErr Datum
  | [], _ => .error (.syntax, none)            -- `MacroMissMatch`
  | (p, t) :: rest, use => do
    let (ok, σ) ← matchDatum fuel lits p use []
    if ok then
      if !ellipsisOk σ t then .error (.syntax, none) else
      match subst fuel t σ use.loc with
      | some d => pure d
      | none => .error (.fuel, none)
    else transformRules fuel lits rest use

def transform (fuel : Nat) (r : Rules) (use : Datum) : Except SErr Datum :=
  transformRules fuel r.literals r.rules use

end Ruschm.Macro

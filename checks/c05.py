"""C05 — derived forms behave as R7RS specifies.
Theorems: lean/RuschmProofs/C05Shapes.lean (one shape theorem per rule of the bundled grammar,
stated about the constants REGENERATED from /repo/src/parser/grammar.sld on every run — any edit
of grammar.sld re-opens them) and lean/RuschmProofs/C04.lean (the expander). Tie: random programs in
which every sub-form position of begin/let/let*/cond/case/and/or/when/unless holds a ticking
expression, real interpreter vs model. Oracle on the implementation alone: the same program with
every derived form rewritten into core forms by an independent desugarer written from the R7RS
definitions (checks/sexp.py) gives the same per-form values and the same tick trace (sub-forms
evaluated as often and in the order R7RS says)."""
import random
from . import common as C, proggen as P, progrun as R, sexp, pyeval

PROP = "C05"
MODULES = ["RuschmProofs.C05Shapes", "RuschmProofs.C05Meaning", "RuschmProofs.C05Nesting", "RuschmProofs.C05Text"]
FORMS = ["begin", "let", "let*", "cond", "case", "and", "or", "when", "unless"]


def nested_pairs(rng):
    """every ordered pair of derived forms, the second nested in a sub-form position of the first"""
    t = [0]
    def tick(e):
        t[0] += 1
        return "(begin (tick %d) %s)" % (t[0], e)
    def inner(f, v):
        return {
            "begin": "(begin %s %s)" % (tick("0"), tick(v)),
            "let": "(let ((j1 %s) (j2 %s)) (+ j1 j2))" % (tick(v), tick("2")),
            "let*": "(let* ((j1 %s) (j2 (+ j1 %s))) j2)" % (tick(v), tick("1")),
            "cond": "(cond (%s %s) ((= 1 1) => (lambda (z) %s)) (else %s))" % (tick("#f"), tick("8"), tick(v), tick("9")),
            "case": "(case %s ((1 2) %s) ((3) => (lambda (z) z)) (else %s))" % (tick(v), tick("11"), tick("12")),
            "and": "(if (and %s %s) %s 0)" % (tick("#t"), tick("(< 0 1)"), tick(v)),
            "or": "(if (or %s %s) %s 0)" % (tick("#f"), tick("(< 0 1)"), tick(v)),
            "when": "(let ((j3 (when %s %s %s))) %s)" % (tick("(< 0 1)"), tick("5"), tick(v), v),
            "unless": "(let ((j3 (unless %s %s %s))) %s)" % (tick("(> 0 1)"), tick("5"), tick(v), v),
        }[f]
    progs = []
    for a in FORMS:
        for b in FORMS:
            for v in ["3", "(+ 1 2)"]:
                progs.append(inner(a, inner(b, v)))
    return progs


HYGIENE = [
    ("(let ((x 5)) (or #f x))", "V i:5"),
    ("(let ((temp 5)) (cond (#f 1) (1 => (lambda (v) temp))))", "V i:5"),
    ("(let ((atom-key 7)) (case (+ 1 0) ((1) atom-key) (else 0)))", "V i:7"),
    ("(let ((not (lambda (v) v))) (unless #f 'ran))", "V y:ran"),
    ("(let ((memv (lambda (a b) #f))) (case 1 ((1) 'one) (else 'other)))", "V y:one"),
    ("(let ((null? (lambda (v) #t))) (case 1 ((1) => (lambda (k) 'one))))", "V y:one"),
    # controls: the same shapes with other names
    ("(let ((y 5)) (or #f y))", "V i:5"),
    ("(let ((tmp 5)) (cond (#f 1) (1 => (lambda (v) tmp))))", "V i:5"),
]


# uses of one derived form that PRINT alike but are different forms: a string / a character against the identifier of the same
# spelling in the same position (a form is its data, not its printed text) - each use means what ITS data say, in either order
TWIN_PROGRAMS = [
    (["(case (* 1.0 2) ((2) 'exact) ((2.0) 'inexact) (else 'none))", "(case (+ 1 1) ((2.0) 'inexact) ((2) 'exact) (else 'none))",
      "(case (list 1 2) (((1 2)) 'hit) (else 'miss))", "(case 1/2 ((0.5) 'inexact) ((1/2) 'exact) (else 'none))",
      "(define (kind v) (case v ((1.0) 'real) ((1) 'int) (else 'other)))", "(list (kind 1) (kind 1.0) (kind (/ 2 2)) (kind (/ 2.0 2)))"],
     ["V y:inexact", "V y:exact", "V y:miss", "V y:exact", "N", "V (y:int y:real y:int y:real)"]),
    (["(define done #f)", "(or done 7)", '(or "done" 7)', "(or done 7)"], ["N", "V i:7", 'V s:"done"', "V i:7"]),
    (["(define done #f)", '(or "done" 7)', "(or done 7)"], ["N", 'V s:"done"', "V i:7"]),
    (["(define (vs? c) (case c ((a e) 1) (else 0)))", "(define (vc? c) (case c ((#\\a #\\e) 1) (else 0)))",
      "(list (vs? 'e) (vc? #\\e) (vs? #\\e) (vc? 'e))"], ["N", "N", "V (i:1 i:1 i:0 i:0)"]),
    (["(define (vc? c) (case c ((#\\a #\\e) 1) (else 0)))", "(define (vs? c) (case c ((a e) 1) (else 0)))",
      "(list (vs? 'e) (vc? #\\e) (vs? #\\e) (vc? 'e))"], ["N", "N", "V (i:1 i:1 i:0 i:0)"]),
    (["(define a 5)", '(and 1 "a")', "(and 1 a)", '(when #t "a")', "(when #t a)"], ["N", 'V s:"a"', "V i:5", 'V s:"a"', "V i:5"]),
    (["(define y 3)", '(let ((t "y")) t)', "(let ((t y)) t)", '(let* ((t y) (u "t")) u)', "(let* ((t y) (u t)) u)"],
     ["N", 'V s:"y"', "V i:3", 'V s:"t"', "V i:3"]),
    (["(define s 4)", '(cond ("s" => (lambda (v) v)) (else 0))', "(cond (s => (lambda (v) v)) (else 0))", '(begin "s")', "(begin s)"],
     ["N", 'V s:"s"', "V i:4", 'V s:"s"', "V i:4"]),
    (["(define one 1)", '(case 1 ((1) "one") (else 0))', "(case 1 ((1) one) (else 0))", '(unless #f "one")', "(unless #f one)"],
     ["N", 'V s:"one"', "V i:1", 'V s:"one"', "V i:1"]),
]


def run(rep, tier, rng):
    for k, (forms, want) in enumerate(TWIN_PROGRAMS):
        got = C.run_hx([("tw%d" % k, "prog", ["std"] + forms)]).get("tw%d" % k, [])
        mod = C.run_driver([("tw%d" % k, "prog", ["std"] + forms)]).get("tw%d" % k, [])
        rep.count()
        rep.nontrivial(("twin", tuple(forms)))
        if got != want:
            j = next((j for j in range(min(len(got), len(want))) if got[j] != want[j]), None)
            rep.violation({"what": "two uses of a derived form that print alike but differ in their data (a string or character against the identifier "
                                   "of the same spelling) are not each evaluated as written", "program": forms,
                           "form": forms[j] if j is not None else None, "expected": want, "implementation": got})
        elif mod != got:
            rep.violation({"broken": "correspondence derived forms (print twins)", "program": forms, "implementation": got, "model": mod}, no_input=True)
    n = 250 if tier == "quick" else 6000
    cases, pairs = [], []
    progs = []
    for i in range(n):
        g = P.Gen(rng, ticks=True, derived=True, max_depth=5)
        progs.append(g.toplevel(rng.randrange(2, 7)))
    for p in nested_pairs(rng):
        progs.append([p])
    for i, forms in enumerate(progs):
        pre = ["(import (verif host))"]
        des = [sexp.desugar_text(f) for f in forms]
        cases.append(("o%d" % i, "progx", ["std+host"] + pre + forms))
        cases.append(("d%d" % i, "progx", ["std+host"] + pre + des))
    impl = C.run_hx(cases)
    model = C.run_driver(cases)
    res = R.compare(rep, cases, impl, model, "derived forms (RuschmGen/Grammar.lean + RuschmModel/Macro.lean <-> grammar.sld + macros.rs)")
    used = {}
    judged = [0]
    for i, forms in enumerate(progs):
        if "o%d" % i not in res or "d%d" % i not in res:
            continue
        o, d = res["o%d" % i], res["d%d" % i]
        rep.count()
        text = " ".join(forms)
        for f in FORMS:
            if "(" + f + " " in text or "(" + f + ")" in text:
                used[f] = used.get(f, 0) + 1
        if any(("(" + f + " ") in text for f in FORMS):
            rep.nontrivial(text)
        if len(rep.cov["samples"]) < 4 and i % 37 == 0:
            rep.sample({"program": forms[:2], "desugared": cases[2 * i + 1][2][2:4], "results": o[0][1:3], "ticks": o[1][:60]})
        # the independent reference evaluator (Python; derived forms by their R7RS definitions, core forms by the R7RS
        # evaluation rules): values of the forms and the order in which the probes fire
        ref = pyeval.run_program(forms)
        if ref is not None:
            judged[0] += 1
            if o[0][1:] != ref[0] or o[1].split() != ref[1]:
                j = next((j for j in range(len(ref[0])) if o[0][1 + j] != ref[0][j]), None)
                rep.violation({"what": "the program does not yield the values and the order of evaluation R7RS assigns "
                                       "(independent reference evaluator)", "program": cases[2 * i][2], "form_index": j,
                               "implementation": o[0][1 + j] if j is not None else {"ticks": o[1]},
                               "reference": ref[0][j] if j is not None else {"ticks": " ".join(ref[1])}})
                continue
        if o[0] != d[0] or o[1] != d[1]:
            j = next((j for j in range(len(o[0])) if o[0][j] != d[0][j]), None)
            rep.violation({"what": "a derived form does not behave like its R7RS definition in core forms",
                           "program": cases[2 * i][2], "desugared": cases[2 * i + 1][2], "form_index": j,
                           "with_derived_forms": o[0][j] if j is not None else {"ticks": o[1]},
                           "with_core_forms": d[0][j] if j is not None else {"ticks": d[1]}})
    rep.extra["programs_using_form"] = used
    rep.extra["programs_judged_by_the_reference_evaluator"] = judged[0]
    # the names the bundled templates introduce or rely on, used by the PROGRAM (the random programs above avoid them):
    # each probe has the value R7RS assigns; a deviation listed under the open finding `non-hygienic-capture` is reported as
    # KNOWN-FINDING, any other deviation (or a deviation on a probe not listed there) as a violation
    listed = {}
    for k in C.known_findings(PROP):
        if k.get("status") == "open" and k.get("id") == "non-hygienic-capture":
            listed = {w["form"]: w["observed"] for w in k.get("witnesses", [])}
    got = C.run_hx([("hy", "prog", ["std"] + [f for f, _ in HYGIENE])]).get("hy", [])
    known_now = []
    for (form, want), g in zip(HYGIENE, got):
        rep.count()
        rep.nontrivial(("hygiene", form))
        if g == want:
            continue
        if listed.get(form) == g:
            known_now.append("%s => %s (R7RS: %s)" % (form, g[2:], want[2:]))
        else:
            rep.violation({"what": "a derived form binds or looks up a name of the PROGRAM (not the specified variables with the specified scope)",
                           "form": form, "expected": want, "implementation": g})
    if known_now:
        rep.known("non-hygienic-capture: the bundled syntax-rules templates are expanded without renaming - " + "; ".join(known_now))


def main(tier, seed):
    rep = C.Report(PROP, tier, seed)
    rng = random.Random(seed)
    rep.cov["rule"] = ("type-directed random programs with derived forms in every expression position and ticking sub-forms, "
                       "plus every ordered pair of the 9 derived forms nested in a sub-form position (162 programs); each "
                       "compared with its independent desugaring; identifiers avoid the names the non-hygienic templates "
                       "introduce (x, temp, atom-key) and the free identifiers they use (memv, not, null?); distinct = "
                       "distinct program texts containing at least one derived form")
    ok = C.standard_proof_phase(rep, MODULES, directed_search=lambda r: run(r, tier, rng))
    if ok:
        run(rep, tier, rng)
    return rep.finish("cd lean && lake build RuschmProofs.C05Shapes && lake env lean <#print axioms of every theorem>")

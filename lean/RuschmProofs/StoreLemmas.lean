/-
Helper lemmas for property C03 (`RuschmProofs/C03.lean`): the data level of the store
(`define`, `set`, `lookup`, `resolve`, `newFrame`, `allocVec`), the native procedures, literals,
and the evaluator-level invariants (`Store.Grows`, `Store.WF`).
-/
import RuschmSpec.Store

namespace Ruschm
open Eval

/-! ## values and their ids -/

namespace Value

@[simp] theorem below_pair {nf nv a d} : (Value.pair a d).Below nf nv ↔ a.Below nf nv ∧ d.Below nf nv := by
  simp only [Below, frameIds, vecIds, List.mem_append]
  constructor
  · rintro ⟨h1, h2⟩
    exact ⟨⟨fun i hi => h1 i (Or.inl hi), fun i hi => h2 i (Or.inl hi)⟩,
           ⟨fun i hi => h1 i (Or.inr hi), fun i hi => h2 i (Or.inr hi)⟩⟩
  · rintro ⟨⟨h1, h2⟩, ⟨h3, h4⟩⟩
    exact ⟨fun i hi => hi.elim (h1 i) (h3 i), fun i hi => hi.elim (h2 i) (h4 i)⟩

@[simp] theorem below_closure {nf nv l e} : (Value.closure l e).Below nf nv ↔ e < nf := by
  simp [Below, frameIds, vecIds]
@[simp] theorem below_vec {nf nv i} : (Value.vec i).Below nf nv ↔ i < nv := by
  simp [Below, frameIds, vecIds]
@[simp] theorem below_num {nf nv n} : (Value.num n).Below nf nv := by simp [Below, frameIds, vecIds]
@[simp] theorem below_bool {nf nv n} : (Value.bool n).Below nf nv := by simp [Below, frameIds, vecIds]
@[simp] theorem below_char {nf nv n} : (Value.char n).Below nf nv := by simp [Below, frameIds, vecIds]
@[simp] theorem below_str {nf nv n} : (Value.str n).Below nf nv := by simp [Below, frameIds, vecIds]
@[simp] theorem below_sym {nf nv n} : (Value.sym n).Below nf nv := by simp [Below, frameIds, vecIds]
@[simp] theorem below_builtin {nf nv n} : (Value.builtin n).Below nf nv := by simp [Below, frameIds, vecIds]
@[simp] theorem below_transformer {nf nv n} : (Value.transformer n).Below nf nv := by
  simp [Below, frameIds, vecIds]
@[simp] theorem below_nil {nf nv} : (Value.nil).Below nf nv := by simp [Below, frameIds, vecIds]
@[simp] theorem below_void {nf nv} : (Value.void).Below nf nv := by simp [Below, frameIds, vecIds]

theorem Below.mono {nf nv nf' nv' v} (h : Value.Below nf nv v) (hf : nf ≤ nf') (hv : nv ≤ nv') :
    Value.Below nf' nv' v :=
  ⟨fun i hi => Nat.lt_of_lt_of_le (h.1 i hi) hf, fun i hi => Nat.lt_of_lt_of_le (h.2 i hi) hv⟩

theorem below_ofList {nf nv} : ∀ {vs : List Value}, (∀ v ∈ vs, v.Below nf nv) → (Value.ofList vs).Below nf nv
  | [], _ => by simp [ofList]
  | x :: xs, h => by
    simp only [ofList, below_pair]
    exact ⟨h x (by simp), below_ofList (fun v hv => h v (by simp [hv]))⟩

theorem below_elems {nf nv} : ∀ {v : Value}, v.Below nf nv → ∀ x ∈ v.elems, x.Below nf nv
  | .pair a d, h, x, hx => by
    simp only [elems, List.mem_cons] at hx
    rw [below_pair] at h
    rcases hx with rfl | hx
    · exact h.1
    · exact below_elems h.2 x hx
  | .nil, _, x, hx => by simp [elems] at hx
  | .num _, h, x, hx | .bool _, h, x, hx | .char _, h, x, hx | .str _, h, x, hx
  | .sym _, h, x, hx | .closure _ _, h, x, hx | .builtin _, h, x, hx | .vec _, h, x, hx
  | .transformer _, h, x, hx | .void, h, x, hx => by
    simp only [elems, List.mem_singleton] at hx; subst hx; exact h

end Value

namespace Store

/-! ## `defsInsert` -/

theorem lookup_cons_ite (y k : String) (b : Value) (as : List (String × Value)) :
    List.lookup y ((k, b) :: as) = if y = k then some b else List.lookup y as := by
  rw [List.lookup_cons]
  by_cases h : y = k
  · subst h; simp
  · have : (y == k) = false := by simpa using h
    simp [this, h]

theorem lookup_defsInsert (d : List (String × Value)) (k : String) (v : Value) (y : String) :
    (defsInsert d k v).lookup y = if y = k then some v else d.lookup y := by
  induction d with
  | nil => simp [defsInsert, lookup_cons_ite]
  | cons p rest ih =>
    obtain ⟨k', v'⟩ := p
    simp only [defsInsert]
    by_cases hk : k' = k
    · subst hk
      by_cases hy : y = k' <;> simp [lookup_cons_ite, hy]
    · simp only [hk, if_false, lookup_cons_ite, ih]
      by_cases hy : y = k'
      · subst hy; simp [hk]
      · simp [hy]

theorem mem_defsInsert {d : List (String × Value)} {k : String} {v : Value} {p : String × Value}
    (h : p ∈ defsInsert d k v) : p = (k, v) ∨ p ∈ d := by
  induction d with
  | nil => simpa [defsInsert] using h
  | cons q rest ih =>
    obtain ⟨k', v'⟩ := q
    simp only [defsInsert] at h
    split at h
    · simp only [List.mem_cons] at h ⊢
      rcases h with h | h
      · exact Or.inl h
      · exact Or.inr (Or.inr h)
    · simp only [List.mem_cons] at h ⊢
      rcases h with h | h
      · exact Or.inr (Or.inl h)
      · rcases ih h with h | h
        · exact Or.inl h
        · exact Or.inr (Or.inr h)

/-! ## `define` -/

theorem define_frames_getElem? (σ : Store) (ρ : Nat) (k : String) (v : Value) (i : Nat) :
    (σ.define ρ k v).frames[i]? =
      if i = ρ then (σ.frames[i]?).map (fun f => { f with defs := defsInsert f.defs k v })
      else σ.frames[i]? := by
  unfold define
  split
  · simp only [Array.getElem?_modify]
    by_cases h : ρ = i
    · subst h; simp
    · simp [h, Ne.symm h]
  · rename_i h
    by_cases hi : i = ρ
    · subst hi
      have : σ.frames[i]? = none := by simp; omega
      simp [this]
    · simp [hi]

@[simp] theorem define_frames_size (σ : Store) (ρ k v) : (σ.define ρ k v).frames.size = σ.frames.size := by
  unfold define; split <;> simp
@[simp] theorem define_vecs (σ : Store) (ρ k v) : (σ.define ρ k v).vecs = σ.vecs := by
  unfold define; split <;> rfl
@[simp] theorem define_out (σ : Store) (ρ k v) : (σ.define ρ k v).out = σ.out := by
  unfold define; split <;> rfl
@[simp] theorem define_ticks (σ : Store) (ρ k v) : (σ.define ρ k v).ticks = σ.ticks := by
  unfold define; split <;> rfl
@[simp] theorem define_depth (σ : Store) (ρ k v) : (σ.define ρ k v).depth = σ.depth := by
  unfold define; split <;> rfl
@[simp] theorem define_maxDepth (σ : Store) (ρ k v) : (σ.define ρ k v).maxDepth = σ.maxDepth := by
  unfold define; split <;> rfl

theorem define_of_not_lt (σ : Store) {ρ : Nat} (k v) (h : ¬ ρ < σ.frames.size) : σ.define ρ k v = σ := by
  unfold define; simp [h]

theorem binding_define (σ : Store) (ρ : Nat) (k : String) (v : Value) (i : Nat) (y : String) :
    (σ.define ρ k v).binding i y =
      if i = ρ ∧ y = k ∧ ρ < σ.frames.size then some v else σ.binding i y := by
  unfold binding
  rw [define_frames_getElem?]
  by_cases hi : i = ρ
  · subst hi
    by_cases hlt : i < σ.frames.size
    · have : σ.frames[i]? = some σ.frames[i] := by simp [hlt]
      simp only [this, if_true, Option.map_some, lookup_defsInsert, true_and, hlt, and_true]
    · have : σ.frames[i]? = none := by simp; omega
      simp [hlt]
  · simp [hi]

theorem parentOf_define (σ : Store) (ρ : Nat) (k : String) (v : Value) (i : Nat) :
    (σ.define ρ k v).parentOf i = σ.parentOf i := by
  unfold parentOf
  rw [define_frames_getElem?]
  by_cases hi : i = ρ
  · subst hi
    cases h : σ.frames[i]? <;> simp
  · simp [hi]

theorem definesAt_define (σ : Store) (ρ : Nat) (k : String) (v : Value) (i : Nat) (y : String) :
    (σ.define ρ k v).definesAt i y =
      ((decide (i = ρ ∧ y = k ∧ ρ < σ.frames.size)) || σ.definesAt i y) := by
  unfold definesAt
  rw [binding_define]
  by_cases h : i = ρ ∧ y = k ∧ ρ < σ.frames.size <;> simp [h]

/-! ## `chain`, `resolve`, `lookup` -/

theorem resolveAux_eq_find (σ : Store) (k : String) : ∀ fuel ρ,
    σ.resolveAux fuel ρ k = (σ.chainAux fuel ρ).find? (fun r => σ.definesAt r k)
  | 0, _ => by simp [resolveAux, chainAux]
  | fuel + 1, ρ => by
    simp only [resolveAux, chainAux]
    cases hf : σ.frames[ρ]? with
    | none => simp
    | some f =>
      have hd : σ.definesAt ρ k = (f.defs.lookup k).isSome := by simp [definesAt, binding, hf]
      simp only [List.find?_cons, hd]
      cases hl : (f.defs.lookup k).isSome with
      | true => simp
      | false =>
        simp only [Bool.false_eq_true, if_false]
        cases hp : f.parent with
        | none => simp
        | some p =>
          simp only
          split
          · exact resolveAux_eq_find σ k fuel p
          · simp

/-- `resolve` is the first frame of the lexical chain that defines the name -/
theorem resolve_eq_find (σ : Store) (ρ : Nat) (k : String) :
    σ.resolve ρ k = (σ.chain ρ).find? (fun r => σ.definesAt r k) :=
  resolveAux_eq_find σ k (ρ + 1) ρ

theorem lookupAux_eq_bind (σ : Store) (k : String) : ∀ fuel ρ,
    σ.lookupAux fuel ρ k = (σ.resolveAux fuel ρ k).bind (fun r => σ.binding r k)
  | 0, _ => by simp [lookupAux, resolveAux]
  | fuel + 1, ρ => by
    simp only [lookupAux, resolveAux]
    cases hf : σ.frames[ρ]? with
    | none => simp
    | some f =>
      simp only
      cases hl : f.defs.lookup k with
      | some v => simp [binding, hf, hl]
      | none =>
        simp only [Option.isSome_none, Bool.false_eq_true, if_false]
        cases hp : f.parent with
        | none => simp
        | some p =>
          simp only
          split
          · exact lookupAux_eq_bind σ k fuel p
          · simp

/-- `lookup` reads the binding that `resolve` designates -/
theorem lookup_eq_bind (σ : Store) (ρ : Nat) (k : String) :
    σ.lookup ρ k = (σ.resolve ρ k).bind (fun r => σ.binding r k) :=
  lookupAux_eq_bind σ k (ρ + 1) ρ

theorem resolveAux_some {σ : Store} {k : String} : ∀ {fuel ρ r},
    σ.resolveAux fuel ρ k = some r → σ.definesAt r k = true ∧ r ≤ ρ ∧ r < σ.frames.size
  | 0, _, _, h => by simp [resolveAux] at h
  | fuel + 1, ρ, r, h => by
    simp only [resolveAux] at h
    cases hf : σ.frames[ρ]? with
    | none => simp [hf] at h
    | some f =>
      simp only [hf] at h
      split at h
      · rename_i hl
        cases h
        have hlt : ρ < σ.frames.size := by
          rcases Nat.lt_or_ge ρ σ.frames.size with h | h
          · exact h
          · have : σ.frames[ρ]? = none := by simp; omega
            simp [this] at hf
        exact ⟨by simp [definesAt, binding, hf, hl], Nat.le_refl _, hlt⟩
      · split at h
        · split at h
          · rename_i hlt
            have := resolveAux_some h
            exact ⟨this.1, by omega, this.2.2⟩
          · cases h
        · cases h

theorem resolve_some {σ : Store} {k : String} {ρ r : Nat} (h : σ.resolve ρ k = some r) :
    σ.definesAt r k = true ∧ r ≤ ρ ∧ r < σ.frames.size := resolveAux_some h

theorem chainAux_congr {σ σ' : Store} (hp : ∀ i : Nat, σ'.frames[i]?.map Frame.parent = σ.frames[i]?.map Frame.parent) :
    ∀ fuel ρ, σ'.chainAux fuel ρ = σ.chainAux fuel ρ
  | 0, _ => by simp [chainAux]
  | fuel + 1, ρ => by
    simp only [chainAux]
    have := hp ρ
    cases hf : σ.frames[ρ]? with
    | none =>
      cases hf' : σ'.frames[ρ]? with
      | none => rfl
      | some f' => simp [hf, hf'] at this
    | some f =>
      cases hf' : σ'.frames[ρ]? with
      | none => simp [hf, hf'] at this
      | some f' =>
        simp only [hf, hf', Option.map_some, Option.some.injEq] at this
        simp only [this]
        cases f.parent with
        | none => rfl
        | some p =>
          simp only
          split
          · rw [chainAux_congr hp fuel p]
          · rfl

theorem chain_congr {σ σ' : Store} (hp : ∀ i : Nat, σ'.frames[i]?.map Frame.parent = σ.frames[i]?.map Frame.parent) (ρ : Nat) :
    σ'.chain ρ = σ.chain ρ := chainAux_congr hp _ _

theorem define_parent_map (σ : Store) (ρ k v) (i : Nat) :
    (σ.define ρ k v).frames[i]?.map Frame.parent = σ.frames[i]?.map Frame.parent := by
  rw [define_frames_getElem?]
  split
  · cases σ.frames[i]? <;> simp
  · rfl

@[simp] theorem chain_define (σ : Store) (ρ k v) (ρ' : Nat) : (σ.define ρ k v).chain ρ' = σ.chain ρ' :=
  chain_congr (define_parent_map σ ρ k v) ρ'

/-- the frames of a chain are allocated, and strictly decreasing from `ρ` -/
theorem mem_chainAux {σ : Store} : ∀ {fuel ρ r}, r ∈ σ.chainAux fuel ρ → r ≤ ρ ∧ r < σ.frames.size
  | 0, _, _, h => by simp [chainAux] at h
  | fuel + 1, ρ, r, h => by
    simp only [chainAux] at h
    cases hf : σ.frames[ρ]? with
    | none => simp [hf] at h
    | some f =>
      have hlt : ρ < σ.frames.size := by
        rcases Nat.lt_or_ge ρ σ.frames.size with h | h
        · exact h
        · have : σ.frames[ρ]? = none := by simp; omega
          simp [this] at hf
      simp only [hf, List.mem_cons] at h
      rcases h with rfl | h
      · exact ⟨Nat.le_refl _, hlt⟩
      · split at h
        · split at h
          · have := mem_chainAux h
            exact ⟨by omega, this.2⟩
          · simp at h
        · simp at h

theorem find?_or_ne {l : List Nat} {p : Nat → Bool} {ρ i : Nat}
    (h : l.find? (fun j => decide (j = ρ) || p j) = some i) (hne : i ≠ ρ) : l.find? p = some i := by
  induction l with
  | nil => simp at h
  | cons a l ih =>
    simp only [List.find?_cons] at h ⊢
    by_cases ha : a = ρ
    · subst ha
      simp at h
      exact absurd h.symm hne
    · simp only [ha, decide_false, Bool.false_or] at h
      cases hp : p a with
      | true => simpa [hp] using h
      | false => simp only [hp] at h ⊢; exact ih h

theorem find?_or_none {l : List Nat} {p : Nat → Bool} {ρ : Nat}
    (h : l.find? (fun j => decide (j = ρ) || p j) = none) : l.find? p = none := by
  simp only [List.find?_eq_none] at h ⊢
  intro x hx hp
  exact h x hx (by simp [hp])

/-! ## `set` -/

theorem set_eq (σ : Store) (ρ : Nat) (x : String) (v : Value) :
    σ.set ρ x v = match σ.resolve ρ x with
      | some r => (true, σ.define r x v)
      | none => (false, σ) := rfl

theorem sameExceptBinding_define (σ : Store) (r : Nat) (x : String) (v : Value) :
    SameExceptBinding σ (σ.define r x v) r x where
  vecs := by simp
  out := by simp
  ticks := by simp
  depth := by simp
  maxDepth := by simp
  frames_size := by simp
  other_frames := fun i hi => by rw [define_frames_getElem?]; simp [hi]
  parent := parentOf_define σ r x v r
  other_names := fun y hy => by rw [binding_define]; simp [hy]

/-! ## `newFrame`, `allocVec` -/

@[simp] theorem newFrame_fst (σ : Store) (p) : (σ.newFrame p).1 = σ.frames.size := rfl
@[simp] theorem newFrame_frames (σ : Store) (p) :
    (σ.newFrame p).2.frames = σ.frames.push { parent := p, defs := [] } := rfl
@[simp] theorem newFrame_vecs (σ : Store) (p) : (σ.newFrame p).2.vecs = σ.vecs := rfl
@[simp] theorem allocVec_fst (σ : Store) (m items) : (σ.allocVec m items).1 = .vec σ.vecs.size := rfl
@[simp] theorem allocVec_frames (σ : Store) (m items) : (σ.allocVec m items).2.frames = σ.frames := rfl
@[simp] theorem allocVec_vecs (σ : Store) (m items) :
    (σ.allocVec m items).2.vecs = σ.vecs.push { mutable := m, items := items } := rfl

/-! ## `Grows` -/

theorem Grows.refl (σ : Store) : Grows σ σ where
  frames_size := Nat.le_refl _
  vecs_size := Nat.le_refl _
  frame := fun _ f h => ⟨f, h, rfl, fun _ h => h⟩
  cell := fun _ c h => ⟨c, h, rfl, rfl, fun _ => rfl⟩

theorem Grows.trans {σ₁ σ₂ σ₃ : Store} (h₁ : Grows σ₁ σ₂) (h₂ : Grows σ₂ σ₃) : Grows σ₁ σ₃ where
  frames_size := Nat.le_trans h₁.frames_size h₂.frames_size
  vecs_size := Nat.le_trans h₁.vecs_size h₂.vecs_size
  frame := fun i f h => by
    obtain ⟨f₂, hf₂, hp₂, hk₂⟩ := h₁.frame i f h
    obtain ⟨f₃, hf₃, hp₃, hk₃⟩ := h₂.frame i f₂ hf₂
    exact ⟨f₃, hf₃, hp₃.trans hp₂, fun k hk => hk₃ k (hk₂ k hk)⟩
  cell := fun i c h => by
    obtain ⟨c₂, hc₂, hm₂, hl₂, hi₂⟩ := h₁.cell i c h
    obtain ⟨c₃, hc₃, hm₃, hl₃, hi₃⟩ := h₂.cell i c₂ hc₂
    refine ⟨c₃, hc₃, hm₃.trans hm₂, hl₃.trans hl₂, fun hc => ?_⟩
    have := hi₂ hc
    subst this
    exact hi₃ hc

/-- stores that differ only in output, ticks and depth counters -/
theorem Grows.of_eq {σ σ' : Store} (hf : σ'.frames = σ.frames) (hv : σ'.vecs = σ.vecs) : Grows σ σ' where
  frames_size := by rw [hf]; exact Nat.le_refl _
  vecs_size := by rw [hv]; exact Nat.le_refl _
  frame := fun _ f h => ⟨f, by rw [hf]; exact h, rfl, fun _ h => h⟩
  cell := fun _ c h => ⟨c, by rw [hv]; exact h, rfl, rfl, fun _ => rfl⟩

theorem grows_define (σ : Store) (ρ : Nat) (k : String) (v : Value) : Grows σ (σ.define ρ k v) where
  frames_size := by simp
  vecs_size := by simp
  frame := fun i f h => by
    rw [define_frames_getElem?]
    by_cases hi : i = ρ
    · simp only [hi, if_true]
      rw [← hi, h]
      refine ⟨_, rfl, rfl, fun y hy => ?_⟩
      simp only [lookup_defsInsert]
      split
      · rfl
      · exact hy
    · simp only [hi, if_false]
      exact ⟨f, h, rfl, fun _ h => h⟩
  cell := fun _ c h => ⟨c, by simpa using h, rfl, rfl, fun _ => rfl⟩

theorem grows_set (σ : Store) (ρ : Nat) (k : String) (v : Value) : Grows σ (σ.set ρ k v).2 := by
  rw [set_eq]
  split
  · exact grows_define ..
  · exact Grows.refl σ

theorem grows_newFrame (σ : Store) (p : Option Nat) : Grows σ (σ.newFrame p).2 where
  frames_size := by simp
  vecs_size := by simp
  frame := fun i f h => by
    refine ⟨f, ?_, rfl, fun _ h => h⟩
    simp only [newFrame_frames, Array.getElem?_push]
    have : i < σ.frames.size := by
      rcases Nat.lt_or_ge i σ.frames.size with h' | h'
      · exact h'
      · have : σ.frames[i]? = none := by simp; omega
        simp [this] at h
    simp [Nat.ne_of_lt this, h]
  cell := fun _ c h => ⟨c, by simpa using h, rfl, rfl, fun _ => rfl⟩

theorem grows_allocVec (σ : Store) (m : Bool) (items : List Value) : Grows σ (σ.allocVec m items).2 where
  frames_size := by simp
  vecs_size := by simp
  frame := fun _ f h => ⟨f, by simpa using h, rfl, fun _ h => h⟩
  cell := fun i c h => by
    refine ⟨c, ?_, rfl, rfl, fun _ => rfl⟩
    simp only [allocVec_vecs, Array.getElem?_push]
    have : i < σ.vecs.size := by
      rcases Nat.lt_or_ge i σ.vecs.size with h' | h'
      · exact h'
      · have : σ.vecs[i]? = none := by simp; omega
        simp [this] at h
    simp [Nat.ne_of_lt this, h]

theorem AllocIn.grows {σ σ' : Store} {v : Value} (h : σ.AllocIn v) (g : Grows σ σ') : σ'.AllocIn v :=
  Value.Below.mono h g.frames_size g.vecs_size

/-! ## `WF` -/

theorem wf_root : Store.root.WF where
  parent_lt := fun i f h p hp => by
    simp only [root] at h
    rcases i with _ | i
    · simp at h; subst h; simp at hp
    · simp at h
  frame_vals := fun i f h kv hkv => by
    simp only [root] at h
    rcases i with _ | i
    · simp at h; subst h; simp at hkv
    · simp at h
  vec_vals := fun i c h => by simp [root] at h

theorem wf_define {σ : Store} (h : σ.WF) (ρ : Nat) (k : String) {v : Value} (hv : σ.AllocIn v) :
    (σ.define ρ k v).WF where
  parent_lt := fun i f hf p hp => by
    rw [define_frames_getElem?] at hf
    split at hf
    · cases hg : σ.frames[i]? with
      | none => simp [hg] at hf
      | some g =>
        simp only [hg, Option.map_some, Option.some.injEq] at hf
        subst hf
        exact h.parent_lt i g hg p hp
    · exact h.parent_lt i f hf p hp
  frame_vals := fun i f hf kv hkv => by
    unfold AllocIn
    simp only [define_frames_size, define_vecs]
    rw [define_frames_getElem?] at hf
    split at hf
    · cases hg : σ.frames[i]? with
      | none => simp [hg] at hf
      | some g =>
        simp only [hg, Option.map_some, Option.some.injEq] at hf
        subst hf
        rcases mem_defsInsert hkv with rfl | hm
        · exact hv
        · exact h.frame_vals i g hg kv hm
    · exact h.frame_vals i f hf kv hkv
  vec_vals := fun i c hc v hv' => by
    unfold AllocIn
    simp only [define_frames_size, define_vecs] at hc ⊢
    exact h.vec_vals i c hc v hv'

theorem wf_set {σ : Store} (h : σ.WF) (ρ : Nat) (k : String) {v : Value} (hv : σ.AllocIn v) :
    (σ.set ρ k v).2.WF := by
  rw [set_eq]
  split
  · exact wf_define h _ _ hv
  · exact h

theorem getElem?_some_lt {α} {xs : Array α} {i : Nat} {a : α} (h : xs[i]? = some a) : i < xs.size := by
  rcases Nat.lt_or_ge i xs.size with h' | h'
  · exact h'
  · have : xs[i]? = none := by simp; omega
    simp [this] at h

theorem wf_newFrame {σ : Store} (h : σ.WF) (parent : Option Nat)
    (hp : ∀ p, parent = some p → p < σ.frames.size) : (σ.newFrame parent).2.WF where
  parent_lt := fun i f hf p hpp => by
    simp only [newFrame_frames, Array.getElem?_push] at hf
    split at hf
    · cases hf
      rename_i hi
      subst hi
      exact hp p hpp
    · exact h.parent_lt i f hf p hpp
  frame_vals := fun i f hf kv hkv => by
    simp only [newFrame_frames, Array.getElem?_push] at hf
    split at hf
    · cases hf; simp at hkv
    · exact (h.frame_vals i f hf kv hkv).grows (grows_newFrame σ parent)
  vec_vals := fun i c hc v hv => (h.vec_vals i c hc v hv).grows (grows_newFrame σ parent)

theorem wf_allocVec {σ : Store} (h : σ.WF) (m : Bool) {items : List Value}
    (hi : ∀ v ∈ items, σ.AllocIn v) : (σ.allocVec m items).2.WF where
  parent_lt := fun i f hf p hpp => h.parent_lt i f hf p hpp
  frame_vals := fun i f hf kv hkv => (h.frame_vals i f hf kv hkv).grows (grows_allocVec σ m items)
  vec_vals := fun i c hc v hv => by
    simp only [allocVec_vecs, Array.getElem?_push] at hc
    split at hc
    · cases hc
      exact (hi v hv).grows (grows_allocVec σ m items)
    · exact (h.vec_vals i c hc v hv).grows (grows_allocVec σ m items)

theorem allocIn_allocVec (σ : Store) (m : Bool) (items : List Value) :
    (σ.allocVec m items).2.AllocIn (σ.allocVec m items).1 := by
  simp [AllocIn]

end Store
/-! ## native procedures -/

namespace Prim

@[simp] theorem err_snd {α} (e : Err) (σ : Store) : (err e σ : Res α).2 = σ := rfl
@[simp] theorem ok_snd {α} (a : α) (σ : Store) : (ok a σ : Res α).2 = σ := rfl
@[simp] theorem missing_snd {α} (b : Builtin) (σ : Store) : (missing b σ : Res α).2 = σ := rfl
@[simp] theorem err_fst {α} (e : Err) (σ : Store) : (err e σ : Res α).1 = .error (e, none) := rfl
@[simp] theorem ok_fst {α} (a : α) (σ : Store) : (ok a σ : Res α).1 = .ok a := rfl
@[simp] theorem missing_fst {α} (b : Builtin) (σ : Store) :
    (missing b σ : Res α).1 = .error (.panic ("base.rs unwrap: " ++ b.name), none) := rfl

@[simp] theorem lift_snd {α} (σ : Store) (r : Except Err α) (k : α → Value) : (lift σ r k).2 = σ := by
  unfold lift; split <;> rfl
@[simp] theorem num1_snd (σ : Store) (args b f) : (num1 σ args b f).2 = σ := by
  unfold num1; repeat' split <;> try rfl
@[simp] theorem num2_snd (σ : Store) (args b f) : (num2 σ args b f).2 = σ := by
  unfold num2; repeat' split <;> try rfl
@[simp] theorem realFn_snd (σ : Store) (args b f) : (realFn σ args b f).2 = σ := by simp [realFn]
@[simp] theorem realFn2_snd (σ : Store) (args b f) : (realFn2 σ args b f).2 = σ := by simp [realFn2]

/-- a value that mentions no frame and no cell -/
def NoIds (v : Value) : Prop := ∀ nf nv, v.Below nf nv

theorem lift_fst {α} {σ : Store} {r : Except Err α} {k : α → Value} {v} (h : (lift σ r k).1 = .ok v) :
    ∃ a, v = k a := by
  unfold lift at h; split at h
  · simp at h; exact ⟨_, h.symm⟩
  · simp at h
theorem num1_fst {σ : Store} {args b f v} (h : (num1 σ args b f).1 = .ok v) : ∃ n, v = .num n := by
  unfold num1 at h
  repeat' split at h
  all_goals simp at h
  exact ⟨_, h.symm⟩
theorem num2_fst {σ : Store} {args b f v} (h : (num2 σ args b f).1 = .ok v) : ∃ n, v = .num n := by
  unfold num2 at h
  repeat' split at h
  all_goals simp at h
  exact ⟨_, h.symm⟩
theorem realFn_fst {σ : Store} {args b f v} (h : (realFn σ args b f).1 = .ok v) : ∃ n, v = .num n :=
  num1_fst h
theorem realFn2_fst {σ : Store} {args b f v} (h : (realFn2 σ args b f).1 = .ok v) : ∃ n, v = .num n :=
  num2_fst h


theorem applyPure_frames (σ : Store) (b : Builtin) (args : List Value) :
    (applyPure σ b args).2.frames = σ.frames := by
  cases b <;> simp only [applyPure] <;> (repeat' split) <;> simp

theorem applyPure_vecs (σ : Store) (b : Builtin) (args : List Value)
    (h1 : b ≠ .vector) (h2 : b ≠ .makeVector) (h3 : b ≠ .vectorSet) :
    (applyPure σ b args).2.vecs = σ.vecs := by
  cases b <;> simp at h1 h2 h3 <;> simp only [applyPure] <;> (repeat' split) <;> simp


theorem vectorRef_result {σ : Store} {args : List Value} {v : Value}
    (h : (applyPure σ .vectorRef args).1 = .ok v) (wf : σ.WF) : σ.AllocIn v := by
  simp only [applyPure] at h
  repeat' split at h
  all_goals simp at h
  subst h
  rename_i cell hc _ _ _ hx
  exact wf.vec_vals _ cell hc _ (List.mem_of_getElem? hx)

theorem applyPure_result {σ : Store} {b : Builtin} {args : List Value} {v : Value}
    (h1 : b ≠ .vector) (h2 : b ≠ .makeVector)
    (h : (applyPure σ b args).1 = .ok v) (wf : σ.WF) (ha : ∀ a ∈ args, σ.AllocIn a) : σ.AllocIn v := by
  by_cases h3 : b = .vectorRef
  · subst h3; exact vectorRef_result h wf
  cases b <;> simp at h1 h2 h3 <;> simp only [applyPure] at h
  all_goals first
    | (obtain ⟨a, rfl⟩ := lift_fst h; simp [Store.AllocIn]; done)
    | (obtain ⟨a, rfl⟩ := num1_fst h; simp [Store.AllocIn]; done)
    | (obtain ⟨a, rfl⟩ := num2_fst h; simp [Store.AllocIn]; done)
    | (obtain ⟨a, rfl⟩ := realFn_fst h; simp [Store.AllocIn]; done)
    | (obtain ⟨a, rfl⟩ := realFn2_fst h; simp [Store.AllocIn]; done)
    | ((repeat' split at h) <;> (try simp at h) <;> (try subst h) <;> (try (simp [Store.AllocIn] at ha ⊢)) <;> (try simp [ha]))

/-! ### the three native procedures that touch the vector store -/

theorem listSet_eq : ∀ (xs : List Value) (n : Nat) (v : Value),
    listSet xs n v = if n < xs.length then some (xs.set n v) else none
  | [], n, v => by simp [listSet]
  | x :: xs, 0, v => by simp [listSet]
  | x :: xs, n + 1, v => by
    simp only [listSet, listSet_eq xs n v, List.length_cons, List.set_cons_succ, Nat.add_lt_add_iff_right]
    split <;> simp

theorem applyPure_vector (σ : Store) (args : List Value) :
    applyPure σ .vector args = (.ok (.vec σ.vecs.size), (σ.allocVec true args).2) := rfl

/-- the store after a successful `vector-set!` -/
def vsetStore (σ : Store) (id : Nat) (cell : VecCell) (n : Nat) (obj : Value) : Store :=
  { σ with vecs := σ.vecs.set! id { cell with items := cell.items.set n obj } }

theorem applyPure_makeVector_shape {σ : Store} {args : List Value} {r σ'}
    (h : applyPure σ .makeVector args = (r, σ')) :
    (σ' = σ ∧ ∃ e, r = .error e) ∨
    ∃ n fill rest, args = .num (.int n) :: fill :: rest ∧ 0 ≤ n ∧ r = .ok (.vec σ.vecs.size) ∧
      σ' = (σ.allocVec true (List.replicate n.toNat fill)).2 := by
  simp only [applyPure] at h
  repeat' split at h
  all_goals simp only [err, ok, missing, Prod.mk.injEq] at h
  all_goals obtain ⟨rfl, rfl⟩ := h
  all_goals first
    | exact Or.inl ⟨rfl, _, rfl⟩
    | skip
  rename_i hn
  exact Or.inr ⟨_, _, _, rfl, by omega, rfl, rfl⟩

theorem applyPure_vectorSet_shape {σ : Store} {args : List Value} {r σ'}
    (h : applyPure σ .vectorSet args = (r, σ')) :
    (σ' = σ ∧ ∃ e, r = .error e) ∨
    ∃ id n obj rest cell, args = .vec id :: .num (.int n) :: obj :: rest ∧ σ.vecs[id]? = some cell ∧
      cell.mutable = true ∧ 0 ≤ n ∧ n.toNat < cell.items.length ∧ r = .ok .void ∧
      σ' = vsetStore σ id cell n.toNat obj := by
  simp only [applyPure, listSet_eq] at h
  repeat' split at h
  all_goals simp only [err, ok, missing, Prod.mk.injEq] at h
  all_goals first
    | (obtain ⟨rfl, rfl⟩ := h; exact Or.inl ⟨rfl, _, rfl⟩)
    | skip
  rename_i cell hc hm hn _ items hi
  obtain ⟨rfl, rfl⟩ := h
  split at hi
  · rename_i hlt
    cases hi
    refine Or.inr ⟨_, _, _, _, cell, rfl, hc, by simpa using hm, by omega, hlt, rfl, rfl⟩
  · cases hi

theorem vsetStore_vecs_getElem? (σ : Store) (id : Nat) (cell : VecCell) (n : Nat) (obj : Value) (j : Nat) :
    (vsetStore σ id cell n obj).vecs[j]? =
      if id = j then (if id < σ.vecs.size then some { cell with items := cell.items.set n obj } else none)
      else σ.vecs[j]? := by
  simp [vsetStore, Array.set!_eq_setIfInBounds, Array.getElem?_setIfInBounds]

theorem sameExceptCell_vsetStore {σ : Store} {id : Nat} {cell : VecCell} (hc : σ.vecs[id]? = some cell)
    (n : Nat) (obj : Value) : Store.SameExceptCell σ (vsetStore σ id cell n obj) id where
  frames := rfl
  out := rfl
  ticks := rfl
  depth := rfl
  maxDepth := rfl
  vecs_size := by simp [vsetStore, Array.set!_eq_setIfInBounds]
  other_cells := fun j hj => by rw [vsetStore_vecs_getElem?]; simp [Ne.symm hj]
  flag := by
    rw [vsetStore_vecs_getElem?, hc]
    simp [Store.getElem?_some_lt hc]

theorem grows_vsetStore {σ : Store} {id : Nat} {cell : VecCell} (hc : σ.vecs[id]? = some cell)
    (hm : cell.mutable = true) (n : Nat) (obj : Value) : Store.Grows σ (vsetStore σ id cell n obj) where
  frames_size := Nat.le_refl _
  vecs_size := by simp [vsetStore, Array.set!_eq_setIfInBounds]
  frame := fun _ f h => ⟨f, h, rfl, fun _ h => h⟩
  cell := fun i c h => by
    rw [vsetStore_vecs_getElem?]
    by_cases hi : id = i
    · subst hi
      rw [hc] at h; cases h
      simp only [if_true, Store.getElem?_some_lt hc]
      exact ⟨_, rfl, rfl, by simp, fun hf => by simp [hm] at hf⟩
    · simp only [hi, if_false]
      exact ⟨c, h, rfl, rfl, fun _ => rfl⟩

theorem wf_vsetStore {σ : Store} (wf : σ.WF) {id : Nat} {cell : VecCell} (hc : σ.vecs[id]? = some cell)
    (n : Nat) {obj : Value} (ho : σ.AllocIn obj) : (vsetStore σ id cell n obj).WF where
  parent_lt := wf.parent_lt
  frame_vals := fun i f hf kv hkv => by
    have := wf.frame_vals i f hf kv hkv
    simpa [Store.AllocIn, vsetStore, Array.set!_eq_setIfInBounds] using this
  vec_vals := fun i c h v hv => by
    have hsz : (vsetStore σ id cell n obj).AllocIn v ↔ σ.AllocIn v := by
      simp [Store.AllocIn, vsetStore, Array.set!_eq_setIfInBounds]
    rw [hsz]
    rw [vsetStore_vecs_getElem?] at h
    by_cases hi : id = i
    · subst hi
      simp only [if_true, Store.getElem?_some_lt hc, Option.some.injEq] at h
      subst h
      rcases List.mem_or_eq_of_mem_set hv with hv | rfl
      · exact wf.vec_vals _ cell hc v hv
      · exact ho
    · simp only [hi, if_false] at h
      exact wf.vec_vals i c h v hv

/-! ### every native procedure: `Grows`, `WF`, allocated results -/

theorem applyPure_grows (σ : Store) (b : Builtin) (args : List Value) :
    Store.Grows σ (applyPure σ b args).2 := by
  by_cases h1 : b = .vector
  · subst h1; exact Store.grows_allocVec ..
  by_cases h2 : b = .makeVector
  · subst h2
    rcases applyPure_makeVector_shape (σ := σ) (args := args) (r := (applyPure σ .makeVector args).1) (σ' := (applyPure σ .makeVector args).2) rfl with ⟨h, _⟩ | ⟨n, fill, rest, _, _, _, h⟩
    · rw [h]; exact Store.Grows.refl σ
    · rw [h]; exact Store.grows_allocVec ..
  by_cases h3 : b = .vectorSet
  · subst h3
    rcases applyPure_vectorSet_shape (σ := σ) (args := args) (r := (applyPure σ .vectorSet args).1) (σ' := (applyPure σ .vectorSet args).2) rfl with
      ⟨h, _⟩ | ⟨id, n, obj, rest, cell, _, hc, hm, _, _, _, h⟩
    · rw [h]; exact Store.Grows.refl σ
    · rw [h]; exact grows_vsetStore hc hm _ _
  exact Store.Grows.of_eq (applyPure_frames σ b args) (applyPure_vecs σ b args h1 h2 h3)

theorem applyPure_wf {σ : Store} (wf : σ.WF) (b : Builtin) {args : List Value}
    (ha : ∀ a ∈ args, σ.AllocIn a) :
    (applyPure σ b args).2.WF ∧ ∀ v, (applyPure σ b args).1 = .ok v → (applyPure σ b args).2.AllocIn v := by
  by_cases h1 : b = .vector
  · subst h1
    exact ⟨Store.wf_allocVec wf true ha, fun v hv => by
      rw [applyPure_vector] at hv ⊢; simp at hv; subst hv; simp [Store.AllocIn]⟩
  by_cases h2 : b = .makeVector
  · subst h2
    rcases applyPure_makeVector_shape (σ := σ) (args := args) (r := (applyPure σ .makeVector args).1) (σ' := (applyPure σ .makeVector args).2) rfl with
      ⟨h, e, he⟩ | ⟨n, fill, rest, hargs, _, hr, h⟩
    · rw [h, he]; exact ⟨wf, fun v hv => by cases hv⟩
    · rw [h, hr]
      refine ⟨Store.wf_allocVec wf true fun v hv => ?_, fun v hv => by cases hv; simp [Store.AllocIn]⟩
      rw [List.eq_of_mem_replicate hv]
      exact ha _ (by simp [hargs])
  by_cases h3 : b = .vectorSet
  · subst h3
    rcases applyPure_vectorSet_shape (σ := σ) (args := args) (r := (applyPure σ .vectorSet args).1) (σ' := (applyPure σ .vectorSet args).2) rfl with
      ⟨h, e, he⟩ | ⟨id, n, obj, rest, cell, hargs, hc, hm, _, _, hr, h⟩
    · rw [h, he]; exact ⟨wf, fun v hv => by cases hv⟩
    · rw [h, hr]
      exact ⟨wf_vsetStore wf hc _ (ha _ (by simp [hargs])), fun v hv => by cases hv; simp [Store.AllocIn]⟩
  have hf := applyPure_frames σ b args
  have hv := applyPure_vecs σ b args h1 h2 h3
  have hiff : ∀ v, (applyPure σ b args).2.AllocIn v ↔ σ.AllocIn v := by
    intro v; simp [Store.AllocIn, hf, hv]
  refine ⟨⟨?_, ?_, ?_⟩, fun v h => (hiff v).2 (applyPure_result h1 h2 h wf ha)⟩
  · rw [hf]; exact wf.parent_lt
  · intro i f hi kv hkv; rw [hf] at hi; exact (hiff _).2 (wf.frame_vals i f hi kv hkv)
  · intro i c hi v hv'; rw [hv] at hi; exact (hiff _).2 (wf.vec_vals i c hi v hv')

end Prim

/-! ## literals -/

namespace Eval

/-- what evaluating a literal does to the store: it appends immutable cells, nothing else -/
def LitStep (σ σ' : Store) : Prop :=
  ∃ cells : Array VecCell, σ' = { σ with vecs := σ.vecs ++ cells } ∧ ∀ c ∈ cells, c.mutable = false

theorem LitStep.refl (σ : Store) : LitStep σ σ := ⟨#[], by simp, by simp⟩

theorem LitStep.trans {σ₁ σ₂ σ₃ : Store} (h₁ : LitStep σ₁ σ₂) (h₂ : LitStep σ₂ σ₃) : LitStep σ₁ σ₃ := by
  obtain ⟨c₁, rfl, hc₁⟩ := h₁
  obtain ⟨c₂, rfl, hc₂⟩ := h₂
  refine ⟨c₁ ++ c₂, by simp [Array.append_assoc], fun c hc => ?_⟩
  rcases Array.mem_append.1 hc with h | h
  · exact hc₁ c h
  · exact hc₂ c h

theorem LitStep.allocVec (σ : Store) (items : List Value) : LitStep σ (σ.allocVec false items).2 :=
  ⟨#[{ mutable := false, items := items }], by simp [Store.allocVec], by simp⟩

theorem LitStep.grows {σ σ' : Store} (h : LitStep σ σ') : Store.Grows σ σ' := by
  obtain ⟨cells, rfl, _⟩ := h
  refine ⟨Nat.le_refl _, by simp, fun _ f h => ⟨f, h, rfl, fun _ h => h⟩, fun i c h => ?_⟩
  refine ⟨c, ?_, rfl, rfl, fun _ => rfl⟩
  simp only
  rw [Array.getElem?_append_left (Store.getElem?_some_lt h)]
  exact h

/-- everything `readLiteral` guarantees, in one statement (for the mutual induction) -/
def LitSpec (σ : Store) (r : Except SErr Value) (σ' : Store) : Prop :=
  LitStep σ σ' ∧ (σ.WF → σ'.WF ∧ ∀ v, r = .ok v → σ'.AllocIn v)

def LitsSpec (σ : Store) (r : Except SErr (List Value)) (σ' : Store) : Prop :=
  LitStep σ σ' ∧ (σ.WF → σ'.WF ∧ ∀ vs, r = .ok vs → ∀ v ∈ vs, σ'.AllocIn v)

mutual
theorem readLiteral_spec : ∀ (d : Datum) (σ : Store), LitSpec σ (readLiteral σ d).1 (readLiteral σ d).2
  | .prim p _, σ => by
    rw [readLiteral]
    split
    · refine ⟨LitStep.refl σ, fun wf => ⟨wf, fun v hv => ?_⟩⟩
      rename_i v' hp
      cases hv
      cases p <;> simp [evalPrim] at hp <;> try (subst hp; simp [Store.AllocIn])
      rename_i n d'
      cases hq : Num.exactRatio n d' <;> simp [hq, Except.map] at hp
      subst hp; simp [Store.AllocIn]
    · exact ⟨LitStep.refl σ, fun wf => ⟨wf, fun v hv => by cases hv⟩⟩
  | .sym s _, σ => by
    rw [readLiteral]
    exact ⟨LitStep.refl σ, fun wf => ⟨wf, fun v hv => by cases hv; simp [Store.AllocIn]⟩⟩
  | .nil _, σ => by
    rw [readLiteral]
    exact ⟨LitStep.refl σ, fun wf => ⟨wf, fun v hv => by cases hv; simp [Store.AllocIn]⟩⟩
  | .pair a d _, σ => by
    rw [readLiteral]
    have ha := readLiteral_spec a σ
    split
    · rename_i e σ₁ h₁
      rw [h₁] at ha
      exact ⟨ha.1, fun wf => ⟨(ha.2 wf).1, fun v hv => by cases hv⟩⟩
    · rename_i va σ₁ h₁
      rw [h₁] at ha
      have hd := readLiteral_spec d σ₁
      split
      · rename_i e σ₂ h₂
        rw [h₂] at hd
        exact ⟨ha.1.trans hd.1, fun wf => ⟨(hd.2 (ha.2 wf).1).1, fun v hv => by cases hv⟩⟩
      · rename_i vd σ₂ h₂
        rw [h₂] at hd
        refine ⟨ha.1.trans hd.1, fun wf => ⟨(hd.2 (ha.2 wf).1).1, fun v hv => ?_⟩⟩
        cases hv
        simp only [Store.AllocIn, Value.below_pair]
        exact ⟨((ha.2 wf).2 va rfl).grows hd.1.grows, (hd.2 (ha.2 wf).1).2 vd rfl⟩
  | .vec xs _, σ => by
    rw [readLiteral]
    have hx := readLiterals_spec xs σ
    split
    · rename_i e σ₁ h₁
      rw [h₁] at hx
      exact ⟨hx.1, fun wf => ⟨(hx.2 wf).1, fun v hv => by cases hv⟩⟩
    · rename_i vs σ₁ h₁
      rw [h₁] at hx
      refine ⟨hx.1.trans (LitStep.allocVec σ₁ vs), fun wf => ⟨?_, fun v hv => ?_⟩⟩
      · exact Store.wf_allocVec (hx.2 wf).1 false ((hx.2 wf).2 vs rfl)
      · cases hv; exact Store.allocIn_allocVec σ₁ false vs
theorem readLiterals_spec : ∀ (ds : List Datum) (σ : Store),
    LitsSpec σ (readLiterals σ ds).1 (readLiterals σ ds).2
  | [], σ => by
    rw [readLiterals]
    exact ⟨LitStep.refl σ, fun wf => ⟨wf, fun vs hv v hm => by cases hv; simp at hm⟩⟩
  | x :: xs, σ => by
    rw [readLiterals]
    have ha := readLiteral_spec x σ
    split
    · rename_i e σ₁ h₁
      rw [h₁] at ha
      exact ⟨ha.1, fun wf => ⟨(ha.2 wf).1, fun v hv => by cases hv⟩⟩
    · rename_i va σ₁ h₁
      rw [h₁] at ha
      have hd := readLiterals_spec xs σ₁
      split
      · rename_i e σ₂ h₂
        rw [h₂] at hd
        exact ⟨ha.1.trans hd.1, fun wf => ⟨(hd.2 (ha.2 wf).1).1, fun v hv => by cases hv⟩⟩
      · rename_i vd σ₂ h₂
        rw [h₂] at hd
        refine ⟨ha.1.trans hd.1, fun wf => ⟨(hd.2 (ha.2 wf).1).1, fun vs hv v hm => ?_⟩⟩
        cases hv
        simp only [List.mem_cons] at hm
        rcases hm with rfl | hm
        · exact ((ha.2 wf).2 _ rfl).grows hd.1.grows
        · exact (hd.2 (ha.2 wf).1).2 vd rfl v hm
end

theorem readLiteral_litStep (σ : Store) (d : Datum) : LitStep σ (readLiteral σ d).2 := (readLiteral_spec d σ).1
theorem readLiteral_grows (σ : Store) (d : Datum) : Store.Grows σ (readLiteral σ d).2 :=
  (readLiteral_spec d σ).1.grows
theorem readLiteral_wf {σ : Store} (wf : σ.WF) (d : Datum) :
    (readLiteral σ d).2.WF ∧ ∀ v, (readLiteral σ d).1 = .ok v → (readLiteral σ d).2.AllocIn v :=
  (readLiteral_spec d σ).2 wf

theorem LitStep.old_cells {σ σ' : Store} (h : LitStep σ σ') {i : Nat} (hi : i < σ.vecs.size) :
    σ'.vecs[i]? = σ.vecs[i]? := by
  obtain ⟨cells, rfl, _⟩ := h
  simp only
  rw [Array.getElem?_append_left hi]

theorem LitStep.new_cells {σ σ' : Store} (h : LitStep σ σ') {i : Nat} {c : VecCell}
    (hc : σ'.vecs[i]? = some c) (hi : σ.vecs.size ≤ i) : c.mutable = false := by
  obtain ⟨cells, rfl, him⟩ := h
  simp only at hc
  rw [Array.getElem?_append_right hi] at hc
  exact him c (Array.mem_of_getElem? hc)

theorem LitStep.frames {σ σ' : Store} (h : LitStep σ σ') : σ'.frames = σ.frames := by
  obtain ⟨cells, rfl, _⟩ := h; rfl

/-- a vector literal evaluates to a reference to a cell that did not exist before, and that cell
is immutable -/
theorem readLiteral_vec {σ : Store} {xs : List Datum} {l : Loc} {v : Value} {σ' : Store}
    (h : readLiteral σ (.vec xs l) = (.ok v, σ')) :
    ∃ id vs, v = .vec id ∧ σ.vecs.size ≤ id ∧ σ'.vecs.size = id + 1 ∧
      σ'.vecs[id]? = some { mutable := false, items := vs } := by
  rw [readLiteral] at h
  have hx := readLiterals_spec xs σ
  split at h
  · cases h
  · rename_i vs σ₁ h₁
    rw [h₁] at hx
    simp only [Store.allocVec, Prod.mk.injEq, Except.ok.injEq] at h
    obtain ⟨rfl, rfl⟩ := h
    exact ⟨σ₁.vecs.size, vs, rfl, hx.1.grows.vecs_size, by simp, by simp⟩

/-! ## `enter`, `leave`, `bindFixed` -/

@[simp] theorem enter_frames (σ : Store) : (enter σ).frames = σ.frames := rfl
@[simp] theorem enter_vecs (σ : Store) : (enter σ).vecs = σ.vecs := rfl
@[simp] theorem leave_frames (σ : Store) : (leave σ).frames = σ.frames := rfl
@[simp] theorem leave_vecs (σ : Store) : (leave σ).vecs = σ.vecs := rfl

theorem grows_enter (σ : Store) : Store.Grows σ (enter σ) := Store.Grows.of_eq rfl rfl
theorem grows_leave (σ : Store) : Store.Grows σ (leave σ) := Store.Grows.of_eq rfl rfl

theorem wf_of_eq {σ σ' : Store} (wf : σ.WF) (hf : σ'.frames = σ.frames) (hv : σ'.vecs = σ.vecs) : σ'.WF := by
  refine ⟨?_, ?_, ?_⟩
  · rw [hf]; exact wf.parent_lt
  · intro i f hi kv hkv; rw [hf] at hi
    have := wf.frame_vals i f hi kv hkv
    simpa [Store.AllocIn, hf, hv] using this
  · intro i c hi v hv'; rw [hv] at hi
    have := wf.vec_vals i c hi v hv'
    simpa [Store.AllocIn, hf, hv] using this

theorem allocIn_of_eq {σ σ' : Store} (hf : σ'.frames = σ.frames) (hv : σ'.vecs = σ.vecs) (v : Value) :
    σ'.AllocIn v ↔ σ.AllocIn v := by simp [Store.AllocIn, hf, hv]

theorem bindFixed_grows : ∀ (names : List String) (args : List Value) (σ : Store) (ρ : Nat),
    Store.Grows σ (bindFixed σ ρ names args).2
  | [], _, σ, _ => by rw [bindFixed]; exact Store.Grows.refl σ
  | _ :: _, [], σ, _ => by rw [bindFixed]; exact Store.Grows.refl σ
  | f :: fs, a :: as, σ, ρ => by
    rw [bindFixed]
    exact (Store.grows_define σ ρ f a).trans (bindFixed_grows fs as _ ρ)

theorem bindFixed_wf : ∀ (names : List String) (args : List Value) (σ : Store) (ρ : Nat), σ.WF →
    (∀ a ∈ args, σ.AllocIn a) →
    (bindFixed σ ρ names args).2.WF ∧
      ∀ rest, (bindFixed σ ρ names args).1 = .ok rest → ∀ a ∈ rest, (bindFixed σ ρ names args).2.AllocIn a
  | [], args, σ, _, wf, ha => by
    rw [bindFixed]; exact ⟨wf, fun rest h a hm => by cases h; exact ha a hm⟩
  | _ :: _, [], σ, _, wf, _ => by
    rw [bindFixed]; exact ⟨wf, fun rest h => by cases h⟩
  | f :: fs, a :: as, σ, ρ, wf, ha => by
    rw [bindFixed]
    refine bindFixed_wf fs as _ ρ (Store.wf_define wf ρ f (ha a (by simp))) fun x hx => ?_
    exact (ha x (by simp [hx])).grows (Store.grows_define σ ρ f a)

/-- `bindFixed` writes to frame `ρ` only -/
theorem bindFixed_other : ∀ (names : List String) (args : List Value) (σ : Store) (ρ : Nat),
    let σ' := (bindFixed σ ρ names args).2
    σ'.vecs = σ.vecs ∧ σ'.out = σ.out ∧ σ'.ticks = σ.ticks ∧ σ'.depth = σ.depth ∧
    σ'.maxDepth = σ.maxDepth ∧ σ'.frames.size = σ.frames.size ∧
    (∀ i, i ≠ ρ → σ'.frames[i]? = σ.frames[i]?) ∧ σ'.parentOf ρ = σ.parentOf ρ
  | [], _, σ, _ => by rw [bindFixed]; simp
  | _ :: _, [], σ, _ => by rw [bindFixed]; simp
  | f :: fs, a :: as, σ, ρ => by
    rw [bindFixed]
    have ih := bindFixed_other fs as (σ.define ρ f a) ρ
    simp only [Store.define_vecs, Store.define_out, Store.define_ticks, Store.define_depth,
      Store.define_maxDepth, Store.define_frames_size, Store.parentOf_define] at ih
    obtain ⟨h1, h2, h3, h4, h5, h6, h7, h8⟩ := ih
    refine ⟨h1, h2, h3, h4, h5, h6, fun i hi => ?_, h8⟩
    rw [h7 i hi, Store.define_frames_getElem?]
    simp [hi]

theorem lookup_append_ite (y : String) (l₁ l₂ : List (String × Value)) :
    (l₁ ++ l₂).lookup y = match l₁.lookup y with | some a => some a | none => l₂.lookup y := by
  induction l₁ with
  | nil => simp
  | cons p l ih =>
    obtain ⟨k, b⟩ := p
    simp only [List.cons_append, Store.lookup_cons_ite]
    split
    · rfl
    · exact ih

/-- the bindings of frame `ρ` after binding the fixed parameters: parameter `names[i]` holds
`args[i]` (the last occurrence of a repeated name wins), every other name is untouched; the
arguments left over are returned -/
theorem bindFixed_bindings : ∀ (names : List String) (args : List Value) (σ : Store) (ρ : Nat)
    (rest : List Value) (σ' : Store), ρ < σ.frames.size → bindFixed σ ρ names args = (.ok rest, σ') →
    names.length ≤ args.length ∧ rest = args.drop names.length ∧
    ∀ y, σ'.binding ρ y = match ((names.zip args).reverse).lookup y with
      | some a => some a
      | none => σ.binding ρ y
  | [], args, σ, ρ, rest, σ', _, h => by
    rw [bindFixed] at h; cases h; simp
  | _ :: _, [], σ, _, rest, σ', _, h => by
    rw [bindFixed] at h; cases h
  | f :: fs, a :: as, σ, ρ, rest, σ', hρ, h => by
    rw [bindFixed] at h
    obtain ⟨h1, h2, h3⟩ := bindFixed_bindings fs as (σ.define ρ f a) ρ rest σ' (by simpa using hρ) h
    refine ⟨by simpa using h1, by simpa using h2, fun y => ?_⟩
    rw [h3 y, Store.binding_define]
    simp only [List.zip_cons_cons, List.reverse_cons, lookup_append_ite, Store.lookup_cons_ite,
      List.lookup_nil, true_and, hρ, and_true]
    cases ((fs.zip as).reverse).lookup y <;> simp
    split <;> rfl

end Eval

/-! ## `vector-set!` and `vector-ref` on a reference -/

namespace Prim

theorem vectorSet_outcome {σ : Store} {id : Nat} {cell : VecCell} (hc : σ.vecs[id]? = some cell)
    (n : Int) (obj : Value) (rest : List Value) :
    applyPure σ .vectorSet (.vec id :: .num (.int n) :: obj :: rest) =
      if cell.mutable = false then (.error (.immutable, none), σ)
      else if n < 0 ∨ cell.items.length ≤ n.toNat then (.error (.vectorIndex, none), σ)
      else (.ok .void, vsetStore σ id cell n.toNat obj) := by
  simp only [applyPure, hc, listSet_eq]
  cases hm : cell.mutable <;> simp [err, ok, vsetStore]
  by_cases hn : n < 0
  · simp [hn]
  · simp only [hn, if_false, false_or]
    by_cases hl : n.toNat < cell.items.length
    · simp [hl, Nat.not_le.2 hl, hm]
    · simp [hl, Nat.not_lt.1 hl]

theorem vectorRef_outcome {σ : Store} {id : Nat} {cell : VecCell} (hc : σ.vecs[id]? = some cell)
    (n : Int) (rest : List Value) :
    applyPure σ .vectorRef (.vec id :: .num (.int n) :: rest) =
      if n < 0 then (.error (.vectorIndex, none), σ)
      else match cell.items[n.toNat]? with
        | some x => (.ok x, σ)
        | none => (.error (.vectorIndex, none), σ) := by
  simp only [applyPure, hc]
  split
  · rfl
  · split <;> simp_all [ok, err]

/-- `vector-ref` through a reference looks at the cell of that id and at nothing else -/
theorem vectorRef_congr {σ σ' : Store} {id : Nat} (h : σ'.vecs[id]? = σ.vecs[id]?) (k : Value)
    (rest : List Value) :
    (applyPure σ' .vectorRef (.vec id :: k :: rest)).1 = (applyPure σ .vectorRef (.vec id :: k :: rest)).1 ∧
    (applyPure σ' .vectorRef (.vec id :: k :: rest)).2 = σ' := by
  refine ⟨?_, ?_⟩
  · simp only [applyPure, h]
    repeat' split
    all_goals simp [ok, err]
  · simp only [applyPure]
    repeat' split
    all_goals simp [ok, err]

end Prim

namespace Store

/-- the demo store is well formed -/
theorem demo_wf : demo.WF := by
  refine ⟨fun i f h p hp => ?_, fun i f h kv hkv => ?_, fun i c h v hv => ?_⟩
  · have hi : i < 4 := Store.getElem?_some_lt h
    have : i = 0 ∨ i = 1 ∨ i = 2 ∨ i = 3 := by omega
    rcases this with rfl | rfl | rfl | rfl <;> simp [demo] at h <;> subst h <;> simp at hp <;> omega
  · have hi : i < 4 := Store.getElem?_some_lt h
    have : i = 0 ∨ i = 1 ∨ i = 2 ∨ i = 3 := by omega
    rcases this with rfl | rfl | rfl | rfl <;> simp [demo] at h <;> subst h <;>
      simp at hkv <;> (try rcases hkv with rfl | rfl) <;> (try subst hkv) <;>
      simp [Store.AllocIn, demo]
  · have hi : i < 2 := Store.getElem?_some_lt h
    have : i = 0 ∨ i = 1 := by omega
    rcases this with rfl | rfl <;> simp [demo] at h <;> subst h <;>
      simp at hv <;> (try rcases hv with rfl | rfl) <;> (try subst hv) <;>
      simp [Store.AllocIn, demo]

end Store

/-! ## who sees a `set!` / a `define` -/

namespace Store

theorem resolve_define (σ : Store) (ρ : Nat) (x : String) (v : Value) (ρ' : Nat) (y : String) :
    (σ.define ρ x v).resolve ρ' y =
      (σ.chain ρ').find? (fun j => decide (j = ρ ∧ y = x ∧ ρ < σ.frames.size) || σ.definesAt j y) := by
  rw [resolve_eq_find, chain_define]
  congr 1
  funext j
  exact definesAt_define σ ρ x v j y

/-- overwriting an existing definition does not change what any name resolves to -/
theorem resolve_define_of_definesAt {σ : Store} {r : Nat} {x : String} (hd : σ.definesAt r x = true)
    (v : Value) (ρ' : Nat) (y : String) : (σ.define r x v).resolve ρ' y = σ.resolve ρ' y := by
  rw [resolve_define, resolve_eq_find]
  congr 1
  funext j
  by_cases h : j = r ∧ y = x ∧ r < σ.frames.size
  · obtain ⟨rfl, rfl, _⟩ := h
    simp [hd]
  · simp [h]

theorem set_true {σ σ' : Store} {ρ : Nat} {x : String} {v : Value} (h : σ.set ρ x v = (true, σ')) :
    ∃ r, σ.resolve ρ x = some r ∧ σ' = σ.define r x v := by
  rw [set_eq] at h
  split at h
  · rename_i r hr
    simp only [Prod.mk.injEq, true_and] at h
    exact ⟨r, hr, h.symm⟩
  · simp at h

theorem lookup_after_set {σ σ' : Store} {ρ : Nat} {x : String} {v : Value}
    (h : σ.set ρ x v = (true, σ')) (ρ' : Nat) (y : String) :
    σ'.resolve ρ' y = σ.resolve ρ' y ∧
    (y = x ∧ σ.resolve ρ' y = σ.resolve ρ x → σ'.lookup ρ' y = some v) ∧
    (¬ (y = x ∧ σ.resolve ρ' y = σ.resolve ρ x) → σ'.lookup ρ' y = σ.lookup ρ' y) := by
  obtain ⟨r, hr, rfl⟩ := set_true h
  have hs := resolve_some hr
  have hres := resolve_define_of_definesAt hs.1 v ρ' y
  refine ⟨hres, fun ⟨hy, hsame⟩ => ?_, fun hnot => ?_⟩
  · subst hy
    rw [lookup_eq_bind, hres, hsame, hr]
    simp [binding_define, hs.2.2]
  · rw [lookup_eq_bind, lookup_eq_bind, hres]
    cases hi : σ.resolve ρ' y with
    | none => rfl
    | some i =>
      simp only [Option.bind_some, binding_define]
      have : ¬ (i = r ∧ y = x ∧ r < σ.frames.size) := by
        rintro ⟨rfl, rfl, _⟩
        exact hnot ⟨rfl, by rw [hi, hr]⟩
      simp [this]

theorem lookup_after_define (σ : Store) {ρ : Nat} (x : String) (v : Value) (hρ : ρ < σ.frames.size)
    (ρ' : Nat) (y : String) :
    (y = x ∧ (σ.define ρ x v).resolve ρ' x = some ρ → (σ.define ρ x v).lookup ρ' y = some v) ∧
    (¬ (y = x ∧ (σ.define ρ x v).resolve ρ' x = some ρ) →
      (σ.define ρ x v).lookup ρ' y = σ.lookup ρ' y) := by
  refine ⟨fun ⟨hy, hr⟩ => ?_, fun hnot => ?_⟩
  · subst hy
    rw [lookup_eq_bind, hr]
    simp [binding_define, hρ]
  · rw [lookup_eq_bind, lookup_eq_bind]
    by_cases hy : y = x
    · subst hy
      have hne : (σ.define ρ y v).resolve ρ' y ≠ some ρ := fun h => hnot ⟨rfl, h⟩
      have hrd := resolve_define σ ρ y v ρ' y
      simp only [hρ, and_true] at hrd
      cases hi : (σ.define ρ y v).resolve ρ' y with
      | none =>
        rw [hi] at hrd
        have := find?_or_none hrd.symm
        rw [← resolve_eq_find] at this
        rw [this]; rfl
      | some i =>
        rw [hi] at hrd hne
        have hir : i ≠ ρ := fun h => hne (by rw [h])
        have := find?_or_ne hrd.symm hir
        rw [← resolve_eq_find] at this
        rw [this]
        simp [binding_define, hir]
    · have hres : (σ.define ρ x v).resolve ρ' y = σ.resolve ρ' y := by
        rw [resolve_define, resolve_eq_find]
        congr 1; funext j; simp [hy]
      rw [hres]
      cases σ.resolve ρ' y with
      | none => rfl
      | some i => simp [binding_define, hy]

end Store

/-! ## the evaluator only ever appends: `Grows` by induction on fuel -/

namespace Eval
open Store

structure GrowsAt (fuel : Nat) : Prop where
  expr : ∀ σ ρ e, Grows σ (evalExpr fuel σ ρ e).2
  args : ∀ σ ρ es, Grows σ (evalArgs fuel σ ρ es).2
  proc : ∀ σ p args env, Grows σ (applyProcedure fuel σ p args env).2
  loop : ∀ σ p args env, Grows σ (applyLoop fuel σ p args env).2
  scheme : ∀ σ lam cenv args, Grows σ (applyScheme fuel σ lam cenv args).2
  defs : ∀ σ ρ ds, Grows σ (evalDefs fuel σ ρ ds).2
  body : ∀ σ ρ es, Grows σ (evalBody fuel σ ρ es).2
  tail : ∀ σ ρ e, Grows σ (evalTail fuel σ ρ e).2

section rules
variable {fuel : Nat} (ih : GrowsAt fuel) {σ₀ σ σ' : Store}
include ih

theorem GrowsAt.expr_eq {ρ e r} (h : evalExpr fuel σ ρ e = (r, σ')) (g : Grows σ₀ σ) : Grows σ₀ σ' := by
  have := ih.expr σ ρ e; rw [h] at this; exact g.trans this
theorem GrowsAt.args_eq {ρ e r} (h : evalArgs fuel σ ρ e = (r, σ')) (g : Grows σ₀ σ) : Grows σ₀ σ' := by
  have := ih.args σ ρ e; rw [h] at this; exact g.trans this
theorem GrowsAt.loop_eq {p a env r} (h : applyLoop fuel σ p a env = (r, σ')) (g : Grows σ₀ σ) : Grows σ₀ σ' := by
  have := ih.loop σ p a env; rw [h] at this; exact g.trans this
theorem GrowsAt.scheme_eq {l c a r} (h : applyScheme fuel σ l c a = (r, σ')) (g : Grows σ₀ σ) : Grows σ₀ σ' := by
  have := ih.scheme σ l c a; rw [h] at this; exact g.trans this
theorem GrowsAt.defs_eq {ρ ds r} (h : evalDefs fuel σ ρ ds = (r, σ')) (g : Grows σ₀ σ) : Grows σ₀ σ' := by
  have := ih.defs σ ρ ds; rw [h] at this; exact g.trans this
theorem GrowsAt.expr_snd {ρ e} (g : Grows σ₀ σ) : Grows σ₀ (evalExpr fuel σ ρ e).2 := g.trans (ih.expr ..)
theorem GrowsAt.args_snd {ρ e} (g : Grows σ₀ σ) : Grows σ₀ (evalArgs fuel σ ρ e).2 := g.trans (ih.args ..)
theorem GrowsAt.proc_snd {p a env} (g : Grows σ₀ σ) : Grows σ₀ (applyProcedure fuel σ p a env).2 := g.trans (ih.proc ..)
theorem GrowsAt.loop_snd {p a env} (g : Grows σ₀ σ) : Grows σ₀ (applyLoop fuel σ p a env).2 := g.trans (ih.loop ..)
theorem GrowsAt.defs_snd {ρ ds} (g : Grows σ₀ σ) : Grows σ₀ (evalDefs fuel σ ρ ds).2 := g.trans (ih.defs ..)
theorem GrowsAt.body_snd {ρ es} (g : Grows σ₀ σ) : Grows σ₀ (evalBody fuel σ ρ es).2 := g.trans (ih.body ..)
theorem GrowsAt.tail_snd {ρ e} (g : Grows σ₀ σ) : Grows σ₀ (evalTail fuel σ ρ e).2 := g.trans (ih.tail ..)
end rules

section datarules
variable {σ₀ σ σ' : Store}
theorem g_set_eq {ρ x v b} (h : σ.set ρ x v = (b, σ')) (g : Grows σ₀ σ) : Grows σ₀ σ' := by
  have := grows_set σ ρ x v; rw [h] at this; exact g.trans this
theorem g_define {ρ x v} (g : Grows σ₀ σ) : Grows σ₀ (σ.define ρ x v) := g.trans (grows_define ..)
theorem g_enter (g : Grows σ₀ σ) : Grows σ₀ (enter σ) := g.trans (grows_enter σ)
theorem g_leave (g : Grows σ₀ σ) : Grows σ₀ (leave σ) := g.trans (grows_leave σ)
theorem g_prim {b a} (g : Grows σ₀ σ) : Grows σ₀ (Prim.applyPure σ b a).2 := g.trans (Prim.applyPure_grows ..)
theorem g_lit {d} (g : Grows σ₀ σ) : Grows σ₀ (readLiteral σ d).2 := g.trans (readLiteral_grows ..)
theorem g_bind_eq {ρ n a r} (h : bindFixed σ ρ n a = (r, σ')) (g : Grows σ₀ σ) : Grows σ₀ σ' := by
  have := bindFixed_grows n a σ ρ; rw [h] at this; exact g.trans this
theorem g_newFrame {p} (g : Grows σ₀ σ) : Grows σ₀ (σ.newFrame p).2 := g.trans (grows_newFrame ..)
end datarules

macro "grows_chain" ih:term : tactic =>
  `(tactic| solve_by_elim (maxDepth := 12) [Grows.refl, GrowsAt.expr_eq $ih, GrowsAt.args_eq $ih, GrowsAt.loop_eq $ih,
      GrowsAt.scheme_eq $ih, GrowsAt.defs_eq $ih, GrowsAt.expr_snd $ih, GrowsAt.args_snd $ih,
      GrowsAt.proc_snd $ih, GrowsAt.loop_snd $ih, GrowsAt.defs_snd $ih, GrowsAt.body_snd $ih,
      GrowsAt.tail_snd $ih, g_set_eq, g_define, g_enter, g_leave, g_prim, g_lit, g_bind_eq, g_newFrame])

theorem growsAt_zero : GrowsAt 0 := by
  constructor <;> intros <;> simp only [evalExpr, evalArgs, applyProcedure, applyLoop, applyScheme, evalDefs, evalBody, evalTail] <;> exact Grows.refl _

theorem growsAt_succ {fuel : Nat} (ih : GrowsAt fuel) : GrowsAt (fuel + 1) := by
  constructor
  · intro σ ρ e
    cases e <;> simp only [evalExpr]
    all_goals (repeat' split)
    all_goals (try dsimp only)
    all_goals grows_chain ih
  · intro σ ρ es
    cases es <;> simp only [evalArgs]
    all_goals (repeat' split)
    all_goals (try dsimp only)
    all_goals grows_chain ih
  · intro σ p args env
    rw [applyProcedure]
    split
    dsimp only
    grows_chain ih
  · intro σ p args env
    rw [applyLoop.eq_def]
    dsimp only
    all_goals (repeat' split)
    all_goals (try dsimp only)
    all_goals grows_chain ih
  · intro σ lam cenv args
    simp only [applyScheme]
    cases lam.formals.rest <;> dsimp only
    all_goals (repeat' split)
    all_goals (try dsimp only)
    all_goals grows_chain ih
  · intro σ ρ ds
    rcases ds with _ | ⟨⟨name, e, l⟩, ds⟩ <;> simp only [evalDefs]
    all_goals (repeat' split)
    all_goals (try dsimp only)
    all_goals grows_chain ih
  · intro σ ρ es
    rcases es with _ | ⟨e, _ | ⟨e', es⟩⟩ <;> simp only [evalBody]
    all_goals (repeat' split)
    all_goals (try dsimp only)
    all_goals grows_chain ih
  · intro σ ρ e
    cases e <;> simp only [evalTail]
    all_goals (repeat' split)
    all_goals (try dsimp only)
    all_goals grows_chain ih

theorem growsAt : ∀ fuel, GrowsAt fuel
  | 0 => growsAt_zero
  | fuel + 1 => growsAt_succ (growsAt fuel)

theorem evalExpr_grows (fuel σ ρ e) : Grows σ (evalExpr fuel σ ρ e).2 := (growsAt fuel).expr σ ρ e
theorem evalArgs_grows (fuel σ ρ es) : Grows σ (evalArgs fuel σ ρ es).2 := (growsAt fuel).args σ ρ es
theorem applyProcedure_grows (fuel σ p args env) : Grows σ (applyProcedure fuel σ p args env).2 :=
  (growsAt fuel).proc σ p args env
theorem applyLoop_grows (fuel σ p args env) : Grows σ (applyLoop fuel σ p args env).2 :=
  (growsAt fuel).loop σ p args env
theorem applyScheme_grows (fuel σ lam cenv args) : Grows σ (applyScheme fuel σ lam cenv args).2 :=
  (growsAt fuel).scheme σ lam cenv args
theorem evalDefs_grows (fuel σ ρ ds) : Grows σ (evalDefs fuel σ ρ ds).2 := (growsAt fuel).defs σ ρ ds
theorem evalBody_grows (fuel σ ρ es) : Grows σ (evalBody fuel σ ρ es).2 := (growsAt fuel).body σ ρ es
theorem evalTail_grows (fuel σ ρ e) : Grows σ (evalTail fuel σ ρ e).2 := (growsAt fuel).tail σ ρ e

/-- a call's store grows from the store that already contains the call's fresh frame -/
theorem applyScheme_succ_grows (fuel : Nat) (σ : Store) (lam : Lambda) (cenv : Nat) (args : List Value) :
    Grows (σ.newFrame (some cenv)).2 (applyScheme (fuel + 1) σ lam cenv args).2 := by
  have ih := growsAt fuel
  simp only [applyScheme]
  cases lam.formals.rest <;> dsimp only
  all_goals (repeat' split)
  all_goals (try dsimp only)
  all_goals grows_chain ih

end Eval

/-! ## the evaluator preserves `WF`: induction on fuel -/

namespace Eval
open Store

theorem evalPrim_alloc {p : Prim} {v : Value} (h : evalPrim p = .ok v) (σ : Store) : σ.AllocIn v := by
  cases p <;> simp [evalPrim] at h <;> try (subst h; simp [Store.AllocIn])
  rename_i n d
  cases hq : Num.exactRatio n d <;> simp [hq, Except.map] at h
  subst h; simp [Store.AllocIn]

theorem mem_of_lookup {y : String} {v : Value} : ∀ {l : List (String × Value)}, l.lookup y = some v → (y, v) ∈ l
  | [], h => by simp at h
  | (k, b) :: l, h => by
    rw [Store.lookup_cons_ite] at h
    split at h
    · rename_i hy; cases h; subst hy; simp
    · exact List.mem_cons_of_mem _ (mem_of_lookup h)

theorem lookup_alloc {σ : Store} (wf : σ.WF) {ρ : Nat} {s : String} {v : Value}
    (h : σ.lookup ρ s = some v) : σ.AllocIn v := by
  rw [lookup_eq_bind] at h
  cases hr : σ.resolve ρ s with
  | none => simp [hr] at h
  | some r =>
    simp only [hr, Option.bind_some, binding] at h
    cases hf : σ.frames[r]? with
    | none => simp [hf] at h
    | some f =>
      simp only [hf] at h
      exact wf.frame_vals r f hf (s, v) (mem_of_lookup h)

theorem spreadApply_alloc {args args' : List Value} {f : Value} (h : spreadApply args = .ok (f, args'))
    {σ : Store} (ha : ∀ a ∈ args, σ.AllocIn a) : σ.AllocIn f ∧ ∀ a ∈ args', σ.AllocIn a := by
  unfold spreadApply at h
  split at h
  · cases h
  · rename_i f' rest
    split at h
    · cases h
    · split at h
      · cases h
        exact ⟨ha _ (by simp), by simp⟩
      · rename_i last hl
        have hlast : last ∈ rest := List.mem_of_getLast? hl
        have hal : σ.AllocIn last := ha _ (by simp [hlast])
        split at h
        · cases h
          refine ⟨ha _ (by simp), fun a hm => ?_⟩
          rcases List.mem_append.1 hm with hm | hm
          · exact ha _ (List.mem_cons_of_mem _ (List.dropLast_subset _ hm))
          · exact Value.below_elems hal a hm
        · cases h
          refine ⟨ha _ (by simp), fun a hm => ?_⟩
          rcases List.mem_append.1 hm with hm | hm
          · exact ha _ (List.mem_cons_of_mem _ (List.dropLast_subset _ hm))
          · exact Value.below_elems hal a hm
        · cases h

/-- all values of a list are allocated -/
def AllocAll (σ : Store) (vs : List Value) : Prop := ∀ v ∈ vs, σ.AllocIn v

theorem allocAll_nil {σ : Store} : AllocAll σ [] := by simp [AllocAll]
theorem allocAll_cons {σ : Store} {v vs} : AllocAll σ (v :: vs) ↔ σ.AllocIn v ∧ AllocAll σ vs := by
  simp [AllocAll]
theorem AllocAll.grows {σ σ' : Store} {vs} (h : AllocAll σ vs) (g : Grows σ σ') : AllocAll σ' vs :=
  fun v hv => (h v hv).grows g

/-- the evaluator-level invariant at a given fuel: `WF` is preserved, results are allocated -/
structure WFAt (fuel : Nat) : Prop where
  expr : ∀ σ ρ e r σ', evalExpr fuel σ ρ e = (r, σ') → σ.WF → ρ < σ.frames.size →
    σ'.WF ∧ ∀ v, r = .ok v → σ'.AllocIn v
  args : ∀ σ ρ es r σ', evalArgs fuel σ ρ es = (r, σ') → σ.WF → ρ < σ.frames.size →
    σ'.WF ∧ ∀ vs, r = .ok vs → AllocAll σ' vs
  proc : ∀ σ p as env r σ', applyProcedure fuel σ p as env = (r, σ') → σ.WF → σ.AllocIn p →
    AllocAll σ as → σ'.WF ∧ ∀ v, r = .ok v → σ'.AllocIn v
  loop : ∀ σ p as env r σ', applyLoop fuel σ p as env = (r, σ') → σ.WF → σ.AllocIn p →
    AllocAll σ as → σ'.WF ∧ ∀ v, r = .ok v → σ'.AllocIn v
  scheme : ∀ σ lam cenv as r σ', applyScheme fuel σ lam cenv as = (r, σ') → σ.WF → cenv < σ.frames.size →
    AllocAll σ as → σ'.WF ∧ ∀ t, r = .ok t → TailRes.AllocIn σ' t
  defs : ∀ σ ρ ds r σ', evalDefs fuel σ ρ ds = (r, σ') → σ.WF → ρ < σ.frames.size → σ'.WF
  body : ∀ σ ρ es r σ', evalBody fuel σ ρ es = (r, σ') → σ.WF → ρ < σ.frames.size →
    σ'.WF ∧ ∀ t, r = .ok t → TailRes.AllocIn σ' t
  tail : ∀ σ ρ e r σ', evalTail fuel σ ρ e = (r, σ') → σ.WF → ρ < σ.frames.size →
    σ'.WF ∧ ∀ t, r = .ok t → TailRes.AllocIn σ' t

theorem wfAt_zero : WFAt 0 := by
  constructor <;> intros <;>
    simp_all [evalExpr, evalArgs, applyProcedure, applyLoop, applyScheme, evalDefs, evalBody, evalTail] <;>
    grind

/-! forward facts, in the form `f … = (r, σ') → …` that `grind` instantiates by E-matching -/

theorem ge_expr (fuel) {σ ρ e r σ'} (h : evalExpr fuel σ ρ e = (r, σ')) : Grows σ σ' := by
  have := evalExpr_grows fuel σ ρ e; rwa [h] at this
theorem ge_args (fuel) {σ ρ e r σ'} (h : evalArgs fuel σ ρ e = (r, σ')) : Grows σ σ' := by
  have := evalArgs_grows fuel σ ρ e; rwa [h] at this
theorem ge_loop (fuel) {σ p a env r σ'} (h : applyLoop fuel σ p a env = (r, σ')) : Grows σ σ' := by
  have := applyLoop_grows fuel σ p a env; rwa [h] at this
theorem ge_scheme (fuel) {σ l c a r σ'} (h : applyScheme fuel σ l c a = (r, σ')) : Grows σ σ' := by
  have := applyScheme_grows fuel σ l c a; rwa [h] at this
theorem ge_defs (fuel) {σ ρ ds r σ'} (h : evalDefs fuel σ ρ ds = (r, σ')) : Grows σ σ' := by
  have := evalDefs_grows fuel σ ρ ds; rwa [h] at this
theorem ge_bind {σ ρ n a r σ'} (h : bindFixed σ ρ n a = (r, σ')) : Grows σ σ' := by
  have := bindFixed_grows n a σ ρ; rwa [h] at this

theorem lt_grows {σ σ' : Store} {ρ : Nat} (h : ρ < σ.frames.size) (g : Grows σ σ') : ρ < σ'.frames.size :=
  Nat.lt_of_lt_of_le h g.frames_size


theorem fw_set {σ : Store} {ρ x v b σ'} (h : σ.set ρ x v = (b, σ')) (wf : σ.WF) (hv : σ.AllocIn v) : σ'.WF := by
  have := wf_set wf ρ x hv; rwa [h] at this
theorem fw_lit {σ d r σ'} (h : readLiteral σ d = (r, σ')) (wf : σ.WF) :
    σ'.WF ∧ ∀ v, r = .ok v → σ'.AllocIn v := by
  have := readLiteral_wf wf d; rwa [h] at this
theorem fw_prim {σ b a r σ'} (h : Prim.applyPure σ b a = (r, σ')) (wf : σ.WF) (ha : AllocAll σ a) :
    σ'.WF ∧ ∀ v, r = .ok v → σ'.AllocIn v := by
  have := Prim.applyPure_wf wf b ha; rwa [h] at this
theorem fw_bind {σ ρ n a r σ'} (h : bindFixed σ ρ n a = (r, σ')) (wf : σ.WF) (ha : AllocAll σ a) :
    σ'.WF ∧ ∀ rest, r = .ok rest → σ'.AllocIn (Value.ofList rest) := by
  have := bindFixed_wf n a σ ρ wf ha; rw [h] at this
  exact ⟨this.1, fun rest hr => Value.below_ofList (this.2 rest hr)⟩
theorem fw_newFrame {σ : Store} (wf : σ.WF) {c : Nat} (hc : c < σ.frames.size) :
    (σ.newFrame (some c)).2.WF ∧ Grows σ (σ.newFrame (some c)).2 ∧
    (σ.newFrame (some c)).1 < (σ.newFrame (some c)).2.frames.size :=
  ⟨wf_newFrame wf _ (fun p hp => by cases hp; exact hc), grows_newFrame σ _, by simp⟩
theorem fw_enter {σ : Store} : ((enter σ).WF ↔ σ.WF) ∧ (∀ v, (enter σ).AllocIn v ↔ σ.AllocIn v) :=
  ⟨⟨fun h => wf_of_eq (σ := enter σ) h rfl rfl, fun h => wf_of_eq h rfl rfl⟩, fun v => allocIn_of_eq rfl rfl v⟩
theorem fw_leave {σ : Store} : ((leave σ).WF ↔ σ.WF) ∧ (∀ v, (leave σ).AllocIn v ↔ σ.AllocIn v) :=
  ⟨⟨fun h => wf_of_eq (σ := leave σ) h rfl rfl, fun h => wf_of_eq h rfl rfl⟩, fun v => allocIn_of_eq rfl rfl v⟩
theorem fw_closure {σ : Store} {lam ρ} : σ.AllocIn (.closure lam ρ) ↔ ρ < σ.frames.size := by
  simp [Store.AllocIn]
theorem fw_void {σ : Store} : σ.AllocIn .void := by simp [Store.AllocIn]
theorem fw_tail_value {σ : Store} {v} : TailRes.AllocIn σ (.value v) ↔ σ.AllocIn v := Iff.rfl
theorem fw_tail_call {σ : Store} {f a env} : TailRes.AllocIn σ (.tailCall f a env) ↔ env < σ.frames.size := Iff.rfl
theorem fw_spread {args args' : List Value} {f : Value} {σ : Store} (h : spreadApply args = .ok (f, args'))
    (ha : AllocAll σ args) : σ.AllocIn f ∧ AllocAll σ args' := spreadApply_alloc h ha

theorem wfAt_succ {fuel : Nat} (ih : WFAt fuel) : WFAt (fuel + 1) := by
  constructor
  · intro σ ρ e r σ' h wf hρ
    cases e <;> simp only [evalExpr] at h
    case prim =>
      have := @evalPrim_alloc
      repeat' split at h
      all_goals grind
    case datum => have := @fw_lit; grind
    case quote => have := @fw_lit; grind
    case call =>
      have := ih.expr; have := ih.args; have := ih.proc
      have := @ge_expr fuel; have := @ge_args fuel; have := @lt_grows; have := @AllocIn.grows
      repeat' split at h
      all_goals grind
    case assign =>
      have := ih.expr; have := @fw_set; have := @fw_void
      repeat' split at h
      all_goals grind
    case lambda => have := @fw_closure; grind
    case cond =>
      have := ih.expr; have := @ge_expr fuel; have := @lt_grows; have := @fw_void
      repeat' split at h
      all_goals grind
    case sym =>
      have := @lookup_alloc
      repeat' split at h
      all_goals grind
  · intro σ ρ es r σ' h wf hρ
    cases es <;> simp only [evalArgs] at h
    · have := @allocAll_nil; grind
    · have := ih.expr; have := ih.args; have := @ge_expr fuel; have := @ge_args fuel
      have := @lt_grows; have := @AllocIn.grows; have := @allocAll_cons
      repeat' split at h
      all_goals grind
  · intro σ p as env r σ' h wf hp ha
    rw [applyProcedure] at h
    split at h
    rename_i heq
    have hl := ih.loop _ _ _ _ _ _ heq (fw_enter.1.2 wf) ((fw_enter.2 p).2 hp)
      (fun a h => (fw_enter.2 a).2 (ha a h))
    simp only [Prod.mk.injEq] at h; obtain ⟨rfl, rfl⟩ := h
    exact ⟨fw_leave.1.2 hl.1, fun v hv => (fw_leave.2 v).2 (hl.2 v hv)⟩
  · intro σ p as env r σ' h wf hp ha
    rw [applyLoop.eq_def] at h
    dsimp only at h
    have := ih.expr; have := ih.args; have := ih.loop; have := ih.scheme
    have := @ge_expr fuel; have := @ge_args fuel; have := @ge_scheme fuel
    have := @lt_grows; have := @AllocIn.grows; have := @fw_prim; have := @fw_spread
    have := @fw_closure; have := @fw_tail_value; have := @fw_tail_call
    repeat' split at h
    all_goals grind
  · intro σ lam cenv as r σ' h wf hc ha
    simp only [applyScheme] at h
    have := ih.defs; have := ih.body; have := @ge_defs fuel; have := @ge_bind
    have := @lt_grows; have := @AllocAll.grows; have := @fw_bind; have := @fw_newFrame
    have := @wf_define; have := @grows_define
    revert h
    cases lam.formals.rest <;> intro h <;> dsimp only at h
    all_goals (repeat' split at h)
    all_goals grind
  · intro σ ρ ds r σ' h wf hρ
    rcases ds with _ | ⟨⟨name, e, l⟩, ds⟩ <;> simp only [evalDefs] at h
    · grind
    · have := ih.expr; have := ih.defs; have := @ge_expr fuel; have := @lt_grows
      have := @wf_define; have := @grows_define
      repeat' split at h
      all_goals grind
  · intro σ ρ es r σ' h wf hρ
    rcases es with _ | ⟨e, _ | ⟨e', es⟩⟩ <;> simp only [evalBody] at h
    · grind
    · have := ih.tail; grind
    · have := ih.expr; have := ih.body; have := @ge_expr fuel; have := @lt_grows
      repeat' split at h
      all_goals grind
  · intro σ ρ e r σ' h wf hρ
    have := ih.expr; have := ih.tail; have := @ge_expr fuel; have := @lt_grows
    have := @fw_void; have := @fw_tail_value; have := @fw_tail_call
    cases e <;> simp only [evalTail] at h
    all_goals (repeat' split at h)
    all_goals grind

theorem wfAt : ∀ fuel, WFAt fuel
  | 0 => wfAt_zero
  | fuel + 1 => wfAt_succ (wfAt fuel)

theorem evalExpr_wf {fuel σ ρ e} (wf : σ.WF) (hρ : ρ < σ.frames.size) :
    (evalExpr fuel σ ρ e).2.WF ∧ ∀ v, (evalExpr fuel σ ρ e).1 = .ok v → (evalExpr fuel σ ρ e).2.AllocIn v :=
  (wfAt fuel).expr σ ρ e _ _ rfl wf hρ

end Eval

end Ruschm

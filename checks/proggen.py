"""Type-directed generator of terminating Scheme programs over the core and derived forms,
with optional `tick` probes, optional fault injection, and identifiers that avoid the names the
bundled (non-hygienic) macro templates introduce."""
import random

RESERVED = {"x", "temp", "atom-key", "memv", "not", "null?", "result", "test", "key", "list"}
VARS = ["a", "b", "c", "d", "n", "m", "p", "q", "u", "w"]
FAULTS = {
    "nonProcedure": ["(5 1)", "('sym 1 2)", "((car '(1)) 2)"],
    "arity": None,  # built from a known procedure
    "unbound": ["undefined-var-zz", "(undefined-fn-zz 1)", "undefined-var-zz", "(undefined-fn-zz 1)",
                "((lambda () (define ia-zz undefined-var-zz) (define undefined-var-zz 1) ia-zz))",
                "((lambda (t) (define undefined-var-zz undefined-var-zz) t) 1)",
                "(let () (define (ia-zz) 1) (define ib-zz (undefined-fn-zz 1)) (define (undefined-fn-zz q) q) ib-zz)"],
    "setUnbound": ["(set! undefined-var-zz 1)"],
    "type": ["(car 5)", "(+ 1 'a)", "(vector-ref '(1) 0)", "(cdr '())", "(< 1 \"s\")"],
    "vectorIndex": ["(vector-ref (vector 1 2) 2)", "(vector-set! (vector 1) 5 0)", "(vector-ref (vector) -1)", "(vector-ref (vector 1 2 3) -1)",
                    "(vector-set! (vector 1 2 3) -2 0)", "(vector-ref (vector 1 2) -2)"],
    # literal vectors are constants WHEREVER they stand in a literal datum: alone, inside a quoted list, inside another literal vector
    "immutable": ["(vector-set! #(1 2) 0 9)", "(vector-set! '#(1) 0 9)", "(vector-set! (car '(#(1 2) 3)) 0 9)",
                  "(vector-set! (vector-ref #(#(1 2) #(3)) 1) 0 9)", "(vector-set! (vector-ref '#(#(1)) 0) 0 9)",
                  "(vector-set! (car (cdr '(1 #(2) 3))) 0 9)", "(vector-set! (cdr '(1 . #(2))) 0 9)",
                  "(vector-set! (vector-ref (car '(#(#(5))) ) 0) 0 9)"],
    # an exact zero divisor among exact operands, wherever it stands and whatever follows it (an inexact divisor, divisors whose
    # product leaves the exact range)
    "divZero": ["(/ 1 0)", "(/ 1/2 0)", "(floor-quotient 5 0)", "(/ 0)", "(/ 5 0 2.0)", "(/ 1 100000 100000 0)", "(/ 5 0 1/2)", "(/ 1 2 0 3)",
                "(/ 7 0 0.0)", "(floor-remainder 5 0)", "(apply / (list 6 0 1.5))"],
}
FAULT_KIND = {"nonProcedure": "nonProcedure", "arity": "arity", "unbound": "unbound", "setUnbound": "unbound",
              "type": "type", "vectorIndex": "vectorIndex", "immutable": "immutable", "divZero": "divZero"}


class Gen:
    def __init__(self, rng, ticks=False, derived=True, max_depth=4, spelling=None, loops=True):
        self.rng = rng
        # spelling: None = mixed; or dict(define='sugar'|'lambda', call='direct'|'apply',
        # params='fixed'|'rest') to force one of the equivalent spellings everywhere. The random
        # stream consumed does not depend on it, so two generators with the same seed and different
        # spellings produce the same program in two spellings.
        self.spelling = spelling or {}
        # loops=False: no recursive procedures (for streams that are mutated afterwards: a mutated loop may never end)
        self.loops = loops
        self.ticks = ticks
        self.derived = derived
        self.max_depth = max_depth
        self.counter = 0
        self.tick_id = 0
        self.globals = []      # (name, type)  type in int,bool,list,vec, ('proc', k)
        self.stats = {}

    def fresh(self, prefix="v"):
        self.counter += 1
        return "%s%d" % (prefix, self.counter)

    def note(self, k):
        self.stats[k] = self.stats.get(k, 0) + 1

    def vars_of(self, env, ty):
        return [n for n, t in env if t == ty]

    def tick(self, e):
        """wrap an expression so that its evaluation is observable"""
        if self.ticks and self.rng.random() < 0.35:
            self.tick_id += 1
            return "(begin (tick %d) %s)" % (self.tick_id, e)
        return e

    def seq(self, n, gen):
        """n expressions; now and then one is its left neighbour written again, character for character (the same
        probe number included): a run of equal sub-forms is still a run of that many sub-forms"""
        out = []
        for _ in range(n):
            if len(out) >= 1 and self.rng.random() < 0.3:
                self.note("repeated-neighbour")
                out.append(out[-1])
            else:
                out.append(gen())
        return out

    # ---- expressions by type
    def int_(self, env, d):
        r = self.rng
        vs = self.vars_of(env, "int")
        if d <= 0 or r.random() < 0.2:
            if vs and r.random() < 0.6:
                return r.choice(vs)
            return str(r.choice([0, 1, 2, 3, 5, 7, 10, -1, -4]))
        k = r.random()
        procs = [(n, t[1]) for n, t in env if isinstance(t, tuple) and t[0] == "proc"]
        if k < 0.22:
            op = r.choice(["+", "-", "*", "max", "min"])
            n = r.choice([2, 2, 2, 3, 1])
            self.note("arith")
            return "(%s %s)" % (op, " ".join(self.tick(self.int_(env, d - 1)) for _ in range(n)))
        if k < 0.34:
            self.note("if")
            return "(if %s %s %s)" % (self.bool_(env, d - 1), self.tick(self.int_(env, d - 1)), self.tick(self.int_(env, d - 1)))
        if k < 0.46 and procs:
            n, ar = r.choice(procs)
            self.note("call")
            use_apply = r.random() < 0.25
            cut = r.randrange(0, ar + 1)
            args = [self.tick(self.int_(env, d - 1)) for _ in range(ar)]
            # the OPERATOR is an expression too, evaluated exactly once like the operands: now and then a compound one with a probe
            op_expr = n
            if self.ticks and r.random() < 0.3:
                self.tick_id += 1
                op_expr = r.choice(["(begin (tick %d) %s)", "((lambda () (tick %d) %s))", "(if (begin (tick %d) #t) %s car)"]) % (self.tick_id, n)
                self.note("compound-operator")
            sp = self.spelling.get("call")
            if sp == "apply" or (sp is None and use_apply):
                self.note("apply")
                return "(apply %s %s (list %s))" % (op_expr, " ".join(args[:cut]), " ".join(args[cut:]))
            return "(%s %s)" % (op_expr, " ".join(args))
        if k < 0.56:
            self.note("lambda-call")
            ar = r.randrange(0, 4)
            ps = [self.fresh("l") for _ in range(ar)]
            rest = r.random() < 0.3
            body_env = env + [(p, "int") for p in ps]
            if rest:
                rp = self.fresh("r")
                body_env = body_env + [(rp, "list")]
                extra = r.randrange(0, 3)
                formals = ("(" + " ".join(ps) + " . " + rp + ")") if ps else rp
                args = [self.tick(self.int_(env, d - 1)) for _ in range(ar + extra)]
                return "((lambda %s %s) %s)" % (formals, self.body(body_env, d - 1), " ".join(args))
            args = [self.tick(self.int_(env, d - 1)) for _ in range(ar)]
            visible = [nm for nm in vs if nm not in RESERVED]
            if ar >= 2 and visible and r.random() < 0.4:
                # a parameter NAMED LIKE a visible variable, and a later operand that mentions that variable: operands are
                # evaluated in the environment of the call, where the name still means the outer variable
                sh = r.choice(visible)
                ps[0] = sh
                args[1] = "(+ %s %s)" % (sh, args[1])
                body_env = env + [(p, "int") for p in ps]
                self.note("shadowing-parameter")
            body = self.body(body_env, d - 1)
            if self.spelling.get("params") == "rest":
                # the same procedure taking all its arguments as a rest list and unpacking it
                return "((lambda all (apply (lambda (%s) %s) all)) %s)" % (" ".join(ps), body, " ".join(args))
            return "((lambda (%s) %s) %s)" % (" ".join(ps), body, " ".join(args))
        if k < 0.62:
            ls = self.list_(env, d - 1)
            self.note("list-op")
            return r.choice(["(fold-left + 0 %s)", "(apply + %s)", "(let ((%s %s)) (if (pair? %s) (car %s) 0))" % ("L", "%s", "L", "L")]) % ls
        if k < 0.68:
            vs_ = self.vars_of(env, "vec")
            if vs_:
                v = r.choice(vs_)
                self.note("vector-ref")
                return "(vector-ref %s 0)" % v
            return "(vector-length (vector %s))" % " ".join(self.int_(env, d - 1) for _ in range(r.randrange(0, 3)))
        if self.derived:
            self.note("derived")
            return self.derived_int(env, d)
        return self.int_(env, d - 1)

    def derived_int(self, env, d):
        r = self.rng
        k = r.randrange(0, 10)
        e = lambda: self.tick(self.int_(env, d - 1))
        b = lambda: self.tick(self.bool_(env, d - 1))
        if k == 0:
            n = r.randrange(0, 4)
            # some bindings SHADOW a visible variable: a later initialiser that mentions the name then
            # tells `let` (all initialisers outside the scope) from `let*`
            visible = [nm for nm in self.vars_of(env, "int") if nm not in RESERVED]
            names = []
            for _ in range(n):
                cand = [v for v in visible if v not in names]
                names.append(r.choice(cand) if cand and r.random() < 0.4 else self.fresh("t"))
            inits = []
            for j, nm in enumerate(names):
                earlier_shadowed = [x for x in names[:j] if x in visible]
                if earlier_shadowed and r.random() < 0.7:
                    # mentions a name that an EARLIER binding of this same let shadows
                    inits.append("(+ %s %s)" % (r.choice(earlier_shadowed), e()))
                elif inits and r.random() < 0.3:
                    inits.append(inits[-1])
                else:
                    inits.append(e())
            binds = " ".join("(%s %s)" % (nm, i) for nm, i in zip(names, inits))
            return "(let (%s) %s)" % (binds, self.body(env + [(nm, "int") for nm in names], d - 1))
        if k == 1 and r.random() < 0.3:
            outer = [nm for nm in self.vars_of(env, "int") if nm not in RESERVED]
            if outer:
                # an earlier initialiser makes a closure that mentions a variable of the ENCLOSING scope; a later binding of the
                # same let* has that name: the closure keeps meaning the outer variable (let* scopes left to right)
                v, g = r.choice(outer), self.fresh("s")
                self.note("letstar-closure-over-later-name")
                return "(let* ((%s (lambda () %s)) (%s %s)) (+ (* 100 (%s)) %s))" % (g, v, v, e(), g, v)
        if k == 1:
            n = r.randrange(0, 4)
            names, binds, env2 = [], [], list(env)
            for _ in range(n):
                nm = self.fresh("s")
                binds.append("(%s %s)" % (nm, self.tick(self.int_(env2, d - 1))))
                env2.append((nm, "int"))
            return "(let* (%s) %s)" % (" ".join(binds), self.body(env2, d - 1))
        if k == 2:
            n = r.randrange(1, 4)
            clauses = []
            for i in range(n):
                c = r.random()
                if c < 0.2:
                    # the receiver is an expression too: evaluated only when its clause is chosen (observable through the probe)
                    clauses.append("(%s => %s)" % (b(), self.tick("(lambda (%s) %s)" % ("z", self.int_(env, d - 1)))))
                elif c < 0.3:
                    clauses.append("(%s)" % e())
                else:
                    clauses.append("(%s %s)" % (b(), " ".join(self.seq(r.randrange(1, 5), e))))
            clauses.append("(else %s)" % e())
            return "(cond %s)" % " ".join(clauses)
        if k == 3 and r.random() < 0.3:
            # a case that dispatches on SYMBOLS, the data being names of syntactic keywords and of the bundled derived forms, in
            # any position of a datum list: data are never code (not evaluated, not expanded), whatever they spell
            words = ["begin", "let", "let*", "and", "or", "when", "unless", "cond", "case", "if", "lambda", "define", "quote",
                     "set!", "else", "=>", "red", "blue"]
            n = r.randrange(1, 4)
            clauses, used = [], []
            for i in range(n):
                ws = [r.choice(words) for _ in range(r.randrange(1, 4))]
                used += ws
                if r.random() < 0.2:
                    clauses.append("((%s) => %s)" % (" ".join(ws), self.tick("(lambda (z) (if (eqv? z 'begin) 1 2))")))
                else:
                    clauses.append("((%s) %s)" % (" ".join(ws), e()))
            clauses.append("(else %s)" % e())
            key = r.choice(used) if r.random() < 0.8 else r.choice(words)
            self.note("case-on-keyword-symbols")
            return "(case %s %s)" % (self.tick("'" + key), " ".join(clauses))
        if k == 3:
            n = r.randrange(1, 3)
            clauses = []
            for i in range(n):
                atoms = " ".join(str(r.randrange(0, 6)) for _ in range(r.randrange(1, 3)))
                if r.random() < 0.2:
                    clauses.append("((%s) => %s)" % (atoms, self.tick("(lambda (z) (+ z 1))")))
                else:
                    clauses.append("((%s) %s)" % (atoms, e()))
            clauses.append("(else %s)" % e() if r.random() < 0.8 else "(else => %s)" % self.tick("(lambda (z) z)"))
            return "(case %s %s)" % (self.tick(self.int_(env, d - 1)), " ".join(clauses))
        if k == 4:
            return "(if (and %s) %s %s)" % (" ".join(self.seq(r.randrange(0, 5), b)), e(), e())
        if k == 5:
            return "(if (or %s) %s %s)" % (" ".join(self.seq(r.randrange(0, 5), b)), e(), e())
        if k == 6:
            return "(begin %s)" % " ".join(self.seq(r.randrange(1, 5), e))
        if k == 7:
            return "(let ((%s (when %s %s))) 1)" % (self.fresh("t"), b(), " ".join(self.seq(r.randrange(1, 5), e)))
        if k == 8:
            return "(let ((%s (unless %s %s))) 2)" % (self.fresh("t"), b(), " ".join(self.seq(r.randrange(1, 5), e)))
        return "(or (and %s %s) %s)" % (b(), e(), e())

    def bool_(self, env, d):
        r = self.rng
        if d <= 0 or r.random() < 0.25:
            return r.choice(["#t", "#f"])
        k = r.random()
        if k < 0.5:
            return "(%s %s %s)" % (r.choice(["<", "=", ">", "<=", ">="]), self.int_(env, d - 1), self.int_(env, d - 1))
        if k < 0.6:
            return "(if %s %s %s)" % (self.bool_(env, d - 1), self.bool_(env, d - 1), self.bool_(env, d - 1))
        if k < 0.7:
            return "(pair? %s)" % self.list_(env, d - 1)
        if k < 0.8:
            return "(eqv? %s %s)" % (self.int_(env, d - 1), self.int_(env, d - 1))
        if k < 0.9 and self.derived:
            # a one-armed conditional standing directly in test position: when its own test fails its value is unspecified
            # but it is NOT #f, so it counts as true
            inner, v = self.bool_(env, d - 1), self.tick(self.int_(env, d - 1))
            return r.choice(["(when %s %s)", "(unless %s %s)", "(if %s %s)", "(cond (%s %s))"]) % (inner, v)
        if k < 0.95:
            # the branches are the boolean literals and the TEST is not a boolean (a number, a list: true like everything but #f): the
            # value is the branch, never the test's own value
            t = self.int_(env, d - 1) if r.random() < 0.6 else self.list_(env, d - 1)
            return r.choice(["(if %s #t #f)", "(if %s #f #t)", "(if %s #t #f)"]) % self.tick(t)
        return "(if %s #f #t)" % self.bool_(env, d - 1)

    def list_(self, env, d):
        r = self.rng
        vs = self.vars_of(env, "list")
        if d <= 0 or r.random() < 0.3:
            if vs and r.random() < 0.5:
                return r.choice(vs)
            return "'(%s)" % " ".join(str(r.randrange(0, 9)) for _ in range(r.randrange(0, 4)))
        k = r.random()
        if k < 0.3:
            return "(list %s)" % " ".join(self.tick(self.int_(env, d - 1)) for _ in range(r.randrange(0, 4)))
        if k < 0.5:
            return "(cons %s %s)" % (self.int_(env, d - 1), self.list_(env, d - 1))
        if k < 0.7:
            p = self.fresh("e")
            return "(map (lambda (%s) %s) %s)" % (p, self.tick(self.int_(env + [(p, "int")], d - 1)), self.list_(env, d - 1))
        if k < 0.85:
            return "(append %s %s)" % (self.list_(env, d - 1), self.list_(env, d - 1))
        return "(make-list %d %s)" % (r.randrange(0, 3), self.int_(env, d - 1))

    def body(self, env, d):
        """a procedure/let body: optional internal definitions, effect expressions, a result"""
        r = self.rng
        out = []
        env = list(env)
        if r.random() < 0.25:
            for _ in range(r.randrange(1, 3)):
                nm = self.fresh("i")
                if r.random() < 0.5:
                    out.append("(define %s %s)" % (nm, self.int_(env, d - 1)))
                    env.append((nm, "int"))
                else:
                    p = self.fresh("a")
                    b = self.int_(env + [(p, "int")], d - 1)
                    if self.spelling.get("define") == "lambda":
                        out.append("(define %s (lambda (%s) %s))" % (nm, p, b))
                    else:
                        out.append("(define (%s %s) %s)" % (nm, p, b))
                    env.append((nm, ("proc", 1)))
        if r.random() < 0.15:
            # an internal definition whose initialiser CALLS a procedure written there, and the closure that call returns
            # refers to a LATER internal definition of the same body (legal: it is called only after both are defined)
            self.note("forward-internal")
            fa, fb, p = self.fresh("i"), self.fresh("i"), self.fresh("q")
            arg = self.int_(env, d - 2)
            val = self.int_(env, d - 2)
            shape = r.randrange(4)
            if shape == 0:
                out.append("(define %s ((lambda (%s) (lambda () (+ %s %s))) %s))" % (fa, p, p, fb, arg))
            elif shape == 1:
                out.append("(define %s (car (map (lambda (%s) (lambda () (+ %s %s))) (list %s))))" % (fa, p, p, fb, arg))
            elif shape == 2:
                out.append("(define %s (apply (lambda (%s) (lambda () (+ %s %s))) (list %s)))" % (fa, p, p, fb, arg))
            else:
                out.append("(define %s (let ((%s %s)) (lambda () (+ %s %s))))" % (fa, p, arg, p, fb))
            out.append("(define %s %s)" % (fb, val))
            env.append((fb, "int"))
            env.append((fa, ("proc", 0)))
        shadowable = [nm for nm in self.vars_of(env, "int") if nm not in RESERVED]
        if self.derived and shadowable and r.random() < 0.08:
            # a (let () ...) / (let* () ...) FIRST in the body whose own body defines a name that is also a variable of the
            # enclosing body: the definition is local to that let; the enclosing variable is used afterwards, unchanged
            v = r.choice(shadowable)
            self.note("local-define-in-empty-let")
            out.append("(%s () (define %s %s) %s)" % (r.choice(["let", "let*"]), v, self.int_(env, d - 2), self.tick(v)))
            out.append(self.tick(v))
        for _ in range(r.choice([0, 0, 0, 1, 2])):
            out.append(self.tick(self.int_(env, d - 1)))
        out.append(self.tick(self.int_(env, d)))
        return " ".join(out)

    # ---- top level
    def toplevel(self, nforms):
        r = self.rng
        forms = []
        for _ in range(nforms):
            k = r.random()
            env = list(self.globals)
            if k < 0.2:
                nm = self.fresh("g")
                forms.append("(define %s %s)" % (nm, self.int_(env, self.max_depth)))
                self.globals.append((nm, "int"))
            elif k < 0.45:
                nm = self.fresh("f")
                ar = r.randrange(0, 4)
                ps = [self.fresh("x") for _ in range(ar)]
                penv = env + [(p, "int") for p in ps]
                sugar = r.random() < 0.5
                sp = self.spelling.get("define")
                body = self.body(penv, self.max_depth - 1)
                if sp == "sugar" or (sp is None and sugar):
                    forms.append("(define (%s %s) %s)" % (nm, " ".join(ps), body))
                else:
                    forms.append("(define %s (lambda (%s) %s))" % (nm, " ".join(ps), body))
                self.globals.append((nm, ("proc", ar)))
            elif k < 0.5:
                nm = self.fresh("k")
                # counter generator: closures over fresh state
                forms.append("(define (%s) (let ((c 0)) (lambda () (set! c (+ c 1)) c)))" % nm)
                c1 = self.fresh("c")
                forms.append("(define %s (%s))" % (c1, nm))
                self.globals.append((c1, ("proc", 0)))
            elif k < 0.56:
                nm = self.fresh("z")
                forms.append("(define %s (vector %s))" % (nm, " ".join(self.int_(env, 1) for _ in range(r.randrange(1, 4)))))
                self.globals.append((nm, "vec"))
            elif k < 0.62:
                ints = self.vars_of(env, "int")
                if ints:
                    forms.append("(set! %s %s)" % (r.choice(ints), self.int_(env, 2)))
                else:
                    forms.append(self.int_(env, 2))
            elif k < 0.67 and self.loops:
                nm = self.fresh("h")
                # a bounded loop through tail calls
                forms.append("(define (%s n acc) (if (= n 0) acc (%s (- n 1) (+ acc %s))))" % (nm, nm, self.int_(env + [("n", "int"), ("acc", "int")], 1)))
                forms.append("(%s %d 0)" % (nm, r.randrange(0, 6)))
            elif k < 0.68 and self.derived:
                # a procedure whose TAIL expression is a let that shadows its parameters, with a later
                # initialiser mentioning a name an earlier binding of the same let shadows
                nm = self.fresh("s")
                a, b = self.fresh("x"), self.fresh("x")
                penv = env + [(a, "int"), (b, "int")]
                i1 = self.int_(penv, 2)
                i2 = "(+ %s %s)" % (a, self.int_(penv, 1))
                body = r.choice(["(+ (* 10 %s) %s)" % (a, b), "(- %s %s)" % (b, a), "(list %s %s)" % (a, b)])
                wrap = r.choice(["%s", "(if (< 0 1) %s 0)", "(begin 0 %s)", "(when #t %s)", "(cond (#f 0) (else %s))"])
                forms.append("(define (%s %s %s) %s)" % (nm, a, b, wrap % ("(let ((%s %s) (%s %s)) %s)" % (a, i1, b, i2, body))))
                forms.append("(%s %d %d)" % (nm, r.randrange(0, 9), r.randrange(0, 9)))
            elif k < 0.72 and self.loops:
                # a tail loop whose operands create closures over the loop variables; the closures are
                # called only after the loop has finished (each must still see its own iteration's binding)
                nm = self.fresh("b")
                style = r.randrange(3)
                via_apply = self.spelling.get("call") == "apply"
                def selfcall(a, b):
                    return "(apply %s (list %s %s))" % (nm, a, b) if via_apply else "(%s %s %s)" % (nm, a, b)
                if style == 0:
                    forms.append("(define (%s n acc) (if (= n 0) acc %s))" % (nm, selfcall("(- n 1)", "(cons (lambda () n) acc)")))
                elif style == 1:
                    forms.append("(define (%s n acc) (if (= n 0) acc %s))" % (nm, selfcall("(- n 1)", "(cons (lambda (d) (+ n d)) acc)")))
                else:
                    forms.append("(define %s (lambda (n acc) (define (mk) (lambda () (* n 10))) (if (= n 0) acc %s)))" % (nm, selfcall("(- n 1)", "(cons (mk) acc)")))
                arg = "" if style != 1 else " 100"
                forms.append("(map (lambda (t) (t%s)) (%s %d '()))" % (arg, nm, r.randrange(1, 5)))
            elif k < 0.78:
                # procedures taking ALL their arguments as a rest list (no fixed parameter): re-entered non-tail while the list
                # is still needed, closed over by closures of two different calls, and with the rest parameter named like a
                # parameter of the enclosing procedure. In the `fixed` spelling the same procedures take one list argument.
                nm = self.fresh("v")
                style = r.randrange(4)
                if style == 0 and not self.loops:
                    style = 1           # no recursive procedures in streams that are mutated afterwards
                args = [self.int_(env, 1) for _ in range(r.randrange(1, 5))]
                args2 = [self.int_(env, 1) for _ in range(r.randrange(0, 3))]
                pick_rest = r.random() < 0.5
                sp = self.spelling.get("params")
                rest = sp == "rest" or (sp is None and pick_rest)
                sugar = self.spelling.get("define") != "lambda"
                def defn(name, body):
                    if rest:
                        return "(define (%s . xs) %s)" % (name, body) if sugar else "(define %s (lambda xs %s))" % (name, body)
                    return "(define (%s xs) %s)" % (name, body) if sugar else "(define %s (lambda (xs) %s))" % (name, body)
                def call(name, a):
                    return "(%s %s)" % (name, " ".join(a)) if rest else "(%s (list %s))" % (name, " ".join(a))
                if style == 0:
                    again = "(apply %s (cdr xs))" % nm if rest else "(%s (cdr xs))" % nm
                    forms.append(defn(nm, "(if (pair? xs) (+ %s (car xs)) 0)" % again))
                    forms.append(call(nm, args))
                elif style == 1:
                    forms.append(defn(nm, "(lambda () xs)"))
                    a, b = self.fresh("c"), self.fresh("c")
                    forms.append("(define %s %s)" % (a, call(nm, args)))
                    forms.append("(define %s %s)" % (b, call(nm, args2)))
                    forms.append("(list (%s) (%s) (%s))" % (a, b, a))
                elif style == 3:
                    # a fixed parameter and a rest parameter, called with several SURPLUS arguments, directly or through apply
                    # with the cut between leading arguments and final list anywhere
                    more = [self.int_(env, 1) for _ in range(r.randrange(2, 5))]
                    cut = r.choice([len(more), len(more), len(more) - 1, r.randrange(0, len(more) + 1)])
                    forms.append("(define (%s a . xs) (cons a xs))" % nm if sugar else "(define %s (lambda (a . xs) (cons a xs)))" % nm)
                    if self.spelling.get("call") == "apply" or (self.spelling.get("call") is None and pick_rest):
                        forms.append("(apply %s %s (list %s))" % (nm, " ".join(more[:cut]), " ".join(more[cut:])))
                    else:
                        forms.append("(%s %s)" % (nm, " ".join(more)))
                else:
                    inner = "((lambda xs (car xs)) 1 2)" if rest else "((lambda (xs) (car xs)) (list 1 2))"
                    forms.append("(define (%s xs) (+ %s (car xs)))" % (nm, inner))
                    forms.append("(%s (list %s))" % (nm, " ".join(args)))
            elif k < 0.80:
                # closures that leave the call INSIDE a data structure held by a local variable, from a procedure with internal
                # definitions whose last expression is that variable (not a call): they still see the call's parameters and
                # internal definitions afterwards
                nm = self.fresh("e")
                kk, st = r.randrange(1, 9), r.randrange(2, 6)
                holder = r.choice(["(list get (lambda () (* k step)))", "(vector get (lambda () (* k step)))",
                                   "(cons get (lambda () (* k step)))"])
                sugar = self.spelling.get("define") != "lambda"
                body = "(define step %d) (define (get) (+ k step)) (define r %s) %s" % (
                    st, holder, r.choice(["r", "(if (< k 0) '() r)"]))
                forms.append("(define (%s k) %s)" % (nm, body) if sugar else "(define %s (lambda (k) %s))" % (nm, body))
                h = self.fresh("g")
                forms.append("(define %s (%s %d))" % (h, nm, kk))
                if holder.startswith("(list"):
                    forms.append("(list ((car %s)) ((car (cdr %s))))" % (h, h))
                elif holder.startswith("(vector"):
                    forms.append("(list ((vector-ref %s 0)) ((vector-ref %s 1)))" % (h, h))
                else:
                    forms.append("(list ((car %s)) ((cdr %s)))" % (h, h))
            elif k < 0.81:
                # truth values as VALUES (not only as tests): what a conditional, a predicate, a comparison returns
                forms.append("(list %s)" % " ".join(self.bool_(env, self.max_depth - 1) for _ in range(r.randrange(1, 4))))
            elif k < 0.82:
                forms.append(self.list_(env, self.max_depth - 1))
            else:
                forms.append(self.int_(env, self.max_depth))
        return forms


def closure_soup(self):
    """CLOSURE SOUP: two or three factories, each returning a closure over its own parameters (and internal definitions);
    several instances of each; every instance takes a step budget, two other instances and an accumulator, and hands over to
    one of them - in tail position, under an operator, through apply, through a compound operator, from a let body - with
    the roles swapped or not. Which code runs next and which frame it sees is decided by the VALUES passed around: instances
    of one lambda differ only in their captured frame."""
    r = self.rng
    forms = []
    sugar = self.spelling.get("define") != "lambda"
    via_apply = self.spelling.get("call") == "apply"
    insts = []
    for fi in range(r.randrange(2, 4)):
        mk = self.fresh("mk")
        internal = r.choice(["", "(define step (+ k 1))", "(define (bump t) (+ t k))", "(define step (* k 2)) (define (bump t) (- t step))"])
        has_step, has_bump = "(define step" in internal, "(define (bump" in internal
        def small():
            opts = ["(+ x k)", "(* 2 x)", "(- x k)", "(+ x 1)"]
            if has_step: opts += ["(+ x step)", "(- x step)"]
            if has_bump: opts += ["(bump x)"]
            return self.tick(r.choice(opts))
        base = r.choice(["(+ x k)", "(* x k)", "(- k x)"] + (["(bump x)"] if has_bump else []) + (["(+ x step)"] if has_step else []))
        swap = r.choice(["g f", "f g", "f f", "g g"])
        target = r.choice(["f", "g"])
        shape = r.randrange(7)
        args = "(- n 1) %s %s" % (swap, small())
        if shape == 0:
            rec = "(%s %s)" % (target, args)
        elif shape == 1:
            rec = "(+ k (%s %s))" % (target, args)
        elif shape == 2:
            rec = "(apply %s (list %s))" % (target, args)
        elif shape == 3:
            rec = "((if (< x %d) f g) %s)" % (r.randrange(0, 30), args)
        elif shape == 4:
            rec = "(let ((y %s)) (%s (- n 1) %s y))" % (small(), target, swap)
        elif shape == 5:
            rec = "(if (< x %d) (%s %s) (%s (- n 1) %s %s))" % (r.randrange(0, 30), target, args, "g" if target == "f" else "f", swap, small())
        else:
            rec = "((lambda (h) (h %s)) %s)" % (args, target)
        lam = "(lambda (n f g x) (if (<= n 0) %s %s))" % (base, rec)
        body = (internal + " " + lam).strip()
        forms.append("(define (%s k) %s)" % (mk, body) if sugar else "(define %s (lambda (k) %s))" % (mk, body))
        for _ in range(r.randrange(1, 3)):
            nm = self.fresh("i")
            forms.append("(define %s (%s %d))" % (nm, mk, r.randrange(1, 11)))
            insts.append(nm)
    for _ in range(r.randrange(2, 5)):
        a, b, c = r.choice(insts), r.choice(insts), r.choice(insts)
        n, x = r.randrange(0, 5), r.randrange(0, 9)
        forms.append("(apply %s (list %d %s %s %d))" % (a, n, b, c, x) if via_apply else "(%s %d %s %s %d)" % (a, n, b, c, x))
    return forms



POOL = ["a", "b", "c"]

def scope_soup(rng, depth=3):
    """SCOPE SOUP: nested let / let* / directly applied lambda / bodies with internal definitions over a pool of THREE names, so
    that names are shadowed and re-bound all the time (a let* binding a name twice, an initialiser mentioning the name it
    re-binds, an inner definition of an outer name); at every level closures that read or assign a visible name are collected;
    afterwards they are called in random order, several times. Which binding each closure means is decided by lexical scoping
    alone."""
    count = [0]
    def closures(vis):
        out = []
        for _ in range(rng.randrange(1, 3)):
            v = rng.choice(vis)
            k = rng.randrange(1, 9)
            out.append(rng.choice(["(lambda () %s)" % v, "(lambda () (set! %s (+ %s %d)) %s)" % (v, v, k, v),
                                   "(lambda () (set! %s (* %s 2)) %s)" % (v, v, v)]))
            count[0] += 1
        return out
    def init(vis):
        if vis and rng.random() < 0.6:
            v = rng.choice(vis)
            return rng.choice(["(+ %s %d)" % (v, rng.randrange(1, 5)), v, "(* %s 10)" % v])
        return str(rng.randrange(0, 9))
    def expr(vis, d):
        """an expression whose value is a LIST of closures"""
        here = closures(vis) if vis else []
        if d == 0:
            return "(list %s)" % " ".join(here)
        kind = rng.randrange(5)
        n = rng.randrange(1, 4)
        names = [rng.choice(POOL) for _ in range(n)]
        if kind == 0:       # let: distinct names, initialisers see the OUTER bindings
            names = list(dict.fromkeys(names))
            binds = " ".join("(%s %s)" % (v, init(vis)) for v in names)
            inner = expr(vis + names, d - 1)
            return "(append (list %s) (let (%s) %s))" % (" ".join(here), binds, inner)
        if kind == 1:       # let*: names may repeat; each initialiser sees the bindings to its left; closures BETWEEN bindings
            parts, cur = [], list(vis)
            for v in names:
                parts.append("(%s %s)" % (v, init(cur)))
                cur = cur + [v]
                if rng.random() < 0.6:
                    h = "h%d" % rng.randrange(1000)
                    parts.append("(%s (list %s))" % (h, " ".join(closures(cur))))
                    cur = cur + []          # h is not a pool name: never chosen by closures
                    parts[-1] = parts[-1]
                    here_h = h
                    parts.append(None); parts[-1] = ("#", here_h)
            binds, hs = [], []
            for p in parts:
                if isinstance(p, tuple): hs.append(p[1])
                else: binds.append(p)
            inner = expr(cur, d - 1)
            return "(append (list %s) (let* (%s) (append %s %s)))" % (" ".join(here), " ".join(binds), " ".join(hs) if hs else "'()", inner)
        if kind == 2:       # directly applied lambda
            names = list(dict.fromkeys(names))
            inner = expr(vis + names, d - 1)
            return "(append (list %s) ((lambda (%s) %s) %s))" % (" ".join(here), " ".join(names), inner, " ".join(init(vis) for _ in names))
        if kind == 3:       # a body with internal definitions (sequential, in one frame); names distinct; half of the time the
            # procedure has PARAMETERS and an internal definition re-defines one of them (same frame: the name then has ONE binding,
            # the later one; its initialiser mentions only outer names, so every reading of the body's scoping agrees)
            names = list(dict.fromkeys(names))
            params = []
            if rng.random() < 0.5:
                params = list(dict.fromkeys([rng.choice(POOL) for _ in range(rng.randrange(1, 3))]))
                if rng.random() < 0.7 and not set(params) & set(names):
                    names = [params[0]] + names
            defs, cur = [], list(vis)
            outer_only = [x for x in vis if x not in names and x not in params]
            for v in names:
                defs.append("(define %s %s)" % (v, init(outer_only)))
            pre = closures(vis + params) if params and rng.random() < 0.5 else []      # closures made BEFORE the re-definition
            inner = expr(vis + params + names, d - 1)
            body = "%s (append (list %s) %s)" % (" ".join(defs), " ".join(pre), inner) if not pre else \
                   "(define early (list %s)) %s (append early %s)" % (" ".join(pre), " ".join(defs), inner)
            return "(append (list %s) ((lambda (%s) %s) %s))" % (" ".join(here), " ".join(params), body, " ".join(init(vis) for _ in params))
        # a procedure called twice: each call has its own frame
        p = rng.choice(POOL)
        inner = expr(vis + [p], d - 1)
        return "(append (list %s) ((lambda (mk) (append (mk %s) (mk %s))) (lambda (%s) %s)))" % (
            " ".join(here), init(vis), init(vis), p, inner)
    forms = ["(define a 1)", "(define b 2)", "(define c 3)"]
    forms.append("(define cs %s)" % expr(list(POOL), depth))
    forms.append("(define (nth l i) (if (= i 0) (car l) (nth (cdr l) (- i 1))))")
    forms.append("(define (len l) (if (null? l) 0 (+ 1 (len (cdr l)))))")
    forms.append("(len cs)")
    return forms, count

def scope_calls(rng, n, k):
    return ["((nth cs %d))" % rng.randrange(n) for _ in range(k)] + ["(list a b c)"]



NUMERIC_OPS = {"+": (1, 3), "*": (1, 3), "-": (1, 3), "/": (1, 3), "max": (1, 3), "min": (1, 3), "=": (1, 3), "<": (1, 3), ">": (1, 3),
               "<=": (1, 3), ">=": (1, 3), "abs": (1, 1), "floor": (1, 1), "ceiling": (1, 1), "exact": (1, 1),
               "floor-quotient": (2, 2), "floor-remainder": (2, 2)}
NON_NUMBERS = ["'a", '"s"', "#t", "#\\c", "'(1)", "(vector 1)", "car", "'()"]
NON_PAIRS = ["5", "'()", '"s"', "(vector 1)", "'a", "#f"]
NON_VECTORS = ["5", "'(1 2)", '"s"', "'a", "car"]


def type_fault(rng):
    """a builtin applied to an argument of the wrong type: every numeric builtin at every arity it accepts with the
    offending argument at every position, pair and vector accessors; written as a direct call, through apply (with and
    without leading arguments) or handed to map as a procedure"""
    k = rng.random()
    if k < 0.6:
        op = rng.choice(sorted(NUMERIC_OPS))
        lo, hi = NUMERIC_OPS[op]
        n = rng.randrange(lo, hi + 1)
        args = [rng.choice(["1", "2", "1/2", "1.5", "7"]) for _ in range(n)]
        args[rng.randrange(n)] = rng.choice(NON_NUMBERS)
    elif k < 0.8:
        op = rng.choice(["car", "cdr", "cadr", "cddr", "caar", "cdar"])
        args = [rng.choice(NON_PAIRS + (["'(1)"] if op in ("cadr", "cddr", "caar", "cdar") else []))]
        if op == "cddr" and args == ["'(1)"]:
            args = ["5"]
    else:
        op, args = rng.choice([("vector-ref", [rng.choice(NON_VECTORS), "0"]), ("vector-ref", ["(vector 1 2)", rng.choice(["'a", "1/2", '"s"'])]),
                               ("vector-length", [rng.choice(NON_VECTORS)]), ("vector-set!", [rng.choice(NON_VECTORS), "0", "1"]),
                               ("vector-set!", ["(vector 1 2)", rng.choice(["'a", "1/2"]), "1"]), ("make-vector", [rng.choice(["'a", '"s"']), "0"])])
    shape = rng.random()
    if shape < 0.55:
        return "(%s %s)" % (op, " ".join(args))
    if shape < 0.7:
        return "(apply %s (list %s))" % (op, " ".join(args))
    if shape < 0.85:
        cut = rng.randrange(0, len(args) + 1)
        return "(apply %s %s (list %s))" % (op, " ".join(args[:cut]), " ".join(args[cut:]))
    if len(args) == 1:      # the bundled map takes one list
        return "(%s %s (list %s))" % (rng.choice(["map", "for-each"]), op, args[0])
    return "(apply %s (append (list %s) (list %s)))" % (op, " ".join(args[:1]), " ".join(args[1:]))


def type_fault_matrix():
    """every numeric builtin x every arity it accepts x every position of the offending argument x a few offending
    values x three ways of calling; pair and vector accessors x offending values"""
    out = []
    for op in sorted(NUMERIC_OPS):
        lo, hi = NUMERIC_OPS[op]
        for n in range(lo, hi + 1):
            for pos in range(n):
                for bad in ("'a", '"s"', "(vector 1)", "#t"):
                    args = ["1", "2", "3"][:n]
                    args[pos] = bad
                    out.append("(%s %s)" % (op, " ".join(args)))
                    out.append("(apply %s (list %s))" % (op, " ".join(args)))
                    if n == 1:
                        out.append("(map %s (list %s))" % (op, bad))
                        out.append("((lambda (t) (%s t)) %s)" % (op, bad))
                    else:
                        out.append("(apply %s %s (list %s))" % (op, args[0], " ".join(args[1:])))
    for op in ("car", "cdr", "cadr", "cddr", "caar", "cdar"):
        for bad in NON_PAIRS:
            out.append("(%s %s)" % (op, bad))
            out.append("(map %s (list %s))" % (op, bad))
    for bad in NON_VECTORS:
        out += ["(vector-ref %s 0)" % bad, "(vector-length %s)" % bad, "(vector-set! %s 0 1)" % bad, "(apply vector-ref (list %s 0))" % bad]
    for bad in ("'a", "1/2", '"s"', "1.5"):
        out += ["(vector-ref (vector 1 2) %s)" % bad, "(vector-set! (vector 1 2) %s 0)" % bad]
    # the LAST argument of apply must be a list - whatever is applied: a native procedure, a user procedure with fixed parameters,
    # with a rest parameter only, with fixed and rest parameters covered or not by the leading arguments, a library procedure
    for bad in ("5", "'a", "#t", '"s"', "(vector 1)"):
        for target, lead in (("+", ""), ("+", "1 "), ("list", ""), ("list", "1 2 "), ("(lambda r r)", ""), ("(lambda r r)", "1 "),
                             ("(lambda (a . r) a)", "1 "), ("(lambda (a . r) r)", "1 2 "), ("(lambda (a b) a)", "1 "), ("car", ""), ("vector", "0 ")):
            out.append("(apply %s %s%s)" % (target, lead, bad))
            out.append("((lambda () (apply %s %s%s)))" % (target, lead, bad))
        out.append("(map (lambda (q) (apply list q)) (list %s))" % bad)
        out.append("(apply apply (list list %s))" % bad)
    return out


# what each native procedure of (ruschm base)/(ruschm write) admits: (least, most) argument counts, most = None for a rest
# parameter. Written down here from the R7RS entries (the lower bounds of the variadic predicates and of make-vector are the
# ones this implementation documents: it admits `(=)` and requires the fill of make-vector) - NOT read from the code.
BUILTIN_ARITY = {
    "apply": (1, None), "car": (1, 1), "cdr": (1, 1), "eqv?": (2, 2), "eq?": (2, 2), "cons": (2, 2),
    "boolean?": (1, 1), "char?": (1, 1), "number?": (1, 1), "string?": (1, 1), "symbol?": (1, 1), "pair?": (1, 1),
    "procedure?": (1, 1), "vector?": (1, 1), "not": (1, 1), "boolean=?": (0, None),
    "+": (0, None), "*": (0, None), "-": (1, None), "/": (1, None),
    "=": (0, None), "<": (0, None), "<=": (0, None), ">": (0, None), ">=": (0, None), "min": (1, None), "max": (1, None),
    "abs": (1, 1), "sqrt": (1, 1), "exp": (1, 1), "ln": (1, 1), "log": (2, 2), "sin": (1, 1), "cos": (1, 1), "tan": (1, 1),
    "asin": (1, 1), "acos": (1, 1), "atan": (1, 1), "atan2": (2, 2), "floor": (1, 1), "ceiling": (1, 1), "exact": (1, 1),
    "floor-quotient": (2, 2), "floor-remainder": (2, 2), "newline": (0, 0), "vector": (0, None), "make-vector": (2, 2),
    "vector-length": (1, 1), "vector-ref": (2, 2), "vector-set!": (3, 3), "display": (1, 1),
}


def arity_fault_matrix():
    """every native procedure called with one argument fewer than it requires and with one more than it admits, directly, through
    apply, and from the tail position of a procedure: each must stop with an arity error (the argument count is tested before any
    argument is looked at, so the arguments themselves are harmless numbers)"""
    out = []
    for op in sorted(BUILTIN_ARITY):
        lo, hi = BUILTIN_ARITY[op]
        counts = ([lo - 1] if lo >= 1 else []) + ([hi + 1, hi + 2] if hi is not None else [])
        for n in counts:
            args = " ".join(str(i + 1) for i in range(n))
            out.append(("(%s %s)" % (op, args)).replace(" )", ")"))
            out.append("(apply %s (list %s))" % (op, args))
            out.append(("((lambda () (%s %s)))" % (op, args)).replace(" )", ")"))
    return out


def index_fault_matrix():
    """vector-ref / vector-set! at every index just outside a vector of length 0..3 on either side (negative indices whose
    absolute value is inside the vector included), directly and through apply / a procedure"""
    out = []
    for n in range(0, 4):
        v = "(vector %s)" % " ".join(str(10 * (i + 1)) for i in range(n))
        for k in list(range(-n - 2, 0)) + [n, n + 1, 2147483647, -2147483648]:
            out.append("(vector-ref %s %d)" % (v, k))
            out.append("(vector-set! %s %d 0)" % (v, k))
            out.append("(apply vector-ref (list %s %d))" % (v, k))
            out.append("((lambda (t i) (vector-ref t i)) %s %d)" % (v, k))
    return out


def inject_fault(rng, gen, forms, helper_ok=False):
    """insert one faulty form (kind x calling context) at a random position; returns
    (forms, index_of_faulty_form, expected_kind, context)"""
    kind = rng.choice(list(FAULTS))
    procs = [(n, t[1]) for n, t in gen.globals if isinstance(t, tuple) and t[0] == "proc"]
    if kind == "arity":
        if procs:
            n, ar = rng.choice(procs)
            fault = "(%s %s)" % (n, " ".join(["1"] * (ar + 1))) if rng.random() < 0.5 or ar == 0 else "(%s %s)" % (n, " ".join(["1"] * (ar - 1)))
        else:
            fault = rng.choice(["((lambda (x) x))", "((lambda (x) x) 1 2)", "(car)", "(cons 1)", "((lambda (a . r) a))"])
    elif kind == "type" and rng.random() < 0.7:
        fault = type_fault(rng)
    else:
        fault = rng.choice(FAULTS[kind])
    ctx = rng.choice(["direct", "tail", "apply", "library", "operand", "nested-tail", "body-non-last", "set-value", "operand-before-effect",
                      "whole-expansion"] + (["earlier-helper"] * 2 if helper_ok else []))
    helper = None
    if ctx == "earlier-helper":
        # the fault happens inside a procedure an EARLIER form defined (in non-tail position there, or as its last expression); the
        # failing form is the one that calls it
        hn = "hlp-zz%d" % rng.randrange(1000)
        helper = rng.choice(["(define (%s t) (+ t %s))", "(define (%s t) (list t %s t))", "(define (%s t)\n  (car (list %s)))".replace("\\n", " "),
                             "(define %s (lambda (t) (if t (+ 1 %s) 0)))"]) % (hn, fault)
        form = rng.choice(["(%s 1)", "(list 0 (%s 1))", "(apply %s '(1))"]) % hn
    if ctx == "earlier-helper":
        pass
    elif ctx == "direct":
        form = fault
    elif ctx == "tail":
        form = "((lambda () 1 %s))" % fault
    elif ctx == "nested-tail":
        form = "((lambda (t) (if t %s 0)) #t)" % fault
    elif ctx == "apply":
        form = "(apply (lambda (t) %s) (list 1))" % fault
    elif ctx == "body-non-last":
        # not the last expression of a body: evaluated for effect, and still evaluated
        form = rng.choice(["((lambda () %s 1))", "(let () %s 2)", "(begin %s 3)", "((lambda (t) 0 %s t) 4)", "(let ((t 1)) %s t)",
                           "(when #t %s 5)", "(cond (#t %s 6))"]) % fault
    elif ctx == "set-value":
        # the value expression of an assignment: the error is the value expression's (kind AND position), not the target's
        form = rng.choice(["(let ((sv 0)) (set! sv %s) sv)", "((lambda (sv) (set! sv (+ 1 %s)) sv) 0)",
                           "(let ((sv 0))\n  (set! sv\n    %s)\n  sv)"]).replace("\\n", " ") % fault
    elif ctx == "operand-before-effect":
        # a faulting operand FOLLOWED by operands with effects: evaluation stops at the fault, the later operands never run
        # (effect-zz is defined by the programs that probe it; elsewhere the assignment simply must not be reached)
        form = rng.choice(["(list 0 %s (set! effect-zz 1))", "((lambda (a b c) a) 0 %s (set! effect-zz 2))",
                           "(+ 1 %s (begin (set! effect-zz 3) 1))", "(vector %s (set! effect-zz 4) (set! effect-zz 5))"]) % fault
    elif ctx == "whole-expansion":
        # the faulty form is the WHOLE EXPANSION of a macro use (the last operand of and / or, a test-only cond clause, the only body
        # form of begin / when): it is the user's own form, with its own kind and position, not the macro use's
        form = rng.choice(["(and #t %s)", "(or #f %s)", "(and 1 (car '(1)) %s)", "(cond (#f 0) (%s))", "(begin %s)", "(list 1 (or #f #f %s))",
                           "(if #t (and #t\n   %s) 0)".replace("\\n", " ")]) % fault
    elif ctx == "library":
        form = "(map (lambda (t) %s) '(1 2))" % fault
    else:
        form = "(+ 1 %s)" % fault
    pos = rng.randrange(0, len(forms) + 1)
    if kind == "arity" and procs:
        pos = len(forms)      # the procedure it calls must already be defined
    if helper is not None:
        forms = forms[:pos] + [helper, form] + forms[pos:]
        return forms, pos + 1, FAULT_KIND[kind], ctx
    forms = forms[:pos] + [form] + forms[pos:]
    return forms, pos, FAULT_KIND[kind], ctx

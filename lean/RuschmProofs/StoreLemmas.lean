/-
Helper lemmas for property C03 (`RuschmProofs/C03.lean`): the data level of the store
(`define`, `set`, `lookup`, `resolve`, `newFrame`, `allocVec`), the native procedures, literals,
and the evaluator-level invariants (`Store.Grows`, `Store.WF`).
-/
import RuschmSpec.Store

namespace Ruschm
open Eval

/-! ## values and their ids -/

namespace Value

@[simp] theorem below_pair {nf nv a d} : (Value.pair a d).Below nf nv ↔ a.Below nf nv ∧ d.Below nf nv := by
  simp only [Below, frameIds, vecIds, List.mem_append]
  constructor
  · rintro ⟨h1, h2⟩
    exact ⟨⟨fun i hi => h1 i (Or.inl hi), fun i hi => h2 i (Or.inl hi)⟩,
           ⟨fun i hi => h1 i (Or.inr hi), fun i hi => h2 i (Or.inr hi)⟩⟩
  · rintro ⟨⟨h1, h2⟩, ⟨h3, h4⟩⟩
    exact ⟨fun i hi => hi.elim (h1 i) (h3 i), fun i hi => hi.elim (h2 i) (h4 i)⟩

@[simp] theorem below_closure {nf nv l e} : (Value.closure l e).Below nf nv ↔ e < nf := by
  simp [Below, frameIds, vecIds]
@[simp] theorem below_vec {nf nv i} : (Value.vec i).Below nf nv ↔ i < nv := by
  simp [Below, frameIds, vecIds]
@[simp] theorem below_num {nf nv n} : (Value.num n).Below nf nv := by simp [Below, frameIds, vecIds]
@[simp] theorem below_bool {nf nv n} : (Value.bool n).Below nf nv := by simp [Below, frameIds, vecIds]
@[simp] theorem below_char {nf nv n} : (Value.char n).Below nf nv := by simp [Below, frameIds, vecIds]
@[simp] theorem below_str {nf nv n} : (Value.str n).Below nf nv := by simp [Below, frameIds, vecIds]
@[simp] theorem below_sym {nf nv n} : (Value.sym n).Below nf nv := by simp [Below, frameIds, vecIds]
@[simp] theorem below_builtin {nf nv n} : (Value.builtin n).Below nf nv := by simp [Below, frameIds, vecIds]
@[simp] theorem below_transformer {nf nv n} : (Value.transformer n).Below nf nv := by
  simp [Below, frameIds, vecIds]
@[simp] theorem below_nil {nf nv} : (Value.nil).Below nf nv := by simp [Below, frameIds, vecIds]
@[simp] theorem below_void {nf nv} : (Value.void).Below nf nv := by simp [Below, frameIds, vecIds]

theorem Below.mono {nf nv nf' nv' v} (h : Value.Below nf nv v) (hf : nf ≤ nf') (hv : nv ≤ nv') :
    Value.Below nf' nv' v :=
  ⟨fun i hi => Nat.lt_of_lt_of_le (h.1 i hi) hf, fun i hi => Nat.lt_of_lt_of_le (h.2 i hi) hv⟩

theorem below_ofList {nf nv} : ∀ {vs : List Value}, (∀ v ∈ vs, v.Below nf nv) → (Value.ofList vs).Below nf nv
  | [], _ => by simp [ofList]
  | x :: xs, h => by
    simp only [ofList, below_pair]
    exact ⟨h x (by simp), below_ofList (fun v hv => h v (by simp [hv]))⟩

theorem below_elems {nf nv} : ∀ {v : Value}, v.Below nf nv → ∀ x ∈ v.elems, x.Below nf nv
  | .pair a d, h, x, hx => by
    simp only [elems, List.mem_cons] at hx
    rw [below_pair] at h
    rcases hx with rfl | hx
    · exact h.1
    · exact below_elems h.2 x hx
  | .nil, _, x, hx => by simp [elems] at hx
  | .num _, h, x, hx | .bool _, h, x, hx | .char _, h, x, hx | .str _, h, x, hx
  | .sym _, h, x, hx | .closure _ _, h, x, hx | .builtin _, h, x, hx | .vec _, h, x, hx
  | .transformer _, h, x, hx | .void, h, x, hx => by
    simp only [elems, List.mem_singleton] at hx; subst hx; exact h

end Value

namespace Store

/-! ## `defsInsert` -/

theorem lookup_cons_ite (y k : String) (b : Value) (as : List (String × Value)) :
    List.lookup y ((k, b) :: as) = if y = k then some b else List.lookup y as := by
  rw [List.lookup_cons]
  by_cases h : y = k
  · subst h; simp
  · have : (y == k) = false := by simpa using h
    simp [this, h]

theorem lookup_defsInsert (d : List (String × Value)) (k : String) (v : Value) (y : String) :
    (defsInsert d k v).lookup y = if y = k then some v else d.lookup y := by
  induction d with
  | nil => simp [defsInsert, lookup_cons_ite]
  | cons p rest ih =>
    obtain ⟨k', v'⟩ := p
    simp only [defsInsert]
    by_cases hk : k' = k
    · subst hk
      by_cases hy : y = k' <;> simp [lookup_cons_ite, hy]
    · simp only [hk, if_false, lookup_cons_ite, ih]
      by_cases hy : y = k'
      · subst hy; simp [hk]
      · simp [hy]

theorem mem_defsInsert {d : List (String × Value)} {k : String} {v : Value} {p : String × Value}
    (h : p ∈ defsInsert d k v) : p = (k, v) ∨ p ∈ d := by
  induction d with
  | nil => simpa [defsInsert] using h
  | cons q rest ih =>
    obtain ⟨k', v'⟩ := q
    simp only [defsInsert] at h
    split at h
    · simp only [List.mem_cons] at h ⊢
      rcases h with h | h
      · exact Or.inl h
      · exact Or.inr (Or.inr h)
    · simp only [List.mem_cons] at h ⊢
      rcases h with h | h
      · exact Or.inr (Or.inl h)
      · rcases ih h with h | h
        · exact Or.inl h
        · exact Or.inr (Or.inr h)

/-! ## `define` -/

theorem define_frames_getElem? (σ : Store) (ρ : Nat) (k : String) (v : Value) (i : Nat) :
    (σ.define ρ k v).frames[i]? =
      if i = ρ then (σ.frames[i]?).map (fun f => { f with defs := defsInsert f.defs k v })
      else σ.frames[i]? := by
  unfold define
  split
  · simp only [Array.getElem?_modify]
    by_cases h : ρ = i
    · subst h; simp
    · simp [h, Ne.symm h]
  · rename_i h
    by_cases hi : i = ρ
    · subst hi
      have : σ.frames[i]? = none := by simp; omega
      simp [this]
    · simp [hi]

@[simp] theorem define_frames_size (σ : Store) (ρ k v) : (σ.define ρ k v).frames.size = σ.frames.size := by
  unfold define; split <;> simp
@[simp] theorem define_vecs (σ : Store) (ρ k v) : (σ.define ρ k v).vecs = σ.vecs := by
  unfold define; split <;> rfl
@[simp] theorem define_out (σ : Store) (ρ k v) : (σ.define ρ k v).out = σ.out := by
  unfold define; split <;> rfl
@[simp] theorem define_ticks (σ : Store) (ρ k v) : (σ.define ρ k v).ticks = σ.ticks := by
  unfold define; split <;> rfl
@[simp] theorem define_depth (σ : Store) (ρ k v) : (σ.define ρ k v).depth = σ.depth := by
  unfold define; split <;> rfl
@[simp] theorem define_maxDepth (σ : Store) (ρ k v) : (σ.define ρ k v).maxDepth = σ.maxDepth := by
  unfold define; split <;> rfl

theorem define_of_not_lt (σ : Store) {ρ : Nat} (k v) (h : ¬ ρ < σ.frames.size) : σ.define ρ k v = σ := by
  unfold define; simp [h]

theorem binding_define (σ : Store) (ρ : Nat) (k : String) (v : Value) (i : Nat) (y : String) :
    (σ.define ρ k v).binding i y =
      if i = ρ ∧ y = k ∧ ρ < σ.frames.size then some v else σ.binding i y := by
  unfold binding
  rw [define_frames_getElem?]
  by_cases hi : i = ρ
  · subst hi
    by_cases hlt : i < σ.frames.size
    · have : σ.frames[i]? = some σ.frames[i] := by simp [hlt]
      simp only [this, if_true, Option.map_some, lookup_defsInsert, true_and, hlt, and_true]
    · have : σ.frames[i]? = none := by simp; omega
      simp [hlt]
  · simp [hi]

theorem parentOf_define (σ : Store) (ρ : Nat) (k : String) (v : Value) (i : Nat) :
    (σ.define ρ k v).parentOf i = σ.parentOf i := by
  unfold parentOf
  rw [define_frames_getElem?]
  by_cases hi : i = ρ
  · subst hi
    cases h : σ.frames[i]? <;> simp
  · simp [hi]

theorem definesAt_define (σ : Store) (ρ : Nat) (k : String) (v : Value) (i : Nat) (y : String) :
    (σ.define ρ k v).definesAt i y =
      ((decide (i = ρ ∧ y = k ∧ ρ < σ.frames.size)) || σ.definesAt i y) := by
  unfold definesAt
  rw [binding_define]
  by_cases h : i = ρ ∧ y = k ∧ ρ < σ.frames.size <;> simp [h]

/-! ## `chain`, `resolve`, `lookup` -/

theorem resolveAux_eq_find (σ : Store) (k : String) : ∀ fuel ρ,
    σ.resolveAux fuel ρ k = (σ.chainAux fuel ρ).find? (fun r => σ.definesAt r k)
  | 0, _ => by simp [resolveAux, chainAux]
  | fuel + 1, ρ => by
    simp only [resolveAux, chainAux]
    cases hf : σ.frames[ρ]? with
    | none => simp
    | some f =>
      have hd : σ.definesAt ρ k = (f.defs.lookup k).isSome := by simp [definesAt, binding, hf]
      simp only [List.find?_cons, hd]
      cases hl : (f.defs.lookup k).isSome with
      | true => simp
      | false =>
        simp only [Bool.false_eq_true, if_false]
        cases hp : f.parent with
        | none => simp
        | some p =>
          simp only
          split
          · exact resolveAux_eq_find σ k fuel p
          · simp

/-- `resolve` is the first frame of the lexical chain that defines the name -/
theorem resolve_eq_find (σ : Store) (ρ : Nat) (k : String) :
    σ.resolve ρ k = (σ.chain ρ).find? (fun r => σ.definesAt r k) :=
  resolveAux_eq_find σ k (ρ + 1) ρ

theorem lookupAux_eq_bind (σ : Store) (k : String) : ∀ fuel ρ,
    σ.lookupAux fuel ρ k = (σ.resolveAux fuel ρ k).bind (fun r => σ.binding r k)
  | 0, _ => by simp [lookupAux, resolveAux]
  | fuel + 1, ρ => by
    simp only [lookupAux, resolveAux]
    cases hf : σ.frames[ρ]? with
    | none => simp
    | some f =>
      simp only
      cases hl : f.defs.lookup k with
      | some v => simp [binding, hf, hl]
      | none =>
        simp only [Option.isSome_none, Bool.false_eq_true, if_false]
        cases hp : f.parent with
        | none => simp
        | some p =>
          simp only
          split
          · exact lookupAux_eq_bind σ k fuel p
          · simp

/-- `lookup` reads the binding that `resolve` designates -/
theorem lookup_eq_bind (σ : Store) (ρ : Nat) (k : String) :
    σ.lookup ρ k = (σ.resolve ρ k).bind (fun r => σ.binding r k) :=
  lookupAux_eq_bind σ k (ρ + 1) ρ

theorem resolveAux_some {σ : Store} {k : String} : ∀ {fuel ρ r},
    σ.resolveAux fuel ρ k = some r → σ.definesAt r k = true ∧ r ≤ ρ ∧ r < σ.frames.size
  | 0, _, _, h => by simp [resolveAux] at h
  | fuel + 1, ρ, r, h => by
    simp only [resolveAux] at h
    cases hf : σ.frames[ρ]? with
    | none => simp [hf] at h
    | some f =>
      simp only [hf] at h
      split at h
      · rename_i hl
        cases h
        have hlt : ρ < σ.frames.size := by
          rcases Nat.lt_or_ge ρ σ.frames.size with h | h
          · exact h
          · have : σ.frames[ρ]? = none := by simp; omega
            simp [this] at hf
        exact ⟨by simp [definesAt, binding, hf, hl], Nat.le_refl _, hlt⟩
      · split at h
        · split at h
          · rename_i hlt
            have := resolveAux_some h
            exact ⟨this.1, by omega, this.2.2⟩
          · cases h
        · cases h

theorem resolve_some {σ : Store} {k : String} {ρ r : Nat} (h : σ.resolve ρ k = some r) :
    σ.definesAt r k = true ∧ r ≤ ρ ∧ r < σ.frames.size := resolveAux_some h

theorem chainAux_congr {σ σ' : Store} (hp : ∀ i : Nat, σ'.frames[i]?.map Frame.parent = σ.frames[i]?.map Frame.parent) :
    ∀ fuel ρ, σ'.chainAux fuel ρ = σ.chainAux fuel ρ
  | 0, _ => by simp [chainAux]
  | fuel + 1, ρ => by
    simp only [chainAux]
    have := hp ρ
    cases hf : σ.frames[ρ]? with
    | none =>
      cases hf' : σ'.frames[ρ]? with
      | none => rfl
      | some f' => simp [hf, hf'] at this
    | some f =>
      cases hf' : σ'.frames[ρ]? with
      | none => simp [hf, hf'] at this
      | some f' =>
        simp only [hf, hf', Option.map_some, Option.some.injEq] at this
        simp only [this]
        cases f.parent with
        | none => rfl
        | some p =>
          simp only
          split
          · rw [chainAux_congr hp fuel p]
          · rfl

theorem chain_congr {σ σ' : Store} (hp : ∀ i : Nat, σ'.frames[i]?.map Frame.parent = σ.frames[i]?.map Frame.parent) (ρ : Nat) :
    σ'.chain ρ = σ.chain ρ := chainAux_congr hp _ _

theorem define_parent_map (σ : Store) (ρ k v) (i : Nat) :
    (σ.define ρ k v).frames[i]?.map Frame.parent = σ.frames[i]?.map Frame.parent := by
  rw [define_frames_getElem?]
  split
  · cases σ.frames[i]? <;> simp
  · rfl

@[simp] theorem chain_define (σ : Store) (ρ k v) (ρ' : Nat) : (σ.define ρ k v).chain ρ' = σ.chain ρ' :=
  chain_congr (define_parent_map σ ρ k v) ρ'

/-- the frames of a chain are allocated, and strictly decreasing from `ρ` -/
theorem mem_chainAux {σ : Store} : ∀ {fuel ρ r}, r ∈ σ.chainAux fuel ρ → r ≤ ρ ∧ r < σ.frames.size
  | 0, _, _, h => by simp [chainAux] at h
  | fuel + 1, ρ, r, h => by
    simp only [chainAux] at h
    cases hf : σ.frames[ρ]? with
    | none => simp [hf] at h
    | some f =>
      have hlt : ρ < σ.frames.size := by
        rcases Nat.lt_or_ge ρ σ.frames.size with h | h
        · exact h
        · have : σ.frames[ρ]? = none := by simp; omega
          simp [this] at hf
      simp only [hf, List.mem_cons] at h
      rcases h with rfl | h
      · exact ⟨Nat.le_refl _, hlt⟩
      · split at h
        · split at h
          · have := mem_chainAux h
            exact ⟨by omega, this.2⟩
          · simp at h
        · simp at h

theorem find?_or_ne {l : List Nat} {p : Nat → Bool} {ρ i : Nat}
    (h : l.find? (fun j => decide (j = ρ) || p j) = some i) (hne : i ≠ ρ) : l.find? p = some i := by
  induction l with
  | nil => simp at h
  | cons a l ih =>
    simp only [List.find?_cons] at h ⊢
    by_cases ha : a = ρ
    · subst ha
      simp at h
      exact absurd h.symm hne
    · simp only [ha, decide_false, Bool.false_or] at h
      cases hp : p a with
      | true => simpa [hp] using h
      | false => simp only [hp] at h ⊢; exact ih h

theorem find?_or_none {l : List Nat} {p : Nat → Bool} {ρ : Nat}
    (h : l.find? (fun j => decide (j = ρ) || p j) = none) : l.find? p = none := by
  simp only [List.find?_eq_none] at h ⊢
  intro x hx hp
  exact h x hx (by simp [hp])

/-! ## `set` -/

theorem set_eq (σ : Store) (ρ : Nat) (x : String) (v : Value) :
    σ.set ρ x v = match σ.resolve ρ x with
      | some r => (true, σ.define r x v)
      | none => (false, σ) := rfl

theorem sameExceptBinding_define (σ : Store) (r : Nat) (x : String) (v : Value) :
    SameExceptBinding σ (σ.define r x v) r x where
  vecs := by simp
  out := by simp
  ticks := by simp
  depth := by simp
  maxDepth := by simp
  frames_size := by simp
  other_frames := fun i hi => by rw [define_frames_getElem?]; simp [hi]
  parent := parentOf_define σ r x v r
  other_names := fun y hy => by rw [binding_define]; simp [hy]

/-! ## `newFrame`, `allocVec` -/

@[simp] theorem newFrame_fst (σ : Store) (p) : (σ.newFrame p).1 = σ.frames.size := rfl
@[simp] theorem newFrame_frames (σ : Store) (p) :
    (σ.newFrame p).2.frames = σ.frames.push { parent := p, defs := [] } := rfl
@[simp] theorem newFrame_vecs (σ : Store) (p) : (σ.newFrame p).2.vecs = σ.vecs := rfl
@[simp] theorem allocVec_fst (σ : Store) (m items) : (σ.allocVec m items).1 = .vec σ.vecs.size := rfl
@[simp] theorem allocVec_frames (σ : Store) (m items) : (σ.allocVec m items).2.frames = σ.frames := rfl
@[simp] theorem allocVec_vecs (σ : Store) (m items) :
    (σ.allocVec m items).2.vecs = σ.vecs.push { mutable := m, items := items } := rfl

/-! ## `Grows` -/

theorem Grows.refl (σ : Store) : Grows σ σ where
  frames_size := Nat.le_refl _
  vecs_size := Nat.le_refl _
  frame := fun _ f h => ⟨f, h, rfl, fun _ h => h⟩
  cell := fun _ c h => ⟨c, h, rfl, rfl, fun _ => rfl⟩

theorem Grows.trans {σ₁ σ₂ σ₃ : Store} (h₁ : Grows σ₁ σ₂) (h₂ : Grows σ₂ σ₃) : Grows σ₁ σ₃ where
  frames_size := Nat.le_trans h₁.frames_size h₂.frames_size
  vecs_size := Nat.le_trans h₁.vecs_size h₂.vecs_size
  frame := fun i f h => by
    obtain ⟨f₂, hf₂, hp₂, hk₂⟩ := h₁.frame i f h
    obtain ⟨f₃, hf₃, hp₃, hk₃⟩ := h₂.frame i f₂ hf₂
    exact ⟨f₃, hf₃, hp₃.trans hp₂, fun k hk => hk₃ k (hk₂ k hk)⟩
  cell := fun i c h => by
    obtain ⟨c₂, hc₂, hm₂, hl₂, hi₂⟩ := h₁.cell i c h
    obtain ⟨c₃, hc₃, hm₃, hl₃, hi₃⟩ := h₂.cell i c₂ hc₂
    refine ⟨c₃, hc₃, hm₃.trans hm₂, hl₃.trans hl₂, fun hc => ?_⟩
    have := hi₂ hc
    subst this
    exact hi₃ hc

/-- stores that differ only in output, ticks and depth counters -/
theorem Grows.of_eq {σ σ' : Store} (hf : σ'.frames = σ.frames) (hv : σ'.vecs = σ.vecs) : Grows σ σ' where
  frames_size := by rw [hf]; exact Nat.le_refl _
  vecs_size := by rw [hv]; exact Nat.le_refl _
  frame := fun _ f h => ⟨f, by rw [hf]; exact h, rfl, fun _ h => h⟩
  cell := fun _ c h => ⟨c, by rw [hv]; exact h, rfl, rfl, fun _ => rfl⟩

theorem grows_define (σ : Store) (ρ : Nat) (k : String) (v : Value) : Grows σ (σ.define ρ k v) where
  frames_size := by simp
  vecs_size := by simp
  frame := fun i f h => by
    rw [define_frames_getElem?]
    by_cases hi : i = ρ
    · simp only [hi, if_true]
      rw [← hi, h]
      refine ⟨_, rfl, rfl, fun y hy => ?_⟩
      simp only [lookup_defsInsert]
      split
      · rfl
      · exact hy
    · simp only [hi, if_false]
      exact ⟨f, h, rfl, fun _ h => h⟩
  cell := fun _ c h => ⟨c, by simpa using h, rfl, rfl, fun _ => rfl⟩

theorem grows_set (σ : Store) (ρ : Nat) (k : String) (v : Value) : Grows σ (σ.set ρ k v).2 := by
  rw [set_eq]
  split
  · exact grows_define ..
  · exact Grows.refl σ

theorem grows_newFrame (σ : Store) (p : Option Nat) : Grows σ (σ.newFrame p).2 where
  frames_size := by simp
  vecs_size := by simp
  frame := fun i f h => by
    refine ⟨f, ?_, rfl, fun _ h => h⟩
    simp only [newFrame_frames, Array.getElem?_push]
    have : i < σ.frames.size := by
      rcases Nat.lt_or_ge i σ.frames.size with h' | h'
      · exact h'
      · have : σ.frames[i]? = none := by simp; omega
        simp [this] at h
    simp [Nat.ne_of_lt this, h]
  cell := fun _ c h => ⟨c, by simpa using h, rfl, rfl, fun _ => rfl⟩

theorem grows_allocVec (σ : Store) (m : Bool) (items : List Value) : Grows σ (σ.allocVec m items).2 where
  frames_size := by simp
  vecs_size := by simp
  frame := fun _ f h => ⟨f, by simpa using h, rfl, fun _ h => h⟩
  cell := fun i c h => by
    refine ⟨c, ?_, rfl, rfl, fun _ => rfl⟩
    simp only [allocVec_vecs, Array.getElem?_push]
    have : i < σ.vecs.size := by
      rcases Nat.lt_or_ge i σ.vecs.size with h' | h'
      · exact h'
      · have : σ.vecs[i]? = none := by simp; omega
        simp [this] at h
    simp [Nat.ne_of_lt this, h]

theorem AllocIn.grows {σ σ' : Store} {v : Value} (h : σ.AllocIn v) (g : Grows σ σ') : σ'.AllocIn v :=
  Value.Below.mono h g.frames_size g.vecs_size

/-! ## `WF` -/

theorem wf_root : Store.root.WF where
  parent_lt := fun i f h p hp => by
    simp only [root] at h
    rcases i with _ | i
    · simp at h; subst h; simp at hp
    · simp at h
  frame_vals := fun i f h kv hkv => by
    simp only [root] at h
    rcases i with _ | i
    · simp at h; subst h; simp at hkv
    · simp at h
  vec_vals := fun i c h => by simp [root] at h

theorem wf_define {σ : Store} (h : σ.WF) (ρ : Nat) (k : String) {v : Value} (hv : σ.AllocIn v) :
    (σ.define ρ k v).WF where
  parent_lt := fun i f hf p hp => by
    rw [define_frames_getElem?] at hf
    split at hf
    · cases hg : σ.frames[i]? with
      | none => simp [hg] at hf
      | some g =>
        simp only [hg, Option.map_some, Option.some.injEq] at hf
        subst hf
        exact h.parent_lt i g hg p hp
    · exact h.parent_lt i f hf p hp
  frame_vals := fun i f hf kv hkv => by
    unfold AllocIn
    simp only [define_frames_size, define_vecs]
    rw [define_frames_getElem?] at hf
    split at hf
    · cases hg : σ.frames[i]? with
      | none => simp [hg] at hf
      | some g =>
        simp only [hg, Option.map_some, Option.some.injEq] at hf
        subst hf
        rcases mem_defsInsert hkv with rfl | hm
        · exact hv
        · exact h.frame_vals i g hg kv hm
    · exact h.frame_vals i f hf kv hkv
  vec_vals := fun i c hc v hv' => by
    unfold AllocIn
    simp only [define_frames_size, define_vecs] at hc ⊢
    exact h.vec_vals i c hc v hv'

theorem wf_set {σ : Store} (h : σ.WF) (ρ : Nat) (k : String) {v : Value} (hv : σ.AllocIn v) :
    (σ.set ρ k v).2.WF := by
  rw [set_eq]
  split
  · exact wf_define h _ _ hv
  · exact h

theorem getElem?_some_lt {α} {xs : Array α} {i : Nat} {a : α} (h : xs[i]? = some a) : i < xs.size := by
  rcases Nat.lt_or_ge i xs.size with h' | h'
  · exact h'
  · have : xs[i]? = none := by simp; omega
    simp [this] at h

theorem wf_newFrame {σ : Store} (h : σ.WF) (parent : Option Nat)
    (hp : ∀ p, parent = some p → p < σ.frames.size) : (σ.newFrame parent).2.WF where
  parent_lt := fun i f hf p hpp => by
    simp only [newFrame_frames, Array.getElem?_push] at hf
    split at hf
    · cases hf
      rename_i hi
      subst hi
      exact hp p hpp
    · exact h.parent_lt i f hf p hpp
  frame_vals := fun i f hf kv hkv => by
    simp only [newFrame_frames, Array.getElem?_push] at hf
    split at hf
    · cases hf; simp at hkv
    · exact (h.frame_vals i f hf kv hkv).grows (grows_newFrame σ parent)
  vec_vals := fun i c hc v hv => (h.vec_vals i c hc v hv).grows (grows_newFrame σ parent)

theorem wf_allocVec {σ : Store} (h : σ.WF) (m : Bool) {items : List Value}
    (hi : ∀ v ∈ items, σ.AllocIn v) : (σ.allocVec m items).2.WF where
  parent_lt := fun i f hf p hpp => h.parent_lt i f hf p hpp
  frame_vals := fun i f hf kv hkv => (h.frame_vals i f hf kv hkv).grows (grows_allocVec σ m items)
  vec_vals := fun i c hc v hv => by
    simp only [allocVec_vecs, Array.getElem?_push] at hc
    split at hc
    · cases hc
      exact (hi v hv).grows (grows_allocVec σ m items)
    · exact (h.vec_vals i c hc v hv).grows (grows_allocVec σ m items)

theorem allocIn_allocVec (σ : Store) (m : Bool) (items : List Value) :
    (σ.allocVec m items).2.AllocIn (σ.allocVec m items).1 := by
  simp [AllocIn]

end Store
end Ruschm

/-
Property C09, second part — "an operation with an inexact operand returns the binary32 result of the
IEEE operation on the converted operands", for the numeric operations `C09.lean` does not cover:

1. `floor-quotient`, `floor-remainder` with an inexact operand;
2. `exact`;
3. `sqrt` and the transcendental procedures (dispatch: the `Float32` function on the operand converted
   to binary32 - `Float32` is opaque, so nothing is said about the function itself);
4. the n-ary `+ - * /` when SOME operand is inexact: the operands before the inexact one are folded as
   they are (exactly, while the running result is exact - `C09.addAll_mulAll_sound`), from there on the
   fold is the pure binary32 left fold `Num.realFold` of the converted operands; in particular an exact
   zero divisor after an inexact operand is NOT an error;
5. the tie of the native procedures `+ - * /` to `Num.addAll/mulAll/subAll/divAll` on numbers.

Vocabulary: `RuschmSpec/Num.lean` (`toReal`, `isExact`, `WF`, `PosDen`) and `RuschmSpec/NumMore.lean`
(`realFold`). Helper lemmas: `RuschmProofs/NumMoreLemmas.lean`.
-/
import RuschmProofs.C09
import RuschmProofs.NumMoreLemmas

namespace Ruschm.C09More
open Ruschm

/-! ## 1. floor-quotient and floor-remainder with an inexact operand -/

/-- `floor-quotient` with an inexact operand: the binary32 `floor` of the binary32 quotient of the
converted operands. Never an error - also when the divisor is an exact zero. -/
theorem floorQuotient_inexact {a b : Num} (h : a.isExact = false ∨ b.isExact = false) :
    Num.floorQuotient a b = .ok (.real (a.toReal / b.toReal).floor) := by
  unfold Num.floorQuotient
  rw [Num.div_real h]; rfl

example : (Num.real 7.5).isExact = false ∨ (Num.int 2).isExact = false := Or.inl rfl

/-- `floor-remainder` with an inexact operand is `a - floor(a / b) * b`, every operation in binary32 on
the converted operands (the quotient is inexact, so the product and the difference are, too). -/
theorem floorRemainder_inexact {a b : Num} (h : a.isExact = false ∨ b.isExact = false) :
    Num.floorRemainder a b =
      .ok (.real (a.toReal - (a.toReal / b.toReal).floor * b.toReal)) := by
  unfold Num.floorRemainder
  rw [floorQuotient_inexact h]
  show (Num.mul (.real (a.toReal / b.toReal).floor) b >>= fun p => Num.sub a p) = _
  rw [Num.mul_real (Or.inl rfl)]
  show Num.sub a (.real _) = _
  rw [Num.sub_real (Or.inr rfl)]; rfl

example : (Num.rat 7 2).isExact = false ∨ (Num.real 2).isExact = false := Or.inr rfl

/-- An inexact dividend and an exact zero divisor (`0`, or a ratio with numerator 0) is NOT an error for
`/`, `floor-quotient`, `floor-remainder`: the zero is converted (`Float32.ofInt 0`, resp.
`ofInt 0 / ofInt d`) and the binary32 operation is performed (an infinity or a NaN on IEEE hardware). -/
theorem inexact_by_exact_zero {a b : Num} (ha : a.isExact = false) (_hb : b.isExactZero = true) :
    Num.div a b = .ok (.real (a.toReal / b.toReal)) ∧
    Num.floorQuotient a b = .ok (.real (a.toReal / b.toReal).floor) ∧
    Num.floorRemainder a b = .ok (.real (a.toReal - (a.toReal / b.toReal).floor * b.toReal)) :=
  ⟨Num.div_real (Or.inl ha), floorQuotient_inexact (Or.inl ha), floorRemainder_inexact (Or.inl ha)⟩

example : (Num.real 1.5).isExact = false ∧ (Num.int 0).isExactZero = true ∧
    (Num.rat 0 7).isExactZero = true ∧
    ∀ f, Num.div (.real f) (.int 0) = .ok (.real (f / Float32.ofInt 0)) := ⟨rfl, rfl, rfl, fun _ => rfl⟩

/-! ## 2. `exact` -/

/-- `exact` returns an exact number unchanged. -/
theorem exact_of_exact {x : Num} (h : x.isExact = true) : Num.exact x = .ok x := by
  cases x with
  | int i => rfl
  | rat n d => rfl
  | real r => cases h

example : (Num.rat 1 2).isExact = true := rfl

/-- `exact` on an inexact number `r`: `r` is first ROUNDED to an integral binary32 number
(`f32::round`, half away from zero); if that is a NaN, below `-2^31` or at least `2^31` (both converted to
binary32), the result is the error `inexactConversion`; otherwise it is the integer obtained by the
binary32-to-`i32` conversion of the rounded number. (So a non-integral real is not rejected: it is
rounded. `Float32` being opaque, nothing more can be said about which integer.) -/
theorem exact_of_real (r : Float32) :
    Num.exact (.real r) =
      if r.round.isNaN = true ∨ r.round < Float32.ofInt (-2147483648) ∨
          r.round ≥ Float32.ofInt 2147483648
      then .error .inexactConversion else .ok (.int r.round.toInt32.toInt) := by
  simp only [Num.exact, Num.realToI32?]
  by_cases h1 : r.round.isNaN = true
  · simp [h1]
  · by_cases h2 : r.round < Float32.ofInt (-2147483648)
    · simp [h1, h2]
    · by_cases h3 : r.round ≥ Float32.ofInt 2147483648
      · simp [h1, h2, h3]
      · simp [h1, h2, h3]

/-- A result of `exact` is exact, and it satisfies the representation invariant when the operand does;
for an inexact operand it is an integer in the `i32` range. -/
theorem exact_result {x y : Num} (h : Num.exact x = .ok y) :
    y.isExact = true ∧ (x.WF → y.WF) ∧
      (x.isExact = false → ∃ i, y = .int i ∧ fitsI32 i = true) := by
  cases x with
  | int i => cases h; exact ⟨rfl, id, fun h => by cases h⟩
  | rat n d => cases h; exact ⟨rfl, id, fun h => by cases h⟩
  | real r =>
    rw [exact_of_real] at h
    split at h
    · cases h
    · cases h
      have hfit : fitsI32 r.round.toInt32.toInt = true := by
        rw [Num.fitsI32_iff]
        have h1 := Int32.toInt_lt r.round.toInt32
        have h2 := Int32.le_toInt r.round.toInt32
        constructor <;> omega
      exact ⟨rfl, fun _ => hfit, fun _ => ⟨_, rfl, hfit⟩⟩

example : Num.exact (.rat 1 2) = .ok (.rat 1 2) := rfl

/-- The only error of `exact` is `inexactConversion`, and only an inexact operand (whose rounding is a NaN
or outside the `i32` range) gives it; `exact` never panics. -/
theorem exact_error {x : Num} {e : Err} (h : Num.exact x = .error e) :
    e = .inexactConversion ∧ ∃ r, x = .real r ∧
      (r.round.isNaN = true ∨ r.round < Float32.ofInt (-2147483648) ∨
        r.round ≥ Float32.ofInt 2147483648) := by
  cases x with
  | int i => cases h
  | rat n d => cases h
  | real r =>
    rw [exact_of_real] at h
    split at h
    · next hc => cases h; exact ⟨rfl, r, rfl, hc⟩
    · cases h

/-- the hypothesis of `exact_error` is satisfiable for whatever `Float32` is: if it fails for a real `r`,
`exact` returned an integer -/
example (r : Float32) : (∃ e, Num.exact (.real r) = .error e) ∨ ∃ i, Num.exact (.real r) = .ok (.int i) := by
  rw [exact_of_real]; split
  · exact Or.inl ⟨_, rfl⟩
  · exact Or.inr ⟨_, rfl⟩

/-! ## 3. `sqrt` and the transcendental procedures -/

/-- The one-argument real procedures applied to a number `n` (further arguments, excluded by the arity
check, would be ignored): the result is ALWAYS inexact, the `Float32` function on `n` converted to
binary32 (`R::from(i)`, `R::from(n) / R::from(d)`, identity). `(sqrt 4)` is `2.0`, not `2`. The store is
unchanged. -/
theorem real_unary_dispatch (σ : Store) (n : Num) (rest : List Value) :
    Prim.applyPure σ .sqrt (.num n :: rest) = Prim.ok (.num (.real (Float32.sqrt n.toReal))) σ ∧
    Prim.applyPure σ .exp (.num n :: rest) = Prim.ok (.num (.real (Float32.exp n.toReal))) σ ∧
    Prim.applyPure σ .ln (.num n :: rest) = Prim.ok (.num (.real (Float32.log n.toReal))) σ ∧
    Prim.applyPure σ .sin (.num n :: rest) = Prim.ok (.num (.real (Float32.sin n.toReal))) σ ∧
    Prim.applyPure σ .cos (.num n :: rest) = Prim.ok (.num (.real (Float32.cos n.toReal))) σ ∧
    Prim.applyPure σ .tan (.num n :: rest) = Prim.ok (.num (.real (Float32.tan n.toReal))) σ ∧
    Prim.applyPure σ .asin (.num n :: rest) = Prim.ok (.num (.real (Float32.asin n.toReal))) σ ∧
    Prim.applyPure σ .acos (.num n :: rest) = Prim.ok (.num (.real (Float32.acos n.toReal))) σ ∧
    Prim.applyPure σ .atan (.num n :: rest) = Prim.ok (.num (.real (Float32.atan n.toReal))) σ := by
  cases n <;> exact ⟨rfl, rfl, rfl, rfl, rfl, rfl, rfl, rfl, rfl⟩

/-- The two-argument real procedures: `(log x base)` is `ln x / ln base` and `(atan2 y x)` the `Float32`
`atan2`, on both operands converted to binary32; always inexact. -/
theorem real_binary_dispatch (σ : Store) (n m : Num) (rest : List Value) :
    Prim.applyPure σ .log (.num n :: .num m :: rest) =
      Prim.ok (.num (.real (Float32.log n.toReal / Float32.log m.toReal))) σ ∧
    Prim.applyPure σ .atan2 (.num n :: .num m :: rest) =
      Prim.ok (.num (.real (Float32.atan2 n.toReal m.toReal))) σ := by
  cases n <;> cases m <;> exact ⟨rfl, rfl⟩

/-- A first argument that is not a number is a type error for each of the one-argument procedures (the
store unchanged); ... -/
theorem real_fn_type_error (σ : Store) {x : Value} (hx : ¬ Prim.IsNum x) (rest : List Value) :
    ∀ b ∈ [Builtin.sqrt, .exp, .ln, .sin, .cos, .tan, .asin, .acos, .atan],
      Prim.applyPure σ b (x :: rest) = Prim.err .type σ := by
  intro b hb
  simp only [List.mem_cons, List.mem_nil_iff, or_false] at hb
  have e := Prim.expectNumber_err hx
  rcases hb with rfl | rfl | rfl | rfl | rfl | rfl | rfl | rfl | rfl
  all_goals simp only [Prim.applyPure, Prim.realFn, Prim.num1, e]

example : ¬ Prim.IsNum (.sym "a") := fun h => h

/-- ... for `log` and `atan2` (two arguments, as the arity check guarantees) a non-number in the first or
in the second position is a type error. -/
theorem real_fn2_type_error (σ : Store) (n : Num) {x : Value} (hx : ¬ Prim.IsNum x) (y : Value)
    (rest : List Value) :
    Prim.applyPure σ .log (x :: y :: rest) = Prim.err .type σ ∧
    Prim.applyPure σ .atan2 (x :: y :: rest) = Prim.err .type σ ∧
    Prim.applyPure σ .log (.num n :: x :: rest) = Prim.err .type σ ∧
    Prim.applyPure σ .atan2 (.num n :: x :: rest) = Prim.err .type σ := by
  cases x <;> first | exact absurd trivial hx | exact ⟨rfl, rfl, rfl, rfl⟩

example : ¬ Prim.IsNum (.bool true) := fun h => h

/-- `exact`, `floor-quotient`, `floor-remainder` as native procedures on numbers are the `Num` operations
of sections 1 and 2 (result or error passed on, store unchanged). -/
theorem exact_floorq_floorr_builtin (σ : Store) (n m : Num) (rest : List Value) :
    Prim.applyPure σ .exact (.num n :: rest) = Prim.lift σ (Num.exact n) .num ∧
    Prim.applyPure σ .floorQuotient (.num n :: .num m :: rest) =
      Prim.lift σ (Num.floorQuotient n m) .num ∧
    Prim.applyPure σ .floorRemainder (.num n :: .num m :: rest) =
      Prim.lift σ (Num.floorRemainder n m) .num := by
  refine ⟨?_, ?_, ?_⟩
  · simp only [Prim.applyPure, Prim.num1, Prim.expectNumber, Prim.lift]
    cases Num.exact n <;> rfl
  · simp only [Prim.applyPure, Prim.num2, Prim.expectNumber, Prim.lift]
    cases Num.floorQuotient n m <;> rfl
  · simp only [Prim.applyPure, Prim.num2, Prim.expectNumber, Prim.lift]
    cases Num.floorRemainder n m <;> rfl

/-! ## 4. the n-ary folds when some operand is inexact -/

/-- Once the running result is inexact, the rest of each fold is the pure binary32 left fold of the
converted operands: it never fails, whatever the operands (exact zero divisors included). -/
theorem fold_inexact_acc (g : Float32) (ys : List Num) :
    ys.foldlM Num.add (.real g) = .ok (.real (Num.realFold (· + ·) g ys)) ∧
    ys.foldlM Num.sub (.real g) = .ok (.real (Num.realFold (· - ·) g ys)) ∧
    ys.foldlM Num.mul (.real g) = .ok (.real (Num.realFold (· * ·) g ys)) ∧
    ys.foldlM Num.div (.real g) = .ok (.real (Num.realFold (· / ·) g ys)) :=
  ⟨Num.foldlM_real_acc Num.contagious_add ys g, Num.foldlM_real_acc Num.contagious_sub ys g,
   Num.foldlM_real_acc Num.contagious_mul ys g, Num.foldlM_real_acc Num.contagious_div ys g⟩

/-- `realFold` unfolded: `((g ⊕ y₁) ⊕ y₂) …` with every operand converted. -/
theorem realFold_eqns (op : Float32 → Float32 → Float32) (g : Float32) (y : Num) (ys : List Num) :
    Num.realFold op g [] = g ∧ Num.realFold op g (y :: ys) = Num.realFold op (op g y.toReal) ys :=
  ⟨rfl, rfl⟩

/-- n-ary `+` and `*` with an inexact operand `z` at any position: the operands before `z` are summed as
`+` sums them on their own (from `0`; an error there is the error of the whole), the running result `a` is
converted and combined with `z` in binary32, and the operands after `z` follow in the pure binary32 fold.
(When `pre` is exact and `a` is exact, `a` is the true sum: `C09.addAll_mulAll_sound`.) -/
theorem addAll_mulAll_inexact (pre : List Num) {z : Num} (post : List Num) (hz : z.isExact = false) :
    Num.addAll (pre ++ z :: post) =
      (Num.addAll pre >>= fun a =>
        (.ok (.real (Num.realFold (· + ·) (a.toReal + z.toReal) post)) : Except Err Num)) ∧
    Num.mulAll (pre ++ z :: post) =
      (Num.mulAll pre >>= fun a =>
        (.ok (.real (Num.realFold (· * ·) (a.toReal * z.toReal) post)) : Except Err Num)) :=
  ⟨Num.foldlM_split Num.contagious_add pre post (.int 0) hz,
   Num.foldlM_split Num.contagious_mul pre post (.int 1) hz⟩

example : (Num.real 0.5).isExact = false ∧
    ∀ f, Num.addAll [.int 1, .rat 1 2, .real f, .int 3] =
      .ok (.real (Num.ratToReal 3 2 + f + Float32.ofInt 3)) := ⟨rfl, fun _ => rfl⟩

/-- The same with the operands before `z` having positive denominators (as every number the interpreter
produces has): the sum of the prefix exists, so the whole is the binary32 number described; and if the
prefix is exact and its sum `a` still exact, `a` is the mathematical sum ("exact while both sides are exact,
then binary32 step by step"). Likewise for `*`. -/
theorem addAll_mulAll_inexact_ok {pre : List Num} {z : Num} (post : List Num) (hz : z.isExact = false)
    (hpre : ∀ x ∈ pre, x.PosDen) :
    (∃ a, Num.addAll pre = .ok a ∧ a.WF ∧
      Num.addAll (pre ++ z :: post) =
        .ok (.real (Num.realFold (· + ·) (a.toReal + z.toReal) post)) ∧
      (a.isExact = true → (∀ x ∈ pre, x.isExact = true) ∧
        a.val = some (pre.foldl (fun acc x => acc + x.valD) 0))) ∧
    (∃ a, Num.mulAll pre = .ok a ∧ a.WF ∧
      Num.mulAll (pre ++ z :: post) =
        .ok (.real (Num.realFold (· * ·) (a.toReal * z.toReal) post)) ∧
      (a.isExact = true → (∀ x ∈ pre, x.isExact = true) ∧
        a.val = some (pre.foldl (fun acc x => acc * x.valD) 1))) := by
  obtain ⟨⟨a, ha, wa⟩, ⟨m, hm, wm⟩⟩ := C09.addAll_mulAll_ok hpre
  obtain ⟨h1, h2⟩ := addAll_mulAll_inexact pre post hz
  refine ⟨⟨a, ha, wa, ?_, fun ea => (C09.addAll_mulAll_sound ea).1 ha⟩,
    ⟨m, hm, wm, ?_, fun em => (C09.addAll_mulAll_sound em).2 hm⟩⟩
  · rw [h1, ha]; rfl
  · rw [h2, hm]; rfl

example : (Num.real 0.5).isExact = false ∧ ∀ x ∈ [Num.int 1, .rat 1 2], x.PosDen :=
  ⟨rfl, by simp [Num.PosDen]⟩

/-- n-ary `-` with an inexact operand `z`: `(- z)` is `0 - z` in binary32; `z` first: the pure binary32
fold from `z`; otherwise the operands before `z` are folded from the first one `x` as `-` folds them, and
from `z` on the fold is the binary32 one. -/
theorem subAll_inexact {z : Num} (hz : z.isExact = false) (post : List Num) :
    Num.subAll [z] = .ok (.real (Float32.ofInt 0 - z.toReal)) ∧
    (post ≠ [] → Num.subAll (z :: post) = .ok (.real (Num.realFold (· - ·) z.toReal post))) ∧
    (∀ (x : Num) (pre : List Num), Num.subAll (x :: (pre ++ z :: post)) =
      (pre.foldlM Num.sub x >>= fun a =>
        (.ok (.real (Num.realFold (· - ·) (a.toReal - z.toReal) post)) : Except Err Num))) := by
  refine ⟨Num.sub_real (Or.inr hz), fun hne => ?_, fun x pre => ?_⟩
  · rw [(C09.subAll_eq_fold z post).2 hne]
    cases z with
    | real g => exact Num.foldlM_real_acc Num.contagious_sub post g
    | int i => cases hz
    | rat n d => cases hz
  · rw [(C09.subAll_eq_fold x (pre ++ z :: post)).2 (by simp)]
    exact Num.foldlM_split Num.contagious_sub pre post x hz

example : (Num.real 0.5).isExact = false ∧ [Num.int 0] ≠ [] := ⟨rfl, by simp⟩

/-- n-ary `/` with an inexact operand `z`. `(/ z)` is `1 / z` in binary32; `z` first: the pure binary32
fold from `z`, whatever follows - exact zeros included; otherwise: the plain fold `divFold` splits at `z`
as the others do, and the builtin (`divAll`), when `z` is the FIRST inexact operand, reports `divZero` if
one of the exact divisors `pre` before `z` is an exact zero and is that fold otherwise. The operands after
`z` are never looked at by the zero check. -/
theorem divAll_inexact {z : Num} (hz : z.isExact = false) (post : List Num) :
    Num.divAll [z] = .ok (.real (Float32.ofInt 1 / z.toReal)) ∧
    (post ≠ [] → Num.divAll (z :: post) = .ok (.real (Num.realFold (· / ·) z.toReal post))) ∧
    (∀ (x : Num) (pre : List Num), Num.divFold (x :: (pre ++ z :: post)) =
      (pre.foldlM Num.div x >>= fun a =>
        (.ok (.real (Num.realFold (· / ·) (a.toReal / z.toReal) post)) : Except Err Num))) ∧
    (∀ (x : Num) (pre : List Num), x.isExact = true → (∀ y ∈ pre, y.isExact = true) →
      Num.divAll (x :: (pre ++ z :: post)) =
        if pre.any Num.isExactZero = true then .error .divZero else
        (pre.foldlM Num.div x >>= fun a =>
          (.ok (.real (Num.realFold (· / ·) (a.toReal / z.toReal) post)) : Except Err Num))) := by
  have hfold : ∀ (x : Num) (pre : List Num), Num.divFold (x :: (pre ++ z :: post)) =
      (pre.foldlM Num.div x >>= fun a =>
        (.ok (.real (Num.realFold (· / ·) (a.toReal / z.toReal) post)) : Except Err Num)) := by
    intro x pre
    rw [Num.divFold_cons x (by simp)]
    exact Num.foldlM_split Num.contagious_div pre post x hz
  cases z with
  | int i => cases hz
  | rat n d => cases hz
  | real g =>
    refine ⟨rfl, fun hne => ?_, hfold, fun x pre ex epre => ?_⟩
    · rw [Num.divAll_of_not_guard (Num.exactDivisors_real_first g post), Num.divFold_cons _ hne]
      exact Num.foldlM_real_acc Num.contagious_div post g
    · unfold Num.divAll
      rw [Num.exactDivisors_split post ex epre hz, hfold]

example : (Num.real 0.5).isExact = false ∧ (Num.int 3).isExact = true ∧
    (∀ y ∈ [Num.rat 1 2], y.isExact = true) ∧
    (∀ f, Num.divAll [.int 3, .rat 0 2, .real f, .int 0] = .error .divZero) ∧
    (∀ f, ∃ g, Num.divAll [.int 3, .rat 1 2, .real f, .int 0] = .ok (.real g)) :=
  ⟨rfl, rfl, by simp [Num.isExact], fun _ => rfl, fun _ => ⟨_, rfl⟩⟩

/-- AN EXACT ZERO DIVISOR AFTER AN INEXACT OPERAND IS NOT AN ERROR. If the first inexact operand `z` is
preceded by exact operands with positive denominators of which no divisor is an exact zero, then `/`
returns an inexact number whatever the operands `post` after `z` are - exact zeros, ratios with a zero
numerator, anything. (With `z` the first operand: `divAll_inexact`, second clause, no hypothesis.) -/
theorem exact_zero_divisor_after_inexact {x z : Num} {pre : List Num} (post : List Num)
    (ex : x.isExact = true) (epre : ∀ y ∈ pre, y.isExact = true) (hz : z.isExact = false)
    (px : x.PosDen) (ppre : ∀ y ∈ pre, y.PosDen) (hnz : pre.any Num.isExactZero = false) :
    ∃ a, pre.foldlM Num.div x = .ok a ∧
      Num.divAll (x :: (pre ++ z :: post)) =
        .ok (.real (Num.realFold (· / ·) (a.toReal / z.toReal) post)) := by
  obtain ⟨a, ha⟩ := Num.foldlM_div_ok pre x px ppre hnz
  refine ⟨a, ha, ?_⟩
  rw [(divAll_inexact hz post).2.2.2 x pre ex epre, hnz, ha]; rfl

example : (Num.int 1).isExact = true ∧ (∀ y ∈ [Num.rat 1 2], y.isExact = true ∧ y.PosDen) ∧
    (Num.real 1.5).isExact = false ∧ [Num.rat 1 2].any Num.isExactZero = false ∧
    (∀ f, ∃ g, Num.divAll [.int 1, .rat 1 2, .real f, .int 0, .rat 0 5] = .ok (.real g)) :=
  ⟨rfl, by simp [Num.isExact, Num.PosDen], rfl, rfl, fun _ => ⟨_, rfl⟩⟩

/-- INEXACTNESS IS CONTAGIOUS THROUGH THE FOLDS: if some operand is inexact, every result the n-ary
`+ * - /` return is inexact (no hypothesis on the operands). -/
theorem nary_inexact_result {xs : List Num} {r : Num} (hx : ∃ x ∈ xs, x.isExact = false) :
    (Num.addAll xs = .ok r → r.isExact = false) ∧
    (Num.mulAll xs = .ok r → r.isExact = false) ∧
    (Num.subAll xs = .ok r → r.isExact = false) ∧
    (Num.divAll xs = .ok r → r.isExact = false) := by
  have hsub : ∀ {op : Num → Num → Except Err Num} {fop : Float32 → Float32 → Float32} {u : Num},
      Num.Contagious op fop → ∀ {xs : List Num}, (∃ x ∈ xs, x.isExact = false) →
      (match xs with
        | [] => (.error (.panic "") : Except Err Num)
        | [x] => op u x
        | x :: y :: rest => (op x y >>= fun i => rest.foldlM op i)) = .ok r → r.isExact = false := by
    intro op fop u hc xs hx h
    match xs, hx, h with
    | [x], hx, h =>
      obtain ⟨y, hy, ey⟩ := hx
      rw [List.mem_singleton] at hy; subst hy
      change op u y = .ok r at h
      rw [hc u y (Or.inr ey)] at h; cases h; rfl
    | x :: y :: rest, hx, h =>
      change (op x y >>= fun i => rest.foldlM op i) = .ok r at h
      rw [← List.foldlM_cons] at h
      refine Num.foldlM_split_inexact_result hc ?_ h
      obtain ⟨w, hw, ew⟩ := hx
      rcases List.mem_cons.mp hw with rfl | hw
      · exact Or.inl ew
      · exact Or.inr ⟨w, hw, ew⟩
  refine ⟨Num.foldlM_split_inexact_result Num.contagious_add (Or.inr hx),
    Num.foldlM_split_inexact_result Num.contagious_mul (Or.inr hx), fun h => ?_, fun h => ?_⟩
  · refine hsub (u := .int 0) Num.contagious_sub hx ?_
    match xs, h with
    | [_], h => exact h
    | _ :: _ :: _, h => exact h
  · have h' : Num.divFold xs = .ok r := by
      unfold Num.divAll at h
      split at h
      · cases h
      · exact h
    refine hsub (u := .int 1) Num.contagious_div hx ?_
    match xs, h' with
    | [_], h' => exact h'
    | _ :: _ :: _, h' => exact h'

example : (∃ x ∈ [Num.int 1, .real 0.5, .rat 1 2], x.isExact = false) ∧
    (∃ g, Num.addAll [.int 1, .real 0.5, .rat 1 2] = .ok (.real g)) ∧
    (∃ g, Num.divAll [.int 1, .real 0.5, .rat 0 2] = .ok (.real g)) :=
  ⟨⟨.real 0.5, by simp, rfl⟩, ⟨_, rfl⟩, ⟨_, rfl⟩⟩

/-! ## 5. the native procedures `+ * - /` on numbers are these folds -/

/-- Applied to arguments that are all numbers, the native procedures `+`, `*`, `-`, `/` are
`Num.addAll`, `Num.mulAll`, `Num.subAll`, `Num.divAll` (result or error passed on, store unchanged);
`-` and `/` with at least one argument, which the arity check guarantees. So every theorem of `C09` and of
this file about the folds is a theorem about the procedures. -/
theorem builtins_on_numbers (σ : Store) (ns : List Num) :
    Prim.applyPure σ .add (ns.map Value.num) = Prim.lift σ (Num.addAll ns) .num ∧
    Prim.applyPure σ .mul (ns.map Value.num) = Prim.lift σ (Num.mulAll ns) .num ∧
    (ns ≠ [] → Prim.applyPure σ .sub (ns.map Value.num) = Prim.lift σ (Num.subAll ns) .num) ∧
    (ns ≠ [] → Prim.applyPure σ .div (ns.map Value.num) = Prim.lift σ (Num.divAll ns) .num) := by
  refine ⟨?_, ?_, fun hne => ?_, fun hne => ?_⟩
  · simp only [Prim.applyPure, Prim.foldNum_nums]; rfl
  · simp only [Prim.applyPure, Prim.foldNum_nums]; rfl
  · simp only [Prim.applyPure]
    congr 1
    match ns, hne with
    | [x], _ => exact Prim.subDiv_nums Num.sub (.int 0) x []
    | x :: y :: more, _ => exact Prim.subDiv_nums Num.sub (.int 0) x (y :: more)
  · simp only [Prim.applyPure]
    congr 1
    match ns, hne with
    | [x], _ =>
      show Prim.divArgs [Value.num x] = Num.divAll [x]
      rw [Prim.divArgs_singleton]
      have hp : Prim.exactPrefix [Value.num x] = Num.exactDivisors [x] := by
        rw [show [Value.num x] = [x].map Value.num from rfl, Prim.exactPrefix_map_num]
        show List.takeWhile Num.notReal [x] = if x.notReal = true then [x] else []
        rw [List.takeWhile_cons]; cases x.notReal <;> rfl
      rw [hp]; rfl
    | x :: y :: more, _ =>
      show Prim.divArgs (Value.num x :: Value.num y :: more.map Value.num) = Num.divAll (x :: y :: more)
      rw [Prim.divArgs_cons_cons]
      have hp : Prim.exactPrefix (Value.num x :: Value.num y :: more.map Value.num) =
          (x :: y :: more).takeWhile Num.notReal := Prim.exactPrefix_map_num (x :: y :: more)
      have hs := Prim.subDiv_nums Num.div (.int 1) x (y :: more)
      rw [hp, show Value.num x :: Value.num y :: more.map Value.num = (x :: y :: more).map Value.num from rfl, hs]
      rfl

example : ([Num.int 1, .real 0.5] : List Num) ≠ [] := by simp

end Ruschm.C09More

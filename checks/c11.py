"""C11 — the list library computes what its specification says.
Theorems: lean/RuschmProofs/C11.lean, stated about the code derived from RuschmGen/BaseLib.lean,
which is REGENERATED from /repo/src/interpreter/library/include/scheme/base.sld on every run (any
edit of base.sld re-opens them): one theorem per procedure, for all arguments in its domain,
including the error when a list is too short and the order of calls to the procedure argument.
Tie: random argument tuples per procedure (lists up to 12 elements, nesting up to 3, indices in and
just outside the range, proper and improper lists) and random compositions, with a ticking
procedure argument, real interpreter vs model. Oracle on the implementation alone: a Python
reference of each R7RS (minischeme for the folds) definition."""
import random
from . import common as C, progrun as R

PROP = "C11"
MODULES = ["RuschmProofs.C11", "RuschmProofs.C11Errors", "RuschmProofs.C11More", "RuschmProofs.C11Apply"]


class Imp:      # improper tail marker
    def __init__(self, items, tail): self.items, self.tail = items, tail


def gen_atom(rng):
    return rng.choice([0, 1, 2, 3, 5, 7, -1, "a", "b", "c", True, False])


def gen_list(rng, maxlen=6, depth=2, improper=0.0):
    n = rng.randrange(0, maxlen + 1)
    items = [gen_list(rng, 3, depth - 1) if depth > 0 and rng.random() < 0.2 else gen_atom(rng) for _ in range(n)]
    if n > 0 and rng.random() < improper:
        return Imp(items, gen_atom(rng))
    return items


def lit(x):
    """Scheme text of a datum (unquoted)"""
    if isinstance(x, Imp): return "(" + " ".join(lit(y) for y in x.items) + " . " + lit(x.tail) + ")"
    if isinstance(x, list): return "(" + " ".join(lit(y) for y in x) + ")"
    if x is True: return "#t"
    if x is False: return "#f"
    return str(x)


def q(x):
    return "'" + lit(x) if isinstance(x, (list, Imp, str)) and not isinstance(x, bool) else lit(x)


def canon(x):
    if isinstance(x, Imp): return "(" + " ".join(canon(y) for y in x.items) + " . " + canon(x.tail) + ")"
    if isinstance(x, list): return "(" + " ".join(canon(y) for y in x) + ")"
    if x is True: return "#t"
    if x is False: return "#f"
    if isinstance(x, int): return "i:%d" % x
    return "y:" + x


def is_pair(x): return (isinstance(x, list) and len(x) > 0) or isinstance(x, Imp)
def car(x):
    if not is_pair(x): raise TypeError
    return x.items[0] if isinstance(x, Imp) else x[0]
def cdr(x):
    if not is_pair(x): raise TypeError
    if isinstance(x, Imp):
        return x.tail if len(x.items) == 1 else Imp(x.items[1:], x.tail)
    return x[1:]
def eqv(a, b):
    if isinstance(a, bool) or isinstance(b, bool): return a is b
    if isinstance(a, (list, Imp)) or isinstance(b, (list, Imp)): return a == [] and b == []
    return type(a) == type(b) and a == b
def equal(a, b):
    if is_pair(a): return is_pair(b) and equal(car(a), car(b)) and equal(cdr(a), cdr(b))
    return (not is_pair(b)) and eqv(a, b)


def case(rng):
    """-> (forms, expected results) ; expected 'E type' for domain errors that must be errors"""
    p = rng.choice(["cxr", "list", "make-list", "null?", "pair?", "list?", "append", "map", "for-each", "fold-left", "fold-right",
                    "list-tail", "list-ref", "last-pair", "memq", "memv", "equal?", "apply", "cons", "compose"])
    def res(f):
        try:
            return "V " + canon(f())
        except (TypeError, IndexError):
            return "E type"
    if p == "cxr":
        path = "".join(rng.choice("ad") for _ in range(rng.randrange(1, 4)))
        x = gen_list(rng, 4, 3, improper=0.2)
        def f():
            v = x
            for ch in reversed(path):
                v = car(v) if ch == "a" else cdr(v)
            return v
        return ["(c%sr %s)" % (path, q(x))], [res(f)]
    if p == "list":
        xs = [gen_atom(rng) for _ in range(rng.randrange(0, 5))]
        return ["(list %s)" % " ".join(q(x) for x in xs)], ["V " + canon(xs)]
    if p == "make-list":
        k = rng.randrange(0, 5); a = gen_atom(rng)
        return ["(make-list %d %s)" % (k, q(a))], ["V " + canon([a] * k)]
    if p in ("null?", "pair?", "list?"):
        x = rng.choice([gen_list(rng, 3, 1, improper=0.4), gen_atom(rng)])
        v = {"null?": x == [], "pair?": is_pair(x), "list?": isinstance(x, list)}[p]
        return ["(%s %s)" % (p, q(x))], ["V " + canon(v)]
    if p == "append":
        ls = [gen_list(rng, 4, 1) for _ in range(rng.randrange(0, 4))]
        last = rng.choice([None, gen_atom(rng), gen_list(rng, 3, 1, improper=0.5)])
        args = ls + ([last] if last is not None else [])
        def f():
            if not args: return []
            out = []
            for l in args[:-1]: out += l
            t = args[-1]
            if isinstance(t, list): return out + t
            if isinstance(t, Imp): return Imp(out + t.items, t.tail)
            return Imp(out, t) if out else t
        return ["(append %s)" % " ".join(q(a) for a in args)], [res(f)]
    if p in ("map", "for-each"):
        l = gen_list(rng, 6, 0)
        l = [y for y in l if isinstance(y, int) and not isinstance(y, bool)]
        forms = ["(import (verif host))", "(%s (lambda (e) (tick e) (* e 2)) %s)" % (p, q(l))]
        want = "V " + canon([y * 2 for y in l]) if p == "map" else ("V <void>" if True else "")
        return forms, ["N", want, ("T", [("i:%d" % y) for y in l])]
    if p in ("fold-left", "fold-right") and rng.random() < 0.25:
        # a sequence that is NOT a list (an improper list, a non-list): the minischeme definitions reach (car tail) - an error, never a
        # value; fold-left has by then applied the procedure to the elements before the tail, in order, fold-right to none
        l = [rng.randrange(0, 9) for _ in range(rng.randrange(0, 4))]
        tail = rng.choice(["5", "#t", '"s"', "(vector 1)"])
        seq = "(cons %s %s)" % (" (cons ".join(str(y) for y in l), tail) + ")" * (len(l) - 1) if l else tail
        forms = ["(import (verif host))", "(%s (lambda (e acc) (tick e) (cons e acc)) '() %s)" % (p, seq)]
        return forms, ["N", "E type", ("T", ["i:%d" % y for y in l] if p == "fold-left" else [])]
    if p in ("fold-left", "fold-right"):
        l = [rng.randrange(0, 9) for _ in range(rng.randrange(0, 6))]
        forms = ["(import (verif host))", "(%s (lambda (e acc) (tick e) (cons e acc)) '() %s)" % (p, q(l))]
        if p == "fold-left":
            acc = []
            for e in l: acc = [e] + acc if isinstance(acc, list) else acc
            order = l
        else:
            acc = list(l)
            order = list(reversed(l))
        return forms, ["N", "V " + canon(acc), ("T", ["i:%d" % y for y in order])]
    if p in ("list-tail", "list-ref") and rng.random() < 0.3:
        # IMPROPER lists: list-tail takes k cdrs (the tail itself after all the pairs, an error beyond); list-ref is the car of
        # that - an error when what is left is not a pair, in particular at k = the number of pairs
        l = gen_list(rng, 4, 1, improper=1.0)
        if isinstance(l, Imp):
            k = rng.randrange(0, len(l.items) + 2)
            def tail():
                if k > len(l.items): raise TypeError
                return l.tail if k == len(l.items) else Imp(l.items[k:], l.tail)
            if p == "list-tail":
                return ["(list-tail %s %d)" % (q(l), k)], [res(tail)]
            return ["(list-ref %s %d)" % (q(l), k)], [res(lambda: car(tail()))]
    if p == "list-tail":
        l = gen_list(rng, 6, 1); k = rng.randrange(0, len(l) + 3)
        def f():
            if k > len(l): raise TypeError
            return l[k:]
        return ["(list-tail %s %d)" % (q(l), k)], [res(f)]
    if p == "list-ref":
        l = gen_list(rng, 6, 1); k = rng.randrange(0, len(l) + 2)
        def f():
            if k >= len(l): raise TypeError
            return l[k]
        return ["(list-ref %s %d)" % (q(l), k)], [res(f)]
    if p == "last-pair":
        l = gen_list(rng, 5, 1, improper=0.3)
        def f():
            if not is_pair(l): raise TypeError
            v = l
            while is_pair(cdr(v)): v = cdr(v)
            return v
        return ["(last-pair %s)" % q(l)], [res(f)]
    if p in ("memq", "memv"):
        l = gen_list(rng, 6, 1); x = gen_atom(rng)
        def f():
            for i in range(len(l)):
                if eqv(x, l[i]): return l[i:]
            return False
        return ["(%s %s %s)" % (p, q(x), q(l))], [res(f)]
    if p == "equal?" and rng.random() < 0.4:
        # vectors: equal? compares them element by element (to any depth, mixed with lists)
        def gv(d):
            r = rng.random()
            if d <= 0 or r < 0.4: return str(rng.choice([0, 1, 2, "a", "b"]))
            if r < 0.7: return "#(" + " ".join(gv(d - 1) for _ in range(rng.randrange(0, 3))) + ")"
            return "(" + " ".join(gv(d - 1) for _ in range(rng.randrange(0, 3))) + ")"
        a = gv(3)
        b = a if rng.random() < 0.5 else gv(3)
        return ["(equal? '%s '%s)" % (a, b)], ["V #t" if a == b else "V #f"]
    if p == "equal?" and rng.random() < 0.5:
        # the SAME structure with ONE leaf replaced by a near-equal datum: a number of the other exactness (2 / 2.0, 1/2 / 0.5),
        # a string for a symbol, a character for a symbol, #t for a non-#f value: equal? is eqv? on the leaves
        twins = [("2", "2.0"), ("1/2", "0.5"), ("0", "0.0"), ("a", '"a"'), ("a", "#\\a"), ("1", "#t"), ("()", "#f"), ("-1", "-1.0"),
                 # ... and leaves that ARE equal although not the same object: strings, characters, ratios, reals
                 ('"ab"', '"ab"'), ('""', '""'), ("#\\a", "#\\a"), ("1/2", "1/2"), ("2.5", "2.5"), ('"ab"', '"ab"'),
                 ('"x y"', '"x y"'), ('"ab"', '"ab"'), ("#\\space", "#\\space"), ('"(a)"', '"(a)"')]
        x, y = rng.choice(twins)
        if rng.random() < 0.5: x, y = y, x
        def shape(d, leaf):
            r = rng.random()
            if d <= 0 or r < 0.3: return leaf
            items = [str(rng.choice([0, 1, "b", "c"])) for _ in range(rng.randrange(0, 3))]
            items.insert(rng.randrange(len(items) + 1), shape(d - 1, leaf))
            if r < 0.55: return "#(" + " ".join(items) + ")"
            if r < 0.7 and len(items) >= 2: return "(" + " ".join(items[:-1]) + " . " + items[-1] + ")"
            return "(" + " ".join(items) + ")"
        st = rng.getstate(); a = shape(3, x); rng.setstate(st); b = shape(3, y)
        same = rng.random() < 0.25
        return ["(equal? '%s '%s)" % (a, a if same else b)], ["V #t" if same or a == b else "V #f"]
    if p == "equal?":
        a = gen_list(rng, 4, 2, improper=0.2)
        b = a if rng.random() < 0.5 else gen_list(rng, 4, 2, improper=0.2)
        return ["(equal? %s %s)" % (q(a), q(b))], ["V " + canon(equal(a, b))]
    if p == "apply" and rng.random() < 0.5:
        # apply spreads its last argument: the procedure receives exactly that many arguments - car / cdr / cons / pair? / null? /
        # eqv? called with a count they do not admit is an error, never a value; with the right count the value of the direct call
        target, ar = rng.choice([("car", 1), ("cdr", 1), ("cons", 2), ("pair?", 1), ("null?", 1), ("eqv?", 2), ("list-tail", 2), ("cadr", 1)])
        n = rng.choice([ar, ar, ar + 1, ar - 1, ar + 2])
        args = [rng.choice(["'(1 2)", "'(3 4 5)", "0", "1"]) for _ in range(max(n, 0))]
        cut = rng.randrange(0, len(args) + 1)
        form = "(apply %s %s (list %s))" % (target, " ".join(args[:cut]), " ".join(args[cut:]))
        if rng.random() < 0.3:
            form = "(apply apply (list %s (list %s)))" % (target, " ".join(args))
        if n != ar:
            return [form], ["E arity"]
        return [form, "(%s %s)" % (target, " ".join(args))], ["SAME"]
    if p == "apply":
        l = [rng.randrange(0, 9) for _ in range(rng.randrange(0, 5))]
        pre = [rng.randrange(0, 9) for _ in range(rng.randrange(0, 3))]
        return ["(apply list %s %s)" % (" ".join(map(str, pre)), q(l))], ["V " + canon(pre + l)]
    if p == "cons":
        a, b = gen_atom(rng), rng.choice([gen_atom(rng), gen_list(rng, 3, 1)])
        def f():
            if isinstance(b, list): return [a] + b
            return Imp([a], b)
        return ["(cons %s %s)" % (q(a), q(b))], [res(f)]
    # compositions
    l1, l2 = gen_list(rng, 4, 0), gen_list(rng, 4, 0)
    k = rng.randrange(0, 3)
    def f():
        both = l1 + l2
        if k > len(both): raise TypeError
        t = both[k:]
        return [t] + [len(t) == 0]
    return ["(list (list-tail (append %s %s) %d) (null? (list-tail (append %s %s) %d)))" % (q(l1), q(l2), k, q(l1), q(l2), k)], [res(f)]


def run(rep, tier, rng):
    n = 2500 if tier == "quick" else 60000
    cases, meta = [], {}
    for i in range(n):
        forms, want = case(rng)
        cases.append(("l%d" % i, "progx", ["std+host"] + forms))
        meta["l%d" % i] = (forms, want)
    impl = C.run_hx(cases)
    model = C.run_driver(cases)
    res = R.compare(rep, cases, impl, model, "list library (RuschmGen/BaseLib.lean run by the model <-> base.sld run by the interpreter)")
    procs = {}
    for cid, _, f in cases:
        if cid not in res:
            continue
        forms, want = meta[cid]
        got, ticks = res[cid][0], res[cid][1]
        rep.count()
        rep.nontrivial(tuple(forms))
        name = forms[-1].split(" ")[0].strip("(")
        procs[name] = procs.get(name, 0) + 1
        if len(rep.cov["samples"]) < 6 and cid.endswith("1"):
            rep.sample({"form": forms[-1], "implementation": got[-1]})
        if want == ["SAME"]:
            # the apply form and the direct call must agree (value or error kind)
            k0 = lambda x: x if not x.startswith("E ") else "E " + x.split(" ")[1]
            if k0(got[-2]) != k0(got[-1]):
                rep.violation({"what": "a list-library procedure does not compute what its definition says", "forms": forms,
                               "problem": "(apply f args) and the direct call (f . args) differ: %s vs %s" % (got[-2], got[-1])})
            continue
        wres = [w for w in want if isinstance(w, str)]
        wt = next((w[1] for w in want if isinstance(w, tuple)), None)
        bad = None
        for g, w in zip(got, wres):
            if not (g == w or (w.startswith("E ") and g.startswith("E "))):
                bad = "expected %s, got %s" % (w, g)
        if wt is not None and ticks.split() != wt:
            bad = "the procedure argument was not called once per element in list order: calls %s, expected %s" % (ticks.split(), wt)
        if bad:
            rep.violation({"what": "a list-library procedure does not compute what its definition says", "forms": forms, "problem": bad})
    rep.extra["cases_per_procedure"] = procs


def main(tier, seed):
    rep = C.Report(PROP, tier, seed)
    rng = random.Random(seed)
    rep.cov["rule"] = ("random calls of every list-library procedure named by the property (c[ad]r compositions up to 3 deep on proper "
                       "and improper structures, list, make-list, null?, pair?, list?, append incl. a non-list last argument, map, "
                       "for-each, fold-left, fold-right with a ticking procedure argument, list-tail/list-ref with indices in and just "
                       "outside the range, last-pair, memq, memv, equal?, apply, cons) and compositions; distinct = distinct forms")
    ok = C.standard_proof_phase(rep, MODULES, directed_search=lambda r: run(r, tier, rng))
    if ok:
        run(rep, tier, rng)
    return rep.finish("cd lean && lake build RuschmProofs.C11 && lake env lean <#print axioms of every theorem in RuschmProofs/C11.lean>")

/-
Shared evaluator lemmas for `RuschmModel/Eval.lean`.

1. FUEL MONOTONICITY of the whole mutual block (`evalExpr_mono`, `evalArgs_mono`, …,
   `…_mono_le`): a result that is not the fuel error is kept when more fuel is given.
   `NotFuel r` is the predicate "r is not `.error (.fuel, _)`".
2. Fuel-free judgements DEFINED from the executable functions
   (`Evals σ ρ e r σ'`, `EvalsArgs`, `AppliesProc` (= `applyProcedure`), `Applies` (= `applyLoop`),
   `AppliesScheme`, `EvalsDefs`, `EvalsBody`, `EvalsTail`): "for all large enough fuel the function
   returns `(r, σ')`, and `r` is not the fuel error"; introduction from one run (`Evals.intro`),
   determinism (`Evals.unique`), and the derived big-step rules (`Evals.prim`, `Evals.sym`,
   `Evals.lambda`, `Evals.quote`, `Evals.cond_true/false/void/err`, `Evals.assign…`,
   `Evals.call`, `Evals.call_nonproc`, `EvalsArgs.nil/cons/cons_err…`, `Applies.builtin`,
   `Applies.closure_value`, `Applies.closure_tail`, `Applies.apply`, `Applies.arity_err`, …).
-/
import RuschmSpec.Ref
namespace Ruschm.Eval
open Prim

def isFuel {α} : Except SErr α → Bool
  | .error (.fuel, _) => true
  | _ => false
def NotFuel {α} (r : Except SErr α) : Prop := isFuel r = false
@[simp] theorem NotFuel.ok {α} (v : α) : NotFuel (.ok v : Except SErr α) := rfl
@[simp] theorem notFuel_fuel {α} (l) : ¬ NotFuel (.error (.fuel, l) : Except SErr α) := by simp [NotFuel, isFuel]
theorem NotFuel.cast {α β} {e : SErr} (h : NotFuel (.error e : Except SErr α)) : NotFuel (.error e : Except SErr β) := by
  obtain ⟨e, l⟩ := e; cases e <;> simp_all [NotFuel, isFuel]

structure Mono (n : Nat) : Prop where
  expr : ∀ {σ ρ e r σ'}, evalExpr n σ ρ e = (r, σ') → NotFuel r → evalExpr (n+1) σ ρ e = (r, σ')
  args : ∀ {σ ρ es r σ'}, evalArgs n σ ρ es = (r, σ') → NotFuel r → evalArgs (n+1) σ ρ es = (r, σ')
  proc : ∀ {σ p as env r σ'}, applyProcedure n σ p as env = (r, σ') → NotFuel r → applyProcedure (n+1) σ p as env = (r, σ')
  loop : ∀ {σ p as env r σ'}, applyLoop n σ p as env = (r, σ') → NotFuel r → applyLoop (n+1) σ p as env = (r, σ')
  scheme : ∀ {σ lam cenv as r σ'}, applyScheme n σ lam cenv as = (r, σ') → NotFuel r → applyScheme (n+1) σ lam cenv as = (r, σ')
  defs : ∀ {σ ρ ds r σ'}, evalDefs n σ ρ ds = (r, σ') → NotFuel r → evalDefs (n+1) σ ρ ds = (r, σ')
  body : ∀ {σ ρ es r σ'}, evalBody n σ ρ es = (r, σ') → NotFuel r → evalBody (n+1) σ ρ es = (r, σ')
  tail : ∀ {σ ρ e r σ'}, evalTail n σ ρ e = (r, σ') → NotFuel r → evalTail (n+1) σ ρ e = (r, σ')

theorem mono_expr {n} (ih : Mono n) {σ ρ e r σ'} (h : evalExpr (n+1) σ ρ e = (r, σ')) (hr : NotFuel r) :
    evalExpr (n+2) σ ρ e = (r, σ') := by
  cases e with
  | prim p l => rw [evalExpr] at h ⊢; exact h
  | datum d l => rw [evalExpr] at h ⊢; exact h
  | quote d l => rw [evalExpr] at h ⊢; exact h
  | lambda lam l => rw [evalExpr] at h ⊢; exact h
  | sym s l => rw [evalExpr] at h ⊢; exact h
  | assign name ve l =>
    rw [evalExpr] at h ⊢
    split at h
    next er σ1 heq =>
      cases h; rw [ih.expr heq hr]
    next v σ1 heq =>
      rw [ih.expr heq (by simp)]; exact h
  | cond t c a l =>
    rw [evalExpr] at h ⊢
    split at h
    next er σ1 heq =>
      cases h; rw [ih.expr heq hr]
    next v σ1 heq =>
      rw [ih.expr heq (by simp)]; simp only
      split at h
      · rw [if_pos ‹_›]; exact ih.expr h hr
      · rw [if_neg ‹_›]
        split at h
        · exact ih.expr h hr
        · exact h
  | call f args l =>
    rw [evalExpr] at h ⊢
    split at h
    next er σ1 heq =>
      cases h; rw [ih.expr heq hr]
    next v σ1 heq =>
      rw [ih.expr heq (by simp)]; simp only
      split at h
      next rargs σ2 hargs =>
        by_cases hfa : NotFuel rargs
        · rw [ih.args hargs hfa]; simp only
          split at h
          · split at h
            · exact h
            · exact ih.proc h hr
          · exact h
        · exfalso
          cases rargs with
          | ok _ => simp at hfa
          | error e =>
            obtain ⟨e, l⟩ := e
            cases e <;> simp [NotFuel, isFuel] at hfa
            split at h <;> simp at h <;> cases h.1 <;> simp at hr

theorem mono_args {n} (ih : Mono n) {σ ρ es r σ'} (h : evalArgs (n+1) σ ρ es = (r, σ')) (hr : NotFuel r) :
    evalArgs (n+2) σ ρ es = (r, σ') := by
  cases es with
  | nil => rw [evalArgs] at h ⊢; exact h
  | cons a as =>
    rw [evalArgs] at h ⊢
    split at h
    next er σ1 heq => cases h; rw [ih.expr heq hr.cast]
    next v σ1 heq =>
      rw [ih.expr heq (by simp)]; simp only
      split at h
      next er σ2 heq2 => cases h; rw [ih.args heq2 hr]
      next vs σ2 heq2 => rw [ih.args heq2 (by simp)]; exact h

theorem mono_proc {n} (ih : Mono n) {σ p as env r σ'} (h : applyProcedure (n+1) σ p as env = (r, σ'))
    (hr : NotFuel r) : applyProcedure (n+2) σ p as env = (r, σ') := by
  rw [applyProcedure] at h ⊢
  split at h
  next r1 σ1 heq =>
    cases h; rw [ih.loop heq hr]

theorem mono_loop {n} (ih : Mono n) {σ p as env r σ'} (h : applyLoop (n+1) σ p as env = (r, σ'))
    (hr : NotFuel r) : applyLoop (n+2) σ p as env = (r, σ') := by
  unfold applyLoop at h ⊢
  split at h
  · exact h
  next fixed variadic hpa =>
    skip
    split at h
    · rw [if_pos ‹_›]; exact h
    · rw [if_neg ‹_›]
      split at h
      · -- apply
        split at h
        · exact h
        next f args' hsp => exact ih.loop h hr
      · exact h
      · -- closure
        split at h
        next er σ1 heq => cases h; rw [ih.scheme heq hr.cast]
        next v σ1 heq => rw [ih.scheme heq (by simp)]; exact h
        next f targs tenv σ1 heq =>
          rw [ih.scheme heq (by simp)]; simp only
          split at h
          next er σ2 heq2 => cases h; rw [ih.expr heq2 hr]
          next first σ2 heq2 =>
            rw [ih.expr heq2 (by simp)]; simp only
            split at h
            next er σ3 heq3 => cases h; rw [ih.args heq3 hr.cast]
            next vs σ3 heq3 =>
              rw [ih.args heq3 (by simp)]; simp only
              split at h
              · exact h
              · exact ih.loop h hr
      · exact h

theorem mono_defs {n} (ih : Mono n) {σ ρ ds r σ'} (h : evalDefs (n+1) σ ρ ds = (r, σ'))
    (hr : NotFuel r) : evalDefs (n+2) σ ρ ds = (r, σ') := by
  cases ds with
  | nil => rw [evalDefs] at h ⊢; exact h
  | cons d ds =>
    obtain ⟨name, e, l⟩ := d
    rw [evalDefs] at h ⊢
    split at h
    next er σ1 heq => cases h; rw [ih.expr heq hr.cast]
    next v σ1 heq => rw [ih.expr heq (by simp)]; exact ih.defs h hr

theorem mono_body {n} (ih : Mono n) {σ ρ es r σ'} (h : evalBody (n+1) σ ρ es = (r, σ'))
    (hr : NotFuel r) : evalBody (n+2) σ ρ es = (r, σ') := by
  match es with
  | [] => rw [evalBody] at h ⊢; exact h
  | [last] => rw [evalBody] at h ⊢; exact ih.tail h hr
  | e :: e2 :: es =>
    rw [evalBody] at h ⊢
    · split at h
      next er σ1 heq => cases h; rw [ih.expr heq hr.cast]
      next v σ1 heq => rw [ih.expr heq (by simp)]; exact ih.body h hr
    all_goals simp

theorem mono_tail {n} (ih : Mono n) {σ ρ e r σ'} (h : evalTail (n+1) σ ρ e = (r, σ'))
    (hr : NotFuel r) : evalTail (n+2) σ ρ e = (r, σ') := by
  unfold evalTail at h ⊢
  split at h
  · exact h
  · split at h
    next er σ1 heq => cases h; rw [ih.expr heq hr.cast]
    next tv σ1 heq =>
      rw [ih.expr heq (by simp)]; simp only
      split at h
      · rw [if_pos ‹_›]; exact ih.tail h hr
      · rw [if_neg ‹_›]
        split at h
        · exact ih.tail h hr
        · exact h
  · split at h
    next er σ1 heq => cases h; rw [ih.expr heq hr.cast]
    next v σ1 heq => rw [ih.expr heq (by simp)]; exact h

theorem mono_scheme {n} (ih : Mono n) {σ lam cenv as r σ'} (h : applyScheme (n+1) σ lam cenv as = (r, σ'))
    (hr : NotFuel r) : applyScheme (n+2) σ lam cenv as = (r, σ') := by
  unfold applyScheme at h ⊢
  simp only at h ⊢
  split at h
  · exact h
  next restArgs σ1 hb =>
    skip
    split at h
    next er σ2 heq => cases h; rw [ih.defs heq hr.cast]
    next σ2 heq => rw [ih.defs heq (by simp)]; exact ih.body h hr

theorem mono_all : ∀ n, Mono n
  | 0 => by
    constructor <;> intro _ _ _ <;> intros <;> rename_i h hr <;>
      simp only [evalExpr, evalArgs, applyProcedure, applyLoop, applyScheme, evalDefs, evalBody, evalTail] at h <;>
      cases h <;> simp at hr
  | n+1 =>
    have ih := mono_all n
    ⟨mono_expr ih, mono_args ih, mono_proc ih, mono_loop ih, mono_scheme ih, mono_defs ih, mono_body ih, mono_tail ih⟩


/-! ## Fuel monotonicity, general form -/

section mono
variable {α : Type}

/-- generic: a fuel-indexed function that keeps non-fuel results for one more unit keeps them for any more -/
theorem mono_add {f : Nat → Res α} (step : ∀ n r σ', f n = (r, σ') → NotFuel r → f (n+1) = (r, σ'))
    {n r σ'} (h : f n = (r, σ')) (hr : NotFuel r) (k : Nat) : f (n+k) = (r, σ') := by
  induction k with
  | zero => exact h
  | succ k ih => exact step _ _ _ ih hr

theorem mono_le {f : Nat → Res α} (step : ∀ n r σ', f n = (r, σ') → NotFuel r → f (n+1) = (r, σ'))
    {n m r σ'} (h : f n = (r, σ')) (hr : NotFuel r) (hnm : n ≤ m) : f m = (r, σ') := by
  obtain ⟨k, rfl⟩ := Nat.exists_eq_add_of_le hnm
  exact mono_add step h hr k
end mono

theorem evalExpr_mono_le {n m σ ρ e r σ'} (h : evalExpr n σ ρ e = (r, σ')) (hr : NotFuel r) (hnm : n ≤ m) :
    evalExpr m σ ρ e = (r, σ') :=
  mono_le (f := fun n => evalExpr n σ ρ e) (fun n _ _ h hr => (mono_all n).expr h hr) h hr hnm
theorem evalArgs_mono_le {n m σ ρ es r σ'} (h : evalArgs n σ ρ es = (r, σ')) (hr : NotFuel r) (hnm : n ≤ m) :
    evalArgs m σ ρ es = (r, σ') :=
  mono_le (f := fun n => evalArgs n σ ρ es) (fun n _ _ h hr => (mono_all n).args h hr) h hr hnm
theorem applyProcedure_mono_le {n m σ p as env r σ'} (h : applyProcedure n σ p as env = (r, σ')) (hr : NotFuel r)
    (hnm : n ≤ m) : applyProcedure m σ p as env = (r, σ') :=
  mono_le (f := fun n => applyProcedure n σ p as env) (fun n _ _ h hr => (mono_all n).proc h hr) h hr hnm
theorem applyLoop_mono_le {n m σ p as env r σ'} (h : applyLoop n σ p as env = (r, σ')) (hr : NotFuel r)
    (hnm : n ≤ m) : applyLoop m σ p as env = (r, σ') :=
  mono_le (f := fun n => applyLoop n σ p as env) (fun n _ _ h hr => (mono_all n).loop h hr) h hr hnm
theorem applyScheme_mono_le {n m σ lam cenv as r σ'} (h : applyScheme n σ lam cenv as = (r, σ')) (hr : NotFuel r)
    (hnm : n ≤ m) : applyScheme m σ lam cenv as = (r, σ') :=
  mono_le (f := fun n => applyScheme n σ lam cenv as) (fun n _ _ h hr => (mono_all n).scheme h hr) h hr hnm
theorem evalDefs_mono_le {n m σ ρ ds r σ'} (h : evalDefs n σ ρ ds = (r, σ')) (hr : NotFuel r) (hnm : n ≤ m) :
    evalDefs m σ ρ ds = (r, σ') :=
  mono_le (f := fun n => evalDefs n σ ρ ds) (fun n _ _ h hr => (mono_all n).defs h hr) h hr hnm
theorem evalBody_mono_le {n m σ ρ es r σ'} (h : evalBody n σ ρ es = (r, σ')) (hr : NotFuel r) (hnm : n ≤ m) :
    evalBody m σ ρ es = (r, σ') :=
  mono_le (f := fun n => evalBody n σ ρ es) (fun n _ _ h hr => (mono_all n).body h hr) h hr hnm
theorem evalTail_mono_le {n m σ ρ e r σ'} (h : evalTail n σ ρ e = (r, σ')) (hr : NotFuel r) (hnm : n ≤ m) :
    evalTail m σ ρ e = (r, σ') :=
  mono_le (f := fun n => evalTail n σ ρ e) (fun n _ _ h hr => (mono_all n).tail h hr) h hr hnm

/-- FUEL MONOTONICITY (`+ k` form) -/
theorem evalExpr_mono {n σ ρ e r σ'} (h : evalExpr n σ ρ e = (r, σ')) (hr : NotFuel r) (k : Nat) :
    evalExpr (n+k) σ ρ e = (r, σ') := evalExpr_mono_le h hr (Nat.le_add_right _ _)
theorem evalArgs_mono {n σ ρ es r σ'} (h : evalArgs n σ ρ es = (r, σ')) (hr : NotFuel r) (k : Nat) :
    evalArgs (n+k) σ ρ es = (r, σ') := evalArgs_mono_le h hr (Nat.le_add_right _ _)
theorem applyProcedure_mono {n σ p as env r σ'} (h : applyProcedure n σ p as env = (r, σ')) (hr : NotFuel r)
    (k : Nat) : applyProcedure (n+k) σ p as env = (r, σ') := applyProcedure_mono_le h hr (Nat.le_add_right _ _)
theorem applyLoop_mono {n σ p as env r σ'} (h : applyLoop n σ p as env = (r, σ')) (hr : NotFuel r)
    (k : Nat) : applyLoop (n+k) σ p as env = (r, σ') := applyLoop_mono_le h hr (Nat.le_add_right _ _)
theorem applyScheme_mono {n σ lam cenv as r σ'} (h : applyScheme n σ lam cenv as = (r, σ')) (hr : NotFuel r)
    (k : Nat) : applyScheme (n+k) σ lam cenv as = (r, σ') := applyScheme_mono_le h hr (Nat.le_add_right _ _)
theorem evalDefs_mono {n σ ρ ds r σ'} (h : evalDefs n σ ρ ds = (r, σ')) (hr : NotFuel r) (k : Nat) :
    evalDefs (n+k) σ ρ ds = (r, σ') := evalDefs_mono_le h hr (Nat.le_add_right _ _)
theorem evalBody_mono {n σ ρ es r σ'} (h : evalBody n σ ρ es = (r, σ')) (hr : NotFuel r) (k : Nat) :
    evalBody (n+k) σ ρ es = (r, σ') := evalBody_mono_le h hr (Nat.le_add_right _ _)
theorem evalTail_mono {n σ ρ e r σ'} (h : evalTail n σ ρ e = (r, σ')) (hr : NotFuel r) (k : Nat) :
    evalTail (n+k) σ ρ e = (r, σ') := evalTail_mono_le h hr (Nat.le_add_right _ _)

/-! ## Fuel-free judgements -/

/-- `f` (a fuel-indexed run) settles on the non-fuel outcome `(r, σ')` -/
def Stable {α} (f : Nat → Res α) (r : Except SErr α) (σ' : Store) : Prop :=
  NotFuel r ∧ ∃ N, ∀ n, N ≤ n → f n = (r, σ')

theorem Stable.unique {α} {f : Nat → Res α} {r₁ r₂ σ₁ σ₂} (h₁ : Stable f r₁ σ₁) (h₂ : Stable f r₂ σ₂) :
    r₁ = r₂ ∧ σ₁ = σ₂ := by
  obtain ⟨_, N₁, h₁⟩ := h₁; obtain ⟨_, N₂, h₂⟩ := h₂
  have := (h₁ (max N₁ N₂) (Nat.le_max_left ..)).symm.trans (h₂ (max N₁ N₂) (Nat.le_max_right ..))
  exact ⟨congrArg Prod.fst this, congrArg Prod.snd this⟩

theorem Stable.notFuel {α} {f : Nat → Res α} {r σ'} (h : Stable f r σ') : NotFuel r := h.1

/-- `e` evaluates in store `σ`, frame `ρ` to outcome `r` (a value or a non-fuel error), leaving `σ'` -/
def Evals (σ : Store) (ρ : Nat) (e : Expr) (r : Except SErr Value) (σ' : Store) : Prop :=
  Stable (fun n => evalExpr n σ ρ e) r σ'
def EvalsArgs (σ : Store) (ρ : Nat) (es : List Expr) (r : Except SErr (List Value)) (σ' : Store) : Prop :=
  Stable (fun n => evalArgs n σ ρ es) r σ'
/-- one activation of `apply_procedure` (`applyProcedure`: depth bookkeeping around the loop) -/
def AppliesProc (σ : Store) (p : Value) (args : List Value) (env : Nat) (r : Except SErr Value) (σ' : Store) : Prop :=
  Stable (fun n => applyProcedure n σ p args env) r σ'
/-- the trampoline loop `applyLoop` started with procedure `p` and arguments `args` -/
def Applies (σ : Store) (p : Value) (args : List Value) (env : Nat) (r : Except SErr Value) (σ' : Store) : Prop :=
  Stable (fun n => applyLoop n σ p args env) r σ'
def AppliesScheme (σ : Store) (lam : Lambda) (cenv : Nat) (args : List Value) (r : Except SErr TailRes) (σ' : Store) : Prop :=
  Stable (fun n => applyScheme n σ lam cenv args) r σ'
def EvalsDefs (σ : Store) (ρ : Nat) (ds : List Def) (r : Except SErr Unit) (σ' : Store) : Prop :=
  Stable (fun n => evalDefs n σ ρ ds) r σ'
def EvalsBody (σ : Store) (ρ : Nat) (es : List Expr) (r : Except SErr TailRes) (σ' : Store) : Prop :=
  Stable (fun n => evalBody n σ ρ es) r σ'
def EvalsTail (σ : Store) (ρ : Nat) (e : Expr) (r : Except SErr TailRes) (σ' : Store) : Prop :=
  Stable (fun n => evalTail n σ ρ e) r σ'

/-! ### from one run to the judgement and back -/

theorem Evals.out {σ ρ e r σ'} (h : Evals σ ρ e r σ') :
    NotFuel r ∧ ∃ N, ∀ n, N ≤ n → evalExpr n σ ρ e = (r, σ') := h
theorem EvalsArgs.out {σ ρ es r σ'} (h : EvalsArgs σ ρ es r σ') :
    NotFuel r ∧ ∃ N, ∀ n, N ≤ n → evalArgs n σ ρ es = (r, σ') := h
theorem AppliesProc.out {σ p as env r σ'} (h : AppliesProc σ p as env r σ') :
    NotFuel r ∧ ∃ N, ∀ n, N ≤ n → applyProcedure n σ p as env = (r, σ') := h
theorem Applies.out {σ p as env r σ'} (h : Applies σ p as env r σ') :
    NotFuel r ∧ ∃ N, ∀ n, N ≤ n → applyLoop n σ p as env = (r, σ') := h
theorem AppliesScheme.out {σ lam cenv as r σ'} (h : AppliesScheme σ lam cenv as r σ') :
    NotFuel r ∧ ∃ N, ∀ n, N ≤ n → applyScheme n σ lam cenv as = (r, σ') := h
theorem EvalsDefs.out {σ ρ ds r σ'} (h : EvalsDefs σ ρ ds r σ') :
    NotFuel r ∧ ∃ N, ∀ n, N ≤ n → evalDefs n σ ρ ds = (r, σ') := h
theorem EvalsBody.out {σ ρ es r σ'} (h : EvalsBody σ ρ es r σ') :
    NotFuel r ∧ ∃ N, ∀ n, N ≤ n → evalBody n σ ρ es = (r, σ') := h
theorem EvalsTail.out {σ ρ e r σ'} (h : EvalsTail σ ρ e r σ') :
    NotFuel r ∧ ∃ N, ∀ n, N ≤ n → evalTail n σ ρ e = (r, σ') := h

theorem Evals.intro {n σ ρ e r σ'} (h : evalExpr n σ ρ e = (r, σ')) (hr : NotFuel r) : Evals σ ρ e r σ' :=
  ⟨hr, n, fun _ hm => evalExpr_mono_le h hr hm⟩
theorem EvalsArgs.intro {n σ ρ es r σ'} (h : evalArgs n σ ρ es = (r, σ')) (hr : NotFuel r) : EvalsArgs σ ρ es r σ' :=
  ⟨hr, n, fun _ hm => evalArgs_mono_le h hr hm⟩
theorem AppliesProc.intro {n σ p as env r σ'} (h : applyProcedure n σ p as env = (r, σ')) (hr : NotFuel r) :
    AppliesProc σ p as env r σ' := ⟨hr, n, fun _ hm => applyProcedure_mono_le h hr hm⟩
theorem Applies.intro {n σ p as env r σ'} (h : applyLoop n σ p as env = (r, σ')) (hr : NotFuel r) :
    Applies σ p as env r σ' := ⟨hr, n, fun _ hm => applyLoop_mono_le h hr hm⟩
theorem AppliesScheme.intro {n σ lam cenv as r σ'} (h : applyScheme n σ lam cenv as = (r, σ')) (hr : NotFuel r) :
    AppliesScheme σ lam cenv as r σ' := ⟨hr, n, fun _ hm => applyScheme_mono_le h hr hm⟩
theorem EvalsDefs.intro {n σ ρ ds r σ'} (h : evalDefs n σ ρ ds = (r, σ')) (hr : NotFuel r) : EvalsDefs σ ρ ds r σ' :=
  ⟨hr, n, fun _ hm => evalDefs_mono_le h hr hm⟩
theorem EvalsBody.intro {n σ ρ es r σ'} (h : evalBody n σ ρ es = (r, σ')) (hr : NotFuel r) : EvalsBody σ ρ es r σ' :=
  ⟨hr, n, fun _ hm => evalBody_mono_le h hr hm⟩
theorem EvalsTail.intro {n σ ρ e r σ'} (h : evalTail n σ ρ e = (r, σ')) (hr : NotFuel r) : EvalsTail σ ρ e r σ' :=
  ⟨hr, n, fun _ hm => evalTail_mono_le h hr hm⟩

/-- the judgement is exactly "some run returns this non-fuel outcome" -/
theorem evals_iff {σ ρ e r σ'} : Evals σ ρ e r σ' ↔ NotFuel r ∧ ∃ n, evalExpr n σ ρ e = (r, σ') :=
  ⟨fun ⟨hr, N, h⟩ => ⟨hr, N, h N (Nat.le_refl _)⟩, fun ⟨hr, _, h⟩ => Evals.intro h hr⟩
theorem applies_iff {σ p as env r σ'} : Applies σ p as env r σ' ↔ NotFuel r ∧ ∃ n, applyLoop n σ p as env = (r, σ') :=
  ⟨fun ⟨hr, N, h⟩ => ⟨hr, N, h N (Nat.le_refl _)⟩, fun ⟨hr, _, h⟩ => Applies.intro h hr⟩

/-- a run that does not end in the fuel error agrees with the judgement -/
theorem Evals.run_eq {σ ρ e r σ' n r₂ σ₂} (h : Evals σ ρ e r σ') (h₂ : evalExpr n σ ρ e = (r₂, σ₂))
    (hr₂ : NotFuel r₂) : r₂ = r ∧ σ₂ = σ' := Stable.unique (Evals.intro h₂ hr₂) h
theorem Evals.unique {σ ρ e r₁ σ₁ r₂ σ₂} (h₁ : Evals σ ρ e r₁ σ₁) (h₂ : Evals σ ρ e r₂ σ₂) :
    r₁ = r₂ ∧ σ₁ = σ₂ := Stable.unique h₁ h₂
theorem EvalsArgs.unique {σ ρ es r₁ σ₁ r₂ σ₂} (h₁ : EvalsArgs σ ρ es r₁ σ₁) (h₂ : EvalsArgs σ ρ es r₂ σ₂) :
    r₁ = r₂ ∧ σ₁ = σ₂ := Stable.unique h₁ h₂
theorem Applies.unique {σ p as env r₁ σ₁ r₂ σ₂} (h₁ : Applies σ p as env r₁ σ₁) (h₂ : Applies σ p as env r₂ σ₂) :
    r₁ = r₂ ∧ σ₁ = σ₂ := Stable.unique h₁ h₂
theorem AppliesProc.unique {σ p as env r₁ σ₁ r₂ σ₂} (h₁ : AppliesProc σ p as env r₁ σ₁)
    (h₂ : AppliesProc σ p as env r₂ σ₂) : r₁ = r₂ ∧ σ₁ = σ₂ := Stable.unique h₁ h₂


/-! ## The big-step rules (derived) -/

theorem Stable.of_succ {α} {f : Nat → Res α} {r σ'} (hr : NotFuel r) (N : Nat)
    (h : ∀ n, N ≤ n → f (n+1) = (r, σ')) : Stable f r σ' :=
  ⟨hr, N+1, fun n hn => by
    obtain ⟨m, rfl⟩ : ∃ m, n = m+1 := ⟨n-1, by omega⟩
    exact h m (by omega)⟩

theorem NotFuel.error_of {α} {e : Err} {l : Loc} (h : e ≠ .fuel) : NotFuel (.error (e, l) : Except SErr α) := by
  cases e <;> simp_all [NotFuel, isFuel]

theorem evalPrim_ne_fuel {p e} (h : evalPrim p = .error e) : e ≠ .fuel := by
  cases p <;> simp [evalPrim] at h
  rename_i n d
  unfold Num.exactRatio at h
  simp only [Except.map] at h
  split at h
  · rename_i h'
    split at h'
    · cases h'; cases h; simp
    · split at h'
      · split at h' <;> cases h'
      · cases h'
  · cases h

theorem Evals.prim {σ ρ p l v} (h : evalPrim p = .ok v) : Evals σ ρ (.prim p l) (.ok v) σ :=
  Stable.of_succ (by simp) 0 fun n _ => by show evalExpr (n+1) _ _ _ = _; rw [evalExpr, h]
theorem Evals.prim_err {σ ρ p l e} (h : evalPrim p = .error e) : Evals σ ρ (.prim p l) (.error (e, none)) σ :=
  Stable.of_succ (.error_of (evalPrim_ne_fuel h)) 0 fun n _ => by show evalExpr (n+1) _ _ _ = _; rw [evalExpr, h]
theorem Evals.sym {σ ρ s l v} (h : σ.lookup ρ s = some v) : Evals σ ρ (.sym s l) (.ok v) σ :=
  Stable.of_succ (by simp) 0 fun n _ => by show evalExpr (n+1) _ _ _ = _; rw [evalExpr, h]
theorem Evals.sym_unbound {σ ρ s l} (h : σ.lookup ρ s = none) : Evals σ ρ (.sym s l) (.error (.unbound, l)) σ :=
  Stable.of_succ (.error_of (by simp)) 0 fun n _ => by show evalExpr (n+1) _ _ _ = _; rw [evalExpr, h]
theorem Evals.lambda {σ ρ lam l} : Evals σ ρ (.lambda lam l) (.ok (.closure lam ρ)) σ :=
  Stable.of_succ (by simp) 0 fun n _ => by show evalExpr (n+1) _ _ _ = _; rw [evalExpr]
theorem Evals.quote {σ ρ d l r σ'} (h : readLiteral σ d = (r, σ')) (hr : NotFuel r) : Evals σ ρ (.quote d l) r σ' :=
  Stable.of_succ hr 0 fun n _ => by show evalExpr (n+1) _ _ _ = _; rw [evalExpr, h]
theorem Evals.datum {σ ρ d l r σ'} (h : readLiteral σ d = (r, σ')) (hr : NotFuel r) : Evals σ ρ (.datum d l) r σ' :=
  Stable.of_succ hr 0 fun n _ => by show evalExpr (n+1) _ _ _ = _; rw [evalExpr, h]

theorem Evals.cond_err {σ ρ t c a l er σ₁} (ht : Evals σ ρ t (.error er) σ₁) :
    Evals σ ρ (.cond t c a l) (.error er) σ₁ := by
  obtain ⟨hr, N, h⟩ := ht.out
  exact Stable.of_succ hr N fun n hn => by show evalExpr (n+1) _ _ _ = _; rw [evalExpr, h n hn]
theorem Evals.cond_true {σ ρ t c a l tv σ₁ r σ'} (ht : Evals σ ρ t (.ok tv) σ₁) (htv : tv.truthy = true)
    (hc : Evals σ₁ ρ c r σ') : Evals σ ρ (.cond t c a l) r σ' := by
  obtain ⟨_, N₁, h₁⟩ := ht.out; obtain ⟨hr, N₂, h₂⟩ := hc.out
  exact Stable.of_succ hr (max N₁ N₂) fun n hn => by
    show evalExpr (n+1) _ _ _ = _
    rw [evalExpr, h₁ n (by omega)]; simp only [htv, if_true]; exact h₂ n (by omega)
theorem Evals.cond_false {σ ρ t c alt l tv σ₁ r σ'} (ht : Evals σ ρ t (.ok tv) σ₁) (htv : tv.truthy = false)
    (hc : Evals σ₁ ρ alt r σ') : Evals σ ρ (.cond t c (some alt) l) r σ' := by
  obtain ⟨_, N₁, h₁⟩ := ht.out; obtain ⟨hr, N₂, h₂⟩ := hc.out
  exact Stable.of_succ hr (max N₁ N₂) fun n hn => by
    show evalExpr (n+1) _ _ _ = _
    rw [evalExpr, h₁ n (by omega)]; simp only [htv]; exact h₂ n (by omega)
theorem Evals.cond_void {σ ρ t c l tv σ₁} (ht : Evals σ ρ t (.ok tv) σ₁) (htv : tv.truthy = false) :
    Evals σ ρ (.cond t c none l) (.ok .void) σ₁ := by
  obtain ⟨_, N₁, h₁⟩ := ht.out
  exact Stable.of_succ (by simp) N₁ fun n hn => by
    show evalExpr (n+1) _ _ _ = _
    rw [evalExpr, h₁ n (by omega)]; simp [htv]

theorem Evals.assign_err {σ ρ x e l er σ₁} (he : Evals σ ρ e (.error er) σ₁) :
    Evals σ ρ (.assign x e l) (.error er) σ₁ := by
  obtain ⟨hr, N, h⟩ := he.out
  exact Stable.of_succ hr N fun n hn => by show evalExpr (n+1) _ _ _ = _; rw [evalExpr, h n hn]
theorem Evals.assign {σ ρ x e l v σ₁ σ'} (he : Evals σ ρ e (.ok v) σ₁) (hs : σ₁.set ρ x v = (true, σ')) :
    Evals σ ρ (.assign x e l) (.ok .void) σ' := by
  obtain ⟨_, N, h⟩ := he.out
  exact Stable.of_succ (by simp) N fun n hn => by show evalExpr (n+1) _ _ _ = _; rw [evalExpr, h n hn]; simp [hs]
theorem Evals.assign_unbound {σ ρ x e l v σ₁ σ'} (he : Evals σ ρ e (.ok v) σ₁) (hs : σ₁.set ρ x v = (false, σ')) :
    Evals σ ρ (.assign x e l) (.error (.unbound, none)) σ' := by
  obtain ⟨_, N, h⟩ := he.out
  exact Stable.of_succ (.error_of (by simp)) N fun n hn => by
    show evalExpr (n+1) _ _ _ = _; rw [evalExpr, h n hn]; simp [hs]

/-- the call rule: operator, then all operands, then the application -/
theorem Evals.call {σ ρ f args l fv σ₁ vs σ₂ r σ'} (hf : Evals σ ρ f (.ok fv) σ₁)
    (ha : EvalsArgs σ₁ ρ args (.ok vs) σ₂) (hp : (procArity fv).isSome)
    (hap : AppliesProc σ₂ fv vs ρ r σ') : Evals σ ρ (.call f args l) r σ' := by
  obtain ⟨_, N₁, h₁⟩ := hf.out; obtain ⟨_, N₂, h₂⟩ := ha.out; obtain ⟨hr, N₃, h₃⟩ := hap.out
  exact Stable.of_succ hr (max N₁ (max N₂ N₃)) fun n hn => by
    show evalExpr (n+1) _ _ _ = _
    rw [evalExpr, h₁ n (by omega)]; simp only; rw [h₂ n (by omega)]; simp only
    obtain ⟨a, ha⟩ := Option.isSome_iff_exists.mp hp
    simp only [ha]; exact h₃ n (by omega)
theorem Evals.call_op_err {σ ρ f args l er σ₁} (hf : Evals σ ρ f (.error er) σ₁) :
    Evals σ ρ (.call f args l) (.error er) σ₁ := by
  obtain ⟨hr, N, h⟩ := hf.out
  exact Stable.of_succ hr N fun n hn => by show evalExpr (n+1) _ _ _ = _; rw [evalExpr, h n hn]
theorem Evals.call_arg_err {σ ρ f args l fv σ₁ er σ₂} (hf : Evals σ ρ f (.ok fv) σ₁)
    (ha : EvalsArgs σ₁ ρ args (.error er) σ₂) (hp : (procArity fv).isSome) :
    Evals σ ρ (.call f args l) (.error er) σ₂ := by
  obtain ⟨_, N₁, h₁⟩ := hf.out; obtain ⟨hr, N₂, h₂⟩ := ha.out
  exact Stable.of_succ hr.cast (max N₁ N₂) fun n hn => by
    show evalExpr (n+1) _ _ _ = _
    rw [evalExpr, h₁ n (by omega)]; simp only; rw [h₂ n (by omega)]; simp only
    obtain ⟨a, ha⟩ := Option.isSome_iff_exists.mp hp
    simp only [ha]
/-- a non-procedure operator is reported after the operands have been evaluated, whatever they gave -/
theorem Evals.call_nonproc {σ ρ f args l fv σ₁ ra σ₂} (hf : Evals σ ρ f (.ok fv) σ₁)
    (ha : EvalsArgs σ₁ ρ args ra σ₂) (hp : procArity fv = none) :
    Evals σ ρ (.call f args l) (.error (.nonProcedure, f.loc)) σ₂ := by
  obtain ⟨_, N₁, h₁⟩ := hf.out; obtain ⟨hr, N₂, h₂⟩ := ha.out
  exact Stable.of_succ (.error_of (by simp)) (max N₁ N₂) fun n hn => by
    show evalExpr (n+1) _ _ _ = _
    rw [evalExpr, h₁ n (by omega)]; simp only; rw [h₂ n (by omega)]; simp only [hp]
    split
    · simp [NotFuel, isFuel] at hr
    · rfl

theorem EvalsArgs.nil {σ ρ} : EvalsArgs σ ρ [] (.ok []) σ :=
  Stable.of_succ (by simp) 0 fun n _ => by show evalArgs (n+1) _ _ _ = _; rw [evalArgs]
theorem EvalsArgs.cons {σ ρ a as v σ₁ vs σ'} (h : Evals σ ρ a (.ok v) σ₁) (ht : EvalsArgs σ₁ ρ as (.ok vs) σ') :
    EvalsArgs σ ρ (a :: as) (.ok (v :: vs)) σ' := by
  obtain ⟨_, N₁, h₁⟩ := h.out; obtain ⟨_, N₂, h₂⟩ := ht.out
  exact Stable.of_succ (by simp) (max N₁ N₂) fun n hn => by
    show evalArgs (n+1) _ _ _ = _
    rw [evalArgs, h₁ n (by omega)]; simp only; rw [h₂ n (by omega)]
theorem EvalsArgs.cons_err {σ ρ a as er σ₁} (h : Evals σ ρ a (.error er) σ₁) :
    EvalsArgs σ ρ (a :: as) (.error er) σ₁ := by
  obtain ⟨hr, N₁, h₁⟩ := h.out
  exact Stable.of_succ hr.cast N₁ fun n hn => by
    show evalArgs (n+1) _ _ _ = _
    rw [evalArgs, h₁ n (by omega)]
theorem EvalsArgs.cons_tail_err {σ ρ a as v σ₁ er σ'} (h : Evals σ ρ a (.ok v) σ₁)
    (ht : EvalsArgs σ₁ ρ as (.error er) σ') : EvalsArgs σ ρ (a :: as) (.error er) σ' := by
  obtain ⟨_, N₁, h₁⟩ := h.out; obtain ⟨hr, N₂, h₂⟩ := ht.out
  exact Stable.of_succ hr (max N₁ N₂) fun n hn => by
    show evalArgs (n+1) _ _ _ = _
    rw [evalArgs, h₁ n (by omega)]; simp only; rw [h₂ n (by omega)]

/-- an activation is the loop run one level deeper -/
theorem AppliesProc.of_loop {σ p args env r σ₁} (h : Applies (enter σ) p args env r σ₁) :
    AppliesProc σ p args env r (leave σ₁) := by
  obtain ⟨hr, N, h⟩ := h.out
  exact Stable.of_succ hr N fun n hn => by show applyProcedure (n+1) _ _ _ _ = _; rw [applyProcedure, h n hn]


/-! ### the trampoline loop -/

theorem Applies.not_proc {σ p args env} (hp : procArity p = none) :
    Applies σ p args env (.error (.panic "apply_procedure: not a procedure", none)) σ :=
  Stable.of_succ (.error_of (by simp)) 0 fun n _ => by
    show applyLoop (n+1) _ _ _ _ = _
    unfold applyLoop; simp only [hp]
/-- the arity test is made at the head of every iteration -/
theorem Applies.arity_err {σ p args env fixed variadic} (hp : procArity p = some (fixed, variadic))
    (ha : arityOk fixed variadic args.length = false) : Applies σ p args env (.error (.arity, none)) σ :=
  Stable.of_succ (.error_of (by simp)) 0 fun n _ => by
    show applyLoop (n+1) _ _ _ _ = _
    unfold applyLoop; simp only [hp, ha]; simp
/-- a native procedure other than `apply` returns -/
theorem Applies.builtin {σ b args env r σ'} (hb : b ≠ .apply)
    (ha : arityOk b.arity.1 b.arity.2 args.length = true) (h : applyPure σ b args = (r, σ')) (hr : NotFuel r) :
    Applies σ (.builtin b) args env r σ' :=
  Stable.of_succ hr 0 fun n _ => by
    show applyLoop (n+1) _ _ _ _ = _
    rw [applyLoop]
    · simp only [procArity, ha]; simpa using h
    · exact fun h => hb h
/-- `apply`: the loop continues with the applied procedure and the spread arguments -/
theorem Applies.apply {σ args env f args' r σ'} (ha : 1 ≤ args.length) (hs : spreadApply args = .ok (f, args'))
    (h : Applies σ f args' env r σ') : Applies σ (.builtin .apply) args env r σ' := by
  obtain ⟨hr, N, h⟩ := h.out
  exact Stable.of_succ hr N fun n hn => by
    show applyLoop (n+1) _ _ _ _ = _
    rw [applyLoop]
    have : arityOk 1 true args.length = true := by
      have : ¬ args.length < 1 := by omega
      simp [arityOk, this]
    simp only [procArity, Builtin.arity, this, hs]; simpa using h n hn
theorem Applies.apply_err {σ args env er} (ha : 1 ≤ args.length) (hs : spreadApply args = .error er)
    (hne : er ≠ .fuel) : Applies σ (.builtin .apply) args env (.error (er, none)) σ :=
  Stable.of_succ (.error_of hne) 0 fun n _ => by
    show applyLoop (n+1) _ _ _ _ = _
    rw [applyLoop]
    have : arityOk 1 true args.length = true := by
      have : ¬ args.length < 1 := by omega
      simp [arityOk, this]
    simp only [procArity, Builtin.arity, this, hs]; simp

section closure
variable {σ : Store} {lam : Lambda} {cenv : Nat} {args : List Value} {env : Nat}

theorem Applies.closure_err {er σ₁}
    (ha : arityOk lam.formals.fixed.length lam.formals.rest.isSome args.length = true)
    (hs : AppliesScheme σ lam cenv args (.error er) σ₁) : Applies σ (.closure lam cenv) args env (.error er) σ₁ := by
  obtain ⟨hr, N, h⟩ := hs.out
  exact Stable.of_succ hr.cast N fun n hn => by
    show applyLoop (n+1) _ _ _ _ = _
    rw [applyLoop]; simp only [procArity, ha, h n hn]; simp
/-- the body's last expression was not a call: the loop returns its value -/
theorem Applies.closure_value {v σ₁}
    (ha : arityOk lam.formals.fixed.length lam.formals.rest.isSome args.length = true)
    (hs : AppliesScheme σ lam cenv args (.ok (.value v)) σ₁) : Applies σ (.closure lam cenv) args env (.ok v) σ₁ := by
  obtain ⟨_, N, h⟩ := hs.out
  exact Stable.of_succ (by simp) N fun n hn => by
    show applyLoop (n+1) _ _ _ _ = _
    rw [applyLoop]; simp only [procArity, ha, h n hn]; simp
/-- a pending tail call: operator, operands, procedure test, and the loop continues (same activation) -/
theorem Applies.closure_tail {f targs tenv σ₁ fv σ₂ vs σ₃ r σ'}
    (ha : arityOk lam.formals.fixed.length lam.formals.rest.isSome args.length = true)
    (hs : AppliesScheme σ lam cenv args (.ok (.tailCall f targs tenv)) σ₁)
    (hf : Evals σ₁ tenv f (.ok fv) σ₂) (hargs : EvalsArgs σ₂ tenv targs (.ok vs) σ₃)
    (hp : (procArity fv).isSome) (hl : Applies σ₃ fv vs env r σ') :
    Applies σ (.closure lam cenv) args env r σ' := by
  obtain ⟨_, N₁, h₁⟩ := hs.out; obtain ⟨_, N₂, h₂⟩ := hf.out; obtain ⟨_, N₃, h₃⟩ := hargs.out
  obtain ⟨hr, N₄, h₄⟩ := hl.out
  exact Stable.of_succ hr (max (max N₁ N₂) (max N₃ N₄)) fun n hn => by
    show applyLoop (n+1) _ _ _ _ = _
    obtain ⟨a, hpa⟩ := Option.isSome_iff_exists.mp hp
    rw [applyLoop]; simp only [procArity, ha, h₁ n (by omega), h₂ n (by omega), h₃ n (by omega)]
    simp only [procArity] at hpa
    simp [hpa, h₄ n (by omega)]
theorem Applies.closure_tail_op_err {f targs tenv σ₁ er σ₂}
    (ha : arityOk lam.formals.fixed.length lam.formals.rest.isSome args.length = true)
    (hs : AppliesScheme σ lam cenv args (.ok (.tailCall f targs tenv)) σ₁)
    (hf : Evals σ₁ tenv f (.error er) σ₂) : Applies σ (.closure lam cenv) args env (.error er) σ₂ := by
  obtain ⟨_, N₁, h₁⟩ := hs.out; obtain ⟨hr, N₂, h₂⟩ := hf.out
  exact Stable.of_succ hr (max N₁ N₂) fun n hn => by
    show applyLoop (n+1) _ _ _ _ = _
    rw [applyLoop]; simp only [procArity, ha, h₁ n (by omega), h₂ n (by omega)]; simp
/-- in the trampoline an operand error is reported whatever the operator evaluated to -/
theorem Applies.closure_tail_arg_err {f targs tenv σ₁ fv σ₂ er σ₃}
    (ha : arityOk lam.formals.fixed.length lam.formals.rest.isSome args.length = true)
    (hs : AppliesScheme σ lam cenv args (.ok (.tailCall f targs tenv)) σ₁)
    (hf : Evals σ₁ tenv f (.ok fv) σ₂) (hargs : EvalsArgs σ₂ tenv targs (.error er) σ₃) :
    Applies σ (.closure lam cenv) args env (.error er) σ₃ := by
  obtain ⟨_, N₁, h₁⟩ := hs.out; obtain ⟨_, N₂, h₂⟩ := hf.out; obtain ⟨hr, N₃, h₃⟩ := hargs.out
  exact Stable.of_succ hr.cast (max (max N₁ N₂) N₃) fun n hn => by
    show applyLoop (n+1) _ _ _ _ = _
    rw [applyLoop]; simp only [procArity, ha, h₁ n (by omega), h₂ n (by omega), h₃ n (by omega)]; simp
theorem Applies.closure_tail_nonproc {f targs tenv σ₁ fv σ₂ vs σ₃}
    (ha : arityOk lam.formals.fixed.length lam.formals.rest.isSome args.length = true)
    (hs : AppliesScheme σ lam cenv args (.ok (.tailCall f targs tenv)) σ₁)
    (hf : Evals σ₁ tenv f (.ok fv) σ₂) (hargs : EvalsArgs σ₂ tenv targs (.ok vs) σ₃)
    (hp : procArity fv = none) : Applies σ (.closure lam cenv) args env (.error (.nonProcedure, none)) σ₃ := by
  obtain ⟨_, N₁, h₁⟩ := hs.out; obtain ⟨_, N₂, h₂⟩ := hf.out; obtain ⟨_, N₃, h₃⟩ := hargs.out
  exact Stable.of_succ (.error_of (by simp)) (max (max N₁ N₂) N₃) fun n hn => by
    show applyLoop (n+1) _ _ _ _ = _
    rw [applyLoop]; simp only [procArity, ha, h₁ n (by omega), h₂ n (by omega), h₃ n (by omega)]
    simp only [procArity] at hp
    simp [hp]
end closure

/-! ### procedure bodies -/

/-- the store after binding the rest parameter (if any) to the list of remaining arguments -/
def bindRest (σ : Store) (ρ : Nat) (rest : Option String) (restArgs : List Value) : Store :=
  match rest with
  | some r => σ.define ρ r (Value.ofList restArgs)
  | none => σ

/-- one unfolding of `applyScheme`, with the rest-parameter step named -/
theorem applyScheme_succ (n : Nat) (σ : Store) (lam : Lambda) (cenv : Nat) (args : List Value) :
    applyScheme (n+1) σ lam cenv args =
      match bindFixed (σ.newFrame (some cenv)).2 (σ.newFrame (some cenv)).1 lam.formals.fixed args with
      | (.error er, σ₁) => (.error (er, none), σ₁)
      | (.ok restArgs, σ₁) =>
        match evalDefs n (bindRest σ₁ (σ.newFrame (some cenv)).1 lam.formals.rest restArgs)
            (σ.newFrame (some cenv)).1 lam.defs with
        | (.error er, σ₂) => (.error er, σ₂)
        | (.ok (), σ₂) => evalBody n σ₂ (σ.newFrame (some cenv)).1 lam.body := by
  rw [applyScheme]; simp only [bindRest]
  generalize bindFixed _ _ _ _ = x
  obtain ⟨r, σ₁⟩ := x
  cases r with
  | error e => rfl
  | ok ra =>
    simp only
    generalize lam.formals.rest = rest
    cases rest <;> rfl

/-- `apply_scheme_procedure`: new frame under the closure's frame, parameters, definitions, body -/
theorem AppliesScheme.intro_ok {σ lam cenv args restArgs σ₁ σ₂ r σ'}
    (hb : bindFixed (σ.newFrame (some cenv)).2 (σ.newFrame (some cenv)).1 lam.formals.fixed args = (.ok restArgs, σ₁))
    (hd : EvalsDefs (bindRest σ₁ (σ.newFrame (some cenv)).1 lam.formals.rest restArgs)
            (σ.newFrame (some cenv)).1 lam.defs (.ok ()) σ₂)
    (hbody : EvalsBody σ₂ (σ.newFrame (some cenv)).1 lam.body r σ') : AppliesScheme σ lam cenv args r σ' := by
  obtain ⟨_, N₁, h₁⟩ := hd.out; obtain ⟨hr, N₂, h₂⟩ := hbody.out
  exact Stable.of_succ hr (max N₁ N₂) fun n hn => by
    show applyScheme (n+1) _ _ _ _ = _
    rw [applyScheme_succ]; simp only [hb, h₁ n (by omega)]; exact h₂ n (by omega)
theorem AppliesScheme.defs_err {σ lam cenv args restArgs σ₁ er σ₂}
    (hb : bindFixed (σ.newFrame (some cenv)).2 (σ.newFrame (some cenv)).1 lam.formals.fixed args = (.ok restArgs, σ₁))
    (hd : EvalsDefs (bindRest σ₁ (σ.newFrame (some cenv)).1 lam.formals.rest restArgs)
            (σ.newFrame (some cenv)).1 lam.defs (.error er) σ₂) :
    AppliesScheme σ lam cenv args (.error er) σ₂ := by
  obtain ⟨hr, N₁, h₁⟩ := hd.out
  exact Stable.of_succ hr.cast N₁ fun n hn => by
    show applyScheme (n+1) _ _ _ _ = _
    rw [applyScheme_succ]; simp only [hb, h₁ n (by omega)]

theorem EvalsDefs.nil {σ ρ} : EvalsDefs σ ρ [] (.ok ()) σ :=
  Stable.of_succ (by simp) 0 fun n _ => by show evalDefs (n+1) _ _ _ = _; rw [evalDefs]
/-- a definition is evaluated in the frame and bound there before the next one -/
theorem EvalsDefs.cons {σ ρ x e l ds v σ₁ r σ'} (h : Evals σ ρ e (.ok v) σ₁)
    (ht : EvalsDefs (σ₁.define ρ x v) ρ ds r σ') : EvalsDefs σ ρ (.mk x e l :: ds) r σ' := by
  obtain ⟨_, N₁, h₁⟩ := h.out; obtain ⟨hr, N₂, h₂⟩ := ht.out
  exact Stable.of_succ hr (max N₁ N₂) fun n hn => by
    show evalDefs (n+1) _ _ _ = _
    rw [evalDefs, h₁ n (by omega)]; exact h₂ n (by omega)
theorem EvalsDefs.cons_err {σ ρ x e l ds er σ₁} (h : Evals σ ρ e (.error er) σ₁) :
    EvalsDefs σ ρ (.mk x e l :: ds) (.error er) σ₁ := by
  obtain ⟨hr, N₁, h₁⟩ := h.out
  exact Stable.of_succ hr.cast N₁ fun n hn => by
    show evalDefs (n+1) _ _ _ = _
    rw [evalDefs, h₁ n (by omega)]

theorem EvalsBody.last {σ ρ e r σ'} (h : EvalsTail σ ρ e r σ') : EvalsBody σ ρ [e] r σ' := by
  obtain ⟨hr, N, h⟩ := h.out
  exact Stable.of_succ hr N fun n hn => by show evalBody (n+1) _ _ _ = _; rw [evalBody]; exact h n hn
theorem EvalsBody.cons {σ ρ e e' es v σ₁ r σ'} (h : Evals σ ρ e (.ok v) σ₁) (ht : EvalsBody σ₁ ρ (e' :: es) r σ') :
    EvalsBody σ ρ (e :: e' :: es) r σ' := by
  obtain ⟨_, N₁, h₁⟩ := h.out; obtain ⟨hr, N₂, h₂⟩ := ht.out
  exact Stable.of_succ hr (max N₁ N₂) fun n hn => by
    show evalBody (n+1) _ _ _ = _
    rw [evalBody]
    · rw [h₁ n (by omega)]; exact h₂ n (by omega)
    · simp
theorem EvalsBody.cons_err {σ ρ e e' es er σ₁} (h : Evals σ ρ e (.error er) σ₁) :
    EvalsBody σ ρ (e :: e' :: es) (.error er) σ₁ := by
  obtain ⟨hr, N₁, h₁⟩ := h.out
  exact Stable.of_succ hr.cast N₁ fun n hn => by
    show evalBody (n+1) _ _ _ = _
    rw [evalBody]
    · rw [h₁ n (by omega)]
    · simp

/-- a call in tail position is handed back unevaluated -/
theorem EvalsTail.call {σ ρ f args l} : EvalsTail σ ρ (.call f args l) (.ok (.tailCall f args ρ)) σ :=
  Stable.of_succ (by simp) 0 fun n _ => by show evalTail (n+1) _ _ _ = _; rw [evalTail]
theorem EvalsTail.cond_err {σ ρ t c a l er σ₁} (ht : Evals σ ρ t (.error er) σ₁) :
    EvalsTail σ ρ (.cond t c a l) (.error er) σ₁ := by
  obtain ⟨hr, N, h⟩ := ht.out
  exact Stable.of_succ hr.cast N fun n hn => by show evalTail (n+1) _ _ _ = _; rw [evalTail, h n hn]
theorem EvalsTail.cond_true {σ ρ t c a l tv σ₁ r σ'} (ht : Evals σ ρ t (.ok tv) σ₁) (htv : tv.truthy = true)
    (hc : EvalsTail σ₁ ρ c r σ') : EvalsTail σ ρ (.cond t c a l) r σ' := by
  obtain ⟨_, N₁, h₁⟩ := ht.out; obtain ⟨hr, N₂, h₂⟩ := hc.out
  exact Stable.of_succ hr (max N₁ N₂) fun n hn => by
    show evalTail (n+1) _ _ _ = _
    rw [evalTail, h₁ n (by omega)]; simp only [htv, if_true]; exact h₂ n (by omega)
theorem EvalsTail.cond_false {σ ρ t c alt l tv σ₁ r σ'} (ht : Evals σ ρ t (.ok tv) σ₁) (htv : tv.truthy = false)
    (hc : EvalsTail σ₁ ρ alt r σ') : EvalsTail σ ρ (.cond t c (some alt) l) r σ' := by
  obtain ⟨_, N₁, h₁⟩ := ht.out; obtain ⟨hr, N₂, h₂⟩ := hc.out
  exact Stable.of_succ hr (max N₁ N₂) fun n hn => by
    show evalTail (n+1) _ _ _ = _
    rw [evalTail, h₁ n (by omega)]; simp only [htv]; exact h₂ n (by omega)
theorem EvalsTail.cond_void {σ ρ t c l tv σ₁} (ht : Evals σ ρ t (.ok tv) σ₁) (htv : tv.truthy = false) :
    EvalsTail σ ρ (.cond t c none l) (.ok (.value .void)) σ₁ := by
  obtain ⟨_, N₁, h₁⟩ := ht.out
  exact Stable.of_succ (by simp) N₁ fun n hn => by
    show evalTail (n+1) _ _ _ = _
    rw [evalTail, h₁ n (by omega)]; simp [htv]
/-- anything that is neither a call nor an `if` is evaluated -/
theorem EvalsTail.other {σ ρ e v σ'} (hcall : ∀ f as l, e ≠ .call f as l) (hcond : ∀ t c a l, e ≠ .cond t c a l)
    (h : Evals σ ρ e (.ok v) σ') : EvalsTail σ ρ e (.ok (.value v)) σ' := by
  obtain ⟨_, N₁, h₁⟩ := h.out
  exact Stable.of_succ (by simp) N₁ fun n hn => by
    show evalTail (n+1) _ _ _ = _
    unfold evalTail
    split
    · exact absurd rfl (hcall _ _ _)
    · exact absurd rfl (hcond _ _ _ _)
    · rw [h₁ n hn]
theorem EvalsTail.other_err {σ ρ e er σ'} (hcall : ∀ f as l, e ≠ .call f as l) (hcond : ∀ t c a l, e ≠ .cond t c a l)
    (h : Evals σ ρ e (.error er) σ') : EvalsTail σ ρ e (.error er) σ' := by
  obtain ⟨hr, N₁, h₁⟩ := h.out
  exact Stable.of_succ hr.cast N₁ fun n hn => by
    show evalTail (n+1) _ _ _ = _
    unfold evalTail
    split
    · exact absurd rfl (hcall _ _ _)
    · exact absurd rfl (hcond _ _ _ _)
    · rw [h₁ n hn]


/-! ## Inversion: what a settled run of a compound form consists of -/

theorem Evals.cond_inv {σ ρ t c a l r σ'} (h : Evals σ ρ (.cond t c a l) r σ') :
    (∃ er, Evals σ ρ t (.error er) σ' ∧ r = .error er) ∨
    (∃ tv σ₁, Evals σ ρ t (.ok tv) σ₁ ∧
      ((tv.truthy = true ∧ Evals σ₁ ρ c r σ') ∨
       (tv.truthy = false ∧ ∃ alt, a = some alt ∧ Evals σ₁ ρ alt r σ') ∨
       (tv.truthy = false ∧ a = none ∧ r = .ok .void ∧ σ' = σ₁))) := by
  obtain ⟨hr, N, hN⟩ := h.out
  clear h
  have h := hN (N+1) (by omega)
  clear hN
  rw [evalExpr] at h
  split at h
  next er σ₁ heq => cases h; exact .inl ⟨er, Evals.intro heq hr, rfl⟩
  next tv σ₁ heq =>
    refine .inr ⟨tv, σ₁, Evals.intro heq (by simp), ?_⟩
    split at h
    next htv => exact .inl ⟨htv, Evals.intro h hr⟩
    next htv =>
      have htv : tv.truthy = false := by simpa using htv
      split at h
      next alt => exact .inr (.inl ⟨htv, alt, rfl, Evals.intro h hr⟩)
      next => cases h; exact .inr (.inr ⟨htv, rfl, rfl, rfl⟩)

theorem Evals.call_inv {σ ρ f args l r σ'} (h : Evals σ ρ (.call f args l) r σ') :
    (∃ er, Evals σ ρ f (.error er) σ' ∧ r = .error er) ∨
    (∃ fv σ₁ ra σ₂, Evals σ ρ f (.ok fv) σ₁ ∧ EvalsArgs σ₁ ρ args ra σ₂ ∧
      ((procArity fv = none ∧ r = .error (.nonProcedure, f.loc) ∧ σ' = σ₂) ∨
       ((procArity fv).isSome ∧ ∃ er, ra = .error er ∧ r = .error er ∧ σ' = σ₂) ∨
       ((procArity fv).isSome ∧ ∃ vs, ra = .ok vs ∧ AppliesProc σ₂ fv vs ρ r σ'))) := by
  obtain ⟨hr, N, hN⟩ := h.out
  clear h
  have h := hN (N+1) (by omega)
  clear hN
  rw [evalExpr] at h
  split at h
  next er σ₁ heq => cases h; exact .inl ⟨er, Evals.intro heq hr, rfl⟩
  next fv σ₁ heq =>
    split at h
    next ra σ₂ hargs =>
      refine .inr ⟨fv, σ₁, ra, σ₂, Evals.intro heq (by simp), ?_⟩
      split at h
      next a hpa =>
        split at h
        next er => cases h; exact ⟨EvalsArgs.intro hargs hr.cast, .inr (.inl ⟨by simp [hpa], er, rfl, rfl, rfl⟩)⟩
        next vs => exact ⟨EvalsArgs.intro hargs (by simp), .inr (.inr ⟨by simp [hpa], vs, rfl, AppliesProc.intro h hr⟩)⟩
      next hpa =>
        split at h
        next l => cases h; simp at hr
        next hnf =>
          cases h
          refine ⟨EvalsArgs.intro hargs ?_, .inl ⟨hpa, rfl, rfl⟩⟩
          cases ra with
          | ok _ => simp
          | error e =>
            obtain ⟨e, l⟩ := e
            by_cases he : e = .fuel
            · subst he; exact absurd rfl (hnf l)
            · exact .error_of he

theorem EvalsArgs.nil_inv {σ ρ r σ'} (h : EvalsArgs σ ρ [] r σ') : r = .ok [] ∧ σ' = σ := by
  obtain ⟨_, N, hN⟩ := h.out
  clear h
  have h := hN (N+1) (by omega)
  clear hN
  rw [evalArgs] at h; cases h; exact ⟨rfl, rfl⟩

theorem EvalsArgs.cons_inv {σ ρ a as r σ'} (h : EvalsArgs σ ρ (a :: as) r σ') :
    (∃ er, Evals σ ρ a (.error er) σ' ∧ r = .error er) ∨
    (∃ v σ₁, Evals σ ρ a (.ok v) σ₁ ∧
      ((∃ er, EvalsArgs σ₁ ρ as (.error er) σ' ∧ r = .error er) ∨
       (∃ vs, EvalsArgs σ₁ ρ as (.ok vs) σ' ∧ r = .ok (v :: vs)))) := by
  obtain ⟨hr, N, hN⟩ := h.out
  clear h
  have h := hN (N+1) (by omega)
  clear hN
  rw [evalArgs] at h
  split at h
  next er σ₁ heq => cases h; exact .inl ⟨er, Evals.intro heq hr.cast, rfl⟩
  next v σ₁ heq =>
    refine .inr ⟨v, σ₁, Evals.intro heq (by simp), ?_⟩
    split at h
    next er σ₂ heq2 => cases h; exact .inl ⟨er, EvalsArgs.intro heq2 hr, rfl⟩
    next vs σ₂ heq2 => cases h; exact .inr ⟨vs, EvalsArgs.intro heq2 (by simp), rfl⟩

/-- `evalArgs` is the left-to-right `mapM` of `Evals` -/
theorem evalsArgs_iff_mapEvals {σ ρ es r σ'} : EvalsArgs σ ρ es r σ' ↔ Ref.MapEvals (fun σ e r σ' => Evals σ ρ e r σ') σ es r σ' := by
  induction es generalizing σ r σ' with
  | nil =>
    simp only [Ref.MapEvals]
    exact ⟨fun h => h.nil_inv, fun ⟨h₁, h₂⟩ => h₁ ▸ h₂ ▸ EvalsArgs.nil⟩
  | cons a as ih =>
    simp only [Ref.MapEvals]
    constructor
    · intro h
      rcases h.cons_inv with ⟨er, h₁, rfl⟩ | ⟨v, σ₁, h₁, ⟨er, h₂, rfl⟩ | ⟨vs, h₂, rfl⟩⟩
      · exact .inl ⟨er, h₁, rfl⟩
      · exact .inr ⟨v, σ₁, h₁, .inl ⟨er, ih.mp h₂, rfl⟩⟩
      · exact .inr ⟨v, σ₁, h₁, .inr ⟨vs, ih.mp h₂, rfl⟩⟩
    · rintro (⟨er, h₁, rfl⟩ | ⟨v, σ₁, h₁, ⟨er, h₂, rfl⟩ | ⟨vs, h₂, rfl⟩⟩)
      · exact .cons_err h₁
      · exact .cons_tail_err h₁ (ih.mpr h₂)
      · exact .cons h₁ (ih.mpr h₂)

/-- with enough fuel for the whole list, `evalArgs` is literally `mapEval` of `evalExpr` at that fuel -/
theorem evalArgs_eq_mapEval {n σ ρ es r σ'} (h : evalArgs n σ ρ es = (r, σ')) (hr : NotFuel r) :
    Ref.mapEval (fun σ e => evalExpr n σ ρ e) σ es = (r, σ') := by
  induction es generalizing n σ r σ' with
  | nil =>
    cases n with
    | zero => rw [evalArgs] at h; cases h; simp at hr
    | succ n => rw [evalArgs] at h; exact h
  | cons a as ih =>
    cases n with
    | zero => rw [evalArgs] at h; cases h; simp at hr
    | succ n =>
      rw [evalArgs] at h
      simp only [Ref.mapEval]
      split at h
      next er σ₁ heq => cases h; rw [evalExpr_mono_le heq hr.cast (Nat.le_succ n)]
      next v σ₁ heq =>
        rw [evalExpr_mono_le heq (by simp) (Nat.le_succ n)]; simp only
        split at h
        next er σ₂ heq2 =>
          cases h
          rw [ih (evalArgs_mono_le heq2 hr (Nat.le_succ n)) hr]
        next vs σ₂ heq2 =>
          cases h
          rw [ih (evalArgs_mono_le heq2 (by simp) (Nat.le_succ n)) (by simp)]

/-! ## Variable lookup and the parent chain -/

theorem lookupAux_eq_chainAux {σ : Store} (h : Ref.ParentsOlder σ) (x : String) :
    ∀ k₁ k₂ ρ, ρ < k₁ → ρ < k₂ →
      σ.lookupAux k₁ ρ x = (Ref.chainAux σ k₂ ρ).findSome? (Ref.frameBinding σ x) := by
  intro k₁
  induction k₁ with
  | zero => intro k₂ ρ h1; omega
  | succ k₁ ih =>
    intro k₂ ρ h1 h2
    obtain ⟨k₂, rfl⟩ : ∃ m, k₂ = m + 1 := ⟨k₂ - 1, by omega⟩
    rw [Store.lookupAux, Ref.chainAux]
    cases hf : σ.frames[ρ]? with
    | none => simp
    | some f =>
      simp only [List.findSome?_cons, Ref.frameBinding, hf, Option.bind_some]
      cases hx : f.defs.lookup x with
      | some v => simp
      | none =>
        simp only
        cases hp : f.parent with
        | none => simp
        | some p =>
          have hlt := h ρ f p hf hp
          simp only [hlt, if_true]
          exact ih k₂ p (by omega) (by omega)

theorem lookup_eq_chain {σ : Store} (h : Ref.ParentsOlder σ) (ρ : Nat) (x : String) :
    σ.lookup ρ x = (Ref.chain σ ρ).findSome? (Ref.frameBinding σ x) := by
  unfold Store.lookup Ref.chain
  by_cases hρ : ρ < σ.frames.size
  · exact lookupAux_eq_chainAux h x _ _ ρ (by omega) hρ
  · have : σ.frames[ρ]? = none := by simp; omega
    rw [Store.lookupAux]; simp only [this]
    cases hs : σ.frames.size with
    | zero => simp [Ref.chainAux]
    | succ k => simp [Ref.chainAux, this]


theorem parentsOlder_empty : Ref.ParentsOlder {} := by
  intro i f p h; simp at h

theorem parentsOlder_newFrame {σ : Store} (h : Ref.ParentsOlder σ) {parent : Option Nat}
    (hp : ∀ p, parent = some p → p < σ.frames.size) : Ref.ParentsOlder (σ.newFrame parent).2 := by
  intro i f p hf hfp
  simp only [Store.newFrame] at hf
  rw [Array.getElem?_push] at hf
  split at hf
  next hi' => cases hf; exact hi' ▸ hp p hfp
  next hi' => exact h i f p hf hfp

theorem parentsOlder_define {σ : Store} (h : Ref.ParentsOlder σ) (ρ : Nat) (k : String) (v : Value) :
    Ref.ParentsOlder (σ.define ρ k v) := by
  intro i f p hf hfp
  unfold Store.define at hf
  split at hf
  next hρ =>
    simp only [Array.getElem?_modify] at hf
    split at hf
    next hi =>
      cases hg : σ.frames[i]? with
      | none => simp [hg] at hf
      | some g =>
        simp only [hg, Option.map_some, Option.some.injEq] at hf
        subst hf
        exact h i g p hg hfp
    next => exact h i f p hf hfp
  next => exact h i f p hf hfp

end Ruschm.Eval

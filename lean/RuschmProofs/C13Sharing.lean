/-
Property C13, what two DIFFERENT libraries — and a library and its importers — do and do not share
in the MODEL (`Interp.evalLibraryDef` / `getLibrary` / `evalImport` / `evalImportSet`; Rust:
`eval_library_definition`, `get_library`, `eval_import` in `src/interpreter/interpreter.rs`).

1. `library_frames_disjoint` (+ `library_frames_disjoint_nested`) — the frames of two instantiated
   libraries are different fresh roots, neither on the other's chain, whatever their import
   declarations are: equal import declarations give SEPARATE copies of the imported bindings;
2. `assignment_to_imported_name_is_local` — a `set!` on a name library L1 imported changes the
   binding in L1's frame only;
3. `imported_binding_is_a_copy` — importing copies the VALUE the export table holds (the value the
   exporting library's frame had when its body FINISHED, not even the value at import time); a later
   `set!` inside the exporting library is not seen through the importer's binding;
   `exported_closure_sees_library_state` — an exported closure still reads and shares the
   library's own frame;
4. `nested_import_single_instance` — a diamond: the library both sides import is instantiated
   once, the second import evaluates nothing, both sides get the same values (closures over the
   same frame).

Helpers: `RuschmProofs/LibSharingLemmas.lean` (`Lib.IsRoot`, `Lib.set_resolved`, `Lib.chain_child`, …).
-/
import RuschmProofs.LibSharingLemmas
import RuschmProofs.C13More
import RuschmProofs.C03

namespace Ruschm.C13Sharing
open Ruschm Ruschm.Interp

/-! ## vocabulary for the examples -/

def int (n : Int) : Expr := .prim (.int n) none
def defn (x : String) (e : Expr) : Statement := .definition (.mk x e none)
/-- `(lambda () x)` -/
def getter (x : String) : Lambda := .mk ⟨[], none⟩ [] [.sym x none]
/-- `(lambda () (set! x v))` -/
def setter (x : String) (v : Int) : Lambda := .mk ⟨[], none⟩ [] [.assign x (int v) none]

/-- a native library `(m)` exporting `a ↦ 1` -/
def libM : LibName := [.ident "m"]
/-- an interpreter with a global frame (frame 0) and the native library `(m)` -/
def stM : State := { store := Store.root, factories := [(libM, .native [("a", .num (.int 1))])] }

/-- `(import (m)) (begin (set! a 5))` -/
def declsL1 : List LibDecl := [.importDecl [.direct libM none], .begin_ [.expr (.assign "a" (int 5) none)]]
/-- `(import (m)) (export a)`: the SAME import declaration as `declsL1` -/
def declsL2 : List LibDecl := [.importDecl [.direct libM none], .export [.direct "a" none]]

/-! ## 1. the frames of two libraries -/

/-- two roots of one store, the first older -/
private theorem disjoint_core {σ : Store} {ρ₁ ρ₂ : Nat} (h₁ : Lib.IsRoot σ ρ₁) (h₂ : Lib.IsRoot σ ρ₂)
    (hlt : ρ₁ < ρ₂) :
    σ.parentOf ρ₁ = none ∧ σ.parentOf ρ₂ = none ∧
    σ.chain ρ₁ = [ρ₁] ∧ σ.chain ρ₂ = [ρ₂] ∧ ρ₁ ∉ σ.chain ρ₂ ∧ ρ₂ ∉ σ.chain ρ₁ ∧
    (∀ ρ', ρ' < ρ₁ → ρ₁ ∉ σ.chain ρ' ∧ ρ₂ ∉ σ.chain ρ') ∧
    (∀ k v x, (σ.define ρ₁ k v).lookup ρ₂ x = σ.lookup ρ₂ x ∧ (σ.set ρ₁ k v).2.lookup ρ₂ x = σ.lookup ρ₂ x ∧
      (σ.define ρ₂ k v).lookup ρ₁ x = σ.lookup ρ₁ x ∧ (σ.set ρ₂ k v).2.lookup ρ₁ x = σ.lookup ρ₁ x) := by
  have c₁ := h₁.chain
  have c₂ := h₂.chain
  have n12 : ρ₁ ∉ σ.chain ρ₂ := by rw [c₂]; simp; omega
  have n21 : ρ₂ ∉ σ.chain ρ₁ := by rw [c₁]; simp; omega
  refine ⟨h₁.2, h₂.2, c₁, c₂, n12, n21,
    fun ρ' h => ⟨Lib.not_mem_chain_of_lt h, Lib.not_mem_chain_of_lt (by omega)⟩, fun k v x => ?_⟩
  have a := C13.importer_redefinition_harmless σ ρ₁ ρ₂ k v
    (by intro i hi; rw [c₂] at hi; rw [c₁]; simp at hi ⊢; omega) x
  have b := C13.importer_redefinition_harmless σ ρ₂ ρ₁ k v
    (by intro i hi; rw [c₁] at hi; rw [c₂]; simp at hi ⊢; omega) x
  exact ⟨a.1, a.2, b.1, b.2⟩

/-- Two libraries instantiated one after the other. Library 1 (declarations `d₁`, ANY) is
instantiated on `st`: its frame is `ρ₁ = st.store.frames.size`. The interpreter goes on — any
evaluation whatever: `st₂` is any state whose store `Grows` from the result — and library 2
(declarations `d₂`, ANY, possibly `d₂ = d₁`, possibly the same import declarations) is
instantiated on `st₂`: its frame is `ρ₂ = st₂.store.frames.size`. Then in every later store `σ`:
both frames were fresh when allocated; they are different (`ρ₁ < ρ₂`); both are roots (no parent:
chain = the frame alone); neither is on the other's chain; neither is on the chain of a frame
older than library 1 (the importing program's frames). Consequently a `define` or `set!` executed
in one library's frame — on ANY name `k`, a name both libraries imported from the same third
library included — leaves EVERY lookup from the other library's frame unchanged: the two libraries
hold separate copies of the bindings they import. -/
theorem library_frames_disjoint (f₁ f₂ : Nat) (st st₂ : State) (d₁ d₂ : List LibDecl) (σ : Store)
    (h12 : Store.Grows (evalLibraryDef (f₁ + 1) st d₁).2.store st₂.store)
    (h2σ : Store.Grows (evalLibraryDef (f₂ + 1) st₂ d₂).2.store σ) :
    let ρ₁ := st.store.frames.size
    let ρ₂ := st₂.store.frames.size
    st.store.frames[ρ₁]? = none ∧ st₂.store.frames[ρ₂]? = none ∧
    ρ₁ < ρ₂ ∧ ρ₂ < σ.frames.size ∧
    σ.parentOf ρ₁ = none ∧ σ.parentOf ρ₂ = none ∧
    σ.chain ρ₁ = [ρ₁] ∧ σ.chain ρ₂ = [ρ₂] ∧ ρ₁ ∉ σ.chain ρ₂ ∧ ρ₂ ∉ σ.chain ρ₁ ∧
    (∀ ρ', ρ' < ρ₁ → ρ₁ ∉ σ.chain ρ' ∧ ρ₂ ∉ σ.chain ρ') ∧
    (∀ k v x, (σ.define ρ₁ k v).lookup ρ₂ x = σ.lookup ρ₂ x ∧ (σ.set ρ₁ k v).2.lookup ρ₂ x = σ.lookup ρ₂ x ∧
      (σ.define ρ₂ k v).lookup ρ₁ x = σ.lookup ρ₁ x ∧ (σ.set ρ₂ k v).2.lookup ρ₁ x = σ.lookup ρ₁ x) := by
  intro ρ₁ ρ₂
  have r₁ : Lib.IsRoot st₂.store ρ₁ := (Lib.libraryDef_root f₁ st d₁).grows h12
  have hlt : ρ₁ < ρ₂ := r₁.1
  have r₁σ : Lib.IsRoot σ ρ₁ := (r₁.grows (Lib.libraryDef_grows (f₂ + 1) st₂ d₂)).grows h2σ
  have r₂σ : Lib.IsRoot σ ρ₂ := (Lib.libraryDef_root f₂ st₂ d₂).grows h2σ
  exact ⟨by simp [ρ₁], by simp [ρ₂], hlt, r₂σ.1, disjoint_core r₁σ r₂σ hlt⟩

/-- The same when library 2 is instantiated WHILE library 1 is being instantiated (library 1, or
something it imports, imports library 2): `st₂` is any state reached after library 1's frame
`ρ₁` was allocated (`Grows` from the store with that fresh frame), `σ` any store after library 2's
instantiation — e.g. the one library 1's instantiation ends in. -/
theorem library_frames_disjoint_nested (f₂ : Nat) (st st₂ : State) (d₂ : List LibDecl) (σ : Store)
    (h12 : Store.Grows (st.store.newFrame none).2 st₂.store)
    (h2σ : Store.Grows (evalLibraryDef (f₂ + 1) st₂ d₂).2.store σ) :
    let ρ₁ := st.store.frames.size
    let ρ₂ := st₂.store.frames.size
    ρ₁ < ρ₂ ∧ ρ₂ < σ.frames.size ∧
    σ.parentOf ρ₁ = none ∧ σ.parentOf ρ₂ = none ∧
    σ.chain ρ₁ = [ρ₁] ∧ σ.chain ρ₂ = [ρ₂] ∧ ρ₁ ∉ σ.chain ρ₂ ∧ ρ₂ ∉ σ.chain ρ₁ ∧
    (∀ ρ', ρ' < ρ₁ → ρ₁ ∉ σ.chain ρ' ∧ ρ₂ ∉ σ.chain ρ') ∧
    (∀ k v x, (σ.define ρ₁ k v).lookup ρ₂ x = σ.lookup ρ₂ x ∧ (σ.set ρ₁ k v).2.lookup ρ₂ x = σ.lookup ρ₂ x ∧
      (σ.define ρ₂ k v).lookup ρ₁ x = σ.lookup ρ₁ x ∧ (σ.set ρ₂ k v).2.lookup ρ₁ x = σ.lookup ρ₁ x) := by
  intro ρ₁ ρ₂
  have r₀ : Lib.IsRoot (st.store.newFrame none).2 ρ₁ :=
    Lib.IsRoot.of_frame (f := { parent := none, defs := [] }) (by simp [ρ₁]) rfl
  have r₁ : Lib.IsRoot st₂.store ρ₁ := r₀.grows h12
  have hlt : ρ₁ < ρ₂ := r₁.1
  have r₁σ : Lib.IsRoot σ ρ₁ := (r₁.grows (Lib.libraryDef_grows (f₂ + 1) st₂ d₂)).grows h2σ
  have r₂σ : Lib.IsRoot σ ρ₂ := (Lib.libraryDef_root f₂ st₂ d₂).grows h2σ
  exact ⟨hlt, r₂σ.1, disjoint_core r₁σ r₂σ hlt⟩

/-- what instantiating `declsL1` on `stM` does: frame 1 binds `a ↦ 5` -/
private theorem run_L1 : (evalLibraryDef 9 stM declsL1).1 = .ok [] ∧
    (evalLibraryDef 9 stM declsL1).2.store.frames.size = 2 ∧
    (evalLibraryDef 9 stM declsL1).2.store.lookup 1 "a" = some (.num (.int 5)) := by
  refine ⟨?_, ?_, ?_⟩ <;>
  simp [evalLibraryDef, declsL1, stM, libM, int, evalLibDecls, evalImport, evalImportSets, evalImportSet,
    getLibrary, libLookup, libInsert, evalStatements, evalExprOrDef, Eval.evalExpr, Eval.evalPrim,
    Store.newFrame, Store.root, Store.define, Store.defsInsert, Store.lookup, Store.lookupAux, Store.set,
    Store.resolve, Store.resolveAux, assocInsert, List.lookup, bind, Except.bind, pure, Except.pure]

/-- Non-vacuity, with EQUAL import declarations `(import (m))`: library 1 imports `a` and executes
`(set! a 5)`; library 2, instantiated next with the same import declaration, exports `a` — still
`1`: it got its own copy. The frames are 1 and 2, both roots. -/
example : (evalLibraryDef 9 (evalLibraryDef 9 stM declsL1).2 declsL2).1 = .ok [("a", .num (.int 1))] ∧
    (evalLibraryDef 9 (evalLibraryDef 9 stM declsL1).2 declsL2).2.store.chain 1 = [1] ∧
    (evalLibraryDef 9 (evalLibraryDef 9 stM declsL1).2 declsL2).2.store.chain 2 = [2] := by
  have hd := library_frames_disjoint 8 8 stM (evalLibraryDef 9 stM declsL1).2 declsL1 declsL2 _
    (Store.Grows.refl _) (Store.Grows.refl _)
  simp only [run_L1.2.1] at hd
  refine ⟨?_, hd.2.2.2.2.2.2.1, hd.2.2.2.2.2.2.2.1⟩
  simp [evalLibraryDef, declsL1, declsL2, stM, libM, int, evalLibDecls, evalImport, evalImportSets, evalImportSet,
    getLibrary, libLookup, libInsert, evalStatements, evalExprOrDef, Eval.evalExpr, Eval.evalPrim,
    Store.newFrame, Store.root, Store.define, Store.defsInsert, Store.lookup, Store.lookupAux, Store.set,
    Store.resolve, Store.resolveAux, assocInsert, List.lookup, bind, Except.bind, pure, Except.pure]

/-- Non-vacuity of the nested form: library 1's frame (1) has just been allocated on `stM` when
library 2 (`declsL2`) is instantiated: its frame is 2, and afterwards 1 and 2 are separate roots. -/
example :
    let st₂ : State := { stM with store := (stM.store.newFrame none).2 }
    (evalLibraryDef 9 st₂ declsL2).2.store.chain 1 = [1] ∧ (evalLibraryDef 9 st₂ declsL2).2.store.chain 2 = [2] ∧
    1 ∉ (evalLibraryDef 9 st₂ declsL2).2.store.chain 2 := by
  intro st₂
  have hd := library_frames_disjoint_nested 8 stM st₂ declsL2 _ (Store.Grows.refl _) (Store.Grows.refl _)
  have h1 : stM.store.frames.size = 1 := by simp [stM, Store.root]
  have h2 : st₂.store.frames.size = 2 := by simp [st₂, stM, Store.root, Store.newFrame]
  simp only [h1, h2] at hd
  exact ⟨hd.2.2.2.2.1, hd.2.2.2.2.2.1, hd.2.2.2.2.2.2.1⟩

/-! ## 2. `set!` on an imported name -/

/-- Let an import declaration into frame `ρ₁` (library L1's frame: `evalLibDecls` evaluates
`(import …)` with `evalImport … ρ₁`) succeed. It evaluated the sets to a binding list `defs` and
`define`d those bindings IN FRAME `ρ₁` (`binding ρ₁ x` = the last binding of `x` in `defs`, other
names of `ρ₁` as before): the imported names are bindings OF L1's frame, holding copies of the
values. Hence for every imported name `x`, in every later store `σ`: `x` resolves from `ρ₁` to
`ρ₁` itself; and a `set! x` executed from any frame `ρ` that resolves `x` to `ρ₁` — L1's body
(`ρ = ρ₁`) or the call frame of any of L1's procedures that does not shadow `x`, called later from
anywhere — succeeds, writes to frame `ρ₁` (the store differs exactly in `ρ₁`'s binding of `x`;
the evaluator's `(set! x e)` does precisely this), is seen from `ρ₁` and from every frame sharing
that binding, and leaves EVERY lookup of EVERY name unchanged from every frame `ρ'` whose chain
does not contain `ρ₁`: every frame older than `ρ₁` (the importing program's frames), every other
parentless frame (the frame of any other library L2, of the exporting library itself — see
`library_frames_disjoint`), and every frame whose chain ends in another frame than the root `ρ₁`
(call frames of procedures of other libraries or of the program). -/
theorem assignment_to_imported_name_is_local {fuel : Nat} {st st' : State} {sets : List ImportSet} {ρ₁ : Nat}
    (himp : evalImport fuel st sets ρ₁ = (.ok (), st')) (hρ₁ : ρ₁ < st.store.frames.size) :
    ∃ defs st₀,
      (∃ k, fuel = k + 1 ∧ evalImportSets k st sets [] = (.ok defs, st₀)) ∧
      st' = { st₀ with store := defs.foldl (fun σ p => σ.define ρ₁ p.1 p.2) st₀.store } ∧
      (∀ x, st'.store.binding ρ₁ x = S.override (S.asMap defs) (st₀.store.binding ρ₁) x) ∧
      ∀ x ∈ defs.map Prod.fst, ∀ σ, Store.Grows st'.store σ →
        σ.resolve ρ₁ x = some ρ₁ ∧
        ∀ ρ v, σ.resolve ρ x = some ρ₁ →
          σ.set ρ x v = (true, σ.define ρ₁ x v) ∧
          Store.SameExceptBinding σ (σ.define ρ₁ x v) ρ₁ x ∧
          (σ.set ρ x v).2.lookup ρ₁ x = some v ∧
          (∀ ρc, σ.resolve ρc x = some ρ₁ → (σ.set ρ x v).2.lookup ρc x = some v) ∧
          (∀ ρ', ρ₁ ∉ σ.chain ρ' → ∀ y, (σ.set ρ x v).2.lookup ρ' y = σ.lookup ρ' y) ∧
          (∀ ρ', (ρ' < ρ₁ ∨ (ρ' ≠ ρ₁ ∧ σ.parentOf ρ' = none)) →
            ∀ y, (σ.set ρ x v).2.lookup ρ' y = σ.lookup ρ' y) ∧
          (∀ ρ' q, σ.parentOf ρ₁ = none → (σ.chain ρ').getLast? = some q → q ≠ ρ₁ →
            ∀ y, (σ.set ρ x v).2.lookup ρ' y = σ.lookup ρ' y) ∧
          (∀ (n : Nat) (ve : Expr) (loc : Loc) (σ₀ : Store), Eval.evalExpr n σ₀ ρ ve = (.ok v, σ) →
            Eval.evalExpr (n + 1) σ₀ ρ (.assign x ve loc) = (.ok .void, σ.define ρ₁ x v)) := by
  obtain ⟨k, defs, st₀, rfl, he, rfl⟩ := Lib.evalImport_ok himp
  have g0 : Store.Grows st.store st₀.store := ((invAt storeRel_grows k).importSets he).store
  have hρ0 : ρ₁ < st₀.store.frames.size := Nat.lt_of_lt_of_le hρ₁ g0.frames_size
  have hdef := Lib.foldl_define_spec ρ₁ defs st₀.store
  refine ⟨defs, st₀, ⟨k, rfl, he⟩, rfl, fun x => hdef.bindings hρ0 x, ?_⟩
  intro x hx σ g
  have hb : (defs.foldl (fun σ p => σ.define ρ₁ p.1 p.2) st₀.store).definesAt ρ₁ x = true := by
    unfold Store.definesAt
    rw [hdef.bindings hρ0 x]
    cases hm : S.asMap defs x with
    | none => exact absurd hx ((Lib.asMap_eq_none_iff defs x).1 hm)
    | some v => simp [S.override, hm]
  have hself := Lib.resolve_self (Lib.definesAt_grows g hb)
  refine ⟨hself, fun ρ v hr => ?_⟩
  obtain ⟨h1, h2, h3, h4, h5⟩ := Lib.set_resolved hr v
  exact ⟨h1, h2, h3, h4, h5, fun ρ' hρ' => h5 ρ' (Lib.not_mem_chain_of_older_or_root hρ'),
    fun ρ' q hroot hq hne => h5 ρ' (Lib.not_mem_chain_of_getLast_ne hroot hq hne),
    fun n ve loc σ₀ he => Lib.evalExpr_assign loc he hr⟩

/-- Non-vacuity: the importer (frame 0) imports `(m)`, then a library frame (frame 1) imports `(m)`
too; `(set! a 5)` from frame 1 is seen in frame 1 only — frame 0 still reads `1`. -/
example :
    let st₁ := (evalImport 5 stM [.direct libM none] 0).2
    let st₂ : State := { st₁ with store := (st₁.store.newFrame none).2 }
    let st₃ := (evalImport 5 st₂ [.direct libM none] 1).2
    (evalImport 5 st₂ [.direct libM none] 1).1 = .ok () ∧
    (st₃.store.set 1 "a" (.num (.int 5))).2.lookup 1 "a" = some (.num (.int 5)) ∧
    (st₃.store.set 1 "a" (.num (.int 5))).2.lookup 0 "a" = some (.num (.int 1)) := by
  intro st₁ st₂ st₃
  have h1 : (evalImport 5 st₂ [.direct libM none] 1).1 = .ok () := by
    simp [st₂, st₁, evalImport, evalImportSets, evalImportSet, getLibrary, stM, libM, libLookup, libInsert,
      Store.newFrame, Store.root, assocInsert, List.lookup, bind, Except.bind, pure, Except.pure]
  have h0 : st₃.store.lookup 0 "a" = some (.num (.int 1)) := by
    simp [st₃, st₂, st₁, evalImport, evalImportSets, evalImportSet, getLibrary, stM, libM, libLookup, libInsert,
      Store.newFrame, Store.root, Store.define, Store.defsInsert, Store.lookup, Store.lookupAux,
      assocInsert, List.lookup, bind, Except.bind, pure, Except.pure]
  obtain ⟨defs, st₀, ⟨k, hk, hsets⟩, -, -, hloc⟩ := assignment_to_imported_name_is_local
    (st := st₂) (st' := st₃) (sets := [.direct libM none]) (ρ₁ := 1) (fuel := 5) (Prod.ext h1 rfl)
    (by simp [st₂, st₁, Store.newFrame, evalImport, evalImportSets, evalImportSet, getLibrary, stM, libM,
      libLookup, libInsert, Store.root, assocInsert, List.lookup, bind, Except.bind, pure, Except.pure,
      Store.define])
  have hdefs : defs = [("a", .num (.int 1))] := by
    have : k = 4 := by omega
    subst this
    have h4 : (evalImportSets 4 st₂ [.direct libM none] []).1 = .ok [("a", .num (.int 1))] := by
      simp [st₂, st₁, evalImport, evalImportSets, evalImportSet, getLibrary, stM, libM, libLookup, libInsert,
        Store.newFrame, Store.root, assocInsert, List.lookup, bind, Except.bind, pure, Except.pure]
    rw [hsets] at h4
    simpa using h4
  subst hdefs
  obtain ⟨hself, hset⟩ := hloc "a" (by simp) st₃.store (Store.Grows.refl _)
  obtain ⟨-, -, hsee, -, -, holder, -⟩ := hset 1 (.num (.int 5)) hself
  exact ⟨h1, hsee, by rw [holder 0 (.inl (by omega)) "a", h0]⟩

/-! ## 3. importing copies values; exported closures share the library's frame -/

/-- Let library `E` have been instantiated by `evalLibraryDef … stE declsE` with export table
`defs` (its frame is `ρE = stE.store.frames.size`; `st₀` is the state in which its body FINISHED),
and let `st` be ANY later state of the interpreter whose instance cache still maps `E` to `defs`
(it always does: `C13.instances_only_grow`) — whatever happened to `E`'s variables in between.
Then `(import E)` into an allocated frame `ρI` succeeds and `define`s in `ρI`, for every exported
name `y`, the VALUE the table holds for `y` — which is the value `E`'s frame bound to the internal
name of `y`'s export spec in `st₀`, i.e. when `E`'s body finished: not a reference to `E`'s
binding, and not even `E`'s value at import time (`st.store` does not occur in it). Other names of
`ρI` and all other frames (`E`'s frame in particular) are untouched by the import.
Afterwards, in any store `σ`, a `set! x` that resolves to a frame `r` which is not on `ρI`'s chain
— `r = ρE` whenever the importer's frame is older than `E`'s frame or is itself a parentless frame
other than `ρE` (a library frame) — succeeds, is seen from `r` (`E`'s own frame and procedures read
the new value) and leaves EVERY lookup from the importer's frame `ρI` unchanged: the importer keeps
the value it copied. This is the interpreter's behaviour (`definitions.insert(to, value.clone())`
in `eval_library_definition`, `value.clone()` again in `eval_import_set`), not R7RS's. -/
theorem imported_binding_is_a_copy {fuelE : Nat} {stE st₀ : State} {declsE : List LibDecl} {defs : S.Bindings}
    (hE : evalLibraryDef fuelE stE declsE = (.ok defs, st₀))
    {st : State} {E : LibName} (hc : libLookup st.instances E = some defs) (hip : E ∉ st.inProgress)
    {ρI : Nat} (hρI : ρI < st.store.frames.size) (k : Nat) (loc : Loc) :
    let ρE := stE.store.frames.size
    ∃ st', evalImport (k + 4) st [.direct E loc] ρI = (.ok (), st') ∧
      (∀ y, st'.store.binding ρI y =
        match defs.lookup y with
        | some v => some v
        | none => st.store.binding ρI y) ∧
      (∀ y, defs.lookup y =
        (S.exportFor (S.exportSpecs declsE) y).bind (fun sp => st₀.store.lookup ρE sp.internal)) ∧
      (∀ i, i ≠ ρI → st'.store.frames[i]? = st.store.frames[i]?) ∧
      (∀ (σ : Store) (ρ r : Nat) (x : String) (v : Value), σ.resolve ρ x = some r → r ∉ σ.chain ρI →
        (σ.set ρ x v).1 = true ∧ (σ.set ρ x v).2.lookup r x = some v ∧
        ∀ y, (σ.set ρ x v).2.lookup ρI y = σ.lookup ρI y) ∧
      (∀ (σ : Store) (ρ : Nat) (x : String) (v : Value), σ.resolve ρ x = some ρE →
        (ρI < ρE ∨ (ρI ≠ ρE ∧ σ.parentOf ρI = none)) →
        (σ.set ρ x v).2.lookup ρE x = some v ∧ ∀ y, (σ.set ρ x v).2.lookup ρI y = σ.lookup ρI y) := by
  intro ρE
  obtain ⟨-, hnd, h3, -⟩ := C13.exports_exact hE
  have hd : S.denoteAll [.direct E loc] (exportsOf st) = some defs := by
    simp [S.denoteAll, S.denote, exportsOf, hc]
  have hok : ¬ S.Clash (importEq st) defs :=
    Lib.not_clash_of_compatible (Lib.compatible_of_admissible hnd)
  obtain ⟨st', himp, hb, hother, -⟩ := C12.import_union [.direct E loc] (k + 4) st ρI defs
    (by simp [fuelNeededAll, S.fuelNeeded]) (by simpa [S.leaf] using hip) hd hok hρI
  have hlater : ∀ (σ : Store) (ρ r : Nat) (x : String) (v : Value), σ.resolve ρ x = some r → r ∉ σ.chain ρI →
      (σ.set ρ x v).1 = true ∧ (σ.set ρ x v).2.lookup r x = some v ∧
      ∀ y, (σ.set ρ x v).2.lookup ρI y = σ.lookup ρI y := by
    intro σ ρ r x v hr hnot
    obtain ⟨h1, -, h3', -, h5⟩ := Lib.set_resolved hr v
    exact ⟨by rw [h1], h3', h5 ρI hnot⟩
  refine ⟨st', himp, fun y => ?_, h3, hother, hlater, fun σ ρ x v hr hwho => ?_⟩
  · rw [hb y, S.override, Lib.asMap_eq_lookup hnd]
    cases List.lookup y defs <;> rfl
  · exact (hlater σ ρ ρE x v hr (Lib.not_mem_chain_of_older_or_root hwho)).2

/-- `(define-library (e) (export n get bump!) (begin (define n 0) (define get (lambda () n))
(define bump! (lambda () (set! n 7)))))` -/
def libE : LibName := [.ident "e"]
def declsE : List LibDecl :=
  [.export [.direct "n" none, .direct "get" none, .direct "bump!" none],
   .begin_ [defn "n" (int 0), defn "get" (.lambda (getter "n") none), defn "bump!" (.lambda (setter "n" 7) none)]]
/-- the export table of `(e)` instantiated on a store with one frame: closures over frame 1 -/
def tableE : S.Bindings :=
  [("n", .num (.int 0)), ("get", .closure (getter "n") 1), ("bump!", .closure (setter "n" 7) 1)]

private theorem run_E : evalLibraryDef 9 { store := Store.root } declsE =
    (.ok tableE, { store := ⟨#[⟨none, []⟩, ⟨none, tableE⟩], #[], [], [], 0, 0⟩ }) := by
  simp [evalLibraryDef, declsE, tableE, defn, int, getter, setter, evalLibDecls, evalStatements, evalExprOrDef,
    Eval.evalExpr, Eval.evalPrim, Store.newFrame, Store.root, Store.define, Store.defsInsert, Store.lookup,
    Store.lookupAux, assocInsert, List.lookup, bind, Except.bind, pure, Except.pure]

/-- Non-vacuity: `(e)` is instantiated (frame 1), the program (frame 0) imports it; then
`(set! n 7)` from `(e)`'s frame: frame 1 reads 7, the importer's `n` is still 0. -/
example :
    let stI : State := { store := ⟨#[⟨none, []⟩, ⟨none, tableE⟩], #[], [], [], 0, 0⟩, instances := [(libE, tableE)] }
    ∃ st', evalImport 4 stI [.direct libE none] 0 = (.ok (), st') ∧
      st'.store.binding 0 "n" = some (.num (.int 0)) ∧
      (st'.store.set 1 "n" (.num (.int 7))).2.lookup 1 "n" = some (.num (.int 7)) ∧
      (st'.store.set 1 "n" (.num (.int 7))).2.lookup 0 "n" = st'.store.lookup 0 "n" := by
  intro stI
  obtain ⟨st', himp, hb, -, hother, -, hE⟩ := imported_binding_is_a_copy run_E (st := stI) (E := libE)
    (by simp [stI, libLookup]) (by simp [stI]) (ρI := 0) (by simp [stI]) 0 none
  have hr : st'.store.resolve 1 "n" = some 1 := by
    apply Lib.resolve_self
    have := hother 1 (by omega)
    simp [Store.definesAt, Store.binding, this, stI, tableE, List.lookup]
  have h := hE st'.store 1 "n" (.num (.int 7)) (by simpa [Store.root] using hr) (.inl (by simp [Store.root]))
  refine ⟨st', himp, ?_, by simpa [Store.root] using h.1, h.2 "n"⟩
  rw [hb "n"]; simp [tableE]

/-- Non-vacuity of "not even the value at import time": `(e)`'s frame already holds `n ↦ 7` (its
`bump!` was called after instantiation) when a SECOND importer (frame 0 here) imports `(e)`: it is
given the table's `n ↦ 0`. -/
example :
    let stI : State := { store := ⟨#[⟨none, []⟩, ⟨none, [("n", .num (.int 7))]⟩], #[], [], [], 0, 0⟩,
                         instances := [(libE, tableE)] }
    ∃ st', evalImport 4 stI [.direct libE none] 0 = (.ok (), st') ∧
      st'.store.binding 0 "n" = some (.num (.int 0)) ∧ st'.store.binding 1 "n" = some (.num (.int 7)) := by
  intro stI
  obtain ⟨st', himp, hb, -, hother, -⟩ := imported_binding_is_a_copy run_E (st := stI) (E := libE)
    (by simp [stI, libLookup]) (by simp [stI]) (ρI := 0) (by simp [stI]) 0 none
  refine ⟨st', himp, ?_, ?_⟩
  · rw [hb "n"]; simp [tableE]
  · simp [Store.binding, hother 1 (by omega), stI]

/-- A procedure a library exports is a closure over the LIBRARY's frame: a `lambda` evaluated in
frame `ρE` yields `.closure lam ρE`; and a call of such a closure (`applyScheme`, from anywhere —
the importer's code included) runs in a fresh frame `ρc = σ.frames.size` whose parent is `ρE`.
In every store `σ₂` during or after the call: the call frame's chain is `ρc` followed by the
library frame's chain; a name `x` the call frame does not bind itself (neither a parameter nor an
internal definition) resolves exactly as from the library's frame and reads the library's CURRENT
binding; and after a `set! x` through ANY frame that designates that same binding (the library's
body, another exported procedure's call frame) both the call frame and the library frame read the
new value: state kept in the library is shared by its procedures, while the importers' copies of
the exported VARIABLES are not (`imported_binding_is_a_copy`). -/
theorem exported_closure_sees_library_state {fuel : Nat} {σ σ₁ σ₂ : Store} {lam : Lambda} {ρE : Nat}
    {args : List Value} {r : Except SErr Eval.TailRes}
    (hcall : Eval.applyScheme (fuel + 1) σ lam ρE args = (r, σ₁)) (hρE : ρE < σ.frames.size)
    (hg : Store.Grows σ₁ σ₂) :
    let ρc := σ.frames.size
    (∀ (n : Nat) (loc : Loc) (σ' : Store),
      Eval.evalExpr (n + 1) σ' ρE (.lambda lam loc) = (.ok (.closure lam ρE), σ')) ∧
    σ.frames[ρc]? = none ∧ σ₂.parentOf ρc = some ρE ∧
    σ₂.chain ρc = ρc :: σ₂.chain ρE ∧
    ∀ x, σ₂.definesAt ρc x = false →
      σ₂.resolve ρc x = σ₂.resolve ρE x ∧ σ₂.lookup ρc x = σ₂.lookup ρE x ∧
      ∀ rr, σ₂.resolve ρE x = some rr → ∀ ρ v, σ₂.resolve ρ x = some rr →
        (σ₂.set ρ x v).2.lookup ρc x = some v ∧ (σ₂.set ρ x v).2.lookup ρE x = some v := by
  intro ρc
  obtain ⟨hfresh, -, -, -, -, hpar, hlt, -⟩ := C03.fresh_frame_per_call hcall hg
  have hf : ∃ f, σ₂.frames[σ.frames.size]? = some f ∧ f.parent = some ρE := by
    cases h : σ₂.frames[σ.frames.size]? with
    | none => simp [Store.parentOf, h] at hpar
    | some f => exact ⟨f, rfl, by simpa [Store.parentOf, h] using hpar⟩
  obtain ⟨f, hf, hp⟩ := hf
  refine ⟨fun n loc σ' => by rw [Eval.evalExpr], hfresh, hpar, Lib.chain_child hf hp hρE, fun x hx => ?_⟩
  have hres := Lib.resolve_child hf hp hρE hx
  refine ⟨hres, by rw [Store.lookup_eq_bind, Store.lookup_eq_bind, hres], fun rr hrr ρ v hr => ?_⟩
  obtain ⟨-, -, -, hvis, -⟩ := Lib.set_resolved hr v
  exact ⟨hvis ρc (by rw [hres, hrr]), hvis ρE hrr⟩

/-- Non-vacuity: in the store `(e)`'s instantiation leaves, a call of the exported `get` (closure
over frame 1) runs in frame 2 under frame 1; after `(set! n 7)` from frame 1 — what `bump!` does —
frame 2 reads 7. -/
example :
    let σ : Store := ⟨#[⟨none, []⟩, ⟨none, tableE⟩], #[], [], [], 0, 0⟩
    let σ₁ := (Eval.applyScheme 4 σ (getter "n") 1 []).2
    σ₁.chain 2 = [2, 1] ∧ (σ₁.set 1 "n" (.num (.int 7))).2.lookup 2 "n" = some (.num (.int 7)) := by
  intro σ σ₁
  obtain ⟨-, -, -, hchain, hx⟩ := exported_closure_sees_library_state (σ := σ) (σ₁ := σ₁) (σ₂ := σ₁)
    (fuel := 3) (lam := getter "n") (ρE := 1) (args := []) (r := _) rfl (by simp [σ]) (Store.Grows.refl _)
  have hsz : σ.frames.size = 2 := by simp [σ]
  rw [hsz] at hchain hx
  have hroot : Lib.IsRoot σ₁ 1 := by
    have : Lib.IsRoot σ 1 := Lib.IsRoot.of_frame (f := ⟨none, tableE⟩) (by simp [σ]) rfl
    exact this.grows (Eval.applyScheme_grows 4 σ (getter "n") 1 [])
  have h1 : σ₁.definesAt 1 "n" = true :=
    Lib.definesAt_grows (Eval.applyScheme_grows 4 σ (getter "n") 1 [])
      (by simp [σ, Store.definesAt, Store.binding, tableE, List.lookup])
  have h2 : σ₁.definesAt 2 "n" = false := by
    simp [σ₁, σ, Eval.applyScheme, Eval.bindFixed, getter, Eval.evalDefs, Eval.evalBody, Eval.evalTail,
      Eval.evalExpr, Store.newFrame, Store.definesAt, Store.binding, Store.lookup, Store.lookupAux, tableE,
      List.lookup, Lambda.formals, Lambda.defs, Lambda.body]
  refine ⟨by rw [hchain, hroot.chain], ?_⟩
  exact ((hx "n" h2).2.2 1 (Lib.resolve_self h1) 1 (.num (.int 7)) (Lib.resolve_self h1)).1

/-! ## 4. a diamond: one instance of the library both sides import -/

/-- The diamond "A imports C, B imports C, the program imports A and B".
Let library `A` (not yet instantiated) have a definition that begins with an import declaration
whose first set `sA` names `C = S.leaf sA`. Loading `A` evaluates that import first, in the state
`stA` (`A`'s factory registered, `A`'s fresh frame allocated). If it succeeds — `C` is instantiated
on the way (or was already), with export list `d` — then `A` got `S.transform sA d`, and `C ↦ d`
is in the instance cache after `getLibrary … A`, whatever the rest of `A` does. From then on, for
EVERY state `st₂` whose cache has `C ↦ d`:
(a) every further step of the interpreter (imports, statements, top-level forms) keeps `C ↦ d`;
(b) an import set `sB` of ANY shape over `C` yields `S.transform sB d` and returns the state
UNCHANGED — no frame is allocated, nothing is written, no output: `C`'s body is not evaluated again;
(c) in particular when a second library `B` (not yet instantiated, its definition beginning with
`(import sB …)` over `C`) is loaded: `getLibrary` evaluates `B`'s definition on `stG` (= `st₂` with
`B`'s factory registered), and the first import of that definition, evaluated in `B`'s fresh
frame, yields `S.transform sB d` and evaluates nothing;
(d) every value in what `A` and `B` got is a value of the ONE list `d` — the operators only select
and rename — so a procedure of `C` reaches `A` and `B` as the same `.closure lam ρ`: the same code
over the SAME frame `ρ` (`C`'s frame or a frame under it), whose state they therefore share
(`exported_closure_sees_library_state`). -/
theorem nested_import_single_instance (k : Nat) (st : State) (A : LibName) (locA : Loc)
    (sA : ImportSet) (moreA : List ImportSet) (restA : List LibDecl)
    (hiA : libLookup st.instances A = none)
    (hfA : factoryFor st A = some (.ast (.importDecl (sA :: moreA) :: restA))) (hne : S.leaf sA ≠ A) :
    let C := S.leaf sA
    let stF := (findFactory st A locA).2
    let stA : State := { stF with store := (stF.store.newFrame none).2 }
    ∀ defsA st1, evalImportSet k stA sA = (.ok defsA, st1) →
      ∃ d, defsA = S.transform sA d ∧
        libLookup (getLibrary (k + 5) st A locA).2.instances C = some d ∧
        ∀ st₂ : State, libLookup st₂.instances C = some d →
          (∀ fuel, (∀ sets ρ, libLookup (evalImport fuel st₂ sets ρ).2.instances C = some d) ∧
            (∀ ρ ss, libLookup (evalStatements fuel st₂ ρ ss).2.instances C = some d) ∧
            (∀ s, libLookup (evalAst fuel st₂ s).2.instances C = some d)) ∧
          (∀ (sB : ImportSet) (n : Nat), S.leaf sB = C → C ∉ st₂.inProgress →
            evalImportSet (n + 2 + S.depth sB) st₂ sB = (.ok (S.transform sB d), st₂)) ∧
          (∀ (B : LibName) (locB : Loc) (sB : ImportSet) (moreB : List ImportSet) (restB : List LibDecl) (n : Nat),
            S.leaf sB = C → C ∉ st₂.inProgress → libLookup st₂.instances B = none →
            factoryFor st₂ B = some (.ast (.importDecl (sB :: moreB) :: restB)) →
            let stG := (findFactory st₂ B locB).2
            let stB : State := { stG with store := (stG.store.newFrame none).2 }
            getLibrary (n + 1) st₂ B locB =
              cacheInstance B (evalLibraryDef n stG (.importDecl (sB :: moreB) :: restB)) ∧
            evalImportSet (n + 2 + S.depth sB) stB sB = (.ok (S.transform sB d), stB)) ∧
          (∀ sB, ∀ p ∈ S.transform sB d, ∃ q ∈ d, q.2 = p.2) := by
  intro C stF stA defsA st1 h1
  obtain ⟨d, -, hdefs, hfinal, -⟩ :=
    C13More.instance_cache_only_grows_across_nested_loads k st A locA sA moreA restA hiA hfA hne defsA st1 h1
  refine ⟨d, hdefs, hfinal, fun st₂ hc => ⟨fun fuel => ?_, ?_, ?_, fun sB => Lib.transform_values sB d⟩⟩
  · have h := C13.instances_only_grow fuel st₂ C d hc
    exact ⟨h.2.2.1, h.2.2.2.2.1, h.2.2.2.2.2.1⟩
  · intro sB n hl hip
    exact Lib.importSet_cached sB n (st := st₂) (d := d) (by rw [hl]; exact hc) (by rw [hl]; exact hip)
  · intro B locB sB moreB restB n hl hip hiB hfB stG stB
    obtain ⟨hi, hp, -⟩ := Lib.findFactory_keeps st₂ B locB
    refine ⟨getLibrary_via_findFactory hiB hfB, ?_⟩
    exact Lib.importSet_cached sB n (st := stB) (d := d)
      (by show libLookup stG.instances (S.leaf sB) = some d; rw [hi, hl]; exact hc)
      (by show S.leaf sB ∉ stG.inProgress; rw [hp, hl]; exact hip)

/-- the diamond: `(c)` keeps a variable `n` and exports the getter; `(a)` and `(b)` both
`(import (c))` and re-export the getter as `a-get` / `b-get` -/
def libA : LibName := [.ident "a"]
def libB : LibName := [.ident "b"]
def libC : LibName := [.ident "c"]
def declsC : List LibDecl :=
  [.export [.direct "get" none], .begin_ [defn "n" (int 0), defn "get" (.lambda (getter "n") none)]]
def declsA : List LibDecl := [.importDecl [.direct libC none], .export [.rename "get" "a-get" none]]
def declsB : List LibDecl := [.importDecl [.direct libC none], .export [.rename "get" "b-get" none]]
def stD : State :=
  { store := Store.root, factories := [(libA, .ast declsA), (libB, .ast declsB), (libC, .ast declsC)] }

/-- the one closure `(c)` exports: the getter over `(c)`'s frame 2 -/
def cloC : Value := .closure (getter "n") 2
/-- the state after the program imported `(a)`: frames 1 (`(a)`) and 2 (`(c)`), both instances cached -/
def stAfterA : State :=
  { stD with
    store := ⟨#[⟨none, []⟩, ⟨none, [("get", cloC)]⟩, ⟨none, [("n", .num (.int 0)), ("get", cloC)]⟩], #[], [], [], 0, 0⟩
    instances := [(libC, [("get", cloC)]), (libA, [("a-get", cloC)])] }
/-- … and after it imported `(b)`: one more frame, 3 (`(b)`); NO second frame for `(c)` -/
def stAfterB : State :=
  { stD with
    store := ⟨#[⟨none, []⟩, ⟨none, [("get", cloC)]⟩, ⟨none, [("n", .num (.int 0)), ("get", cloC)]⟩,
                ⟨none, [("get", cloC)]⟩], #[], [], [], 0, 0⟩
    instances := [(libC, [("get", cloC)]), (libA, [("a-get", cloC)]), (libB, [("b-get", cloC)])] }

private theorem run_A : evalImportSet 18 stD (.direct libA none) = (.ok [("a-get", cloC)], stAfterA) := by
  simp [evalImport, evalImportSets, evalImportSet, getLibrary, evalLibraryDef, evalLibDecls, evalStatements,
    evalExprOrDef, stD, stAfterA, cloC, libA, libB, libC, declsA, declsC, defn, int, getter, libLookup, libInsert,
    Eval.evalExpr, Eval.evalPrim, Store.newFrame, Store.root, Store.define, Store.defsInsert, Store.lookup,
    Store.lookupAux, assocInsert, List.lookup, bind, Except.bind, pure, Except.pure]

private theorem run_B : evalImportSet 17 stAfterA (.direct libB none) = (.ok [("b-get", cloC)], stAfterB) := by
  simp [evalImport, evalImportSets, evalImportSet, getLibrary, evalLibraryDef, evalLibDecls,
    stD, stAfterA, stAfterB, cloC, libA, libB, libC, declsB, getter, libLookup, libInsert,
    Store.newFrame, Store.root, Store.define, Store.defsInsert, Store.lookup,
    Store.lookupAux, assocInsert, List.lookup, bind, Except.bind, pure, Except.pure]

/-- Non-vacuity 1 (the whole diamond, computed): the program imports `(a)` and `(b)`. Four frames
exist afterwards — the program's, `(a)`'s (1), `(c)`'s (2), `(b)`'s (3): `(c)` was instantiated
ONCE — and `a-get` and `b-get` are the same closure over `(c)`'s frame 2. -/
example :
    (evalImport 20 stD [.direct libA none, .direct libB none] 0).1 = .ok () ∧
    (evalImport 20 stD [.direct libA none, .direct libB none] 0).2.store.frames.size = 4 ∧
    (evalImport 20 stD [.direct libA none, .direct libB none] 0).2.store.lookup 0 "a-get" = some cloC ∧
    (evalImport 20 stD [.direct libA none, .direct libB none] 0).2.store.lookup 0 "b-get" = some cloC := by
  have h : evalImportSets 19 stD [.direct libA none, .direct libB none] [] =
      (.ok [("a-get", cloC), ("b-get", cloC)], stAfterB) := by
    rw [evalImportSets_cons_eq, run_A]
    simp only [List.foldlM_cons, List.foldlM_nil, Lib.mergeStep, List.lookup, bind, Except.bind, pure, Except.pure,
      assocInsert]
    rw [evalImportSets_cons_eq, run_B]
    simp only [List.foldlM_cons, List.foldlM_nil, Lib.mergeStep, bind, Except.bind, pure, Except.pure]
    simp [assocInsert, List.lookup, evalImportSets]
  rw [evalImport, h]
  refine ⟨rfl, ?_, ?_, ?_⟩ <;>
  simp [stAfterB, Store.define, Store.defsInsert, Store.lookup, Store.lookupAux, List.lookup]

/-- Non-vacuity 2 (the hypotheses of the theorem): loading `(a)` on `stD` — its first import set
`(c)` evaluates to `(c)`'s table — leaves `(c)` cached with that table. -/
example : libLookup (getLibrary 17 stD libA none).2.instances libC =
    some [("get", .closure (getter "n") 2)] := by
  have hF : (findFactory stD libA none).2 = stD := by
    simp [findFactory, stD, libLookup, libA]
  have h1 : (evalImportSet 12 { stD with store := (stD.store.newFrame none).2 } (.direct libC none)).1 =
      .ok [("get", .closure (getter "n") 2)] := by
    simp [evalImportSet, getLibrary, evalLibraryDef, evalLibDecls, evalStatements,
      evalExprOrDef, stD, libA, libB, libC, declsC, defn, int, getter, libLookup, libInsert,
      Eval.evalExpr, Eval.evalPrim, Store.newFrame, Store.root, Store.define, Store.defsInsert, Store.lookup,
      Store.lookupAux, assocInsert, List.lookup, bind, Except.bind, pure, Except.pure]
  have h := nested_import_single_instance 12 stD libA none (.direct libC none) [] [.export [.rename "get" "a-get" none]]
    (by simp [stD, libLookup]) (by simp [factoryFor, stD, libLookup, libA, declsA])
    (by simp [S.leaf, libA, libC])
  simp only [hF] at h
  obtain ⟨d, hd, hfinal, -⟩ := h _ _ (Prod.ext h1 rfl)
  have : d = [("get", .closure (getter "n") 2)] := by simpa [S.transform] using hd.symm
  subst this
  exact hfinal

end Ruschm.C13Sharing

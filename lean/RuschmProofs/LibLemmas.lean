/-
Helper lemmas for the library properties C12, C13, C14 (`RuschmProofs/C12.lean` …).
Vocabulary: `RuschmSpec/Lib.lean`.
-/
import RuschmSpec.Lib

namespace Ruschm

/-! ## C12: facts about the spec -/

namespace S

theorem renameTarget_swap (a b n : String) : renameTarget [(a, b), (b, a)] n = swapName a b n := by
  unfold renameTarget swapName
  simp only [List.reverse_cons, List.reverse_nil, List.nil_append, List.cons_append,
    List.lookup_cons, List.lookup_nil]
  by_cases h1 : n = a <;> by_cases h2 : n = b
  · subst h1; subst h2; simp
  · subst h1
    have : (n == b) = false := by simpa using h2
    simp [this]
  · subst h2
    simp [h1]
  · have e1 : (n == a) = false := by simpa using h1
    have e2 : (n == b) = false := by simpa using h2
    simp [e1, e2, h1, h2]

theorem renameTarget_single (a b n : String) :
    renameTarget [(a, b)] n = if n = a then b else n := by
  unfold renameTarget
  simp only [List.reverse_cons, List.reverse_nil, List.nil_append, List.lookup_cons, List.lookup_nil]
  by_cases h1 : n = a
  · simp [h1]
  · have e1 : (n == a) = false := by simpa using h1
    simp [e1, h1]

theorem denote_rename {s : ImportSet} {ex bs} (pairs) (h : denote s ex = some bs) :
    denote (.rename s pairs) ex = some (bs.map fun p => (renameTarget pairs p.1, p.2)) := by
  simp [denote, h]

theorem denote_only {s : ImportSet} {ex bs} (ids) (h : denote s ex = some bs) :
    denote (.only s ids) ex = some (bs.filter fun p => ids.contains p.1) := by
  simp [denote, h]

end S

namespace Interp
open Ruschm

/-! ## association lists keyed by library name -/

theorem libLookup_libInsert_self {α} (l : List (LibName × α)) (k : LibName) (v : α) :
    libLookup (libInsert l k v) k = some v := by
  induction l with
  | nil => simp [libInsert, libLookup]
  | cons p rest ih =>
    obtain ⟨k', v'⟩ := p
    by_cases h : k' = k
    · simp [libInsert, libLookup, h]
    · simp [libInsert, libLookup, h, ih]

theorem libLookup_libInsert_ne {α} (l : List (LibName × α)) {k k' : LibName} (v : α) (hne : k' ≠ k) :
    libLookup (libInsert l k v) k' = libLookup l k' := by
  induction l with
  | nil => simp [libInsert, libLookup, Ne.symm hne]
  | cons p rest ih =>
    obtain ⟨k'', v''⟩ := p
    by_cases h : k'' = k
    · subst h; simp [libInsert, libLookup, Ne.symm hne]
    · by_cases h2 : k'' = k'
      · subst h2; simp [libInsert, libLookup, h]
      · simp [libInsert, libLookup, h, h2, ih]

/-- inserting never disturbs an entry that is already there, unless it is for the same key -/
theorem libLookup_libInsert_of_some {α} (l : List (LibName × α)) {k n : LibName} {v d : α}
    (hk : libLookup l k = none) (hn : libLookup l n = some d) :
    libLookup (libInsert l k v) n = some d := by
  have : n ≠ k := by rintro rfl; simp [hk] at hn
  rw [libLookup_libInsert_ne _ _ this, hn]

/-! ## C12: import sets over libraries that need no evaluation -/

theorem direct_cached {fuel : Nat} {st : State} {name : LibName} {loc : Loc} {defs : S.Bindings}
    (hip : name ∉ st.inProgress) (hc : libLookup st.instances name = some defs) :
    evalImportSet (fuel + 2) st (.direct name loc) = (.ok defs, st) := by
  rw [evalImportSet]
  have : st.inProgress.contains name = false := by simpa using hip
  simp only [this]
  rw [getLibrary]
  simp [hc]

theorem direct_native {fuel : Nat} {st : State} {name : LibName} {loc : Loc} {defs : S.Bindings}
    (hip : name ∉ st.inProgress) (hc : libLookup st.instances name = none)
    (hf : libLookup st.factories name = some (.native defs)) :
    evalImportSet (fuel + 2) st (.direct name loc) =
      (.ok defs, { st with instances := libInsert st.instances name defs }) := by
  rw [evalImportSet]
  have : st.inProgress.contains name = false := by simpa using hip
  simp only [this]
  rw [getLibrary]
  simp [hc, hf]

theorem exportsOf_cache_native {st : State} {name : LibName} {defs : S.Bindings}
    (hc : libLookup st.instances name = none)
    (hf : libLookup st.factories name = some (.native defs)) (n : LibName) :
    exportsOf { st with instances := libInsert st.instances name defs } n = exportsOf st n := by
  unfold exportsOf
  by_cases h : n = name
  · subst h; simp [libLookup_libInsert_self, hc, hf]
  · simp [libLookup_libInsert_ne _ _ h]

/-- the conclusion of `importSet_eq_spec` -/
structure ImportSetSpec (fuel : Nat) (st : State) (s : ImportSet) (bs : S.Bindings) (st' : State) : Prop where
  eval : evalImportSet fuel st s = (.ok bs, st')
  same : SameButInstances st st'
  exports : ∀ n, exportsOf st' n = exportsOf st n
  cached : (libLookup st.instances (S.leaf s)).isSome → st' = st
  grow : ∀ n d, libLookup st.instances n = some d → libLookup st'.instances n = some d

theorem importSet_spec (s : ImportSet) : ∀ (fuel : Nat) (st : State) (bs : S.Bindings),
    S.fuelNeeded s ≤ fuel → S.leaf s ∉ st.inProgress → S.denote s (exportsOf st) = some bs →
    ∃ st', ImportSetSpec fuel st s bs st' := by
  induction s with
  | direct name loc =>
    intro fuel st bs hf hip hd
    obtain ⟨fuel, rfl⟩ : ∃ k, fuel = k + 2 := ⟨fuel - 2, by simp [S.fuelNeeded] at hf; omega⟩
    simp only [S.denote, exportsOf] at hd
    simp only [S.leaf] at hip
    cases hc : libLookup st.instances name with
    | some d =>
      simp [hc] at hd; subst hd
      exact ⟨st, direct_cached hip hc, rfl, fun _ => rfl, fun _ => rfl, fun _ _ h => h⟩
    | none =>
      simp only [hc] at hd
      cases hfac : libLookup st.factories name with
      | none => simp [hfac] at hd
      | some f =>
        cases f with
        | ast _ => simp [hfac] at hd
        | native d =>
          simp [hfac] at hd; subst hd
          refine ⟨_, direct_native hip hc hfac, rfl, exportsOf_cache_native hc hfac, ?_, ?_⟩
          · simp [S.leaf, hc]
          · intro n d' h; exact libLookup_libInsert_of_some _ hc h
  | only sub ids ih =>
    intro fuel st bs hf hip hd
    obtain ⟨fuel, rfl⟩ : ∃ k, fuel = k + 1 := ⟨fuel - 1, by simp [S.fuelNeeded] at hf; omega⟩
    simp only [S.denote, Option.map_eq_some_iff] at hd
    obtain ⟨bs0, hd0, rfl⟩ := hd
    obtain ⟨st', h⟩ := ih fuel st bs0 (by simp [S.fuelNeeded] at hf; omega) hip hd0
    exact ⟨st', by rw [evalImportSet, h.eval], h.same, h.exports, h.cached, h.grow⟩
  | except sub ids ih =>
    intro fuel st bs hf hip hd
    obtain ⟨fuel, rfl⟩ : ∃ k, fuel = k + 1 := ⟨fuel - 1, by simp [S.fuelNeeded] at hf; omega⟩
    simp only [S.denote, Option.map_eq_some_iff] at hd
    obtain ⟨bs0, hd0, rfl⟩ := hd
    obtain ⟨st', h⟩ := ih fuel st bs0 (by simp [S.fuelNeeded] at hf; omega) hip hd0
    exact ⟨st', by rw [evalImportSet, h.eval], h.same, h.exports, h.cached, h.grow⟩
  | «prefix» sub p ih =>
    intro fuel st bs hf hip hd
    obtain ⟨fuel, rfl⟩ : ∃ k, fuel = k + 1 := ⟨fuel - 1, by simp [S.fuelNeeded] at hf; omega⟩
    simp only [S.denote, Option.map_eq_some_iff] at hd
    obtain ⟨bs0, hd0, rfl⟩ := hd
    obtain ⟨st', h⟩ := ih fuel st bs0 (by simp [S.fuelNeeded] at hf; omega) hip hd0
    exact ⟨st', by rw [evalImportSet, h.eval], h.same, h.exports, h.cached, h.grow⟩
  | rename sub pairs ih =>
    intro fuel st bs hf hip hd
    obtain ⟨fuel, rfl⟩ : ∃ k, fuel = k + 1 := ⟨fuel - 1, by simp [S.fuelNeeded] at hf; omega⟩
    simp only [S.denote, Option.map_eq_some_iff] at hd
    obtain ⟨bs0, hd0, rfl⟩ := hd
    obtain ⟨st', h⟩ := ih fuel st bs0 (by simp [S.fuelNeeded] at hf; omega) hip hd0
    refine ⟨st', ?_, h.same, h.exports, h.cached, h.grow⟩
    rw [evalImportSet, h.eval]
    simp only [S.renameTarget]
    congr 2
    apply List.map_congr_left
    intro b _
    cases pairs.reverse.lookup b.1 <;> rfl

/-! ## an invariant of every step of the interpreter (one induction on fuel for all of the mutual block) -/

/-- What every step of the interpreter preserves, relative to a preorder `R` on stores that the
evaluator respects. -/
structure Inv (R : Store → Store → Prop) (st st' : State) : Prop where
  inProgress : st'.inProgress = st.inProgress
  instances : ∀ n d, libLookup st.instances n = some d → libLookup st'.instances n = some d
  factories : ∀ n f, libLookup st.factories n = some f → libLookup st'.factories n = some f
  files : st'.files = st.files
  env : st'.env = st.env
  syn : st'.syn = st.syn
  importEnd : st'.importEnd = st.importEnd
  store : R st.store st'.store

/-- the hypotheses on `R` -/
structure StoreRel (R : Store → Store → Prop) : Prop where
  refl : ∀ σ, R σ σ
  trans : ∀ {a b c}, R a b → R b c → R a c
  expr : ∀ {fuel σ ρ e r σ'}, Eval.evalExpr fuel σ ρ e = (r, σ') → R σ σ'
  define : ∀ σ ρ k v, R σ (σ.define ρ k v)
  newFrame : ∀ σ p, R σ (σ.newFrame p).2

variable {R : Store → Store → Prop}

theorem Inv.refl (hR : StoreRel R) (st : State) : Inv R st st :=
  ⟨rfl, fun _ _ h => h, fun _ _ h => h, rfl, rfl, rfl, rfl, hR.refl _⟩

theorem Inv.trans (hR : StoreRel R) {a b c : State} (h1 : Inv R a b) (h2 : Inv R b c) : Inv R a c :=
  ⟨h2.inProgress.trans h1.inProgress, fun n d h => h2.instances n d (h1.instances n d h),
   fun n f h => h2.factories n f (h1.factories n f h), h2.files.trans h1.files,
   h2.env.trans h1.env, h2.syn.trans h1.syn, h2.importEnd.trans h1.importEnd,
   hR.trans h1.store h2.store⟩

theorem Inv.store_step (st : State) {σ' : Store} (h : R st.store σ') :
    Inv R st { st with store := σ' } :=
  ⟨rfl, fun _ _ h => h, fun _ _ h => h, rfl, rfl, rfl, rfl, h⟩

theorem foldl_define_rel (hR : StoreRel R) (ρ : Nat) (defs : List (String × Value)) (σ : Store) :
    R σ (defs.foldl (fun σ p => σ.define ρ p.1 p.2) σ) := by
  induction defs generalizing σ with
  | nil => exact hR.refl _
  | cons p rest ih => exact hR.trans (hR.define σ ρ p.1 p.2) (ih _)

theorem evalExprOrDef_inv (hR : StoreRel R) {fuel st s ρ r st'}
    (h : evalExprOrDef fuel st s ρ = (r, st')) : Inv R st st' := by
  unfold evalExprOrDef at h
  split at h
  · split at h <;> (rename_i he; cases h; exact Inv.store_step _ (hR.expr he))
  · split at h <;> rename_i he <;> cases h
    · exact Inv.store_step _ (hR.trans (hR.expr he) (hR.define _ _ _ _))
    · exact Inv.store_step _ (hR.expr he)
  · cases h; exact Inv.store_step _ (hR.define _ _ _ _)
  · cases h; exact Inv.refl hR _

/-- the invariant for all functions of the mutual block at one amount of fuel -/
structure InvAt (R : Store → Store → Prop) (fuel : Nat) : Prop where
  importSet : ∀ {st s r st'}, evalImportSet fuel st s = (r, st') → Inv R st st'
  getLibrary : ∀ {st name loc r st'}, getLibrary fuel st name loc = (r, st') → Inv R st st'
  import_ : ∀ {st sets ρ r st'}, evalImport fuel st sets ρ = (r, st') → Inv R st st'
  importSets : ∀ {st sets acc r st'}, evalImportSets fuel st sets acc = (r, st') → Inv R st st'
  libraryDef : ∀ {st decls r st'}, evalLibraryDef fuel st decls = (r, st') → Inv R st st'
  libDecls : ∀ {st ρ decls acc r st'}, evalLibDecls fuel st ρ decls acc = (r, st') → Inv R st st'
  statements : ∀ {st ρ ss r st'}, evalStatements fuel st ρ ss = (r, st') → Inv R st st'

theorem invAt_zero (hR : StoreRel R) : InvAt R 0 := by
  constructor <;> intros <;> rename_i h
  · rw [evalImportSet] at h; cases h; exact Inv.refl hR _
  · rw [Interp.getLibrary] at h; cases h; exact Inv.refl hR _
  · rw [evalImport] at h; cases h; exact Inv.refl hR _
  · rw [evalImportSets] at h; cases h; exact Inv.refl hR _
  · rw [evalLibraryDef] at h; cases h; exact Inv.refl hR _
  · rw [evalLibDecls] at h; cases h; exact Inv.refl hR _
  · rw [evalStatements] at h; cases h; exact Inv.refl hR _


theorem importSet_succ (hR : StoreRel R) {fuel} (ih : InvAt R fuel) {st s r st'}
    (h : evalImportSet (fuel + 1) st s = (r, st')) : Inv R st st' := by
  cases s with
  | direct name loc =>
    rw [evalImportSet] at h
    split at h
    · cases h; exact Inv.refl hR _
    · cases h
      have i := ih.getLibrary (st := { st with inProgress := name :: st.inProgress }) (name := name)
        (loc := loc) (r := _) (st' := _) rfl
      exact ⟨by simp [i.inProgress], i.instances, i.factories, i.files, i.env, i.syn, i.importEnd, i.store⟩
  | _ =>
    rw [evalImportSet] at h
    split at h <;> rename_i he <;> cases h <;> exact ih.importSet he

/-- the factory `get_library` finds for a name that has no instance yet: the registered one, or
one made from the library file (which is then registered) -/
def findFactory (st : State) (name : LibName) (loc : Loc) : Except SErr Factory × State :=
  match libLookup st.factories name with
  | some f => (.ok f, st)
  | none =>
    match st.files.lookup (libPath name) with
    | none => (.error (.libNotFound, loc), st)
    | some .unreadable => (.error (.io, none), st)
    | some (.text t) =>
      match factoryOfText name t with
      | .ok f => (.ok f, { st with factories := libInsert st.factories name f })
      | .error e => (.error e, st)

/-- `new_library` -/
def newLibrary (fuel : Nat) (st : State) (f : Factory) : Except SErr (List (String × Value)) × State :=
  match f with
  | .native defs => (.ok defs, st)
  | .ast decls => evalLibraryDef fuel st decls

/-- the insertion into the instance cache after a successful instantiation -/
def cacheInstance (name : LibName) (res : Except SErr (List (String × Value)) × State) :
    Except SErr (List (String × Value)) × State :=
  match res.1 with
  | .ok defs => (.ok defs, { res.2 with instances := libInsert res.2.instances name defs })
  | .error e => (.error e, res.2)

def instantiate (fuel : Nat) (st : State) (f : Factory) (name : LibName) :
    Except SErr (List (String × Value)) × State :=
  cacheInstance name (newLibrary fuel st f)

theorem getLibrary_succ_eq (fuel : Nat) (st : State) (name : LibName) (loc : Loc) :
    Interp.getLibrary (fuel + 1) st name loc =
      match libLookup st.instances name with
      | some defs => (.ok defs, st)
      | none =>
        match findFactory st name loc with
        | (.error e, st) => (.error e, st)
        | (.ok f, st) => instantiate fuel st f name := by
  rw [Interp.getLibrary]
  rfl

theorem findFactory_inv (hR : StoreRel R) {st name loc r st'} (hnone : libLookup st.instances name = none)
    (h : findFactory st name loc = (r, st')) : Inv R st st' ∧ libLookup st'.instances name = none := by
  unfold findFactory at h
  split at h
  · cases h; exact ⟨Inv.refl hR _, hnone⟩
  · rename_i hf
    split at h
    · cases h; exact ⟨Inv.refl hR _, hnone⟩
    · cases h; exact ⟨Inv.refl hR _, hnone⟩
    · split at h
      · cases h
        refine ⟨⟨rfl, fun _ _ h => h, ?_, rfl, rfl, rfl, rfl, hR.refl _⟩, hnone⟩
        intro n f' h'
        exact libLookup_libInsert_of_some _ hf h'
      · cases h; exact ⟨Inv.refl hR _, hnone⟩

theorem cacheInstance_inv {st name res r st'}
    (hnone : libLookup st.instances name = none) (i : Inv R st res.2)
    (h : cacheInstance name res = (r, st')) : Inv R st st' := by
  unfold cacheInstance at h
  split at h
  · cases h
    refine ⟨i.inProgress, ?_, i.factories, i.files, i.env, i.syn, i.importEnd, i.store⟩
    intro n d hn
    have hne : n ≠ name := by rintro rfl; simp [hnone] at hn
    simpa [libLookup_libInsert_ne _ _ hne] using i.instances n d hn
  · cases h; exact i

theorem newLibrary_inv (hR : StoreRel R) {fuel} (ih : InvAt R fuel) (st f) :
    Inv R st (newLibrary fuel st f).2 := by
  unfold newLibrary
  cases f with
  | native defs => exact Inv.refl hR _
  | ast decls => exact ih.libraryDef (r := _) (st' := _) rfl

theorem instantiate_inv (hR : StoreRel R) {fuel} (ih : InvAt R fuel) {st f name r st'}
    (hnone : libLookup st.instances name = none)
    (h : instantiate fuel st f name = (r, st')) : Inv R st st' :=
  cacheInstance_inv hnone (newLibrary_inv hR ih st f) h

theorem getLibrary_succ (hR : StoreRel R) {fuel} (ih : InvAt R fuel) {st name loc r st'}
    (h : Interp.getLibrary (fuel + 1) st name loc = (r, st')) : Inv R st st' := by
  rw [getLibrary_succ_eq] at h
  split at h
  · cases h; exact Inv.refl hR _
  · rename_i hnone
    split at h
    · rename_i hf; cases h; exact (findFactory_inv hR hnone hf).1
    · rename_i hf
      have ⟨i1, hn⟩ := findFactory_inv hR hnone hf
      exact Inv.trans hR i1 (instantiate_inv hR ih hn h)


theorem import_succ (hR : StoreRel R) {fuel} (ih : InvAt R fuel) {st sets ρ r st'}
    (h : evalImport (fuel + 1) st sets ρ = (r, st')) : Inv R st st' := by
  rw [evalImport] at h
  split at h <;> rename_i he <;> cases h
  · exact ih.importSets he
  · exact Inv.trans hR (ih.importSets he) (Inv.store_step _ (foldl_define_rel hR _ _ _))

theorem importSets_succ (hR : StoreRel R) {fuel} (ih : InvAt R fuel) {st sets acc r st'}
    (h : evalImportSets (fuel + 1) st sets acc = (r, st')) : Inv R st st' := by
  cases sets with
  | nil => rw [evalImportSets] at h; cases h; exact Inv.refl hR _
  | cons s rest =>
    rw [evalImportSets] at h
    split at h <;> rename_i he
    · cases h; exact ih.importSet he
    · exact Inv.trans hR (ih.importSet he) (ih.importSets h)

theorem libraryDef_succ (hR : StoreRel R) {fuel} (ih : InvAt R fuel) {st decls r st'}
    (h : evalLibraryDef (fuel + 1) st decls = (r, st')) : Inv R st st' := by
  rw [evalLibraryDef] at h
  simp only [Store.newFrame] at h
  split at h <;> rename_i he <;> cases h <;>
    exact Inv.trans hR (Inv.store_step _ (hR.newFrame st.store none)) (ih.libDecls he)

theorem libDecls_succ (hR : StoreRel R) {fuel} (ih : InvAt R fuel) {st ρ decls acc r st'}
    (h : evalLibDecls (fuel + 1) st ρ decls acc = (r, st')) : Inv R st st' := by
  cases decls with
  | nil => rw [evalLibDecls] at h; cases h; exact Inv.refl hR _
  | cons d ds =>
    cases d <;> rw [evalLibDecls] at h
    · split at h <;> rename_i he
      · cases h; exact ih.import_ he
      · exact Inv.trans hR (ih.import_ he) (ih.libDecls h)
    · exact ih.libDecls h
    · split at h <;> rename_i he
      · cases h; exact ih.statements he
      · exact Inv.trans hR (ih.statements he) (ih.libDecls h)

theorem statements_succ (hR : StoreRel R) {fuel} (ih : InvAt R fuel) {st ρ ss r st'}
    (h : evalStatements (fuel + 1) st ρ ss = (r, st')) : Inv R st st' := by
  cases ss with
  | nil => rw [evalStatements] at h; cases h; exact Inv.refl hR _
  | cons s rest =>
    rw [evalStatements] at h
    split at h <;> rename_i he
    · cases h; exact evalExprOrDef_inv hR he
    · exact Inv.trans hR (evalExprOrDef_inv hR he) (ih.statements h)

theorem invAt (hR : StoreRel R) : ∀ fuel, InvAt R fuel
  | 0 => invAt_zero hR
  | fuel + 1 =>
    have ih := invAt hR fuel
    ⟨importSet_succ hR ih, getLibrary_succ hR ih, import_succ hR ih, importSets_succ hR ih,
     libraryDef_succ hR ih, libDecls_succ hR ih, statements_succ hR ih⟩

/-- the trivial store relation: enough for everything that does not concern the store -/
theorem storeRel_true : StoreRel (fun _ _ => True) :=
  ⟨fun _ => trivial, fun _ _ => trivial, fun _ => trivial, fun _ _ _ _ => trivial, fun _ _ => trivial⟩

theorem getLibrary_ok_cached {fuel : Nat} {st st' : State} {name : LibName} {loc : Loc} {defs : S.Bindings}
    (h : Interp.getLibrary fuel st name loc = (.ok defs, st')) :
    libLookup st'.instances name = some defs := by
  cases fuel with
  | zero => rw [Interp.getLibrary] at h; cases h
  | succ fuel =>
    rw [getLibrary_succ_eq] at h
    split at h
    · rename_i hc; cases h; exact hc
    · split at h
      · cases h
      · unfold instantiate cacheInstance at h
        split at h
        · cases h; exact libLookup_libInsert_self _ _ _
        · cases h

theorem evalAst_inv (hR : StoreRel R) {fuel st s r st'}
    (h : evalAst fuel st s = (r, st')) :
    ∃ st1, (st1 = st ∨ st1 = { st with importEnd := true }) ∧ Inv R st1 st' := by
  unfold evalAst at h
  generalize hres : (if (!st.importEnd) = true then _ else _ : Except SErr (Option Value) × State) = res at h
  have key : ∃ st1, (st1 = st ∨ st1 = { st with importEnd := true }) ∧ Inv R st1 res.2 := by
    subst hres
    split
    · split
      · split <;> rename_i he
        · exact ⟨st, .inl rfl, (invAt hR fuel).import_ he⟩
        · exact ⟨st, .inl rfl, (invAt hR fuel).import_ he⟩
      · exact ⟨st, .inl rfl, Inv.refl hR _⟩
      · exact ⟨_, .inr rfl, evalExprOrDef_inv hR (r := _) (st' := _) rfl⟩
    · exact ⟨st, .inl rfl, evalExprOrDef_inv hR (r := _) (st' := _) rfl⟩
  obtain ⟨r0, st0⟩ := res
  obtain ⟨st1, h1, i⟩ := key
  refine ⟨st1, h1, ?_⟩
  simp only at h i
  split at h <;> cases h <;> exact i
end Interp
end Ruschm

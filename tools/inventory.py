#!/usr/bin/env python3
"""Source inventories regenerated on every run and compared with committed expectations.
`globals`: process- or thread-global state in non-test Rust code (static, static mut,
thread_local!, lazy_static!, OnceCell/OnceLock/Lazy). Keyed by (file, enclosing fn, construct,
normalised declaration) — not by line number, so moving code does not alarm."""
import json, os, re, sys
REPO = "/repo"
PAT = re.compile(r"\b(static\s+mut|static|thread_local!|lazy_static!|OnceCell|OnceLock|once_cell|Lazy<|AtomicU|AtomicI|AtomicBool|Mutex<|RwLock<)")


def strip_tests(src):
    """drop #[test] functions and #[cfg(test)] items (brace matching)"""
    out, i = [], 0
    while True:
        m = re.search(r"#\[(test|cfg\(test\))\]", src[i:])
        if not m:
            out.append(src[i:]); break
        out.append(src[i:i + m.start()])
        j = i + m.end()
        k = src.find("{", j)
        semi = src.find(";", j)
        if semi != -1 and (k == -1 or semi < k):
            i = semi + 1; continue
        depth, p = 0, k
        while p < len(src):
            if src[p] == "{": depth += 1
            elif src[p] == "}":
                depth -= 1
                if depth == 0: break
            p += 1
        i = p + 1
    return "".join(out)


def globals_inventory():
    found = []
    for dp, _, fs in os.walk(os.path.join(REPO, "src")):
        for f in sorted(fs):
            if not f.endswith(".rs"):
                continue
            path = os.path.join(dp, f)
            src = strip_tests(open(path).read())
            src = re.sub(r"//[^\n]*", "", src)
            fn = None
            for line in src.split("\n"):
                m = re.search(r"\bfn\s+(\w+)", line)
                if m:
                    fn = m.group(1)
                m = PAT.search(line)
                if m and not re.search(r"'static|&'static|\bstatic\s+fn\b", line.replace(m.group(0), "", 0) if False else line) or (m and m.group(1) in ("thread_local!", "lazy_static!", "static mut")):
                    if m.group(1) == "static" and ("'static" in line) and not re.search(r"\bstatic\s+[A-Z_]+\s*:", line):
                        continue
                    found.append({"file": os.path.relpath(path, REPO), "fn": fn, "construct": m.group(1),
                                  "decl": re.sub(r"\s+", " ", line.strip())[:120]})
    return found


def main():
    inv = globals_inventory()
    if len(sys.argv) > 1 and sys.argv[1] == "--write":
        json.dump(inv, open("/verif/inventory/globals.json", "w"), indent=1)
    print(json.dumps(inv, indent=1))


if __name__ == "__main__":
    main()

/-
Helper lemmas for property C02 (tail calls run in bounded space): the activation counters
`Store.depth` / `Store.maxDepth` through every evaluator function.
-/
import RuschmProofs.ErrLemmas
namespace Ruschm.Eval
open Prim

/-! ## the activation counters -/

/-- what an evaluation step may do to the activation counters: `depth` is given back as it was
received, `maxDepth` does not decrease -/
def DepthOk (σ σ' : Store) : Prop := σ'.depth = σ.depth ∧ σ.maxDepth ≤ σ'.maxDepth

theorem DepthOk.refl (σ : Store) : DepthOk σ σ := ⟨rfl, Nat.le_refl _⟩
theorem DepthOk.trans {σ₁ σ₂ σ₃ : Store} (h₁ : DepthOk σ₁ σ₂) (h₂ : DepthOk σ₂ σ₃) : DepthOk σ₁ σ₃ :=
  ⟨h₂.1.trans h₁.1, Nat.le_trans h₁.2 h₂.2⟩
theorem DepthOk.of_eq {σ σ' : Store} (hd : σ'.depth = σ.depth) (hm : σ'.maxDepth = σ.maxDepth) : DepthOk σ σ' :=
  ⟨hd, Nat.le_of_eq hm.symm⟩

theorem define_counters (σ : Store) (ρ : Nat) (k : String) (v : Value) :
    (σ.define ρ k v).depth = σ.depth ∧ (σ.define ρ k v).maxDepth = σ.maxDepth := by
  unfold Store.define; split <;> exact ⟨rfl, rfl⟩

theorem set_counters (σ : Store) (ρ : Nat) (k : String) (v : Value) :
    (σ.set ρ k v).2.depth = σ.depth ∧ (σ.set ρ k v).2.maxDepth = σ.maxDepth := by
  unfold Store.set; split
  · exact define_counters ..
  · exact ⟨rfl, rfl⟩

theorem bindFixed_counters : ∀ (fs : List String) (as : List Value) (σ : Store) (ρ : Nat),
    (bindFixed σ ρ fs as).2.depth = σ.depth ∧ (bindFixed σ ρ fs as).2.maxDepth = σ.maxDepth
  | [], _, _, _ => ⟨rfl, rfl⟩
  | _ :: _, [], _, _ => ⟨rfl, rfl⟩
  | f :: fs, a :: as, σ, ρ => by
    rw [bindFixed]
    have h := bindFixed_counters fs as (σ.define ρ f a) ρ
    have h' := define_counters σ ρ f a
    exact ⟨h.1.trans h'.1, h.2.trans h'.2⟩

theorem readLiteral_counters (σ : Store) (d : Datum) :
    (readLiteral σ d).2.depth = σ.depth ∧ (readLiteral σ d).2.maxDepth = σ.maxDepth :=
  have h := (readLiteral_litExt d σ).rest
  ⟨h.2.2.2.1, h.2.2.2.2⟩

theorem lift_counters {α} (σ : Store) (r : Except Err α) (k : α → Value) :
    (lift σ r k).2.depth = σ.depth ∧ (lift σ r k).2.maxDepth = σ.maxDepth := by
  unfold lift; split <;> exact ⟨rfl, rfl⟩

theorem num1_counters (σ : Store) (args b f) :
    (num1 σ args b f).2.depth = σ.depth ∧ (num1 σ args b f).2.maxDepth = σ.maxDepth := by
  unfold num1
  repeat' split
  all_goals exact ⟨rfl, rfl⟩

theorem num2_counters (σ : Store) (args b f) :
    (num2 σ args b f).2.depth = σ.depth ∧ (num2 σ args b f).2.maxDepth = σ.maxDepth := by
  unfold num2
  repeat' split
  all_goals exact ⟨rfl, rfl⟩

/-- native procedures do not touch the activation counters -/
theorem applyPure_counters (σ : Store) (b : Builtin) (args : List Value) :
    (applyPure σ b args).2.depth = σ.depth ∧ (applyPure σ b args).2.maxDepth = σ.maxDepth := by
  cases b
  all_goals simp only [applyPure, realFn, realFn2]
  all_goals first
    | exact lift_counters ..
    | exact num1_counters ..
    | exact num2_counters ..
    | (repeat' split
       all_goals exact ⟨rfl, rfl⟩)

theorem depthOk_enter_leave {σ σ₁ : Store} (h : DepthOk (enter σ) σ₁) : DepthOk σ (leave σ₁) := by
  obtain ⟨hd, hm⟩ := h
  refine ⟨?_, ?_⟩
  · show σ₁.depth - 1 = σ.depth
    rw [hd]; show σ.depth + 1 - 1 = σ.depth; omega
  · show σ.maxDepth ≤ σ₁.maxDepth
    exact Nat.le_trans (Nat.le_max_left _ _) hm

/-- all eight evaluator functions, for one amount of fuel -/
structure Depth (n : Nat) : Prop where
  expr : ∀ σ ρ e, DepthOk σ (evalExpr n σ ρ e).2
  args : ∀ σ ρ es, DepthOk σ (evalArgs n σ ρ es).2
  proc : ∀ σ p as env, DepthOk σ (applyProcedure n σ p as env).2
  loop : ∀ σ p as env, DepthOk σ (applyLoop n σ p as env).2
  scheme : ∀ σ lam cenv as, DepthOk σ (applyScheme n σ lam cenv as).2
  defs : ∀ σ ρ ds, DepthOk σ (evalDefs n σ ρ ds).2
  body : ∀ σ ρ es, DepthOk σ (evalBody n σ ρ es).2
  tail : ∀ σ ρ e, DepthOk σ (evalTail n σ ρ e).2

theorem depth_expr {n} (ih : Depth n) (σ ρ e) : DepthOk σ (evalExpr (n+1) σ ρ e).2 := by
  cases e with
  | prim p l => rw [evalExpr]; split <;> exact .refl σ
  | datum d l => rw [evalExpr]; exact .of_eq (readLiteral_counters σ d).1 (readLiteral_counters σ d).2
  | quote d l => rw [evalExpr]; exact .of_eq (readLiteral_counters σ d).1 (readLiteral_counters σ d).2
  | lambda lam l => rw [evalExpr]; exact .refl σ
  | sym s l => rw [evalExpr]; split <;> exact .refl σ
  | assign name ve l =>
    rw [evalExpr]
    have h₁ := ih.expr σ ρ ve
    split
    · rename_i heq; rw [heq] at h₁; exact h₁
    · rename_i v σ₁ heq; rw [heq] at h₁
      have hs := set_counters σ₁ ρ name v
      split
      · rename_i heq₂; rw [heq₂] at hs; exact h₁.trans (.of_eq hs.1 hs.2)
      · rename_i heq₂; rw [heq₂] at hs; exact h₁.trans (.of_eq hs.1 hs.2)
  | cond t c a l =>
    rw [evalExpr]
    have h₁ := ih.expr σ ρ t
    split
    · rename_i heq; rw [heq] at h₁; exact h₁
    · rename_i tv σ₁ heq; rw [heq] at h₁
      split
      · exact h₁.trans (ih.expr ..)
      · split
        · exact h₁.trans (ih.expr ..)
        · exact h₁
  | call f args l =>
    rw [evalExpr]
    have h₁ := ih.expr σ ρ f
    split
    · rename_i heq; rw [heq] at h₁; exact h₁
    · rename_i fv σ₁ heq; rw [heq] at h₁
      have h₂ := ih.args σ₁ ρ args
      split
      rename_i rargs σ₂ heq₂
      rw [heq₂] at h₂
      split
      · split
        · exact h₁.trans h₂
        · exact (h₁.trans h₂).trans (ih.proc ..)
      · split <;> exact h₁.trans h₂

theorem depth_args {n} (ih : Depth n) (σ ρ es) : DepthOk σ (evalArgs (n+1) σ ρ es).2 := by
  cases es with
  | nil => rw [evalArgs]; exact .refl σ
  | cons a as =>
    rw [evalArgs]
    have h₁ := ih.expr σ ρ a
    split
    · rename_i heq; rw [heq] at h₁; exact h₁
    · rename_i v σ₁ heq; rw [heq] at h₁
      have h₂ := ih.args σ₁ ρ as
      split
      · rename_i heq₂; rw [heq₂] at h₂; exact h₁.trans h₂
      · rename_i heq₂; rw [heq₂] at h₂; exact h₁.trans h₂

theorem depth_proc {n} (ih : Depth n) (σ p as env) : DepthOk σ (applyProcedure (n+1) σ p as env).2 := by
  rw [applyProcedure]
  have h := ih.loop (enter σ) p as env
  split
  rename_i r σ₁ heq
  rw [heq] at h
  exact depthOk_enter_leave h

theorem depth_loop {n} (ih : Depth n) (σ p as env) : DepthOk σ (applyLoop (n+1) σ p as env).2 := by
  unfold applyLoop
  split
  · exact .refl σ
  · split
    · exact .refl σ
    · split
      · split
        · exact .refl σ
        · exact ih.loop ..
      · exact .of_eq (applyPure_counters ..).1 (applyPure_counters ..).2
      · rename_i lam cenv _
        have h₁ := ih.scheme σ lam cenv as
        split
        · rename_i heq; rw [heq] at h₁; exact h₁
        · rename_i heq; rw [heq] at h₁; exact h₁
        · rename_i f targs tenv σ₁ heq; rw [heq] at h₁
          have h₂ := ih.expr σ₁ tenv f
          split
          · rename_i heq₂; rw [heq₂] at h₂; exact h₁.trans h₂
          · rename_i fv σ₂ heq₂; rw [heq₂] at h₂
            have h₃ := ih.args σ₂ tenv targs
            split
            · rename_i heq₃; rw [heq₃] at h₃; exact (h₁.trans h₂).trans h₃
            · rename_i vs σ₃ heq₃; rw [heq₃] at h₃
              split
              · exact (h₁.trans h₂).trans h₃
              · exact ((h₁.trans h₂).trans h₃).trans (ih.loop ..)
      · exact .refl σ

theorem depth_scheme {n} (ih : Depth n) (σ lam cenv as) : DepthOk σ (applyScheme (n+1) σ lam cenv as).2 := by
  rw [applyScheme_succ]
  have hb := bindFixed_counters lam.formals.fixed as (σ.newFrame (some cenv)).2 (σ.newFrame (some cenv)).1
  have h₀ : DepthOk σ (bindFixed (σ.newFrame (some cenv)).2 (σ.newFrame (some cenv)).1 lam.formals.fixed as).2 :=
    .of_eq hb.1 hb.2
  split
  · rename_i heq; rw [heq] at h₀; exact h₀
  · rename_i restArgs σ₁ heq; rw [heq] at h₀
    have hr : DepthOk σ₁ (Ref.bindRest σ₁ (σ.newFrame (some cenv)).1 lam.formals.rest restArgs) := by
      unfold Ref.bindRest; split
      · exact .of_eq (define_counters ..).1 (define_counters ..).2
      · exact .refl _
    have h₁ := ih.defs (Ref.bindRest σ₁ (σ.newFrame (some cenv)).1 lam.formals.rest restArgs)
      (σ.newFrame (some cenv)).1 lam.defs
    split
    · rename_i heq₂; rw [heq₂] at h₁; exact (h₀.trans hr).trans h₁
    · rename_i heq₂; rw [heq₂] at h₁; exact ((h₀.trans hr).trans h₁).trans (ih.body ..)

theorem depth_defs {n} (ih : Depth n) (σ ρ ds) : DepthOk σ (evalDefs (n+1) σ ρ ds).2 := by
  cases ds with
  | nil => rw [evalDefs]; exact .refl σ
  | cons d ds =>
    obtain ⟨name, e, l⟩ := d
    rw [evalDefs]
    have h₁ := ih.expr σ ρ e
    split
    · rename_i heq; rw [heq] at h₁; exact h₁
    · rename_i v σ₁ heq; rw [heq] at h₁
      exact (h₁.trans (.of_eq (define_counters ..).1 (define_counters ..).2)).trans (ih.defs ..)

theorem depth_body {n} (ih : Depth n) (σ ρ es) : DepthOk σ (evalBody (n+1) σ ρ es).2 := by
  match es with
  | [] => rw [evalBody]; exact .refl σ
  | [last] => rw [evalBody]; exact ih.tail ..
  | e :: e2 :: es =>
    rw [evalBody]
    · have h₁ := ih.expr σ ρ e
      split
      · rename_i heq; rw [heq] at h₁; exact h₁
      · rename_i v σ₁ heq; rw [heq] at h₁; exact h₁.trans (ih.body ..)
    all_goals simp

theorem depth_tail {n} (ih : Depth n) (σ ρ e) : DepthOk σ (evalTail (n+1) σ ρ e).2 := by
  unfold evalTail
  split
  · exact .refl σ
  · rename_i t c a l
    have h₁ := ih.expr σ ρ t
    split
    · rename_i heq; rw [heq] at h₁; exact h₁
    · rename_i tv σ₁ heq; rw [heq] at h₁
      split
      · exact h₁.trans (ih.tail ..)
      · split
        · exact h₁.trans (ih.tail ..)
        · exact h₁
  · have h₁ := ih.expr σ ρ e
    split
    · rename_i heq; rw [heq] at h₁; exact h₁
    · rename_i heq; rw [heq] at h₁; exact h₁

theorem depth_all : ∀ n, Depth n
  | 0 => by
    constructor <;> intros <;>
      simp only [evalExpr, evalArgs, applyProcedure, applyLoop, applyScheme, evalDefs, evalBody, evalTail] <;>
      exact .refl _
  | n+1 =>
    have ih := depth_all n
    ⟨depth_expr ih, depth_args ih, depth_proc ih, depth_loop ih, depth_scheme ih, depth_defs ih,
     depth_body ih, depth_tail ih⟩

/-! ### the judgements keep the counters -/

theorem Stable.depthOk {α} {f : Nat → Res α} {σ r σ'} (h : Stable f r σ') (hd : ∀ n, DepthOk σ (f n).2) :
    DepthOk σ σ' := by
  obtain ⟨_, N, hN⟩ := h
  have := hd N; rw [hN N (Nat.le_refl _)] at this; exact this

theorem Evals.depthOk {σ ρ e r σ'} (h : Evals σ ρ e r σ') : DepthOk σ σ' :=
  Stable.depthOk h fun n => (depth_all n).expr σ ρ e
theorem EvalsArgs.depthOk {σ ρ es r σ'} (h : EvalsArgs σ ρ es r σ') : DepthOk σ σ' :=
  Stable.depthOk h fun n => (depth_all n).args σ ρ es
theorem AppliesProc.depthOk {σ p as env r σ'} (h : AppliesProc σ p as env r σ') : DepthOk σ σ' :=
  Stable.depthOk h fun n => (depth_all n).proc σ p as env
theorem Applies.depthOk {σ p as env r σ'} (h : Applies σ p as env r σ') : DepthOk σ σ' :=
  Stable.depthOk h fun n => (depth_all n).loop σ p as env
theorem AppliesScheme.depthOk {σ lam cenv as r σ'} (h : AppliesScheme σ lam cenv as r σ') : DepthOk σ σ' :=
  Stable.depthOk h fun n => (depth_all n).scheme σ lam cenv as
theorem EvalsDefs.depthOk {σ ρ ds r σ'} (h : EvalsDefs σ ρ ds r σ') : DepthOk σ σ' :=
  Stable.depthOk h fun n => (depth_all n).defs σ ρ ds
theorem EvalsBody.depthOk {σ ρ es r σ'} (h : EvalsBody σ ρ es r σ') : DepthOk σ σ' :=
  Stable.depthOk h fun n => (depth_all n).body σ ρ es
theorem EvalsTail.depthOk {σ ρ e r σ'} (h : EvalsTail σ ρ e r σ') : DepthOk σ σ' :=
  Stable.depthOk h fun n => (depth_all n).tail σ ρ e

/-! ## inversion of the trampoline steps -/

/-- a stable run, looked at one unit of fuel later -/
theorem Stable.at_succ {α} {f : Nat → Res α} {r σ'} (h : Stable f r σ') (M : Nat) :
    ∃ n, M ≤ n ∧ f (n+1) = (r, σ') := by
  obtain ⟨_, N, hN⟩ := h
  exact ⟨max M N, Nat.le_max_left _ _, hN _ (by omega)⟩

/-- a pending tail call: the loop on the caller IS the loop continued with the callee, in the store
left by operator and operands — there is no other way for it to end -/
theorem Applies.closure_tail_iff {σ : Store} {lam : Lambda} {cenv : Nat} {args : List Value} {env : Nat}
    {f targs tenv σ₁ fv σ₂ vs σ₃}
    (ha : arityOk lam.formals.fixed.length lam.formals.rest.isSome args.length = true)
    (hs : AppliesScheme σ lam cenv args (.ok (.tailCall f targs tenv)) σ₁)
    (hf : Evals σ₁ tenv f (.ok fv) σ₂) (hargs : EvalsArgs σ₂ tenv targs (.ok vs) σ₃)
    (hp : (procArity fv).isSome) (r σ') :
    Applies σ (.closure lam cenv) args env r σ' ↔ Applies σ₃ fv vs env r σ' := by
  constructor
  · intro h
    obtain ⟨_, N₁, h₁⟩ := hs.out; obtain ⟨_, N₂, h₂⟩ := hf.out; obtain ⟨_, N₃, h₃⟩ := hargs.out
    obtain ⟨n, hn, hrun⟩ := Stable.at_succ h (max N₁ (max N₂ N₃))
    rw [applyLoop_tail_step n env ha (h₁ n (by omega)) (h₂ n (by omega)) (h₃ n (by omega)) hp] at hrun
    exact Applies.intro hrun h.1
  · exact Applies.closure_tail ha hs hf hargs hp

/-- `apply`: the loop on `apply` IS the loop continued with the procedure it was handed, in the
same store -/
theorem Applies.apply_iff {σ : Store} {args : List Value} {env : Nat} {f args'} (ha : 1 ≤ args.length)
    (hs : spreadApply args = .ok (f, args')) (r σ') :
    Applies σ (.builtin .apply) args env r σ' ↔ Applies σ f args' env r σ' := by
  constructor
  · intro h
    obtain ⟨n, _, hrun⟩ := Stable.at_succ h 0
    rw [applyLoop_apply_step n σ env ha hs] at hrun
    exact Applies.intro hrun h.1
  · exact Applies.apply ha hs

/-- an activation IS the loop run one level deeper -/
theorem AppliesProc.iff_loop {σ p args env r σ'} :
    AppliesProc σ p args env r σ' ↔ ∃ σ₁, Applies (enter σ) p args env r σ₁ ∧ σ' = leave σ₁ := by
  constructor
  · intro h
    obtain ⟨n, _, hrun⟩ := Stable.at_succ h 0
    simp only [applyProcedure] at hrun
    cases hl : applyLoop n (enter σ) p args env with
    | mk r₁ σ₁ =>
      rw [hl] at hrun
      simp only [Prod.mk.injEq] at hrun
      obtain ⟨rfl, rfl⟩ := hrun
      exact ⟨σ₁, Applies.intro hl h.1, rfl⟩
  · rintro ⟨σ₁, h, rfl⟩; exact AppliesProc.of_loop h

/-! ## tail expressions -/

theorem EvalsSeq.depthOk {ρ σ es σ'} (h : EvalsSeq ρ σ es σ') : DepthOk σ σ' := by
  induction h with
  | nil => exact .refl _
  | cons h _ ih => exact h.depthOk.trans ih

theorem EvalsTail.cond_iff {σ ρ t c a l tv σ₁} (ht : Evals σ ρ t (.ok tv) σ₁) (r σ') :
    EvalsTail σ ρ (.cond t c a l) r σ' ↔
      if tv.truthy then EvalsTail σ₁ ρ c r σ'
      else match a with
        | some alt => EvalsTail σ₁ ρ alt r σ'
        | none => r = .ok (.value .void) ∧ σ' = σ₁ := by
  constructor
  · intro h
    obtain ⟨_, N₁, h₁⟩ := ht.out
    obtain ⟨n, hn, hrun⟩ := Stable.at_succ h N₁
    rw [evalTail, h₁ n hn] at hrun
    simp only at hrun
    split
    · rename_i htv; rw [if_pos htv] at hrun; exact EvalsTail.intro hrun h.1
    · rename_i htv; rw [if_neg htv] at hrun
      split
      · exact EvalsTail.intro hrun h.1
      · simp only [Prod.mk.injEq] at hrun; exact ⟨hrun.1.symm, hrun.2.symm⟩
  · intro h
    split at h
    · exact EvalsTail.cond_true ht ‹_› h
    · have htv : tv.truthy = false := by simpa using ‹¬ tv.truthy = true›
      split at h
      · exact EvalsTail.cond_false ht htv h
      · obtain ⟨rfl, rfl⟩ := h; exact EvalsTail.cond_void ht htv

end Ruschm.Eval

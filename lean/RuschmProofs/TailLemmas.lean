/-
Helper lemmas for property C02 (tail calls run in bounded space).
-/
import RuschmProofs.ErrLemmas
namespace Ruschm.Eval
open Prim

end Ruschm.Eval

/-
The concrete syntax of import sets, import declarations, library names, export specs and library
declarations, as DATA: a rendering of the parser's own terms (`ImportSet`, `LibName`, `ExportSpec`,
`LibDecl`) into `Datum`, and an exact, fuel-free and state-free description (`Accepts`) of the data
the parser's `transform_import_set` (`Xform.toImportSet`) accepts.

The rendered data carry no locations (`none` everywhere) and are proper lists of exactly the
elements R7RS prescribes.  The parser itself is more liberal (it reads the improper tail of a
dotted list as a last element and ignores elements after the ones it needs): `Accepts false` is
what it accepts, `Accepts true` is the rendered shape; the theorems are in
`RuschmProofs/C12More.lean`, helper lemmas in `RuschmProofs/ImportSyntaxLemmas.lean`.
-/
import RuschmSpec.Lib
import RuschmSpec.Unloc

namespace Ruschm.ImportSyntax
open Ruschm

/-- an identifier, without location -/
def sym (s : String) : Datum := .sym s none

/-- a proper list, without locations -/
def lst (xs : List Datum) : Datum := Datum.ofList none xs

/-- a part of a library name: an identifier or an unsigned integer -/
def renderElem : LibElem → Datum
  | .ident s => sym s
  | .int n => .prim (.int (Int.ofNat n)) none

/-- `(part …)` -/
def renderName (n : LibName) : Datum := lst (n.map renderElem)

/-- `(a b)`, an entry of an import `rename` -/
def renderPair (p : String × String) : Datum := lst [sym p.1, sym p.2]

/-- an import set: `(part …)`, `(only set id …)`, `(except set id …)`, `(prefix set id)`,
`(rename set (a b) …)` -/
def renderSet : ImportSet → Datum
  | .direct n _ => renderName n
  | .only s ids => lst (sym "only" :: renderSet s :: ids.map sym)
  | .except s ids => lst (sym "except" :: renderSet s :: ids.map sym)
  | .prefix s p => lst [sym "prefix", renderSet s, sym p]
  | .rename s ps => lst (sym "rename" :: renderSet s :: ps.map renderPair)

/-- `(import set …)` -/
def renderImport (sets : List ImportSet) : Datum := lst (sym "import" :: sets.map renderSet)

/-- an export spec: `a` or `(rename a b)` -/
def renderExport : ExportSpec → Datum
  | .direct n _ => sym n
  | .rename a b _ => lst [sym "rename", sym a, sym b]

/-- a library declaration as written: the body of a `begin` is kept as data (how a body datum
becomes a statement is the business of C01/C04/C05, not of the library syntax) -/
inductive DeclSyn where
  | importDecl (sets : List ImportSet)
  | export (specs : List ExportSpec)
  | begin_ (body : List Datum)

/-- `(import set …)`, `(export spec …)`, `(begin datum …)` -/
def renderDecl : DeclSyn → Datum
  | .importDecl sets => renderImport sets
  | .export specs => lst (sym "export" :: specs.map renderExport)
  | .begin_ body => lst (sym "begin" :: body)

/-- `(define-library (part …) declaration …)` -/
def renderLibrary (name : LibName) (decls : List DeclSyn) : Datum :=
  lst (sym "define-library" :: renderName name :: decls.map renderDecl)

/-- the four operator names -/
def keywords : List String := ["only", "except", "prefix", "rename"]

/-- A library name that can be written as an import set: it starts with an identifier (the parser
demands an identifier first, before it knows that it reads a name) that is not one of the four
operator names (or the parser reads an operator). -/
def NameOk (n : LibName) : Prop := ∃ s rest, n = .ident s :: rest ∧ s ∉ keywords

instance (n : LibName) : Decidable (NameOk n) :=
  match n with
  | .ident s :: rest =>
    if h : s ∉ keywords then isTrue ⟨s, rest, rfl, h⟩
    else isFalse (fun ⟨_, _, e, h'⟩ => by cases e; exact h h')
  | [] => isFalse (fun ⟨_, _, e, _⟩ => by cases e)
  | .int _ :: _ => isFalse (fun ⟨_, _, e, _⟩ => by cases e)

/-- the library named by the term can be written as an import set -/
def WF : ImportSet → Prop
  | .direct n _ => NameOk n
  | .only s _ | .except s _ | .prefix s _ | .rename s _ => WF s

/-- the two lists have the same length and corresponding elements are related -/
def All2 {α β} (R : α → β → Prop) : List α → List β → Prop
  | [], [] => True
  | a :: as, b :: bs => R a b ∧ All2 R as bs
  | _, _ => False

/-- the data are the identifiers `ids`, in order (locations free) -/
def Idents (ds : List Datum) (ids : List String) : Prop :=
  All2 (fun d i => ∃ l, d = Datum.sym i l) ds ids

/-- the datum is a part of a library name -/
def PartOf (d : Datum) (e : LibElem) : Prop :=
  (∃ s l, d = .sym s l ∧ e = .ident s) ∨ (∃ n l, d = .prim (.int (Int.ofNat n)) l ∧ e = .int n)

/-- a pair or the empty list: what `expect_list` lets through -/
def IsList : Datum → Prop
  | .pair .. | .nil _ => True
  | _ => False

/-- `pd` is read as the renaming `(a b)`: a list (possibly dotted) that starts with two
identifiers; if `strict`, a proper list of exactly these two -/
def PairOf (strict : Bool) (pd : Datum) (p : String × String) : Prop :=
  IsList pd ∧ ∃ la lb junk, pd.elems = .sym p.1 la :: .sym p.2 lb :: junk ∧
    (strict = true → junk = [] ∧ pd.spine.2 = none)

/-- `Accepts false d t`: EXACTLY the data the parser reads as the import set `t`
(`C12More.toImportSet_ok_iff`). The parser looks at `d.elems`, the elements of a list followed by
the tail of a dotted list, and ignores what follows the elements it needs.
`Accepts true d t`: in addition every list read is proper and nothing is ignored; that is,
`d` is the rendering of `t` up to locations (`C12More.strict_shape_is_rendering`). -/
inductive Accepts (strict : Bool) : Datum → ImportSet → Prop
  | direct {d s l rest n} : IsList d → d.elems = .sym s l :: rest → s ∉ keywords →
      All2 PartOf d.elems n → (strict = true → d.spine.2 = none) →
      Accepts strict d (.direct n l)
  | only {d l sd rest t ids} : IsList d → d.elems = .sym "only" l :: sd :: rest →
      Accepts strict sd t → Idents rest ids → (strict = true → d.spine.2 = none) →
      Accepts strict d (.only t ids)
  | except {d l sd rest t ids} : IsList d → d.elems = .sym "except" l :: sd :: rest →
      Accepts strict sd t → Idents rest ids → (strict = true → d.spine.2 = none) →
      Accepts strict d (.except t ids)
  | prefix {d l sd p lp junk t} : IsList d → d.elems = .sym "prefix" l :: sd :: .sym p lp :: junk →
      Accepts strict sd t → (strict = true → junk = [] ∧ d.spine.2 = none) →
      Accepts strict d (.prefix t p)
  | rename {d l sd rest t ps} : IsList d → d.elems = .sym "rename" l :: sd :: rest →
      Accepts strict sd t → All2 (PairOf strict) rest ps →
      (strict = true → d.spine.2 = none) →
      Accepts strict d (.rename t ps)


/-! ## what a written library declaration is expected to become -/

/-- The expected parse of a written declaration by `transform_library_declaration` run with
recursion bound `fuel`: an import declaration becomes the import sets written, an export
declaration the export entries written, in order; the data of a `begin` body are handed, in order,
to the statement parser (which may define syntax on the way: the only part that touches the syntax
environment). Locations are `none`, the rendering has none. -/
def expectDecl : Nat → DeclSyn → Xform.XM LibDecl
  | 0, _ => Xform.fail (.fuel, none)
  | _ + 1, .importDecl sets => pure (.importDecl (sets.map ImportSet.unloc))
  | _ + 1, .export specs => pure (.export (specs.map ExportSpec.unloc))
  | fuel + 1, .begin_ body => do
    let b ← Xform.toStatements fuel body
    pure (.begin_ b)

/-- the declarations one after the other, in textual order (the recursion bound goes down by one
per declaration, as in the model) -/
def expectDecls : Nat → List DeclSyn → Xform.XM (List LibDecl)
  | 0, _ => Xform.fail (.fuel, none)
  | _ + 1, [] => pure []
  | fuel + 1, x :: xs => do
    let a ← expectDecl fuel x
    let as ← expectDecls fuel xs
    pure (a :: as)

/-- all export specs written in a library, in textual order -/
def writtenExports : List DeclSyn → List ExportSpec
  | [] => []
  | .export specs :: ds => specs ++ writtenExports ds
  | _ :: ds => writtenExports ds

/-- the import sets written in a library, in textual order -/
def writtenImports : List DeclSyn → List ImportSet
  | [] => []
  | .importDecl sets :: ds => sets ++ writtenImports ds
  | _ :: ds => writtenImports ds

/-- the import sets of a parsed library, in order -/
def parsedImports : List LibDecl → List ImportSet
  | [] => []
  | .importDecl sets :: ds => sets ++ parsedImports ds
  | _ :: ds => parsedImports ds

/-- the import sets of the declaration can be written (`WF`) and are parsed within the bound -/
def DeclOk (fuel : Nat) : DeclSyn → Prop
  | .importDecl sets => ∀ t ∈ sets, WF t ∧ S.depth t < fuel
  | _ => True

end Ruschm.ImportSyntax

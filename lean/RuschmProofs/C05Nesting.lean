/-
Property C05, NESTING — the parser's transformer re-expands until no macro use is left, and what it
builds for an arbitrarily nested surface program is the structural, compositional desugaring.

`C05Shapes.lean` proves ONE expansion step for each of the 28 rules of the bundled grammar (the
generated constant `Gen.grammarData`, reached through `Interp.grammarScope`); `C05Meaning.lean` gives
the evaluation rules of each form.  Here the steps are composed at the syntactic level: for EVERY
surface expression `s : Desugar.Surf` (`RuschmSpec/Desugar.lean`: the core forms and the nine derived
forms `begin let let* cond case and or when unless`, with all their clause kinds, derived forms
allowed in every sub-form position, nested to any depth) the transformer (`RuschmModel/Xform.lean`
`toStatement`, Rust `transform_to_statement`: a list whose head is a macro keyword is expanded by
`Transformer::transform` and the result is transformed again) turns the printed form `print s`
into exactly `desugar s`, the tree written down from the R7RS definitions of the derived forms as
`grammar.sld` implements them (non-hygienic `x`, `temp`, `atom-key`; `memv`, `not`, `null?`).

Because the theorems are about `Gen.grammarData`, any edit of `grammar.sld` re-opens them.
Helper lemmas: `RuschmProofs/DesugarLemmas.lean`.
-/
import RuschmProofs.DesugarLemmas
import RuschmProofs.C05Meaning

set_option linter.unusedSimpArgs false
set_option linter.unusedVariables false

namespace Ruschm.C05Nesting
open Ruschm Ruschm.Xform Ruschm.CoreSyntax Ruschm.Macro Ruschm.C05 Ruschm.Desugar

mutual
private theorem ds_expr : ∀ (s : Surf), ok s = true → TrS (cost s) (print s) (desugar s)
  | .var x, _ => trS_var x
  | .lit p, _ => trS_prim p
  | .vec xs, _ => trS_vec xs
  | .quote d, _ => trS_quote d
  | .if2 t c, h => by
    simp only [ok, Bool.and_eq_true] at h
    exact trS_if2 (ds_expr t h.1) (ds_expr c h.2) (by simp only [cost]; omega) (by simp only [cost]; omega)
  | .if3 t c a, h => by
    simp only [ok, Bool.and_eq_true] at h
    exact trS_if3 (ds_expr t h.1.1) (ds_expr c h.1.2) (ds_expr a h.2) (by simp only [cost]; omega)
      (by simp only [cost]; omega) (by simp only [cost]; omega)
  | .lambda fixed rest body, h => by
    simp only [ok, Bool.and_eq_true, Bool.not_eq_true'] at h
    exact trS_lambda fixed rest ((ds_list body h.1).body (printList_ne_nil h.2)) (by simp only [cost]; omega)
  | .set x e, h => by
    simp only [ok] at h
    exact trS_set x (ds_expr e h) (by simp only [cost]; omega)
  | .call f args, h => by
    simp only [ok, Bool.and_eq_true] at h
    exact trS_call (headOkD_print h.1.1) (ds_expr f h.1.2) (ds_list args h.2).exprs (by simp only [cost]; omega)
      (by simp only [cost]; omega)
  | .begin_ body, h => by
    simp only [ok, Bool.and_eq_true, Bool.not_eq_true'] at h
    exact trS_begin ((ds_list body h.1).body (printList_ne_nil h.2)) (by simp only [cost]; omega)
  | .let_ bs body, h => by
    simp only [ok, Bool.and_eq_true, Bool.not_eq_true'] at h
    exact trS_let_binds (ds_binds bs h.1.1) ((ds_list body h.1.2).body (printList_ne_nil h.2))
      (by simp only [cost]; omega) (by simp only [cost]; omega)
  | .letstar bs body, h => by
    simp only [ok, Bool.and_eq_true, Bool.not_eq_true'] at h
    exact (trS_letstar (ds_binds bs h.1.1) ((ds_list body h.1.2).body (printList_ne_nil h.2))).mono
      (by simp only [cost]; omega)
  | .and_ es, h => by
    simp only [ok] at h
    exact trS_and (ds_list es h)
  | .or_ es, h => by
    simp only [ok] at h
    exact trS_or (ds_list es h)
  | .when_ t body, h => by
    simp only [ok, Bool.and_eq_true, Bool.not_eq_true'] at h
    exact trS_when (ds_expr t h.1.1) ((ds_list body h.1.2).body (printList_ne_nil h.2))
      (by simp only [cost]; omega) (by simp only [cost]; omega)
  | .unless_ t body, h => by
    simp only [ok, Bool.and_eq_true, Bool.not_eq_true'] at h
    exact trS_unless (ds_expr t h.1.1) ((ds_list body h.1.2).body (printList_ne_nil h.2))
      (by simp only [cost]; omega) (by simp only [cost]; omega)
  | .cond_ cs, h => by
    simp only [ok, Bool.and_eq_true, Bool.not_eq_true', List.isEmpty_eq_false_iff] at h
    exact (ds_cond cs h.1 h.2).mono (by simp only [cost]; omega)
  | .case_ k cs, h => by
    simp only [ok, Bool.and_eq_true, Bool.not_eq_true', List.isEmpty_eq_false_iff] at h
    have hk := ds_expr k h.1.1
    simp only [print, desugar]
    by_cases ha : atomic k = true
    · obtain ⟨h1, h2⟩ := atomic_key ha
      simp only [ha, if_true]
      exact (ds_case cs h.1.2 h.2 (print k) (desugar k) h1 h2).mono (by simp only [cost]; omega)
    · have ha' : atomic k = false := by simpa using ha
      obtain ⟨x, xs, e⟩ := print_not_atomic ha'
      simp only [ha', Bool.false_eq_true, if_false]
      rw [e] at hk ⊢
      exact trS_case_listkey hk (printCaseClauses_ne_nil h.2)
        (ds_case cs h.1.2 h.2 (ident "atom-key") (varE "atom-key") (notList_ident _) (trS_var _))
        (by simp only [cost]; omega) (by simp only [cost]; omega)
private theorem ds_list : ∀ (ss : List Surf), okList ss = true → TrAll (costList ss) (printList ss) (desugarList ss)
  | [], _ => .nil
  | s :: ss, h => by
    simp only [okList, Bool.and_eq_true] at h
    exact .cons (ds_expr s h.1) (ds_list ss h.2)
private theorem ds_binds : ∀ (bs : List Bind), okBinds bs = true → TrBinds (costBinds bs) (printBinds bs) (desugarBinds bs)
  | [], _ => .nil
  | .mk x v :: bs, h => by
    simp only [okBinds, Bool.and_eq_true] at h
    exact .cons (ds_expr v h.1) (ds_binds bs h.2)
private theorem ds_cond : ∀ (cs : List CondClause), okCond cs = true → cs ≠ [] →
    TrS (costCond cs) (lst (ident "cond" :: printCondClauses cs)) (desugarCond cs)
  | [], _, hne => absurd rfl hne
  | .test t :: tl, h, _ => by
    simp only [okCond, okCondClause, Bool.and_eq_true] at h
    have ih := ds_cond tl h.2
    by_cases htl : tl = []
    · subst htl
      exact trS_cond_test_last (ds_expr t h.1.1) (by simp only [costCond]; omega)
    · rw [desugarCond_test_more htl]
      exact trS_cond_test_more (ds_expr t h.1.1) (printCondClauses_ne_nil htl) (ih htl)
        (by simp only [costCond]; omega) (by simp only [costCond]; omega) (by simp only [costCond]; omega)
  | .arrow t r :: tl, h, _ => by
    simp only [okCond, okCondClause, Bool.and_eq_true, Bool.not_eq_true'] at h
    have ih := ds_cond tl h.2
    obtain ⟨⟨⟨⟨h1, h2⟩, h3⟩, h4⟩, _⟩ := h.1
    by_cases htl : tl = []
    · subst htl
      exact trS_cond_arrow_last (ds_expr t h1) (by rw [isSym_print]; exact h2) (headOkD_print h3) (ds_expr r h4)
        (by simp only [costCond]; omega) (by simp only [costCond]; omega) (by simp only [costCond]; omega)
    · rw [desugarCond_arrow_more htl]
      exact trS_cond_arrow_more (ds_expr t h1) (headOkD_print h3) (ds_expr r h4) (printCondClauses_ne_nil htl) (ih htl)
        (by simp only [costCond]; omega) (by simp only [costCond]; omega) (by simp only [costCond]; omega)
        (by simp only [costCond]; omega)
  | .normal t body :: tl, h, _ => by
    simp only [okCond, okCondClause, Bool.and_eq_true, Bool.not_eq_true'] at h
    have ih := ds_cond tl h.2
    obtain ⟨⟨⟨⟨⟨h1, h2⟩, h3⟩, h4⟩, h5⟩, _⟩ := h.1
    have hB := (ds_list body h3).body (printList_ne_nil h4)
    by_cases htl : tl = []
    · subst htl
      exact trS_cond_normal_last (ds_expr t h1) (by rw [isSym_print]; exact h2) hB (hna_of_arrowFree h5)
        (by simp only [costCond]; omega) (by simp only [costCond]; omega)
    · rw [desugarCond_normal_more htl]
      exact trS_cond_normal_more (ds_expr t h1) hB (hna_of_arrowFree h5) (printCondClauses_ne_nil htl) (ih htl)
        (by simp only [costCond]; omega) (by simp only [costCond]; omega) (by simp only [costCond]; omega)
  | .else_ body :: tl, h, _ => by
    simp only [okCond, okCondClause, isElseCond, Bool.and_eq_true, Bool.not_eq_true', Bool.not_true,
      Bool.false_or, List.isEmpty_iff] at h
    obtain ⟨⟨⟨h1, h2⟩, h3⟩, _⟩ := h
    subst h3
    exact trS_cond_else ((ds_list body h1).body (printList_ne_nil h2)) (by simp only [costCond]; omega)
private theorem ds_case : ∀ (cs : List CaseClause), okCase cs = true → cs ≠ [] → ∀ (K : Datum) (k' : Expr),
    NotList K → TrS 1 K k' → TrS (costCase cs) (lst (ident "case" :: K :: printCaseClauses cs)) (desugarCase k' cs)
  | [], _, hne, _, _, _, _ => absurd rfl hne
  | .elseArrow r :: tl, h, _, K, k', hk, hK => by
    simp only [okCase, okCaseClause, isElseCase, Bool.and_eq_true, Bool.not_eq_true', Bool.not_true,
      Bool.false_or, List.isEmpty_iff] at h
    obtain ⟨⟨⟨h1, h2⟩, h3⟩, _⟩ := h
    subst h3
    exact trS_case_else_arrow hk (headOkD_print h1) (ds_expr r h2) hK (by simp only [costCase]; omega)
      (by simp only [costCase]; omega)
  | .else_ body :: tl, h, _, K, k', hk, hK => by
    simp only [okCase, okCaseClause, isElseCase, Bool.and_eq_true, Bool.not_eq_true', Bool.not_true,
      Bool.false_or, List.isEmpty_iff] at h
    obtain ⟨⟨⟨⟨h1, h2⟩, h4⟩, h3⟩, _⟩ := h
    subst h3
    exact trS_case_else hk ((ds_list body h1).body (printList_ne_nil h2)) (hna_of_arrowFree h4)
      (by simp only [costCase]; omega)
  | .arrow atoms r :: tl, h, _, K, k', hk, hK => by
    simp only [okCase, okCaseClause, Bool.and_eq_true, Bool.not_eq_true', List.isEmpty_eq_false_iff] at h
    have ih := ds_case tl h.2
    obtain ⟨⟨⟨h1, h2⟩, h3⟩, _⟩ := h.1
    by_cases htl : tl = []
    · subst htl
      exact trS_case_arrow_last hk h1 (headOkD_print h2) (ds_expr r h3) hK (by simp only [costCase]; omega)
        (by simp only [costCase]; omega)
    · rw [desugarCase_arrow_more htl]
      exact trS_case_arrow_more hk h1 (headOkD_print h2) (ds_expr r h3) hK (printCaseClauses_ne_nil htl)
        (ih htl K k' hk hK) (by simp only [costCase]; omega) (by simp only [costCase]; omega)
        (by simp only [costCase]; omega)
  | .normal atoms body :: tl, h, _, K, k', hk, hK => by
    simp only [okCase, okCaseClause, Bool.and_eq_true, Bool.not_eq_true', List.isEmpty_eq_false_iff] at h
    have ih := ds_case tl h.2
    obtain ⟨⟨⟨⟨h1, h2⟩, h3⟩, h4⟩, _⟩ := h.1
    have hB := (ds_list body h2).body (printList_ne_nil (List.isEmpty_eq_false_iff.2 h3))
    by_cases htl : tl = []
    · subst htl
      exact trS_case_normal_last hk h1 hK hB (hna_of_arrowFree h4) (by simp only [costCase]; omega)
        (by simp only [costCase]; omega)
    · rw [desugarCase_normal_more htl]
      exact trS_case_normal_more hk h1 hK hB (hna_of_arrowFree h4) (printCaseClauses_ne_nil htl)
        (ih htl K k' hk hK) (by simp only [costCase]; omega) (by simp only [costCase]; omega)
        (by simp only [costCase]; omega)
end


/-- the interpreter's own syntax environment (`Interpreter::new`): a fresh scope over the nine bundled
derived forms -/
abbrev stdEnv : SynEnv := [[], Interp.grammarScope]

/-- `(let* ((a 1) (b (or #f a)))
      (cond ((and a b) => (lambda (t) (when t (case (f b) ((1 2) 'small) (else 'big)))))
            ((begin a))
            (else (unless a 0) b)))` -/
def sample : Surf :=
  .letstar [.mk "a" (.lit (.int 1)), .mk "b" (.or_ [.lit (.bool false), .var "a"])]
    [.cond_ [
      .arrow (.and_ [.var "a", .var "b"])
        (.lambda ["t"] none [.when_ (.var "t")
          [.case_ (.call (.var "f") [.var "b"])
            [.normal [.prim (.int 1) none, .prim (.int 2) none] [.quote (.sym "small" none)],
             .else_ [.quote (.sym "big" none)]]]]),
      .test (.begin_ [.var "a"]),
      .else_ [.unless_ (.var "a") [.lit (.int 0)], .var "b"]]]

/-- NESTING, the main theorem.  Let `s` be ANY surface expression — variables, literals, quotations,
`if`, `lambda`, `set!`, calls, and the nine derived forms `begin let let* cond case and or when unless`
with all their clause kinds (`cond`: `(t)`, `(t => r)`, `(t e …)`, `(else e …)`; `case`: `((d …) e …)`,
`((d …) => r)`, `(else e …)`, `(else => r)`, key a variable, a literal or any expression), derived forms
in every sub-form position of derived and core forms, nested to any depth and of any length — that is a
program of this grammar (`Desugar.ok s`, decidable: operators and `=>` receivers are not variables named
like a special or derived form, bodies and clause lists are not empty, `else` clauses come last, …).
Then the parser's transformer (Rust `transform_to_statement`: expand a macro use, transform the result
again), run in the interpreter's own syntax environment on the printed form `print s` with any fuel
`n ≥ cost s`, returns exactly the structural desugaring `desugar s` — the tree written from the R7RS
definitions of the derived forms as `grammar.sld` implements them — and leaves the syntax environment
as it was.  (Locations: the printed form carries none, and every node of `desugar s` is unlocated; see
`nesting_located` for located data.) -/
theorem nesting (s : Surf) (hok : ok s = true) (n : Nat) (hn : cost s ≤ n) :
    toStatement n (print s) stdEnv = (.ok (.expr (desugar s)), stdEnv) :=
  ds_expr s hok stdEnv Std.default n hn

example : ok sample = true ∧ cost sample ≤ 600 := by decide

/-- … the same in every syntax environment that resolves identifiers as the interpreter's own one does,
e.g. inside procedure bodies (each `lambda` body is transformed in a fresh child scope). -/
theorem nesting_any_scope (s : Surf) (hok : ok s = true) (env : SynEnv)
    (henv : ∀ k, env.get? k = SynEnv.get? stdEnv k) (n : Nat) (hn : cost s ≤ n) :
    toStatement n (print s) env = (.ok (.expr (desugar s)), env) :=
  ds_expr s hok env henv n hn

example : (∀ k, SynEnv.get? ([] :: [] :: stdEnv) k = SynEnv.get? stdEnv k) ∧ ok sample = true ∧ cost sample ≤ 600 :=
  ⟨fun _ => rfl, by decide⟩

/-- NESTING on data WITH locations (what the reader delivers): if `d` is, up to locations, the printed
form of the surface program `s`, the transformer turns `d` into an expression that is `desugar s` up to
locations. -/
theorem nesting_located (s : Surf) (hok : ok s = true) (d : Datum) (hd : d.strip = print s) (n : Nat)
    (hn : cost s ≤ n) :
    ∃ e', toStatement n d stdEnv = (.ok (.expr e'), stdEnv) ∧ e'.unloc = desugar s := by
  have h1 := toStatement_strip n d stdEnv
  rw [hd, nesting s hok n hn] at h1
  generalize toStatement n d stdEnv = x at h1
  obtain ⟨r, s'⟩ := x
  simp only [Prod.mk.injEq] at h1
  obtain ⟨h2, rfl⟩ := h1
  cases r with
  | error er => simp at h2
  | ok st' =>
    cases st' with
    | expr e' =>
      refine ⟨e', rfl, ?_⟩
      simpa [Statement.unloc] using h2.symm
    | _ => simp [Statement.unloc] at h2

/-- `(and x (or y))` as read from a text: the data carry positions -/
private def sampleLocated : Datum :=
  .pair (.sym "and" (some (1, 2))) (.pair (.sym "x" (some (1, 6))) (.pair
    (.pair (.sym "or" (some (1, 9))) (.pair (.sym "y" (some (1, 12))) (.nil none) none) (some (1, 8)))
    (.nil none) none) none) (some (1, 1))

example : ok (.and_ [.var "x", .or_ [.var "y"]]) = true ∧
    sampleLocated.strip = print (.and_ [.var "x", .or_ [.var "y"]]) ∧ cost (.and_ [.var "x", .or_ [.var "y"]]) ≤ 100 :=
  ⟨by decide, rfl, by decide⟩

/-- VALUE of a nested surface program = value of its desugaring (composition with C01): whatever the
transformer makes of the printed form of `s` (with enough fuel), it has the value `v` (final store `τ`,
activation counters erased) in the model exactly when the reference semantics (`Ref.eval`, written from
the R7RS rules for the core forms) assigns `v` and `τ` to the core tree `desugar s`. -/
theorem nested_value_iff_ref (s : Surf) (hok : ok s = true) (n : Nat) (hn : cost s ≤ n)
    (σ : Store) (ρ : Nat) (v : Value) (τ : Store) :
    (∃ e', toStatement n (print s) stdEnv = (.ok (.expr e'), stdEnv) ∧
        ∃ k σ', Eval.evalExpr k σ ρ e' = (.ok v, σ') ∧ σ'.erase = τ) ↔
      ∃ m, Ref.eval m σ.erase ρ (desugar s) = (.ok v, τ) := by
  rw [nesting s hok n hn]
  constructor
  · rintro ⟨e', h, hv⟩
    cases h
    exact C01.model_iff_ref_value.mp hv
  · intro h
    exact ⟨_, rfl, C01.model_iff_ref_value.mpr h⟩

example : ok sample = true ∧ cost sample ≤ 600 := by decide

/-- … in the vocabulary of `C05Meaning.lean`: the transformer turns the printed form into an expression
(`XE`) whose value judgement (`Means`) is that of `desugar s`; so the evaluation rules proved there for
the single forms apply to the desugaring of a nested program node by node. -/
theorem nested_means (s : Surf) (hok : ok s = true) :
    ∃ e, Meaning.XE stdEnv (print s) e ∧ e = desugar s ∧
      ∀ σ ρ v τ, Meaning.Means σ ρ e v τ ↔ Meaning.Means σ ρ (desugar s) v τ :=
  ⟨desugar s, ⟨cost s, nesting s hok _ (Nat.le_refl _)⟩, rfl, fun _ _ _ _ => Iff.rfl⟩

example : ok sample = true := by decide


/-- `(or #f (and 1 2))`: the desugaring `((lambda (x) (if x x (if 1 2 #f))) #f)` evaluates to `2` — and so
does what the transformer makes of the printed form (`nested_means`). -/
example : ∃ e, Meaning.XE stdEnv (print (.or_ [.lit (.bool false), .and_ [.lit (.int 1), .lit (.int 2)]])) e ∧
    ∃ τ, Meaning.Means {} 0 e (.num (.int 2)) τ := by
  obtain ⟨e, hx, rfl, _⟩ := nested_means (.or_ [.lit (.bool false), .and_ [.lit (.int 1), .lit (.int 2)]]) (by decide)
  refine ⟨_, hx, ?_⟩
  refine ⟨Store.erase (Eval.evalExpr 50 {} 0
    (desugar (.or_ [.lit (.bool false), .and_ [.lit (.int 1), .lit (.int 2)]]))).2, 50, _, ?_, rfl⟩
  apply Prod.ext
  · with_unfolding_all rfl
  · rfl

/-! ## the side condition is needed: forms outside `Desugar.ok` are syntax errors, or other trees -/

set_option maxRecDepth 100000 in
/-- `(begin)`, `(cond)`, `(case k)`, `(when t)`, `(let ((x 1)))`: a derived form without the items its
rules require matches no rule — a syntax error (`MacroMissMatch`), not a tree. -/
example :
    (ok (.begin_ []) = false ∧ toStatement 100 (print (.begin_ [])) stdEnv = (.error (.syntax, none), stdEnv)) ∧
    (ok (.cond_ []) = false ∧ toStatement 100 (print (.cond_ [])) stdEnv = (.error (.syntax, none), stdEnv)) ∧
    (ok (.case_ (.var "k") []) = false ∧
      toStatement 100 (print (.case_ (.var "k") [])) stdEnv = (.error (.syntax, none), stdEnv)) ∧
    (ok (.when_ (.var "t") []) = false ∧
      toStatement 100 (print (.when_ (.var "t") [])) stdEnv = (.error (.syntax, none), stdEnv)) ∧
    (ok (.let_ [.mk "x" (.lit (.int 1))] []) = false ∧
      toStatement 100 (print (.let_ [.mk "x" (.lit (.int 1))] [])) stdEnv = (.error (.syntax, none), stdEnv)) :=
  ⟨⟨by decide, by rfl⟩, ⟨by decide, by rfl⟩, ⟨by decide, by rfl⟩, ⟨by decide, by rfl⟩, ⟨by decide, by rfl⟩⟩

set_option maxRecDepth 100000 in
/-- a call whose operator is the VARIABLE `and` prints as `(and 1)`, which is read as the derived form:
the tree is the literal `1`, not a call. -/
example : ok (.call (.var "and") [.lit (.int 1)]) = false ∧
    toStatement 100 (print (.call (.var "and") [.lit (.int 1)])) stdEnv = (.ok (.expr (.prim (.int 1) none)), stdEnv) :=
  ⟨by decide, by rfl⟩


/-! ## with the fuel the interpreter uses; top-level definitions -/

/-- The fuel the interpreter gives the transformer for a top-level datum (`xformFuel d = 8·size d + 4000`)
is always enough: for every program `s` of the grammar, however deeply nested and however long its
`and` / `or` / `let*` / `cond` / `case` chains, `cost s + 7 ≤ 8 · size (print s)`. -/
theorem nesting_interpreter_fuel (s : Surf) (hok : ok s = true) :
    toStatement (xformFuel (print s)) (print s) stdEnv = (.ok (.expr (desugar s)), stdEnv) :=
  nesting s hok _ (by have := cost_expr s; simp only [xformFuel]; omega)

example : ok sample = true := by decide

/-- A top-level (or internal) definition `(define x s)` of a nested surface expression is transformed into
the definition of `x` as `desugar s`. -/
theorem nesting_define (x : String) (s : Surf) (hok : ok s = true) (n : Nat) (hn : cost s + 3 ≤ n) :
    toStatement n (lst [ident "define", ident x, print s]) stdEnv =
      (.ok (.definition (.mk x (desugar s) none)), stdEnv) := by
  obtain ⟨k, rfl⟩ : ∃ k, n = k + 3 := ⟨n - 3, by omega⟩
  simp only [ident, lst_cons]
  rw [step_define none none none none x [] (nesting s hok k (by omega))]

example : ok sample = true ∧ cost sample + 3 ≤ 600 := by decide

end Ruschm.C05Nesting

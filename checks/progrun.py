"""Shared runner for program-level correspondences: runs `progx` cases on the real interpreter and
on the Lean model and compares per-form results, tick traces and captured output."""
from . import common as C


def norm_result(r, syntax_loc=False):
    """syntax errors are compared by kind only (their locations are covered by C15's oracle);
    run-time errors by kind and location"""
    if r.startswith("E syntax") and not syntax_loc:
        return "E syntax"
    return r


def split_progx(fields_n, res, model=False):
    """-> (per-form results, ticks, out, extra)"""
    forms = res[:fields_n]
    rest = {x[:1]: x[2:] for x in res[fields_n:]}
    return forms, rest.get("T", ""), rest.get("O", ""), rest


def compare(rep, cases, impl, model, what, limit=5):
    """cases: list of (id, kind, fields) with kind progx; reports model<->implementation
    disagreements as broken correspondence. Returns dict id -> (impl_forms, ticks, out, extra)"""
    out = {}
    for cid, _, fields in cases:
        n = len(fields) - 1
        a = impl.get(cid)
        b = model.get(cid)
        if a and a[0].startswith("X not-run"):
            continue
        if a and a[0].startswith("P process-died"):
            rep.violation({"what": "the interpreter process died (abort / stack overflow / out of memory) on this program",
                           "program": fields, "implementation": a})
            continue
        if a is None or b is None or len(a) < n or len(b) < n:
            rep.violation({"broken": "runner lost a case", "case": fields, "impl": a, "model": b}, no_input=True)
            continue
        af, at, ao, ax = split_progx(n, a)
        bf, bt, bo, bx = split_progx(n, b)
        out[cid] = (af, at, ao, ax, bx)
        if any("FUEL" in x for x in bf):
            continue   # the model gave up (not an outcome of the real code); not a comparison
        diffs = [k for k in range(n) if norm_result(af[k]) != norm_result(bf[k])]
        if diffs or at != bt or ao != bo:
            k = diffs[0] if diffs else None
            rep.violation({"broken": "correspondence model<->implementation: " + what,
                           "program": fields, "first_differing_form": fields[1 + k] if k is not None else None,
                           "implementation": af[k] if k is not None else {"ticks": at, "out": ao},
                           "model": bf[k] if k is not None else {"ticks": bt, "out": bo}}, no_input=True)
    return out

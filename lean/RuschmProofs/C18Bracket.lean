/-
Property C18 (bracket part) — "Text entered at the REPL is evaluated as soon as the lines entered
so far close every list they opened, and not before".

The REPL decides whether the text entered so far is complete with a private character-level
counter (`check_bracket_closed`, modelled by `Bracket.closed`). The theorem below says that this
counter sees exactly the brackets the lexer sees: whenever the text tokenises without error, the
count it arrives at is the number of opening tokens `(`, `#(`, `#u8(` minus the number of closing
tokens `)` — parentheses inside strings, `|quoted|` identifiers, character literals and comments
are not counted, by either. Only property theorems live here; helper lemmas are in
`RuschmProofs/BracketLemmas.lean` (one lemma per scanner in `LexLemmas.lean`).
-/
import RuschmProofs.BracketLemmas

namespace Ruschm.C18
open Ruschm Ruschm.Lex Ruschm.Text

/-- The counter's final count is the nesting depth of the token stream. No side condition beyond
"the text tokenises": a `,` as very last character (dropped by the lexer) and a comment that
reaches the end of the text (which leaves the counter in comment mode) do not change the count. -/
theorem bracket_count_is_depth (cs : List Char) (ts : List LToken)
    (h : Lex.all cs = (ts, none)) : (Bracket.run cs).2 = depth (ts.map (·.tok)) :=
  bracket_run_eq cs ts h

/-- `check_bracket_closed` answers "closed" exactly when the tokens read so far contain at least
as many `)` as `(`, `#(` and `#u8(`. -/
theorem bracket_agrees_with_reader (cs : List Char) (ts : List LToken)
    (h : Lex.all cs = (ts, none)) :
    Bracket.closed cs = decide (depth (ts.map (·.tok)) ≤ 0) :=
  bracket_closed_eq cs ts h

/-- the same, without naming the token list -/
theorem bracket_agrees_with_reader' (cs : List Char) (h : (Lex.all cs).2 = none) :
    Bracket.closed cs = decide (depth ((Lex.all cs).1.map (·.tok)) ≤ 0) :=
  bracket_closed_eq cs _ (Prod.ext rfl h)

section Example
/-- `(f #\( "a)" |b)| ;)` + newline + `#(1` + `,` : two lists are open; the parentheses in the
character, the string, the quoted identifier and the comment do not count, the final `,` is
dropped. -/
private def sample : List Char := "(f #\\( \"a)\" |b)| ;)\n#(1,".toList

example : (Lex.all sample).2 = none ∧
    (Lex.all sample).1.map (·.tok)
      = [.lparen, .ident "f", .prim (.chr '('), .prim (.str "a)"), .ident "b)", .vecIntro,
          .prim (.int 1)] := by
  simp [sample, Lex.all, Lex.allAux, Lex.next, Lex.skipAtmosphere, Lex.token, Lex.isWs, Lex.adv,
    Lex.character, Lex.takeRun, Lex.normalIdentifier, Lex.quotedIdentifier, Lex.number,
    Lex.integerToken, Lex.parseI32?, Lex.digitsVal, fitsI32, Lex.isDigit,
    Lex.isSubsequent, Lex.isInitial, Lex.isLetter, Lex.isAsciiAlnum, Lex.endOfSharpToken,
    Lex.endOfToken, Lex.testDelimiter, Lex.isDelimiter, Lex.string, Except.map, bind,
    Except.bind, pure, Except.pure]

example : Bracket.closed sample = false := by decide

example : depth [.lparen, .ident "f", .prim (.chr '('), .prim (.str "a)"), .ident "b)", .vecIntro,
    .prim (.int 1)] = 2 := by decide
end Example

end Ruschm.C18

/-
Helper lemmas for `C01More.lean`: one step of the transformer (`RuschmModel/Xform.lean`) on each
printed core form of `RuschmSpec/CoreSyntax.lean`, given what it makes of the parts.
-/
import RuschmSpec.CoreSyntax
import RuschmProofs.UnlocXform
set_option linter.unusedSimpArgs false
set_option linter.unusedVariables false
namespace Ruschm.CoreSyntax
open Ruschm Xform

theorem elems_ofList (l : Loc) (xs : List Datum) : (Datum.ofList l xs).elems = xs := by
  induction xs generalizing l with
  | nil => rfl
  | cons x xs ih => rw [Datum.ofList, elems_pair, ih]

theorem popProper_ofList (a : Datum) (l l' : Loc) (xs : List Datum) :
    Macro.popProper (.pair a (Datum.ofList l xs) l') = .ok (some (a, Datum.ofList l xs)) := by
  cases xs <;> rfl

theorem size_ofList (l : Loc) (xs : List Datum) : (Datum.ofList l xs).size = Datum.sizeList xs + xs.length + 1 := by
  induction xs generalizing l with
  | nil => rfl
  | cons x xs ih => simp only [Datum.ofList, Datum.size, Datum.sizeList, ih, List.length_cons]; omega

/-- the dispatch of `toStatement` on a proper list, spelled out on the operand list -/
theorem toStatement_list (k : Nat) (first : Datum) (args : List Datum) (l l' : Loc) (s : SynEnv) :
    toStatement (k+1) (.pair first (Datum.ofList l' args) l) s =
      (match first with
        | .sym kw _ =>
          if kw = "define" then do
            let (n, e) ← toDefinition k args
            pure (.definition (.mk n e l))
          else if kw = "define-library" then toLibrary k args l
          else if kw = "lambda" then do
            let lam ← toLambda k args
            pure (.expr (.lambda lam l))
          else if kw = "if" then do
            let t ← need args.head?
            let t ← toExpr k t
            let c ← need (args.drop 1).head?
            let c ← toExpr k c
            let a ← match (args.drop 2).head? with
              | some ad => do let a ← toExpr k ad; pure (some a)
              | none => pure none
            pure (.expr (.cond t c a l))
          else if kw = "import" then do
            let sets ← args.mapM (toImportSet k)
            pure (.importDecl sets l)
          else if kw = "quote" then do
            let q ← need args.head?
            pure (.expr (.quote q l))
          else if kw = "set!" then do
            let target ← need args.head?
            match target with
            | .sym name targetLoc => do
              let v ← need (args.drop 1).head?
              let v ← toExpr k v
              pure (.expr (.assign name v (targetLoc.orElse (fun _ => l))))
            | _ => fail (.syntax, none)
          else if kw = "define-syntax" then do
            let k' ← need args.head?
            let k' ← identOf k'
            let spec ← need (args.drop 1).head?
            let rules ← lift (Macro.toRules k' spec)
            defineSyntax k' rules
            pure (.syntaxDef k' rules l)
          else do
            let env ← getEnv
            match env.get? kw with
            | some rules => do
              let remained := (Datum.ofList l' args).withLoc l
              let expanded ← lift (Macro.transform (Macro.matchFuel (.pair first (Datum.ofList l' args) l) + k) rules remained)
              toStatement k expanded
            | none => do
              let c ← toCall k first args l
              pure (.expr c)
        | _ => do
          let c ← toCall k first args l
          pure (.expr c) : XM Statement) s := by
  rw [toStatement]
  simp only [XM.bind_def, lift, popProper_ofList, elems_ofList, Datum.loc]
  cases first <;> rfl

theorem toExpr_of_stmt {k d s e s'} (h : toStatement k d s = (.ok (.expr e), s')) :
    toExpr (k+1) d s = (.ok e, s') := by
  rw [toExpr]; simp only [XM.bind_def, h]; rfl

theorem toExpr_of_err {k d s er s'} (h : toStatement k d s = (.error er, s')) :
    toExpr (k+1) d s = (.error er, s') := by
  rw [toExpr]; simp only [XM.bind_def, h]

theorem step_quote (k : Nat) (kl l l' : Loc) (d : Datum) (rest : List Datum) (s : SynEnv) :
    toStatement (k+1) (.pair (.sym "quote" kl) (Datum.ofList l' (d :: rest)) l) s = (.ok (.expr (.quote d l)), s) := by
  rw [toStatement]
  simp (config := {decide := true}) only [XM.bind_def, lift, popProper_ofList, elems_ofList, Datum.loc, if_true, if_false,
    need, List.head?_cons, XM.pure_def]

theorem step_if {k T C A t c a s} (kl l l' : Loc)
    (hT : toStatement k T s = (.ok (.expr t), s)) (hC : toStatement k C s = (.ok (.expr c), s))
    (hA : match A, a with
      | [], none => True
      | X :: _, some x => toStatement k X s = (.ok (.expr x), s)
      | _, _ => False) :
    toStatement (k+2) (.pair (.sym "if" kl) (Datum.ofList l' (T :: C :: A)) l) s = (.ok (.expr (.cond t c a l)), s) := by
  rw [toStatement]
  simp (config := {decide := true}) only [XM.bind_def, lift, popProper_ofList, elems_ofList, Datum.loc, if_true, if_false,
    need, List.head?_cons, XM.pure_def, List.drop_succ_cons, List.drop_zero, toExpr_of_stmt hT, toExpr_of_stmt hC]
  cases A with
  | nil =>
    cases a with
    | none => rfl
    | some x => simp at hA
  | cons X A' =>
    cases a with
    | none => simp at hA
    | some x => simp only [List.head?_cons, XM.bind_def, toExpr_of_stmt hA, XM.pure_def]

theorem step_set {k V v s} (kl l l' xl : Loc) (x : String) (rest : List Datum)
    (hV : toStatement k V s = (.ok (.expr v), s)) :
    toStatement (k+2) (.pair (.sym "set!" kl) (Datum.ofList l' (.sym x xl :: V :: rest)) l) s =
      (.ok (.expr (.assign x v (xl.orElse (fun _ => l)))), s) := by
  rw [toStatement]
  simp (config := {decide := true}) only [XM.bind_def, lift, popProper_ofList, elems_ofList, Datum.loc, if_true, if_false,
    need, List.head?_cons, XM.pure_def, List.drop_succ_cons, List.drop_zero, toExpr_of_stmt hV]

theorem step_define {k V v s} (kl l l' xl : Loc) (x : String) (rest : List Datum)
    (hV : toStatement k V s = (.ok (.expr v), s)) :
    toStatement (k+3) (.pair (.sym "define" kl) (Datum.ofList l' (.sym x xl :: V :: rest)) l) s =
      (.ok (.definition (.mk x v l)), s) := by
  rw [toStatement]
  simp (config := {decide := true}) only [XM.bind_def, lift, popProper_ofList, elems_ofList, Datum.loc, if_true, if_false]
  rw [toDefinition]
  simp only [XM.bind_def, need, List.head?_cons, XM.pure_def, List.drop_succ_cons, List.drop_zero, toExpr_of_stmt hV]

theorem step_call {k F f args as s} (l l' : Loc)
    (hhead : ∀ kw kl, F = .sym kw kl → kw ∉ keywords ∧ s.get? kw = none)
    (hF : toStatement k F s = (.ok (.expr f), s)) (hA : toExprs (k+1) args s = (.ok as, s)) :
    toStatement (k+3) (.pair F (Datum.ofList l' args) l) s = (.ok (.expr (.call f as l)), s) := by
  have hcall : toCall (k+2) F args l s = (.ok (.call f as l), s) := by
    rw [toCall]; simp only [XM.bind_def, toExpr_of_stmt hF, hA, XM.pure_def]
  rw [toStatement]
  simp only [XM.bind_def, lift, popProper_ofList, elems_ofList, Datum.loc]
  cases F with
  | sym kw kl =>
    obtain ⟨hk, hg⟩ := hhead kw kl rfl
    simp only [keywords, List.mem_cons, List.mem_nil_iff, or_false, not_or] at hk
    obtain ⟨h1, h2, h3, h4, h5, h6, h7, h8⟩ := hk
    simp only [h1, h2, h3, h4, h5, h6, h7, h8, if_false, XM.bind_def, getEnv, hg, hcall, XM.pure_def]
  | _ => simp only [XM.bind_def, hcall, XM.pure_def]


theorem spine_formalsD (fixed : List String) (rest : Option String) :
    (formalsD fixed rest).spine = (fixed.map ident, rest.map ident) := by
  induction fixed with
  | nil => cases rest <;> rfl
  | cons x xs ih => simp only [formalsD, Datum.spine, ih, List.map_cons]

theorem toFormals_formalsD (fixed : List String) (rest : Option String) (s : SynEnv) :
    toFormals (formalsD fixed rest) s = (.ok ⟨fixed, rest⟩, s) := by
  have hfind : ((fixed.map ident) ++ (rest.map ident).toList).find?
      (fun x => match x with | .sym _ _ => false | _ => true) = none := by
    rw [List.find?_eq_none]
    intro x hx
    simp only [List.mem_append, List.mem_map, Option.mem_toList, Option.map_eq_some_iff] at hx
    rcases hx with ⟨a, _, rfl⟩ | ⟨a, _, rfl⟩ <;> simp [ident]
  have hname : (fixed.map ident).map (fun (x : Datum) => match x with | .sym s _ => s | _ => "") = fixed := by
    simp [List.map_map, Function.comp_def, ident]
  have hrest : (rest.map ident).map (fun (x : Datum) => match x with | .sym s _ => s | _ => "") = rest := by
    cases rest <;> rfl
  have main : ∀ d : Datum, ((∃ a b l, d = .pair a b l) ∨ (∃ l, d = .nil l)) →
      d.spine = (fixed.map ident, rest.map ident) → toFormals d s = (.ok ⟨fixed, rest⟩, s) := by
    intro d hd hsp
    have e1 : toFormals d = (let (cars, tail) := d.spine
        let bad := (cars ++ tail.toList).find? (fun x => match x with | .sym _ _ => false | _ => true)
        match bad with
        | some b => Xform.fail (.syntax, b.loc)
        | none =>
          let name := fun (x : Datum) => match x with | .sym s _ => s | _ => ""
          Pure.pure { fixed := cars.map name, rest := tail.map name }) := by
      rcases hd with ⟨a, b, l, rfl⟩ | ⟨l, rfl⟩ <;> rfl
    rw [e1, hsp]
    simp only [hfind, hname, hrest]
    rfl
  cases fixed with
  | nil =>
    cases rest with
    | none => exact main _ (.inr ⟨_, rfl⟩) (spine_formalsD _ _)
    | some r => rfl
  | cons x xs => exact main _ (.inl ⟨_, _, _, rfl⟩) (spine_formalsD _ _)

theorem step_lambda {k body defs es s} (kl l l' : Loc) (fixed : List String) (rest : Option String)
    (hB : toBody k body [] [] ([] :: s) = (.ok (defs, es), [] :: s)) :
    toStatement (k+2) (.pair (.sym "lambda" kl) (Datum.ofList l' (formalsD fixed rest :: body)) l) s =
      (.ok (.expr (.lambda (.mk ⟨fixed, rest⟩ defs es) l)), s) := by
  rw [toStatement]
  simp (config := {decide := true}) only [XM.bind_def, lift, popProper_ofList, elems_ofList, Datum.loc, if_true, if_false]
  rw [toLambda]
  simp only [XM.bind_def, need, List.head?_cons, XM.pure_def, List.drop_succ_cons, List.drop_zero,
    toFormals_formalsD, inChild, hB]

theorem body_nil (k : Nat) (defs : List Def) (es : List Expr) (s : SynEnv) (h : es ≠ []) :
    toBody (k+1) [] defs es s = (.ok (defs.reverse, es.reverse), s) := by
  rw [toBody]
  cases es with
  | nil => exact absurd rfl h
  | cons e es => rfl

theorem body_nil_err (k : Nat) (defs : List Def) (s : SynEnv) :
    toBody (k+1) [] defs [] s = (.error (.syntax, none), s) := by
  rw [toBody]; rfl

theorem body_def {k d ds df defs s} (h : toStatement k d s = (.ok (.definition df), s)) :
    toBody (k+1) (d :: ds) defs [] s = toBody k ds (df :: defs) [] s := by
  rw [toBody]; simp only [XM.bind_def, h, List.isEmpty_nil, if_true]

theorem body_expr {k d ds e defs es s} (h : toStatement k d s = (.ok (.expr e), s)) :
    toBody (k+1) (d :: ds) defs es s = toBody k ds defs (e :: es) s := by
  rw [toBody]; simp only [XM.bind_def, h]

/-! ## shapes used by the rejection theorems -/

theorem elems_nil (l : Loc) : (Datum.nil l).elems = [] := rfl

/-- `pop_proper` on a form whose second cell exists -/
theorem popProper_pair2 (a x y : Datum) (l l' : Loc) :
    Macro.popProper (.pair a (.pair x y l') l) = .ok (some (a, .pair x y l')) := rfl
theorem popProper_pair_nil (a : Datum) (l l' : Loc) :
    Macro.popProper (.pair a (.nil l') l) = .ok (some (a, .nil l')) := rfl

theorem toFormals_kind (d : Datum) (s : SynEnv) :
    (∃ f, toFormals d s = (.ok f, s)) ∨ (∃ loc, toFormals d s = (.error (.syntax, loc), s)) := by
  unfold toFormals
  split
  · simp only
    generalize List.find? _ _ = x
    cases x
    · exact .inl ⟨_, rfl⟩
    · exact .inr ⟨_, rfl⟩
  · simp only
    generalize List.find? _ _ = x
    cases x
    · exact .inl ⟨_, rfl⟩
    · exact .inr ⟨_, rfl⟩
  · exact .inl ⟨_, rfl⟩
  · exact .inr ⟨_, rfl⟩

theorem toFormals_bad {a d : Datum} {lF : Loc} {b : Datum} (s : SynEnv)
    (hb : ((Datum.pair a d lF).spine.1 ++ (Datum.pair a d lF).spine.2.toList).find?
      (fun x => match x with | .sym _ _ => false | _ => true) = some b) :
    toFormals (.pair a d lF) s = (.error (.syntax, b.loc), s) := by
  have e1 : toFormals (.pair a d lF) = (let (cars, tail) := (Datum.pair a d lF).spine
      let bad := (cars ++ tail.toList).find? (fun x => match x with | .sym _ _ => false | _ => true)
      match bad with
      | some b => Xform.fail (.syntax, b.loc)
      | none =>
        let name := fun (x : Datum) => match x with | .sym s _ => s | _ => ""
        Pure.pure { fixed := cars.map name, rest := tail.map name }) := rfl
  rw [e1]
  simp only [hb]
  rfl

theorem toFormals_atom (d : Datum) (s : SynEnv) (h : match d with | .prim _ _ => True | .vec _ _ => True | _ => False) :
    toFormals d s = (.error (.syntax, d.loc), s) := by
  cases d <;> first | exact absurd h id | rfl


/-! ## sizes, and the round trip by structural induction -/

theorem lst_cons (a : Datum) (xs : List Datum) : lst (a :: xs) = .pair a (Datum.ofList none xs) none := rfl

theorem size_lst (xs : List Datum) : (lst xs).size = Datum.sizeList xs + xs.length + 1 := size_ofList none xs

theorem length_renderList (es : List Expr) : (renderList es).length = es.length := by
  induction es with
  | nil => rfl
  | cons e es ih => simp [renderList, ih]

theorem length_renderDefs (ds : List Def) (tail : List Datum) : (renderDefs ds tail).length = ds.length + tail.length := by
  induction ds with
  | nil => simp [renderDefs]
  | cons d ds ih => simp [renderDefs, ih]; omega

theorem sizeList_renderDefs (ds : List Def) (tail : List Datum) :
    Datum.sizeList (renderDefs ds tail) = Datum.sizeList (renderDefs ds []) + Datum.sizeList tail := by
  induction ds with
  | nil => simp [renderDefs, Datum.sizeList]
  | cons d ds ih => simp only [renderDefs, Datum.sizeList, ih]; omega

theorem size_pos (d : Datum) : 1 ≤ d.size := by cases d <;> simp [Datum.size] <;> omega

theorem head_of_core {isM : String → Bool} {s : SynEnv} (hM : ∀ k, isM k = (s.get? k).isSome) :
    ∀ (f : Expr), headOk isM f = true → core isM f = true →
      ∀ kw kl, render f = .sym kw kl → kw ∉ keywords ∧ s.get? kw = none
  | .sym x l, hh, _, kw, kl, hr => by
    simp only [render, ident, Datum.sym.injEq] at hr
    obtain ⟨rfl, _⟩ := hr
    simp only [headOk, Bool.and_eq_true, Bool.not_eq_true', List.contains_eq_mem, decide_eq_false_iff_not] at hh
    refine ⟨hh.1, ?_⟩
    have := hh.2; rw [hM] at this
    cases h : s.get? x <;> simp_all
  | .prim p l, _, _, kw, kl, hr => by simp [render] at hr
  | .quote d l, _, _, kw, kl, hr => by simp [render, lst, Datum.ofList] at hr
  | .datum d l, _, hc, kw, kl, hr => by
    cases d <;> simp [core] at hc
    simp [render, Datum.strip] at hr
  | .assign x e l, _, _, kw, kl, hr => by simp [render, lst, Datum.ofList] at hr
  | .cond t c a l, _, _, kw, kl, hr => by simp [render, lst, Datum.ofList] at hr
  | .call f as l, _, _, kw, kl, hr => by simp [render, lst, Datum.ofList] at hr
  | .lambda (.mk fm ds b) l, _, _, kw, kl, hr => by simp [render, renderLambda, lst, Datum.ofList] at hr


section main
variable {isM : String → Bool}

mutual
theorem rt_expr : ∀ (e : Expr) (s : SynEnv) (n : Nat), (∀ k, isM k = (s.get? k).isSome) → core isM e = true →
    2 * (render e).size ≤ n → toStatement n (render e) s = (.ok (.expr e.unloc), s)
  | .sym x l, s, n, hM, hc, hn => by
    obtain ⟨k, rfl⟩ : ∃ k, n = k + 1 := ⟨n - 1, by have := size_pos (render (.sym x l)); omega⟩
    rfl
  | .prim p l, s, n, hM, hc, hn => by
    obtain ⟨k, rfl⟩ : ∃ k, n = k + 1 := ⟨n - 1, by have := size_pos (render (.prim p l)); omega⟩
    rfl
  | .quote d l, s, n, hM, hc, hn => by
    obtain ⟨k, rfl⟩ : ∃ k, n = k + 1 := ⟨n - 1, by have := size_pos (render (.quote d l)); omega⟩
    simp only [render, ident, lst_cons, step_quote, Expr.unloc]
  | .datum d l, s, n, hM, hc, hn => by
    obtain ⟨k, rfl⟩ : ∃ k, n = k + 1 := ⟨n - 1, by have := size_pos (render (.datum d l)); omega⟩
    cases d <;> simp [core] at hc
    rfl
  | .assign x e l, s, n, hM, hc, hn => by
    simp only [render, size_lst, Datum.sizeList, List.length_cons, List.length_nil] at hn
    obtain ⟨k, rfl⟩ : ∃ k, n = k + 2 := ⟨n - 2, by omega⟩
    have he := rt_expr e s k hM (by simpa [core] using hc) (by omega)
    simp only [render, ident, lst_cons, step_set none none none none x [] he, Expr.unloc]
    rfl
  | .cond t c none l, s, n, hM, hc, hn => by
    simp only [render, renderOpt, size_lst, Datum.sizeList, List.length_cons, List.length_nil] at hn
    obtain ⟨k, rfl⟩ : ∃ k, n = k + 2 := ⟨n - 2, by omega⟩
    simp only [core, coreOpt, Bool.and_eq_true] at hc
    have ht := rt_expr t s k hM hc.1.1 (by omega)
    have hcc := rt_expr c s k hM hc.1.2 (by omega)
    simp only [render, renderOpt, ident, lst_cons]
    rw [step_if (A := []) (a := none) none none none ht hcc trivial]
    rfl
  | .cond t c (some a) l, s, n, hM, hc, hn => by
    simp only [render, renderOpt, size_lst, Datum.sizeList, List.length_cons, List.length_nil] at hn
    obtain ⟨k, rfl⟩ : ∃ k, n = k + 2 := ⟨n - 2, by omega⟩
    simp only [core, coreOpt, Bool.and_eq_true] at hc
    have ht := rt_expr t s k hM hc.1.1 (by omega)
    have hcc := rt_expr c s k hM hc.1.2 (by omega)
    have ha := rt_expr a s k hM hc.2 (by omega)
    simp only [render, renderOpt, ident, lst_cons]
    rw [step_if (A := [render a]) (a := some a.unloc) none none none ht hcc ha]
    rfl
  | .call f as l, s, n, hM, hc, hn => by
    simp only [render, size_lst, Datum.sizeList, List.length_cons, length_renderList] at hn
    obtain ⟨k, rfl⟩ : ∃ k, n = k + 3 := ⟨n - 3, by omega⟩
    simp only [core, Bool.and_eq_true] at hc
    have hf := rt_expr f s k hM hc.1.2 (by omega)
    have has := rt_list as s (k + 1) hM hc.2 (by omega)
    simp only [render, lst_cons]
    rw [step_call none none (head_of_core hM f hc.1.1 hc.1.2) hf has]
    rfl
  | .lambda (.mk fm defs body) l, s, n, hM, hc, hn => by
    simp only [render, renderLambda, size_lst, Datum.sizeList, List.length_cons, length_renderDefs,
      length_renderList, sizeList_renderDefs defs (renderList body)] at hn
    obtain ⟨m, rfl⟩ : ∃ m, n = (m + defs.length) + 2 := ⟨n - 2 - defs.length, by omega⟩
    simp only [core, coreLambda, Bool.and_eq_true, Bool.not_eq_true', List.isEmpty_eq_false_iff] at hc
    have hM' : ∀ k, isM k = (SynEnv.get? ([] :: s) k).isSome := fun k => by rw [hM k]; rfl
    have hd := rt_defs defs (renderList body) [] ([] :: s) m hM' hc.1.1 (by omega)
    have hb := rt_body body (Def.unlocList defs).reverse [] ([] :: s) m hM' hc.1.2 (.inr hc.2) (by omega)
    simp only [List.append_nil] at hd
    rw [hb] at hd
    simp only [render, renderLambda, ident, lst_cons]
    rw [step_lambda none none none fm.fixed fm.rest hd]
    simp [Expr.unloc, Lambda.unloc]
theorem rt_list : ∀ (es : List Expr) (s : SynEnv) (n : Nat), (∀ k, isM k = (s.get? k).isSome) → coreList isM es = true →
    2 * (Datum.sizeList (renderList es) + es.length) + 1 ≤ n →
    toExprs n (renderList es) s = (.ok (Expr.unlocList es), s)
  | [], s, n, hM, hc, hn => by
    obtain ⟨k, rfl⟩ : ∃ k, n = k + 1 := ⟨n - 1, by omega⟩
    rfl
  | e :: es, s, n, hM, hc, hn => by
    simp only [renderList, Datum.sizeList, List.length_cons] at hn
    obtain ⟨k, rfl⟩ : ∃ k, n = k + 2 := ⟨n - 2, by omega⟩
    simp only [coreList, Bool.and_eq_true] at hc
    have he := rt_expr e s k hM hc.1 (by omega)
    have hes := rt_list es s (k + 1) hM hc.2 (by omega)
    simp only [renderList, toExprs, XM.bind_def, toExpr_of_stmt he, hes, XM.pure_def, Expr.unlocList]
theorem rt_body : ∀ (es : List Expr) (accD : List Def) (accE : List Expr) (s : SynEnv) (n : Nat),
    (∀ k, isM k = (s.get? k).isSome) → coreList isM es = true → (accE ≠ [] ∨ es ≠ []) →
    2 * (Datum.sizeList (renderList es) + es.length) + 1 ≤ n →
    toBody n (renderList es) accD accE s = (.ok (accD.reverse, accE.reverse ++ Expr.unlocList es), s)
  | [], accD, accE, s, n, hM, hc, hne, hn => by
    obtain ⟨k, rfl⟩ : ∃ k, n = k + 1 := ⟨n - 1, by omega⟩
    have : accE ≠ [] := by rcases hne with h | h; exact h; exact absurd rfl h
    simp only [renderList, body_nil k accD accE s this, Expr.unlocList, List.append_nil]
  | e :: es, accD, accE, s, n, hM, hc, hne, hn => by
    simp only [renderList, Datum.sizeList, List.length_cons] at hn
    obtain ⟨k, rfl⟩ : ∃ k, n = k + 1 := ⟨n - 1, by omega⟩
    simp only [coreList, Bool.and_eq_true] at hc
    have he := rt_expr e s k hM hc.1 (by omega)
    have hes := rt_body es accD (e.unloc :: accE) s k hM hc.2 (.inl (by simp)) (by omega)
    simp only [renderList, body_expr he, hes, Expr.unlocList, List.reverse_cons, List.append_assoc, List.singleton_append]
theorem rt_defs : ∀ (ds : List Def) (tail : List Datum) (accD : List Def) (s : SynEnv) (m : Nat),
    (∀ k, isM k = (s.get? k).isSome) → coreDefs isM ds = true →
    2 * Datum.sizeList (renderDefs ds []) + 3 ≤ m →
    toBody (m + ds.length) (renderDefs ds tail) accD [] s = toBody m tail ((Def.unlocList ds).reverse ++ accD) [] s
  | [], tail, accD, s, m, hM, hc, hn => by
    simp only [renderDefs, List.length_nil, Nat.add_zero, Def.unlocList, List.reverse_nil, List.nil_append]
  | (.mk x e l) :: ds, tail, accD, s, m, hM, hc, hn => by
    simp only [renderDefs, renderDef, defineD, size_lst, Datum.sizeList, List.length_cons, List.length_nil] at hn
    simp only [coreDefs, coreDef, Bool.and_eq_true] at hc
    obtain ⟨k, hk⟩ : ∃ k, m + ds.length = k + 3 := ⟨m + ds.length - 3, by omega⟩
    have he := rt_expr e s k hM hc.1 (by omega)
    have hd := step_define none none none none x [] he
    have hds := rt_defs ds tail (.mk x e.unloc none :: accD) s m hM hc.2 (by omega)
    simp only [renderDefs, renderDef, defineD, ident, lst_cons, List.length_cons] at hd ⊢
    rw [← Nat.add_assoc, hk, body_def hd, ← hk, hds]
    simp only [Def.unlocList, Def.unloc, List.reverse_cons, List.append_assoc, List.singleton_append]
end
end main

/-! ## the printed forms carry no locations -/

theorem strip_ofList_none (xs : List Datum) : (Datum.ofList none xs).strip = Datum.ofList none (xs.map Datum.strip) := by
  induction xs with
  | nil => rfl
  | cons x xs ih => simp only [Datum.ofList, Datum.strip, ih, List.map_cons]

theorem strip_formalsD (fixed : List String) (rest : Option String) : (formalsD fixed rest).strip = formalsD fixed rest := by
  induction fixed with
  | nil => cases rest <;> rfl
  | cons x xs ih => simp only [formalsD, Datum.strip, ident, ih]

mutual
theorem strip_render : ∀ e : Expr, (render e).strip = render e
  | .sym x l => rfl
  | .prim p l => rfl
  | .quote d l => by simp [render, lst, strip_ofList_none, ident, Datum.strip]
  | .datum d l => by simp [render]
  | .assign x e l => by simp [render, lst, strip_ofList_none, ident, Datum.strip, strip_render e]
  | .cond t c none l => by simp [render, renderOpt, lst, strip_ofList_none, ident, Datum.strip, strip_render t, strip_render c]
  | .cond t c (some a) l => by
    simp [render, renderOpt, lst, strip_ofList_none, ident, Datum.strip, strip_render t, strip_render c, strip_render a]
  | .call f as l => by simp [render, lst, strip_ofList_none, strip_render f, strip_renderList as]
  | .lambda (.mk fm ds b) l => by
    simp [render, renderLambda, lst, strip_ofList_none, ident, Datum.strip, strip_formalsD, strip_renderDefs ds, strip_renderList b]
theorem strip_renderList : ∀ es : List Expr, (renderList es).map Datum.strip = renderList es
  | [] => rfl
  | e :: es => by simp [renderList, strip_render e, strip_renderList es]
theorem strip_renderDefs : ∀ (ds : List Def) (tail : List Datum), tail.map Datum.strip = tail →
    (renderDefs ds tail).map Datum.strip = renderDefs ds tail
  | [], tail, h => by simpa [renderDefs] using h
  | (.mk x e l) :: ds, tail, h => by
    simp [renderDefs, renderDef, defineD, lst, strip_ofList_none, ident, Datum.strip, strip_render e, strip_renderDefs ds tail h]
end

end Ruschm.CoreSyntax

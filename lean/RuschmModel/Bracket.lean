/-
Model of `check_bracket_closed` in `src/repl.rs`: the REPL's private test for "the text entered
so far closes every list it opened". A fold of a small state machine over the characters.
-/
import RuschmModel.Lex
namespace Ruschm.Bracket

inductive Mode where
  | normal | comment | str | strEsc | bar | sharp | charLit
  deriving DecidableEq, Repr, Inhabited

/-- the `match c` of the outer loop -/
def normalStep (n : Int) (c : Char) : Mode × Int :=
  if c = '(' then (.normal, n + 1)
  else if c = ')' then (.normal, n - 1)
  else if c = ';' then (.comment, n)
  else if c = '"' then (.str, n)
  else if c = '|' then (.bar, n)
  else if c = '#' then (.sharp, n)
  else (.normal, n)

def step : Mode × Int → Char → Mode × Int
  | (.normal, n), c => normalStep n c
  | (.comment, n), c => if c = '\n' || c = '\r' then (.normal, n) else (.comment, n)
  | (.str, n), c => if c = '"' then (.normal, n) else if c = '\\' then (.strEsc, n) else (.str, n)
  | (.strEsc, n), _ => (.str, n)
  | (.bar, n), c => if c = '|' then (.normal, n) else (.bar, n)
  -- after `#` the next character is only peeked: a backslash starts a character literal (the
  -- backslash and one more character are skipped), anything else is handled normally
  | (.sharp, n), c => if c = '\\' then (.charLit, n) else normalStep n c
  | (.charLit, n), _ => (.normal, n)

def run (cs : List Char) : Mode × Int := cs.foldl step (.normal, 0)

/-- `check_bracket_closed` -/
def closed (cs : List Char) : Bool := decide ((run cs).2 ≤ 0)

end Ruschm.Bracket

/-
Location erasure commutes with the interpreter around the evaluator (imports, libraries,
`eval_ast`): continuation of `UnlocXform.lean`. Here only the error's LOCATION may differ between
the run on erased input and the erased run (`EI`): a library file that does not tokenise reports
the lexer's position in that file, in both runs alike.
-/
import RuschmProofs.UnlocXform
import RuschmProofs.LibLemmas
set_option linter.unusedSimpArgs false
set_option linter.unusedVariables false
set_option linter.unusedSectionVars false
namespace Ruschm
open Interp Eval Prim

/-- bindings without locations -/
abbrev bindsU (l : List (String × Value)) : List (String × Value) := l.map (fun p => (p.1, p.2.unloc))

abbrev IRes (α : Type) := Except SErr α × State

/-- an interpreter-level result without locations -/
def IU {α} (g : α → α) (r : IRes α) : IRes α := (mapE g r.1, r.2.unloc)
/-- only the error's location erased -/
def EI {α} (r : IRes α) : IRes α := (eraseErr r.1, r.2)

@[simp] theorem IU_ok {α} (g : α → α) (a : α) (st : State) : IU g (.ok a, st) = (.ok (g a), st.unloc) := rfl
@[simp] theorem IU_error {α} (g : α → α) (e : SErr) (st : State) : IU g ((.error e, st) : IRes α) = (.error e.unloc, st.unloc) := rfl
@[simp] theorem EI_ok {α} (a : α) (st : State) : EI ((.ok a, st) : IRes α) = (.ok a, st) := rfl
@[simp] theorem EI_error {α} (e : SErr) (st : State) : EI ((.error e, st) : IRes α) = (.error e.unloc, st) := rfl

@[simp] theorem State.unloc_store (st : State) : st.unloc.store = st.store.unloc := rfl
@[simp] theorem State.unloc_env (st : State) : st.unloc.env = st.env := rfl
@[simp] theorem State.unloc_syn (st : State) : st.unloc.syn = st.syn := rfl
@[simp] theorem State.unloc_inProgress (st : State) : st.unloc.inProgress = st.inProgress := rfl
@[simp] theorem State.unloc_importEnd (st : State) : st.unloc.importEnd = st.importEnd := rfl
@[simp] theorem State.unloc_files (st : State) : st.unloc.files = st.files := rfl
@[simp] theorem State.unloc_dir (st : State) : st.unloc.dir = st.dir := rfl
@[simp] theorem State.unloc_factories (st : State) :
    st.unloc.factories = st.factories.map (fun p => (p.1, p.2.unloc)) := rfl
@[simp] theorem State.unloc_instances (st : State) :
    st.unloc.instances = st.instances.map (fun p => (p.1, bindsU p.2)) := rfl

theorem libLookup_map {α β} (f : α → β) (l : List (LibName × α)) (k : LibName) :
    libLookup (l.map (fun p => (p.1, f p.2))) k = (libLookup l k).map f := by
  induction l with
  | nil => rfl
  | cons p l ih =>
    obtain ⟨k', v⟩ := p
    simp only [List.map_cons, libLookup]
    split
    · rfl
    · exact ih

theorem libInsert_map {α β} (f : α → β) (l : List (LibName × α)) (k : LibName) (v : α) :
    (libInsert l k v).map (fun p => (p.1, f p.2)) = libInsert (l.map (fun p => (p.1, f p.2))) k (f v) := by
  induction l with
  | nil => rfl
  | cons p l ih =>
    obtain ⟨k', v'⟩ := p
    simp only [List.map_cons, libInsert]
    split
    · rfl
    · simp [ih]

theorem assocInsert_map {α β} (f : α → β) (l : List (String × α)) (k : String) (v : α) :
    (assocInsert l k v).map (fun p => (p.1, f p.2)) = assocInsert (l.map (fun p => (p.1, f p.2))) k (f v) := by
  induction l with
  | nil => rfl
  | cons p l ih =>
    obtain ⟨k', v'⟩ := p
    simp only [List.map_cons, assocInsert]
    split
    · rfl
    · simp [ih]

theorem evalExprOrDef_unloc (fuel : Nat) (st : State) (s : Statement) (ρ : Nat) :
    evalExprOrDef fuel st.unloc s.unloc ρ = IU (Option.map Value.unloc) (evalExprOrDef fuel st s ρ) := by
  cases s with
  | expr e =>
    simp only [Statement.unloc, evalExprOrDef, State.unloc_store, evalExpr_unloc]
    rcases evalExpr fuel st.store ρ e with ⟨_ | v, σ⟩ <;> rfl
  | definition d =>
    obtain ⟨name, e, l⟩ := d
    simp only [Statement.unloc, Def.unloc, evalExprOrDef, State.unloc_store, evalExpr_unloc]
    rcases evalExpr fuel st.store ρ e with ⟨_ | v, σ⟩
    · rfl
    · simp only [Res.unloc_ok, IU_ok, Option.map_none]
      simp [State.unloc]
  | syntaxDef name rules l =>
    simp only [Statement.unloc, evalExprOrDef, State.unloc_store, IU_ok, Option.map_none]
    simp [State.unloc]
  | importDecl sets l => rfl
  | libraryDef n decls l => rfl


theorem EI_cases {α} {g : α → α} {x' x : IRes α} (hx : EI x' = IU g x) :
    (∃ e e' st, x = (.error e, st) ∧ x' = (.error e', st.unloc) ∧ e'.unloc = e.unloc) ∨
    (∃ a st, x = (.ok a, st) ∧ x' = (.ok (g a), st.unloc)) := by
  obtain ⟨r, st⟩ := x
  obtain ⟨r', st'⟩ := x'
  simp only [EI, IU, Prod.mk.injEq] at hx
  obtain ⟨h1, h2⟩ := hx
  subst h2
  cases r with
  | error e =>
    cases r' with
    | error e' => exact .inl ⟨e, e', st, rfl, rfl, by simpa using h1⟩
    | ok a' => cases h1
  | ok a =>
    cases r' with
    | error e' => cases h1
    | ok a' =>
      simp only [eraseErr_ok, mapE_ok, Except.ok.injEq] at h1
      subst h1
      exact .inr ⟨a, st, rfl, rfl⟩

theorem EI_of_eq {α} {g : α → α} {x' x : IRes α} (h : x' = IU g x) : EI x' = IU g x := by
  rw [h]
  obtain ⟨r, st⟩ := x
  cases r <;> rfl

theorem filter_bindsU (p : String → Bool) (l : List (String × Value)) :
    (bindsU l).filter (fun q => p q.1) = bindsU (l.filter (fun q => p q.1)) := by
  induction l with
  | nil => rfl
  | cons x l ih => simp only [bindsU, List.map_cons, List.filter_cons] at ih ⊢; split <;> simp [ih]

theorem toStatement_stripped_unloc {n : Nat} {d : Datum} {env env' : Xform.SynEnv} {stmt : Statement}
    (h : Xform.toStatement n d.strip env = (.ok stmt, env')) : stmt.unloc = stmt := by
  have h2 := toStatement_strip n d.strip env
  rw [Datum.strip_strip, h] at h2
  simp only [mapE_ok, Prod.mk.injEq, Except.ok.injEq] at h2
  exact h2.1.symm

theorem factoryOfText_go_unloc (name : LibName) : ∀ (n : Nat) (s : Read.PState) (env : Xform.SynEnv) (f : Factory),
    factoryOfText.go name n s env = .ok f → f.unloc = f := by
  intro n
  induction n with
  | zero => intro s env f h; simp [factoryOfText.go] at h
  | succ n ih =>
    intro s env f h
    rw [factoryOfText.go] at h
    split at h
    · cases h
    · cases h
    · rename_i d s' _
      dsimp only at h
      split at h
      · cases h
      · rename_i nm decls l env' hx
        split at h
        · cases h
          have := toStatement_stripped_unloc hx
          simp only [Statement.unloc, Statement.libraryDef.injEq] at this
          simp [Factory.unloc, this.2.1]
        · exact ih _ _ _ h
      · exact ih _ _ _ h

theorem factoryOfText_unloc {name : LibName} {t : String} {f : Factory}
    (h : factoryOfText name t = .ok f) : f.unloc = f := by
  unfold factoryOfText at h
  exact factoryOfText_go_unloc name _ _ _ f h

structure IUnlocAt (fuel : Nat) : Prop where
  importSet : ∀ st s, EI (evalImportSet fuel (State.unloc st) (ImportSet.unloc s)) = IU bindsU (evalImportSet fuel st s)
  getLibrary : ∀ st name loc, EI (getLibrary fuel (State.unloc st) name none) = IU bindsU (getLibrary fuel st name loc)
  import_ : ∀ st sets ρ, EI (evalImport fuel (State.unloc st) (sets.map ImportSet.unloc) ρ) = IU id (evalImport fuel st sets ρ)
  importSets : ∀ st sets acc, EI (evalImportSets fuel (State.unloc st) (sets.map ImportSet.unloc) (bindsU acc)) =
    IU bindsU (evalImportSets fuel st sets acc)
  libraryDef : ∀ st decls, EI (evalLibraryDef fuel (State.unloc st) (LibDecl.unlocList decls)) =
    IU bindsU (evalLibraryDef fuel st decls)
  libDecls : ∀ st ρ decls acc, EI (evalLibDecls fuel (State.unloc st) ρ (LibDecl.unlocList decls) (acc.map ExportSpec.unloc)) =
    IU (List.map ExportSpec.unloc) (evalLibDecls fuel st ρ decls acc)
  statements : ∀ st ρ ss, EI (evalStatements fuel (State.unloc st) ρ (Statement.unlocList ss)) =
    IU id (evalStatements fuel st ρ ss)

theorem iUnlocAt_zero : IUnlocAt 0 := by
  constructor <;> intros <;>
    simp only [evalImportSet, Interp.getLibrary, evalImport, evalImportSets, evalLibraryDef, evalLibDecls, evalStatements] <;> rfl

theorem foldl_define_unloc (ρ : Nat) (defs : List (String × Value)) : ∀ (σ : Store),
    (bindsU defs).foldl (fun σ p => σ.define ρ p.1 p.2) σ.unloc = (defs.foldl (fun σ p => σ.define ρ p.1 p.2) σ).unloc := by
  induction defs with
  | nil => intro σ; rfl
  | cons p defs ih =>
    intro σ
    simp only [bindsU, List.map_cons, List.foldl_cons] at ih ⊢
    rw [← Store.unloc_define, ih]

theorem foldlM_comm {α β γ δ} (fa : α → γ) (fb : β → δ) (step : β → α → Except SErr β)
    (step' : δ → γ → Except SErr δ) (h : ∀ b a, step' (fb b) (fa a) = mapE fb (step b a)) :
    ∀ (l : List α) (b : β), (l.map fa).foldlM step' (fb b) = mapE fb (l.foldlM step b) := by
  intro l
  induction l with
  | nil => intro b; rfl
  | cons a l ih =>
    intro b
    simp only [List.map_cons, List.foldlM_cons, h b a]
    cases step b a with
    | error e => rfl
    | ok b' => exact ih b'

theorem mergeDefs_unloc' (σ : Store) (defs acc : List (String × Value)) :
    (bindsU defs).foldlM (fun (a : List (String × Value)) p =>
        match a.lookup p.1 with
        | some prev => if Prim.derivedEq σ.unloc 100000 prev p.2 then Except.ok (assocInsert a p.1 p.2)
                       else Except.error ((Err.other, none) : SErr)
        | none => Except.ok (assocInsert a p.1 p.2)) (bindsU acc) =
      mapE bindsU (defs.foldlM (fun (a : List (String × Value)) p =>
        match a.lookup p.1 with
        | some prev => if Prim.derivedEq σ 100000 prev p.2 then Except.ok (assocInsert a p.1 p.2)
                       else Except.error ((Err.other, none) : SErr)
        | none => Except.ok (assocInsert a p.1 p.2)) acc) := by
  refine foldlM_comm (fun p : String × Value => (p.1, p.2.unloc)) bindsU _ _ (fun a p => ?_) defs acc
  obtain ⟨k, v⟩ := p
  simp only [bindsU, lookup_map_unloc]
  cases a.lookup k with
  | none => simp [assocInsert_map]
  | some prev =>
    simp only [Option.map_some, derivedEq_unloc]
    split
    · simp [assocInsert_map]
    · rfl

theorem mergeDefs_unloc (st : State) (defs acc : List (String × Value)) :
    (bindsU defs).foldlM (fun (a : List (String × Value)) p =>
        match a.lookup p.1 with
        | some prev => if Prim.derivedEq st.unloc.store 100000 prev p.2 then Except.ok (assocInsert a p.1 p.2)
                       else Except.error ((Err.other, none) : SErr)
        | none => Except.ok (assocInsert a p.1 p.2)) (bindsU acc) =
      mapE bindsU (defs.foldlM (fun (a : List (String × Value)) p =>
        match a.lookup p.1 with
        | some prev => if Prim.derivedEq st.store 100000 prev p.2 then Except.ok (assocInsert a p.1 p.2)
                       else Except.error ((Err.other, none) : SErr)
        | none => Except.ok (assocInsert a p.1 p.2)) acc) :=
  mergeDefs_unloc' st.store defs acc

theorem exports_unloc' (σ : Store) (ρ : Nat) (exports : List ExportSpec) (acc : List (String × Value)) :
    (exports.map ExportSpec.unloc).foldlM (fun (acc : List (String × Value)) (ex : ExportSpec) =>
        let (from_, to, loc) := match ex with
          | .direct n l => (n, n, l)
          | .rename a b l => (a, b, l)
        match σ.unloc.lookup ρ from_ with
        | some v => Except.ok (assocInsert acc to v)
        | none => Except.error ((Err.unbound, loc) : SErr)) (bindsU acc) =
      mapE bindsU (exports.foldlM (fun (acc : List (String × Value)) (ex : ExportSpec) =>
        let (from_, to, loc) := match ex with
          | .direct n l => (n, n, l)
          | .rename a b l => (a, b, l)
        match σ.lookup ρ from_ with
        | some v => Except.ok (assocInsert acc to v)
        | none => Except.error ((Err.unbound, loc) : SErr)) acc) := by
  refine foldlM_comm ExportSpec.unloc bindsU _ _ (fun a ex => ?_) exports acc
  cases ex with
  | direct n l =>
    simp only [ExportSpec.unloc, Store.unloc_lookup]
    cases σ.lookup ρ n <;> simp [assocInsert_map]
  | rename x y l =>
    simp only [ExportSpec.unloc, Store.unloc_lookup]
    cases σ.lookup ρ x <;> simp [assocInsert_map]

theorem exports_unloc (st : State) (ρ : Nat) (exports : List ExportSpec) (acc : List (String × Value)) :
    (exports.map ExportSpec.unloc).foldlM (fun (acc : List (String × Value)) (ex : ExportSpec) =>
        let (from_, to, loc) := match ex with
          | .direct n l => (n, n, l)
          | .rename a b l => (a, b, l)
        match st.unloc.store.lookup ρ from_ with
        | some v => Except.ok (assocInsert acc to v)
        | none => Except.error ((Err.unbound, loc) : SErr)) (bindsU acc) =
      mapE bindsU (exports.foldlM (fun (acc : List (String × Value)) (ex : ExportSpec) =>
        let (from_, to, loc) := match ex with
          | .direct n l => (n, n, l)
          | .rename a b l => (a, b, l)
        match st.store.lookup ρ from_ with
        | some v => Except.ok (assocInsert acc to v)
        | none => Except.error ((Err.unbound, loc) : SErr)) acc) :=
  exports_unloc' st.store ρ exports acc

section succ
variable {fuel : Nat} (ih : IUnlocAt fuel)
include ih

theorem i_importSet (st : State) (s : ImportSet) :
    EI (evalImportSet (fuel + 1) st.unloc s.unloc) = IU bindsU (evalImportSet (fuel + 1) st s) := by
  cases s with
  | direct name loc =>
    simp only [ImportSet.unloc, evalImportSet, State.unloc_inProgress]
    by_cases hc : st.inProgress.contains name = true
    · simp only [hc, if_true]; rfl
    · simp only [hc, if_false]
      have e : ({ st.unloc with inProgress := name :: st.inProgress } : State) =
          ({ st with inProgress := name :: st.inProgress } : State).unloc := rfl
      rw [e]
      rcases EI_cases (ih.getLibrary { st with inProgress := name :: st.inProgress } name loc) with
        ⟨e1, e1', st1, h1, h2, h3⟩ | ⟨a, st1, h1, h2⟩
      · simp only [h1, h2]; simp [EI, IU, h3, State.unloc]
      · simp only [h1, h2]; simp [EI, IU, State.unloc]
  | only sub ids =>
    simp only [ImportSet.unloc, evalImportSet]
    rcases EI_cases (ih.importSet st sub) with ⟨e1, e1', st1, h1, h2, h3⟩ | ⟨a, st1, h1, h2⟩
    · simp only [h1, h2]; simp [EI, IU, h3]
    · simp only [h1, h2]; simp only [EI_ok, IU_ok]; rw [filter_bindsU (fun k => ids.contains k)]
  | except sub ids =>
    simp only [ImportSet.unloc, evalImportSet]
    rcases EI_cases (ih.importSet st sub) with ⟨e1, e1', st1, h1, h2, h3⟩ | ⟨a, st1, h1, h2⟩
    · simp only [h1, h2]; simp [EI, IU, h3]
    · simp only [h1, h2]; simp only [EI_ok, IU_ok]; rw [filter_bindsU (fun k => !ids.contains k)]
  | «prefix» sub p =>
    simp only [ImportSet.unloc, evalImportSet]
    rcases EI_cases (ih.importSet st sub) with ⟨e1, e1', st1, h1, h2, h3⟩ | ⟨a, st1, h1, h2⟩
    · simp only [h1, h2]; simp [EI, IU, h3]
    · simp only [h1, h2]; simp [EI, IU, bindsU]
  | rename sub pairs =>
    simp only [ImportSet.unloc, evalImportSet]
    rcases EI_cases (ih.importSet st sub) with ⟨e1, e1', st1, h1, h2, h3⟩ | ⟨a, st1, h1, h2⟩
    · simp only [h1, h2]; simp [EI, IU, h3]
    · simp only [h1, h2]; simp [EI, IU, bindsU]


theorem i_findFactory (st : State) (name : LibName) (loc : Loc) :
    EI (findFactory st.unloc name none) = IU Factory.unloc (findFactory st name loc) := by
  unfold findFactory
  simp only [State.unloc_factories, libLookup_map, State.unloc_files, State.unloc_dir]
  cases libLookup st.factories name with
  | some f => rfl
  | none =>
    simp only [Option.map_none]
    cases st.files.lookup (fileKey st.dir (libPath name)) with
    | none => rfl
    | some fe =>
      cases fe with
      | unreadable => rfl
      | text t =>
        simp only
        cases hf : factoryOfText name t with
        | error e => rfl
        | ok f =>
          have hu := factoryOfText_unloc hf
          simp only [EI_ok, IU_ok, hu]
          congr 1
          simp only [State.unloc, libInsert_map, hu]

theorem i_instantiate (st : State) (f : Factory) (name : LibName) :
    EI (instantiate fuel st.unloc f.unloc name) = IU bindsU (instantiate fuel st f name) := by
  unfold instantiate newLibrary cacheInstance
  cases f with
  | native defs =>
    simp only [Factory.unloc, EI_ok, IU_ok]
    congr 1
    simp only [State.unloc, libInsert_map]
  | ast decls =>
    simp only [Factory.unloc]
    rcases EI_cases (ih.libraryDef st decls) with ⟨e1, e1', st1, h1, h2, h3⟩ | ⟨a, st1, h1, h2⟩
    · simp only [h1, h2]; simp [EI, IU, h3]
    · simp only [h1, h2, EI_ok, IU_ok]
      congr 1
      simp only [State.unloc, libInsert_map]

theorem i_getLibrary (st : State) (name : LibName) (loc : Loc) :
    EI (Interp.getLibrary (fuel + 1) st.unloc name none) = IU bindsU (Interp.getLibrary (fuel + 1) st name loc) := by
  rw [getLibrary_succ_eq, getLibrary_succ_eq]
  simp only [State.unloc_instances, libLookup_map]
  cases libLookup st.instances name with
  | some defs => rfl
  | none =>
    simp only [Option.map_none]
    rcases EI_cases (i_findFactory ih st name loc) with ⟨e1, e1', st1, h1, h2, h3⟩ | ⟨f, st1, h1, h2⟩
    · simp only [h1, h2]; simp [EI, IU, h3]
    · simp only [h1, h2]
      exact i_instantiate ih st1 f name


theorem i_import (st : State) (sets : List ImportSet) (ρ : Nat) :
    EI (evalImport (fuel + 1) st.unloc (sets.map ImportSet.unloc) ρ) = IU id (evalImport (fuel + 1) st sets ρ) := by
  simp only [evalImport]
  have h0 := ih.importSets st sets []
  rcases EI_cases h0 with ⟨e1, e1', st1, h1, h2, h3⟩ | ⟨defs, st1, h1, h2⟩
  · simp only [bindsU, List.map_nil] at h2
    simp only [h1, h2]; simp [EI, IU, h3]
  · simp only [bindsU, List.map_nil] at h2
    simp only [h1, h2, EI_ok, IU_ok, id]
    congr 1
    simp only [State.unloc, State.unloc_store]
    rw [← foldl_define_unloc]

theorem i_importSets (st : State) (sets : List ImportSet) (acc : List (String × Value)) :
    EI (evalImportSets (fuel + 1) st.unloc (sets.map ImportSet.unloc) (bindsU acc)) =
      IU bindsU (evalImportSets (fuel + 1) st sets acc) := by
  cases sets with
  | nil => simp only [List.map_nil, evalImportSets]; rfl
  | cons s rest =>
    simp only [List.map_cons, evalImportSets]
    rcases EI_cases (ih.importSet st s) with ⟨e1, e1', st1, h1, h2, h3⟩ | ⟨defs, st1, h1, h2⟩
    · simp only [h1, h2]; simp [EI, IU, h3]
    · simp only [h1, h2]
      generalize hB : List.foldlM (m := Except SErr) _ acc defs = B
      generalize hB' : List.foldlM (m := Except SErr) _ (bindsU acc) (bindsU defs) = B'
      have L : B' = mapE bindsU B := by
        rw [← hB, ← hB']; exact mergeDefs_unloc st1 defs acc
      rw [L]
      cases B with
      | error e => rfl
      | ok acc' => exact ih.importSets st1 rest acc'

theorem i_libraryDef (st : State) (decls : List LibDecl) :
    EI (evalLibraryDef (fuel + 1) st.unloc (LibDecl.unlocList decls)) = IU bindsU (evalLibraryDef (fuel + 1) st decls) := by
  simp only [evalLibraryDef, State.unloc_store, Store.unloc_newFrame]
  have e : ({ st.unloc with store := (st.store.newFrame none).2.unloc } : State) =
      ({ st with store := (st.store.newFrame none).2 } : State).unloc := rfl
  rw [e]
  have h0 := ih.libDecls { st with store := (st.store.newFrame none).2 } (st.store.newFrame none).1 decls []
  rcases EI_cases h0 with ⟨e1, e1', st1, h1, h2, h3⟩ | ⟨exports, st1, h1, h2⟩
  · simp only [List.map_nil] at h2
    simp only [h1, h2]; simp [EI, IU, h3]
  · simp only [List.map_nil] at h2
    simp only [h1, h2]
    generalize hB : List.foldlM (m := Except SErr) _ [] exports = B
    generalize hB' : List.foldlM (m := Except SErr) _ [] (exports.map ExportSpec.unloc) = B'
    have L : B' = mapE bindsU B := by
      rw [← hB, ← hB']; exact exports_unloc st1 (st.store.newFrame none).1 exports []
    rw [L]
    cases B <;> rfl

theorem i_libDecls (st : State) (ρ : Nat) (decls : List LibDecl) (acc : List ExportSpec) :
    EI (evalLibDecls (fuel + 1) st.unloc ρ (LibDecl.unlocList decls) (acc.map ExportSpec.unloc)) =
      IU (List.map ExportSpec.unloc) (evalLibDecls (fuel + 1) st ρ decls acc) := by
  cases decls with
  | nil => simp only [LibDecl.unlocList, evalLibDecls]; rfl
  | cons d ds =>
    cases d with
    | importDecl sets =>
      simp only [LibDecl.unlocList, LibDecl.unloc, evalLibDecls]
      rcases EI_cases (ih.import_ st sets ρ) with ⟨e1, e1', st1, h1, h2, h3⟩ | ⟨u, st1, h1, h2⟩
      · simp only [h1, h2]; simp [EI, IU, h3]
      · simp only [h1, h2]; exact ih.libDecls st1 ρ ds acc
    | «export» specs =>
      simp only [LibDecl.unlocList, LibDecl.unloc, evalLibDecls, ← List.map_append]
      exact ih.libDecls st ρ ds (acc ++ specs)
    | begin_ body =>
      simp only [LibDecl.unlocList, LibDecl.unloc, evalLibDecls]
      rcases EI_cases (ih.statements st ρ body) with ⟨e1, e1', st1, h1, h2, h3⟩ | ⟨u, st1, h1, h2⟩
      · simp only [h1, h2]; simp [EI, IU, h3]
      · simp only [h1, h2]; exact ih.libDecls st1 ρ ds acc

theorem i_statements (st : State) (ρ : Nat) (ss : List Statement) :
    EI (evalStatements (fuel + 1) st.unloc ρ (Statement.unlocList ss)) = IU id (evalStatements (fuel + 1) st ρ ss) := by
  cases ss with
  | nil => simp only [Statement.unlocList, evalStatements]; rfl
  | cons s ss =>
    simp only [Statement.unlocList, evalStatements, evalExprOrDef_unloc]
    rcases evalExprOrDef fuel st s ρ with ⟨_ | v, st1⟩
    · rfl
    · exact ih.statements st1 ρ ss

end succ

theorem iUnlocAt : ∀ fuel, IUnlocAt fuel
  | 0 => iUnlocAt_zero
  | n + 1 =>
    have ih := iUnlocAt n
    ⟨i_importSet ih, i_getLibrary ih, i_import ih, i_importSets ih, i_libraryDef ih, i_libDecls ih,
      i_statements ih⟩


theorem evalAst_unloc (fuel : Nat) (st : State) (s : Statement) :
    EI (evalAst fuel st.unloc s.unloc) = IU (Option.map Value.unloc) (evalAst fuel st s) := by
  unfold evalAst
  simp only [State.unloc_importEnd, State.unloc_env]
  have hfin : ∀ (x' x : IRes (Option Value)) (l' l : Loc), EI x' = IU (Option.map Value.unloc) x →
      EI (match x'.1 with
          | .ok v => (.ok v, x'.2)
          | .error (e, loc) => (.error (e, loc.orElse (fun _ => l')), x'.2)) =
      IU (Option.map Value.unloc) (match x.1 with
          | .ok v => (.ok v, x.2)
          | .error (e, loc) => (.error (e, loc.orElse (fun _ => l)), x.2)) := by
    intro x' x l' l hx
    rcases EI_cases hx with ⟨e1, e1', st1, h1, h2, h3⟩ | ⟨a, st1, h1, h2⟩
    · obtain ⟨k, lk⟩ := e1
      obtain ⟨k', lk'⟩ := e1'
      simp only [SErr.unloc_mk, Prod.mk.injEq, and_true] at h3
      subst h3
      rw [h1, h2]; rfl
    · rw [h1, h2]; rfl
  have hE : ∀ (st0 : State) (s0 : Statement),
      EI (evalExprOrDef fuel st0.unloc s0.unloc st0.env) = IU (Option.map Value.unloc) (evalExprOrDef fuel st0 s0 st0.env) :=
    fun st0 s0 => EI_of_eq (evalExprOrDef_unloc fuel st0 s0 st0.env)
  by_cases hi : st.importEnd = true
  · simp only [hi, Bool.not_true, Bool.false_eq_true, if_false]
    exact hfin _ _ _ _ (hE st s)
  · simp only [hi, Bool.not_false, if_true]
    cases s with
    | importDecl sets l =>
      simp only [Statement.unloc]
      refine hfin _ _ _ _ ?_
      rcases EI_cases (iUnlocAt fuel |>.import_ st sets st.env) with ⟨e1, e1', st1, h1, h2, h3⟩ | ⟨a, st1, h1, h2⟩
      · simp only [h1, h2]; simp [EI, IU, h3]
      · simp only [h1, h2]; rfl
    | libraryDef nm decls l => rfl
    | definition d =>
      simp only [Statement.unloc]
      exact hfin _ _ _ _ (hE { st with importEnd := true } (.definition d))
    | syntaxDef nm r l =>
      simp only [Statement.unloc]
      exact hfin _ _ none l (hE { st with importEnd := true } (.syntaxDef nm r l))
    | expr e =>
      simp only [Statement.unloc]
      exact hfin _ _ _ _ (hE { st with importEnd := true } (.expr e))

end Ruschm

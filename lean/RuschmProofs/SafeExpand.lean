/-
Helper lemmas for C07 (4): macro definition and expansion keep data free of `n/0`.
* templates built from `n/0`-free data are `n/0`-free (`toTmpl_ratOk`, `toRules_ratOk`);
* the matcher only ever stores sub-data of the use in its table (`matchDatum_ratOK`);
* instantiating an `n/0`-free template with an `n/0`-free table gives `n/0`-free data
  (`subst_ratOk_all`, `transform_ratOk`).
-/
import RuschmProofs.SafeFront
import RuschmProofs.SharedLemmas

namespace Ruschm
open Ruschm

theorem Datum.spine_ratOk : ∀ (d : Datum), d.ratOk = true →
    (∀ x ∈ d.spine.1, x.ratOk = true) ∧ (∀ t, d.spine.2 = some t → t.ratOk = true)
  | .pair a d l, h => by
    simp only [Datum.ratOk, Bool.and_eq_true] at h
    have ih := Datum.spine_ratOk d h.2
    simp only [Datum.spine]
    refine ⟨?_, ih.2⟩
    intro x hx
    rcases List.mem_cons.1 hx with rfl | hx
    · exact h.1
    · exact ih.1 x hx
  | .nil _, _ => by simp [Datum.spine]
  | .prim p l, h => by simp [Datum.spine]; exact h
  | .sym s l, h => by simp [Datum.spine]; exact h
  | .vec xs l, h => by simp [Datum.spine]; exact h

theorem Datum.elems_ratOk (d : Datum) (h : d.ratOk = true) : ∀ x ∈ d.elems, x.ratOk = true := by
  have := Datum.spine_ratOk d h
  unfold Datum.elems
  split
  · rename_i xs hs; rw [hs] at this; exact this.1
  · rename_i xs t hs; rw [hs] at this
    intro x hx
    rcases List.mem_append.1 hx with hx | hx
    · exact this.1 x hx
    · simp at hx; subst hx; exact this.2 _ rfl


theorem Datum.ofList_ratOk (l : Loc) : ∀ (xs : List Datum), (∀ x ∈ xs, x.ratOk = true) → (Datum.ofList l xs).ratOk = true
  | [], _ => rfl
  | x :: xs, h => by
    simp only [Datum.ofList, Datum.ratOk, Bool.and_eq_true]
    exact ⟨h x (by simp), Datum.ofList_ratOk none xs fun y hy => h y (by simp [hy])⟩

namespace Macro

/-! ### templates -/

theorem tmpl_ratOk_all :
    (∀ d, ∀ t, toTmpl d = .ok t → d.ratOk = true → t.ratOk = true) ∧
    (∀ ds last, ∀ es, collectElems ds last = .ok es → Datum.ratOkList ds = true →
      (∀ p, last = some p → p.ratOk = true) → Tmpl.ratOkElems es = true) ∧
    (∀ d last, ∀ es, collectSpine d last = .ok es → d.ratOk = true →
      (∀ p, last = some p → p.ratOk = true) → Tmpl.ratOkElems es = true) := by
  apply toTmpl.mutual_induct
    (motive_1 := fun d => ∀ t, toTmpl d = .ok t → d.ratOk = true → t.ratOk = true)
    (motive_2 := fun ds last => ∀ es, collectElems ds last = .ok es → Datum.ratOkList ds = true →
      (∀ p, last = some p → p.ratOk = true) → Tmpl.ratOkElems es = true)
    (motive_3 := fun d last => ∀ es, collectSpine d last = .ok es → d.ratOk = true →
      (∀ p, last = some p → p.ratOk = true) → Tmpl.ratOkElems es = true)
  all_goals intros
  all_goals first
    | (rename_i t h hd; rw [toTmpl] at h)
    | (rename_i es h hd hl; first | rw [collectSpine] at h | rw [collectElems] at h | unfold collectSpine at h | unfold collectElems at h)
  all_goals try simp only [bind, Except.bind, pure, Except.pure] at h
  all_goals (repeat' split at h)
  all_goals first
    | (cases h; done)
    | grind [Datum.ratOk, Datum.ratOkList, Tmpl.ratOk, Tmpl.ratOkElems]


theorem toTmpl_ratOk {d t} (h : toTmpl d = .ok t) (hd : d.ratOk = true) : t.ratOk = true :=
  tmpl_ratOk_all.1 d t h hd

theorem expectList_ok {d d'} (h : expectList d = .ok d') : d' = d := by
  unfold expectList at h; split at h <;> cases h <;> rfl

theorem popProper_ratOk {d a r} (h : popProper d = .ok (some (a, r))) (hd : d.ratOk = true) :
    a.ratOk = true ∧ r.ratOk = true := by
  unfold popProper at h
  split at h <;> cases h <;> simp_all [Datum.ratOk]

theorem toRule_ratOk {k d pt} (h : toRule k d = .ok pt) (hd : d.ratOk = true) : pt.2.ratOk = true := by
  unfold toRule at h
  simp only [bind, Except.bind, pure, Except.pure] at h
  have := @expectList_ok; have := @toTmpl_ratOk; have := Datum.elems_ratOk d hd
  repeat' split at h
  all_goals first
    | (cases h; done)
    | grind

theorem mapM_ok_forall {α β} {f : α → Except SErr β} {P : α → Prop} {Q : β → Prop}
    (hf : ∀ a b, f a = .ok b → P a → Q b) :
    ∀ (l : List α) (r : List β), l.mapM f = .ok r → (∀ a ∈ l, P a) → ∀ b ∈ r, Q b
  | [], r, h, _ => by simp [List.mapM_nil, pure, Except.pure] at h; subst h; simp
  | a :: l, r, h, hp => by
    simp only [List.mapM_cons, bind, Except.bind, pure, Except.pure] at h
    split at h
    · cases h
    · rename_i b hb
      split at h
      · cases h
      · rename_i bs hbs
        cases h
        intro x hx
        rcases List.mem_cons.1 hx with rfl | hx
        · exact hf a _ hb (hp a (by simp))
        · exact mapM_ok_forall hf l bs hbs (fun y hy => hp y (by simp [hy])) x hx

theorem toRules_ratOk {k d r} (h : toRules k d = .ok r) (hd : d.ratOk = true) : r.RatOK := by
  unfold toRules at h
  simp only [bind, Except.bind, pure, Except.pure] at h
  split at h
  · cases h
  · rename_i d' hd'
    have := expectList_ok hd'; subst this
    have hel := Datum.elems_ratOk _ hd
    split at h
    · cases h
    · rename_i first rest hdrop
      have hfr : ∀ x ∈ first :: rest, x.ratOk = true := by
        intro x hx; rw [← hdrop] at hx; exact hel x (List.mem_of_mem_drop hx)
      split at h
      · cases h
      · rename_i v hv
        obtain ⟨lits, ruleData⟩ := v
        have hrd : ∀ x ∈ ruleData, x.ratOk = true := by
          revert hv
          have := @expectList_ok
          repeat' split
          all_goals first
            | (intro hv; cases hv; done)
            | (intro hv; simp only [Except.ok.injEq, Prod.mk.injEq] at hv; obtain ⟨_, rfl⟩ := hv
               intro x hx; exact hfr x (by simp_all))
        split at h
        · cases h
        · split at h
          · cases h
          · rename_i rules hrules
            cases h
            intro pt hpt
            exact mapM_ok_forall (P := fun d => d.ratOk = true) (Q := fun pt => pt.2.ratOk = true)
              (fun a b hab ha => toRule_ratOk hab ha) _ _ hrules hrd pt hpt


/-! ### the matcher -/


theorem Subst.ratOK_nil : Subst.RatOK [] := by intro e he; cases he

theorem Subst.ratOK_insert {σ : Subst} {v : String} {x : Datum × List Datum} (hσ : σ.RatOK)
    (hx : x.1.ratOk = true ∧ ∀ d ∈ x.2, d.ratOk = true) : (σ.insert v x).RatOK := by
  induction σ with
  | nil => intro e he; simp [Subst.insert] at he; subst he; exact hx
  | cons kv rest ih =>
    obtain ⟨k, y⟩ := kv
    simp only [Subst.insert]
    split
    · intro e he
      rcases List.mem_cons.1 he with rfl | he
      · exact hx
      · exact hσ e (by simp [he])
    · intro e he
      rcases List.mem_cons.1 he with rfl | he
      · exact hσ _ (by simp)
      · exact ih (fun e he => hσ e (by simp [he])) e he

theorem Subst.ratOK_push {σ σ' : Subst} {v : String} {d : Datum} (hσ : σ.RatOK) (hd : d.ratOk = true)
    (h : σ.push? v d = some σ') : σ'.RatOK := by
  induction σ generalizing σ' with
  | nil => simp [Subst.push?] at h
  | cons kv rest ih =>
    obtain ⟨k, f, more⟩ := kv
    simp only [Subst.push?] at h
    split at h
    · cases h
      intro e he
      rcases List.mem_cons.1 he with rfl | he
      · have := hσ (k, f, more) (by simp)
        refine ⟨this.1, fun x hx => ?_⟩
        rcases List.mem_append.1 hx with hx | hx
        · exact this.2 x hx
        · simp at hx; subst hx; exact hd
      · exact hσ e (by simp [he])
    · cases hr : Subst.push? rest v d with
      | none => simp [hr] at h
      | some r =>
        simp [hr] at h; subst h
        intro e he
        rcases List.mem_cons.1 he with rfl | he
        · exact hσ _ (by simp)
        · exact ih (fun e he => hσ e (by simp [he])) hr e he

theorem pushAll_ratOK : ∀ (τ σ σ' : Subst), τ.RatOK → σ.RatOK → pushAll τ σ = some σ' → σ'.RatOK
  | [], σ, σ', _, hσ, h => by simp [pushAll] at h; subst h; exact hσ
  | e :: τ, σ, σ', hτ, hσ, h => by
    rw [pushAll_cons] at h
    cases hp : Subst.push? σ e.1 e.2.1 with
    | none => simp [hp] at h
    | some σ1 =>
      simp [hp] at h
      exact pushAll_ratOK τ σ1 σ' (fun x hx => hτ x (by simp [hx]))
        (Subst.ratOK_push hσ (hτ e (by simp)).1 hp) h


theorem match_rat_aux (lits : List String) : ∀ n,
    (∀ p d σ, d.ratOk = true → Subst.RatOK σ → ∀ b σ', matchDatum n lits p d σ = .ok (b, σ') → Subst.RatOK σ') ∧
    (∀ ps ds mm σ, (∀ d ∈ ds, d.ratOk = true) → Subst.RatOK σ →
      ∀ b σ', matchStream n lits ps ds mm σ = .ok (b, σ') → Subst.RatOK σ') := by
  intro n
  induction n with
  | zero => simp
  | succ n ih =>
    obtain ⟨ihD, ihS⟩ := ih
    constructor
    · intro p d σ hd hσ b σ' h
      cases hp : p.isListy
      · cases p <;> simp [Pat.isListy] at hp
        · simp at h; obtain ⟨_, rfl⟩ := h; exact hσ
        · simp at h; obtain ⟨_, rfl⟩ := h; exact hσ
        · rw [matchDatum_vec] at h
          cases d <;> simp at h <;> try (obtain ⟨_, rfl⟩ := h; exact hσ)
          rename_i ps ds loc
          exact ihS ps ds none σ (Datum.ratOkList_iff.1 hd) hσ _ _ h
        · rename_i v
          rw [matchDatum_ident] at h
          split at h
          · cases h; exact hσ
          · cases h; exact Subst.ratOK_insert hσ ⟨hd, by simp⟩
        · rw [matchDatum_prim] at h; cases h; exact hσ
      · cases hdl : d.isListy
        · rw [matchDatum_listy_atom hp hdl] at h; cases h; exact hσ
        · rw [matchDatum_listy hp hdl] at h
          have hsp := Datum.spine_ratOk d hd
          split at h
          · cases h
          · rename_i σ1 he; cases h; exact ihS _ _ _ _ hsp.1 hσ _ _ he
          · rename_i σ1 he
            have h1 := ihS _ _ _ _ hsp.1 hσ _ _ he
            split at h
            · rename_i lp ld hlp hld
              exact ihD lp ld σ1 (hsp.2 _ hld) h1 _ _ h
            · cases h; exact h1
            · cases h; exact h1
    · intro ps ds mm σ hds hσ b σ' h
      cases ps with
      | nil => cases ds <;> simp at h <;> (obtain ⟨_, rfl⟩ := h; exact hσ)
      | cons p ps =>
        cases ds with
        | nil =>
          cases hp : p.isEllipsis
          · rw [matchStream_cons_nil_ne hp] at h; cases h; exact hσ
          · cases p <;> simp [Pat.isEllipsis] at hp
            cases mm with
            | none => simp at h; obtain ⟨_, rfl⟩ := h; exact hσ
            | some mp =>
              rw [matchStream_ell_nil_some] at h
              exact ihS ps [] (some mp) σ (by simp) hσ _ _ h
        | cons d ds =>
          have hd : d.ratOk = true := hds d (by simp)
          have hds' : ∀ x ∈ ds, x.ratOk = true := fun x hx => hds x (by simp [hx])
          cases hp : p.isEllipsis
          · rw [matchStream_step_ne hp] at h
            split at h
            · cases h
            · rename_i σ1 he; cases h; exact ihD p d σ hd hσ _ _ he
            · rename_i σ1 he
              exact ihS ps ds _ σ1 hds' (ihD p d σ hd hσ _ _ he) _ _ h
          · cases p <;> simp [Pat.isEllipsis] at hp
            cases n with
            | zero => rw [matchStream_ell_one] at h; cases h
            | succ n =>
              cases mm with
              | none => rw [matchStream_ell_none] at h; cases h
              | some mp =>
                rw [matchStream_step_ell] at h
                split at h
                · cases h
                · cases h; exact hσ
                · rename_i τ he
                  have hτ := ihD mp d [] hd Subst.ratOK_nil _ _ he
                  split at h
                  · cases h
                  · rename_i σ2 hσ2
                    have h2 := pushAll_ratOK τ σ σ2 hτ hσ hσ2
                    split at h
                    · cases h
                    · rename_i σ3 he2; cases h; exact ihS _ ds _ σ2 hds' h2 _ _ he2
                    · rename_i σ3 he2
                      exact ihS ps ds _ σ3 hds' (ihS _ ds _ σ2 hds' h2 _ _ he2) _ _ h

theorem matchDatum_ratOK {lits n p d σ b σ'} (h : matchDatum n lits p d σ = .ok (b, σ'))
    (hd : d.ratOk = true) (hσ : Subst.RatOK σ) : Subst.RatOK σ' :=
  (match_rat_aux lits n).1 p d σ hd hσ b σ' h


theorem Subst.get?_ratOK {σ : Subst} (hσ : σ.RatOK) {v : String} {f : Datum} {more : List Datum}
    (h : σ.get? v = some (f, more)) : f.ratOk = true ∧ ∀ d ∈ more, d.ratOk = true := by
  exact hσ _ (Subst.get?_mem h)

theorem Subst.get?_ratOK_fst {σ : Subst} (hσ : σ.RatOK) {v : String} {f : Datum} {more : List Datum}
    (h : σ.get? v = some (f, more)) : f.ratOk = true := (Subst.get?_ratOK hσ h).1

theorem Subst.get?_ratOK_more {σ : Subst} (hσ : σ.RatOK) {v : String} {f : Datum} {more : List Datum}
    (h : σ.get? v = some (f, more)) {i : Nat} {d : Datum} (hi : more[i]? = some d) : d.ratOk = true :=
  (Subst.get?_ratOK hσ h).2 d (List.mem_of_getElem? hi)

theorem substItem_ratOk_all :
    (∀ (t : Tmpl) (σ : Subst) (i : Nat) (loc : Loc), t.ratOk = true → σ.RatOK →
      ∀ d, substItem t σ i loc = some d → d.ratOk = true) ∧
    (∀ (es : List (Tmpl × Bool)) (σ : Subst) (i : Nat) (loc : Loc), Tmpl.ratOkElems es = true → σ.RatOK →
      ∀ ds, substItems es σ i loc = some ds → ∀ d ∈ ds, d.ratOk = true) := by
  apply substItem.mutual_induct
    (motive_1 := fun t σ i loc => t.ratOk = true → σ.RatOK →
      ∀ d, substItem t σ i loc = some d → d.ratOk = true)
    (motive_2 := fun es σ i loc => Tmpl.ratOkElems es = true → σ.RatOK →
      ∀ ds, substItems es σ i loc = some ds → ∀ d ∈ ds, d.ratOk = true)
  all_goals intros
  all_goals first
    | (rename_i ht hσ ds h d hd; rw [substItems] at h)
    | (rename_i ht hσ d h; rw [substItem] at h)
  all_goals (repeat' split at h)
  all_goals try simp only [Option.map_eq_some_iff] at h
  all_goals first
    | (cases h; done)
    | grind [Datum.ratOk, Datum.ratOkList_iff, Tmpl.ratOk, Tmpl.ratOkElems, Subst.get?_ratOK_fst, Subst.get?_ratOK_more, Datum.ofList_ratOk]


theorem substItemLoop_ratOk : ∀ (fuel : Nat) (t : Tmpl) (σ : Subst) (i : Nat) (loc : Loc), t.ratOk = true → σ.RatOK →
    ∀ ds, substItemLoop fuel t σ i loc = some ds → ∀ d ∈ ds, d.ratOk = true
  | 0, t, σ, i, loc, _, _, ds, h => by simp [substItemLoop] at h
  | fuel + 1, t, σ, i, loc, ht, hσ, ds, h => by
    rw [substItemLoop] at h
    split at h
    · cases h; simp
    · rename_i d hd
      simp only [Option.map_eq_some_iff] at h
      obtain ⟨r, hr, rfl⟩ := h
      intro x hx
      rcases List.mem_cons.1 hx with rfl | hx
      · exact substItem_ratOk_all.1 t σ i loc ht hσ _ hd
      · exact substItemLoop_ratOk fuel t σ (i + 1) loc ht hσ r hr x hx

theorem subst_ratOk_all (fuel : Nat) :
    (∀ (t : Tmpl) (σ : Subst) (loc : Loc), t.ratOk = true → σ.RatOK →
      ∀ d, subst fuel t σ loc = some d → d.ratOk = true) ∧
    (∀ (es : List (Tmpl × Bool)) (σ : Subst) (loc : Loc), Tmpl.ratOkElems es = true → σ.RatOK →
      ∀ ds, substElems fuel es σ loc = some ds → ∀ d ∈ ds, d.ratOk = true) := by
  apply subst.mutual_induct fuel
    (motive_1 := fun t σ loc => t.ratOk = true → σ.RatOK →
      ∀ d, subst fuel t σ loc = some d → d.ratOk = true)
    (motive_2 := fun es σ loc => Tmpl.ratOkElems es = true → σ.RatOK →
      ∀ ds, substElems fuel es σ loc = some ds → ∀ d ∈ ds, d.ratOk = true)
  all_goals intros
  all_goals first
    | (rename_i ht hσ ds h d hd; rw [substElems] at h)
    | (rename_i ht hσ d h; rw [subst] at h)
  all_goals (repeat' split at h)
  all_goals try simp only [Option.map_eq_some_iff] at h
  all_goals first
    | (cases h; done)
    | grind [Datum.ratOk, Datum.ratOkList_iff, Tmpl.ratOk, Tmpl.ratOkElems, Subst.get?_ratOK_fst, Datum.ofList_ratOk,
        substItemLoop_ratOk]

theorem transformRules_ratOk (fuel : Nat) (lits : List String) :
    ∀ (rules : List (Pat × Tmpl)) (use d : Datum), (∀ pt ∈ rules, pt.2.ratOk = true) → use.ratOk = true →
      transformRules fuel lits rules use = .ok d → d.ratOk = true
  | [], use, d, _, _, h => by simp [transformRules] at h
  | (p, t) :: rest, use, d, hr, hu, h => by
    rw [transformRules] at h
    simp only [bind, Except.bind, pure, Except.pure] at h
    split at h
    · cases h
    · rename_i v hv
      obtain ⟨ok, σ⟩ := v
      simp only at h
      split at h
      · split at h
        · cases h
        · split at h
          · rename_i d' hd'
            cases h
            exact (subst_ratOk_all fuel).1 t σ _ (hr (p, t) (by simp)) (matchDatum_ratOK hv hu Subst.ratOK_nil) _ hd'
          · cases h
      · exact transformRules_ratOk fuel lits rest use d (fun pt hpt => hr pt (by simp [hpt])) hu h

theorem transform_ratOk {fuel : Nat} {r : Rules} {use d : Datum} (hr : r.RatOK) (hu : use.ratOk = true)
    (h : transform fuel r use = .ok d) : d.ratOk = true :=
  transformRules_ratOk fuel _ _ _ _ hr hu h

end Macro
/-! ## `toStatement` produces `ok` code -/

namespace Xform

/-- the computation does not change the syntax environment -/
structure XPure {α} (m : XM α) : Prop where
  env : ∀ s, (m s).2 = s

theorem XPure.pure {α} (a : α) : XPure (pure a : XM α) := ⟨fun _ => rfl⟩
theorem XPure.fail {α} (e : SErr) : XPure (fail e : XM α) := ⟨fun _ => rfl⟩
theorem XPure.lift {α} (x : Except SErr α) : XPure (lift x) := ⟨fun _ => rfl⟩
theorem XPure.need {α} (x : Option α) : XPure (need x) := by
  cases x
  · exact XPure.fail _
  · exact XPure.pure _
theorem XPure.identOf (d : Datum) : XPure (identOf d) := XPure.lift _
theorem XPure.expectList (d : Datum) : XPure (expectList d) := XPure.lift _
theorem XPure.bind {α β} {m : XM α} {f : α → XM β} (hm : XPure m) (hf : ∀ a, XPure (f a)) : XPure (m >>= f) := by
  refine ⟨fun s => ?_⟩
  rw [bind_def']
  have := hm.env s
  generalize m s = x at this
  obtain ⟨r, s'⟩ := x
  simp only at this; subst this
  cases r with
  | error e => rfl
  | ok a => exact (hf a).env _
theorem XPure.mapM_loop {α β} {f : α → XM β} (hf : ∀ a, XPure (f a)) (l : List α) (acc : List β) :
    XPure (List.mapM.loop f l acc) := by
  induction l generalizing acc with
  | nil => simp only [List.mapM.loop]; exact XPure.pure _
  | cons a l ih =>
    simp only [List.mapM.loop]
    exact XPure.bind (hf a) fun b => ih _
theorem XPure.mapM {α β} {f : α → XM β} (hf : ∀ a, XPure (f a)) (l : List α) : XPure (l.mapM f) :=
  XPure.mapM_loop hf l []

syntax "xpure_close" : tactic
macro_rules
  | `(tactic| xpure_close) => `(tactic| first
      | exact XPure.fail _ | exact XPure.pure _ | exact XPure.need _ | exact XPure.identOf _
      | exact XPure.expectList _ | exact XPure.lift _)

theorem XPure.toFormals (d : Datum) : XPure (toFormals d) := by
  unfold Xform.toFormals
  split
  · simp only; split <;> xpure_close
  · simp only; split <;> xpure_close
  · xpure_close
  · xpure_close

theorem XPure.toLibName (ds : List Datum) : XPure (toLibName ds) := by
  unfold Xform.toLibName
  apply XPure.mapM
  intro d
  split
  · xpure_close
  · split <;> xpure_close
  · xpure_close

theorem XPure.toExportSpec (d : Datum) : XPure (toExportSpec d) := by
  unfold Xform.toExportSpec
  repeat (first | xpure_close | apply XPure.bind | intro _ | split | dsimp only)

theorem XPure.toImportSet (n : Nat) (d : Datum) : XPure (toImportSet n d) := by
  induction n generalizing d with
  | zero => rw [Xform.toImportSet]; xpure_close
  | succ n ih =>
    rw [Xform.toImportSet]
    repeat (first | xpure_close | exact ih _ | exact XPure.toLibName _ | apply XPure.bind | apply XPure.mapM | intro _ | split | dsimp only)

/-- forward form for `grind` -/
theorem XPure.eq {α} {m : XM α} (hm : XPure m) {s r s'} (h : m s = (r, s')) : s' = s := by
  have := hm.env s; rw [h] at this; exact this

theorem SynEnv.ratOK_define {env : SynEnv} (h : SynEnv.RatOK env) (k : String) {r : Macro.Rules} (hr : r.RatOK) :
    SynEnv.RatOK (env.define k r) := by
  cases env with
  | nil =>
    intro scope hs kr hkr
    simp [SynEnv.define] at hs; subst hs
    simp at hkr; subst hkr; exact hr
  | cons sc rest =>
    intro scope hs kr hkr
    simp only [SynEnv.define, List.mem_cons] at hs
    rcases hs with rfl | hs
    · have hsc := h sc (by simp)
      clear h
      induction sc with
      | nil => simp [scopeInsert] at hkr; subst hkr; exact hr
      | cons p sc ih =>
        obtain ⟨k', r'⟩ := p
        simp only [scopeInsert] at hkr
        split at hkr
        · rcases List.mem_cons.1 hkr with rfl | hkr
          · exact hr
          · exact hsc kr (by simp [hkr])
        · rcases List.mem_cons.1 hkr with rfl | hkr
          · exact hsc _ (by simp)
          · exact ih hkr (fun x hx => hsc x (by simp [hx]))
    · exact h scope (by simp [hs]) kr hkr

theorem SynEnv.ratOK_get {env : SynEnv} (h : SynEnv.RatOK env) {k : String} {r : Macro.Rules}
    (hg : env.get? k = some r) : r.RatOK := by
  induction env with
  | nil => simp [SynEnv.get?] at hg
  | cons sc rest ih =>
    simp only [SynEnv.get?] at hg
    split at hg
    · rename_i r' hl
      cases hg
      have : (k, r) ∈ sc := by
        clear h ih
        induction sc with
        | nil => simp at hl
        | cons p sc ih2 =>
          obtain ⟨k', r'⟩ := p
          rw [List.lookup_cons] at hl
          split at hl
          · rename_i hk; cases hl; simp at hk; subst hk; simp
          · exact List.mem_cons_of_mem _ (ih2 hl)
      exact h sc (by simp) _ this
    · exact ih (fun s hs => h s (by simp [hs])) hg

theorem SynEnv.ratOK_push {env : SynEnv} (h : SynEnv.RatOK env) : SynEnv.RatOK ([] :: env) := by
  intro sc hs
  rcases List.mem_cons.1 hs with rfl | hs
  · simp
  · exact h sc hs

theorem SynEnv.ratOK_tail {sc} {env : SynEnv} (h : SynEnv.RatOK (sc :: env)) : SynEnv.RatOK env :=
  fun s hs => h s (by simp [hs])


theorem head?_mem {α} {l : List α} {a : α} (h : l.head? = some a) : a ∈ l := by
  cases l <;> simp at h; subst h; simp

theorem head?_drop_mem {α} {l : List α} {n : Nat} {a : α} (h : (l.drop n).head? = some a) : a ∈ l :=
  List.mem_of_mem_drop (head?_mem h)

theorem need_eq {α} (x : Option α) (s : SynEnv) :
    need x s = match x with
      | some a => (.ok a, s)
      | none => (.error (.syntax, none), s) := by
  cases x <;> rfl

theorem mapM_importSet_env {n : Nat} {ds : List Datum} {s r s'}
    (h : List.mapM (toImportSet n) ds s = (r, s')) : s' = s :=
  (XPure.mapM (fun d => XPure.toImportSet n d) ds).eq h

theorem mapM_exportSpec_env {ds : List Datum} {s r s'}
    (h : List.mapM toExportSpec ds s = (r, s')) : s' = s :=
  (XPure.mapM (fun d => XPure.toExportSpec d) ds).eq h

/-- `Xform.toFormals_env` (`SharedLemmas.lean`) in the form the `grind` calls below use -/
theorem toFormals_env_of_eq {d : Datum} {s r s'} (h : toFormals d s = (r, s')) : s' = s := by
  have := toFormals_env d s
  rw [h] at this
  exact this

theorem toLibName_env {ds : List Datum} {s r s'} (h : toLibName ds s = (r, s')) : s' = s :=
  (XPure.toLibName ds).eq h

theorem popProper_ratOk' {d : Datum} {v} (h : Macro.popProper d = .ok (some v)) (hd : d.ratOk = true) :
    v.1.ratOk = true ∧ v.2.ratOk = true := by
  obtain ⟨a, r⟩ := v; exact Macro.popProper_ratOk h hd

theorem ratOk_of_head? {l : List Datum} (hl : ∀ a ∈ l, a.ratOk = true) {a : Datum} (h : l.head? = some a) :
    a.ratOk = true := hl a (head?_mem h)

theorem ratOk_of_drop_head? {l : List Datum} (hl : ∀ a ∈ l, a.ratOk = true) {n : Nat} {a : Datum}
    (h : (l.drop n).head? = some a) : a.ratOk = true := hl a (head?_drop_mem h)

theorem ratOk_of_drop {l : List Datum} (hl : ∀ a ∈ l, a.ratOk = true) (n : Nat) :
    ∀ a ∈ l.drop n, a.ratOk = true := fun a ha => hl a (List.mem_of_mem_drop ha)

theorem transform_fw {fuel : Nat} {r : Macro.Rules} {use a : Datum} {s s1 : SynEnv}
    (h : (Macro.transform fuel r use, s) = ((.ok a : Except SErr Datum), s1)) (hr : r.RatOK)
    (hu : use.ratOk = true) : a.ratOk = true ∧ s1 = s := by
  simp only [Prod.mk.injEq] at h
  exact ⟨Macro.transform_ratOk hr hu h.1, h.2.symm⟩

theorem need_fw {α} {x : Option α} {s : SynEnv} {r s'} (h : need x s = (r, s')) :
    s' = s ∧ ∀ a, r = .ok a → x = some a := by
  cases x <;> simp only [need, fail, pure_def', Prod.mk.injEq] at h <;> obtain ⟨rfl, rfl⟩ := h <;> simp

structure OKAt (n : Nat) : Prop where
  stmt : ∀ d s r s', toStatement n d s = (r, s') → d.ratOk = true → SynEnv.RatOK s →
    SynEnv.RatOK s' ∧ ∀ st, r = .ok st → st.ok = true
  expr : ∀ d s r s', toExpr n d s = (r, s') → d.ratOk = true → SynEnv.RatOK s →
    SynEnv.RatOK s' ∧ ∀ e, r = .ok e → e.ok = true
  call : ∀ first args loc s r s', toCall n first args loc s = (r, s') → first.ratOk = true →
    (∀ a ∈ args, a.ratOk = true) → SynEnv.RatOK s → SynEnv.RatOK s' ∧ ∀ e, r = .ok e → e.ok = true
  exprs : ∀ ds s r s', toExprs n ds s = (r, s') → (∀ a ∈ ds, a.ratOk = true) → SynEnv.RatOK s →
    SynEnv.RatOK s' ∧ ∀ es, r = .ok es → Expr.okList es = true
  defn : ∀ args s r s', toDefinition n args s = (r, s') → (∀ a ∈ args, a.ratOk = true) → SynEnv.RatOK s →
    SynEnv.RatOK s' ∧ ∀ p, r = .ok p → p.2.ok = true
  lam : ∀ args s r s', toLambda n args s = (r, s') → (∀ a ∈ args, a.ratOk = true) → SynEnv.RatOK s →
    SynEnv.RatOK s' ∧ ∀ l, r = .ok l → l.ok = true
  body : ∀ ds defs exprs s r s', toBody n ds defs exprs s = (r, s') → (∀ a ∈ ds, a.ratOk = true) →
    Def.okList defs = true → Expr.okList exprs = true → SynEnv.RatOK s →
    SynEnv.RatOK s' ∧ ∀ p, r = .ok p → Def.okList p.1 = true ∧ Expr.okList p.2 = true ∧ p.2.isEmpty = false
  lib : ∀ args loc s r s', toLibrary n args loc s = (r, s') → (∀ a ∈ args, a.ratOk = true) → SynEnv.RatOK s →
    SynEnv.RatOK s' ∧ ∀ st, r = .ok st → st.ok = true
  decls : ∀ ds s r s', toLibDecls n ds s = (r, s') → (∀ a ∈ ds, a.ratOk = true) → SynEnv.RatOK s →
    SynEnv.RatOK s' ∧ ∀ xs, r = .ok xs → LibDecl.okList xs = true
  decl : ∀ d s r s', toLibDecl n d s = (r, s') → d.ratOk = true → SynEnv.RatOK s →
    SynEnv.RatOK s' ∧ ∀ x, r = .ok x → x.ok = true
  stmts : ∀ ds s r s', toStatements n ds s = (r, s') → (∀ a ∈ ds, a.ratOk = true) → SynEnv.RatOK s →
    SynEnv.RatOK s' ∧ ∀ xs, r = .ok xs → Statement.okList xs = true


theorem OKAt.stmt' {n} (ih : OKAt n) {d s r s'} (h : toStatement n d s = (r, s')) (hd : d.ratOk = true)
    (hs : SynEnv.RatOK s) : SynEnv.RatOK s' ∧ ∀ st, r = .ok st → st.ok = true := ih.stmt _ _ _ _ h hd hs
theorem OKAt.expr' {n} (ih : OKAt n) {d s r s'} (h : toExpr n d s = (r, s')) (hd : d.ratOk = true)
    (hs : SynEnv.RatOK s) : SynEnv.RatOK s' ∧ ∀ e, r = .ok e → e.ok = true := ih.expr _ _ _ _ h hd hs
theorem OKAt.call' {n} (ih : OKAt n) {first args loc s r s'} (h : toCall n first args loc s = (r, s'))
    (hf : first.ratOk = true) (ha : ∀ a ∈ args, a.ratOk = true)
    (hs : SynEnv.RatOK s) : SynEnv.RatOK s' ∧ ∀ e, r = .ok e → e.ok = true := ih.call _ _ _ _ _ _ h hf ha hs
theorem OKAt.defn' {n} (ih : OKAt n) {args s r s'} (h : toDefinition n args s = (r, s'))
    (ha : ∀ a ∈ args, a.ratOk = true)
    (hs : SynEnv.RatOK s) : SynEnv.RatOK s' ∧ ∀ p, r = .ok p → p.2.ok = true := ih.defn _ _ _ _ h ha hs
theorem OKAt.lam' {n} (ih : OKAt n) {args s r s'} (h : toLambda n args s = (r, s'))
    (ha : ∀ a ∈ args, a.ratOk = true)
    (hs : SynEnv.RatOK s) : SynEnv.RatOK s' ∧ ∀ l, r = .ok l → l.ok = true := ih.lam _ _ _ _ h ha hs
theorem OKAt.lib' {n} (ih : OKAt n) {args loc s r s'} (h : toLibrary n args loc s = (r, s'))
    (ha : ∀ a ∈ args, a.ratOk = true)
    (hs : SynEnv.RatOK s) : SynEnv.RatOK s' ∧ ∀ st, r = .ok st → st.ok = true := ih.lib _ _ _ _ _ h ha hs


theorem OKAt.exprs' {n} (ih : OKAt n) {ds s r s'} (h : toExprs n ds s = (r, s'))
    (ha : ∀ a ∈ ds, a.ratOk = true)
    (hs : SynEnv.RatOK s) : SynEnv.RatOK s' ∧ ∀ es, r = .ok es → Expr.okList es = true := ih.exprs _ _ _ _ h ha hs
theorem OKAt.body' {n} (ih : OKAt n) {ds defs exprs s r s'} (h : toBody n ds defs exprs s = (r, s'))
    (ha : ∀ a ∈ ds, a.ratOk = true) (hd : Def.okList defs = true) (he : Expr.okList exprs = true)
    (hs : SynEnv.RatOK s) : SynEnv.RatOK s' ∧
      ∀ p, r = .ok p → Def.okList p.1 = true ∧ Expr.okList p.2 = true ∧ p.2.isEmpty = false :=
  ih.body _ _ _ _ _ _ h ha hd he hs
theorem OKAt.decls' {n} (ih : OKAt n) {ds s r s'} (h : toLibDecls n ds s = (r, s'))
    (ha : ∀ a ∈ ds, a.ratOk = true)
    (hs : SynEnv.RatOK s) : SynEnv.RatOK s' ∧ ∀ xs, r = .ok xs → LibDecl.okList xs = true := ih.decls _ _ _ _ h ha hs
theorem OKAt.decl' {n} (ih : OKAt n) {d s r s'} (h : toLibDecl n d s = (r, s')) (hd : d.ratOk = true)
    (hs : SynEnv.RatOK s) : SynEnv.RatOK s' ∧ ∀ x, r = .ok x → x.ok = true := ih.decl _ _ _ _ h hd hs
theorem OKAt.stmts' {n} (ih : OKAt n) {ds s r s'} (h : toStatements n ds s = (r, s'))
    (ha : ∀ a ∈ ds, a.ratOk = true)
    (hs : SynEnv.RatOK s) : SynEnv.RatOK s' ∧ ∀ xs, r = .ok xs → Statement.okList xs = true := ih.stmts _ _ _ _ h ha hs

theorem inChild_fw {α} {m : XM α} {s r s'} (h : inChild m s = (r, s')) :
    ∃ s1, m ([] :: s) = (r, s1) ∧ (s1 = [] ∧ s' = [] ∨ ∃ sc, s1 = sc :: s') := by
  unfold inChild at h
  generalize m ([] :: s) = x at h
  obtain ⟨r1, s1⟩ := x
  cases s1 with
  | nil => simp only [Prod.mk.injEq] at h; exact ⟨[], by rw [h.1], .inl ⟨rfl, h.2.symm⟩⟩
  | cons sc t => simp only [Prod.mk.injEq] at h; exact ⟨sc :: t, by rw [h.1], .inr ⟨sc, by rw [h.2]⟩⟩

theorem SynEnv.ratOK_nil : SynEnv.RatOK [] := by intro sc h; cases h

section
variable {n : Nat} (ih : OKAt n)
include ih

theorem ok_expr : ∀ d s r s', toExpr (n+1) d s = (r, s') → d.ratOk = true → SynEnv.RatOK s →
    SynEnv.RatOK s' ∧ ∀ e, r = .ok e → e.ok = true := by
  intro d s r s' h hd hs
  rw [toExpr] at h
  simp only [bind_def', pure_def', fail] at h
  have := ih.stmt
  repeat' split at h
  all_goals try simp only [pure_def', fail, Prod.mk.injEq] at h
  all_goals grind [Statement.ok]

theorem ok_stmt : ∀ d s r s', toStatement (n+1) d s = (r, s') → d.ratOk = true → SynEnv.RatOK s →
    SynEnv.RatOK s' ∧ ∀ st, r = .ok st → st.ok = true := by
  intro d s r s' h hd hs
  unfold toStatement at h
  simp only [bind_def', pure_def', fail, lift, getEnv, defineSyntax] at h
  split at h
  · simp only [pure_def', Prod.mk.injEq] at h; grind [Statement.ok, Expr.ok, Datum.ratOk]
  · simp only [pure_def', Prod.mk.injEq] at h; grind [Statement.ok, Expr.ok, Datum.ratOk]
  · simp only [pure_def', Prod.mk.injEq] at h; grind [Statement.ok, Expr.ok, Datum.ratOk]
  · simp only [fail, Prod.mk.injEq] at h; grind
  · rename_i car cdr loc
    simp only [bind_def', lift] at h
    cases hp : Macro.popProper (car.pair cdr loc) with
    | error e => rw [hp] at h; simp only [Prod.mk.injEq] at h; grind
    | ok o =>
      rw [hp] at h
      cases o with
      | none => simp only [fail, Prod.mk.injEq] at h; grind
      | some v =>
        obtain ⟨first, rest⟩ := v
        simp only at h
        have hfr := Macro.popProper_ratOk hp hd
        have hf := hfr.1
        have hel := Datum.elems_ratOk rest hfr.2
        have hrl : (Datum.withLoc (car.pair cdr loc).loc rest).ratOk = true := by rw [Datum.ratOk_withLoc]; exact hfr.2
        generalize rest.elems = args at h hel
        clear hp hfr
        repeat' (first | split at h | simp only [bind_def', pure_def', fail, lift, getEnv, defineSyntax, need_eq, identOf, Prod.mk.injEq] at h | (generalize hg : SynEnv.get? _ _ = o at h; cases o <;> simp only at h))
        all_goals try (have hval := SynEnv.ratOK_get hs hg)
        all_goals grind [transform_fw, OKAt.stmt', OKAt.expr', OKAt.call', OKAt.defn', OKAt.lam', OKAt.lib', Statement.ok, Expr.ok, Def.ok, ratOk_of_head?, ratOk_of_drop_head?,
          mapM_importSet_env, Macro.toRules_ratOk, SynEnv.ratOK_define, SynEnv.ratOK_get, Macro.transform_ratOk]

theorem ok_call : ∀ first args loc s r s', toCall (n+1) first args loc s = (r, s') → first.ratOk = true →
    (∀ a ∈ args, a.ratOk = true) → SynEnv.RatOK s → SynEnv.RatOK s' ∧ ∀ e, r = .ok e → e.ok = true := by
  intro first args loc s r s' h hf ha hs
  rw [toCall] at h
  repeat' (first | split at h | simp only [bind_def', pure_def', fail, Prod.mk.injEq] at h)
  all_goals grind [OKAt.expr', OKAt.exprs', Expr.ok]

theorem ok_exprs : ∀ ds s r s', toExprs (n+1) ds s = (r, s') → (∀ a ∈ ds, a.ratOk = true) → SynEnv.RatOK s →
    SynEnv.RatOK s' ∧ ∀ es, r = .ok es → Expr.okList es = true := by
  intro ds s r s' h ha hs
  cases ds <;> rw [toExprs] at h
  · simp only [pure_def', Prod.mk.injEq] at h; grind [Expr.okList]
  · rename_i d ds
    have hd : d.ratOk = true := ha d (by simp)
    have hds : ∀ a ∈ ds, a.ratOk = true := fun a h => ha a (by simp [h])
    repeat' (first | split at h | simp only [bind_def', pure_def', fail, Prod.mk.injEq] at h)
    all_goals grind [OKAt.expr', OKAt.exprs', Expr.okList]

theorem ok_defn : ∀ args s r s', toDefinition (n+1) args s = (r, s') → (∀ a ∈ args, a.ratOk = true) → SynEnv.RatOK s →
    SynEnv.RatOK s' ∧ ∀ p, r = .ok p → p.2.ok = true := by
  intro args s r s' h ha hs
  rw [toDefinition] at h
  have hdr := ratOk_of_drop ha 1
  repeat' (first | split at h | simp only [bind_def', pure_def', fail, lift, need_eq, identOf, Prod.mk.injEq] at h)
  all_goals grind [OKAt.expr', OKAt.body', Expr.ok, Lambda.ok, Def.okList, Expr.okList, ratOk_of_head?, ratOk_of_drop_head?,
    toFormals_env_of_eq]

theorem ok_lam : ∀ args s r s', toLambda (n+1) args s = (r, s') → (∀ a ∈ args, a.ratOk = true) → SynEnv.RatOK s →
    SynEnv.RatOK s' ∧ ∀ l, r = .ok l → l.ok = true := by
  intro args s r s' h ha hs
  rw [toLambda] at h
  have hdr := ratOk_of_drop ha 1
  have hpush := SynEnv.ratOK_push hs
  repeat' (first | split at h | simp only [bind_def', pure_def', fail, lift, need_eq, Prod.mk.injEq] at h)
  all_goals grind [inChild_fw, OKAt.body', Lambda.ok, Def.okList, Expr.okList, toFormals_env_of_eq, SynEnv.ratOK_tail, SynEnv.ratOK_nil]


theorem ok_body : ∀ ds defs exprs s r s', toBody (n+1) ds defs exprs s = (r, s') → (∀ a ∈ ds, a.ratOk = true) →
    Def.okList defs = true → Expr.okList exprs = true → SynEnv.RatOK s →
    SynEnv.RatOK s' ∧ ∀ p, r = .ok p → Def.okList p.1 = true ∧ Expr.okList p.2 = true ∧ p.2.isEmpty = false := by
  intro ds defs exprs s r s' h ha hdf hex hs
  cases ds <;> rw [toBody] at h
  · have h1 : ∀ (l : List Def), Def.okList l = true → Def.okList l.reverse = true := by
      intro l hl
      have key : ∀ (l acc : List Def), Def.okList l = true → Def.okList acc = true →
          Def.okList (l.reverseAux acc) = true := by
        intro l
        induction l with
        | nil => intro acc _ h; exact h
        | cons x xs ih =>
          intro acc hx hacc
          simp only [Def.okList, Bool.and_eq_true] at hx
          exact ih (x :: acc) hx.2 (by simp [Def.okList, hx.1, hacc])
      exact key l [] hl rfl
    have h2 : ∀ (l : List Expr), Expr.okList l = true → Expr.okList l.reverse = true := by
      intro l hl
      have key : ∀ (l acc : List Expr), Expr.okList l = true → Expr.okList acc = true →
          Expr.okList (l.reverseAux acc) = true := by
        intro l
        induction l with
        | nil => intro acc _ h; exact h
        | cons x xs ih =>
          intro acc hx hacc
          simp only [Expr.okList, Bool.and_eq_true] at hx
          exact ih (x :: acc) hx.2 (by simp [Expr.okList, hx.1, hacc])
      exact key l [] hl rfl
    split at h
    · simp only [fail, Prod.mk.injEq] at h; grind
    · rename_i hne
      simp only [pure_def', Prod.mk.injEq] at h
      obtain ⟨rfl, rfl⟩ := h
      refine ⟨hs, fun p hp => ?_⟩
      cases hp
      refine ⟨h1 _ hdf, h2 _ hex, ?_⟩
      cases exprs <;> simp_all
  · rename_i d ds
    have hd : d.ratOk = true := ha d (by simp)
    have hds : ∀ a ∈ ds, a.ratOk = true := fun a h => ha a (by simp [h])
    repeat' (first | split at h | simp only [bind_def', pure_def', fail, Prod.mk.injEq] at h)
    all_goals grind [OKAt.stmt', OKAt.body', Expr.okList, Def.okList, Statement.ok]

theorem ok_lib : ∀ args loc s r s', toLibrary (n+1) args loc s = (r, s') → (∀ a ∈ args, a.ratOk = true) → SynEnv.RatOK s →
    SynEnv.RatOK s' ∧ ∀ st, r = .ok st → st.ok = true := by
  intro args loc s r s' h ha hs
  rw [toLibrary] at h
  have hdr := ratOk_of_drop ha 1
  repeat' (first | split at h | simp only [bind_def', pure_def', fail, lift, need_eq, expectList, Prod.mk.injEq] at h)
  all_goals grind [OKAt.decls', Statement.ok, toLibName_env]

theorem ok_decls : ∀ ds s r s', toLibDecls (n+1) ds s = (r, s') → (∀ a ∈ ds, a.ratOk = true) → SynEnv.RatOK s →
    SynEnv.RatOK s' ∧ ∀ xs, r = .ok xs → LibDecl.okList xs = true := by
  intro ds s r s' h ha hs
  cases ds <;> rw [toLibDecls] at h
  · simp only [pure_def', Prod.mk.injEq] at h; grind [LibDecl.okList]
  · rename_i d ds
    have hd : d.ratOk = true := ha d (by simp)
    have hds : ∀ a ∈ ds, a.ratOk = true := fun a h => ha a (by simp [h])
    repeat' (first | split at h | simp only [bind_def', pure_def', fail, Prod.mk.injEq] at h)
    all_goals grind [OKAt.decl', OKAt.decls', LibDecl.okList]

theorem ok_decl : ∀ d s r s', toLibDecl (n+1) d s = (r, s') → d.ratOk = true → SynEnv.RatOK s →
    SynEnv.RatOK s' ∧ ∀ x, r = .ok x → x.ok = true := by
  intro d s r s' h hd hs
  rw [toLibDecl] at h
  simp only [bind_def', expectList, lift] at h
  cases he : Macro.expectList d with
  | error e => rw [he] at h; simp only [Prod.mk.injEq] at h; grind
  | ok d' =>
    rw [he] at h
    have := Macro.expectList_ok he; subst this
    simp only at h
    have hel := Datum.elems_ratOk d' hd
    have hdr := ratOk_of_drop hel 1
    generalize d'.elems = es at h hel hdr
    repeat' (first | split at h | simp only [bind_def', pure_def', fail, lift, need_eq, Prod.mk.injEq] at h)
    all_goals grind [need_fw, OKAt.stmts', LibDecl.ok, mapM_importSet_env, mapM_exportSpec_env, ratOk_of_head?]

theorem ok_stmts : ∀ ds s r s', toStatements (n+1) ds s = (r, s') → (∀ a ∈ ds, a.ratOk = true) → SynEnv.RatOK s →
    SynEnv.RatOK s' ∧ ∀ xs, r = .ok xs → Statement.okList xs = true := by
  intro ds s r s' h ha hs
  cases ds <;> rw [toStatements] at h
  · simp only [pure_def', Prod.mk.injEq] at h; grind [Statement.okList]
  · rename_i d ds
    have hd : d.ratOk = true := ha d (by simp)
    have hds : ∀ a ∈ ds, a.ratOk = true := fun a h => ha a (by simp [h])
    repeat' (first | split at h | simp only [bind_def', pure_def', fail, Prod.mk.injEq] at h)
    all_goals grind [OKAt.stmt', OKAt.stmts', Statement.okList]

end

theorem okAt : ∀ n, OKAt n
  | 0 => by
    constructor
    · intro d s r s' h _ hs; rw [toStatement] at h; simp only [fail, Prod.mk.injEq] at h; grind
    · intro d s r s' h _ hs; rw [toExpr] at h; simp only [fail, Prod.mk.injEq] at h; grind
    · intro f a l s r s' h _ _ hs; rw [toCall] at h; simp only [fail, Prod.mk.injEq] at h; grind
    · intro d s r s' h _ hs; rw [toExprs] at h; simp only [fail, Prod.mk.injEq] at h; grind
    · intro d s r s' h _ hs; rw [toDefinition] at h; simp only [fail, Prod.mk.injEq] at h; grind
    · intro d s r s' h _ hs; rw [toLambda] at h; simp only [fail, Prod.mk.injEq] at h; grind
    · intro d df ex s r s' h _ _ _ hs; rw [toBody] at h; simp only [fail, Prod.mk.injEq] at h; grind
    · intro a l s r s' h _ hs; rw [toLibrary] at h; simp only [fail, Prod.mk.injEq] at h; grind
    · intro d s r s' h _ hs; rw [toLibDecls] at h; simp only [fail, Prod.mk.injEq] at h; grind
    · intro d s r s' h _ hs; rw [toLibDecl] at h; simp only [fail, Prod.mk.injEq] at h; grind
    · intro d s r s' h _ hs; rw [toStatements] at h; simp only [fail, Prod.mk.injEq] at h; grind
  | n+1 =>
    have ih := okAt n
    ⟨ok_stmt ih, ok_expr ih, ok_call ih, ok_exprs ih, ok_defn ih, ok_lam ih, ok_body ih, ok_lib ih,
      ok_decls ih, ok_decl ih, ok_stmts ih⟩

/-- `toStatement` on `n/0`-free data in an `n/0`-free syntax environment: the environment stays
`n/0`-free and the statement produced is `ok` (non-empty bodies, `n/0`-free literals) -/
theorem toStatement_ok {fuel : Nat} {d : Datum} {env : SynEnv} (hd : d.ratOk = true) (he : SynEnv.RatOK env) :
    SynEnv.RatOK (toStatement fuel d env).2 ∧ ∀ st, (toStatement fuel d env).1 = .ok st → st.ok = true :=
  (okAt fuel).stmt d env _ _ rfl hd he

end Xform
end Ruschm

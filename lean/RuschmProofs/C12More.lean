/-
Properties C12/C13, the SYNTAX in front of the existing theorems: the part of the parser that
turns the datum of an `(import …)` declaration or a `(define-library …)` form into the terms
(`ImportSet`, `LibName`, `ExportSpec`, `LibDecl`) that `C12.lean`, `C13.lean`, `C13More.lean` start
from. Model: `Xform.toImportSet` (`transform_import_set`), `toLibName`, `toExportSpec`,
`toLibDecl`, `toLibrary`, the `import` / `define-library` branches of `toStatement`
(`RuschmModel/Xform.lean`; Rust `src/parser/parser.rs` 741-830 and 985-1062).
Vocabulary (`renderSet`, `renderImport`, `renderName`, `renderExport`, `renderDecl`,
`renderLibrary`, `WF`, `Accepts`, `expectDecl(s)`): `RuschmSpec/ImportSyntax.lean`;
helper lemmas: `RuschmProofs/ImportSyntaxLemmas.lean`.

1. round trip: `importSet_roundtrip`, `importSet_roundtrip_iff` (the hypothesis `WF` is
   necessary), `importDecl_roundtrip`, `importDecl_roundtrip_top` (with the fuel the front end
   really uses), `libName_roundtrip`;
2. exactness and rejection: `toImportSet_ok_iff` (the accepted data are EXACTLY `Accepts false`),
   `toImportSet_total`, `toImportSet_rejects`, `strict_shape_is_rendering`,
   `toImportSet_converse_partial` (the literal converse "accepted ⇒ rendered shape" is FALSE:
   `parser_ignores_trailing_elements`, `parser_reads_dotted_tail_as_element`), the named
   rejections `reject_not_a_list`, `reject_empty`, `reject_head_not_identifier`,
   `reject_operator_without_set`, `reject_non_identifier`, `reject_short_rename_pair`,
   `reject_prefix_without_identifier`;
3. define-library: `exportSpec_roundtrip`, `exportSpec_ok_shape`, `libDecl_roundtrip`,
   `library_roundtrip`, `library_entries_in_order`, `library_import_same_parser`,
   `begin_bodies_in_order`;
4. end to end: `rendered_import_evaluates_to_denotation`.
-/
import RuschmProofs.ImportSyntaxLemmas
import RuschmProofs.C12

namespace Ruschm.C12More
open Ruschm Ruschm.Xform Ruschm.ImportSyntax
set_option linter.unusedSimpArgs false

/-- the term used in the examples: `(rename (prefix (only (m 1) a b) p:) (p:a x))` -/
def demoTerm : ImportSet :=
  .rename (.prefix (.only (.direct [.ident "m", .int 1] (some (3, 4))) ["a", "b"]) "p:") [("p:a", "x")]

private theorem demoTerm_wf : WF demoTerm := ⟨"m", [.int 1], rfl, by decide⟩

/-! ## 1. round trip -/

/-- Every import-set term — any nesting of `only`/`except`/`prefix`/`rename`, any identifier list
(the empty one included), any renaming list — whose library name can be written as an import set
(`WF`: it starts with an identifier other than the four operator names), rendered as a datum and
handed to `transform_import_set` with a recursion bound above its nesting depth, is parsed back as
the same term (its location erased: the rendering has none), whatever the syntax environment,
which is left as it was. -/
theorem importSet_roundtrip (t : ImportSet) (hwf : WF t) (fuel : Nat) (hf : S.depth t < fuel) (s : SynEnv) :
    toImportSet fuel (renderSet t) s = (.ok t.unloc, s) := by
  rw [toImportSet_eq, parseP_of_accepts (accepts_render t hwf).mono fuel (by rw [depth_unloc]; exact hf)]

example : toImportSet 4 (renderSet demoTerm) [] = (.ok demoTerm.unloc, []) :=
  importSet_roundtrip demoTerm demoTerm_wf 4 (by decide) []

/-- The hypothesis `WF` of the round trip is necessary: a term is parsed back from its rendering
IF AND ONLY IF its library name starts with an identifier that is not `only`, `except`, `prefix`
or `rename`. (A library called `(only x)`, `(1 2)` or `()` can be defined — `libName_roundtrip` —
but not imported.) -/
theorem importSet_roundtrip_iff (t : ImportSet) (fuel : Nat) (hf : S.depth t < fuel) (s : SynEnv) :
    toImportSet fuel (renderSet t) s = (.ok t.unloc, s) ↔ WF t := by
  constructor
  · intro h
    rw [toImportSet_eq] at h
    exact (wf_unloc t).1 (accepts_of_parseP _ _ _ (congrArg Prod.fst h)).wf
  · exact fun hwf => importSet_roundtrip t hwf fuel hf s

/-- the library `(only x)` cannot be imported: its name is read as the operator `only` applied to
the non-list `x` -/
example : toImportSet 5 (renderSet (.direct [.ident "only", .ident "x"] none)) [] = (.error (.syntax, none), []) := by
  rw [toImportSet_eq]; rfl

/-- An import declaration with several import sets is parsed into the declaration with the same
sets in the same order (the order in which `eval_import` forms the union). -/
theorem importDecl_roundtrip (sets : List ImportSet) (fuel : Nat)
    (h : ∀ t ∈ sets, WF t ∧ S.depth t < fuel) (s : SynEnv) :
    toStatement (fuel + 1) (renderImport sets) s =
      (.ok (.importDecl (sets.map ImportSet.unloc) none), s) := by
  have e : renderImport sets = .pair (.sym "import" none) (Datum.ofList none (sets.map renderSet)) none := rfl
  rw [e, toStatement_import_eq fuel none none (Datum.ofList none (sets.map renderSet)) (isList_lst _) s, elems_ofList, mapM_parseP_render fuel sets h]
  rfl

example : toStatement 5 (renderImport [demoTerm, .direct [.ident "scheme", .ident "base"] none]) [] =
    (.ok (.importDecl [demoTerm.unloc, .direct [.ident "scheme", .ident "base"] none] none), []) :=
  importDecl_roundtrip _ 4 (by
    intro t ht
    simp only [List.mem_cons, List.not_mem_nil, or_false] at ht
    rcases ht with rfl | rfl
    · exact ⟨demoTerm_wf, by decide⟩
    · exact ⟨⟨"scheme", _, rfl, by decide⟩, by decide⟩) []

/-- The same with the recursion bound the front ends really pass (`xformFuel`, computed from the
size of the datum): for import sets that can be written it always suffices. -/
theorem importDecl_roundtrip_top (sets : List ImportSet) (h : ∀ t ∈ sets, WF t) (s : SynEnv) :
    toStatement (xformFuel (renderImport sets)) (renderImport sets) s =
      (.ok (.importDecl (sets.map ImportSet.unloc) none), s) := by
  have e : xformFuel (renderImport sets) = (8 * (renderImport sets).size + 3999) + 1 := rfl
  rw [e]
  refine importDecl_roundtrip sets _ (fun t ht => ⟨h t ht, ?_⟩) s
  have h1 := depth_lt_size (accepts_render t (h t ht))
  rw [depth_unloc] at h1
  have h2 : renderSet t ∈ (renderImport sets).elems := by
    rw [renderImport, elems_lst]; exact List.mem_cons_of_mem _ (List.mem_map_of_mem ht)
  have h3 := size_le_of_mem_elems _ _ h2
  omega

example : toStatement (xformFuel (renderImport [demoTerm])) (renderImport [demoTerm]) [] =
    (.ok (.importDecl [demoTerm.unloc] none), []) :=
  importDecl_roundtrip_top _ (by intro t ht; simp at ht; subst ht; exact demoTerm_wf) []

/-- Every library name — identifiers and unsigned integers in any order, the empty name included —
is parsed back from its rendering by `transform_library_name`. -/
theorem libName_roundtrip (n : LibName) (s : SynEnv) : toLibName (renderName n).elems s = (.ok n, s) := by
  rw [renderName, elems_lst, toLibName_render]

/-- A part that is neither an identifier nor an unsigned integer — a negative integer, a string,
a list … — makes the library name a syntax error, located at that part. -/
theorem libName_rejects (pre : LibName) (bad : Datum) (post : List Datum) (s : SynEnv)
    (hbad : ∀ e, ¬ PartOf bad e) :
    toLibName (pre.map renderElem ++ bad :: post) s = (.error (.syntax, bad.loc), s) := by
  have hb : partP bad = .error (.syntax, bad.loc) := by
    cases hp : partP bad with
    | ok e => exact ((hbad e) ((partP_ok_iff _ _).1 hp)).elim
    | error e =>
      cases bad with
      | sym x l => cases hp
      | prim p l =>
        cases p <;> simp only [partP] at hp <;> try (cases hp; rfl)
        split at hp <;> cases hp; rfl
      | _ => cases hp; rfl
  have hm : libNameP (pre.map renderElem ++ bad :: post) = .error (.syntax, bad.loc) := by
    induction pre with
    | nil => simp only [List.map_nil, List.nil_append, libNameP, exc_mapM_cons, hb]
    | cons e pre ih =>
      simp only [libNameP] at ih
      have he : partP (renderElem e) = .ok e := (partP_ok_iff _ _).2 (parts_render [e]).1
      simp only [List.map_cons, List.cons_append, libNameP, exc_mapM_cons, ih, he]
  rw [toLibName_eq, hm]

example : toLibName ([LibElem.ident "m"].map renderElem ++ [.prim (.int (-1)) (some (1, 4))]) [] =
    (.error (.syntax, some (1, 4)), []) :=
  libName_rejects [.ident "m"] _ [] [] (by
    intro e h
    rcases h with ⟨_, _, h, _⟩ | ⟨n, _, h, _⟩
    · cases h
    · simp only [Datum.prim.injEq, Prim.int.injEq, Int.ofNat_eq_natCast] at h; omega)

/-! ## 2. exactness: what is accepted, what is rejected -/

/-- The import-set parser accepts EXACTLY the data described by `Accepts false` and returns the
term described; it never changes the syntax environment. (Recursion bound at least the size of the
datum, as the front ends' bound is.) No datum outside that description yields a term. -/
theorem toImportSet_ok_iff (fuel : Nat) (d : Datum) (t : ImportSet) (s s' : SynEnv) (hf : d.size ≤ fuel) :
    toImportSet fuel d s = (.ok t, s') ↔ Accepts false d t ∧ s' = s := by
  rw [toImportSet_eq]
  constructor
  · intro h
    exact ⟨accepts_of_parseP _ _ _ (congrArg Prod.fst h), (congrArg Prod.snd h).symm⟩
  · rintro ⟨h, rfl⟩
    rw [parseP_of_accepts h fuel (Nat.lt_of_lt_of_le (depth_lt_size h) hf)]

example : toImportSet 100 (renderSet demoTerm) [] = (.ok demoTerm.unloc, []) ↔
    Accepts false (renderSet demoTerm) demoTerm.unloc ∧ ([] : SynEnv) = [] :=
  toImportSet_ok_iff 100 _ _ [] [] (by decide)

/-- The same without any assumption on the recursion bound, one direction: whatever the parser
returns as a term has the shape described. -/
theorem toImportSet_ok_shape (fuel : Nat) (d : Datum) (t : ImportSet) (s s' : SynEnv)
    (h : toImportSet fuel d s = (.ok t, s')) : Accepts false d t ∧ WF t ∧ s' = s := by
  rw [toImportSet_eq] at h
  have ha := accepts_of_parseP _ _ _ (congrArg Prod.fst h)
  exact ⟨ha, ha.wf, (congrArg Prod.snd h).symm⟩

/-- Totality: on every datum, with every recursion bound and syntax environment, the parser
returns — without touching the environment — either a term of the shape described, or a SYNTAX
error, or the recursion-bound error, the last only if the bound is below the size of the datum
(which the front ends' bound never is). -/
theorem toImportSet_total (fuel : Nat) (d : Datum) (s : SynEnv) :
    (∃ t, toImportSet fuel d s = (.ok t, s) ∧ Accepts false d t) ∨
    (∃ l, toImportSet fuel d s = (.error (.syntax, l), s)) ∨
    (∃ l, toImportSet fuel d s = (.error (.fuel, l), s) ∧ fuel < d.size) := by
  rw [toImportSet_eq]
  cases h : parseP fuel d with
  | ok t => exact .inl ⟨t, rfl, accepts_of_parseP _ _ _ h⟩
  | error e =>
    obtain ⟨k, l⟩ := e
    rcases parseP_error fuel d _ h with h1 | ⟨h1, h2⟩
    · simp only at h1; subst h1; exact .inr (.inl ⟨l, rfl⟩)
    · simp only at h1; subst h1; exact .inr (.inr ⟨l, rfl, h2⟩)

/-- Rejection: a datum that does not have the shape `Accepts false` of any term is a syntax error
(never a term, never silently something else). -/
theorem toImportSet_rejects (fuel : Nat) (d : Datum) (s : SynEnv) (hf : d.size ≤ fuel)
    (h : ¬ ∃ t, Accepts false d t) : ∃ l, toImportSet fuel d s = (.error (.syntax, l), s) := by
  rcases toImportSet_total fuel d s with ⟨t, _, ht⟩ | h1 | ⟨_, _, h2⟩
  · exact (h ⟨t, ht⟩).elim
  · exact h1
  · omega

/-- `Accepts true` is the rendered shape: the rendering of every writable term has it, and a datum
that has it is, up to locations, the rendering of the term (which then is writable). -/
theorem strict_shape_is_rendering :
    (∀ t, WF t → Accepts true (renderSet t) t.unloc) ∧
    (∀ d t, Accepts true d t → d.strip = renderSet t.unloc ∧ WF t ∧ Accepts false d t) :=
  ⟨accepts_render, fun _ _ h => ⟨strip_of_accepts_strict h, h.wf, h.mono⟩⟩

/-- Converse of the round trip, as far as it is true. The literal converse — "if `d` is parsed as
`t` then `d` is the rendering of `t` up to locations" — is FALSE for the parser as it is
(`parser_ignores_trailing_elements`, `parser_reads_dotted_tail_as_element`). What holds: a datum
parsed as `t` has the shape `Accepts false d t`, which differs from the rendered shape only in
that a list may be dotted (its tail read as a last element) and that elements after the prefix
identifier / after the two names of a renaming are ignored; and if the datum has the strict shape
(of any term), it IS the rendering of `t` up to locations. -/
theorem toImportSet_converse_partial (fuel : Nat) (d : Datum) (t : ImportSet) (s s' : SynEnv)
    (h : toImportSet fuel d s = (.ok t, s')) :
    Accepts false d t ∧ ((∃ t', Accepts true d t') → d.strip = renderSet t.unloc) := by
  obtain ⟨ha, _, _⟩ := toImportSet_ok_shape fuel d t s s' h
  refine ⟨ha, fun ⟨t', ht'⟩ => ?_⟩
  have h1 := parseP_of_accepts ha (S.depth t + S.depth t' + 1) (by omega)
  have h2 := parseP_of_accepts ht'.mono (S.depth t + S.depth t' + 1) (by omega)
  rw [h1] at h2
  cases h2
  exact strip_of_accepts_strict ht'

example : (lst [sym "only", lst [sym "m"], sym "a"]).strip = renderSet (ImportSet.only (.direct [.ident "m"] none) ["a"]).unloc :=
  (toImportSet_converse_partial 3 _ _ [] [] (importSet_roundtrip (.only (.direct [.ident "m"] none) ["a"])
    ⟨"m", [], rfl, by decide⟩ 3 (by decide) [])).2
    ⟨_, accepts_render (.only (.direct [.ident "m"] none) ["a"]) ⟨"m", [], rfl, by decide⟩⟩

/-- The parser accepts more than R7RS import sets: `(prefix (m) p q r)` is read as
`(prefix (m) p)` and `(rename (m) (a b c))` as `(rename (m) (a b))`; what follows the elements
needed is ignored (Rust: the iterator is simply dropped). -/
theorem parser_ignores_trailing_elements (s : SynEnv) :
    toImportSet 2 (lst [sym "prefix", lst [sym "m"], sym "p", sym "q", sym "r"]) s =
      (.ok (.prefix (.direct [.ident "m"] none) "p"), s) ∧
    toImportSet 2 (lst [sym "rename", lst [sym "m"], lst [sym "a", sym "b", sym "c"]]) s =
      (.ok (.rename (.direct [.ident "m"] none) [("a", "b")]), s) := by
  constructor <;> (rw [toImportSet_eq]; rfl)

/-- The parser accepts dotted lists: `(only (m) . a)` is read as `(only (m) a)`, and `(m . n)` as
the library name `(m n)` (Rust: `into_iter()` of a pair delivers the improper tail as a last
element). -/
theorem parser_reads_dotted_tail_as_element (s : SynEnv) :
    toImportSet 2 (.pair (sym "only") (.pair (lst [sym "m"]) (sym "a") none) none) s =
      (.ok (.only (.direct [.ident "m"] none) ["a"]), s) ∧
    toImportSet 2 (.pair (sym "m") (sym "n") none) s = (.ok (.direct [.ident "m", .ident "n"] none), s) := by
  constructor <;> (rw [toImportSet_eq]; rfl)

/-- Not a list (an identifier, a number, a string, a vector): syntax error. -/
theorem reject_not_a_list (fuel : Nat) (d : Datum) (s : SynEnv) (h : ¬ IsList d) :
    toImportSet (fuel + 1) d s = (.error (.syntax, none), s) := by
  rw [toImportSet_eq, parseP, stepP_not_isList h]

example : toImportSet 1 (.sym "m" (some (1, 1))) [] = (.error (.syntax, none), []) :=
  reject_not_a_list 0 _ [] (fun h => h)

/-- The empty list: syntax error (`UnexpectedEnd`, without location). -/
theorem reject_empty (fuel : Nat) (l : Loc) (s : SynEnv) :
    toImportSet (fuel + 1) (.nil l) s = (.error (.syntax, none), s) := by
  rw [toImportSet_eq]; rfl

/-- A list that does not start with an identifier — `((m))`, `(1 2)`, `("m")` — : syntax error
located at that first element. -/
theorem reject_head_not_identifier (fuel : Nat) (d first : Datum) (r : List Datum) (s : SynEnv)
    (hl : IsList d) (he : d.elems = first :: r) (h : ∀ x l, first ≠ .sym x l) :
    toImportSet (fuel + 1) d s = (.error (.syntax, first.loc), s) := by
  rw [toImportSet_eq, parseP, stepP_of_isList hl, he]
  cases first with
  | sym x l => exact (h x l rfl).elim
  | _ => rfl

example : toImportSet 1 (lst [lst [sym "m"]]) [] = (.error (.syntax, none), []) :=
  reject_head_not_identifier 0 (lst [lst [sym "m"]]) (lst [sym "m"]) [] [] trivial rfl (by intro x l h; cases h)

/-- An operator without a set — `(only)`, `(except)`, `(prefix)`, `(rename)` —: syntax error. -/
theorem reject_operator_without_set (fuel : Nat) (d : Datum) (op : String) (l : Loc) (s : SynEnv)
    (hl : IsList d) (he : d.elems = [.sym op l]) (hop : op ∈ keywords) :
    toImportSet (fuel + 1) d s = (.error (.syntax, none), s) := by
  rw [toImportSet_eq, parseP, stepP_of_isList hl, he]
  simp only [keywords, List.mem_cons, List.not_mem_nil, or_false] at hop
  rcases hop with rfl | rfl | rfl | rfl <;> rfl

example : toImportSet 1 (lst [sym "only"]) [] = (.error (.syntax, none), []) :=
  reject_operator_without_set 0 (lst [sym "only"]) "only" none [] trivial rfl (by decide)

/-- A non-identifier where `only` / `except` want an identifier: when the inner set is fine, the
first element after it that is not an identifier makes the form a syntax error located at that
element. -/
theorem reject_non_identifier (fuel : Nat) (d sd bad : Datum) (op : String) (l : Loc) (ids : List String)
    (post : List Datum) (t : ImportSet) (s : SynEnv)
    (hop : op = "only" ∨ op = "except") (hl : IsList d)
    (he : d.elems = .sym op l :: sd :: (ids.map sym ++ bad :: post))
    (hsd : toImportSet fuel sd s = (.ok t, s)) (hbad : ∀ x l, bad ≠ .sym x l) :
    toImportSet (fuel + 1) d s = (.error (.syntax, bad.loc), s) := by
  have hsd' : parseP fuel sd = .ok t := by rw [toImportSet_eq] at hsd; exact congrArg Prod.fst hsd
  have hb : Macro.identOf bad = .error (.syntax, bad.loc) := by
    cases bad with
    | sym x l => exact (hbad x l rfl).elim
    | _ => rfl
  have hm : ∀ ids : List String, (ids.map sym ++ bad :: post).mapM Macro.identOf = .error (.syntax, bad.loc) := by
    intro ids
    induction ids with
    | nil => simp only [List.map_nil, List.nil_append, exc_mapM_cons, hb]
    | cons i ids ih =>
      have hi : Macro.identOf (sym i) = .ok i := rfl
      simp only [List.map_cons, List.cons_append, exc_mapM_cons, ih, hi]
  have hm := hm ids
  rw [toImportSet_eq, parseP, stepP_of_isList hl, he]
  rcases hop with rfl | rfl
  · simp only [elemsP, if_true, subP, hsd', onlyK, hm]
  · simp (config := {decide := true}) only [elemsP, if_true, if_false, subP, hsd', exceptK, hm]

example : toImportSet 2 (lst [sym "only", lst [sym "m"], sym "a", .prim (.int 1) (some (1, 15))]) [] =
    (.error (.syntax, some (1, 15)), []) :=
  reject_non_identifier 1 (lst [sym "only", lst [sym "m"], sym "a", .prim (.int 1) (some (1, 15))])
    (lst [sym "m"]) (.prim (.int 1) (some (1, 15))) "only" none ["a"] [] (.direct [.ident "m"] none) []
    (.inl rfl) trivial rfl (by rw [toImportSet_eq]; rfl) (by intro x l h; cases h)

/-- A renaming that is not a list of at least two elements — `(rename (m) a)`, `(rename (m) ())`,
`(rename (m) (a))` —: syntax error (the entries before it being fine). -/
theorem reject_short_rename_pair (fuel : Nat) (d sd bad : Datum) (l : Loc) (ps : List (String × String))
    (post : List Datum) (t : ImportSet) (s : SynEnv) (hl : IsList d)
    (he : d.elems = .sym "rename" l :: sd :: (ps.map renderPair ++ bad :: post))
    (hsd : toImportSet fuel sd s = (.ok t, s)) (hbad : ¬ IsList bad ∨ bad.elems.length < 2) :
    ∃ loc, toImportSet (fuel + 1) d s = (.error (.syntax, loc), s) := by
  have hsd' : parseP fuel sd = .ok t := by rw [toImportSet_eq] at hsd; exact congrArg Prod.fst hsd
  have hb : ∃ loc, pairP bad = .error (.syntax, loc) := by
    cases hp : pairP bad with
    | error e =>
      obtain ⟨k, loc⟩ := e
      have := pairP_error_kind _ _ hp
      simp only at this; subst this; exact ⟨loc, rfl⟩
    | ok p =>
      obtain ⟨h1, la, lb, junk, h2, _⟩ := (pairP_ok_iff _ _).1 hp
      rcases hbad with h | h
      · exact (h h1).elim
      · rw [h2] at h; simp only [List.length_cons] at h; omega
  obtain ⟨loc, hb⟩ := hb
  have hm : ∀ ps : List (String × String), (ps.map renderPair ++ bad :: post).mapM pairP = .error (.syntax, loc) := by
    intro ps
    induction ps with
    | nil => simp only [List.map_nil, List.nil_append, exc_mapM_cons, hb]
    | cons i ids ih =>
      have hi : pairP (renderPair i) = .ok i := rfl
      simp only [List.map_cons, List.cons_append, exc_mapM_cons, ih, hi]
  have hm := hm ps
  refine ⟨loc, ?_⟩
  rw [toImportSet_eq, parseP, stepP_of_isList hl, he]
  simp (config := {decide := true}) only [elemsP, if_true, if_false, subP, hsd', renameK, hm]

example : ∃ loc, toImportSet 2 (lst [sym "rename", lst [sym "m"], lst [sym "a", sym "b"], lst [sym "c"]]) [] =
    (.error (.syntax, loc), []) :=
  reject_short_rename_pair 1 (lst [sym "rename", lst [sym "m"], lst [sym "a", sym "b"], lst [sym "c"]])
    (lst [sym "m"]) (lst [sym "c"]) none [("a", "b")] [] (.direct [.ident "m"] none) []
    trivial rfl (by rw [toImportSet_eq]; rfl) (.inr (by decide))

/-- `prefix` without its identifier, or with a non-identifier there: syntax error. -/
theorem reject_prefix_without_identifier (fuel : Nat) (d sd : Datum) (l : Loc) (rest : List Datum)
    (t : ImportSet) (s : SynEnv) (hl : IsList d)
    (he : d.elems = .sym "prefix" l :: sd :: rest)
    (hsd : toImportSet fuel sd s = (.ok t, s)) (hrest : ∀ p lp junk, rest ≠ .sym p lp :: junk) :
    ∃ loc, toImportSet (fuel + 1) d s = (.error (.syntax, loc), s) := by
  have hsd' : parseP fuel sd = .ok t := by rw [toImportSet_eq] at hsd; exact congrArg Prod.fst hsd
  rw [toImportSet_eq, parseP, stepP_of_isList hl, he]
  simp (config := {decide := true}) only [elemsP, if_true, if_false, subP, hsd', prefixK]
  cases rest with
  | nil => exact ⟨none, rfl⟩
  | cons p junk =>
    cases p with
    | sym x lx => exact (hrest x lx junk rfl).elim
    | _ => exact ⟨_, rfl⟩

example : ∃ loc, toImportSet 2 (lst [sym "prefix", lst [sym "m"]]) [] = (.error (.syntax, loc), []) :=
  reject_prefix_without_identifier 1 (lst [sym "prefix", lst [sym "m"]]) (lst [sym "m"]) none [] (.direct [.ident "m"] none) []
    trivial rfl (by rw [toImportSet_eq]; rfl) (by intro p lp junk h; cases h)

/-! ## 3. define-library -/

/-- An export spec `a` or `(rename a b)` is parsed back as the export entry it renders. -/
theorem exportSpec_roundtrip (e : ExportSpec) (s : SynEnv) : toExportSpec (renderExport e) s = (.ok e.unloc, s) :=
  toExportSpec_render e s

/-- What `transform_export_spec` accepts: an identifier, or a list (possibly dotted, possibly with
more elements, which are ignored) that starts with `rename` and two identifiers; nothing else
(a number, a string, a vector, `()`, `(a b)`, `(rename a)`, `(rename a 1)` are errors). -/
theorem exportSpec_ok_shape (d : Datum) (e : ExportSpec) (s s' : SynEnv) (h : toExportSpec d s = (.ok e, s')) :
    s' = s ∧ ((∃ n l, d = .sym n l ∧ e = .direct n l) ∨
      (IsList d ∧ ∃ l a la b lb junk, d.elems = .sym "rename" l :: .sym a la :: .sym b lb :: junk ∧
        e = .rename a b d.loc)) := by
  have main : ∀ d : Datum, IsList d →
      (do let es := d.elems
          let h ← need es.head?
          match h with
          | .sym "rename" _ => do
            let a ← need (es.drop 1).head?
            let a ← identOf a
            let b ← need (es.drop 2).head?
            let b ← identOf b
            pure (ExportSpec.rename a b d.loc)
          | _ => Xform.fail (.syntax, none) : XM ExportSpec) s = (.ok e, s') →
      s' = s ∧ ∃ l a la b lb junk, d.elems = .sym "rename" l :: .sym a la :: .sym b lb :: junk ∧
        e = .rename a b d.loc := by
    intro d _ h
    simp only [bind_def] at h
    cases he : d.elems with
    | nil => rw [he] at h; cases h
    | cons first r =>
      rw [he] at h
      simp only [List.head?_cons, need_some, pure_def, List.drop_succ_cons, List.drop_zero] at h
      split at h
      · rename_i l
        cases r with
        | nil => cases h
        | cons a r' =>
          simp only [List.head?_cons, need_some, pure_def, bind_def, identOf_eq] at h
          cases a with
          | sym x lx =>
            simp only [Macro.identOf] at h
            cases r' with
            | nil => cases h
            | cons b r'' =>
              simp only [List.drop_succ_cons, List.drop_zero, List.head?_cons, need_some, pure_def, bind_def, identOf_eq] at h
              cases b with
              | sym y ly =>
                simp only [Macro.identOf] at h
                cases h
                exact ⟨rfl, l, x, lx, y, ly, r'', rfl, rfl⟩
              | _ => cases h
          | _ => cases h
      · cases h
  cases d with
  | sym n l => cases h; exact ⟨rfl, .inl ⟨n, l, rfl, rfl⟩⟩
  | pair a b l =>
    obtain ⟨h1, h2⟩ := main (.pair a b l) trivial h
    exact ⟨h1, .inr ⟨trivial, h2⟩⟩
  | nil l =>
    obtain ⟨h1, h2⟩ := main (.nil l) trivial h
    exact ⟨h1, .inr ⟨trivial, h2⟩⟩
  | prim p l => cases h
  | vec xs l => cases h

example : toExportSpec (renderExport (.rename "a" "b" (some (1, 2)))) [] = (.ok (.rename "a" "b" none), []) := rfl

/-- Every written library declaration — `(import set …)`, `(export spec …)` with specs `a` and
`(rename a b)`, `(begin datum …)` — is parsed into the expected declaration (`expectDecl`): the
import sets written, in order; the export entries written, in order; the body data handed in order
to the statement parser. -/
theorem libDecl_roundtrip (fuel : Nat) (x : DeclSyn) (h : DeclOk fuel x) (s : SynEnv) :
    toLibDecl (fuel + 1) (renderDecl x) s = expectDecl (fuel + 1) x s :=
  toLibDecl_render (fuel + 1) x h s

example : toLibDecl 2 (renderDecl (.export [.direct "a" none, .rename "b" "c" none])) [] =
    (.ok (.export [.direct "a" none, .rename "b" "c" none]), []) :=
  libDecl_roundtrip 1 (.export [.direct "a" none, .rename "b" "c" none]) trivial []

/-- A whole `define-library` form — any name, any number of declarations — is parsed into the
library definition with that name and the expected declarations in textual order. (`k` bounds the
nesting depth of the import sets written; the recursion bound exceeds it by the number of
declarations.) -/
theorem library_roundtrip (k fuel : Nat) (name : LibName) (decls : List DeclSyn) (s : SynEnv)
    (h : ∀ x ∈ decls, DeclOk k x) (hf : k + decls.length + 1 ≤ fuel) :
    toStatement (fuel + 2) (renderLibrary name decls) s =
      (do let ds ← expectDecls fuel decls; pure (Statement.libraryDef name ds none)) s := by
  rw [toStatement_library_eq]
  simp only [bind_def, toLibDecls_render k fuel decls h hf]

/-- the library used in the examples: `(define-library (lib 1) (export a) (import (m)) (export (rename b c)))` -/
def demoDecls : List DeclSyn :=
  [.export [.direct "a" none], .importDecl [.direct [.ident "m"] none], .export [.rename "b" "c" none]]

private theorem demoDecls_ok : ∀ x ∈ demoDecls, DeclOk 1 x := by
  intro x hx
  simp only [demoDecls, List.mem_cons, List.not_mem_nil, or_false] at hx
  rcases hx with rfl | rfl | rfl
  · trivial
  · intro t ht
    simp only [List.mem_cons, List.not_mem_nil, or_false] at ht
    subst ht
    exact ⟨⟨"m", [], rfl, by decide⟩, by decide⟩
  · trivial

example : toStatement 7 (renderLibrary [.ident "lib", .int 1] demoDecls) [] =
    (.ok (.libraryDef [.ident "lib", .int 1]
      [.export [.direct "a" none], .importDecl [.direct [.ident "m"] none], .export [.rename "b" "c" none]] none), []) := by
  rw [library_roundtrip 1 5 _ _ [] demoDecls_ok (by decide)]; rfl

/-- When a written library is parsed, the export entries of the definition — over one or several
`export` declarations, wherever they stand — are the export specs written, in textual order
(`S.exportSpecs` is what `C13.exports_exact` and `C13More` start from); the import sets of its
import declarations are the import sets written, in order; and there are as many declarations as
were written. -/
theorem library_entries_in_order (k fuel : Nat) (name : LibName) (decls : List DeclSyn) (s s' : SynEnv)
    (stmt : Statement) (h : ∀ x ∈ decls, DeclOk k x) (hf : k + decls.length + 1 ≤ fuel)
    (hp : toStatement (fuel + 2) (renderLibrary name decls) s = (.ok stmt, s')) :
    ∃ ds, stmt = .libraryDef name ds none ∧
      S.exportSpecs ds = (writtenExports decls).map ExportSpec.unloc ∧
      parsedImports ds = (writtenImports decls).map ImportSet.unloc ∧
      ds.length = decls.length := by
  rw [library_roundtrip k fuel name decls s h hf] at hp
  simp only [bind_def] at hp
  cases hx : expectDecls fuel decls s with
  | mk r s1 =>
    rw [hx] at hp
    cases r with
    | error e => cases hp
    | ok ds =>
      cases hp
      exact ⟨ds, rfl, expectDecls_flat fuel decls s _ ds hx⟩

example : ∃ ds, S.exportSpecs ds = [.direct "a" none, .rename "b" "c" none] ∧
    toStatement 7 (renderLibrary [.ident "lib", .int 1] demoDecls) [] =
      (.ok (.libraryDef [.ident "lib", .int 1] ds none), []) :=
  ⟨_, rfl, by rw [library_roundtrip 1 5 _ _ [] demoDecls_ok (by decide)]; rfl⟩

/-- Import declarations inside a library are parsed by the same function as at top level: on
every datum `(import . rest)` with `rest` a list, the library-declaration parser and the statement
parser return the same list of import sets — `transform_import_set` mapped over the elements of
`rest` — or the same error. -/
theorem library_import_same_parser (fuel : Nat) (li l : Loc) (rest : Datum) (h : IsList rest) (s : SynEnv) :
    ∃ r : Except SErr (List ImportSet), (rest.elems.mapM (toImportSet fuel)) s = (r, s) ∧
      toStatement (fuel + 1) (.pair (.sym "import" li) rest l) s = (r.map (fun sets => .importDecl sets l), s) ∧
      toLibDecl (fuel + 1) (.pair (.sym "import" li) rest l) s = (r.map LibDecl.importDecl, s) :=
  ⟨rest.elems.mapM (parseP fuel), mapM_lift rest.elems (fun d _ => toImportSet_eq fuel d s),
    toStatement_import_eq fuel li l rest h s,
    toLibDecl_import_eq fuel (.pair (.sym "import" li) rest l) (.sym "import" li) rest.elems trivial (elems_pair _ _ _)
      (fun l h => by simp at h) (fun l h => by simp at h) s⟩

/-- The data of a `begin` body are parsed in order, each in the syntax environment the previous
one left: the body of `(begin d₁ d₂ …)` is the parse of `d₁` followed by the parse of the rest;
the first error stops it. -/
theorem begin_bodies_in_order (fuel : Nat) (d : Datum) (ds : List Datum) (s : SynEnv) :
    toLibDecl (fuel + 2) (lst (sym "begin" :: d :: ds)) s =
      (match toStatement fuel d s with
       | (.error e, s1) => (.error e, s1)
       | (.ok x, s1) =>
         match toLibDecl (fuel + 1) (lst (sym "begin" :: ds)) s1 with
         | (.ok (.begin_ xs), s2) => (.ok (.begin_ (x :: xs)), s2)
         | other => other) := by
  rw [toLibDecl_begin, toStatements]
  simp only [bind_def]
  cases toStatement fuel d s with
  | mk r s1 =>
    cases r with
    | error e => rfl
    | ok x =>
      simp only
      cases fuel with
      | zero => rw [toLibDecl_begin, toStatements]; rfl
      | succ f =>
        rw [toLibDecl_begin]
        simp only [bind_def]
        cases toStatements (f + 1) ds s1 with
        | mk r2 s2 => cases r2 <;> rfl

/-! ## 4. end to end -/

/-- From the written import set to the bindings: a writable term, rendered, parsed by
`transform_import_set`, and the parsed form evaluated by `eval_import_set` (its library cached or
native, `C12.importSet_eq_spec`), yields exactly the denotation `S.denote` of the TERM over the
export lists, in an interpreter state that differs at most in the instance cache. -/
theorem rendered_import_evaluates_to_denotation (t : ImportSet) (hwf : WF t) (pfuel fuel : Nat)
    (st : Interp.State) (bs : S.Bindings) (hp : S.depth t < pfuel)
    (hfuel : S.fuelNeeded t ≤ fuel) (hip : S.leaf t ∉ st.inProgress)
    (hd : S.denote t (Interp.exportsOf st) = some bs) :
    ∃ t', toImportSet pfuel (renderSet t) st.syn = (.ok t', st.syn) ∧
      ∃ st', Interp.evalImportSet fuel st t' = (.ok bs, st') ∧ Interp.SameButInstances st st' ∧
        (∀ n, Interp.exportsOf st' n = Interp.exportsOf st n) := by
  refine ⟨t.unloc, importSet_roundtrip t hwf pfuel hp st.syn, ?_⟩
  have e1 : ∀ t : ImportSet, S.fuelNeeded t.unloc = S.fuelNeeded t := by
    intro t; induction t <;> simp only [ImportSet.unloc, S.fuelNeeded, *]
  have e2 : ∀ t : ImportSet, S.leaf t.unloc = S.leaf t := by
    intro t; induction t <;> simp only [ImportSet.unloc, S.leaf, *]
  have e3 : ∀ t : ImportSet, S.denote t.unloc (Interp.exportsOf st) = S.denote t (Interp.exportsOf st) := by
    intro t; induction t <;> simp only [ImportSet.unloc, S.denote, *]
  obtain ⟨st', h1, h2, h3, _⟩ := C12.importSet_eq_spec t.unloc fuel st bs (by rw [e1]; exact hfuel)
    (by rw [e2]; exact hip) (by rw [e3]; exact hd)
  exact ⟨st', h1, h2, h3⟩

example : ∃ t', toImportSet 3 (renderSet (.prefix (.only (.direct C12.demoLib (some (1, 1))) ["b"]) "p:")) C12.demoState.syn =
      (.ok t', C12.demoState.syn) ∧
    ∃ st', Interp.evalImportSet 4 C12.demoState t' = (.ok [("p:b", .num (.int 2))], st') ∧
      Interp.SameButInstances C12.demoState st' ∧
      (∀ n, Interp.exportsOf st' n = Interp.exportsOf C12.demoState n) :=
  rendered_import_evaluates_to_denotation (.prefix (.only (.direct C12.demoLib (some (1, 1))) ["b"]) "p:")
    (show NameOk C12.demoLib from ⟨"m", [], rfl, by decide⟩) 3 4 C12.demoState _ (by decide) (by decide)
    (by simp [S.leaf, C12.demoState]) rfl

end Ruschm.C12More

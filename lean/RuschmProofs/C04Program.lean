/-
Property C04, the path a PROGRAM takes — "A use of a syntax-rules macro is rewritten by the first
rule, in textual order, whose pattern matches the use … a use that matches no rule is a syntax
error, never a silent mis-expansion."

`C04.lean` proves this about `Macro.transform`, `C04More.lean` about the way `define-syntax` builds
the rules from the written `(syntax-rules …)` form. This file closes the gap between the two and
the interpreter: `Xform.toStatement` (Rust: `transform_to_statement`,
`transform_syntax_definition`) on

1. a `(define-syntax m (syntax-rules …))` form: the rules built by `toRules` are recorded under `m`
   in the innermost syntax scope, nothing else changes, there is no code to evaluate; malformed
   definitions are syntax errors that leave the environment as it was;
2. a use `(m . args)`: ONE step is `Macro.transform` with the rules the environment gives for `m` —
   so (C04) the template of the first matching rule, instantiated — and the RESULT is transformed
   again; a use that matches no rule is a syntax error and nothing is evaluated;
3. iterated expansion: `k` steps cost `k` units of fuel; a macro that expands to itself runs out
   of fuel (the Rust recursion has no bound);
4. a program: `(define-syntax m …)` followed by forms that use `m` is run as the statements of the
   expansions.

Helper definitions (`Step`, `Steps`, `UsesAs`) and lemmas are in `MacroProgramLemmas.lean`.
-/
import RuschmProofs.MacroProgramLemmas

set_option linter.unusedSimpArgs false
set_option linter.unusedVariables false

namespace Ruschm.C04Program
open Ruschm Ruschm.Xform Ruschm.Macro Ruschm.Macro.Ex Ruschm.MacroProgram
open Ruschm.Interp Ruschm.FrontSpec Ruschm.ProgramText
open Ruschm.Meaning (coreKeywords)

/-! ## data of the non-vacuity examples -/

/-- `(syntax-rules (then else) ((my-if c then a else b) (if c a b)) ((my-if c then a) (if c a #f)))` -/
def myIfSpec : Datum :=
  lst [sy "syntax-rules", lst [sy "then", sy "else"],
    lst [lst [sy "my-if", sy "c", sy "then", sy "a", sy "else", sy "b"], lst [sy "if", sy "c", sy "a", sy "b"]],
    lst [lst [sy "my-if", sy "c", sy "then", sy "a"], lst [sy "if", sy "c", sy "a", .prim (.bool false) none]]]

def myIfRules : Rules :=
  ⟨["then", "else"],
   [(plist [.ident "c", .ident "then", .ident "a", .ident "else", .ident "b"],
     .list [(.ident "if", false), (.ident "c", false), (.ident "a", false), (.ident "b", false)]),
    (plist [.ident "c", .ident "then", .ident "a"],
     .list [(.ident "if", false), (.ident "c", false), (.ident "a", false), (.prim (.bool false), false)])]⟩

/-- `(define-syntax my-if (syntax-rules …))` -/
def myIfDef : Datum := lst [sy "define-syntax", sy "my-if", myIfSpec]

/-- `(syntax-rules () ((my-or) #f) ((my-or e) e) ((my-or e r ...) (if e e (my-or r ...))))`: a
RECURSIVE macro -/
def myOrSpec : Datum :=
  lst [sy "syntax-rules", lst [],
    lst [lst [sy "my-or"], .prim (.bool false) none],
    lst [lst [sy "my-or", sy "e"], sy "e"],
    lst [lst [sy "my-or", sy "e", sy "r", sy "..."],
      lst [sy "if", sy "e", sy "e", lst [sy "my-or", sy "r", sy "..."]]]]

def myOrRules : Rules :=
  ⟨[], [(plist [], .prim (.bool false)),
        (plist [.ident "e"], .ident "e"),
        (plist [.ident "e", .ident "r", .ellipsis],
         .list [(.ident "if", false), (.ident "e", false), (.ident "e", false),
           (.list [(.ident "my-or", false), (.ident "r", true)], false)])]⟩

def myOrDef : Datum := lst [sy "define-syntax", sy "my-or", myOrSpec]

/-- `(syntax-rules () ((when c e) (if c e #f)))`: a user macro with the name of a bundled form -/
def myWhenSpec : Datum :=
  lst [sy "syntax-rules", lst [],
    lst [lst [sy "when", sy "c", sy "e"], lst [sy "if", sy "c", sy "e", .prim (.bool false) none]]]

def myWhenRules : Rules :=
  ⟨[], [(plist [.ident "c", .ident "e"],
         .list [(.ident "if", false), (.ident "c", false), (.ident "e", false), (.prim (.bool false), false)])]⟩

/-- `(syntax-rules () ((loop) (loop)))` -/
def loopSpec : Datum := lst [sy "syntax-rules", lst [], lst [lst [sy "loop"], lst [sy "loop"]]]
def loopRules : Rules := ⟨[], [(plist [], .list [(.ident "loop", false)])]⟩
def loopDef : Datum := lst [sy "define-syntax", sy "loop", loopSpec]
/-- the form `(loop)` as the template builds it at a use located at `l` -/
def loopForm (l : Loc) : Datum := .pair (.sym "loop" l) (.nil none) l

example : toRules "my-if" myIfSpec = .ok myIfRules ∧ toRules "my-or" myOrSpec = .ok myOrRules ∧
    toRules "when" myWhenSpec = .ok myWhenRules ∧ toRules "loop" loopSpec = .ok loopRules ∧
    SupportedRules myIfRules = true ∧ SupportedRules myOrRules = true ∧
    SupportedRules myWhenRules = true ∧ SupportedRules loopRules = true :=
  ⟨rfl, rfl, rfl, rfl, rfl, rfl, rfl, rfl⟩

/-! ## 1. `define-syntax` records the rules -/

/-- **`(define-syntax m spec more…)` with an accepted transformer spec** (`toRules m spec = ok rs`:
by `C04More.toRules_spec` exactly the forms `(syntax-rules (literal…) (pattern template)…)` whose
rules are accepted, `rs` being their images in textual order). Whatever the fuel (one unit is
enough) and the syntax environment:

* `toStatement` succeeds with the statement `syntaxDef m rs` (no expression, no definition: there
  is no code to evaluate, see `define_syntax_evaluates_nothing`), located at the form;
* in the environment it returns, `m` resolves to EXACTLY `rs`, every other keyword resolves as
  before;
* only the INNERMOST scope is written to: over scopes `own :: base` the result is
  `scopeInsert own m rs :: base` — an `m` of an outer scope (a bundled derived form for instance) is
  shadowed in this environment only, the outer scope is not touched (`C19.syn_base_unchanged` is the
  same fact for a whole text);
* the literals and rules recorded are the written ones, position by position. -/
theorem define_syntax_records_rules {l₁ lm l : Loc} {rest spec : Datum} {more : List Datum}
    {m : String} {rs : Rules} (n : Nat) (env : SynEnv)
    (hrest : IsList rest (.sym m lm :: spec :: more)) (hr : toRules m spec = .ok rs) :
    toStatement (n + 1) (.pair (.sym "define-syntax" l₁) rest l) env =
        (.ok (.syntaxDef m rs l), env.define m rs) ∧
      (env.define m rs).get? m = some rs ∧
      (∀ k, k ≠ m → (env.define m rs).get? k = env.get? k) ∧
      (∀ own base, env = own :: base → env.define m rs = scopeInsert own m rs :: base) ∧
      ∃ litDs ruleDs, synRulesParts spec = some (litDs, ruleDs) ∧
        MapOk Macro.identOf litDs rs.literals ∧ MapOk (toRule m) ruleDs rs.rules := by
  refine ⟨?_, get_define_self env m rs, fun k hk => get_define_other env rs hk, ?_,
    (C04More.toRules_spec m spec rs).1 hr⟩
  · rw [toStatement_define_syntax n hrest, hr]
  · rintro own base rfl; rfl

example : IsList (lst [sy "my-if", myIfSpec]) [.sym "my-if" none, myIfSpec] ∧
    toRules "my-if" myIfSpec = .ok myIfRules ∧
    toStatement 1 myIfDef [[]] = (.ok (.syntaxDef "my-if" myIfRules none), [[("my-if", myIfRules)]]) :=
  ⟨rfl, rfl, rfl⟩

/-- the same, from the WRITTEN form: a `(syntax-rules (literal…) rule…)` form whose literals are
identifiers `lits` and whose rules `toRule m` accepts as `rules` (for the patterns and templates of
the supported class: `C04More.toRule_spec`, `toPat_*`, `toTmpl_*`) records `⟨lits, rules⟩` -/
theorem define_syntax_records_written_rules {l₁ lm l : Loc} {rest spec : Datum} {more litDs ruleDs : List Datum}
    {m : String} {lits : List String} {rules : List (Pat × Tmpl)} (n : Nat) (env : SynEnv)
    (hrest : IsList rest (.sym m lm :: spec :: more))
    (hparts : synRulesParts spec = some (litDs, ruleDs)) (hl : MapOk Macro.identOf litDs lits)
    (hrules : MapOk (toRule m) ruleDs rules) :
    toStatement (n + 1) (.pair (.sym "define-syntax" l₁) rest l) env =
        (.ok (.syntaxDef m ⟨lits, rules⟩ l), env.define m ⟨lits, rules⟩) ∧
      (env.define m ⟨lits, rules⟩).get? m = some ⟨lits, rules⟩ :=
  have hr : toRules m spec = .ok ⟨lits, rules⟩ :=
    (C04More.toRules_spec m spec ⟨lits, rules⟩).2 ⟨litDs, ruleDs, hparts, hl, hrules⟩
  ⟨(define_syntax_records_rules (l₁ := l₁) (l := l) n env hrest hr).1,
   (define_syntax_records_rules (l₁ := l₁) (l := l) n env hrest hr).2.1⟩

example : synRulesParts myWhenSpec = some ([],
      [lst [lst [sy "when", sy "c", sy "e"], lst [sy "if", sy "c", sy "e", .prim (.bool false) none]]]) ∧
    MapOk (toRule "when")
      [lst [lst [sy "when", sy "c", sy "e"], lst [sy "if", sy "c", sy "e", .prim (.bool false) none]]]
      myWhenRules.rules ∧ MapOk Macro.identOf [] myWhenRules.literals ∧
    IsList (lst [sy "when", myWhenSpec]) [.sym "when" none, myWhenSpec] :=
  ⟨rfl, .cons rfl .nil, .nil, rfl⟩

/-- **shadowing a bundled derived form**: in an interpreter's syntax environment `[own, grammarScope]`
a `(define-syntax when …)` writes to `own`; `when` then resolves to the user's rules, the other
eight bundled forms still resolve to the bundled rules, and the bundled scope is the same constant
`grammarScope` — which is what every other (and every future) instance reads
(`C19.bundled_forms_constant`). -/
theorem define_syntax_shadows_bundled_form {l₁ lm l : Loc} {rest spec : Datum} {more : List Datum}
    {rs : Rules} (n : Nat) (own : List (String × Rules))
    (hrest : IsList rest (.sym "when" lm :: spec :: more)) (hr : toRules "when" spec = .ok rs) :
    toStatement (n + 1) (.pair (.sym "define-syntax" l₁) rest l) [own, grammarScope] =
        (.ok (.syntaxDef "when" rs l), [scopeInsert own "when" rs, grammarScope]) ∧
      SynEnv.get? [scopeInsert own "when" rs, grammarScope] "when" = some rs ∧
      (∀ kw ∈ C05.keywords, kw ≠ "when" → own.lookup kw = none →
        SynEnv.get? [scopeInsert own "when" rs, grammarScope] kw = grammarRules kw) ∧
      ∀ fuel b, (withStdlib fuel b).syn.get? "when" = grammarRules "when" := by
  obtain ⟨h1, h2, h3, -, -⟩ := define_syntax_records_rules n [own, grammarScope] hrest hr
  refine ⟨h1, h2, fun kw hkw hne hown => ?_, fun fuel b => ?_⟩
  · have := h3 kw hne
    simp only [SynEnv.define] at this
    rw [this, ← stdEnv_default kw hkw]
    simp [SynEnv.get?, hown, List.lookup]
  · rw [withStdlib_syn fuel b]
    exact stdEnv_default "when" (by decide)

example : toRules "when" myWhenSpec = .ok myWhenRules ∧
    SynEnv.get? [scopeInsert [] "when" myWhenRules, grammarScope] "when" = some myWhenRules ∧
    grammarRules "when" = some whenRules ∧ whenRules.rules ≠ myWhenRules.rules :=
  ⟨rfl, rfl, when_rules, fun h => by simp [whenRules, myWhenRules, Pat.ofList] at h⟩

/-- **there is no code to evaluate**: `eval_ast` on the statement of a syntax definition returns no
value, whatever the fuel; it leaves the syntax scopes, the libraries and the output alone. What it
does change: the import phase is over, and — as the Rust `eval_expression_or_definition` does — the
keyword is ALSO bound, in the root frame of VALUES, to the transformer as a value
(`Value::Transformer`): a variable `m` defined before is overwritten. -/
theorem define_syntax_evaluates_nothing (fuel : Nat) (st : State) (m : String) (rs : Rules) (l : Loc) :
    evalAst fuel st (.syntaxDef m rs l) =
      (.ok none, { st with importEnd := true, store := st.store.define st.env m (.transformer rs) }) :=
  evalAst_syntaxDef fuel st m rs l

/-- **a malformed transformer spec** (not a `syntax-rules` list, a literal that is not an
identifier, a rule that is not `((m . pattern) template)`, a pattern with another keyword, a stray
`...` in a template: every way `toRules` fails) is a SYNTAX error, and the syntax environment is
returned unchanged: nothing was recorded. -/
theorem define_syntax_malformed_rules {l₁ lm l : Loc} {rest spec : Datum} {more : List Datum}
    {m : String} {e : SErr} (n : Nat) (env : SynEnv)
    (hrest : IsList rest (.sym m lm :: spec :: more)) (hr : toRules m spec = .error e) :
    toStatement (n + 1) (.pair (.sym "define-syntax" l₁) rest l) env = (.error e, env) ∧
      e.1 = .syntax := by
  refine ⟨?_, (C04More.front_errors_are_syntax (kw := m) (d := spec) (e := e)).1 hr⟩
  rw [toStatement_define_syntax n hrest, hr]

/-- the second rule is written with `_` for the keyword: rejected, located at the `_` -/
example : toRules "m" (lst [sy "syntax-rules", lst [], lst [lst [sy "m", sy "x"], sy "x"],
      lst [lst [.sym "_" (some (7, 8)), sy "x", sy "y"], sy "y"]]) = .error (.syntax, some (7, 8)) ∧
    toStatement 1 (lst [sy "define-syntax", sy "m", lst [sy "syntax-rules", lst [],
      lst [lst [sy "m", sy "x"], sy "x"],
      lst [lst [.sym "_" (some (7, 8)), sy "x", sy "y"], sy "y"]]]) [[("k", myIfRules)]] =
      (.error (.syntax, some (7, 8)), [[("k", myIfRules)]]) := ⟨rfl, rfl⟩

/-- **the other malformed definitions**: a name that is not an identifier is a syntax error located
at it; a missing name or a missing transformer spec is a syntax error (`UnexpectedEnd`); a dotted
form `(define-syntax . x)` is a syntax error. In every case the environment is unchanged. -/
theorem define_syntax_malformed_form {l₁ l : Loc} {rest : Datum} (n : Nat) (env : SynEnv) :
    (∀ k more, IsList rest (k :: more) → (∀ s l', k ≠ .sym s l') →
      toStatement (n + 1) (.pair (.sym "define-syntax" l₁) rest l) env = (.error (.syntax, k.loc), env)) ∧
    (∀ args, IsList rest args → (args = [] ∨ ∃ m lm, args = [.sym m lm]) →
      toStatement (n + 1) (.pair (.sym "define-syntax" l₁) rest l) env = (.error (.syntax, none), env)) ∧
    (rest.isListy = false →
      toStatement (n + 1) (.pair (.sym "define-syntax" l₁) rest l) env = (.error (.syntax, none), env)) :=
  ⟨fun k more h hk => toStatement_define_syntax_bad_name n h hk,
   fun args h hs => toStatement_define_syntax_short n h hs,
   fun h => toStatement_dotted n h⟩

example : toStatement 1 (lst [sy "define-syntax", .prim (.int 5) (some (1, 16)), myIfSpec]) [[]] =
      (.error (.syntax, some (1, 16)), [[]]) ∧
    toStatement 1 (lst [sy "define-syntax", sy "m"]) [[]] = (.error (.syntax, none), [[]]) ∧
    toStatement 1 (lst [sy "define-syntax"]) [[]] = (.error (.syntax, none), [[]]) ∧
    toStatement 1 (.pair (sy "define-syntax") (sy "m") none) [[]] = (.error (.syntax, none), [[]]) :=
  ⟨rfl, rfl, rfl, rfl⟩

/-- … and at the level of the interpreter: a `define-syntax` form that is rejected leaves the WHOLE
interpreter state as it was (nothing is evaluated, nothing recorded) -/
theorem define_syntax_malformed_no_effect {l₁ lm l : Loc} {rest spec : Datum} {more : List Datum}
    {m : String} {e : SErr} (fuel : Nat) (st : State)
    (hrest : IsList rest (.sym m lm :: spec :: more)) (hr : toRules m spec = .error e) :
    evalForm fuel st (.pair (.sym "define-syntax" l₁) rest l) = (.error e, st) := by
  obtain ⟨n, hn⟩ := xformFuel_succ (.pair (.sym "define-syntax" l₁) rest l)
  apply evalForm_error
  rw [hn]
  exact (define_syntax_malformed_rules n st.syn hrest hr).1

example : toRules "m" (lst [sy "syntax-rules", lst [num 1]]) = .error (.syntax, none) := rfl

/-! ## 2. A macro use is expanded by the first matching rule, and the result transformed again -/

/-- **one step, for ANY rule set** (no class hypothesis). In a syntax environment where `kw` — not
one of the eight core keywords, which `toStatement` tests first — resolves to `rs`, the list form
`(kw . rest)` is transformed as follows: `Macro.transform` is run on the form without its keyword,
located at the use, with the rules `rs`; if it returns `d'`, the statement of the use is the
statement of `d'` (one unit of fuel less, same environment); if it fails, that error is the
outcome and the environment is unchanged. -/
theorem macro_use_one_step {kw : String} {l₁ l : Loc} {rest : Datum} {env : SynEnv} {rs : Rules}
    (n : Nat) (hkw : kw ∉ coreKeywords) (hrest : rest.isListy = true) (henv : env.get? kw = some rs) :
    toStatement (n + 1) (.pair (.sym kw l₁) rest l) env =
      match Macro.transform (Macro.matchFuel (.pair (.sym kw l₁) rest l) + n) rs (rest.withLoc l) with
      | .ok d' => toStatement n d' env
      | .error e => (.error e, env) :=
  toStatement_macro_step n hkw hrest henv

example : toStatement 100 (lst [sy "my-if", sy "p", sy "then", num 1]) [[("my-if", myIfRules)]] =
    toStatement 99 (lst [sy "if", sy "p", num 1, .prim (.bool false) none]) [[("my-if", myIfRules)]] := rfl

/-- … in terms of `C04.transform_first_match`: when `(p, t)` is the FIRST rule of `rs` whose pattern
matches the use (every earlier rule fails), with table `σ`, the use is transformed as the template
`t` filled with `σ` (`Macro.fill`: `subst` after the ellipsis test), located at the use. -/
theorem macro_use_first_match {kw : String} {l₁ l : Loc} {rest : Datum} {env : SynEnv} {rs : Rules}
    {t : Tmpl} {σ : Subst} (n : Nat) (hkw : kw ∉ coreKeywords) (hrest : rest.isListy = true)
    (henv : env.get? kw = some rs)
    (hfm : C04.FirstMatch (Macro.matchFuel (.pair (.sym kw l₁) rest l) + n) rs.literals rs.rules
      (rest.withLoc l) t σ) :
    toStatement (n + 1) (.pair (.sym kw l₁) rest l) env =
      match fill (Macro.matchFuel (.pair (.sym kw l₁) rest l) + n) t σ l with
      | .ok d' => toStatement n d' env
      | .error e => (.error e, env) := by
  have := toStatement_macro_step (l₁ := l₁) (l := l) n hkw hrest henv
  unfold Macro.transform at this
  rw [C04.transform_first_match hfm, loc_withLoc] at this
  exact this

/-- `(my-if p then 1)`: the first rule fails, the second matches with `c ↦ p`, `a ↦ 1` -/
example : C04.FirstMatch (Macro.matchFuel (lst [sy "my-if", sy "p", sy "then", num 1]) + 0)
      myIfRules.literals myIfRules.rules ((lst [sy "p", sy "then", num 1]).withLoc none)
      myIfRules.rules[1].2 [("c", sy "p", []), ("a", num 1, [])] ∧
    fill (Macro.matchFuel (lst [sy "my-if", sy "p", sy "then", num 1]) + 0) myIfRules.rules[1].2
      [("c", sy "p", []), ("a", num 1, [])] none = .ok (lst [sy "if", sy "p", num 1, .prim (.bool false) none]) :=
  ⟨⟨[myIfRules.rules[0]], _, [], rfl, fun r hr => by cases List.mem_singleton.1 hr; exact ⟨_, rfl⟩, rfl⟩, rfl⟩

/-- … and when NO rule matches (`C04.transform_no_match`) the use is a syntax error -/
theorem macro_use_no_match {kw : String} {l₁ l : Loc} {rest : Datum} {env : SynEnv} {rs : Rules}
    (n : Nat) (hkw : kw ∉ coreKeywords) (hrest : rest.isListy = true) (henv : env.get? kw = some rs)
    (hnm : C04.NoMatch (Macro.matchFuel (.pair (.sym kw l₁) rest l) + n) rs.literals rs.rules
      (rest.withLoc l)) :
    toStatement (n + 1) (.pair (.sym kw l₁) rest l) env = (.error (.syntax, none), env) := by
  have := toStatement_macro_step (l₁ := l₁) (l := l) n hkw hrest henv
  unfold Macro.transform at this
  rw [C04.transform_no_match hnm] at this
  exact this

/-- `(my-if p than 1)`: `than` is not the literal `then` -/
example : C04.NoMatch (Macro.matchFuel (lst [sy "my-if", sy "p", sy "than", num 1]) + 0)
      myIfRules.literals myIfRules.rules ((lst [sy "p", sy "than", num 1]).withLoc none) := by
  intro r hr
  simp only [myIfRules, List.mem_cons, List.not_mem_nil, or_false] at hr
  rcases hr with rfl | rfl <;> exact ⟨_, rfl⟩

/-- **A MACRO USE IS EXPANDED BY THE FIRST MATCHING RULE** (supported class of `C04.lean`). In a
syntax environment where `kw` resolves to a supported rule set `rs`, for every fuel: EITHER some
rule `(p, t)` of `rs` declaratively matches the use (the form without its keyword) with bindings
`β`, no earlier rule matches, and the statement of the use is the statement — one unit of fuel
less, same environment — of `specInst t β`, the DECLARATIVE instantiation of that rule's template
(every pattern variable replaced by what it matched, every ellipsis sub-template repeated once per
matched item, in order; nodes built from the template are located at the use); OR no rule matches,
and the use is a syntax error, the environment unchanged. Nothing else can happen. -/
theorem macro_use_expands_by_first_rule {kw : String} {l₁ l : Loc} {rest : Datum} {env : SynEnv}
    {rs : Rules} (n : Nat) (hkw : kw ∉ coreKeywords) (hrest : rest.isListy = true)
    (henv : env.get? kw = some rs) (hs : SupportedRules rs = true) :
    (∃ pre p t post β, rs.rules = pre ++ (p, t) :: post ∧
      (∀ q ∈ pre, specMatch rs.literals q.1 (rest.withLoc l) = none) ∧
      specMatch rs.literals p (rest.withLoc l) = some β ∧
      toStatement (n + 1) (.pair (.sym kw l₁) rest l) env = toStatement n (specInst t β l) env) ∨
    ((∀ q ∈ rs.rules, specMatch rs.literals q.1 (rest.withLoc l) = none) ∧
      toStatement (n + 1) (.pair (.sym kw l₁) rest l) env = (.error (.syntax, none), env)) := by
  rw [toStatement_macro_step n hkw hrest henv]
  have hf : Macro.matchFuel (rest.withLoc l) ≤ Macro.matchFuel (.pair (.sym kw l₁) rest l) + n :=
    Nat.le_trans matchFuel_use_le (Nat.le_add_right _ _)
  rcases C04.no_silent_misexpansion_matchFuel hs hf with
    ⟨pre, p, t, post, β, h1, h2, h3, h4⟩ | ⟨h1, h2⟩
  · exact .inl ⟨pre, p, t, post, β, h1, h2, h3, by rw [h4, loc_withLoc]⟩
  · exact .inr ⟨h1, by rw [h2]⟩

/-- `(my-if p then 1 else 2)`: the first rule; `(my-if p then 1)`: the second; the literal `then`
matches only itself: `(my-if p than 1)` matches no rule -/
example :
    specMatch ["then", "else"] myIfRules.rules[0].1 (lst [sy "p", sy "then", num 1, sy "else", num 2]) =
      some [("c", [sy "p"]), ("a", [num 1]), ("b", [num 2])] ∧
    specInst myIfRules.rules[0].2 [("c", [sy "p"]), ("a", [num 1]), ("b", [num 2])] none =
      lst [sy "if", sy "p", num 1, num 2] ∧
    specMatch ["then", "else"] myIfRules.rules[0].1 (lst [sy "p", sy "then", num 1]) = none ∧
    specMatch ["then", "else"] myIfRules.rules[1].1 (lst [sy "p", sy "then", num 1]) =
      some [("c", [sy "p"]), ("a", [num 1])] ∧
    toStatement 100 (lst [sy "my-if", sy "p", sy "then", num 1, sy "else", num 2]) [[("my-if", myIfRules)]] =
      (.ok (.expr (.cond (.sym "p" none) (.prim (.int 1) none) (some (.prim (.int 2) none)) none)),
        [[("my-if", myIfRules)]]) ∧
    toStatement 100 (lst [sy "my-if", sy "p", sy "than", num 1]) [[("my-if", myIfRules)]] =
      (.error (.syntax, none), [[("my-if", myIfRules)]]) :=
  ⟨rfl, rfl, rfl, rfl, rfl, rfl⟩

/-- **a use that matches no rule is reported without evaluating anything**: the form is a syntax
error of `Interpreter::eval`'s loop and the whole interpreter state — store (hence output), syntax
scopes, libraries — is exactly as before. -/
theorem macro_use_no_match_no_effect {kw : String} {l₁ l : Loc} {rest : Datum} {rs : Rules}
    (fuel : Nat) (st : State) (hkw : kw ∉ coreKeywords) (hrest : rest.isListy = true)
    (henv : st.syn.get? kw = some rs) (hs : SupportedRules rs = true)
    (hnone : ∀ q ∈ rs.rules, specMatch rs.literals q.1 (rest.withLoc l) = none) :
    evalForm fuel st (.pair (.sym kw l₁) rest l) = (.error (.syntax, none), st) := by
  obtain ⟨n, hn⟩ := xformFuel_succ (.pair (.sym kw l₁) rest l)
  apply evalForm_error
  rw [hn]
  rcases macro_use_expands_by_first_rule (l₁ := l₁) (l := l) n hkw hrest henv hs with
    ⟨pre, p, t, post, β, h1, -, h3, -⟩ | ⟨-, h2⟩
  · have := hnone (p, t) (by rw [h1]; simp)
    rw [h3] at this; cases this
  · exact h2

example : ∀ q ∈ myIfRules.rules, specMatch myIfRules.literals q.1
    ((lst [sy "p", sy "than", num 1]).withLoc none) = none := by decide

/-! ## 3. The expansion is expanded again -/

/-- **one step** (`MacroProgram.Step env d d'`: `d` is a use of a keyword bound in `env`, and the
expander turns it into `d'`): the statement of `d` is the statement of `d'`, one unit of fuel less.
Whatever `d'` is — a core form, a call, or AGAIN a macro use, of the same macro, of another user
macro, of a bundled form: `toStatement` is simply run on it. -/
theorem expansion_is_transformed_again {env : SynEnv} {d d' : Datum} (h : Step env d d') (n : Nat) :
    toStatement (n + 1) d env = toStatement n d' env :=
  toStatement_step h n

example : Step [[("my-if", myIfRules)]] (lst [sy "my-if", sy "p", sy "then", num 1])
    (lst [sy "if", sy "p", num 1, .prim (.bool false) none]) :=
  step_of_spec (by decide) rfl rfl rfl rfl

/-- for a supported rule set the step is the declarative expansion -/
theorem step_of_supported {env : SynEnv} {kw : String} {l₁ l : Loc} {rest d' : Datum} {rs : Rules}
    (hkw : kw ∉ coreKeywords) (hrest : rest.isListy = true) (henv : env.get? kw = some rs)
    (hs : SupportedRules rs = true)
    (h : specTransform rs.literals rs.rules (rest.withLoc l) = .ok d') :
    Step env (.pair (.sym kw l₁) rest l) d' :=
  step_of_spec hkw hrest henv hs h

/-- a use of a BUNDLED derived form is a step, in every environment that resolves the nine keywords
to the bundled rules (`StdEnv`): the shape theorems of `C05Shapes.lean`, which are stated for
`expand1`, give its result -/
theorem step_of_bundled {env : SynEnv} {kw : String} {l₁ l : Loc} {rest d' : Datum}
    (hstd : StdEnv env) (hkw : kw ∈ C05.keywords) (hrest : rest.isListy = true)
    (hxp : ∀ fuel, Macro.matchFuel (rest.withLoc l) ≤ fuel → expand1 fuel kw (rest.withLoc l) = .ok d') :
    Step env (.pair (.sym kw l₁) rest l) d' := by
  have hcore : kw ∉ coreKeywords := by
    simp only [C05.keywords, List.mem_cons, List.mem_nil_iff, or_false] at hkw
    rcases hkw with rfl | rfl | rfl | rfl | rfl | rfl | rfl | rfl | rfl <;> decide
  have hget := hstd kw hkw
  cases hr : grammarRules kw with
  | none =>
    have := hxp _ (Nat.le_refl _)
    simp only [expand1, hr] at this
    cases this
  | some rules =>
    rw [hr] at hget
    refine ⟨kw, l₁, rest, l, rules, rfl, hcore, hrest, hget, fun fuel hf => ?_⟩
    have := hxp fuel (Nat.le_trans matchFuel_use_le hf)
    simpa only [expand1, hr] using this

/-- **THE EXPANSION IS EXPANDED AGAIN, TO THE END**: if `d` reaches `d'` by `k` expansion steps
(`Steps env k d d'`: each step applied to the result of the one before, whatever macro — user or
bundled — it is a use of), the statement of `d` with fuel `n + k` is the statement of `d'` with
fuel `n`: the SAME outcome (statement or error) and the SAME environment. In particular when `d'` is
the fully expanded form (not a macro use any more), the statement of `d` is the statement of the
fully expanded datum, and the fuel needed is that of the expanded datum PLUS ONE UNIT PER
EXPANSION STEP. -/
theorem expansion_is_reexpanded {env : SynEnv} {k : Nat} {d d' : Datum} (h : Steps env k d d')
    (n : Nat) : toStatement (n + k) d env = toStatement n d' env :=
  toStatement_steps h n

/-- the fuel bound, for the fuel the interpreter runs the transformer with
(`xformFuel d = 8 * d.size + 4000`): a form that reaches `d'` by `k ≤ xformFuel d` steps is
transformed as `d'` with `xformFuel d - k` units; up to 4000 steps leave `d'` at least
`8 * d.size` units. -/
theorem expansion_fuel_bound {env : SynEnv} {k : Nat} {d d' : Datum} (h : Steps env k d d')
    (hk : k ≤ xformFuel d) :
    toStatement (xformFuel d) d env = toStatement (xformFuel d - k) d' env ∧
      (k ≤ 4000 → 8 * d.size ≤ xformFuel d - k) := by
  refine ⟨?_, fun h4 => by unfold xformFuel; omega⟩
  have := toStatement_steps h (xformFuel d - k)
  rwa [Nat.sub_add_cancel hk] at this

/-- the RECURSIVE macro `my-or`: `(my-or (my-or 5))` reaches `5` in two steps (the second rule,
twice); `(my-or 1 2 3)` reaches `(if 1 1 (my-or 2 3))` in one step, and the inner use is expanded
when the `if` form is transformed -/
example : Steps [[("my-or", myOrRules)]] 2 (lst [sy "my-or", lst [sy "my-or", num 5]]) (num 5) ∧
    toStatement 100 (lst [sy "my-or", lst [sy "my-or", num 5]]) [[("my-or", myOrRules)]] =
      (.ok (.expr (.prim (.int 5) none)), [[("my-or", myOrRules)]]) ∧
    Steps [[("my-or", myOrRules)]] 1 (lst [sy "my-or", num 1, num 2, num 3])
      (lst [sy "if", num 1, num 1, lst [sy "my-or", num 2, num 3]]) ∧
    toStatement 100 (lst [sy "my-or", num 1, num 2, num 3]) [[("my-or", myOrRules)]] =
      (.ok (.expr (.cond (.prim (.int 1) none) (.prim (.int 1) none)
        (some (.cond (.prim (.int 2) none) (.prim (.int 2) none) (some (.prim (.int 3) none)) none)) none)),
        [[("my-or", myOrRules)]]) := by
  refine ⟨.step (step_of_supported (by decide) rfl rfl rfl rfl)
      (.step (step_of_supported (by decide) rfl rfl rfl rfl) (.refl _)), rfl,
    .step (step_of_supported (by decide) rfl rfl rfl rfl) (.refl _), rfl⟩

/-- a user macro that expands to a use of a BUNDLED form: with `(my-w c e) ⇒ (when c e)`, the use
`(my-w p 1)` reaches `(if p (begin 1))` in two steps, in every environment with the bundled forms -/
example (env : SynEnv) (hstd : StdEnv env)
    (hm : env.get? "my-w" = some ⟨[], [(plist [.ident "c", .ident "e"],
      .list [(.ident "when", false), (.ident "c", false), (.ident "e", false)])]⟩) :
    Steps env 2 (lst [sy "my-w", sy "p", num 1])
      (lst [sy "if", sy "p", lst [sy "begin", num 1]]) :=
  .step (step_of_supported (by decide) rfl hm rfl rfl)
    (.step (step_of_bundled hstd (by decide) rfl (fun fuel hf =>
      C05.when_shape (test := sy "p") (results := [num 1]) rfl (by simp) hf)) (.refl _))

/-- **A MACRO THAT EXPANDS TO ITSELF RUNS OUT OF FUEL**: if a form expands, in one step, to itself,
`toStatement` returns the model's fuel error for EVERY amount of fuel (and leaves the environment as
it was). The Rust `transform_to_statement` has no fuel: it calls itself on the expansion without
bound — the recursion ends only when the stack does (a crash of the process, not an error value);
the fuel error is the model's counterpart of that. -/
theorem self_expansion_runs_out_of_fuel {env : SynEnv} {d : Datum} (h : Step env d d) :
    ∀ n, toStatement n d env = (.error (.fuel, none), env) := by
  intro n
  induction n with
  | zero => rw [toStatement]; rfl
  | succ n ih => rw [toStatement_step h n, ih]

/-- `(define-syntax loop (syntax-rules () ((loop) (loop))))`: every use `(loop)` expands to the form
`(loop)` located at the use, which expands to itself -/
theorem loop_steps {env : SynEnv} (henv : env.get? "loop" = some loopRules) (l₁ l₂ l : Loc) :
    Step env (.pair (.sym "loop" l₁) (.nil l₂) l) (loopForm l) ∧ Step env (loopForm l) (loopForm l) :=
  ⟨step_of_supported (by decide) rfl henv rfl rfl, step_of_supported (by decide) rfl henv rfl rfl⟩

/-- … hence a use of `loop` runs out of any amount of fuel -/
theorem loop_runs_out_of_fuel {env : SynEnv} (henv : env.get? "loop" = some loopRules)
    (l₁ l₂ l : Loc) (n : Nat) :
    toStatement n (.pair (.sym "loop" l₁) (.nil l₂) l) env = (.error (.fuel, none), env) := by
  cases n with
  | zero => rw [toStatement]; rfl
  | succ n =>
    rw [toStatement_step (loop_steps henv l₁ l₂ l).1 n]
    exact self_expansion_runs_out_of_fuel (loop_steps henv l₁ l₂ l).2 n

/-- closed instance: after the definition, `(loop)` with the interpreter's fuel, and with 3 units -/
example : toStatement 1 loopDef [[]] = (.ok (.syntaxDef "loop" loopRules none), [[("loop", loopRules)]]) ∧
    toStatement (xformFuel (loopForm none)) (loopForm none) [[("loop", loopRules)]] =
      (.error (.fuel, none), [[("loop", loopRules)]]) ∧ loopForm none = lst [sy "loop"] ∧
    toStatement 3 (lst [sy "loop"]) [[("loop", loopRules)]] = (.error (.fuel, none), [[("loop", loopRules)]]) :=
  ⟨rfl, loop_runs_out_of_fuel (env := [[("loop", loopRules)]]) rfl none none none _, rfl, rfl⟩

/-! ## 4. A program that defines and uses a macro -/

/-- **the definition, as a form of a program**: `Interpreter::eval`'s loop on an accepted
`(define-syntax m spec)` form gives no value; afterwards `m` resolves to `rs` in the interpreter's
syntax scopes (innermost scope, see `define_syntax_records_rules`), the import phase is over, the
root frame binds `m` to the transformer value; everything else is as before. -/
theorem define_syntax_form {l₁ lm l : Loc} {rest spec : Datum} {more : List Datum} {m : String}
    {rs : Rules} (fuel : Nat) (st : State)
    (hrest : IsList rest (.sym m lm :: spec :: more)) (hr : toRules m spec = .ok rs) :
    evalForm fuel st (.pair (.sym "define-syntax" l₁) rest l) =
      (.ok none, { st with syn := st.syn.define m rs, importEnd := true,
                           store := st.store.define st.env m (.transformer rs) }) := by
  obtain ⟨n, hn⟩ := xformFuel_succ (.pair (.sym "define-syntax" l₁) rest l)
  have h := (define_syntax_records_rules (l₁ := l₁) (l := l) n st.syn hrest hr).1
  rw [← hn] at h
  rw [evalForm_ok h, evalAst_syntaxDef]

/-- **forms that use macros are run as the statements of their expansions**: if every form of `ds`
reaches (by expansion steps in the interpreter's syntax environment, possibly none) a datum that is
transformed into the corresponding statement of `sts` (`UsesAs`), then running the forms is running
`sts` with `eval_ast`, statement by statement (`ProgramText.runStmts`: first error ends the run). -/
theorem forms_run_as_expansions (fuel : Nat) (st : State) (ds : List Datum) (sts : List Statement)
    (last : Option Value) (h : UsesAs st.syn ds sts) :
    runForms fuel st ds last = runStmts fuel st sts last :=
  runForms_usesAs fuel ds sts st last h

/-- **A PROGRAM `(define-syntax m …)` FOLLOWED BY FORMS THAT USE `m`.** Let the definition be
accepted with rules `rs`, and let every following form reach — by expansion steps in the syntax
environment that has `m ↦ rs` recorded (steps of `m`, of other macros of the environment, of bundled
forms; by (2) each step is the first matching rule's template instantiated) — a datum transformed
into the corresponding statement of `sts`. Then the forms are run as follows: the definition
evaluates to nothing and only records `m` (syntax scope, and the transformer value in the root
frame); from that state the statements `sts` OF THE EXPANSIONS are evaluated by `eval_ast` one
after another, the first error ending the run. The uses themselves leave no trace: the run is that
of the program in which every use is replaced by its expansion. -/
theorem user_macro_program {l₁ lm l : Loc} {rest spec : Datum} {more : List Datum} {m : String}
    {rs : Rules} (fuel : Nat) (st : State) (ds : List Datum) (sts : List Statement)
    (last : Option Value)
    (hrest : IsList rest (.sym m lm :: spec :: more)) (hr : toRules m spec = .ok rs)
    (huses : UsesAs (st.syn.define m rs) ds sts) :
    runForms fuel st (.pair (.sym "define-syntax" l₁) rest l :: ds) last =
        runStmts fuel { st with syn := st.syn.define m rs, importEnd := true,
                                store := st.store.define st.env m (.transformer rs) } sts none ∧
      runForms fuel st (.pair (.sym "define-syntax" l₁) rest l :: ds) last =
        runStmts fuel { st with syn := st.syn.define m rs } (.syntaxDef m rs l :: sts) last := by
  have h1 : runForms fuel st (.pair (.sym "define-syntax" l₁) rest l :: ds) last =
      runStmts fuel { st with syn := st.syn.define m rs, importEnd := true,
                              store := st.store.define st.env m (.transformer rs) } sts none := by
    rw [runForms, define_syntax_form fuel st hrest hr]
    exact runForms_usesAs fuel ds sts _ none huses
  refine ⟨h1, ?_⟩
  rw [h1, runStmts, evalAst_syntaxDef]

/-- **down to the reference semantics** (composition with `C17More`/`C01`): when the statements of
the expansions are top-level expressions and definitions, and the run of the program does not end
in the model's fuel error, its outcome is the one the REFERENCE run (`ProgramText.RefRuns`: each
statement given the outcome `Ref.evalTop` assigns to it, in order, an error ending the program) of
the EXPANDED statements has from the store in which the definition has bound `m` — same value, or
same error kind (`AgreeKind`) — and the final stores agree. The macro uses have been compiled away
entirely. -/
theorem user_macro_program_refines_reference {l₁ lm l : Loc} {rest spec : Datum} {more : List Datum}
    {m : String} {rs : Rules} (fuel : Nat) (st st' : State) (ds : List Datum) (sts : List Statement)
    (last : Option Value) (r : Except SErr (Option Value))
    (hrest : IsList rest (.sym m lm :: spec :: more)) (hr : toRules m spec = .ok rs)
    (huses : UsesAs (st.syn.define m rs) ds sts) (hcore : ∀ s ∈ sts, CoreShape s)
    (hrun : runForms fuel st (.pair (.sym "define-syntax" l₁) rest l :: ds) last = (r, st'))
    (hnf : Eval.NotFuel r) :
    ∃ r', RefRuns st.env (st.store.define st.env m (.transformer rs)).erase sts none r' st'.store.erase ∧
      AgreeKind r r' := by
  rw [(user_macro_program fuel st ds sts last hrest hr huses).1] at hrun
  exact runStmts_refines_ref fuel sts _ st' none r hcore hrun hnf

/-- the same for a program TEXT: if the reader finds the definition followed by the forms `ds`
(and reads the text to its end), `Interpreter::eval` on the text is that run -/
theorem user_macro_program_text {l₁ lm l : Loc} {rest spec : Datum} {more : List Datum} {m : String}
    {rs : Rules} (fuel : Nat) (st : State) (text : List Char) (ds : List Datum) (sts : List Statement)
    (hforms : formsOf text = (.pair (.sym "define-syntax" l₁) rest l :: ds, none))
    (hrest : IsList rest (.sym m lm :: spec :: more)) (hr : toRules m spec = .ok rs)
    (huses : UsesAs (st.syn.define m rs) ds sts) :
    evalText fuel st text =
      runStmts fuel { st with syn := st.syn.define m rs, importEnd := true,
                              store := st.store.define st.env m (.transformer rs) } sts none := by
  rw [evalText_eq_runText]
  unfold runText
  rw [hforms]
  simp only
  rw [(user_macro_program fuel st ds sts none hrest hr huses).1]
  generalize runStmts fuel _ sts none = y
  obtain ⟨r, st'⟩ := y
  cases r <;> rfl

/-- **uses replaced by their expansions**: two lists of forms that lead to the same statements — for
instance forms with macro uses, and the same forms with the uses replaced by their expansions, when
these are transformed into the same statements with their own fuel — are run alike -/
theorem uses_replaced_by_expansions (fuel : Nat) (st : State) (ds ds' : List Datum)
    (sts : List Statement) (last : Option Value)
    (h : UsesAs st.syn ds sts) (h' : UsesAs st.syn ds' sts) :
    runForms fuel st ds last = runForms fuel st ds' last := by
  rw [runForms_usesAs fuel ds sts st last h, runForms_usesAs fuel ds' sts st last h']

set_option maxRecDepth 100000 in
/-- the program `(define-syntax my-if …) (my-if #t then 1 else 2) (my-if #f then 1)` in an
interpreter whose own syntax scope is empty: the hypotheses of `user_macro_program` hold, with the
statements of `(if #t 1 2)` and `(if #f 1 #f)` -/
example : IsList (lst [sy "my-if", myIfSpec]) [.sym "my-if" none, myIfSpec] ∧
    toRules "my-if" myIfSpec = .ok myIfRules ∧
    UsesAs (SynEnv.define [[]] "my-if" myIfRules)
      [lst [sy "my-if", .prim (.bool true) none, sy "then", num 1, sy "else", num 2],
       lst [sy "my-if", .prim (.bool false) none, sy "then", num 1]]
      [.expr (.cond (.prim (.bool true) none) (.prim (.int 1) none) (some (.prim (.int 2) none)) none),
       .expr (.cond (.prim (.bool false) none) (.prim (.int 1) none) (some (.prim (.bool false) none)) none)] :=
  ⟨rfl, rfl,
   ⟨1, lst [sy "if", .prim (.bool true) none, num 1, num 2],
      .step (step_of_supported (by decide) rfl rfl rfl rfl) (.refl _), by unfold xformFuel; omega, rfl⟩,
   ⟨1, lst [sy "if", .prim (.bool false) none, num 1, .prim (.bool false) none],
      .step (step_of_supported (by decide) rfl rfl rfl rfl) (.refl _), by unfold xformFuel; omega, rfl⟩, trivial⟩

/-- the statements of the two expansions are top-level expressions (`CoreShape`) -/
example : ∀ s ∈ [Statement.expr (.cond (.prim (.bool true) none) (.prim (.int 1) none) (some (.prim (.int 2) none)) none),
    .expr (.cond (.prim (.bool false) none) (.prim (.int 1) none) (some (.prim (.bool false) none)) none)],
    CoreShape s := by
  intro s hs
  simp only [List.mem_cons, List.not_mem_nil, or_false] at hs
  rcases hs with rfl | rfl <;> trivial

set_option maxRecDepth 100000 in
/-- … and the two replaced-by-expansion forms lead to the same statements (no step) -/
example : UsesAs (SynEnv.define [[]] "my-if" myIfRules)
      [lst [sy "if", .prim (.bool true) none, num 1, num 2]]
      [.expr (.cond (.prim (.bool true) none) (.prim (.int 1) none) (some (.prim (.int 2) none)) none)] :=
  ⟨⟨0, _, .refl _, Nat.zero_le _, rfl⟩, trivial⟩

/-- a program that defines `loop` and uses it: the definition is recorded, the use runs out of the
transformer's fuel, nothing of the use is evaluated -/
theorem loop_program_runs_out_of_fuel (fuel : Nat) (st : State) (last : Option Value) :
    runForms fuel st [loopDef, lst [sy "loop"]] last =
      (.error (.fuel, none),
        { st with syn := st.syn.define "loop" loopRules, importEnd := true,
                  store := st.store.define st.env "loop" (.transformer loopRules) }) := by
  have hdef : evalForm fuel st loopDef =
      (.ok none, { st with syn := st.syn.define "loop" loopRules, importEnd := true,
                           store := st.store.define st.env "loop" (.transformer loopRules) }) :=
    define_syntax_form (l₁ := none) (lm := none) (l := none) (more := [])
      (rest := lst [sy "loop", loopSpec]) (m := "loop") (spec := loopSpec) (rs := loopRules) fuel st rfl rfl
  have huse : ∀ st' : State, st'.syn = st.syn.define "loop" loopRules →
      evalForm fuel st' (lst [sy "loop"]) = (.error (.fuel, none), st') := fun st' h =>
    evalForm_error (loop_runs_out_of_fuel (env := st'.syn) (h ▸ get_define_self _ _ _) none none none _)
  simp only [runForms, hdef]
  rw [huse _ rfl]

end Ruschm.C04Program

/-
Helper lemmas about the model lexer (`RuschmModel/Lex.lean`): what each scanner consumes, where it
stops, and that it always makes progress. Used by `C06.lean` and `C18Bracket.lean`.
-/
import RuschmSpec.Text
namespace Ruschm.Text
open Ruschm Ruschm.Lex

/-! ## cursor -/

@[simp] theorem advs_nil (p : Pos) : advs [] p = p := rfl
@[simp] theorem advs_cons (c : Char) (cs : List Char) (p : Pos) :
    advs (c :: cs) p = advs cs (adv c p) := rfl
theorem advs_append (a b : List Char) (p : Pos) : advs (a ++ b) p = advs b (advs a p) := by
  simp [advs, List.foldl_append]

/-! ## the `Except` monad -/

theorem bind_ok {ε α β} {x : Except ε α} {f : α → Except ε β} {r : β} :
    (x >>= f) = .ok r ↔ ∃ a, x = .ok a ∧ f a = .ok r := by
  cases x <;> simp [bind, Except.bind]

theorem map_ok_some {ε α} {x : Except ε α} {r : α} :
    (x.map some) = .ok (some r) ↔ x = .ok r := by
  cases x <;> simp [Except.map]

theorem map_ok_none {ε α} {x : Except ε α} : (x.map some) = .ok none ↔ False := by
  cases x <;> simp [Except.map]

theorem endOfToken_eq (cs : List Char) (p : Pos) :
    endOfToken cs p = if startsDelim cs then .ok () else .error p := by
  cases cs <;> rfl

theorem endOfToken_ok {cs : List Char} {p : Pos} {u : Unit} :
    endOfToken cs p = .ok u ↔ startsDelim cs = true := by
  rw [endOfToken_eq]; split <;> simp_all

theorem testDelimiter_ok {c : Char} {p : Pos} {u : Unit} :
    testDelimiter p c = .ok u ↔ isDelimiter c = true := by
  unfold testDelimiter; split <;> simp_all

theorem endOfSharpToken_ok {cs : List Char} {p : Pos} {u : Unit} :
    endOfSharpToken cs p = .ok u ↔ (startsDelim cs = true ∨ startsSharp cs = true) := by
  unfold endOfSharpToken
  split
  · simp [startsSharp]
  · rename_i h
    rw [endOfToken_ok]
    have : startsSharp cs = false := by
      unfold startsSharp; split
      · rename_i c r; exact absurd rfl (h r)
      · rfl
    simp [this]

/-! ## character classes -/

/-- characters the bracket counter does not react to -/
def isPlain (c : Char) : Bool :=
  !(c = '(' || c = ')' || c = ';' || c = '"' || c = '|' || c = '#')

/-- the characters that are special for the lexer or the bracket counter -/
def specials : List Char := ['(', ')', ';', '"', '|', '#', ' ', '\t', '\n', '\r']

theorem isPlain_of_not_mem {c : Char} (h : c ∉ specials) : isPlain c = true := by
  simp only [specials, List.mem_cons, List.not_mem_nil, or_false, not_or] at h
  simp [isPlain, h]

theorem isDelimiter_of_not_mem {c : Char} (h : c ∉ specials) : isDelimiter c = false := by
  simp only [specials, List.mem_cons, List.not_mem_nil, or_false, not_or] at h
  simp [isDelimiter, isWs, h]

/-- a character class that contains no special character -/
theorem not_mem_specials_of_class (P : Char → Bool) (hP : specials.all (fun c => !P c) = true)
    {c : Char} (h : P c = true) : c ∉ specials := by
  intro hc
  have := List.all_eq_true.mp hP c hc
  simp [h] at this

theorem isDigit_ns {c : Char} (h : isDigit c = true) : c ∉ specials :=
  not_mem_specials_of_class isDigit (by decide) h
theorem isSubsequent_ns {c : Char} (h : isSubsequent c = true) : c ∉ specials :=
  not_mem_specials_of_class isSubsequent (by decide) h
theorem isAsciiAlnum_ns {c : Char} (h : isAsciiAlnum c = true) : c ∉ specials :=
  not_mem_specials_of_class isAsciiAlnum (by decide) h

/-! ## `takeRun` -/

theorem takeRun_spec (f : Char → Bool) (cs : List Char) (p : Pos) (acc : List Char) :
    takeRun f cs p acc
      = (acc.reverse ++ cs.takeWhile f, cs.dropWhile f, advs (cs.takeWhile f) p) := by
  induction cs generalizing p acc with
  | nil => simp [takeRun]
  | cons c cs ih =>
    unfold takeRun
    split <;> simp [*, List.takeWhile, List.dropWhile]

/-- the text does not start with a character of class `f` -/
def stopsAt (f : Char → Bool) : List Char → Bool
  | [] => true
  | c :: _ => !f c

theorem takeRun_append (f : Char → Bool) (run rest : List Char) (p : Pos) (acc : List Char)
    (hr : ∀ c ∈ run, f c = true) (hs : stopsAt f rest = true) :
    takeRun f (run ++ rest) p acc = (acc.reverse ++ run, rest, advs run p) := by
  induction run generalizing p acc with
  | nil =>
    cases rest with
    | nil => simp [takeRun]
    | cons c r => simp [stopsAt] at hs; simp [takeRun, hs]
  | cons c run ih =>
    have hc : f c = true := hr c (by simp)
    simp only [List.cons_append, takeRun, hc, if_true]
    rw [ih _ _ (fun c h => hr c (by simp [h]))]
    simp

theorem takeRun_ex (f : Char → Bool) (cs : List Char) (p : Pos) :
    ∃ run rest, cs = run ++ rest ∧ (∀ c ∈ run, f c = true) ∧ stopsAt f rest = true ∧
      takeRun f cs p [] = (run, rest, advs run p) := by
  suffices h : ∀ acc, ∃ run rest, cs = run ++ rest ∧ (∀ c ∈ run, f c = true) ∧
      stopsAt f rest = true ∧ takeRun f cs p acc = (acc.reverse ++ run, rest, advs run p) by
    simpa using h []
  induction cs generalizing p with
  | nil => intro acc; exact ⟨[], [], rfl, by simp, rfl, by simp [takeRun]⟩
  | cons c cs ih =>
    intro acc
    by_cases h : f c = true
    · obtain ⟨run, rest, h1, h2, h3, h4⟩ := ih (adv c p) (c :: acc)
      refine ⟨c :: run, rest, by simp [h1], ?_, h3, ?_⟩
      · intro x hx
        rcases List.mem_cons.mp hx with rfl | hx
        · exact h
        · exact h2 x hx
      · simp [takeRun, h, h4]
    · exact ⟨[], c :: cs, rfl, by simp, by simp [stopsAt, h], by simp [takeRun, h]⟩

theorem skipAtmosphere_atmos (b : Bool) (a rest : List Char) (p : Pos)
    (h : isAtmos b a = true) (hr : startsTok rest = true) :
    skipAtmosphere b (a ++ rest) p = (rest, advs a p) := by
  induction a generalizing b p with
  | nil =>
    cases b
    · cases rest with
      | nil => simp [skipAtmosphere]
      | cons c r =>
        simp [startsTok] at hr
        simp [skipAtmosphere, hr]
    · simp [isAtmos] at h
  | cons c a ih =>
    cases b
    · simp only [isAtmos] at h
      simp only [List.cons_append, skipAtmosphere, advs_cons]
      split
      · rename_i hw; simp only [hw, if_true] at h; exact ih _ _ h
      · rename_i hw
        simp only [hw] at h
        split
        · rename_i hc; simp only [hc, if_true] at h; exact ih _ _ h
        · rename_i hc; simp [hc] at h
    · simp only [isAtmos] at h
      simp only [List.cons_append, advs_cons]
      rw [skipAtmosphere]
      split
      · rename_i hn
        simp only [hn, if_true] at h
        have hw : isWs c = true := by
          simp only [Bool.or_eq_true, decide_eq_true_eq] at hn
          rcases hn with rfl | rfl <;> decide
        rw [skipAtmosphere]; simp only [hw, if_true]
        exact ih _ _ h
      · rename_i hn
        simp only [hn] at h
        exact ih _ _ h

theorem skipAtmosphere_inv (b : Bool) (cs : List Char) (p : Pos) :
    ∃ a, cs = a ++ (skipAtmosphere b cs p).1 ∧ (skipAtmosphere b cs p).2 = advs a p ∧
      startsTok (skipAtmosphere b cs p).1 = true ∧ isTrail b a = true ∧
      ((skipAtmosphere b cs p).1 ≠ [] → isAtmos b a = true) := by
  fun_induction skipAtmosphere b cs p with
  | case1 b p => exact ⟨[], by simp, by simp, rfl, by simp [isTrail], by simp⟩
  | case2 c cs p hw ih =>
    obtain ⟨a, h1, h2, h3, h4, h5⟩ := ih
    refine ⟨c :: a, by simp; exact h1, by simpa using h2, h3, by simp [isTrail, hw, h4], ?_⟩
    intro h; simp [isAtmos, hw, h5 h]
  | case3 cs p hw ih =>
    obtain ⟨a, h1, h2, h3, h4, h5⟩ := ih
    refine ⟨';' :: a, by simp; exact h1, by simpa using h2, h3, by simp [isTrail, hw, h4], ?_⟩
    intro h; simp [isAtmos, hw, h5 h]
  | case4 c cs p hw hc =>
    refine ⟨[], by simp, by simp, ?_, by simp [isTrail], by simp [isAtmos]⟩
    simp [startsTok, hw, hc]
  | case5 c cs p hn ih =>
    obtain ⟨a, h1, h2, h3, h4, h5⟩ := ih
    have hw : isWs c = true := by
      simp only [Bool.or_eq_true, decide_eq_true_eq] at hn
      rcases hn with rfl | rfl <;> decide
    cases a with
    | nil =>
      simp only [List.nil_append] at h1
      rw [← h1] at h3
      simp [startsTok, hw] at h3
    | cons c' a =>
      simp only [List.cons_append, List.cons.injEq] at h1
      obtain ⟨rfl, h1⟩ := h1
      refine ⟨c :: a, by simp; exact h1, h2, h3, ?_, ?_⟩
      · simpa [isTrail, hw, hn] using h4
      · intro h; simpa [isAtmos, hw, hn] using h5 h
  | case6 c cs p hn ih =>
    obtain ⟨a, h1, h2, h3, h4, h5⟩ := ih
    refine ⟨c :: a, by simp; exact h1, by simpa using h2, h3, by simp [isTrail, hn, h4], ?_⟩
    intro h; simp [isAtmos, hn, h5 h]

/-! ## what the scanners consume -/

/-- a scanner started on `cs` at `p` consumed `used`, leaving `rest` at `p'` -/
structure Used (cs : List Char) (p : Pos) (rest : List Char) (p' : Pos) (used : List Char) :
    Prop where
  split : cs = used ++ rest
  pos : p' = advs used p

theorem Used.nil (cs : List Char) (p : Pos) : Used cs p cs p [] := ⟨rfl, rfl⟩

theorem Used.cons {cs p rest p' used} (c : Char) (h : Used cs (adv c p) rest p' used) :
    Used (c :: cs) p rest p' (c :: used) := ⟨by simp [h.split], by simp [h.pos]⟩

theorem Used.append {cs p mid pm rest p' u1 u2} (h1 : Used cs p mid pm u1)
    (h2 : Used mid pm rest p' u2) : Used cs p rest p' (u1 ++ u2) :=
  ⟨by simp [h1.split, h2.split], by simp [h2.pos, h1.pos, advs_append]⟩

theorem Used.length_le {cs p rest p' used} (h : Used cs p rest p' used) :
    rest.length + used.length = cs.length := by
  simp [h.split]; omega

/-- all characters are outside `specials` -/
def NoSpecial (l : List Char) : Prop := ∀ c ∈ l, c ∉ specials

theorem NoSpecial.nil : NoSpecial [] := by simp [NoSpecial]
theorem NoSpecial.cons {c l} (h : c ∉ specials) (hl : NoSpecial l) : NoSpecial (c :: l) := by
  intro x hx; rcases List.mem_cons.mp hx with rfl | hx
  · exact h
  · exact hl x hx
theorem NoSpecial.append {a b} (ha : NoSpecial a) (hb : NoSpecial b) : NoSpecial (a ++ b) := by
  intro x hx; rcases List.mem_append.mp hx with hx | hx
  · exact ha x hx
  · exact hb x hx

theorem integerToken_inv {lit cs p t rest p'} (h : integerToken lit cs p = .ok (t, rest, p')) :
    rest = cs ∧ p' = p ∧ Syn.isAtomTok t = true := by
  unfold integerToken at h
  split at h
  · cases h; simp [Syn.isAtomTok]
  · cases h

theorem realToken_inv {lit cs p t rest p'} (h : realToken lit cs p = .ok (t, rest, p')) :
    rest = cs ∧ p' = p ∧ Syn.isAtomTok t = true := by
  unfold realToken at h
  split at h
  · cases h; simp [Syn.isAtomTok]
  · cases h

theorem numberSuffix_inv (lit cs1 : List Char) (p : Pos) :
    ∃ used lit' cs', numberSuffix lit ('e' :: cs1) p = (lit', cs', advs used p) ∧
      Used ('e' :: cs1) p cs' (advs used p) used ∧ NoSpecial used := by
  have he : 'e' ∉ specials := by decide
  cases cs1 with
  | nil =>
    refine ⟨['e'], lit ++ ['e'], [], ?_, ⟨rfl, rfl⟩, NoSpecial.cons he NoSpecial.nil⟩
    simp [numberSuffix, takeRun]
  | cons s cs2 =>
    by_cases hs : (s = '+' || s = '-') = true
    · obtain ⟨ds, r, h1, h2, h3, h4⟩ := takeRun_ex isDigit cs2 (adv s (adv 'e' p))
      refine ⟨'e' :: s :: ds, lit ++ ['e'] ++ [s] ++ ds, r, ?_, ⟨by simp [h1], rfl⟩, ?_⟩
      · simp only [numberSuffix, hs, if_true, h4]; rfl
      · refine NoSpecial.cons he (NoSpecial.cons ?_ (fun c hc => isDigit_ns (h2 c hc)))
        simp only [Bool.or_eq_true, decide_eq_true_eq] at hs
        rcases hs with rfl | rfl <;> decide
    · obtain ⟨ds, r, h1, h2, h3, h4⟩ := takeRun_ex isDigit (s :: cs2) (adv 'e' p)
      refine ⟨'e' :: ds, lit ++ ['e'] ++ ds, r, ?_, ⟨by simp [h1], rfl⟩, ?_⟩
      · simp [numberSuffix, hs, h4]
      · exact NoSpecial.cons he (fun c hc => isDigit_ns (h2 c hc))

theorem dot_ns : '.' ∉ specials := by decide

theorem real_inv {lit cs1 p lit' cs' p'} (h : real lit ('.' :: cs1) p = .ok (lit', cs', p')) :
    ∃ used, Used ('.' :: cs1) p cs' p' used ∧ NoSpecial used ∧ startsDelim cs' = true := by
  unfold real at h
  cases cs1 with
  | nil =>
    simp only [Except.ok.injEq, Prod.mk.injEq] at h
    obtain ⟨-, rfl, rfl⟩ := h
    exact ⟨['.'], ⟨rfl, rfl⟩, NoSpecial.cons dot_ns NoSpecial.nil, rfl⟩
  | cons nc r =>
    simp only at h
    split at h
    · rename_i hnc
      subst hnc
      obtain ⟨used, l2, c2, h1, h2, h3⟩ := numberSuffix_inv (lit ++ ['.']) r (adv '.' p)
      rw [h1] at h
      simp only [bind_ok, endOfToken_ok] at h
      obtain ⟨_, hd, h⟩ := h
      simp only [pure, Except.pure, Except.ok.injEq, Prod.mk.injEq] at h
      obtain ⟨-, rfl, rfl⟩ := h
      exact ⟨'.' :: used, h2.cons '.', NoSpecial.cons dot_ns h3, hd⟩
    · split at h
      · obtain ⟨ds, r2, h1, h2, h3, h4⟩ := takeRun_ex isDigit (nc :: r) (adv '.' p)
        rw [h4] at h
        simp only at h
        have hu : Used ('.' :: nc :: r) p r2 (advs ds (adv '.' p)) ('.' :: ds) :=
          ⟨by simp [h1], rfl⟩
        have hn : NoSpecial ('.' :: ds) :=
          NoSpecial.cons dot_ns (fun c hc => isDigit_ns (h2 c hc))
        cases r2 with
        | nil =>
          simp only [Except.ok.injEq, Prod.mk.injEq] at h
          obtain ⟨-, rfl, rfl⟩ := h
          exact ⟨_, hu, hn, rfl⟩
        | cons nnc r3 =>
          simp only at h
          split at h
          · rename_i hnnc
            subst hnnc
            obtain ⟨used, l2, c2, g1, g2, g3⟩ :=
              numberSuffix_inv (lit ++ ['.'] ++ ds) r3 (advs ds (adv '.' p))
            rw [g1] at h
            simp only [bind_ok, endOfToken_ok] at h
            obtain ⟨_, hd, h⟩ := h
            simp only [pure, Except.pure, Except.ok.injEq, Prod.mk.injEq] at h
            obtain ⟨-, rfl, rfl⟩ := h
            exact ⟨_, hu.append g2, hn.append g3, hd⟩
          · simp only [bind_ok, testDelimiter_ok] at h
            obtain ⟨_, hd, h⟩ := h
            simp only [pure, Except.pure, Except.ok.injEq, Prod.mk.injEq] at h
            obtain ⟨-, rfl, rfl⟩ := h
            exact ⟨_, hu, hn, hd⟩
      · simp only [bind_ok, testDelimiter_ok] at h
        obtain ⟨_, hd, h⟩ := h
        simp only [pure, Except.pure, Except.ok.injEq, Prod.mk.injEq] at h
        obtain ⟨-, rfl, rfl⟩ := h
        exact ⟨['.'], ⟨rfl, rfl⟩, NoSpecial.cons dot_ns NoSpecial.nil, hd⟩

theorem number_inv {first cs p t rest p'} (h : number first cs p = .ok (t, rest, p')) :
    ∃ used, Used cs p rest p' used ∧ NoSpecial used ∧ startsDelim rest = true ∧
      Syn.isAtomTok t = true := by
  unfold number at h
  obtain ⟨ds, cs1, h1, h2, h3, h4⟩ := takeRun_ex isDigit cs p
  rw [h4] at h
  simp only at h
  have hu : Used cs p cs1 (advs ds p) ds := ⟨h1, rfl⟩
  have hn : NoSpecial ds := fun c hc => isDigit_ns (h2 c hc)
  cases cs1 with
  | nil =>
    simp only at h
    obtain ⟨rfl, rfl, ht⟩ := integerToken_inv h
    exact ⟨_, hu, hn, rfl, ht⟩
  | cons nc r =>
    simp only at h
    split at h
    · rename_i hnc
      subst hnc
      obtain ⟨used, l2, c2, g1, g2, g3⟩ := numberSuffix_inv (first :: ds) r (advs ds p)
      rw [g1] at h
      simp only [bind_ok, endOfToken_ok] at h
      obtain ⟨_, hd, h⟩ := h
      obtain ⟨rfl, rfl, ht⟩ := realToken_inv h
      exact ⟨_, hu.append g2, hn.append g3, hd, ht⟩
    · split at h
      · rename_i hnc
        subst hnc
        simp only [bind_ok] at h
        obtain ⟨⟨l2, c2, p2⟩, hr, h⟩ := h
        obtain ⟨used, g2, g3, hd⟩ := real_inv hr
        obtain ⟨rfl, rfl, ht⟩ := realToken_inv h
        exact ⟨_, hu.append g2, hn.append g3, hd, ht⟩
      · split at h
        · rename_i hnc
          subst hnc
          obtain ⟨den, r3, k1, k2, k3, k4⟩ := takeRun_ex isDigit r (adv '/' (advs ds p))
          rw [k4] at h
          simp only [bind_ok, endOfToken_ok] at h
          obtain ⟨_, hd, h⟩ := h
          have hu2 : Used ('/' :: r) (advs ds p) r3 (advs den (adv '/' (advs ds p))) ('/' :: den) :=
            ⟨by simp [k1], rfl⟩
          have hn2 : NoSpecial ('/' :: den) :=
            NoSpecial.cons (by decide) (fun c hc => isDigit_ns (k2 c hc))
          split at h
          · cases h
          · simp only [pure, Except.pure, Except.ok.injEq, Prod.mk.injEq] at h
            obtain ⟨rfl, rfl, rfl⟩ := h
            exact ⟨_, hu.append hu2, hn.append hn2, hd, rfl⟩
          · cases h
        · simp only [bind_ok, testDelimiter_ok] at h
          obtain ⟨_, hd, h⟩ := h
          obtain ⟨rfl, rfl, ht⟩ := integerToken_inv h
          exact ⟨_, hu, hn, hd, ht⟩

theorem normalIdentifier_inv {first cs p t rest p'}
    (h : normalIdentifier first cs p = .ok (t, rest, p')) :
    ∃ used, Used cs p rest p' used ∧ NoSpecial used ∧ startsDelim rest = true ∧
      (∀ c ∈ used, isSubsequent c = true) ∧ t = .ident (String.ofList (first :: used)) := by
  unfold normalIdentifier at h
  obtain ⟨run, cs1, h1, h2, h3, h4⟩ := takeRun_ex isSubsequent cs p
  rw [h4] at h
  simp only at h
  have hu : Used cs p cs1 (advs run p) run := ⟨h1, rfl⟩
  have hn : NoSpecial run := fun c hc => isSubsequent_ns (h2 c hc)
  cases cs1 with
  | nil =>
    simp only [Except.ok.injEq, Prod.mk.injEq] at h
    obtain ⟨rfl, rfl, rfl⟩ := h
    exact ⟨_, hu, hn, rfl, h2, rfl⟩
  | cons nc r =>
    simp only [bind_ok, testDelimiter_ok] at h
    obtain ⟨_, hd, h⟩ := h
    simp only [pure, Except.pure, Except.ok.injEq, Prod.mk.injEq] at h
    obtain ⟨rfl, rfl, rfl⟩ := h
    exact ⟨_, hu, hn, hd, h2, rfl⟩

theorem dotSubsequent_inv {acc cs p s rest p'}
    (h : dotSubsequent acc cs p = .ok (s, rest, p')) :
    ∃ used, Used cs p rest p' used ∧ NoSpecial used ∧ startsDelim rest = true ∧
      (∀ c ∈ used, isSubsequent c = true) ∧ s = acc ++ used := by
  unfold dotSubsequent at h
  cases cs with
  | nil =>
    simp only [Except.ok.injEq, Prod.mk.injEq] at h
    obtain ⟨rfl, rfl, rfl⟩ := h
    exact ⟨[], Used.nil _ _, NoSpecial.nil, rfl, by simp, by simp⟩
  | cons c r =>
    simp only at h
    split at h
    · obtain ⟨run, cs1, h1, h2, h3, h4⟩ := takeRun_ex isSubsequent (c :: r) p
      rw [h4] at h
      simp only at h
      have hu : Used (c :: r) p cs1 (advs run p) run := ⟨h1, rfl⟩
      have hn : NoSpecial run := fun c hc => isSubsequent_ns (h2 c hc)
      cases cs1 with
      | nil =>
        simp only [Except.ok.injEq, Prod.mk.injEq] at h
        obtain ⟨rfl, rfl, rfl⟩ := h
        exact ⟨_, hu, hn, rfl, h2, rfl⟩
      | cons nc r =>
        simp only [bind_ok, testDelimiter_ok] at h
        obtain ⟨_, hd, h⟩ := h
        simp only [pure, Except.pure, Except.ok.injEq, Prod.mk.injEq] at h
        obtain ⟨rfl, rfl, rfl⟩ := h
        exact ⟨_, hu, hn, hd, h2, rfl⟩
    · simp only [bind_ok, testDelimiter_ok] at h
      obtain ⟨_, hd, h⟩ := h
      simp only [pure, Except.pure, Except.ok.injEq, Prod.mk.injEq] at h
      obtain ⟨rfl, rfl, rfl⟩ := h
      exact ⟨[], Used.nil _ _, NoSpecial.nil, hd, by simp, by simp⟩

theorem peculiarIdentifier_inv {first cs p t rest p'}
    (h : peculiarIdentifier first cs p = .ok (t, rest, p')) :
    ∃ used, Used cs p rest p' used ∧ NoSpecial used ∧ startsDelim rest = true ∧
      (∀ c ∈ used, isSubsequent c = true) ∧ t = .ident (String.ofList (first :: used)) := by
  unfold peculiarIdentifier at h
  split at h
  · cases cs with
    | nil =>
      simp only [Except.ok.injEq, Prod.mk.injEq] at h
      obtain ⟨rfl, rfl, rfl⟩ := h
      exact ⟨[], Used.nil _ _, NoSpecial.nil, rfl, by simp, rfl⟩
    | cons c r =>
      simp only at h
      split at h
      · rename_i hc
        subst hc
        simp only [bind_ok] at h
        obtain ⟨⟨s, c2, p2⟩, hd, h⟩ := h
        obtain ⟨used, g1, g2, g3, g4, rfl⟩ := dotSubsequent_inv hd
        simp only [pure, Except.pure, Except.ok.injEq, Prod.mk.injEq] at h
        obtain ⟨rfl, rfl, rfl⟩ := h
        refine ⟨'.' :: used, g1.cons '.', NoSpecial.cons dot_ns g2, g3, ?_, rfl⟩
        intro x hx
        rcases List.mem_cons.mp hx with rfl | hx
        · decide
        · exact g4 x hx
      · simp only [bind_ok] at h
        obtain ⟨⟨s, c2, p2⟩, hd, h⟩ := h
        obtain ⟨used, g1, g2, g3, g4, rfl⟩ := dotSubsequent_inv hd
        simp only [pure, Except.pure, Except.ok.injEq, Prod.mk.injEq] at h
        obtain ⟨rfl, rfl, rfl⟩ := h
        exact ⟨used, g1, g2, g3, g4, rfl⟩
  · simp only [bind_ok] at h
    obtain ⟨⟨s, c2, p2⟩, hd, h⟩ := h
    obtain ⟨used, g1, g2, g3, g4, rfl⟩ := dotSubsequent_inv hd
    simp only [pure, Except.pure, Except.ok.injEq, Prod.mk.injEq] at h
    obtain ⟨rfl, rfl, rfl⟩ := h
    exact ⟨used, g1, g2, g3, g4, rfl⟩

theorem quotedIdentifier_inv {cs p acc t rest p'}
    (h : quotedIdentifier cs p acc = .ok (t, rest, p')) :
    ∃ body, Used cs p rest p' (body ++ ['|']) ∧ '|' ∉ body ∧
      t = .ident (String.ofList (acc.reverse ++ body)) := by
  induction cs generalizing p acc with
  | nil => simp [quotedIdentifier] at h
  | cons c cs ih =>
    unfold quotedIdentifier at h
    split at h
    · rename_i hc
      subst hc
      simp only [Except.ok.injEq, Prod.mk.injEq] at h
      obtain ⟨rfl, rfl, rfl⟩ := h
      exact ⟨[], ⟨rfl, rfl⟩, by simp, by simp⟩
    · rename_i hc
      obtain ⟨body, g1, g2, g3⟩ := ih h
      refine ⟨c :: body, g1.cons c, ?_, by simp [g3]⟩
      simp only [List.mem_cons, not_or]
      exact ⟨fun e => hc e.symm, g2⟩

theorem character_inv {first cs p t rest p'} (h : character first cs p = .ok (t, rest, p')) :
    ∃ used, Used cs p rest p' used ∧ NoSpecial used ∧
      (startsDelim rest = true ∨ startsSharp rest = true) ∧ sharpTok t = true := by
  unfold character at h
  obtain ⟨run, cs1, h1, h2, h3, h4⟩ := takeRun_ex isAsciiAlnum cs p
  rw [h4] at h
  simp only [bind_ok, endOfSharpToken_ok] at h
  obtain ⟨_, hd, h⟩ := h
  have hu : Used cs p cs1 (advs run p) run := ⟨h1, rfl⟩
  have hn : NoSpecial run := fun c hc => isAsciiAlnum_ns (h2 c hc)
  split at h
  · simp only [pure, Except.pure, Except.ok.injEq, Prod.mk.injEq] at h
    obtain ⟨rfl, rfl, rfl⟩ := h
    exact ⟨_, hu, hn, hd, rfl⟩
  · split at h
    · simp only [pure, Except.pure, Except.ok.injEq, Prod.mk.injEq] at h
      obtain ⟨rfl, rfl, rfl⟩ := h
      exact ⟨_, hu, hn, hd, rfl⟩
    · split at h
      · split at h
        · split at h
          · cases h
          · simp only [pure, Except.pure, Except.ok.injEq, Prod.mk.injEq] at h
            obtain ⟨rfl, rfl, rfl⟩ := h
            exact ⟨_, hu, hn, hd, rfl⟩
        · cases h
      · cases h

/-- the characters of a string literal after the opening quote, up to and including the closing
quote: a backslash always hides the next character -/
inductive StrBody : List Char → Prop
  | close : StrBody ['"']
  | esc (c : Char) (r : List Char) : StrBody r → StrBody ('\\' :: c :: r)
  | lit (c : Char) (r : List Char) : c ≠ '"' → c ≠ '\\' → StrBody r → StrBody (c :: r)

theorem StrBody.lits {l r : List Char} (hl : ∀ c ∈ l, c ≠ '"' ∧ c ≠ '\\') (hr : StrBody r) :
    StrBody (l ++ r) := by
  induction l with
  | nil => exact hr
  | cons c l ih =>
    exact StrBody.lit c _ (hl c (by simp)).1 (hl c (by simp)).2
      (ih (fun x hx => hl x (by simp [hx])))

theorem hexEscape_inv {cs p acc hex rest p'} (h : hexEscape cs p acc = .ok (hex, rest, p')) :
    ∃ body, Used cs p rest p' (body ++ [';']) ∧ hex = acc.reverse ++ body := by
  induction cs generalizing p acc with
  | nil => simp [hexEscape] at h
  | cons c cs ih =>
    unfold hexEscape at h
    split at h
    · rename_i hc
      subst hc
      simp only [Except.ok.injEq, Prod.mk.injEq] at h
      obtain ⟨rfl, rfl, rfl⟩ := h
      exact ⟨[], ⟨rfl, rfl⟩, by simp⟩
    · obtain ⟨body, g1, g3⟩ := ih h
      exact ⟨c :: body, g1.cons c, by simp [g3]⟩

theorem hexVal_some_aux (ds : List Char) (a : Option Nat) (n : Nat)
    (h : ds.foldl (fun acc c => match acc, Proto.hexDigit? c with
      | some a, some d => some (a * 16 + d)
      | _, _ => none) a = some n) : ∀ c ∈ ds, (Proto.hexDigit? c).isSome = true := by
  induction ds generalizing a with
  | nil => simp
  | cons d ds ih =>
    simp only [List.foldl_cons] at h
    intro c hc
    rcases List.mem_cons.mp hc with rfl | hc
    · cases hd : Proto.hexDigit? c with
      | some _ => rfl
      | none =>
        rw [hd] at h
        have : ∀ (l : List Char), l.foldl (fun acc c => match acc, Proto.hexDigit? c with
            | some a, some d => some (a * 16 + d)
            | _, _ => none) none = none := by
          intro l; induction l with
          | nil => rfl
          | cons x l ih => simpa using ih
        have h' : (match a, (none : Option Nat) with
            | some a, some d => some (a * 16 + d)
            | _, _ => none) = none := by cases a <;> rfl
        rw [h', this] at h
        cases h
    · exact ih _ h c hc

theorem hexScalar_chars {hex : List Char} {ch : Char} (h : hexScalar? hex = some ch) :
    ∀ c ∈ hex, c ≠ '"' ∧ c ≠ '\\' := by
  have key : ∀ c, (c = '+' ∨ (Proto.hexDigit? c).isSome = true) → c ≠ '"' ∧ c ≠ '\\' := by
    intro c hc
    constructor <;> (rintro rfl; revert hc; decide)
  have body : ∀ ds : List Char, (if ds.isEmpty then none else
      match Proto.hexVal ds with
      | none => none
      | some n =>
        if n ≤ 4294967295 ∧ (n < 0xD800 ∨ (0xDFFF < n ∧ n ≤ 0x10FFFF)) then some (Char.ofNat n)
        else none) = some ch → ∀ c ∈ ds, (Proto.hexDigit? c).isSome = true := by
    intro ds hds
    split at hds
    · cases hds
    · split at hds
      · cases hds
      · rename_i n hv
        exact hexVal_some_aux _ _ _ hv
  intro c hc
  apply key
  cases hex with
  | nil => simp at hc
  | cons x r =>
    by_cases hx : x = '+'
    · subst hx
      have := body r h
      rcases List.mem_cons.mp hc with rfl | hc
      · exact Or.inl rfl
      · exact Or.inr (this c hc)
    · have e : hexScalar? (x :: r) = (if (x :: r).isEmpty then none else
          match Proto.hexVal (x :: r) with
          | none => none
          | some n =>
            if n ≤ 4294967295 ∧ (n < 0xD800 ∨ (0xDFFF < n ∧ n ≤ 0x10FFFF)) then
              some (Char.ofNat n)
            else none) := by
        unfold hexScalar?
        split
        · rename_i heq; simp at heq; exact absurd heq.1 hx
        · rfl
      rw [e] at h
      exact Or.inr (body _ h c hc)

theorem string_inv {cs p acc t rest p'} (h : Lex.string cs p acc = .ok (t, rest, p')) :
    ∃ used, Used cs p rest p' used ∧ StrBody used ∧ ∃ s, t = .prim (.str s) := by
  revert h
  fun_induction Lex.string cs p acc with
  | case1 => intro h; cases h
  | case2 cs p acc =>
    intro h
    simp only [Except.ok.injEq, Prod.mk.injEq] at h
    obtain ⟨rfl, rfl, rfl⟩ := h
    exact ⟨['"'], ⟨rfl, rfl⟩, StrBody.close, _, rfl⟩
  | case3 => intro h; cases h
  | case4 p acc tail p1 _ p2 ih =>
    intro h
    obtain ⟨used, g1, g2, g3⟩ := ih h
    exact ⟨_, (g1.cons _).cons _, StrBody.esc _ _ g2, g3⟩
  | case14 p acc tail hex cs2 p3 ch hsc p1 _ _ _ _ _ _ _ _ _ _ p2 hhex ih =>
    intro h
    obtain ⟨used, g1, g2, g3⟩ := ih h
    obtain ⟨body, k1, k2⟩ := hexEscape_inv hhex
    simp only [List.reverse_nil, List.nil_append] at k2
    subst k2
    refine ⟨_, ((k1.append g1).cons _).cons _, StrBody.esc _ _ (StrBody.lits ?_ g2), g3⟩
    intro c hc
    rcases List.mem_append.mp hc with hc | hc
    · exact hexScalar_chars hsc c hc
    · simp only [List.mem_singleton] at hc; subst hc; decide
  | case17 c cs p acc p1 h1 h2 ih =>
    intro h
    obtain ⟨used, g1, g2, g3⟩ := ih h
    exact ⟨_, g1.cons _, StrBody.lit _ _ h1 h2 g2, g3⟩
  | _ =>
    first
    | (intro h; cases h; done)
    | (rename_i ih; intro h; obtain ⟨used, g1, g2, g3⟩ := ih h
       exact ⟨_, (g1.cons _).cons _, StrBody.esc _ _ g2, g3⟩)

/-- the possible outcomes of `Lex.token`: the token together with the characters it consumed;
`rest` is the text after the token, `startOK` says that the text started with a non-atmosphere
character (always the case when `token` is called from `next`) -/
inductive TokShape (startOK : Prop) (rest : List Char) : Token → List Char → Prop
  | lparen : TokShape startOK rest .lparen ['(']
  | rparen : TokShape startOK rest .rparen [')']
  | vecIntro : TokShape startOK rest .vecIntro ['#', '(']
  | byteVecIntro : TokShape startOK rest .byteVecIntro ['#', 'u', '8', '(']
  | quote : TokShape startOK rest .quote ['\'']
  | quasiquote : TokShape startOK rest .quasiquote ['`']
  | unquote : TokShape startOK rest .unquote [',']
  | unquoteSplicing : TokShape startOK rest .unquoteSplicing [',', '@']
  | word (t : Token) (used : List Char) : used ≠ [] → (t = .period ∨ Syn.isAtomTok t = true) →
      (startOK → NoSpecial used) → startsDelim rest = true → TokShape startOK rest t used
  | bool (b : Bool) (x : Char) : (x = 't' ∨ x = 'f') → (startsDelim rest = true ∨ startsSharp rest = true) →
      TokShape startOK rest (.prim (.bool b)) ['#', x]
  | char (t : Token) (first : Char) (run : List Char) : sharpTok t = true → NoSpecial run →
      (startsDelim rest = true ∨ startsSharp rest = true) →
      TokShape startOK rest t ('#' :: '\\' :: first :: run)
  | str (s : String) (body : List Char) : StrBody body →
      TokShape startOK rest (.prim (.str s)) ('"' :: body)
  | bar (body : List Char) : '|' ∉ body →
      TokShape startOK rest (.ident (String.ofList body)) ('|' :: (body ++ ['|']))

theorem token_inv {cs p t rest p'} (h : token cs p = .ok (some (t, rest, p'))) :
    ∃ used, Used cs p rest p' used ∧ TokShape (startsTok cs = true) rest t used := by
  cases cs with
  | nil => simp [token] at h
  | cons c cs1 =>
    rw [token.eq_def] at h
    dsimp only at h
    by_cases h1 : c = '('
    · rw [if_pos h1] at h; subst h1
      simp only [Except.ok.injEq, Option.some.injEq, Prod.mk.injEq] at h
      obtain ⟨rfl, rfl, rfl⟩ := h
      exact ⟨_, ⟨rfl, rfl⟩, .lparen⟩
    rw [if_neg h1] at h
    by_cases h2 : c = ')'
    · rw [if_pos h2] at h; subst h2
      simp only [Except.ok.injEq, Option.some.injEq, Prod.mk.injEq] at h
      obtain ⟨rfl, rfl, rfl⟩ := h
      exact ⟨_, ⟨rfl, rfl⟩, .rparen⟩
    rw [if_neg h2] at h
    by_cases h3 : c = '\''
    · rw [if_pos h3] at h; subst h3
      simp only [Except.ok.injEq, Option.some.injEq, Prod.mk.injEq] at h
      obtain ⟨rfl, rfl, rfl⟩ := h
      exact ⟨_, ⟨rfl, rfl⟩, .quote⟩
    rw [if_neg h3] at h
    by_cases h4 : c = '`'
    · rw [if_pos h4] at h; subst h4
      simp only [Except.ok.injEq, Option.some.injEq, Prod.mk.injEq] at h
      obtain ⟨rfl, rfl, rfl⟩ := h
      exact ⟨_, ⟨rfl, rfl⟩, .quasiquote⟩
    rw [if_neg h4] at h
    by_cases h5 : c = '#'
    · rw [if_pos h5] at h
      subst h5
      cases cs1 with
      | nil => cases h
      | cons cn cs2 =>
        simp only at h
        split at h
        · rename_i hc; subst hc
          simp only [Except.ok.injEq, Option.some.injEq, Prod.mk.injEq] at h
          obtain ⟨rfl, rfl, rfl⟩ := h
          exact ⟨_, ⟨rfl, rfl⟩, .vecIntro⟩
        split at h
        · rename_i hc
          simp only [bind_ok, endOfSharpToken_ok] at h
          obtain ⟨_, hd, h⟩ := h
          simp only [pure, Except.pure, Except.ok.injEq, Option.some.injEq, Prod.mk.injEq] at h
          obtain ⟨rfl, rfl, rfl⟩ := h
          refine ⟨_, ⟨rfl, rfl⟩, .bool _ cn ?_ hd⟩
          simpa using hc
        split at h
        · rename_i hc; subst hc
          cases cs2 with
          | nil => cases h
          | cons cnn cs3 =>
            simp only [map_ok_some] at h
            obtain ⟨used, g1, g2, g3, g4⟩ := character_inv h
            exact ⟨_, ((g1.cons _).cons _).cons _, .char _ _ _ g4 g2 g3⟩
        split at h
        · rename_i hc; subst hc
          cases cs2 with
          | nil => cases h
          | cons c8 cs3 =>
            simp only at h
            split at h
            · rename_i hc; subst hc
              cases cs3 with
              | nil => cases h
              | cons cp cs4 =>
                simp only at h
                split at h
                · rename_i hc; subst hc
                  simp only [Except.ok.injEq, Option.some.injEq, Prod.mk.injEq] at h
                  obtain ⟨rfl, rfl, rfl⟩ := h
                  exact ⟨_, ⟨rfl, rfl⟩, .byteVecIntro⟩
                · cases h
            · cases h
        · cases h
    rw [if_neg h5] at h
    by_cases h6 : c = ','
    · rw [if_pos h6] at h
      subst h6
      cases cs1 with
      | nil => cases h
      | cons nc cs2 =>
        simp only at h
        split at h
        · rename_i hc; subst hc
          simp only [Except.ok.injEq, Option.some.injEq, Prod.mk.injEq] at h
          obtain ⟨rfl, rfl, rfl⟩ := h
          exact ⟨_, ⟨rfl, rfl⟩, .unquoteSplicing⟩
        · simp only [Except.ok.injEq, Option.some.injEq, Prod.mk.injEq] at h
          obtain ⟨rfl, rfl, rfl⟩ := h
          exact ⟨_, ⟨rfl, rfl⟩, .unquote⟩
    rw [if_neg h6] at h
    by_cases h7 : c = '.'
    · rw [if_pos h7] at h
      subst h7
      cases cs1 with
      | nil =>
        simp only [Except.ok.injEq, Option.some.injEq, Prod.mk.injEq] at h
        obtain ⟨rfl, rfl, rfl⟩ := h
        exact ⟨_, ⟨rfl, rfl⟩, .word _ _ (by simp) (Or.inl rfl) (fun _ => NoSpecial.cons dot_ns .nil) rfl⟩
      | cons nc cs2 =>
        simp only at h
        split at h
        · rename_i hd
          simp only [Except.ok.injEq, Option.some.injEq, Prod.mk.injEq] at h
          obtain ⟨rfl, rfl, rfl⟩ := h
          exact ⟨_, ⟨rfl, rfl⟩, .word _ _ (by simp) (Or.inl rfl) (fun _ => NoSpecial.cons dot_ns .nil) hd⟩
        · simp only [map_ok_some] at h
          obtain ⟨used, g1, g2, g3, g4, rfl⟩ := peculiarIdentifier_inv h
          exact ⟨_, g1.cons _, .word _ _ (by simp) (Or.inr rfl) (fun _ => NoSpecial.cons dot_ns g2) g3⟩
    rw [if_neg h7] at h
    by_cases h8 : (c = '+' || c = '-') = true
    · rw [if_pos h8] at h
      have hc := h8
      have hcs : c ∉ specials := by
        simp only [Bool.or_eq_true, decide_eq_true_eq] at hc
        rcases hc with rfl | rfl <;> decide
      have hnum : ∀ {cs1}, number c cs1 (adv c p) = .ok (t, rest, p') →
          ∃ used, Used (c :: cs1) p rest p' used ∧
            TokShape (startsTok (c :: cs1) = true) rest t used := by
        intro cs1 h
        obtain ⟨used, g1, g2, g3, g4⟩ := number_inv h
        exact ⟨_, g1.cons _, .word _ _ (by simp) (Or.inr g4) (fun _ => NoSpecial.cons hcs g2) g3⟩
      have hpec : ∀ {cs1}, peculiarIdentifier c cs1 (adv c p) = .ok (t, rest, p') →
          ∃ used, Used (c :: cs1) p rest p' used ∧
            TokShape (startsTok (c :: cs1) = true) rest t used := by
        intro cs1 h
        obtain ⟨used, g1, g2, g3, g4, rfl⟩ := peculiarIdentifier_inv h
        exact ⟨_, g1.cons _, .word _ _ (by simp) (Or.inr rfl) (fun _ => NoSpecial.cons hcs g2) g3⟩
      cases cs1 with
      | nil => simp only [map_ok_some] at h; exact hpec h
      | cons nc cs2 =>
        simp only at h
        split at h
        · simp only [map_ok_some] at h; exact hnum h
        · simp only [map_ok_some] at h; exact hpec h
    rw [if_neg h8] at h
    by_cases h9 : c = '"'
    · rw [if_pos h9] at h; subst h9
      simp only [map_ok_some] at h
      obtain ⟨used, g1, g2, s, rfl⟩ := string_inv h
      exact ⟨_, g1.cons _, .str _ _ g2⟩
    rw [if_neg h9] at h
    by_cases h10 : isDigit c = true
    · rw [if_pos h10] at h; have hc := h10
      simp only [map_ok_some] at h
      obtain ⟨used, g1, g2, g3, g4⟩ := number_inv h
      exact ⟨_, g1.cons _, .word _ _ (by simp) (Or.inr g4) (fun _ => NoSpecial.cons (isDigit_ns hc) g2) g3⟩
    rw [if_neg h10] at h
    by_cases h11 : c = '|'
    · rw [if_pos h11] at h; subst h11
      simp only [map_ok_some] at h
      obtain ⟨body, g1, g2, rfl⟩ := quotedIdentifier_inv h
      simp only [List.reverse_nil, List.nil_append]
      exact ⟨_, g1.cons _, .bar _ g2⟩
    rw [if_neg h11] at h
    · simp only [map_ok_some] at h
      obtain ⟨used, g1, g2, g3, g4, rfl⟩ := normalIdentifier_inv h
      refine ⟨_, g1.cons _, .word _ _ (by simp) (Or.inr rfl) (fun hs => NoSpecial.cons ?_ g2) g3⟩
      simp only [startsTok, isWs, Bool.and_eq_true, Bool.not_eq_true', Bool.or_eq_false_iff,
        decide_eq_false_iff_not] at hs
      simp only [specials, List.mem_cons, List.not_mem_nil, or_false, not_or]
      exact ⟨h1, h2, hs.2, h9, h11, h5, hs.1.1.1.1, hs.1.1.1.2, hs.1.1.2, hs.1.2⟩

theorem TokShape.ne_nil {P rest t used} (h : TokShape P rest t used) : used ≠ [] := by
  cases h <;> simp_all

theorem token_progress {cs p t rest p'} (h : token cs p = .ok (some (t, rest, p'))) :
    rest.length < cs.length := by
  obtain ⟨used, g1, g2⟩ := token_inv h
  have := g1.length_le
  have := List.length_pos_iff.mpr g2.ne_nil
  omega

/-- `next` = atmosphere, then a token -/
theorem next_inv {cs p t rest p'} (h : next cs p = .ok (some (t, rest, p'))) :
    ∃ a used, cs = a ++ (used ++ rest) ∧ p' = advs used (advs a p) ∧ isAtmos false a = true ∧
      TokShape True rest t used := by
  unfold next at h
  obtain ⟨a, h1, h2, h3, h4, h5⟩ := skipAtmosphere_inv false cs p
  generalize skipAtmosphere false cs p = r at *
  obtain ⟨cs1, p1⟩ := r
  simp only at h h1 h2 h3 h5
  obtain ⟨used, g1, g2⟩ := token_inv h
  have hne : cs1 ≠ [] := by
    intro e; subst e; simp [token] at h
  refine ⟨a, used, ?_, ?_, h5 hne, ?_⟩
  · rw [← g1.split]; exact h1
  · rw [g1.pos, h2]
  · simp only [h3] at g2; exact g2

theorem next_progress {cs p t rest p'} (h : next cs p = .ok (some (t, rest, p'))) :
    rest.length < cs.length := by
  obtain ⟨a, used, h1, -, -, h4⟩ := next_inv h
  have := List.length_pos_iff.mpr h4.ne_nil
  subst h1
  simp; omega

theorem allAux_fuel (k fuel : Nat) (cs : List Char) (p : Pos) (acc : List LToken)
    (h : cs.length < fuel) : allAux (fuel + k) cs p acc = allAux fuel cs p acc := by
  induction fuel generalizing cs p acc with
  | zero => omega
  | succ fuel ih =>
    rw [show fuel + 1 + k = (fuel + k) + 1 by omega]
    simp only [allAux]
    cases hn : next cs p with
    | error e => rfl
    | ok r =>
      cases r with
      | none => rfl
      | some r =>
        obtain ⟨t, rest, p'⟩ := r
        have := next_progress hn
        exact ih _ _ _ (by omega)

theorem token_boundary {cs p t rest p'} (h : token cs p = .ok (some (t, rest, p'))) :
    closedTok t = true ∨ cs.head? = some '|' ∨ startsDelim rest = true ∨
      (sharpTok t = true ∧ startsSharp rest = true) := by
  obtain ⟨used, g1, g2⟩ := token_inv h
  cases g2 with
  | word _ _ _ _ _ hd => exact Or.inr (Or.inr (Or.inl hd))
  | bool b x _ hd =>
    rcases hd with hd | hd
    · exact Or.inr (Or.inr (Or.inl hd))
    · exact Or.inr (Or.inr (Or.inr ⟨rfl, hd⟩))
  | char _ _ _ hs _ hd =>
    rcases hd with hd | hd
    · exact Or.inr (Or.inr (Or.inl hd))
    · exact Or.inr (Or.inr (Or.inr ⟨hs, hd⟩))
  | bar body _ => right; left; simp [g1.split]
  | _ => exact Or.inl rfl

theorem skipAtmosphere_trail (b : Bool) (a : List Char) (p : Pos) (h : isTrail b a = true) :
    ∃ p', skipAtmosphere b a p = ([], p') := by
  induction a generalizing b p with
  | nil => exact ⟨p, by simp [skipAtmosphere]⟩
  | cons c a ih =>
    cases b
    · simp only [isTrail] at h
      simp only [skipAtmosphere]
      split
      · rename_i hw; simp only [hw, if_true] at h; exact ih _ _ h
      · rename_i hw
        simp only [hw] at h
        split
        · rename_i hc; simp only [hc, if_true] at h; exact ih _ _ h
        · rename_i hc; simp [hc] at h
    · simp only [isTrail] at h
      rw [skipAtmosphere]
      split
      · rename_i hn
        simp only [hn, if_true] at h
        have hw : isWs c = true := by
          simp only [Bool.or_eq_true, decide_eq_true_eq] at hn
          rcases hn with rfl | rfl <;> decide
        rw [skipAtmosphere]; simp only [hw, if_true]
        exact ih _ _ h
      · rename_i hn
        simp only [hn] at h
        exact ih _ _ h

end Ruschm.Text

"""C08 — run-time errors are detected, classified, and leave the interpreter usable.
Theorems: lean/RuschmProofs/C08.lean. Tie: random valid programs with one injected fault (8 kinds
x 6 calling contexts), followed by further forms, on the real interpreter and on the model.
Oracle on the implementation alone: the faulty form reports the expected kind; every other form
gives exactly the result it gives in the same program without the fault (effects before the error
kept, later forms normal)."""
import random
from . import common as C, proggen as P, progrun as R

PROP = "C08"
MODULES = ["RuschmProofs.C08", "RuschmProofs.C08Types", "RuschmProofs.BuiltinTable", "RuschmProofs.C08Order"]


ORDER_PROBES = [
    (["(define e 0)", "(define v (vector 0 0))", "(define (f g) (g (set! e 1) (vector-set! v 1 7)))", "(f 5)", "e", "v"],
     ["N", "N", "N", "E nonProcedure", "V i:1", "V #m(i:0 i:7)"]),
    (["(define e 0)", "(define (f g) (if #t (g (begin (set! e (+ e 1)) 1)) 0))", "(f 5)", "(apply f '(6))", "(for-each f '(7))", "e"],
     ["N", "N", "E nonProcedure", "E nonProcedure", "E nonProcedure", "V i:3"]),
    (["(define e 0)", "(define (f) ((car (list 5)) (set! e 9)))", "(f)", "e", "(define (h) (car (begin (set! e 10) 5)))", "(h)", "e"],
     ["N", "N", "E nonProcedure", "V i:9", "N", "E type", "V i:10"]),
    (["(define e 0)", "(set! nope-zz (begin (set! e (+ e 1)) e))", "e"], ["N", "E unbound", "V i:1"]),
    (["(define e 0)", "(define (f) (set! nope-zz (begin (set! e (+ e 1)) e)))", "(f)", "(apply f '())", "(for-each (lambda (q) (f)) '(1))", "e"],
     ["N", "N", "E unbound", "E unbound", "E unbound", "V i:3"]),
    (["(define e 0)", "(list (begin (set! e (+ e 1)) 1) (car '()) (begin (set! e (+ e 10)) 2))", "e"], ["N", "E type", "V i:1"]),
    (["(define e 0)", "(if (begin (set! e 5) (car '())) (set! e 6) (set! e 7))", "e"], ["N", "E type", "V i:5"]),
    (["(define e 0)", "((lambda () (set! e 1) (undefined-zz) (set! e 2)))", "e"], ["N", "E unbound", "V i:1"]),
    (["(define e 0)", "(define v (vector 0 0))", "(vector-set! v (begin (set! e 1) 0) (car '()))", "e", "v"], ["N", "N", "E type", "V i:1", "V #m(i:0 i:0)"]),
    (["(define e 0)", "(set! e (+ e (car '())))", "e"], ["N", "E type", "V i:0"]),
    (["(define e 0)", "(define (g) (set! e (+ e 1)) e)", "(+ (g) (g) (undefined-zz) (g))", "e"], ["N", "N", "E unbound", "V i:2"]),
    (["(define e 0)", "((begin (set! e 1) 5) (begin (set! e 2) 0))", "e"], ["N", "E nonProcedure", "V i:2"]),
]


def run(rep, tier, rng):
    n = 500 if tier == "quick" else 12000
    cases, meta = [], {}
    for i in range(n):
        g = P.Gen(rng, ticks=True)
        base = g.toplevel(rng.randrange(3, 9))
        faulty, pos, kind, ctx = P.inject_fault(rng, g, base)
        # effect-zz is assigned only by operands that stand AFTER a faulting operand: it must still be 0 at the end
        pre = ["(import (verif host))", "(define effect-zz 0)"]
        cases.append(("b%d" % i, "progx", ["std+host"] + pre + base + ["effect-zz"]))
        cases.append(("f%d" % i, "progx", ["std+host"] + pre + faulty + ["effect-zz"]))
        meta[i] = (pos + 2, kind, ctx, faulty[pos])
    impl = C.run_hx(cases)
    model = C.run_driver(cases)
    res = R.compare(rep, cases, impl, model, "evaluator/errors (RuschmModel/Eval.lean <-> interpreter.rs)")
    dist = {}
    for i in range(n):
        pos, kind, ctx, form = meta[i]
        if "b%d" % i not in res or "f%d" % i not in res:
            continue
        bf = res["b%d" % i][0]
        ff = res["f%d" % i][0]
        rep.count()
        rep.nontrivial((kind, ctx, form))
        dist[(kind, ctx)] = dist.get((kind, ctx), 0) + 1
        prog = cases[2 * i + 1][2]
        got = ff[pos]
        if len(rep.cov["samples"]) < 5:
            rep.sample({"faulty_form": form, "kind": kind, "context": ctx, "implementation": got})
        if not got.startswith("E " + kind + " ") and not got == "E " + kind:
            rep.violation({"what": "fault not reported with its kind", "program": prog, "form": form, "context": ctx,
                           "expected_kind": kind, "implementation": got})
            continue
        others_f = ff[:pos] + ff[pos + 1:]
        if others_f != bf:
            k = next(j for j in range(len(bf)) if others_f[j] != bf[j])
            rep.violation({"what": "a form evaluates differently because another form failed (effects before the error not "
                                   "kept, or later forms not normal)", "program": prog, "faulty_form": form,
                           "differing_form_index": k, "with_fault": others_f[k], "without_fault": bf[k]})
            continue
        # ticks performed before the faulty form must all be there: the trace without the fault is a
        # subsequence-free check: every tick of the no-fault run appears in the faulty run in order
        tb = res["b%d" % i][1].split()
        tf = res["f%d" % i][1].split()
        if tb != tf:
            rep.violation({"what": "observable evaluation trace differs when an unrelated form fails",
                           "program": prog, "ticks_with_fault": tf[:50], "ticks_without": tb[:50]})
    # what has been completed BEFORE the error stays, in the order R7RS evaluates: operands left to right before the call, the value
    # of an assignment before the assignment, the test before the arms, earlier body expressions before later ones
    for k, (forms, want) in enumerate(ORDER_PROBES):
        r = C.run_hx([("o%d" % k, "prog", ["std"] + forms)]).get("o%d" % k, [])
        rep.count()
        rep.nontrivial(("order", tuple(forms)))
        got = [x if not x.startswith("E ") else "E " + x.split(" ")[1] for x in r]
        if got != want:
            j = next((j for j in range(min(len(got), len(want))) if got[j] != want[j]), None)
            rep.violation({"what": "the effects completed before an error are not exactly those R7RS's evaluation order completes",
                           "program": forms, "form": forms[j] if j is not None else None, "expected": want, "implementation": r})
    # FAULT STORM: more than a thousand faults one after another on ONE interpreter (one thread), raised below one to three pending
    # procedure calls, through apply and through library procedures, of every kind - and afterwards every fault is still reported with
    # its own kind and correct forms still evaluate normally (an error leaves nothing behind that adds up)
    storm_defs = ["(define hits 0)", "(define (id q) q)", "(define (nest k) (if (= k 0) (vector-ref (vector 1) 5) (+ 1 (nest (- k 1)))))",
                  "(define (bad-car q) (set! hits (+ hits 1)) (car q))", "(define (two a b) a)", "(define (call-two) (two 1))",
                  "(define (deep k) (if (= k 0) (undefined-fn-zz 1) (id (deep (- k 1)))))"]
    storm_faults = [("(bad-car 5)", "type"), ("(nest 3)", "vectorIndex"), ("(call-two)", "arity"), ("(deep 2)", "unbound"),
                    ("(map bad-car '(1))", "type"), ("(apply bad-car '(7))", "type"), ("(id (/ 1 0))", "divZero"), ("((id 5) 1)", "nonProcedure"),
                    ("(fold-left (lambda (a b) (car b)) 0 '(1 2))", "type"), ("(id (vector-set! #(1) 0 2))", "immutable")]
    n_storm = 1300 if tier == "quick" else 6000
    sforms, swant = list(storm_defs), ["N"] * len(storm_defs)
    for i in range(n_storm):
        f, k = storm_faults[i % len(storm_faults)] if i < 40 else rng.choice(storm_faults)
        sforms.append(f); swant.append("E " + k)
    for f, k in storm_faults:
        sforms.append(f); swant.append("E " + k)
    sforms += ["(id 7)", "(nest 0)" if False else "(fold-left + 0 (map id '(1 2 3)))", "(< 0 hits)"]
    swant += ["V i:7", "V i:6", "V #t"]
    sr = C.run_hx([("storm", "prog", ["std"] + sforms)]).get("storm", [])
    rep.count(len(sforms))
    rep.nontrivial(("storm", n_storm))
    sgot = [x if not x.startswith("E ") else "E " + x.split(" ")[1] for x in sr]
    if sgot != swant:
        j = next((j for j in range(min(len(sgot), len(swant))) if sgot[j] != swant[j]), min(len(sgot), len(swant)))
        rep.violation({"what": "after a long sequence of faults on one interpreter a form is no longer evaluated normally / a fault is no longer reported with its kind",
                       "definitions": storm_defs, "faults_before": j - len(storm_defs), "form": sforms[j] if j < len(sforms) else None,
                       "expected": swant[j] if j < len(swant) else None, "implementation": sr[j] if j < len(sr) else "(missing: %d results for %d forms)" % (len(sr), len(sforms)),
                       "the_faulting_forms": [f for f, _ in storm_faults]})
    rep.extra["fault_storm_forms"] = len(sforms)
    # the whole matrix of wrong-typed arguments to builtins, each form alone on a shared interpreter (an error leaves it usable)
    tmatrix, imatrix, amatrix = P.type_fault_matrix(), P.index_fault_matrix(), P.arity_fault_matrix()
    matrix = tmatrix + imatrix + amatrix
    kind_of = {f: "type" for f in tmatrix}
    kind_of.update({f: "vectorIndex" for f in imatrix})
    kind_of.update({f: "arity" for f in amatrix})
    mcases = [("m%d" % (i // 200), "prog", ["std"] + matrix[i:i + 200] + ["(+ 1 2)"]) for i in range(0, len(matrix), 200)]
    mi, mm = C.run_hx(mcases), C.run_driver(mcases)
    for cid, _, f in mcases:
        a, b = mi.get(cid, []), mm.get(cid, [])
        forms = f[1:]
        for j, form in enumerate(forms):
            rep.count()
            rep.nontrivial(("matrix", form))
            g = a[j] if j < len(a) else "?"
            want = "V i:3" if j == len(forms) - 1 else "E " + kind_of[form]
            if not (g == want or g.startswith(want + " ")):
                rep.violation({"what": "a builtin given an argument of the wrong type does not stop with a type error" if want == "E type" else
                                       "a vector index outside the vector does not stop with an index error" if want == "E vectorIndex" else
                                       "a native procedure called with a number of arguments it does not admit does not stop with an arity error" if want == "E arity" else
                                       "a form after the failing ones is not evaluated normally",
                               "form": form, "expected": want, "implementation": g, "model": b[j] if j < len(b) else "?"})
            elif j < len(b) and R.norm_result(g) != R.norm_result(b[j]):
                rep.violation({"broken": "correspondence Prim (argument checks) <-> base.rs", "form": form, "implementation": g,
                               "model": b[j]}, no_input=True)
    rep.extra["type_fault_matrix_forms"] = len(matrix)
    rep.extra["fault_kind_x_context"] = {"%s/%s" % k: v for k, v in sorted(dist.items())}


def main(tier, seed):
    rep = C.Report(PROP, tier, seed)
    rng = random.Random(seed)
    rep.cov["rule"] = ("type-directed random programs (3-8 top-level forms over core and derived forms, closures, vectors, "
                       "apply, ticking sub-expressions) with ONE injected faulty form: 8 fault kinds x 6 calling contexts "
                       "(direct, tail, nested tail if, apply, inside a library procedure's callback, operand); plus the complete matrix of "
                       "wrong-typed arguments (every numeric builtin x arity x position x 4 offending values x direct/apply/map, pair and "
                       "vector accessors) and of out-of-range vector indices (lengths 0-3, every index just outside on either side) and of wrong argument counts (every native procedure, one "
                       "too few / one and two too many, direct / apply / tail); a storm of 1300 (thorough 6000) faults below pending calls on one interpreter followed by every fault kind and normal forms; distinct = "
                       "distinct (kind, context, faulty form) triples")
    ok = C.standard_proof_phase(rep, MODULES, directed_search=lambda r: run(r, tier, rng))
    if ok:
        run(rep, tier, rng)
    return rep.finish("cd lean && lake build RuschmProofs.C08 && lake env lean <#print axioms of every theorem in RuschmProofs/C08.lean>")

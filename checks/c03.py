"""C03 — mutable state: bindings and vectors are shared by reference.
Theorems: lean/RuschmProofs/C03.lean (set! locality and visibility, a fresh frame per call, vector
cells aliased by id, literal vectors immutable, store well-formedness as an invariant of every
evaluator step). Tie: random operation histories (counters made by generator procedures, closure
pairs sharing one binding, global assignments, vectors aliased through variables, arguments, list
and vector elements and captured references), real interpreter vs model. Oracle on the
implementation alone: a reference simulation of the history in Python (bindings and vectors as
Python objects with identity) predicts every probe."""
import random
from . import common as C, proggen as P, progrun as R

PROP = "C03"
MODULES = ["RuschmProofs.C03", "RuschmProofs.C03More", "RuschmProofs.C03Self"]
PRELUDE = [
    "(define (mk-counter) (let ((n 0)) (lambda () (set! n (+ n 1)) n)))",
    "(define (mk-pair) (let ((n 0)) (cons (lambda (d) (set! n (+ n d)) n) (lambda () n))))",
    "(define (poke! v i x) (vector-set! v i x))",
    "(define (mk-poker v) (lambda (i x) (vector-set! v i x)))",
    "(define (mk-reader v) (lambda (i) (vector-ref v i)))",
    # builders whose closures capture the frame of one iteration of a loop (created in the operands of a tail call)
    "(define (mk-counters n acc) (if (= n 0) acc (mk-counters (- n 1) (cons (lambda () (set! n (+ n 1)) n) acc))))",
    "(define (mk-counters-a n acc) (if (= n 0) acc (mk-counters-b (- n 1) (cons (lambda () (set! n (+ n 1)) n) acc))))",
    "(define (mk-counters-b n acc) (if (= n 0) acc (mk-counters-a (- n 1) (cons (lambda () (set! n (+ n 1)) n) acc))))",
    "(define (mk-counters-nt n) (if (= n 0) '() (cons (lambda () (set! n (+ n 1)) n) (mk-counters-nt (- n 1)))))",
    "(define (mk-cells k v acc) (if (= k 0) acc (mk-cells (- k 1) (make-vector 1 k) (cons (lambda () v) acc))))",
    # generators WITHOUT parameters whose state is an internal definition of the call (not a let): each call has its own
    "(define (mk-counter-d) (define n 0) (lambda () (set! n (+ n 1)) n))",
    "(define mk-counter-b (lambda () (begin (define n 0) (lambda () (set! n (+ n 1)) n))))",
    "(define (mk-vec-d) (define v (vector 0 0)) v)",
    "(define (local-g) (define g 7) (set! g (+ g 1)) g)",
    # procedures that RETURN one of their own variables (a bare identifier in tail position) after a closure over that very
    # variable has escaped: the closure keeps the binding, the caller gets the value
    "(define keep '())",
    "(define (mk-kept n) (set! keep (cons (lambda () (set! n (+ n 1)) n) keep)) n)",
    "(define (mk-kept-d k) (define n k) (set! keep (cons (lambda () (set! n (+ n 1)) n) keep)) (if (< k 0) 0 n))",
    "(define (mk-kept-v v) (set! keep (cons (lambda () v) keep)) v)",
    # a closure that READS no local variable and only ASSIGNS one of the enclosing call
    "(define (mk-resettable) (let ((n 0)) (list (lambda () (set! n (+ n 1)) n) (lambda () (set! n 0)) (lambda (v) (set! n v)))))",
    # closures over a private binding that also READ a global which is assigned between their calls (from top level and from
    # other closures): every read sees the current value
    "(define step 1)",
    "(define (mk-stepper) (let ((n 0)) (lambda () (set! n (+ n step)) n)))",
    "(define (mk-step-setter) (let ((k 0)) (lambda (v) (set! k (+ k 1)) (set! step v) k)))",
    "(define g 0)",
    "(define (bump-g!) (set! g (+ g 1)) g)",
    "(define (shadow-g) (let ((g 100)) (set! g (+ g 1)) g))",
]


class Sim:
    """reference semantics of the history language"""
    def __init__(self, rng):
        self.rng = rng
        self.forms, self.expect = [], []
        self.counters = {}     # name -> [n]
        self.pairs = {}        # name -> [n]
        self.vecs = {}         # variable -> python list object (identity = the vector)
        self.lists = {}        # variable -> python list of (vector object)
        self.resettables = {}  # name -> [n]
        self.steppers = {}     # name -> [n]
        self.stepv = 1
        self.setter = None
        self.pokers = {}       # name -> vector object
        self.readers = {}
        self.g = 0
        self.k = 0

    def fresh(self, p):
        self.k += 1
        return "%s%d" % (p, self.k)

    def emit(self, form, expect):
        self.forms.append(form)
        self.expect.append(expect)

    def canon(self, x):
        if isinstance(x, list):
            return "#m(" + " ".join(self.canon(y) for y in x) + ")"
        return "i:%d" % x

    def step(self):
        r = self.rng
        ops = ["counter-new", "pair-new", "vec-new", "bump", "counters-batch", "cells-batch", "kept-new", "kept-vec", "resettable-new"]
        ops += ["stepper-new", "step-set"]
        if self.steppers: ops += ["stepper-call"] * 3 + ["step-set"] * 2
        if self.resettables: ops += ["resettable-inc", "resettable-reset", "resettable-set"] * 2
        if self.counters: ops += ["counter-call"] * 3
        if len(self.counters) >= 2: ops += ["counter-assign"] * 2
        if len(self.vecs) >= 2: ops += ["vec-assign"] * 3
        if self.pairs: ops += ["pair-inc", "pair-get"] * 2
        if self.vecs: ops += ["alias", "set", "ref", "poke", "poker-new", "reader-new", "list-new", "eqv", "nest", "set-via-ref", "fill"] * 2
        if self.lists: ops += ["list-ref", "list-set"] * 2
        if self.pokers: ops += ["poker-call"] * 2
        if self.readers: ops += ["reader-call"] * 2
        ops += ["literal-set", "shadow", "g-read"]
        op = r.choice(ops)
        if op == "counter-new":
            n = self.fresh("c"); self.counters[n] = [0]
            self.emit("(define %s (%s))" % (n, r.choice(["mk-counter", "mk-counter-d", "mk-counter-d", "mk-counter-b"])), "N")
        elif op == "stepper-new":
            n = self.fresh("t"); self.steppers[n] = [0]
            self.emit("(define %s (mk-stepper))" % n, "N")
        elif op == "stepper-call":
            n = r.choice(list(self.steppers)); self.steppers[n][0] += self.stepv
            self.emit("(%s)" % n, "V i:%d" % self.steppers[n][0])
        elif op == "step-set":
            v = r.randrange(2, 9)
            if self.setter is None or r.random() < 0.5:
                self.stepv = v; self.emit("(set! step %d)" % v, "V <void>")
            else:
                self.setter[1] += 1; self.stepv = v
                self.emit("(%s %d)" % (self.setter[0], v), "V i:%d" % self.setter[1])
            if self.setter is None and r.random() < 0.5:
                nm = self.fresh("u"); self.setter = [nm, 0]
                self.emit("(define %s (mk-step-setter))" % nm, "N")
        elif op == "resettable-new":
            n = self.fresh("q"); self.resettables[n] = [0]
            self.emit("(define %s (mk-resettable))" % n, "N")
        elif op == "resettable-inc":
            n = r.choice(list(self.resettables)); self.resettables[n][0] += 1
            self.emit("((car %s))" % n, "V i:%d" % self.resettables[n][0])
        elif op == "resettable-reset":
            n = r.choice(list(self.resettables)); self.resettables[n][0] = 0
            self.emit("((car (cdr %s)))" % n, "V <void>")
        elif op == "resettable-set":
            n = r.choice(list(self.resettables)); v = r.randrange(100, 200); self.resettables[n][0] = v
            self.emit("((car (cdr (cdr %s))) %d)" % (n, v), "V <void>")
        elif op == "kept-new":
            k = r.randrange(0, 50); which = r.choice(["mk-kept", "mk-kept-d"])
            self.emit("(%s %d)" % (which, k), "V i:%d" % k)
            n = self.fresh("c"); self.counters[n] = [k]
            self.emit("(define %s (car keep))" % n, "N")
        elif op == "kept-vec":
            n = self.fresh("v"); self.vecs[n] = [0, 0]
            self.emit("(define %s (mk-kept-v (vector 0 0)))" % n, "N")
            m = self.fresh("w"); self.vecs[m] = self.vecs[n]
            self.emit("(define %s ((car keep)))" % m, "N")
        elif op == "counters-batch":
            k = r.randrange(2, 5); L = self.fresh("b")
            which = r.choice(["mk-counters %d '()", "mk-counters-a %d '()", "mk-counters-nt %d"])
            self.emit("(define %s (%s))" % (L, which % k), "N")
            for j in r.sample(range(k), r.randrange(2, k + 1)):
                n = self.fresh("c")
                self.counters[n] = [k - j if which.startswith("mk-counters-nt") else j + 1]
                self.emit("(define %s (list-ref %s %d))" % (n, L, j), "N")
        elif op == "cells-batch":
            k = r.randrange(2, 5); L = self.fresh("b")
            if self.vecs and r.random() < 0.6:
                a = r.choice(list(self.vecs)); first, arg = self.vecs[a], a
            else:
                first, arg = [0], "(vector 0)"
            self.emit("(define %s (mk-cells %d %s '()))" % (L, k, arg), "N")
            for j in range(k):
                n = self.fresh("w")
                self.vecs[n] = first if j + 1 == k else [j + 2]
                self.emit("(define %s ((list-ref %s %d)))" % (n, L, j), "N")
        elif op == "counter-call":
            n = r.choice(list(self.counters)); self.counters[n][0] += 1
            self.emit("(%s)" % n, "V i:%d" % self.counters[n][0])
        elif op == "counter-assign":
            # a variable re-bound to ANOTHER closure of the same lambda: afterwards both names are one counter
            a, b = r.sample(list(self.counters), 2)
            self.counters[a] = self.counters[b]
            self.emit("(set! %s %s)" % (a, b), "V <void>")
        elif op == "vec-assign":
            # a variable re-bound to another vector (often with equal contents at this moment)
            a, b = r.sample(list(self.vecs), 2)
            self.vecs[a] = self.vecs[b]
            self.emit("(set! %s %s)" % (a, b), "V <void>")
        elif op == "pair-new":
            n = self.fresh("p"); self.pairs[n] = [0]; self.emit("(define %s (mk-pair))" % n, "N")
        elif op == "pair-inc":
            n = r.choice(list(self.pairs)); d = r.randrange(1, 5); self.pairs[n][0] += d
            self.emit("((car %s) %d)" % (n, d), "V i:%d" % self.pairs[n][0])
        elif op == "pair-get":
            n = r.choice(list(self.pairs)); self.emit("((cdr %s))" % n, "V i:%d" % self.pairs[n][0])
        elif op == "vec-new":
            n = self.fresh("v")
            # few distinct contents, so that different vectors are often structurally equal
            items = [r.choice([0, 0, 1]) for _ in range(r.choice([1, 2, 2, 3]))]
            self.vecs[n] = list(items)
            form = r.choice(["(define %s (vector %s))" % (n, " ".join(map(str, items))),
                             "(define %s (make-vector %d %d))" % (n, len(items), items[0]),
                             "(define %s (mk-vec-d))" % n])
            if form.startswith("(define %s (make-vector" % n):
                self.vecs[n] = [items[0]] * len(items)
            elif "mk-vec-d" in form:
                self.vecs[n] = [0, 0]
            self.emit(form, "N")
        elif op == "fill":
            # make-vector puts THE fill object in every slot: the slots alias one another and the fill
            a = r.choice(list(self.vecs)); n = self.fresh("v"); k = r.randrange(1, 4)
            self.vecs[n] = [self.vecs[a]] * k
            self.emit("(define %s (make-vector %d %s))" % (n, k, a), "N")
        elif op == "alias":
            a = r.choice(list(self.vecs)); n = self.fresh("w"); self.vecs[n] = self.vecs[a]
            self.emit("(define %s %s)" % (n, a), "N")
        elif op == "set":
            a = r.choice(list(self.vecs)); v = self.vecs[a]; i = r.randrange(0, len(v)); x = r.randrange(10, 99)
            v[i] = x; self.emit("(vector-set! %s %d %d)" % (a, i, x), "V <void>")
        elif op == "ref":
            a = r.choice(list(self.vecs)); v = self.vecs[a]; i = r.randrange(0, len(v))
            self.emit("(vector-ref %s %d)" % (a, i), "V " + self.canon(v[i]))
        elif op == "poke":
            a = r.choice(list(self.vecs)); v = self.vecs[a]; i = r.randrange(0, len(v)); x = r.randrange(100, 199)
            v[i] = x; self.emit("(poke! %s %d %d)" % (a, i, x), "V <void>")
        elif op == "poker-new":
            a = r.choice(list(self.vecs)); n = self.fresh("k"); self.pokers[n] = self.vecs[a]
            self.emit("(define %s (mk-poker %s))" % (n, a), "N")
        elif op == "poker-call":
            n = r.choice(list(self.pokers)); v = self.pokers[n]; i = r.randrange(0, len(v)); x = r.randrange(200, 299)
            v[i] = x; self.emit("(%s %d %d)" % (n, i, x), "V <void>")
        elif op == "reader-new":
            a = r.choice(list(self.vecs)); n = self.fresh("r"); self.readers[n] = self.vecs[a]
            self.emit("(define %s (mk-reader %s))" % (n, a), "N")
        elif op == "reader-call":
            n = r.choice(list(self.readers)); v = self.readers[n]; i = r.randrange(0, len(v))
            self.emit("(%s %d)" % (n, i), "V " + self.canon(v[i]))
        elif op == "list-new":
            names = [r.choice(list(self.vecs)) for _ in range(r.randrange(1, 3))]
            n = self.fresh("l"); self.lists[n] = [self.vecs[x] for x in names]
            self.emit("(define %s (list %s))" % (n, " ".join(names)), "N")
        elif op == "list-ref":
            n = r.choice(list(self.lists)); v = self.lists[n][0]; i = r.randrange(0, len(v))
            self.emit("(vector-ref (car %s) %d)" % (n, i), "V " + self.canon(v[i]))
        elif op == "list-set":
            n = r.choice(list(self.lists)); v = self.lists[n][0]; i = r.randrange(0, len(v)); x = r.randrange(300, 399)
            v[i] = x; self.emit("(vector-set! (car %s) %d %d)" % (n, i, x), "V <void>")
        elif op == "nest":
            a, b = r.choice(list(self.vecs)), r.choice(list(self.vecs))
            va, vb = self.vecs[a], self.vecs[b]
            if va is vb or self.contains(vb, va):
                return          # no cycles (the canonical printer would not terminate)
            i = r.randrange(0, len(va)); va[i] = vb
            self.emit("(vector-set! %s %d %s)" % (a, i, b), "V <void>")
        elif op == "set-via-ref":
            a = r.choice(list(self.vecs)); va = self.vecs[a]
            idx = [i for i, x in enumerate(va) if isinstance(x, list)]
            if not idx: return
            i = r.choice(idx); inner = va[i]; j = r.randrange(0, len(inner)); x = r.randrange(400, 499)
            inner[j] = x
            self.emit("(vector-set! (vector-ref %s %d) %d %d)" % (a, i, j, x), "V <void>")
        elif op == "eqv":
            a, b = r.choice(list(self.vecs)), r.choice(list(self.vecs))
            self.emit("(eqv? %s %s)" % (a, b), "V #t" if self.vecs[a] is self.vecs[b] else "V #f")
        elif op == "literal-set":
            self.emit(r.choice(["(vector-set! #(1 2 3) 0 9)", "(vector-set! '#(1 2) 1 9)", "(poke! #(5) 0 1)",
                                "((mk-poker '#(7 8)) 0 1)", "(poke! (car '(#(1 2) 3)) 0 9)", "(vector-set! (vector-ref #(#(1 2) #(3)) 1) 0 9)",
                                "((mk-poker (car (cdr '(1 #(2))))) 0 1)", "(poke! (vector-ref '#(5 #(6)) 1) 0 1)"]), "E immutable")
        elif op == "bump":
            self.g += 1; self.emit("(bump-g!)", "V i:%d" % self.g)
        elif op == "shadow":
            if r.random() < 0.5:
                self.emit("(shadow-g)", "V i:101")
            else:
                self.emit("(local-g)", "V i:8")     # an internal definition of the call, not the global g
        elif op == "g-read":
            self.emit("g", "V i:%d" % self.g)

    def contains(self, outer, target):
        return any(x is target or (isinstance(x, list) and self.contains(x, target)) for x in outer)


def run(rep, tier, rng):
    n = 300 if tier == "quick" else 8000
    cases, sims = [], []
    for i in range(n):
        s = Sim(rng)
        for _ in range(rng.randrange(10, 60)):
            s.step()
        sims.append(s)
        cases.append(("h%d" % i, "progx", ["std"] + PRELUDE + s.forms))
    impl = C.run_hx(cases)
    model = C.run_driver(cases)
    res = R.compare(rep, cases, impl, model, "store (RuschmModel/Value.lean,Eval.lean,Prim.lean <-> environment.rs, values.rs, base.rs)")
    ops = 0
    for i, s in enumerate(sims):
        cid = "h%d" % i
        if cid not in res:
            continue
        got = res[cid][0][len(PRELUDE):]
        rep.count()
        rep.nontrivial(tuple(s.forms))
        ops += len(s.forms)
        if len(rep.cov["samples"]) < 3:
            rep.sample({"history": s.forms[:12], "expected": s.expect[:12]})
        for k, (g, e) in enumerate(zip(got, s.expect)):
            ok = g == e or (e.startswith("E ") and g.startswith(e + " "))
            if not ok:
                rep.violation({"what": "a probe of the history differs from the reference store semantics",
                               "history": s.forms[:k + 1], "probe": s.forms[k], "expected": e, "implementation": g})
                break
    rep.extra["operations"] = ops
    # a vector stored into ITSELF (and into a vector it contains): the element IS the vector - probed by identity and by writes
    # through either path, never printed (the random histories avoid cycles because a cyclic value has no printed form)
    selfv = ["(define sv (vector 1 2 3))", "(define sw sv)", "(vector-set! sv 0 sv)", "(eqv? (vector-ref sv 0) sv)",
             "(vector-set! sv 1 77)", "(vector-ref (vector-ref sv 0) 1)", "(vector-set! (vector-ref sw 0) 2 88)", "(vector-ref sv 2)",
             "(eqv? (vector-ref (vector-ref sw 0) 0) sv)", "(define inner (vector 0 sv))", "(vector-set! sv 1 inner)",
             "(eqv? (vector-ref (vector-ref sv 1) 1) sv)", "(vector-set! (vector-ref (vector-ref sv 1) 1) 2 99)", "(vector-ref sw 2)",
             "((mk-poker sv) 2 sv)", "(eqv? (vector-ref sw 2) sw)", "(vector-length (vector-ref sv 2))"]
    swant = ["N", "N", "V <void>", "V #t", "V <void>", "V i:77", "V <void>", "V i:88", "V #t", "N", "V <void>", "V #t", "V <void>", "V i:99",
             "V <void>", "V #t", "V i:3"]
    sgot = C.run_hx([("self", "prog", ["std"] + PRELUDE + selfv)]).get("self", [])[len(PRELUDE):]
    rep.count(); rep.nontrivial(("self-store",))
    if sgot != swant:
        j = next((j for j in range(min(len(sgot), len(swant))) if sgot[j] != swant[j]), None)
        rep.violation({"what": "a vector stored into itself is not the same object as the vector (identity, or a write through one path not seen through the other)",
                       "history": selfv[:(j or 0) + 1], "probe": selfv[j] if j is not None else None, "expected": swant, "implementation": sgot})
    scope_soup(rep, tier, rng)


def scope_soup(rep, tier, rng):
    """SCOPE SOUP (proggen.scope_soup): nested let / let* / applied lambdas / bodies with internal definitions over a pool of three
    names (constant shadowing and re-binding, a let* binding one name twice with closures made in between), closures that read
    or assign a visible name collected at every level and then called in random order; judged by the independent reference
    evaluator (checks/pyeval.py), which decides by lexical scoping alone which binding each closure means."""
    from . import pyeval
    n = 150 if tier == "quick" else 4000
    cases = []
    for i in range(n):
        forms, _ = P.scope_soup(rng, depth=rng.randrange(2, 5))
        ref = pyeval.run_program(forms)
        if ref is None:
            continue
        k = int(ref[0][-1].split(":")[1])
        if k == 0:
            continue
        forms = forms + P.scope_calls(rng, k, rng.randrange(6, 16))
        ref = pyeval.run_program(forms)
        if ref is None:
            continue
        cases.append(("s%d" % i, "prog", ["std"] + forms, ref[0]))
    impl = C.run_hx([c[:3] for c in cases])
    model = C.run_driver([c[:3] for c in cases])
    judged = 0
    for cid, _, fields, ref in cases:
        got = impl.get(cid)
        if got is None:
            continue
        rep.count(); judged += 1
        rep.nontrivial(("scope", tuple(fields)))
        got_n = [R.norm_result(x) for x in got]
        if got_n != [R.norm_result(x) for x in ref]:
            j = next((j for j in range(min(len(got), len(ref))) if R.norm_result(got[j]) != R.norm_result(ref[j])), None)
            rep.violation({"what": "a closure does not read or assign the binding lexical scoping designates (independent reference evaluator)",
                           "program": fields[1:], "form_index": j, "form": fields[1 + j] if j is not None else None,
                           "implementation": got[j] if j is not None else got, "reference": ref[j] if j is not None else ref})
        elif [R.norm_result(x) for x in model.get(cid, [])] != got_n:
            rep.violation({"broken": "correspondence store/scoping (RuschmModel/Eval.lean <-> interpreter.rs) on a scope-soup program",
                           "program": fields[1:], "implementation": got, "model": model.get(cid)}, no_input=True)
    rep.extra["scope_soup_programs_judged"] = judged


def main(tier, seed):
    rep = C.Report(PROP, tier, seed)
    rng = random.Random(seed)
    rep.cov["rule"] = ("random histories of 10-60 operations over counters from generator procedures and from loops (self tail call, mutual "
                       "tail calls, non-tail recursion) whose closures capture one iteration's frame, closure pairs sharing "
                       "one binding, a global and a shadowing local, vectors aliased through variables, arguments, list "
                       "elements, vector elements and captured references, literal-vector mutation attempts; plus scope soup (nested let / let* / "
                       "applied lambdas / internal definitions over three names with constant shadowing and re-binding, closures "
                       "collected at every level and called in random order, judged by the reference evaluator); distinct = "
                       "distinct histories")
    ok = C.standard_proof_phase(rep, MODULES, directed_search=lambda r: run(r, tier, rng))
    if ok:
        run(rep, tier, rng)
    return rep.finish("cd lean && lake build RuschmProofs.C03 && lake env lean <#print axioms of every theorem in RuschmProofs/C03.lean>")
